(* C16/FmtProofs.v — the integer formatting loop of package fmt (as modelled) produces the
   positional renderings of Spec.v; formatLSN, formatWALFilename, DBState.String. *)
Require Import PG.Base.Bytes PG.Base.GoSlice PG.C16.Types PG.C16.Model PG.C16.Spec.

Lemma digit_upper_char d : 0 <= d < 16 -> digit_upper d = digit_char d.
Proof.
  intros H. assert (E : d = 0 \/ d = 1 \/ d = 2 \/ d = 3 \/ d = 4 \/ d = 5 \/ d = 6 \/ d = 7 \/ d = 8 \/ d = 9 \/
                        d = 10 \/ d = 11 \/ d = 12 \/ d = 13 \/ d = 14 \/ d = 15) by lia.
  repeat (destruct E as [->|E]; [reflexivity|]). subst. reflexivity.
Qed.

(* ---------- digits_be / strip0 ---------- *)
Lemma digits_be_length base n : forall u, length (digits_be base n u) = n.
Proof. induction n; intros; cbn [digits_be]; [reflexivity|]. rewrite app_length, IHn. cbn. lia. Qed.
Lemma digits_be_zero base n : 0 < base -> digits_be base n 0 = repeat 0 n.
Proof.
  intros Hb. induction n; [reflexivity|]. cbn [digits_be]. rewrite Z.div_0_l, Z.mod_0_l by lia.
  rewrite IHn. rewrite <- repeat_cons. reflexivity.
Qed.
Lemma digits_be_range base n : 0 < base -> forall u, Forall (fun d => 0 <= d < base) (digits_be base n u).
Proof.
  intros Hb. induction n; intros u; cbn [digits_be]; [constructor|].
  apply Forall_app. split; [apply IHn|]. constructor; [|constructor]. apply Z.mod_pos_bound. lia.
Qed.
Lemma strip0_cons0 x r : strip0 (0 :: x :: r) = strip0 (x :: r).
Proof. reflexivity. Qed.
Lemma strip0_nz d r : d <> 0 -> strip0 (d :: r) = d :: r.
Proof. intros H. destruct r; [reflexivity|]. cbn [strip0]. destruct (d =? 0) eqn:E; [lia|reflexivity]. Qed.
Lemma strip0_zeros n d : strip0 (repeat 0 n ++ [d]) = [d].
Proof.
  induction n; [reflexivity|]. cbn [repeat app].
  destruct (repeat 0 n ++ [d]) as [|x r] eqn:E; [destruct n; discriminate|].
  rewrite strip0_cons0. exact IHn.
Qed.
Lemma strip0_snoc l x : Exists (fun d => d <> 0) l -> strip0 (l ++ [x]) = strip0 l ++ [x].
Proof.
  induction l as [|d r IH]; intros H; [inversion H|].
  destruct (Z.eq_dec d 0) as [->|Hd].
  - inversion H as [? ? H0|? ? Hr]; subst; [congruence|].
    destruct r as [|y r']; [inversion Hr|].
    cbn [app]. rewrite !strip0_cons0. apply IH. exact Hr.
  - rewrite strip0_nz by exact Hd. cbn [app]. rewrite strip0_nz by exact Hd. reflexivity.
Qed.
Lemma strip0_Forall (P : Z -> Prop) l : Forall P l -> Forall P (strip0 l).
Proof.
  induction l as [|d r IH]; intros H; [constructor|].
  destruct r as [|y r']; [exact H|].
  change (strip0 (d :: y :: r')) with (if d =? 0 then strip0 (y :: r') else d :: y :: r').
  destruct (d =? 0); [|exact H]. apply IH. inversion H; assumption.
Qed.
Lemma strip0_length_le l : (length (strip0 l) <= length l)%nat.
Proof.
  induction l as [|d r IH]; [cbn; lia|]. destruct r as [|y r']; [cbn; lia|].
  change (strip0 (d :: y :: r')) with (if d =? 0 then strip0 (y :: r') else d :: y :: r').
  destruct (d =? 0); [|lia]. change (length (d :: y :: r')) with (S (length (y :: r'))). lia.
Qed.
Lemma digits_be_nonzero base n : 1 < base -> forall u, 0 < u < base ^ Z.of_nat n ->
  Exists (fun d => d <> 0) (digits_be base n u).
Proof.
  intros Hb. induction n; intros u Hu.
  - change (base ^ Z.of_nat 0) with 1 in Hu. lia.
  - cbn [digits_be]. apply Exists_app.
    rewrite Nat2Z.inj_succ, Z.pow_succ_r in Hu by lia.
    destruct (Z_lt_ge_dec (u / base) 1) as [L|G].
    + right. constructor. assert (u / base = 0) by (pose proof (Z.div_pos u base); lia).
      assert (u < base) by (apply Z.div_small_iff in H; lia). rewrite Z.mod_small; lia.
    + left. apply IHn. split; [lia|]. apply Z.div_lt_upper_bound; lia.
Qed.

(* ---------- the formatting loop ---------- *)
Lemma fmt_digits_strip base : 1 < base -> forall n fuel u acc,
  (1 <= n)%nat -> (n <= fuel)%nat -> 0 <= u < base ^ Z.of_nat n ->
  fmt_digits fuel base u acc = map digit_upper (strip0 (digits_be base n u)) ++ acc.
Proof.
  intros Hb. induction n as [|n IH]; intros fuel u acc Hn Hf Hu; [lia|].
  destruct fuel as [|k]; [lia|]. cbn [fmt_digits digits_be].
  destruct (u <? base) eqn:E.
  - rewrite Z.div_small, Z.mod_small by lia. rewrite digits_be_zero by lia.
    rewrite strip0_zeros. reflexivity.
  - destruct n as [|n'].
    { change (base ^ Z.of_nat 1) with (base ^ 1) in Hu. rewrite Z.pow_1_r in Hu. lia. }
    rewrite Nat2Z.inj_succ, Z.pow_succ_r in Hu by lia.
    assert (Hq : 0 <= u / base < base ^ Z.of_nat (S n')).
    { split; [apply Z.div_pos; lia|]. apply Z.div_lt_upper_bound; lia. }
    rewrite (IH k (u / base)) by (lia || exact Hq).
    rewrite strip0_snoc.
    2:{ apply digits_be_nonzero; [lia|]. split; [|lia]. apply Z.div_str_pos. lia. }
    rewrite map_app, <- app_assoc. reflexivity.
Qed.

Lemma map_digit_eq base l : base <= 16 -> Forall (fun d => 0 <= d < base) l -> map digit_upper l = map digit_char l.
Proof.
  intros Hb H. induction H as [|d r Hd _ IH]; [reflexivity|]. cbn [map]. rewrite IH, digit_upper_char by lia. reflexivity.
Qed.

Lemma fmt_digits_spec base n u : 1 < base <= 16 -> (1 <= n <= 64)%nat -> 0 <= u < base ^ Z.of_nat n ->
  fmt_digits 64 base u [] = map digit_char (strip0 (digits_be base n u)).
Proof.
  intros Hb Hn Hu. rewrite (fmt_digits_strip base ltac:(lia) n) by (lia || exact Hu).
  rewrite app_nil_r. apply (map_digit_eq base); [lia|]. apply strip0_Forall, digits_be_range. lia.
Qed.

(* %X *)
Lemma fmtX_hex_min u : 0 <= u < 2 ^ 64 -> fmtX u = hex_min u.
Proof. intros H. unfold fmtX, hex_min. apply fmt_digits_spec; [lia|lia|]. change (16 ^ Z.of_nat 16) with (2 ^ 64). exact H. Qed.

(* %08X *)
Lemma pad_strip0 l : l <> [] ->
  map digit_char l = repeat "0"%byte (length l - length (strip0 l)) ++ map digit_char (strip0 l).
Proof.
  induction l as [|d r IH]; intros H; [congruence|].
  destruct r as [|y r'].
  - cbn [strip0 length]. rewrite Nat.sub_diag. reflexivity.
  - destruct (Z.eq_dec d 0) as [->|Hd].
    + rewrite strip0_cons0. pose proof (strip0_length_le (y :: r')).
      replace (length (0%Z :: y :: r') - length (strip0 (y :: r')))%nat
        with (S (length (y :: r') - length (strip0 (y :: r')))) by (cbn [length] in *; lia).
      cbn [repeat app map]. rewrite <- IH by discriminate. reflexivity.
    + rewrite strip0_nz by exact Hd. rewrite Nat.sub_diag. reflexivity.
Qed.
Lemma fmt08X_hex8 u : 0 <= u < 2 ^ 32 -> fmt08X u = hex8 u.
Proof.
  intros H. unfold fmt08X, fmtX, hex8.
  rewrite (fmt_digits_spec 16 8) by (lia || (change (16 ^ Z.of_nat 8) with (2 ^ 32); exact H)).
  rewrite map_length.
  rewrite (pad_strip0 (digits_be 16 8 u)).
  - rewrite digits_be_length. reflexivity.
  - intros E. apply (f_equal (@length Z)) in E. rewrite digits_be_length in E. discriminate.
Qed.
Lemma hex8_length u : length (hex8 u) = 8%nat.
Proof. unfold hex8. rewrite map_length, digits_be_length. reflexivity. Qed.

(* %d *)
Lemma fmt_d_dec_signed n : - 2 ^ 63 <= n < 2 ^ 63 -> fmt_d n = dec_signed n.
Proof.
  intros H. unfold fmt_d, dec_signed.
  assert (P : 2 ^ 63 < 10 ^ Z.of_nat 20) by (vm_compute; reflexivity).
  destruct (n <? 0) eqn:E; [f_equal|]; apply fmt_digits_spec; lia.
Qed.

(* ---------- formatLSN ---------- *)
Lemma formatLSN_spec lsn : 0 <= lsn < 2 ^ 64 -> formatLSN lsn = lsn_text lsn.
Proof.
  intros H. unfold formatLSN, lsn_text, wrap.
  change 4294967295 with (Z.ones 32). rewrite Z.land_ones, Z.shiftr_div_pow2 by lia.
  assert (H1 : 0 <= lsn / 2 ^ 32 < 2 ^ 32).
  { split; [apply Z.div_pos; lia|]. apply Z.div_lt_upper_bound; [lia|]. change (2 ^ 32 * 2 ^ 32) with (2 ^ 64). lia. }
  assert (H2 : 0 <= lsn mod 2 ^ 32 < 2 ^ 32) by (apply Z.mod_pos_bound; lia).
  rewrite (Z.mod_small (lsn / 2 ^ 32)), (Z.mod_small (lsn mod 2 ^ 32)) by lia.
  rewrite !fmtX_hex_min by lia. reflexivity.
Qed.

(* ---------- formatWALFilename ---------- *)
Lemma formatWALFilename_spec lsn tli segsz :
  0 <= lsn < 2 ^ 64 -> 0 <= tli < 2 ^ 32 -> 0 < segsz < 2 ^ 32 ->
  formatWALFilename lsn tli segsz = Ok (wal_file_name tli segsz lsn).
Proof.
  intros Hl Ht Hs. unfold formatWALFilename, wal_file_name, go_div, go_mod.
  destruct (segsz =? 0) eqn:E0; [lia|]. rewrite E0. cbn [bind].
  change 4294967296 with (2 ^ 32).
  assert (Hp : 1 <= 2 ^ 32 / segsz) by (apply Z.div_le_lower_bound; lia).
  destruct (2 ^ 32 / segsz =? 0) eqn:E1; [lia|]. cbn [bind].
  assert (W : forall x, 0 <= wrap 32 x < 2 ^ 32) by (intros; unfold wrap; apply Z.mod_pos_bound; lia).
  rewrite !fmt08X_hex8 by (apply W || lia). reflexivity.
Qed.
(* a zero segment size is replaced by 16 MiB; no uint32 segment size makes a division panic *)
Lemma formatWALFilename_no_panic lsn tli segsz : 0 <= segsz < 2 ^ 32 -> formatWALFilename lsn tli segsz <> Panic.
Proof.
  intros Hs. unfold formatWALFilename, go_div, go_mod.
  set (s := if segsz =? 0 then 16 * 1024 * 1024 else segsz).
  assert (Hs' : 0 < s < 2 ^ 32) by (unfold s; destruct (segsz =? 0) eqn:E; lia).
  destruct (s =? 0) eqn:E0; [lia|]. cbn [bind].
  assert (Hp : 1 <= 4294967296 / s) by (apply Z.div_le_lower_bound; lia).
  destruct (4294967296 / s =? 0) eqn:E1; [lia|]. cbn [bind]. discriminate.
Qed.

(* for the legal segment sizes the name is (timeline, high half of the LSN, low half / size) *)
Lemma wal_file_name_legal_eq tli segsz lsn :
  legal_segsz segsz -> 0 <= lsn < 2 ^ 64 -> wal_file_name tli segsz lsn = wal_file_name_legal tli segsz lsn.
Proof.
  intros (k & Hk & ->) Hl. unfold wal_file_name, wal_file_name_legal, wrap.
  assert (Hs : 0 < 2 ^ k) by (apply Z.pow_pos_nonneg; lia).
  assert (Hq : 0 < 2 ^ (32 - k)) by (apply Z.pow_pos_nonneg; lia).
  assert (E : 2 ^ 32 = 2 ^ k * 2 ^ (32 - k)) by (rewrite <- Z.pow_add_r by lia; f_equal; lia).
  assert (P : 2 ^ 32 / 2 ^ k = 2 ^ (32 - k)) by (rewrite E, Z.mul_comm, Z.div_mul by lia; reflexivity).
  rewrite P. rewrite Z.div_div by lia. rewrite <- E.
  assert (H1 : 0 <= lsn / 2 ^ 32 < 2 ^ 32).
  { split; [apply Z.div_pos; lia|]. apply Z.div_lt_upper_bound; [lia|]. change (2 ^ 32 * 2 ^ 32) with (2 ^ 64). lia. }
  rewrite (Z.mod_small (lsn / 2 ^ 32)) by lia.
  assert (H2 : (lsn / 2 ^ k) mod 2 ^ (32 - k) = lsn mod 2 ^ 32 / 2 ^ k).
  { rewrite E. rewrite Z.rem_mul_r by lia.
    rewrite (Z.mul_comm (2 ^ k)), Z.add_comm, Z.div_add_l by lia.
    rewrite (Z.div_small (lsn mod 2 ^ k)) by (apply Z.mod_pos_bound; lia). lia. }
  rewrite H2. rewrite (Z.mod_small (lsn mod 2 ^ 32 / 2 ^ k)); [reflexivity|].
  pose proof (Z.mod_pos_bound lsn (2 ^ 32) ltac:(lia)).
  split; [apply Z.div_pos; lia|]. apply Z.div_lt_upper_bound; nia.
Qed.

(* ---------- DBState.String ---------- *)
Lemma DBState_String_spec s : - 2 ^ 31 <= s < 2 ^ 31 -> DBState_String s = state_text s.
Proof.
  intros H.
  assert (E : s = 0 \/ s = 1 \/ s = 2 \/ s = 3 \/ s = 4 \/ s = 5 \/ s = 6 \/ (s < 0 \/ 6 < s)) by lia.
  repeat (destruct E as [->|E]; [reflexivity|]).
  unfold DBState_String, state_text.
  destruct (s =? 0) eqn:E0; [lia|]. destruct (s =? 1) eqn:E1; [lia|]. destruct (s =? 2) eqn:E2; [lia|].
  destruct (s =? 3) eqn:E3; [lia|]. destruct (s =? 4) eqn:E4; [lia|]. destruct (s =? 5) eqn:E5; [lia|].
  destruct (s =? 6) eqn:E6; [lia|].
  destruct ((0 <=? s) && (s <? 7)) eqn:E7; [lia|].
  rewrite fmt_d_dec_signed by lia. reflexivity.
Qed.
