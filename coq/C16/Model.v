(* C16/Model.v — Gallina model of pgdump/control.go (worktree after the fix: commits for D49-D51).
   One definition per Go function, same names.  Line numbers refer to pgdump/control.go. *)
Require Import PG.Base.Bytes PG.Base.GoSlice PG.C16.Types.

(* ---------- fmt: integer verbs (fmtInteger in package fmt) ---------- *)
(* "0123456789ABCDEF"[d] *)
Definition digit_upper (d : Z) : byte := z2b (if d <? 10 then 48 + d else 55 + d).
(* digits are produced least-significant first into the end of a buffer:
     for u >= base { buf[i] = digit(u % base); u /= base }; buf[i] = digit(u)
   The loop runs at most 64 times for a uint64; running out of fuel (impossible for
   0 <= u < 2^64, base >= 2: see fmt_digits_spec in Proofs.v) yields the empty string, which no
   genuine result is. *)
Fixpoint fmt_digits (fuel : nat) (base u : Z) (acc : bytes) : bytes :=
  match fuel with
  | O => []
  | S k => if u <? base then digit_upper u :: acc
           else fmt_digits k base (u / base) (digit_upper (u mod base) :: acc)
  end.
(* %X of an unsigned value *)
Definition fmtX (u : Z) : bytes := fmt_digits 64 16 u [].
(* %08X : zero flag, width 8 -> digits, then '0' up to 8 characters *)
Definition fmt08X (u : Z) : bytes :=
  let d := fmtX u in repeat "0"%byte (8 - length d) ++ d.
(* %d of a signed value: negative := u < 0; u = -u; ... '-' *)
Definition fmt_d (n : Z) : bytes :=
  if n <? 0 then "-"%byte :: fmt_digits 64 10 (- n) [] else fmt_digits 64 10 n [].

(* ---------- control.go:96-115  func (s DBState) String() ---------- *)
Definition DBState_String (s : Z) : bytes :=
  if s =? 0 then str "starting up"
  else if s =? 1 then str "shut down"
  else if s =? 2 then str "shut down in recovery"
  else if s =? 3 then str "shutting down"
  else if s =? 4 then str "in crash recovery"
  else if s =? 5 then str "in archive recovery"
  else if s =? 6 then str "in production"
  else str "unknown (" ++ fmt_d s ++ str ")".

(* control.go:118 *)
Definition walLevelNames : list bytes := [str "minimal"; str "replica"; str "logical"].

(* ---------- formatLSN: uint32(lsn >> 32), uint32(lsn & 0xFFFFFFFF), "%X/%X" ---------- *)
Definition formatLSN (lsn : Z) : bytes :=
  let high := wrap 32 (Z.shiftr lsn 32) in
  let low := wrap 32 (Z.land lsn 4294967295) in
  fmtX high ++ str "/" ++ fmtX low.

(* Go integer division panics on a zero divisor *)
Definition go_div (a b : Z) : res Z := if b =? 0 then Panic else Ok (a / b).
Definition go_mod (a b : Z) : res Z := if b =? 0 then Panic else Ok (a mod b).

(* ---------- formatWALFilename(lsn uint64, timeline uint32, segSize uint32) ---------- *)
Definition formatWALFilename (lsn timeline segSize : Z) : res bytes :=
  let segSize := if segSize =? 0 then 16 * 1024 * 1024 else segSize in
  segNo <- go_div lsn segSize ;;
  segsPerXLogID <- go_div 4294967296 segSize ;;
  hi <- go_div segNo segsPerXLogID ;;
  lo <- go_mod segNo segsPerXLogID ;;
  Ok (fmt08X timeline ++ fmt08X (wrap 32 hi) ++ fmt08X (wrap 32 lo)).

(* pgEpochToTime: time.Unix(pgTime, 0).UTC(), kept as the number of seconds *)
Definition pgEpochToTime (pgTime : Z) : Z := pgTime.

(* ---------- makeCRC32CTable ---------- *)
Definition polynomial : Z := 2197175160. (* 0x82F63B78 *)
(* if crc&1 != 0 { crc = (crc >> 1) ^ polynomial } else { crc >>= 1 } *)
Definition table_step (crc : Z) : Z :=
  if negb (Z.land crc 1 =? 0) then Z.lxor (Z.shiftr crc 1) polynomial else Z.shiftr crc 1.
Fixpoint iter {A} (n : nat) (f : A -> A) (x : A) : A :=
  match n with O => x | S k => iter k f (f x) end.
(* for i := 0; i < 256; i++ { crc := i; for j := 0; j < 8; j++ {...}; table[i] = crc } *)
Definition makeCRC32CTable : list Z :=
  map (fun i => iter 8 table_step (Z.of_nat i)) (seq 0 256).

(* ---------- verifyCRC32C ---------- *)
(* crc = table[(crc^uint32(b))&0xFF] ^ (crc >> 8)   (a [256]uint32 indexed under &0xFF: no panic) *)
Definition crc_update (table : list Z) (crc : Z) (b : byte) : Z :=
  Z.lxor (nth (Z.to_nat (Z.land (Z.lxor crc (b2z b)) 255)) table 0) (Z.shiftr crc 8).
Definition verifyCRC32C (data : gslice) (expected : Z) : bool :=
  let table := makeCRC32CTable in
  let crc := fold_left (crc_update table) (vis data) 4294967295 in
  Z.lxor crc 4294967295 =? expected.

(* ---------- ParseControlFile ---------- *)
(* binary.LittleEndian.UintNN(data[a:b]) *)
Definition u64_at (s : gslice) (a b : Z) : res Z := d <- slice s a b ;; u64 d 0.
Definition u32_at (s : gslice) (a b : Z) : res Z := d <- slice s a b ;; u32 d 0.
(* data[i] != 0 *)
Definition nz_at (s : gslice) (i : Z) : res bool := b <- idx s i ;; Ok (negb (b =? 0)).

Definition ParseControlFile (data : gslice) : res (perr + ControlFile) :=
  if len data <? 296 then Ok (inl ETooSmall) else                       (* :123 *)
  sysid <- u64_at data 0 8 ;;                                           (* :133 *)
  ctlver <- u32_at data 8 12 ;;                                         (* :136 *)
  catver <- u32_at data 12 16 ;;                                        (* :139 *)
  st <- u32_at data 16 20 ;;                                            (* :145 DBState(uint32) = int32 *)
  let state := sint32 st in
  checkpointLSN <- u64_at data 32 40 ;;                                 (* :153 *)
  redoLSN <- u64_at data 40 48 ;;                                       (* :158 *)
  tli <- u32_at data 48 52 ;;
  prevtli <- u32_at data 52 56 ;;
  fpw <- nz_at data 56 ;;
  nextxid <- u32_at data 64 68 ;;
  epoch <- u32_at data 68 72 ;;
  nextoid <- u32_at data 72 76 ;;
  nextmulti <- u32_at data 76 80 ;;
  nextmoff <- u32_at data 80 84 ;;
  oldestxid <- u32_at data 84 88 ;;
  oldestxiddb <- u32_at data 88 92 ;;
  oldestmulti <- u32_at data 92 96 ;;
  oldestmultidb <- u32_at data 96 100 ;;
  cpt <- u64_at data 104 112 ;;                                         (* int64(uint64) *)
  let cpTime := sint64 cpt in
  oldestcts <- u32_at data 112 116 ;;
  newestcts <- u32_at data 116 120 ;;
  oldestactive <- u32_at data 120 124 ;;
  walLevel <- u32_at data 172 176 ;;                                    (* int(uint32): 64-bit int, no sign *)
  let wl := if (walLevel >=? 0) && (walLevel <? Z.of_nat (length walLevelNames))
            then nth (Z.to_nat walLevel) walLevelNames [] else [] in
  hints <- nz_at data 176 ;;
  maxconn <- u32_at data 180 184 ;;
  maxwork <- u32_at data 184 188 ;;
  maxsend <- u32_at data 188 192 ;;
  maxprep <- u32_at data 192 196 ;;
  maxlock <- u32_at data 196 200 ;;
  trackts <- nz_at data 200 ;;
  maxalign <- u32_at data 204 208 ;;
  fbits <- u64_at data 208 216 ;;                                       (* Float64frombits(..) == 1234567.0 *)
  let floatok := fbits =? 4698053236609777664 in                        (* 0x4132D68700000000, the only bit pattern equal to 1234567.0 *)
  blcksz <- u32_at data 216 220 ;;
  relseg <- u32_at data 220 224 ;;
  xlogblcksz <- u32_at data 224 228 ;;
  xlogsegsz <- u32_at data 228 232 ;;
  namelen <- u32_at data 232 236 ;;
  indexkeys <- u32_at data 236 240 ;;
  toastchunk <- u32_at data 240 244 ;;
  loblk <- u32_at data 244 248 ;;
  cksum <- u32_at data 252 256 ;;
  let blcksz' := if blcksz =? 0 then 8192 else blcksz in
  let xlogblcksz' := if xlogblcksz =? 0 then 8192 else xlogblcksz in
  let xlogsegsz' := if xlogsegsz =? 0 then 16 * 1024 * 1024 else xlogsegsz in
  walfile <- formatWALFilename redoLSN tli xlogsegsz' ;;
  let crcOffset := 288 in
  '(crc, valid) <- (if len data >? crcOffset + 4
                    then c <- u32_at data crcOffset (crcOffset + 4) ;;
                         d <- slice_to data crcOffset ;;
                         Ok (c, verifyCRC32C d c)
                    else Ok (0, false)) ;;
  Ok (inr {|
    PGControlVersion := ctlver; CatalogVersionNo := catver; SystemIdentifier := sysid;
    State := state; StateString := DBState_String state;
    CheckpointLSN := formatLSN checkpointLSN; RedoLSN := formatLSN redoLSN; RedoWALFile := walfile;
    TimeLineID := tli; PrevTimeLineID := prevtli; FullPageWrites := fpw;
    NextXIDEpoch := epoch; NextXID := nextxid; NextOID := nextoid; NextMulti := nextmulti;
    NextMultiOffset := nextmoff; OldestXID := oldestxid; OldestXIDDB := oldestxiddb;
    OldestActiveXID := oldestactive; OldestMulti := oldestmulti; OldestMultiDB := oldestmultidb;
    OldestCommitTsXID := oldestcts; NewestCommitTsXID := newestcts;
    CheckpointTime := pgEpochToTime cpTime;
    WALLevel := wl; WALLogHints := hints;
    MaxConnections := sint32 maxconn; MaxWorkerProcesses := sint32 maxwork; MaxWALSenders := sint32 maxsend;
    MaxPreparedXacts := sint32 maxprep; MaxLocksPerXact := sint32 maxlock; TrackCommitTS := trackts;
    MaxAlign := maxalign; BlockSize := blcksz'; BlocksPerSeg := relseg; WALBlockSize := xlogblcksz';
    WALSegmentSize := xlogsegsz'; NameDataLen := namelen; IndexMaxKeys := indexkeys;
    TOASTMaxChunk := toastchunk; LargeObjectChunk := loblk;
    FloatFormatOK := floatok; DataChecksumsEnabled := negb (cksum =? 0);
    CRC := crc; CRCValid := valid |}).
