Require Import PG.C16.Types PG.C16.Model PG.C16.Spec.
Require Extraction. Require ExtrOcamlBasic.
Extraction "model.ml" ParseControlFile enc_control expected crc_covered formatLSN lsn_text formatWALFilename wal_file_name wal_file_name_legal DBState_String state_text verifyCRC32C crc32c makeCRC32CTable crc_shift.
