(* C16/LayoutProofs.v — where the computed C layout of Spec.v puts each member of ControlFileData
   (cross-check against the offsets listed in DESIGN.md §5 C16), and what the image holds there. *)
Require Import PG.Base.Bytes PG.Base.GoSlice PG.C16.Types PG.C16.Spec.

Ltac by_layout :=
  intros; unfold crc_covered, crc_offset, enc_control, control_fields;
  match goal with c : control |- _ => destruct (c_pg12 c) end; reflexivity.

(* ---------- computed offsets = the documented ones ---------- *)
Lemma checkpoint_offsets p :
  map (Z.add 40) (offsets 0 (checkpoint_fields p)) = [40; 48; 52; 56; 64; 72; 76; 80; 84; 88; 92; 96; 104; 112; 116; 120].
Proof. reflexivity. Qed.
Lemma checkpoint_size p : blen (enc_struct (checkpoint_fields p)) = 88 /\ struct_align (checkpoint_fields p) = 8.
Proof. split; reflexivity. Qed.
Lemma control_offsets c :
  offsets 0 (control_fields c) =
  [0; 8; 12; 16; 24; 32; 40; 128; 136; 144; 152; 160; 168; 172; 176; 180; 184; 188; 192; 196; 200; 204; 208;
   216; 220; 224; 228; 232; 236; 240; 244] ++ (if c_pg12 c then [248; 249] else [248]) ++ [252; 256; 288].
Proof. unfold control_fields. destruct (c_pg12 c); reflexivity. Qed.
Lemma control_size c : blen (enc_control c) = 296.
Proof. by_layout. Qed.
Lemma control_crc_offset c : crc_offset c = 288.
Proof. by_layout. Qed.

(* ---------- what lies where (any file padding [pad] after the struct) ---------- *)
Section At.
  Variables (c : control) (pad : bytes).
  Let img := enc_control c ++ pad.
  Let p := c_cp c.
  Local Ltac at_ := subst img p; by_layout.

  Lemma at_sysid : sub img 0 8 = le_enc 8 (c_sysid c). Proof. at_. Qed.
  Lemma at_ctlver : sub img 8 12 = le_enc 4 (c_ctlver c). Proof. at_. Qed.
  Lemma at_catver : sub img 12 16 = le_enc 4 (c_catver c). Proof. at_. Qed.
  Lemma at_state : sub img 16 20 = le_enc 4 (wrap 32 (c_state c)). Proof. at_. Qed.
  Lemma at_checkpoint : sub img 32 40 = le_enc 8 (c_checkpoint c). Proof. at_. Qed.
  Lemma at_redo : sub img 40 48 = le_enc 8 (cp_redo p). Proof. at_. Qed.
  Lemma at_tli : sub img 48 52 = le_enc 4 (cp_tli p). Proof. at_. Qed.
  Lemma at_prevtli : sub img 52 56 = le_enc 4 (cp_prevtli p). Proof. at_. Qed.
  Lemma at_fpw : byte_at img 56 = b2z (z2b (b2i (cp_fpw p))). Proof. at_. Qed.
  (* FullTransactionId: one 64-bit member; its low and high halves *)
  Lemma at_nextxid_lo : sub img 64 68 = le_enc 4 (cp_nextxid p). Proof. at_. Qed.
  Lemma at_nextxid_hi : sub img 68 72 = le_enc 4 (cp_nextxid p / 256 / 256 / 256 / 256). Proof. at_. Qed.
  Lemma at_nextoid : sub img 72 76 = le_enc 4 (cp_nextoid p). Proof. at_. Qed.
  Lemma at_nextmulti : sub img 76 80 = le_enc 4 (cp_nextmulti p). Proof. at_. Qed.
  Lemma at_nextmoff : sub img 80 84 = le_enc 4 (cp_nextmoff p). Proof. at_. Qed.
  Lemma at_oldestxid : sub img 84 88 = le_enc 4 (cp_oldestxid p). Proof. at_. Qed.
  Lemma at_oldestxiddb : sub img 88 92 = le_enc 4 (cp_oldestxiddb p). Proof. at_. Qed.
  Lemma at_oldestmulti : sub img 92 96 = le_enc 4 (cp_oldestmulti p). Proof. at_. Qed.
  Lemma at_oldestmultidb : sub img 96 100 = le_enc 4 (cp_oldestmultidb p). Proof. at_. Qed.
  Lemma at_cptime : sub img 104 112 = le_enc 8 (wrap 64 (cp_time p)). Proof. at_. Qed.
  Lemma at_oldestcts : sub img 112 116 = le_enc 4 (cp_oldestcts p). Proof. at_. Qed.
  Lemma at_newestcts : sub img 116 120 = le_enc 4 (cp_newestcts p). Proof. at_. Qed.
  Lemma at_oldestactive : sub img 120 124 = le_enc 4 (cp_oldestactive p). Proof. at_. Qed.
  Lemma at_wal_level : sub img 172 176 = le_enc 4 (wrap 32 (c_wal_level c)). Proof. at_. Qed.
  Lemma at_hints : byte_at img 176 = b2z (z2b (b2i (c_wal_log_hints c))). Proof. at_. Qed.
  Lemma at_maxconn : sub img 180 184 = le_enc 4 (wrap 32 (c_maxconn c)). Proof. at_. Qed.
  Lemma at_maxwork : sub img 184 188 = le_enc 4 (wrap 32 (c_maxwork c)). Proof. at_. Qed.
  Lemma at_maxsend : sub img 188 192 = le_enc 4 (wrap 32 (c_maxsend c)). Proof. at_. Qed.
  Lemma at_maxprep : sub img 192 196 = le_enc 4 (wrap 32 (c_maxprep c)). Proof. at_. Qed.
  Lemma at_maxlock : sub img 196 200 = le_enc 4 (wrap 32 (c_maxlock c)). Proof. at_. Qed.
  Lemma at_trackts : byte_at img 200 = b2z (z2b (b2i (c_trackts c))). Proof. at_. Qed.
  Lemma at_maxalign : sub img 204 208 = le_enc 4 (c_maxalign c). Proof. at_. Qed.
  Lemma at_floatformat : sub img 208 216 = le_enc 8 (c_floatformat c). Proof. at_. Qed.
  Lemma at_blcksz : sub img 216 220 = le_enc 4 (c_blcksz c). Proof. at_. Qed.
  Lemma at_relseg : sub img 220 224 = le_enc 4 (c_relseg c). Proof. at_. Qed.
  Lemma at_xlogblcksz : sub img 224 228 = le_enc 4 (c_xlogblcksz c). Proof. at_. Qed.
  Lemma at_xlogsegsz : sub img 228 232 = le_enc 4 (c_xlogsegsz c). Proof. at_. Qed.
  Lemma at_namelen : sub img 232 236 = le_enc 4 (c_namelen c). Proof. at_. Qed.
  Lemma at_indexkeys : sub img 236 240 = le_enc 4 (c_indexkeys c). Proof. at_. Qed.
  Lemma at_toastchunk : sub img 240 244 = le_enc 4 (c_toastchunk c). Proof. at_. Qed.
  Lemma at_loblk : sub img 244 248 = le_enc 4 (c_loblk c). Proof. at_. Qed.
  Lemma at_cksumver : sub img 252 256 = le_enc 4 (c_cksumver c). Proof. at_. Qed.
  Lemma at_crc : sub img 288 292 = le_enc 4 (c_crc c). Proof. at_. Qed.
  (* the bytes the CRC covers: everything before the crc member *)
  Lemma at_covered t : sub (img ++ t) 0 288 = crc_covered c. Proof. at_. Qed.
  Lemma covered_firstn : crc_covered c = firstn 288 img. Proof. at_. Qed.
End At.
