(* C16/Types.v — the observable result type: Go's  type ControlFile struct  (pgdump/control.go:13-81),
   shared by the model (which computes it from bytes) and the spec (which computes it from the
   abstract control data).  Go strings are byte lists; CheckpointTime is kept as seconds since the
   Unix epoch (time.Unix(sec,0).UTC() is observed through .Unix()).  PGVersionMajor
   (inferPGVersion) is NOT part of property C16 (observation O1, pinned by TestInferPGVersion) and
   is left out. *)
Require Import PG.Base.Bytes.

(* byte-string literals: [str "abc"] is the list of the three bytes (a String Notation on a wrapper
   type, so that no Coq [string]/[ascii] value appears in the extracted program) *)
Inductive blit := BLit (l : list byte).
Definition blit_of (l : list byte) : blit := BLit l.
Definition blit_to (b : blit) : list byte := match b with BLit l => l end.
Declare Scope blit_scope.
Delimit Scope blit_scope with blit.
String Notation blit blit_of blit_to : blit_scope.
Definition str (b : blit) : bytes := blit_to b.
Arguments str b%blit.

Inductive perr : Set := ETooSmall.

Record ControlFile := {
  PGControlVersion : Z; CatalogVersionNo : Z; SystemIdentifier : Z;
  State : Z; StateString : bytes;
  CheckpointLSN : bytes; RedoLSN : bytes; RedoWALFile : bytes;
  TimeLineID : Z; PrevTimeLineID : Z; FullPageWrites : bool;
  NextXIDEpoch : Z; NextXID : Z; NextOID : Z; NextMulti : Z; NextMultiOffset : Z;
  OldestXID : Z; OldestXIDDB : Z; OldestActiveXID : Z; OldestMulti : Z; OldestMultiDB : Z;
  OldestCommitTsXID : Z; NewestCommitTsXID : Z;
  CheckpointTime : Z;
  WALLevel : bytes; WALLogHints : bool;
  MaxConnections : Z; MaxWorkerProcesses : Z; MaxWALSenders : Z; MaxPreparedXacts : Z; MaxLocksPerXact : Z;
  TrackCommitTS : bool;
  MaxAlign : Z; BlockSize : Z; BlocksPerSeg : Z; WALBlockSize : Z; WALSegmentSize : Z;
  NameDataLen : Z; IndexMaxKeys : Z; TOASTMaxChunk : Z; LargeObjectChunk : Z;
  FloatFormatOK : bool; DataChecksumsEnabled : bool;
  CRC : Z; CRCValid : bool }.
