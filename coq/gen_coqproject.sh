#!/bin/sh
# regenerate _CoqProject from the .v files present (Extract.v files are run separately)
cd "$(dirname "$0")"
{ echo "-Q . PG"; echo "-arg -w -arg -notation-overridden,-deprecated-hint-without-locality,-deprecated-syntactic-definition"; find . -name '*.v' ! -name 'Extract.v' | sed 's|^\./||' | LC_ALL=C sort; } > _CoqProject
coq_makefile -f _CoqProject -o Makefile.coq >/dev/null 2>&1
