(* Compose — the per-property developments closed against each other.  Statements only; proofs in coq/Compose/*.v.

   DecodeType_full o = pgdump.DecodeType, all of it: C04's dispatch and scalar decoders, with
     DecodeNumeric := C05's model, the OidJSONB branch := C06's model (numbers by C05's model),
     decodeArray := C07's model whose element decoder is DecodeType_full itself (Compose_array_equation).
   The only parameters left are the four library calls that are not logic, bundled in [o]: Go's "%g" and "$%.2f"
   float printing, strings.ToValidUTF8, encoding/json (the fields o_DecodeNumeric/o_jsonb_branch/o_decodeArray of [o]
   are ignored).  Every theorem below holds for EVERY such [o]; none has a hypothesis about the decoder. *)
Require Import PG.Base.Bytes PG.Base.GoSlice PG.Base.Value.
Require Import PG.C04.Lib PG.C04.Model PG.C04.ExamplesProofs.
Require Import PG.C02.Model PG.C02.Spec.
Require Import PG.C03.Model PG.C03.Pure PG.C03.Spec PG.C03.SpecProofs PG.C03.Main.
Require PG.C05.Model PG.C05.Spec PG.C05.LayoutProofs.
Require PG.C06.JsonbModel PG.C06.JsonbSpec.
Require PG.C07.Model PG.C07.Spec.
Require PG.C01.Spec.
Require PG.C01.Model.
Require Import PG.Compose.TailProofs PG.Compose.JsonbTailProofs PG.Compose.Full PG.Compose.FullProofs PG.Compose.RowProofs
               PG.Compose.CatProofs.
Require Import Coq.Sorting.Permutation.

(* ---- 1. the C04 model never looks beyond len(data), hence satisfies C03's hypothesis DT_ok ---- *)
Theorem Compose_C04_tail_independent : forall o v t1 t2 oid,
  DecodeTypeO o {| vis := v; tail := t1 |} oid = DecodeTypeO o {| vis := v; tail := t2 |} oid.
Proof. exact DecodeTypeO_tail_independent. Qed.
Print Assumptions Compose_C04_tail_independent.
Theorem Compose_C04_DT_ok : forall o s oid, DecodeTypeO o s oid = Ok (decode_o o (vis s) oid).
Proof. exact DecodeTypeO_DT_ok. Qed.
Print Assumptions Compose_C04_DT_ok.
(* the same for C06's jsonb decoder (C07 has its own: C07_reads_within_len) *)
Theorem Compose_C06_tail_independent : forall DecodeNumeric safeString v t1 t2,
  PG.C06.JsonbModel.DecodeType_jsonb DecodeNumeric safeString {| vis := v; tail := t1 |} =
  PG.C06.JsonbModel.DecodeType_jsonb DecodeNumeric safeString {| vis := v; tail := t2 |}.
Proof. exact DecodeType_jsonb_ti. Qed.
Print Assumptions Compose_C06_tail_independent.

(* ---- 2. the composed decoder: total, local, and equal to the Go code at the three hand-over points ---- *)
Theorem Compose_full_no_panic : forall o s oid, DecodeType_full o s oid <> Panic.
Proof. exact DecodeType_full_no_panic. Qed.
Print Assumptions Compose_full_no_panic.
Theorem Compose_full_tail_independent : forall o v t1 t2 oid,
  DecodeType_full o {| vis := v; tail := t1 |} oid = DecodeType_full o {| vis := v; tail := t2 |} oid.
Proof. exact DecodeType_full_tail_independent. Qed.
Print Assumptions Compose_full_tail_independent.
Theorem Compose_full_DT_ok : forall o s oid, DecodeType_full o s oid = Ok (decode_full o (vis s) oid).
Proof. exact DecodeType_full_DT_ok. Qed.
Print Assumptions Compose_full_DT_ok.
(* `case OidNumeric: return DecodeNumeric(data)` — C05's model on the slice itself, capacity included *)
Theorem Compose_numeric_equation : forall o s, len s <> 0 -> DecodeType_full o s 1700 = PG.C05.Model.DecodeNumeric s.
Proof. exact full_numeric. Qed.
Print Assumptions Compose_numeric_equation.
(* `case OidJSONB:` — C06's model of that branch, with C05's numeric decoder inside (and C06's decodeJNumeric with it
   is C05's model of the same Go function) *)
Theorem Compose_jsonb_equation : forall o s,
  PG.C06.JsonbModel.lift (DecodeType_full o s 3802) =
  PG.C06.JsonbModel.DecodeType_jsonb num_full (safeString (o_to_valid_utf8 o)) s.
Proof. exact full_jsonb. Qed.
Print Assumptions Compose_jsonb_equation.
Theorem Compose_jnumeric_agree : forall s, PG.C06.JsonbModel.decodeJNumeric num_full s = PG.C05.Model.decodeJNumeric s.
Proof. exact decodeJNumeric_agree. Qed.
Print Assumptions Compose_jnumeric_agree.
(* `if elemOid, ok := arrayElemTypes[oid]; ok { return decodeArray(data, elemOid) }` — C07's model with DecodeType_full
   ITSELF decoding each element: the recursion of types.go, closed because element types are never array types *)
Theorem Compose_array_equation : forall o s oid e, len s <> 0 -> lookup oid arrayElemTypes = Some e ->
  DecodeType_full o s oid = PG.C07.Model.decodeArray (fun b eo => DecodeType_full o (exact b) eo) s e.
Proof. exact full_array. Qed.
Print Assumptions Compose_array_equation.
Theorem Compose_elem_not_array : forall k e, lookup k arrayElemTypes = Some e -> lookup e arrayElemTypes = None.
Proof. exact elem_not_array. Qed.
Print Assumptions Compose_elem_not_array.
(* C04 and C07 model the same Go tables *)
Theorem Compose_tables_same : forall k,
  PG.C07.Model.lookup k PG.C07.Model.arrayElemTypes = lookup k arrayElemTypes /\
  PG.C07.Model.lookup k PG.C07.Model.fixedLengths = lookup k fixedLengths.
Proof. intros k. split; [apply lookup_elem_same|apply fixedLengths_same]. Qed.
Print Assumptions Compose_tables_same.

(* ---- 3. C03 for the real decoder ---- *)
(* every tuple, every schema, every capacity tail: no panic, and the result is the pure layout function with the real
   decoder applied to exactly the selected byte ranges *)
Theorem Compose_refines : forall o t cols,
  DecodeTuple (DecodeType_full o) (Some t) cols =
  Ok (p_decode (decode_full o) (option_map vis (t_bitmap t)) (vis (t_data t)) cols).
Proof. exact refines_full. Qed.
Print Assumptions Compose_refines.
Theorem Compose_decode_tuple : forall o t cols ds,
  fits_prefix cols ds -> nums_ok cols 0 -> cols <> [] ->
  vis (t_data t) = fill 0 cols ds -> option_map vis (t_bitmap t) = bitmap_for ds ->
  DecodeTuple (DecodeType_full o) (Some t) cols = Ok (Some (expected_row (decode_full o) cols ds)).
Proof. exact decode_tuple_full. Qed.
Print Assumptions Compose_decode_tuple.
Theorem Compose_decode_stored : forall o head flags2 mask_hi extra cols ds tl,
  fits_prefix cols ds -> nums_ok cols 0 -> cols <> [] ->
  blen head = 18 -> 0 <= flags2 < 32 -> 0 <= mask_hi < 32768 -> 0 <= extra ->
  Z.of_nat (length ds) < 2048 -> maxalign (23 + (Z.of_nat (length ds) + 7) / 8) + 8 * extra <= 255 ->
  let t := stored_tuple head flags2 mask_hi extra cols ds in
  exists ht, ParseHeapTuple {| vis := enc_tuple t; tail := tl |} = Ok (Some ht) /\
             DecodeTuple (DecodeType_full o) (Some ht) cols = Ok (Some (expected_row (decode_full o) cols ds)).
Proof. exact decode_stored_full. Qed.
Print Assumptions Compose_decode_stored.
Theorem Compose_no_panic_DecodeTuple : forall o ot cols, DecodeTuple (DecodeType_full o) ot cols <> Panic.
Proof. exact DecodeTuple_full_no_panic. Qed.
Print Assumptions Compose_no_panic_DecodeTuple.
Theorem Compose_no_panic_ReadRows : forall o s cols visibleOnly, ReadRows (DecodeType_full o) s cols visibleOnly <> Panic.
Proof. exact ReadRows_full_no_panic. Qed.
Print Assumptions Compose_no_panic_ReadRows.
(* a whole heap file as C01's reference writer lays it out (any number of pages, dead versions, dead line pointers,
   all-zero blocks): ReadRows returns exactly the live rows, in physical order *)
Theorem Compose_heap_rows : forall o (cols : list Column) (h : PG.C01.Spec.heap (list datum)) tl,
  cols <> [] -> nums_ok cols 0 -> PG.C01.Spec.wf_heap cols PG.C01.Spec.idds (fun _ => True) h ->
  ReadRows (DecodeType_full o) {| vis := PG.C01.Spec.enc_heap cols PG.C01.Spec.idds h; tail := tl |} cols true =
  Ok (map (expected_row (decode_full o) cols) (PG.C01.Spec.live_rows h)).
Proof. exact heap_rows_full. Qed.
Print Assumptions Compose_heap_rows.

(* ---- values that cross property boundaries, through the one real decoder ---- *)
(* C07_roundtrip with the real element decoder: elements in storage order, nil exactly at the NULL positions, every
   other element = DecodeType_full on exactly that element's bytes (so an int4[] element is C04_int4's value, a
   numeric[] element C05's, a jsonb[] element C06's) *)
Theorem Compose_array_roundtrip : forall o a t,
  PG.C07.Spec.wf_arr a ->
  DecodeType_full o {| vis := PG.C07.Spec.enc_array a; tail := t |} (PG.C07.Spec.t_arr (PG.C07.Spec.a_ty a)) =
  Ok (VList (map (fun e => match e with
                           | None => VNil
                           | Some x => decode_full o (PG.C07.Spec.elem_data x) (PG.C07.Spec.t_elem (PG.C07.Spec.a_ty a))
                           end) (PG.C07.Spec.a_elems a))).
Proof. exact array_roundtrip_full. Qed.
Print Assumptions Compose_array_roundtrip.
(* C06_oid with the real numeric decoder: the document, its numbers being C05's reading of their payload *)
Theorem Compose_jsonb_roundtrip : forall o j t,
  PG.C06.JsonbSpec.wf_json j ->
  DecodeType_full o {| vis := PG.C06.JsonbSpec.enc_jsonb j; tail := t |} 3802 = Ok (PG.C06.JsonbSpec.expected num_full j).
Proof. exact jsonb_roundtrip_full. Qed.
Print Assumptions Compose_jsonb_roundtrip.
(* ... where a number whose payload is a stored numeric (either header form) is that numeric's value (C05_roundtrip) *)
Theorem Compose_jsonb_number : forall v,
  (PG.C05.Spec.wf_short v -> num_full (PG.C05.Spec.enc_short v) = PG.C05.Spec.result_of v PG.C05.LayoutProofs.eval_model) /\
  (PG.C05.Spec.wf_long v -> num_full (PG.C05.Spec.enc_long v) = PG.C05.Spec.result_of v PG.C05.LayoutProofs.eval_model).
Proof. exact num_full_roundtrip. Qed.
Print Assumptions Compose_jsonb_number.
(* a numeric column *)
Theorem Compose_numeric_roundtrip : forall o v t,
  (PG.C05.Spec.wf_short v ->
   DecodeType_full o {| vis := PG.C05.Spec.enc_short v; tail := t |} 1700 = Ok (PG.C05.Spec.result_of v PG.C05.LayoutProofs.eval_model)) /\
  (PG.C05.Spec.wf_long v ->
   DecodeType_full o {| vis := PG.C05.Spec.enc_long v; tail := t |} 1700 = Ok (PG.C05.Spec.result_of v PG.C05.LayoutProofs.eval_model)).
Proof. exact numeric_roundtrip_full. Qed.
Print Assumptions Compose_numeric_roundtrip.

(* ---- 4. C01 for the real decoder: both decoder hypotheses of Props/C01.v (DT_ok, DT_cat) discharged ---- *)
(* on the seven (type id, width) pairs of the tool's catalog schemas the full decoder is C01's cat_decode *)
Theorem Compose_DT_cat : forall o, PG.C01.Model.agrees_on_catalog (decode_full o).
Proof. exact full_agrees_on_catalog. Qed.
Print Assumptions Compose_DT_cat.
(* C01_dump: the end-to-end dump of a well-formed cluster, every value decoded by the real decoder.  What remains
   abstract is not the decoder: strings.ToLower, the TypeName table (C04_typenames), Go's map iteration order (any
   permutation) and the spare capacity left by os.ReadFile. *)
Theorem Compose_dump : forall o ToLower TypeName range_order slack,
  (forall l, Permutation l (range_order l)) ->
  forall c opts, PG.C01.Spec.wf_cluster c -> PG.C01.Spec.detect_ok c opts ->
  PG.C01.Model.DumpDataDir (DecodeType_full o) ToLower TypeName range_order slack (PG.C01.Spec.enc_cluster c) opts =
  Ok (Some (PG.C01.Spec.expected_dump (decode_full o) ToLower TypeName c opts)).
Proof. exact dump_full. Qed.
Print Assumptions Compose_dump.
Theorem Compose_dump_no_panic : forall o ToLower TypeName range_order slack fs opts,
  PG.C01.Model.DumpDataDir (DecodeType_full o) ToLower TypeName range_order slack fs opts <> Panic.
Proof. exact dump_full_no_panic. Qed.
Print Assumptions Compose_dump_no_panic.
