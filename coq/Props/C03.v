(* C03 — Row decoding follows PostgreSQL's attribute layout rules.  Statements only. *)
Require Import PG.Base.Bytes PG.Base.GoSlice PG.Base.Value.
Require Import PG.C02.Model PG.C02.Spec PG.C03.Model PG.C03.Pure PG.C03.Spec PG.C03.Refine PG.C03.SpecProofs
               PG.C03.Bitmap PG.C03.Main PG.C03.Examples.

Section C03.
(* DecodeType belongs to C04–C07; C03 holds for every decoder that is total and sees only the bytes it is handed. *)
Variable DecodeType : gslice -> Z -> res gval.
Variable decode : bytes -> Z -> gval.
Hypothesis DT_ok : forall s oid, DecodeType s oid = Ok (decode (vis s) oid).

(* Refinement, for EVERY tuple, schema (any Len/TypID/Align/Num) and capacity tail: DecodeTuple does not panic and
   is the pure layout function evaluated with the decoder applied to exactly the selected byte ranges. *)
Theorem C03_refines : forall t cols,
  DecodeTuple DecodeType (Some t) cols = Ok (p_decode decode (option_map vis (t_bitmap t)) (vis (t_data t)) cols).
Proof. exact (DecodeTuple_refines DecodeType decode DT_ok). Qed.

(* Main theorem.  For every schema [cols] and every row stored the way heap_fill_tuple stores it
   (NULLs: no space, no padding; fixed width: padded to attalign; short varlena and external pointers: unaligned;
   4-byte-header varlena, plain or inline-compressed: padded; C strings: NUL-terminated; natts = |ds| <= |cols|):
   an entry for EVERY declared column, NULL exactly for NULL datums and for columns beyond natts, every other
   value = the decoder applied to exactly the payload bytes — whatever precedes it. *)
Theorem C03_decode : forall t cols ds,
  fits_prefix cols ds -> nums_ok cols 0 -> cols <> [] ->
  vis (t_data t) = fill 0 cols ds -> option_map vis (t_bitmap t) = bitmap_for ds ->
  DecodeTuple DecodeType (Some t) cols = Ok (Some (expected_row decode cols ds)).
Proof. exact (decode_tuple_ok DecodeType decode DT_ok). Qed.

(* The same through the page scan of C02: the tuple as stored (any t_hoff = MAXALIGN(23+bitmap)+8k, any other header bits). *)
Theorem C03_decode_stored : forall head flags2 mask_hi extra cols ds tl,
  fits_prefix cols ds -> nums_ok cols 0 -> cols <> [] ->
  blen head = 18 -> 0 <= flags2 < 32 -> 0 <= mask_hi < 32768 -> 0 <= extra ->
  Z.of_nat (length ds) < 2048 -> maxalign (23 + (Z.of_nat (length ds) + 7) / 8) + 8 * extra <= 255 ->
  let t := stored_tuple head flags2 mask_hi extra cols ds in
  exists ht, ParseHeapTuple {| vis := enc_tuple t; tail := tl |} = Ok (Some ht) /\
             DecodeTuple DecodeType (Some ht) cols = Ok (Some (expected_row decode cols ds)).
Proof. exact (decode_stored_tuple DecodeType decode DT_ok). Qed.

(* "whatever precedes it": the layout lemma holds after ANY prefix of already-emitted bytes, i.e. from every
   starting offset (hence every offset modulo 8). *)
Theorem C03_start_offset : forall bm cols ds pre i,
  fits_prefix cols ds -> nums_ok cols i ->
  (forall k d, nth_error ds k = Some d -> p_isnull bm (i + 1 + Z.of_nat k) = is_null d) ->
  let dat := pre ++ fill (blen pre) cols ds in
  map (fun x => (fst x, eval_req decode dat (snd x))) (p_layout bm dat cols i (blen pre)) = expected_row decode cols ds.
Proof. exact (layout_fill decode). Qed.

Theorem C03_no_panic : forall ot cols, DecodeTuple DecodeType ot cols <> Panic.
Proof. exact (DecodeTuple_no_panic DecodeType decode DT_ok). Qed.
End C03.
Print Assumptions C03_refines.
Print Assumptions C03_decode.
Print Assumptions C03_decode_stored.
Print Assumptions C03_start_offset.
Print Assumptions C03_no_panic.

(* The null bitmap heap_fill_tuple writes is read back by IsNull, for every row length and null pattern. *)
Theorem C03_bitmap : forall ds k d, nth_error ds k = Some d ->
  p_isnull (Some (bitmap_of ds)) (0 + 1 + Z.of_nat k) = is_null d.
Proof. exact isnull_bitmap. Qed.
Print Assumptions C03_bitmap.

(* Alignment tables: the schema's attalign char decides; without one (the tool's own catalog schemas) the
   fallback table equals pg_type.typalign for every type id in fallback_ok_oids. *)
Theorem C03_tables : forall c, align_known c -> col_align c = att_align c.
Proof. exact col_align_spec. Qed.
Print Assumptions C03_tables.

(* non-vacuity: a schema/row with a NULL before a more strictly aligned column, short/long/external varlenas,
   a C string and a column beyond natts satisfies the hypotheses *)
Theorem C03_example : fits_prefix ex_cols ex_ds /\ nums_ok ex_cols 0.
Proof. exact ex_fits. Qed.
