(* C05 — numeric values decode to the right number; NaN/infinity preserved.
   Property theorems only; proofs live in C05/LayoutProofs.v and C05/FloatProofs.v.
   Model = pgdump/jsonb.go:156-270 after the fix: commits of branch verif-C05 (D18 specials, D17 short
   weight sign extension, D19 on-disk long layout).  float64 = Flocq binary64, round to nearest even;
   math.Pow is a transcription of Go's pure-Go pow (C05/Float64.v).
   [eval_model neg w digits] = computeNumeric digits w (if neg then -1 else 1). *)
From Coq Require Import Reals.
From Flocq Require Import Core.Zaux Core.Raux Core.Defs Core.Generic_fmt Core.Round_NE IEEE754.BinarySingleNaN.
Require Import PG.Base.Bytes PG.Base.GoSlice PG.Base.Value.
Require Import PG.C05.Float64 PG.C05.Model PG.C05.Spec PG.C05.LayoutProofs PG.C05.FloatProofs PG.C05.HistoricProofs.
Open Scope Z_scope.

(* ---- header: finite domain, by computation over all 65 536 header words -------------------------
   On every 16-bit header word the tests the Go code makes (special? short? sign, 7-bit weight with sign
   extension; long sign) give exactly PostgreSQL's reading (NUMERIC_* macros, [spec_header]).
   D17/D18/D19 live here. *)
Theorem C05_header : forall h, 0 <= h < 65536 -> header_agree h = true.
Proof. exact header_table. Qed.
Print Assumptions C05_header.
Example C05_header_ex : spec_header 32895 (* 0x807F: short, +, dscale 0, weight -1 *) = HShort false (-1) 0
                        /\ m_sweight 32895 = -1 /\ spec_header 53248 = HPInf.
Proof. repeat split. Qed.

(* ---- what EVERY byte string decodes to (any length, any tail): PostgreSQL's reading of the header
   word, the weight, and the digit area, with the float computed by computeNumeric; datums shorter than
   a header give nil.  Covers both header forms, the specials with any trailing bytes, odd lengths. *)
Theorem C05_decode_all : forall s, DecodeNumeric s = Ok (spec_decode eval_model (vis s)).
Proof. exact DecodeNumeric_total. Qed.
Print Assumptions C05_decode_all.

(* C10 share: no input makes the decoders panic *)
Theorem C05_no_panic : forall s, DecodeNumeric s <> Panic /\ decodeJNumeric s <> Panic.
Proof. intros s. split; [apply DecodeNumeric_no_panic|apply decodeJNumeric_no_panic]. Qed.
Print Assumptions C05_no_panic.

(* ---- round trips through the reference writer, all digit counts (induction), all tails ---------- *)
Theorem C05_roundtrip : forall v t,
  (wf_short v -> DecodeNumeric {| vis := enc_short v; tail := t |} = Ok (result_of v eval_model)) /\
  (wf_long v -> DecodeNumeric {| vis := enc_long v; tail := t |} = Ok (result_of v eval_model)).
Proof. intros v t. split; [apply decode_enc_short|apply decode_enc_long]. Qed.
Print Assumptions C05_roundtrip.
Example C05_roundtrip_ex : wf_short (NNum true (-3) 12 [7; 0; 9999]) /\ wf_long (NNum false (-200) 800 [1; 2]).
Proof. unfold wf_short, wf_long, digit_ok. repeat split; try lia; repeat constructor; lia. Qed.

(* ---- specials are reported as such, never as a number ---------------------------------------- *)
Theorem C05_special : forall v t, is_special v = true ->
  DecodeNumeric {| vis := enc_short v; tail := t |} = Ok (expected v) /\
  (forall bits, expected v <> VF64 bits) /\ (forall z, expected v <> VInt z).
Proof.
  intros v t H. split; [|split].
  - rewrite decode_enc_short by (destruct v; exact I || discriminate). destruct v; try discriminate; reflexivity.
  - intros bits. destruct v; try discriminate; discriminate.
  - intros z. destruct v; try discriminate; discriminate.
Qed.
Print Assumptions C05_special.
Example C05_special_ex : expected NNInf = VStr s_mInfinity /\ enc_short NNInf = [x00; xf0].
Proof. split; reflexivity. Qed.

(* ---- THE nearest double on the exact class ------------------------------------------------------
   If the digit integer N = sum d_i 10000^(n-1-i) is below 2^53 and the scaling exponent
   e = weight - n + 1 satisfies |e| <= 5, computeNumeric returns round-to-nearest-even of the exact value
   (-1)^neg * N * 10000^e — for every digit count.  This class contains every value with at most 12
   significant decimal digits whose decimal exponent has magnitude <= 20. *)
Theorem C05_exact : forall (neg : bool) w digits,
  digits <> [] -> Forall (fun d => 0 <= d) digits -> exact_class w digits ->
  computeNumeric digits w (if neg then -1 else 1) = nearest_value neg w digits.
Proof. exact computeNumeric_exact. Qed.
Print Assumptions C05_exact.
Example C05_exact_ex : exact_class (-1) [1234; 5678; 9012] (* 0.123456789012 *) /\ exact_class 4 [1] (* 1e16 *).
Proof. unfold exact_class. split; vm_compute; intuition congruence. Qed.

(* what [nearest_value] means: the IEEE-754 round-to-nearest-even (Flocq [round radix2 (FLT_exp -1074 53)
   ZnearestE]) of the exact rational value, finite, with the sign of the numeric *)
Theorem C05_nearest_is_rounding : forall (neg : bool) w digits,
  Forall (fun d => 0 <= d) digits -> 0 < intval digits -> exact_class w digits ->
  B2R (nearest_value neg w digits) =
    round radix2 (SpecFloat.fexp prec64 emax64) ZnearestE
      (IZR (SpecFloat.cond_Zopp neg (exact_num w digits)) / IZR (exact_den w digits)) /\
  is_finite (nearest_value neg w digits) = true /\ Bsign (nearest_value neg w digits) = neg.
Proof. exact nearest_value_correct. Qed.
Print Assumptions C05_nearest_is_rounding.

(* bytes -> nearest double, both header forms *)
Theorem C05_decode_exact : forall v t, in_exact_class v = true ->
  (wf_short v -> DecodeNumeric {| vis := enc_short v; tail := t |} = Ok (expected v)) /\
  (wf_long v -> DecodeNumeric {| vis := enc_long v; tail := t |} = Ok (expected v)).
Proof. intros v t Hc. split; intros Hwf; [apply decode_exact_short|apply decode_exact_long]; assumption. Qed.
Print Assumptions C05_decode_exact.

(* NOT PROVED (tested only, see notes/C05-report.md):
   C05_relerr : forall neg w digits, Forall digit_ok digits -> (length digits <= 8)%nat -> -16 <= w <= 16 ->
     0 < intval digits -> |computeNumeric digits w (+-1) - exact| <= 16 ulp(exact)
   (the "agrees to double precision" clause outside the exact class).  The correspondence run checks it
   against exact rational arithmetic (function DecodeNumericNear). *)

(* ---- zero ---------------------------------------------------------------------------------------
   no digits -> the integer 0 (C05_roundtrip: result_of (NNum _ _ _ []) = VInt 0);
   any number n >= 1 of zero digit groups -> +-0.0, for scaling exponents -400 .. 77 *)
Theorem C05_zero : forall (neg : bool) n w, (1 <= n)%nat -> -400 <= w - Z.of_nat n + 1 <= 77 ->
  computeNumeric (repeat 0 n) w (if neg then -1 else 1) = B754_zero neg.
Proof. exact computeNumeric_zero. Qed.
Print Assumptions C05_zero.
Example C05_zero_ex : result_of (NNum true 5 0 []) eval_model = VInt 0. Proof. reflexivity. Qed.

(* ---- sign: the negated numeric decodes to the negated double, bit for bit (all digits, all weights,
   overflow to infinity included) *)
Theorem C05_sign : forall digits w, digits <> [] ->
  computeNumeric digits w (-1) = Bopp (computeNumeric digits w 1) /\
  (is_nan (computeNumeric digits w 1) = false ->
   b64_bits (computeNumeric digits w (-1)) =
   if Bsign (computeNumeric digits w 1) then b64_bits (computeNumeric digits w 1) - 2 ^ 63
   else b64_bits (computeNumeric digits w 1) + 2 ^ 63).
Proof.
  intros digits w H. split; [apply computeNumeric_sign; exact H|].
  intros Hn. rewrite computeNumeric_sign by exact H. apply b64_bits_Bopp. exact Hn.
Qed.
Print Assumptions C05_sign.

(* ---- embedded in a JSONB document: a complete varlena datum (4-byte header, what PostgreSQL writes;
   1-byte header also accepted when the datum has at least 4 bytes), any bytes after it, any tail *)
Theorem C05_jsonb : forall content extra t, 0 < blen content ->
  (4 + blen content < 2 ^ 30 ->
   decodeJNumeric {| vis := enc_varlena4 content ++ extra; tail := t |} = DecodeNumeric (exact content)) /\
  (1 + blen content <= 127 -> 4 <= 1 + blen content + blen extra ->
   decodeJNumeric {| vis := enc_varlena1 content ++ extra; tail := t |} = DecodeNumeric (exact content)).
Proof.
  intros content extra t Hc. split; intros.
  - rewrite decodeJNumeric_varlena4 by assumption. rewrite DecodeNumeric_total. reflexivity.
  - rewrite decodeJNumeric_varlena1 by assumption. rewrite DecodeNumeric_total. reflexivity.
Qed.
Print Assumptions C05_jsonb.
Example C05_jsonb_ex : enc_varlena4 (enc_short (NNum false 0 0 [1])) = [x20; x00; x00; x00; x00; x80; x01; x00].
Proof. reflexivity. Qed.

(* ---- the repaired defects, as refutations of the code before the fix: commits ([Historic] model of
   jsonb.go at d1bcd33; witnesses by vm_compute) ---------------------------------------------------- *)
Theorem C05_historic_refuted :
  (* D17: 0.5 decoded as about 5e-253 *)
  (exists v, wf_short v /\ in_exact_class v = true /\
     Historic.DecodeNumeric (exact (enc_short v)) <> Ok (expected v)) /\
  (* D18: NaN / Infinity / -Infinity reported as the number 0 *)
  (forall v, is_special v = true -> Historic.DecodeNumeric (exact (enc_short v)) = Ok (VInt 0) /\ expected v <> VInt 0) /\
  (* D19: the on-disk long form of 1 is rejected *)
  (exists v, wf_long v /\ in_exact_class v = true /\ Historic.DecodeNumeric (exact (enc_long v)) = Ok VNil).
Proof.
  split; [|split].
  - destruct D17_short_weight_refuted as (v & H1 & H2 & H3 & _). eauto.
  - exact D18_special_refuted.
  - destruct D19_long_layout_refuted as (v & H1 & H2 & H3 & _). eauto.
Qed.
Print Assumptions C05_historic_refuted.
