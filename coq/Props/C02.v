(* C02 — Heap page scan returns exactly the stored tuples, in order.  Statements only. *)
Require Import PG.Base.Bytes PG.Base.GoSlice.
Require Import PG.C02.Model PG.C02.Spec PG.C02.Pure PG.C02.Refine PG.C02.SpecProofs PG.C02.Examples.

(* Refinement: for EVERY Go slice (any bytes, any capacity tail) the scan does not panic and what a caller
   can observe of its result is the pure function [p_file] of the visible bytes. *)
Theorem C02_refines : forall s visibleOnly,
  obs_entries (ReadTuples s visibleOnly) = Ok (p_file (vis s) visibleOnly).
Proof. exact ReadTuples_obs. Qed.
Print Assumptions C02_refines.

(* Every reported field of a stored tuple is byte-identical to what the page holds. *)
Theorem C02_tuple : forall t tl,
  wf_tup t ->
  exists ht, ParseHeapTuple {| vis := enc_tuple t; tail := tl |} = Ok (Some ht) /\
             forall po, obs_tuple ht po = expected_tuple t po.
Proof.
  intros t tl W. destruct (ParseHeapTuple_refines {| vis := enc_tuple t; tail := tl |}) as (o & H1 & H2).
  cbn [vis] in H2. pose proof (H2 0) as H0. rewrite p_tuple_enc in H0 by exact W.
  destruct o as [ht|]; [|discriminate]. exists ht. split; [exact H1|].
  intros po. specialize (H2 po). rewrite p_tuple_enc in H2 by exact W. cbn in H2. congruence.
Qed.
Print Assumptions C02_tuple.

(* One entry per NORMAL line pointer, none for UNUSED/REDIRECT/DEAD, in line-pointer order. *)
Theorem C02_page : forall p tl,
  wf_page p ->
  exists l, ParsePage {| vis := enc_page p; tail := tl |} = Ok l /\
            forall po, map (fun t => obs_tuple t po) l = expected_page p po.
Proof.
  intros p tl W. destruct (ParsePage_refines {| vis := enc_page p; tail := tl |}) as (l & H1 & H2).
  exists l. split; [exact H1|]. intros po. rewrite H2. cbn [vis]. apply p_page_enc. exact W.
Qed.
Print Assumptions C02_page.

(* Any number of blocks (formatted or all-zero) plus a trailing partial page: entries in page order then
   line-pointer order, tagged with the byte offset of their page; zero pages and the tail contribute nothing. *)
Theorem C02_file : forall bs tl cap_tail,
  Forall wf_block bs -> blen tl < 8192 ->
  obs_entries (ReadTuples {| vis := enc_file bs tl; tail := cap_tail |} false) = Ok (expected_file bs 0).
Proof. intros. rewrite ReadTuples_obs. cbn [vis]. rewrite p_file_enc by assumption. reflexivity. Qed.
Print Assumptions C02_file.

(* Scanning a concatenation = concatenation of the scans, second file's offsets shifted — for ALL byte strings
   f1, f2 (no well-formedness), provided f1 is a whole number of pages. *)
Theorem C02_concat : forall f1 f2 t1 t2 t3 visibleOnly,
  blen f1 mod 8192 = 0 ->
  exists l1 l2 l12,
    obs_entries (ReadTuples {| vis := f1; tail := t1 |} visibleOnly) = Ok l1 /\
    obs_entries (ReadTuples {| vis := f2; tail := t2 |} visibleOnly) = Ok l2 /\
    obs_entries (ReadTuples {| vis := f1 ++ f2; tail := t3 |} visibleOnly) = Ok l12 /\
    l12 = l1 ++ map (shift_obs (blen f1)) l2.
Proof.
  intros. do 3 eexists. rewrite !ReadTuples_obs. cbn [vis]. repeat split. apply p_file_concat. assumption.
Qed.
Print Assumptions C02_concat.

Theorem C02_concat_needs_whole_pages :
  exists f1 f2, p_file (f1 ++ f2) false <> p_file f1 false ++ shift_all (blen f1) (p_file f2 false).
Proof. exact concat_needs_whole_pages. Qed.

(* C10 share *)
Theorem C02_no_panic : forall s v, ReadTuples s v <> Panic.
Proof. exact ReadTuples_no_panic. Qed.
Print Assumptions C02_no_panic.
Theorem C02_page_no_panic : forall s, ParsePage s <> Panic.
Proof. exact ParsePage_no_panic. Qed.
Theorem C02_tuple_no_panic : forall s, ParseHeapTuple s <> Panic.
Proof. exact ParseHeapTuple_no_panic. Qed.

(* non-vacuity *)
Theorem C02_example_page_wf : wf_page ex_page.
Proof. exact ex_page_wf. Qed.
