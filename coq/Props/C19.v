(* C19 — Block addressing and checksum accounting are exact and complete.
   Property theorems only; proofs live in C19/*Proofs.v.
   Models: C19/BlockrangeModel.v, SegmentModel.v, ChecksumModel.v (+ StrModel.v for the Go library
   string functions); specification: C19/Spec.v. *)
Require Import PG.Base.Bytes PG.Base.GoSlice.
Require Import PG.C19.StrModel PG.C19.BlockrangeModel PG.C19.SegmentModel PG.C19.ChecksumModel PG.C19.Spec.
Require Import PG.C19.GrammarProofs PG.C19.ReadProofs PG.C19.LabelsProofs PG.C19.ChecksumProofs PG.C19.SegmentProofs PG.C19.DataDirProofs.
Require Import PG.C19.SegNumProofs PG.C19.FirstPageProofs.

(* ================= the block-range syntax: exactly  a | a:b | a: | :b  with 0 <= a <= b ================= *)
(* For ALL byte strings: a string is accepted with the pair (lo, hi) iff it is in the grammar and
   denotes that pair (an absent side is -1; numbers are digit strings whose value fits Go's int). *)
Theorem C19_grammar : forall s lo hi, ParseBlockRange s = PBRRange lo hi <-> denotes s lo hi.
Proof. exact parse_block_range_grammar. Qed.
Print Assumptions C19_grammar.

(* the three outcomes, for ALL strings: "" is "no range"; grammar strings are accepted; everything else is an error *)
Theorem C19_grammar_classify : forall s,
  (s = [] -> ParseBlockRange s = PBRNone) /\
  (s <> [] -> in_grammar s -> exists lo hi, denotes s lo hi /\ ParseBlockRange s = PBRRange lo hi) /\
  (s <> [] -> ~ in_grammar s -> ParseBlockRange s = PBRErr).
Proof. exact parse_block_range_classify. Qed.
Print Assumptions C19_grammar_classify.
Example C19_grammar_ex : denotes [x37; x3a; x31; x32] 7 12.     (* "7:12" *)
Proof. apply C19_grammar. vm_compute. reflexivity. Qed.

(* historic (before the fix: commit for D59): ":" , "+5", "-0", "1:+2" were accepted *)
Theorem C19_colon_refuted : Historic_ParseBlockRange colon = PBRRange (-1) (-1) /\ ~ in_grammar colon.
Proof. exact historic_colon_refuted. Qed.
Print Assumptions C19_colon_refuted.
Theorem C19_sign_refuted :
  Historic_ParseBlockRange [x2b; x35] = PBRRange 5 5 /\ ~ in_grammar [x2b; x35] /\
  Historic_ParseBlockRange [x2d; x30] = PBRRange 0 0 /\ ~ in_grammar [x2d; x30] /\
  Historic_ParseBlockRange [x31; x3a; x2b; x32] = PBRRange 1 2 /\ ~ in_grammar [x31; x3a; x2b; x32].
Proof. exact historic_sign_refuted. Qed.
Print Assumptions C19_sign_refuted.

(* ================= block-range reads: exactly the requested blocks ================= *)
(* For every file content d (any size, any partial tail) and every request: the result is the
   concatenation of blocks lo..hi of d ([requested]: start defaults to 0, end to the last block, an end
   beyond the file is clamped, a partial tail is never returned); the request is rejected iff the
   start is beyond the last block (always so on a file without a complete block) or after the end. *)
Theorem C19_read : forall d br,
  ReadBlockRange (Some d) br =
  Ok (match expected_read d br with
      | Some b => inr (exact b)
      | None => inl (if br_start br 0 >=? nblocks d then EBeyond else EInvalid)
      end).
Proof. exact read_block_range_spec. Qed.
Print Assumptions C19_read.
Theorem C19_read_blocks : forall d br lo hi,
  requested (nblocks d) br = Some (lo, hi) ->
  0 <= lo <= hi /\ hi < nblocks d /\
  ReadBlockRange (Some d) br = Ok (inr (exact (blocks_of d (between lo hi)))) /\
  blen (blocks_of d (between lo hi)) = BLCKSZ * (hi - lo + 1).
Proof.
  intros d br lo hi H. pose proof (requested_bounds _ _ _ _ H).
  repeat split; try lia; [apply read_block_range_ok, H|apply read_len with (br := br), H].
Qed.
Print Assumptions C19_read_blocks.

(* ================= labels and header fields ================= *)
(* ParseBlockInfo, for ALL byte strings and tails: nil below one page, otherwise the little-endian
   values stored at the header offsets of the first 8192 bytes ([block_summary]) *)
Theorem C19_block_info_any : forall s n,
  (len s < PageSize -> ParseBlockInfo s n = Ok None) /\
  (PageSize <= len s -> ParseBlockInfo s n = Ok (Some (block_summary (vis s) n))).
Proof. intros; split; [apply parse_block_info_short|apply parse_block_info_any]. Qed.
Print Assumptions C19_block_info_any.

(* every header field of a written page is reported as stored: LSN as (xlogid, xrecoff), checksum,
   flags, lower, upper, special, page size and version, item count (lower-24)/4, free space
   upper-lower; a page of zeros is reported empty *)
Theorem C19_block_info_fields : forall b extra t n,
  wf_block b -> ParseBlockInfo {| vis := enc_block b ++ extra; tail := t |} n = Ok (Some (expected_info b n)).
Proof.
  intros b extra t n W. rewrite parse_block_info_any.
  - cbn [vis]. rewrite block_summary_enc by exact W. reflexivity.
  - unfold len. cbn [vis]. rewrite blen_app, (enc_block_len b W). pose proof (blen_nonneg extra).
    unfold PageSize, BLCKSZ. lia.
Qed.
Print Assumptions C19_block_info_fields.

(* DumpBlockRange on a file written block by block (any partial tail): the i-th entry is the summary
   of block lo+i, labelled lo+i, for exactly the requested blocks *)
Theorem C19_labels : forall bs p br lo hi,
  Forall wf_block bs -> 0 <= blen p < BLCKSZ -> Z.of_nat (length bs) <= 2 ^ 32 ->
  requested (Z.of_nat (length bs)) br = Some (lo, hi) ->
  DumpBlockRange (Some (enc_file bs p)) br = Ok (inr (expected_infos bs lo hi)).
Proof. exact dump_enc_file. Qed.
Print Assumptions C19_labels.
(* ... and on ANY file content *)
Theorem C19_labels_any : forall d br,
  (forall lo hi, requested (nblocks d) br = Some (lo, hi) -> hi < 2 ^ 32 ->
     DumpBlockRange (Some d) br = Ok (inr (map (fun n => block_summary (block n d) n) (between lo hi)))) /\
  (requested (nblocks d) br = None ->
     DumpBlockRange (Some d) br = Ok (inl (if br_start br 0 >=? nblocks d then EBeyond else EInvalid))).
Proof. intros; split; [intros; apply dump_block_range_ok; assumption|apply dump_block_range_rejected]. Qed.
Print Assumptions C19_labels_any.

(* hex dumps, for every hex.Dump: entry i is block lo+i, numbered lo+i, at byte offset 8192 (lo+i), size 8192 *)
Theorem C19_hexdump_labels : forall (hexDump : bytes -> bytes) d br,
  (forall lo hi, requested (nblocks d) br = Some (lo, hi) -> hi < 2 ^ 32 ->
     DumpBinaryRange hexDump (Some d) br = Ok (inr (map (expected_bindump hexDump d) (between lo hi)))) /\
  (requested (nblocks d) br = None ->
     DumpBinaryRange hexDump (Some d) br = Ok (inl (if br_start br 0 >=? nblocks d then EBeyond else EInvalid))).
Proof. intros; split; [intros; apply dump_binary_range_ok; assumption|apply dump_binary_range_rejected]. Qed.
Print Assumptions C19_hexdump_labels.
Theorem C19_hexdump_block : forall (hexDump : bytes -> bytes) d n,
  DumpBinaryBlock hexDump (Some d) n =
  Ok (if n <? 0 then inl ENegative
      else if n <? nblocks d then inr {| bd_num := n mod 2 ^ 32; bd_off := BLCKSZ * n; bd_hex := hexDump (block n d); bd_size := BLCKSZ |}
      else inl EBeyond).
Proof. exact dump_binary_block_spec. Qed.
Print Assumptions C19_hexdump_block.

(* tallies: total, first and last number, empty/used counts, item and free-space sums, fill ratio *)
Theorem C19_stats : forall d br,
  (forall lo hi, requested (nblocks d) br = Some (lo, hi) -> hi < 2 ^ 32 ->
     GetBlockRangeStats (Some d) br =
     Ok (inr (expected_stats (map (fun n => block_summary (block n d) n) (between lo hi)) lo hi))) /\
  (requested (nblocks d) br = None ->
     GetBlockRangeStats (Some d) br = Ok (inl (if br_start br 0 >=? nblocks d then EBeyond else EInvalid))).
Proof. intros; split; [intros; apply stats_ok; assumption|apply stats_rejected]. Qed.
Print Assumptions C19_stats.

(* ================= checksum accounting ================= *)
(* VerifyFileChecksums, for ALL byte strings, tails and segment numbers: total = number of complete
   blocks; every block is judged exactly once by [block_verdict] on its own bytes and its relation-wide
   number (segment * 131072 + n, as a uint32); zero blocks count as valid; exactly the invalid blocks
   are listed, in order, with their number, stored and computed checksum and LSN.
   [cpc] is the tool's own checksum function (O3: not claimed to be PostgreSQL's). *)
Theorem C19_checksums : forall data seg,
  VerifyFileChecksums data seg = Ok (expected_file_result cpc (vis data) seg).
Proof. exact verify_file_spec. Qed.
Print Assumptions C19_checksums.

Theorem C19_checksums_complete : forall f seg,
  let r := expected_file_result cpc f seg in
  map fst (file_verdicts cpc f seg) = zrange 0 (Z.to_nat (nblocks f)) /\
  fr_total r = nblocks f /\ fr_valid r + fr_invalid r = fr_total r /\ 0 <= fr_zero r <= fr_valid r /\
  Z.of_nat (length (fr_errors r)) = fr_invalid r /\
  map cr_num (fr_errors r) =
    map (fun nv => rel_number seg (fst nv)) (filter (fun nv => is_invalid (snd nv)) (file_verdicts cpc f seg)).
Proof.
  intros f seg. cbv zeta. split; [apply file_verdicts_blocks|].
  destruct (accounting_totals cpc f seg) as (A & B & C & D). cbv zeta in *.
  repeat split; try assumption; try apply C. apply errors_exact.
Qed.
Print Assumptions C19_checksums_complete.

(* verdict locality: the verdict for block n depends only on that block's bytes and its number *)
Theorem C19_verdict_local : forall f f' seg n,
  0 <= n < nblocks f -> 0 <= n < nblocks f' -> block n f = block n f' ->
  forall v, In (n, v) (file_verdicts cpc f seg) <-> In (n, v) (file_verdicts cpc f' seg).
Proof.
  intros f f' seg n H H' E v. rewrite !file_verdicts_local, E. tauto.
Qed.
Print Assumptions C19_verdict_local.

(* a single page, for ALL byte strings *)
Theorem C19_verify_page_any : forall s num,
  (len s < PageSize -> VerifyPageChecksum s num = Ok (blank_result num false)) /\
  (PageSize <= len s -> VerifyPageChecksum s num = Ok (page_result (vis s) num)).
Proof. intros; split; [apply verify_page_short|apply verify_page_any]. Qed.
Print Assumptions C19_verify_page_any.

(* the computation works on a copy with the checksum field zeroed: bytes 8..9 do not influence it *)
Theorem C19_checksum_field_independent : forall p p' num,
  PageSize <= blen p -> blen p' = blen p -> sub p' 0 8 = sub p 0 8 -> sub p' 10 (blen p') = sub p 10 (blen p) ->
  cpc p' num = cpc p num.
Proof. exact checksum_field_independent. Qed.
Print Assumptions C19_checksum_field_independent.

(* ================= segments ================= *)
(* relation-wide block g lives in segment g / bps at local block g mod bps, for every segment size of
   at least one block; the pair recomposes to g. *)
Theorem C19_segments_global : forall g sz,
  0 <= g -> PageSize <= sz ->
  GlobalBlockToSegment g sz = Ok (seg_of g (sz / BLCKSZ)) /\
  fst (seg_of g (sz / BLCKSZ)) * (sz / BLCKSZ) + snd (seg_of g (sz / BLCKSZ)) = g /\
  0 <= snd (seg_of g (sz / BLCKSZ)) < sz / BLCKSZ.
Proof. exact g2s_spec. Qed.
Print Assumptions C19_segments_global.

(* ReadMultiSegmentFile over the files base, base.1, ..., base.(k-1) (1 <= k <= 1000 segment files, all
   but the last holding exactly bps = segment size / 8192 blocks, the last at most bps blocks plus any
   partial tail; base.k absent) returns exactly blocks a .. min(b, N-1) of the logical file (the
   concatenation of the segment files), N = its number of complete blocks: the requested interval,
   clamped at the end of the relation; for every segment size of at least one block (smaller or
   absent: the 1 GiB default) and every interval with 0 <= a.  (a > b or a >= N: empty result.) *)
Theorem C19_segments : forall (fs : fsys) (base : bytes) (segs : list bytes) (opts : option (Z * Z)) a b,
  let k := Z.of_nat (length segs) in
  let segSize := match opts with Some (_, sz) => if sz >=? PageSize then sz else DefaultSegmentSize | None => DefaultSegmentSize end in
  let bps := segSize / PageSize in
  let lastseg := nth (Z.to_nat (k - 1)) segs [] in
  let N := (k - 1) * bps + nblocks lastseg in
  1 <= k <= 1000 ->
  fs base = Some (nth O segs []) ->
  (forall i, 1 <= i < k -> fs (seg_path base i) = Some (nth (Z.to_nat i) segs [])) ->
  (k < 1000 -> fs (seg_path base k) = None) ->
  (forall i, Z.of_nat i < k - 1 -> blen (nth i segs []) = 8192 * bps) ->
  nblocks lastseg <= bps ->
  0 <= a ->
  ReadMultiSegmentFile fs base a b opts = Ok (inr (blocks_of (logical segs) (between a (Z.min b (N - 1))))).
Proof. intros. apply read_multi_spec; assumption. Qed.
Print Assumptions C19_segments.

(* a negative start block is rejected *)
Theorem C19_segments_negative : forall fs base a b opts, a < 0 -> ReadMultiSegmentFile fs base a b opts = Ok (inl ENegative).
Proof. exact read_multi_negative. Qed.
Print Assumptions C19_segments_negative.

(* segment number = the decimal suffix of the file name.
   FULL STATEMENT (tested only, generator tags segnum/segnum0): for every directory prefix, every file
   name `base` without '.' and '/', and every 0 <= n < 2^63:
     GetSegmentNumberFromPath (dir ++ "/" ++ base ++ "." ++ decimal n) = n  and  ... (dir ++ "/" ++ base) = 0.
   PROVED: the finite instance for the names 16384.N and /pg.d/base/5/16384.N, N = 0..999 (all segment
   numbers ListSegments can produce), and /pg.d/base/5/16384 -> 0 (a dot in a directory name is ignored). *)
Theorem C19_segment_number_partial :
  (forall n, (n < 1000)%nat ->
     GetSegmentNumberFromPath ([x31; x36; x33; x38; x34] ++ [x2e] ++ dec_str (Z.of_nat n)) = Z.of_nat n /\
     GetSegmentNumberFromPath ([x2f; x70; x67; x2e; x64; x2f; x62; x61; x73; x65; x2f; x35; x2f; x31; x36; x33; x38; x34]
                               ++ [x2e] ++ dec_str (Z.of_nat n)) = Z.of_nat n) /\
  GetSegmentNumberFromPath [x2f; x70; x67; x2e; x64; x2f; x62; x61; x73; x65; x2f; x35; x2f; x31; x36; x33; x38; x34] = 0.
Proof.
  destruct segnum_table as (A & B & C). split; [|exact C].
  intros n Hn. rewrite forallb_forall in A, B.
  assert (I : In n (seq 0 (Z.to_nat 1000))) by (apply in_seq; lia).
  specialize (A n I). specialize (B n I). unfold segnum_roundtrip in A, B. split; lia.
Qed.
Print Assumptions C19_segment_number_partial.
(* THE FULL STATEMENT (added later, coq/C19/SegNumProofs.v): every directory prefix, every name without '.' and '/', every
   segment number below 2^63; with and without a directory part; and 0 for a name without suffix (a dot in a DIRECTORY name is
   ignored because filepath.Base is taken first).  fmt "%d" and strconv.Atoi are proved inverse on the way (Atoi_dec_str). *)
Theorem C19_segment_number : forall dir name n,
  name <> [] -> has_byte 46 name = false -> has_byte 47 name = false -> 0 <= n < 2 ^ 63 ->
  GetSegmentNumberFromPath (dir ++ [x2f] ++ name ++ [x2e] ++ dec_str n) = n /\
  GetSegmentNumberFromPath (name ++ [x2e] ++ dec_str n) = n /\
  GetSegmentNumberFromPath (dir ++ [x2f] ++ name) = 0 /\
  GetSegmentNumberFromPath name = 0.
Proof. exact segment_number_general. Qed.
Print Assumptions C19_segment_number.

(* ================= the data directory ================= *)
(* the file-name filter, for ALL names: a file is visited with segment number seg iff its name is
   <digits> (seg = 0) or <digits>.<digits> (seg = the decimal suffix), values below 2^32; fork files
   (_fsm, _vm, _init), names with other characters, two dots, signs, empty parts are not relation files *)
Theorem C19_relfile_names : forall name, relfile_segment name = spec_relfile name.
Proof. exact relfile_segment_spec. Qed.
Print Assumptions C19_relfile_names.

(* VerifyDataDirChecksums, for ALL directory listings: the totals are the sums over exactly the files
   [visited] (regular files with a relation-segment name and at least one block, in sub-directories of
   base/ whose name is an OID), each judged by the per-file accounting above with the segment number from
   its name; the files listed are exactly those with an invalid block, in listing order *)
Theorem C19_datadir : forall ds, VerifyDataDirChecksums (Some ds) = Ok (inr (expected_dir_result cpc ds)).
Proof. exact verify_datadir_spec. Qed.
Print Assumptions C19_datadir.
Example C19_datadir_ex :
  map (fun v => fst v) (visited [ {| de_name := [x35]; de_isdir := true;
      de_files := Some [ {| fe_name := [x37; x2e; x31; x32]; fe_isdir := false; fe_data := zeros 8192 |};
                         {| fe_name := [x37; x5f; x76; x6d]; fe_isdir := false; fe_data := zeros 8192 |} ] |} ])
  = [([x35], [x37; x2e; x31; x32], 12)].     (* 5/7.12 is segment 12; 5/7_vm is not visited *)
Proof. vm_compute. reflexivity. Qed.

(* historic (before the fix: commit for D60): the suffix was read as ONE character, so N.12 was
   skipped and N.x accepted; with the repaired filter: *)
Theorem C19_seg10_fixed :
  relfile_segment [x37; x2e; x31; x32] = Some 12 /\ relfile_segment [x37; x2e; x78] = None.
Proof. vm_compute. split; reflexivity. Qed.
Print Assumptions C19_seg10_fixed.

(* ================= no panic (C10 share) ================= *)
Theorem C19_no_panic : forall f br s n g sz data seg fs base a b opts tree,
  ReadBlockRange f br <> Panic /\ DumpBlockRange f br <> Panic /\ ParseBlockInfo s n <> Panic /\
  GlobalBlockToSegment g sz <> Panic /\ VerifyPageChecksum s n <> Panic /\ VerifyFileChecksums data seg <> Panic /\
  ReadMultiSegmentFile fs base a b opts <> Panic /\ VerifyDataDirChecksums tree <> Panic.
Proof.
  intros. repeat split.
  - apply read_no_panic. - apply dump_block_range_no_panic. - apply parse_block_info_no_panic.
  - apply g2s_no_panic. - apply verify_page_no_panic. - apply verify_file_no_panic. - apply read_multi_no_panic.
  - apply verify_datadir_no_panic.
Qed.
Print Assumptions C19_no_panic.

(* VerifyPageChecksum reports on ONE page: for buffers of at least a page its result depends on the first 8192 bytes only
   (whatever follows them in the buffer).  Before the repair the empty-page test scanned the whole buffer. *)
Theorem C19_verify_page_first_only : forall s s' num,
  PageSize <= len s -> PageSize <= len s' -> sub (vis s) 0 8192 = sub (vis s') 0 8192 ->
  VerifyPageChecksum s num = VerifyPageChecksum s' num.
Proof. exact verify_page_first_only. Qed.
Print Assumptions C19_verify_page_first_only.
