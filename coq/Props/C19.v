(* C19 — Block addressing and checksum accounting are exact and complete.
   Property theorems only; proofs live in C19/*Proofs.v. *)
Require Import PG.Base.Bytes PG.Base.GoSlice.
Require Import PG.C19.StrModel PG.C19.BlockrangeModel PG.C19.SegmentModel PG.C19.ChecksumModel PG.C19.Spec.
Require Import PG.C19.SegmentProofs.

(* relation-wide block g lives in segment g / bps at local block g mod bps, for every segment size of
   at least one block; the pair recomposes to g. *)
Theorem C19_segments_global : forall g sz,
  0 <= g -> PageSize <= sz ->
  GlobalBlockToSegment g sz = Ok (seg_of g (sz / BLCKSZ)) /\
  fst (seg_of g (sz / BLCKSZ)) * (sz / BLCKSZ) + snd (seg_of g (sz / BLCKSZ)) = g /\
  0 <= snd (seg_of g (sz / BLCKSZ)) < sz / BLCKSZ.
Proof. exact g2s_spec. Qed.
Print Assumptions C19_segments_global.
