(* C14 — Credential extraction returns every stored role and its exact verifier.  Statements only. *)
Require Import PG.Base.Bytes PG.Base.GoSlice.
Require Import PG.C02.Model PG.C02.Spec PG.C03.Spec PG.C03.Main.
Require Import PG.C14.Model PG.C14.Spec PG.C14.Pure PG.C14.RefineProofs PG.C14.SpecProofs PG.C14.WfProofs
               PG.C14.PlumbingProofs PG.C14.PackProofs PG.C14.ExamplesProofs.

(* Core.  For EVERY pg_authid heap file — any number of formatted or never-initialised blocks, tuples anywhere in
   their page, unused / redirected / dead line pointers in between, a trailing partial block, any spare capacity
   behind the slice — whose NORMAL line pointers designate, in file order, the stored role versions [srs]
   (each a row of the real 12-column schema written by heap_fill_tuple: null bitmap iff rolpassword or
   rolvaliduntil is NULL, t_hoff 24/32(+8k), verifier with a 1-byte or a 4-byte varlena header; any
   xmin/xmax/hint bits, i.e. live or dead; all 2^7 attribute combinations; names of 1..63 bytes; verifiers of
   1..2^30 bytes): ParsePGAuthID returns exactly one entry per version, in order, with the stored oid, name,
   rolsuper, rolcanlogin and the exact verifier bytes, and "" exactly when rolpassword is NULL. *)
Theorem C14_roles : forall bs srs tl cap_tail,
  stores bs srs -> blen tl < 8192 ->
  ParsePGAuthID {| vis := enc_file bs tl; tail := cap_tail |} = Ok (expected_roles srs).
Proof. exact ParsePGAuthID_roles. Qed.
Print Assumptions C14_roles.

(* The same for the constructive writer: for ALL lists of pages of role versions (each list fitting its page),
   packed the way heapam packs them. No existential well-formedness hypothesis is left. *)
Theorem C14_roles_enc_heap : forall pages cap_tail,
  Forall page_ok pages ->
  ParsePGAuthID {| vis := enc_heap pages; tail := cap_tail |} = Ok (expected_roles (concat pages)).
Proof. exact enc_heap_roles. Qed.
Print Assumptions C14_roles_enc_heap.

(* One stored version through the tuple parser, whatever its header says about visibility. *)
Theorem C14_tuple : forall s tl, wf_stored s ->
  exists ht, ParseHeapTuple {| vis := enc_tuple (role_tup s); tail := tl |} = Ok (Some ht) /\
             authTuple ht = Ok (Some (expected_role (sr_role s))).
Proof. exact authTuple_stored. Qed.
Print Assumptions C14_tuple.

(* "reports no password for roles whose password is NULL", and only for those (verifiers are non-empty) *)
Theorem C14_null_iff_empty : forall r, wf_role r ->
  (a_password (expected_role r) = [] <-> r_password r = None).
Proof.
  intros r (_ & _ & _ & _ & Hp & _). unfold expected_role. cbn [a_password].
  destruct (r_password r) as [p|]; split; intros H; try reflexivity; try discriminate.
  destruct (Hp p eq_refl) as [H1 _]. subst p. cbn in H1. lia.
Qed.

(* Refinement / safety: for EVERY Go slice (any bytes, any capacity tail) no panic, and the result is a function
   of the visible bytes only. *)
Theorem C14_refines : forall s, ParsePGAuthID s = Ok (p_authfile (vis s)).
Proof. exact ParsePGAuthID_refines. Qed.
Print Assumptions C14_refines.
Theorem C14_no_panic : forall s, ParsePGAuthID s <> Panic.
Proof. exact ParsePGAuthID_no_panic. Qed.
Theorem C14_tail_independent : forall v t1 t2,
  ParsePGAuthID {| vis := v; tail := t1 |} = ParsePGAuthID {| vis := v; tail := t2 |}.
Proof. exact ParsePGAuthID_tail_indep. Qed.

(* Plumbing.  ExtractPasswords / ExtractPasswordsFromFiles / RemoteClient.Credentials are ParsePGAuthID applied
   to what the reader returns for "global/1260" (error / nil when it cannot be read), for every file system. *)
Theorem C14_plumbing : forall reader,
  ExtractPasswords reader = match reader path_authid with Some d => Ok (Some (p_authfile (vis d))) | None => Ok None end /\
  ExtractPasswordsFromFiles reader = match reader path_authid with Some d => Ok (Some (p_authfile (vis d))) | None => Ok None end /\
  Credentials reader = match reader path_authid with Some d => Ok (p_authfile (vis d)) | None => Ok [] end.
Proof. exact entry_points_compose. Qed.
Print Assumptions C14_plumbing.
Theorem C14_entry_points : forall reader bs srs tl cap_tail,
  stores bs srs -> blen tl < 8192 ->
  reader path_authid = Some {| vis := enc_file bs tl; tail := cap_tail |} ->
  ExtractPasswords reader = Ok (Some (expected_roles srs)) /\
  ExtractPasswordsFromFiles reader = Ok (Some (expected_roles srs)) /\
  Credentials reader = Ok (expected_roles srs).
Proof. exact entry_points_roles. Qed.
Print Assumptions C14_entry_points.
(* no other file influences the result *)
Theorem C14_reads_only_authid : forall r1 r2, r1 path_authid = r2 path_authid ->
  ExtractPasswords r1 = ExtractPasswords r2 /\ ExtractPasswordsFromFiles r1 = ExtractPasswordsFromFiles r2 /\
  Credentials r1 = Credentials r2.
Proof. exact entry_points_local. Qed.

(* CLI: `-passwords sel` prints the header and one line name:verifier[ flags] per role selected by "all" or by
   its exact name, "(no password)" exactly for NULL; "No password hashes found" when there is no role at all. *)
Theorem C14_cli : forall sel srs, Forall wf_stored srs ->
  cli_passwords sel (Some (expected_roles srs)) = expected_cli sel (map sr_role srs).
Proof. exact cli_roles. Qed.
Print Assumptions C14_cli.
Theorem C14_cli_select : forall sel r, selected sel r = true <-> sel = s_all \/ r_name r = sel.
Proof. exact selected_spec. Qed.

(* non-vacuity: three roles in five versions (SCRAM / NULL / md5 / 200-byte / forced 4-byte header; live and dead;
   both NULL patterns) on two pages with an empty page in between satisfy the hypotheses, and the model run agrees *)
Theorem C14_example : Forall page_ok [ex_page1; []; ex_page2].
Proof. exact ex_pages_ok. Qed.
Theorem C14_example_run :
  ParsePGAuthID {| vis := enc_heap [ex_page1; []; ex_page2]; tail := [x00; x01] |} = Ok (expected_roles (ex_page1 ++ ex_page2)).
Proof. exact ex_run. Qed.
