(* C09 — Live and deleted rows are classified by their own hint bits only.  Statements only. *)
Require Import PG.Base.Bytes PG.Base.GoSlice PG.Base.Value.
Require Import PG.C02.Model PG.C02.Spec PG.C02.Pure PG.C03.Model PG.C03.Pure PG.C09.Model PG.C09.Spec PG.C09.Proofs.

(* For EVERY tuple image the parser accepts (so for all 65536 infomask values and whatever the other header
   bytes, bitmap and data are): live <-> xmin committed and (xmax invalid or not committed);
   deleted <-> xmax committed and not invalid; both are functions of bytes 20..21 of the tuple only. *)
Theorem C09_mask : forall s t,
  ParseHeapTuple s = Ok (Some t) ->
  IsVisible t = live (le_dec (sub (vis s) 20 22)) /\ IsDeleted t = deleted (le_dec (sub (vis s) 20 22)).
Proof. exact classify_by_mask. Qed.
Print Assumptions C09_mask.

Theorem C09_disjoint : forall m, live m = true -> deleted m = true -> False.
Proof. exact live_deleted_disjoint. Qed.

(* The visible view is exactly the live sub-list of the all-tuples view (same order, same entries). *)
Theorem C09_visible_view : forall s,
  ReadTuples s true = (l <- ReadTuples s false ;; Ok (filter (fun e => IsVisible (e_tuple e)) l)).
Proof. exact visible_is_filter. Qed.
Print Assumptions C09_visible_view.

Section Views.
Variable DecodeType : gslice -> Z -> res gval.
Variable decode : bytes -> Z -> gval.
Hypothesis DT_ok : forall s oid, DecodeType s oid = Ok (decode (vis s) oid).

(* rows = decode of each entry of the selected view (only nil rows dropped) *)
Theorem C09_rows : forall es cols,
  decode_entries DecodeType es cols = Ok (some_rows (map (fun e => dec decode (e_tuple e) cols) es)).
Proof. intros. apply (decode_entries_spec DecodeType decode DT_ok). Qed.

(* deleted-row recovery = exactly the deleted entries of the all-tuples view, in order, each once *)
Theorem C09_deleted_rows : forall es cols,
  deleted_of DecodeType es cols =
  Ok (map (fun e => {| dr_pageoff := e_pageoff e; dr_rawsize := len (t_data (e_tuple e));
                       dr_data := if Z.of_nat (length cols) >? 0 then dec decode (e_tuple e) cols else None |})
          (filter (fun e => IsDeleted (e_tuple e)) es)).
Proof. intros. apply (deleted_of_spec DecodeType decode DT_ok). Qed.

(* rows-with-deleted = (live, deleted) sub-lists of the all-tuples view after decoding: disjoint sub-multisets *)
Theorem C09_rows_with_deleted : forall es cols,
  split_rows DecodeType es cols =
  Ok (some_rows (map (fun e => dec decode (e_tuple e) cols) (filter (fun e => IsVisible (e_tuple e)) es)),
      some_rows (map (fun e => dec decode (e_tuple e) cols)
                     (filter (fun e => negb (IsVisible (e_tuple e)) && IsDeleted (e_tuple e)) es))).
Proof. intros. apply (split_rows_spec DecodeType decode DT_ok). Qed.

(* a deleted row version decodes to the values it had when live: changing only hint bits (high byte of
   t_infomask) of a stored tuple does not change what DecodeTuple returns *)
Theorem C09_same_decode : forall t t' tl tl' cols,
  wf_tup t -> wf_tup t' -> same_but_hints t t' ->
  exists ht ht', ParseHeapTuple {| vis := enc_tuple t; tail := tl |} = Ok (Some ht) /\
                 ParseHeapTuple {| vis := enc_tuple t'; tail := tl' |} = Ok (Some ht') /\
                 DecodeTuple DecodeType (Some ht) cols = DecodeTuple DecodeType (Some ht') cols.
Proof. intros. apply (deleted_decodes_same DecodeType decode DT_ok); assumption. Qed.
End Views.
Print Assumptions C09_rows.
Print Assumptions C09_deleted_rows.
Print Assumptions C09_rows_with_deleted.
Print Assumptions C09_same_decode.

(* block-range interface: includeDeleted selects the all-tuples view, otherwise the live view *)
Theorem C09_range : forall d incl,
  ReadTuplesInRange (Some d) incl = Some (ReadTuples d (negb incl)).
Proof. reflexivity. Qed.
