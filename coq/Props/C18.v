(* C18 — Index files are classified and their page metadata reported exactly. *)
Require Import PG.Base.Bytes PG.Base.GoSlice.
Require Import PG.C18.Types PG.C18.Model PG.C18.Spec PG.C18.Proofs.

Theorem C18_type_string : forall m, IndexType_String (am_code m) = am_name m.
Proof. exact type_string_ok. Qed.
Print Assumptions C18_type_string.
