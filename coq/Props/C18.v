(* C18 — Index files are classified and their page metadata reported exactly.
   Property theorems only; proofs live in C18/*Proofs.v.  Model = pgdump/index.go after the fix:
   commits listed in notes/C18-report.md.  [enc_page]/[enc_file] are the reference writers of Spec.v
   (PostgreSQL 12–16 page header, the six opaque structures at their real sizes 16/16/16/8/8/8, the
   three metapage structures); [t] is whatever follows the slice in memory (cap > len). *)
Require Import PG.Base.Bytes PG.Base.GoSlice.
Require Import PG.C18.Types PG.C18.Model PG.C18.Spec PG.C18.Lib PG.C18.SpecialProofs PG.C18.PageProofs
  PG.C18.MetaProofs PG.C18.FileProofs PG.C18.SafetyProofs PG.C18.WfProofs PG.C18.HistoricProofs.

(* ---- classification ----
   Every well-formed page of any of the six methods — all flag words, all links and levels, all B-tree
   cycle ids 0..0xFF7F, all three BRIN page types, any header and body — is identified as its method
   when it is the first page of the file.  (GIN pages carry no identifier: a GIN file starts with its
   metapage, [first_ok] = GIN_META set; for the other five methods [first_ok] is [True].) *)
Theorem C18_classify : forall p t,
  wf_page p -> first_ok p ->
  detectIndexType {| vis := enc_page p; tail := t |} = Ok (am_code (am_of (ip_op p))).
Proof. exact detect_ok. Qed.
Print Assumptions C18_classify.

(* the six methods are pairwise not confused: no page image belongs to two of them *)
Theorem C18_classify_distinct : forall p1 p2,
  wf_page p1 -> first_ok p1 -> wf_page p2 -> first_ok p2 ->
  enc_page p1 = enc_page p2 -> am_of (ip_op p1) = am_of (ip_op p2).
Proof. exact classify_distinct. Qed.
Print Assumptions C18_classify_distinct.

Theorem C18_type_string : forall m, IndexType_String (am_code m) = am_name m.
Proof. exact type_string_ok'. Qed.
Print Assumptions C18_type_string.

(* ---- per-page metadata ----
   Each special-space parser assigns exactly the stored opaque fields (flags, the booleans, the names
   of the set bits among those pgread names, links, level/bucket, GIN maxoff) and nothing else. *)
Theorem C18_special : forall o info t,
  wf_opaque o ->
  special_parser (am_of o) info {| vis := enc_opaque o; tail := t |} = Ok (special_result info o).
Proof. exact special_ok. Qed.
Print Assumptions C18_special.

(* A page parsed with its own method reports block number, method, flags + names, booleans, sibling /
   right links, level, item count, free space, LSN and LSN text equal to the stored fields. *)
Theorem C18_page : forall p t num,
  wf_page p ->
  parseIndexPage {| vis := enc_page p; tail := t |} num (am_code (am_of (ip_op p))) = Ok (expected_page num p).
Proof. exact page_ok. Qed.
Print Assumptions C18_page.

(* ---- metapages ----
   B-tree (magic, version, root, level, fastroot, fastlevel), hash (magic, version, maxbucket and bucket
   count, high/low mask, ffactor, ntuples bits), GIN (pending head/tail/free/pages/tuples, total/entry/data
   pages, entries, version) equal the stored metapage; a page not flagged as metapage yields none. *)
Theorem C18_meta : forall p t,
  wf_page p ->
  (am_of (ip_op p) = BTree -> parseBTreeMeta {| vis := enc_page p; tail := t |} = Ok (meta_bt (expected_meta p))) /\
  (am_of (ip_op p) = Hash -> parseHashMeta {| vis := enc_page p; tail := t |} = Ok (meta_hash (expected_meta p))) /\
  (am_of (ip_op p) = GIN -> parseGINMeta {| vis := enc_page p; tail := t |} = Ok (meta_gin (expected_meta p))).
Proof. intros p t W. repeat split; intros A; [apply btmeta_ok | apply hashmeta_ok | apply ginmeta_ok]; assumption. Qed.
Print Assumptions C18_meta.

(* ---- whole files, any number of pages >= 1 (induction on the page list, no size bound) ----
   For every well-formed index file (all pages of one method, first page [first_ok], optional trailing
   partial page, any capacity tail): method, method name, page count, metapage report, RootPage/Levels
   from the B-tree metapage, and every page's report at its block number (a uint32). *)
Theorem C18_pages : forall f t,
  wf_file f -> ParseIndexFile {| vis := enc_file f; tail := t |} = Ok (Some (expected_file f)).
Proof. exact file_ok. Qed.
Print Assumptions C18_pages.

(* ---- safety: every byte string, every capacity tail ---- *)
Theorem C18_no_panic : forall s,
  ParseIndexFile s <> Panic /\ detectIndexType s <> Panic /\
  parseBTreeMeta s <> Panic /\ parseHashMeta s <> Panic /\ parseGINMeta s <> Panic /\
  (forall num ty, parseIndexPage s num ty <> Panic) /\
  (forall info, parseBTreePageSpecial info s <> Panic /\ parseHashPageSpecial info s <> Panic /\
                parseGiSTPageSpecial info s <> Panic /\ parseGINPageSpecial info s <> Panic /\
                parseSPGiSTPageSpecial info s <> Panic /\ parseBRINPageSpecial info s <> Panic).
Proof.
  intros s. repeat split;
    auto using file_np, detect_np, btmeta_np, hashmeta_np, ginmeta_np, page_np, bt_special_np, hash_special_np,
               gist_special_np, gin_special_np, spgist_special_np, brin_special_np.
Qed.
Print Assumptions C18_no_panic.

(* the generator's decidable checks imply the hypotheses above *)
Theorem C18_wf_reflect : forall f, wf_file_b f = true -> wf_file f.
Proof. exact wf_file_b_ok. Qed.
Print Assumptions C18_wf_reflect.

(* non-vacuity *)
Example C18_example : wf_file ex_bt_file /\ ParseIndexFile {| vis := enc_file ex_bt_file; tail := [] |} = Ok (Some (expected_file ex_bt_file)).
Proof. split; [exact ex_bt_file_wf | apply file_ok; exact ex_bt_file_wf]. Qed.

(* ---- historic (behaviour before the fix: commits), concrete witnesses by vm_compute ---- *)
Theorem C18_lsn_refuted :
  exists p, wf_page p /\ old_page_lsn {| vis := enc_page p; tail := [] |} <> Ok (pi_lsn (expected_page 0 p)).
Proof. exact lsn_refuted. Qed.
Print Assumptions C18_lsn_refuted.
Theorem C18_brin_refuted :
  exists p, wf_page p /\ first_ok p /\ am_of (ip_op p) = BRIN /\
    old_detectIndexType {| vis := enc_page p; tail := [] |} = Ok (am_code GIN).
Proof. exact brin_refuted. Qed.
Print Assumptions C18_brin_refuted.
Theorem C18_cycle_refuted :
  exists p, wf_page p /\ first_ok p /\ am_of (ip_op p) = BTree /\
    old_detectIndexType {| vis := enc_page p; tail := [] |} = Ok IndexTypeUnknown.
Proof. exact cycle_refuted. Qed.
Print Assumptions C18_cycle_refuted.
Theorem C18_hashmeta_refuted :
  exists p m, wf_page p /\ expected_meta p = MHash m /\
    exists r, old_hash_fields {| vis := enc_page p; tail := [] |} = Ok r /\ hm_maxbucket r <> hm_maxbucket m.
Proof. exact hashmeta_refuted. Qed.
Print Assumptions C18_hashmeta_refuted.
Theorem C18_ginmeta_refuted :
  exists p m, wf_page p /\ expected_meta p = MGin m /\
    exists r, old_gin_fields {| vis := enc_page p; tail := [] |} = Ok r /\ gm_head r <> gm_head m.
Proof. exact ginmeta_refuted. Qed.
Print Assumptions C18_ginmeta_refuted.
Theorem C18_hash_special_panic_refuted : exists sp, old_hash_special_flags sp = Panic.
Proof. exact hash_special_panic_refuted. Qed.
Print Assumptions C18_hash_special_panic_refuted.
