(* C07 — Array values decode to their elements and NULL positions.
   Property theorems only; proofs live in C07/Proofs*.v.

   Model   : PG.C07.Model  (pgdump/types.go after the C07 fix: commits; element decoding = Section
             variable [DecodeType : bytes -> Z -> res gval], C04's, allowed to panic)
   Spec    : PG.C07.Spec   (PostgreSQL ArrayType on disk; [enc_array] = reference writer of the
             payload, i.e. the datum minus its 4-byte varlena header) *)
Require Import PG.Base.Bytes PG.Base.GoSlice PG.Base.Value.
Require Import PG.C07.Model PG.C07.Spec PG.C07.ProofsTables PG.C07.ProofsLoop PG.C07.ProofsRoundtrip PG.C07.ProofsSafety.
Require Import PG.C07.ProofsTail PG.C07.Historic PG.C07.ProofsHistoric.

(* ---- tables ------------------------------------------------------------------------------------
   arrayElemTypes / fixedLengths / elemAligns agree with pg_type on every array type the tool claims
   (50 rows: element type, typlen, typalign), and every entry of arrayElemTypes other than 1006
   (_int2vector decoded as int2[], observation O6, not claimed) is such a row. *)
Theorem C07_tables :
  (forall r, In r pg_array_types ->
     lookup (t_arr r) arrayElemTypes = Some (t_elem r) /\
     lookup (t_elem r) fixedLengths = (if 0 <? t_len r then Some (t_len r) else None) /\
     arrayElemAlign (t_elem r) = t_align r) /\
  (forall k e, lookup k arrayElemTypes = Some e -> k <> 1006 ->
     exists r, In r pg_array_types /\ t_arr r = k /\ t_elem r = e).
Proof. exact tables_agree. Qed.
Print Assumptions C07_tables.

(* ---- round trip ---------------------------------------------------------------------------------
   For EVERY well-formed array value — any of the 50 array types (fixed 1/2/4/6/8/12/16/24/32/64
   bytes with c/s/i/d alignment; varlena with i or d alignment), 0..6 dimensions of any lengths
   whose product is below 2^31 (no bound 2000), any int32 lower bounds, with or without a null
   bitmap, any set of NULL positions, varlena elements with 1-byte or 4-byte headers in any mix, the
   empty array included — and whatever lies behind the slice in memory (tail), DecodeType on the
   stored payload returns the elements in storage order, nil exactly at the NULL positions, every
   other element being the element decoder applied to exactly that element's bytes.  A panic of the
   element decoder propagates ([expected] is a [res]); the array layer adds none. *)
Theorem C07_roundtrip : forall (DecodeType : bytes -> Z -> res gval) (a : arr) (t : bytes),
  wf_arr a ->
  DecodeType_array DecodeType {| vis := enc_array a; tail := t |} (t_arr (a_ty a)) = expected DecodeType a.
Proof. exact DecodeType_array_roundtrip. Qed.
Print Assumptions C07_roundtrip.

(* the same for the unexported decodeArray, which receives the element type *)
Theorem C07_decodeArray_roundtrip : forall (DecodeType : bytes -> Z -> res gval) (a : arr) (t : bytes),
  wf_arr a ->
  decodeArray DecodeType {| vis := enc_array a; tail := t |} (t_elem (a_ty a)) =
  (l <- exp_elems DecodeType (t_elem (a_ty a)) (a_elems a) ;; Ok (VList l)).
Proof. exact decodeArray_roundtrip. Qed.
Print Assumptions C07_decodeArray_roundtrip.

(* [enc_array] is the complete datum minus its varlena header *)
Theorem C07_payload : forall a, skipn 4 (enc_array_datum a) = enc_array a.
Proof. exact payload_of_datum. Qed.
Print Assumptions C07_payload.

(* Examples: '{1,NULL,3}'::int4[] — a well-formed value, and its image is the PostgreSQL one
   (dataoffset 32 counted from the datum start, bitmap 0b101, 7 bytes of padding). *)
Definition ex_int4 : arr :=
  {| a_ty := ty 1007 23 4 4; a_dims := [(3, 1)]; a_hasnull := true;
     a_elems := [Some (EFixed (le_enc 4 1)); None; Some (EFixed (le_enc 4 3))] |}.
Example ex_int4_wf : wf_arr ex_int4.
Proof.
  unfold wf_arr, ex_int4, ndim, nitems; cbn [a_ty a_dims a_hasnull a_elems t_len length].
  repeat split; try (cbn; lia); try discriminate.
  - cbn [pg_array_types In]. do 5 right. left. reflexivity.
  - repeat constructor; cbn; lia.
  - repeat constructor; cbn; lia.
Qed.
Example ex_int4_image :
  enc_array ex_int4 =
  [x01;x00;x00;x00; x20;x00;x00;x00; x17;x00;x00;x00; x03;x00;x00;x00; x01;x00;x00;x00;
   x05; x00;x00;x00;x00;x00;x00;x00; x01;x00;x00;x00; x03;x00;x00;x00].
Proof. vm_compute. reflexivity. Qed.
(* text[] 2x2 with lower bounds (-1, 5): {{"a",NULL},{"bcd",""}}, 1-byte and 4-byte headers mixed *)
Definition ex_text : arr :=
  {| a_ty := ty 1009 25 (-1) 4; a_dims := [(2, -1); (2, 5)]; a_hasnull := true;
     a_elems := [Some (EShort [x61]); None; Some (ELong [x62; x63; x64]); Some (EShort [])] |}.
Example ex_text_wf : wf_arr ex_text.
Proof.
  unfold wf_arr, ex_text, ndim, nitems; cbn [a_ty a_dims a_hasnull a_elems t_len length].
  repeat split; try (cbn; lia); try discriminate.
  - cbn [pg_array_types In]. do 7 right. left. reflexivity.
  - repeat constructor; cbn; lia.
  - repeat constructor; cbn; lia.
Qed.

(* ---- safety, for ALL byte strings ---------------------------------------------------------------
   Whatever the bytes, their length, the capacity behind them and the type oid: the array layer does
   not panic (provided the element decoder does not), ... *)
Theorem C07_no_panic : forall (DecodeType : bytes -> Z -> res gval),
  (forall b o, DecodeType b o <> Panic) ->
  forall s oid, DecodeType_array DecodeType s oid <> Panic.
Proof. exact DecodeType_array_no_panic. Qed.
Print Assumptions C07_no_panic.

(* ... the capacity it requests from make() — the stored element count — is at most 8*len(raw)
   (16 bytes each: at most 128 bytes allocated per input byte, not 32 GiB from 20 bytes), and so is
   the number of elements returned. *)
Theorem C07_alloc_bound :
  (forall s dataStart count nulls,
     decodeArray_header s = Ok (HElems dataStart count nulls) -> 0 < count <= 8 * len s) /\
  (forall (DecodeType : bytes -> Z -> res gval), (forall b o, DecodeType b o <> Panic) ->
     forall s oid l, DecodeType_array DecodeType s oid = Ok (Some (VList l)) ->
                     Z.of_nat (length l) <= 8 * len s).
Proof. split; [exact alloc_request_bounded | exact DecodeType_array_bounded]. Qed.
Print Assumptions C07_alloc_bound.

(* ... and it never looks beyond len(raw): the result is the same whatever lies between len and cap
   (Go checks a slice bound against cap, so an unguarded raw[a:b] would read the neighbour's bytes). *)
Theorem C07_reads_within_len : forall (DecodeType : bytes -> Z -> res gval) v t1 t2 oid,
  DecodeType_array DecodeType {| vis := v; tail := t1 |} oid =
  DecodeType_array DecodeType {| vis := v; tail := t2 |} oid.
Proof. exact DecodeType_array_tail. Qed.
Print Assumptions C07_reads_within_len.

(* ---- historic: the code before the fix: commits (model PG.C07.Historic, element decoder = identity) ----
   D23 dataoffset used relative to the stripped payload ('{1,NULL,3}'::int4[]); D24 the empty array
   returned as a nil slice; D25 stride = size for macaddr[], name[] read as varlena, 8-byte aligned
   varlena elements (tsrange[]) aligned to 4 relative to the payload. *)
Theorem C07_dataoffset_refuted : exists a, wf_arr a /\
  DecodeType_array_old dt_id (exact (enc_array a)) (t_arr (a_ty a)) <> expected dt_id a.
Proof. exists w_nulls. exact dataoffset_refuted. Qed.
Print Assumptions C07_dataoffset_refuted.

Theorem C07_empty_refuted : exists a, wf_arr a /\ a_dims a = [] /\
  DecodeType_array_old dt_id (exact (enc_array a)) (t_arr (a_ty a)) <> expected dt_id a.
Proof. exists w_empty. destruct empty_refuted as [H1 H2]. split; [exact H1|split; [reflexivity|exact H2]]. Qed.
Print Assumptions C07_empty_refuted.

Theorem C07_stride_refuted :
  (exists a, wf_arr a /\ t_arr (a_ty a) = 1040 /\
     DecodeType_array_old dt_id (exact (enc_array a)) (t_arr (a_ty a)) <> expected dt_id a) /\
  (exists a, wf_arr a /\ t_arr (a_ty a) = 1003 /\
     DecodeType_array_old dt_id (exact (enc_array a)) (t_arr (a_ty a)) <> expected dt_id a) /\
  (exists a, wf_arr a /\ t_arr (a_ty a) = 3909 /\
     DecodeType_array_old dt_id (exact (enc_array a)) (t_arr (a_ty a)) <> expected dt_id a).
Proof.
  destruct stride_refuted as ([A1 A2] & [B1 B2] & [C1 C2]).
  split; [exists w_macaddr|split; [exists w_name|exists w_tsrange]]; (split; [assumption|split; [reflexivity|assumption]]).
Qed.
Print Assumptions C07_stride_refuted.

(* D32: byte strings on which the old code panicked (header byte 0x01; bitmap slice beyond the value;
   six dimensions announced in 20 bytes; a 4-byte header announcing 2 bytes) *)
Theorem C07_old_panics : exists s1 s2 s3 s4,
  DecodeType_array_old dt_id (exact s1) 1009 = Panic /\ DecodeType_array_old dt_id (exact s2) 1007 = Panic /\
  DecodeType_array_old dt_id (exact s3) 1007 = Panic /\ DecodeType_array_old dt_id (exact s4) 1009 = Panic.
Proof. exists p_short0, p_bitmap, p_ndim6, p_long2. exact old_panics. Qed.
Print Assumptions C07_old_panics.
