(* C13 — SQL and CSV exports cannot be broken or hijacked by stored data.
   Property theorems only; proofs live in C13/Proofs*.v.

   Reading guide.  Model (C13/Model.v) = pgdump/sql.go + csv.go after the fix: commits, Go strings =
   arbitrary byte lists.  Spec (C13/Spec.v) = a lexer for the part of PostgreSQL's scan.l an export
   can reach (it fails on anything else), an RFC 4180 CSV reader, an RFC 8259 JSON reader, and the
   expected token streams / records / JSON values.  [lex_tok t = Some (tok, rest)]: the first token
   of t is tok and the lexer continues at rest.  [Lexes t toks]: t lexes completely to toks.
   fmt's %v of floats (show_f64/show_f32, given the IEEE bits) is not modelled; the theorems assume
   only that a finite float is printed as a JSON/SQL number (checked on Go by the harness function
   FloatText); encoding/json.Marshal (CSV cells of arrays/maps) is an arbitrary function. *)
From Coq Require Import Strings.String.
Require Import PG.Base.Bytes PG.Base.Value PG.C13.Lib PG.C13.Model PG.C13.Spec.
Require Import PG.C13.ProofsNum PG.C13.ProofsLex PG.C13.ProofsTag PG.C13.ProofsSql PG.C13.ProofsCsv PG.C13.ProofsJson
               PG.C13.ProofsFuel PG.C13.Historic.
Import List ListNotations.
#[local] Open Scope list_scope.

(* ---- the relation Lexes is exactly the executable lexer lex_all (which the harness also runs on
   Go's real output): so "Lexes t toks" below means lex_all t = Some toks, and toks is unique. *)
Theorem C13_lexer_function : forall t toks, lex_all t = Some toks <-> Lexes t toks.
Proof. exact lex_all_iff. Qed.
Print Assumptions C13_lexer_function.

(* ---- values: string constants.  For ALL byte strings s (quotes, backslashes, dollar signs, the
   tool's own tags, newlines, NUL ...) quoteLiteral s is exactly one string constant that decodes to
   s, whatever follows it (rest: not a quote, white space or '-'; in the export it is , ) or ]). *)
Theorem C13_literal : forall s rest, lit_bnd rest ->
  lex_tok (quoteLiteral s ++ rest) = Some (TString s, rest).
Proof. exact quoteLiteral_lex. Qed.
Print Assumptions C13_literal.
Example C13_literal_ex :
  lit_bnd (B ", 1)") /\ lex_tok (quoteLiteral (B "a'b\ $str$ $str0$ $str1") ++ B ", 1)") = Some (TString (B "a'b\ $str$ $str0$ $str1"), B ", 1)").
Proof. split; [repeat split; discriminate|vm_compute; reflexivity]. Qed.

(* the tag search of quoteLiteral always terminates within its fuel (|s|+2 candidates) *)
Theorem C13_literal_total : forall s, quoteLiteral s <> [].
Proof. exact quoteLiteral_ne. Qed.
Print Assumptions C13_literal_total.

(* ---- names.  Every non-empty name is exactly one identifier token that is the name itself: never
   a keyword, never case-folded, never split (rest: not an identifier character or quote). *)
Theorem C13_ident : forall n rest, n <> [] -> id_bnd rest ->
  lex_tok (quoteIdent n ++ rest) = Some (TIdent n, rest).
Proof. exact quoteIdent_lex. Qed.
Print Assumptions C13_ident.
Example C13_ident_ex :
  id_bnd (B " (") /\ lex_tok (quoteIdent (B "x"";DROP TABLE y;--") ++ B " (") = Some (TIdent (B "x"";DROP TABLE y;--"), B " (")
  /\ quoteIdent (B "users") = B "users" /\ quoteIdent (B "left") = B """left""".
Proof. repeat split; try discriminate; vm_compute; reflexivity. Qed.

(* ---- comments.  A name is written into a comment line in a form without line terminators that
   reads back to the name, and a "--" line without line terminators is one comment token. *)
Theorem C13_comment : forall n body rest,
  commentSafe n = cesc n /\ no_newline (cesc n) /\ comment_unescape (cesc n) = n /\
  (no_newline body -> lex_tok (B "--" ++ body ++ x0a :: rest) = Some (TComment body, x0a :: rest)).
Proof.
  intros n body rest. split; [apply commentSafe_cesc|]. split; [apply cesc_no_nl|].
  split; [apply comment_unescape_cesc|]. apply lex_tok_comment.
Qed.
Print Assumptions C13_comment.

Section WithFloatText.
  Variable show_f64 show_f32 : Z -> bytes.
  Hypothesis Hf64 : forall b, f64_class b = FFinite -> json_num_ok (show_f64 b) = true.
  Hypothesis Hf32 : forall b, f32_class b = FFinite -> json_num_ok (show_f32 b) = true.
  Let jtext := mapToJSON show_f64 show_f32.

  (* ---- every value kind (NULL, booleans, integers, floats incl. NaN/Inf, strings, nested arrays,
     JSON objects, other Go types): the text lexes to exactly the value's tokens *)
  Theorem C13_value : forall v,
    Lexes (formatSQLValue show_f64 show_f32 v) (value_tokens show_f64 show_f32 jtext v).
  Proof. exact (value_lexes show_f64 show_f32 Hf64 Hf32). Qed.

  (* ---- statements: a table / database / whole dump lexes to the template's token stream in which
     every stored name is one TIdent (or sits inside one TComment) and every stored value is its
     value_tokens; NULL (absent or nil) is the keyword NULL.  All names, all rows, no size bound. *)
  Theorem C13_statement : forall t, wf_table t ->
    Lexes (TableToSQL show_f64 show_f32 t) (table_tokens show_f64 show_f32 jtext t).
  Proof. exact (table_lexes show_f64 show_f32 Hf64 Hf32). Qed.
  Theorem C13_statement_database : forall d, wf_database d ->
    Lexes (DatabaseToSQL show_f64 show_f32 d) (database_tokens show_f64 show_f32 jtext d).
  Proof. exact (database_lexes show_f64 show_f32 Hf64 Hf32). Qed.
  Theorem C13_statement_dump : forall now dbs, no_newline now -> Forall wf_database dbs ->
    Lexes (DumpToSQL show_f64 show_f32 now dbs) (dump_tokens show_f64 show_f32 jtext now dbs).
  Proof. exact (dump_lexes show_f64 show_f32 Hf64 Hf32). Qed.

  (* ---- JSON: the text written for a map (hostile keys and strings = arbitrary bytes, any nesting)
     is accepted by the JSON reader and denotes the map *)
  Theorem C13_json : forall m,
    json_read (mapToJSON show_f64 show_f32 m) = Some (map_json show_f64 show_f32 m).
  Proof. exact (mapToJSON_reads_full show_f64 show_f32 Hf64 Hf32 dec_json_num_ok json_num_ok_chars). Qed.
  Theorem C13_json_value : forall v,
    json_read (writeJSONValue show_f64 show_f32 v) = Some (to_json show_f64 show_f32 v).
  Proof. exact (writeJSONValue_reads_full show_f64 show_f32 Hf64 Hf32 dec_json_num_ok json_num_ok_chars). Qed.
End WithFloatText.
Print Assumptions C13_value.
Print Assumptions C13_statement.
Print Assumptions C13_statement_database.
Print Assumptions C13_statement_dump.
Print Assumptions C13_json.
Print Assumptions C13_json_value.

Example C13_statement_ex :
  let sf := fun _ : Z => B "1.5e+06" in
  let t := {| t_name := B "My;T"; t_rowcount := 2;
              t_cols := [ {| c_name := B "left"; c_type := B "timetz"; c_typid := 1266 |};
                          {| c_name := B "n" ++ [x0a] ++ B "x"; c_type := B "name"; c_typid := 19 |} ];
              t_rows := [ [ (B "left", VStr (B "it's \ $str")); (B "n" ++ [x0a] ++ B "x", VList [VF64 0; VNil; VMap [(B "k""\", VStr [x01])]]) ]; [] ] |} in
  lex_all (TableToSQL sf sf t) = Some (table_tokens sf sf (mapToJSON sf sf) t).
Proof. vm_compute. reflexivity. Qed.

(* ---- CSV: a table's export reads back (RFC 4180) as the header and one record per row with the
   same field texts — for ALL field contents; sections of a multi-table export are concatenated *)
Theorem C13_csv_roundtrip : forall recs : list (list bytes),
  Forall (fun r => r <> []) recs -> csv_read (concat (map csv_record recs)) = Some recs.
Proof. exact csv_roundtrip. Qed.
Print Assumptions C13_csv_roundtrip.
Theorem C13_csv : forall sf64 sf32 jm (t : table), t_cols t <> [] ->
  csv_read (TableToCSV sf64 sf32 jm t) = Some (csv_records sf64 sf32 jm t).
Proof. exact TableToCSV_reads. Qed.
Print Assumptions C13_csv.
(* ---- repair of the lone-empty-field defect (csv.go writeCSVRecord): for ALL records the writer used by
   ToCSV is read back by the RFC 4180 reader AND by a reader that skips empty lines; no line of a
   table's export is empty.  "Line" = line outside a quoted field (csv_blank, Spec.v): a line end met
   where a record would begin.  Blank lines INSIDE a quoted field (a cell text "a LF LF b") are part
   of the field for every reader, which is why the statement is not "the bytes contain no LF LF".
   csv_read_skip = csv_read after those empty lines have been dropped. *)
Theorem C13_csv_lines_roundtrip : forall recs : list (list bytes),
  Forall (fun r => r <> []) recs ->
  csv_read (concat (map writeCSVRecord recs)) = Some recs
  /\ csv_read_skip (concat (map writeCSVRecord recs)) = Some recs.
Proof. intros recs H. split; [apply csv_lines_roundtrip|apply csv_lines_skip_roundtrip]; exact H. Qed.
Print Assumptions C13_csv_lines_roundtrip.
Theorem C13_csv_no_blank_line : forall sf64 sf32 jm (t : table), t_cols t <> [] ->
  csv_blank false true (TableToCSV sf64 sf32 jm t) = false.
Proof. exact TableToCSV_no_blank_line. Qed.
Print Assumptions C13_csv_no_blank_line.
(* for every text at all: without an empty line the two readers agree *)
Theorem C13_csv_skip_agrees : forall t : bytes, csv_blank false true t = false -> csv_read_skip t = csv_read t.
Proof. exact csv_skip_agrees. Qed.
Print Assumptions C13_csv_skip_agrees.
Theorem C13_csv_skip_reader : forall sf64 sf32 jm (t : table), t_cols t <> [] ->
  csv_read_skip (TableToCSV sf64 sf32 jm t) = csv_read (TableToCSV sf64 sf32 jm t)
  /\ csv_read_skip (TableToCSV sf64 sf32 jm t) = Some (csv_records sf64 sf32 jm t).
Proof. exact TableToCSV_skip_reads. Qed.
Print Assumptions C13_csv_skip_reader.
Example C13_csv_skip_reader_ex :
  let t := {| t_name := B "t"; t_rowcount := 4;
              t_cols := [ {| c_name := []; c_type := B "text"; c_typid := 25 |} ];
              t_rows := [ [ ([], VNil) ]; [ ([], VStr []) ]; []; [ ([], VStr (B "a" ++ [x0a; x0a] ++ B "b")) ] ] |} in
  TableToCSV (fun _ => []) (fun _ => []) (fun _ => []) t
    = B """""" ++ [x0a] ++ B """""" ++ [x0a] ++ B """""" ++ [x0a] ++ B """""" ++ [x0a] ++ B """a" ++ [x0a; x0a] ++ B "b""" ++ [x0a]
  /\ csv_read_skip (TableToCSV (fun _ => []) (fun _ => []) (fun _ => []) t)
    = Some [ [[]]; [[]]; [[]]; [[]]; [B "a" ++ [x0a; x0a] ++ B "b"] ].
Proof. split; vm_compute; reflexivity. Qed.
Theorem C13_csv_concat : forall sf64 sf32 jm (d : database) dbs,
  (DatabaseToCSV sf64 sf32 jm d =
     concat (map (fun t => (B "# Database: " ++ cesc (d_name d) ++ B ", Table: " ++ cesc (t_name t)) ++ [x0a]
                            ++ TableToCSV sf64 sf32 jm t ++ [x0a]) (d_tables d))
   /\ forall t, no_newline (B "# Database: " ++ cesc (d_name d) ++ B ", Table: " ++ cesc (t_name t)))
  /\ DumpToCSV sf64 sf32 jm dbs = concat (map (DatabaseToCSV sf64 sf32 jm) dbs).
Proof. intros. split; [apply DatabaseToCSV_sections|apply DumpToCSV_concat]. Qed.
Print Assumptions C13_csv_concat.

(* ---- the code before the fix: commits violated the property (witnesses replay on old Go code) *)
Theorem C13_dollar_refuted : lex_tok (old_quoteLiteral w_literal ++ B ")") <> Some (TString w_literal, B ")").
Proof. exact old_literal_refuted. Qed.
Theorem C13_ident_refuted :
  lex_tok (old_quoteIdent w_ident ++ B " (") <> Some (TIdent w_ident, B " (")
  /\ lex_tok (old_quoteIdent (B "Users") ++ B " (") = Some (TIdent (B "users"), B " (")
  /\ lex_tok (old_quoteIdent (B "left") ++ B " (") = Some (TKeyword (B "left"), B " (").
Proof. exact old_ident_refuted. Qed.
Theorem C13_comment_refuted :
  exists toks, lex_all (old_table_comment w_comment 0) = Some toks /\ (1 < length toks)%nat /\ In (TIdent (B "drop")) toks.
Proof. exact old_comment_refuted. Qed.
(* before the repair: one column, rows NULL / "" / "v" -- two empty lines, which the skipping reader drops *)
Theorem C13_csv_blank_refuted :
  old_TableToCSV w_csv_table = B "c" ++ [x0a; x0a; x0a] ++ B "v" ++ [x0a]
  /\ csv_blank false true (old_TableToCSV w_csv_table) = true
  /\ csv_read (old_TableToCSV w_csv_table) = Some [ [B "c"]; [[]]; [[]]; [B "v"] ]
  /\ csv_read_skip (old_TableToCSV w_csv_table) = Some [ [B "c"]; [B "v"] ]
  /\ csv_read_skip (old_TableToCSV w_csv_table)
     <> Some (csv_records (fun _ => []) (fun _ => []) (fun _ => []) w_csv_table).
Proof. exact old_csv_blank_refuted. Qed.
Theorem C13_json_refuted : json_read (B "{" ++ old_json_key (B "a\") ++ B ":1}") = None.
Proof. exact old_json_refuted. Qed.
