(* Dropped — pgdump/dropped.go: dropped-column discovery (pg_attribute rows with attisdropped) and recovery of the
   bytes dropped columns still occupy in heap tuples.  Sub-check of C03 (row decoding follows PostgreSQL's attribute
   layout rules, dropped columns included).  Statements only; proofs in coq/Dropped/*.v.

   Every theorem is stated for the REAL decoder DecodeType_full o of Compose (all of pgdump.DecodeType; the only
   parameters left are the four library calls bundled in [o]), for every TypeName table, for every pair of sorters
   satisfying sort.Slice's contract [sort_spec] where sorting matters, every map visiting order and every os.ReadFile
   slack.  Model.v says which Go line each definition mirrors. *)
Require Import PG.Base.Bytes PG.Base.GoSlice PG.Base.Value.
Require Import PG.C02.Model PG.C03.Model PG.C03.Spec PG.C03.SpecProofs PG.C03.Main.
Require Import PG.C04.Lib PG.C04.Model PG.C01.Lib PG.C01.Model PG.C01.Spec.
Require PG.C11.CliModel PG.C11.OrderProofs.
Require Import PG.Compose.Full PG.Compose.FullProofs PG.Compose.CatProofs.
Require Import PG.Dropped.Model PG.Dropped.Spec PG.Dropped.NameProofs PG.Dropped.ParseProofs PG.Dropped.RecoverProofs
               PG.Dropped.ExamplesProofs PG.Dropped.FullProofs.
Require Import Coq.Sorting.Permutation Coq.Sorting.Sorted.

Notation DT o := (DecodeType_full o).
Notation S16 := schemaPGAttrDropped.
Notation enc16 h := (enc_heap schemaPGAttrDropped (dattr_ds true) h).

(* ---- 5. the name pattern ^\.+pg\.dropped\.(\d+)\.+$ : the recogniser accepts exactly the language
        dots+ "pg.dropped." digits+ dots+ and returns exactly the digit group ---- *)
Theorem Dropped_name_spec : forall name dg, droppedColumnMatch name = Some dg <-> dropped_name_spec name dg.
Proof. exact droppedColumnMatch_spec. Qed.
Print Assumptions Dropped_name_spec.
Theorem Dropped_name_none : forall name, droppedColumnMatch name = None <-> forall dg, ~ dropped_name_spec name dg.
Proof. exact droppedColumnMatch_none. Qed.
Print Assumptions Dropped_name_none.
Theorem Dropped_name_example :
  droppedColumnMatch (bs "........pg.dropped.42........") = Some (bs "42") /\
  droppedColumnMatch (bs "pg.dropped.42........") = None /\
  droppedColumnMatch (bs "........pg.dropped..........") = None /\
  droppedColumnMatch (bs "........pg.dropped.42........x") = None /\
  droppedColumnMatch (bs "........pg.dropped.42") = None.
Proof. exact dropped_name_ex. Qed.

(* ---- 1. totality: no panic for ALL byte strings, capacity tails, file systems, arguments ---- *)
Theorem Dropped_no_panic_parseDroppedColumns : forall o TypeName sortD s tableNames,
  parseDroppedColumns (DT o) TypeName sortD s tableNames <> Panic.
Proof. exact F_Dropped_no_panic_parseDroppedColumns. Qed.
Print Assumptions Dropped_no_panic_parseDroppedColumns.
Theorem Dropped_no_panic_parseAllAttributes : forall o TypeName sortA s relOID,
  parseAllAttributes (DT o) TypeName sortA s relOID <> Panic.
Proof. exact F_Dropped_no_panic_parseAllAttributes. Qed.
Print Assumptions Dropped_no_panic_parseAllAttributes.
(* buildColumnsWithDropped and the value-extraction loop are total functions of the model (no partial operation);
   the loop together with everything after the table lookup of RecoverDroppedColumnData: *)
Theorem Dropped_no_panic_recover_core : forall o TypeName sortA attrData relOID tableData attNum,
  recover_core (DT o) TypeName sortA attrData relOID tableData attNum <> Panic.
Proof. exact F_Dropped_no_panic_recover_core. Qed.
Print Assumptions Dropped_no_panic_recover_core.
Theorem Dropped_no_panic_dir : forall o TypeName sortD sortA range_order slack fs db tb n,
  FindDroppedColumns (DT o) TypeName sortD range_order slack fs db <> Panic /\
  ScanDroppedColumns (DT o) TypeName sortD range_order slack fs <> Panic /\
  GetDroppedColumnSchema (DT o) TypeName sortA range_order slack fs db tb <> Panic /\
  RecoverDroppedColumnData (DT o) TypeName sortA range_order slack fs db tb n <> Panic.
Proof. exact dir_no_panic. Qed.
Print Assumptions Dropped_no_panic_dir.

(* ---- 2. reference-writer round trip, 16-column layout ----
   pg_attribute written the way PostgreSQL forms heap tuples (C03 fill / stored_tuple, C02 enc_page: any number of
   pages, every visibility state, dead versions, dead line pointers, zero blocks; wf_heap), any capacity tail. *)
(* for ANY sorter: the sorter applied to the live records of the relation with attnum > 0 in physical order, every
   reported field equal to the stored one (info_all) *)
Theorem Dropped_parseAllAttributes_enc : forall o TypeName sortA (h : heap dattr) tl relOID,
  wf_heap S16 (dattr_ds true) wf_dattr h ->
  parseAllAttributes (DT o) TypeName sortA {| vis := enc16 h; tail := tl |} relOID =
  Ok (sortA (map (info_all TypeName) (filter (sel_all relOID) (live_rows h)))).
Proof. exact F_Dropped_parseAllAttributes_enc. Qed.
Print Assumptions Dropped_parseAllAttributes_enc.
(* with sort.Slice's contract and (attrelid, attnum) a key of the live rows: THE sorted list *)
Theorem Dropped_parseAllAttributes_sorted : forall o TypeName sortA (h : heap dattr) tl relOID,
  sort_spec lessA sortA ->
  wf_heap S16 (dattr_ds true) wf_dattr h ->
  NoDup (map da_num (filter (sel_all relOID) (live_rows h))) ->
  parseAllAttributes (DT o) TypeName sortA {| vis := enc16 h; tail := tl |} relOID =
  Ok (expected_all TypeName (live_rows h) relOID).
Proof. exact F_Dropped_parseAllAttributes_sorted. Qed.
Print Assumptions Dropped_parseAllAttributes_sorted.
(* without the key hypothesis: the same records, sorted, in an order determined up to ties *)
Theorem Dropped_parseAllAttributes_ties : forall o TypeName sortA (h : heap dattr) tl relOID,
  sort_spec lessA sortA ->
  wf_heap S16 (dattr_ds true) wf_dattr h ->
  exists l, parseAllAttributes (DT o) TypeName sortA {| vis := enc16 h; tail := tl |} relOID = Ok l /\
            Permutation (map (info_all TypeName) (filter (sel_all relOID) (live_rows h))) l /\
            StronglySorted (fun x y => lessA y x = false) l.
Proof. exact F_Dropped_parseAllAttributes_ties. Qed.
Print Assumptions Dropped_parseAllAttributes_ties.
Theorem Dropped_parseDroppedColumns_enc : forall o TypeName sortD (h : heap dattr) tl tn,
  wf_heap S16 (dattr_ds true) wf_dattr h ->
  parseDroppedColumns (DT o) TypeName sortD {| vis := enc16 h; tail := tl |} tn =
  Ok (sortD (map (info_dropped TypeName (name_get tn)) (filter sel_dropped (live_rows h)))).
Proof. exact F_Dropped_parseDroppedColumns_enc. Qed.
Print Assumptions Dropped_parseDroppedColumns_enc.
Theorem Dropped_parseDroppedColumns_sorted : forall o TypeName sortD (h : heap dattr) tl tn,
  sort_spec lessD sortD ->
  wf_heap S16 (dattr_ds true) wf_dattr h ->
  NoDup (map (fun a => (da_relid a, da_num a)) (filter sel_dropped (live_rows h))) ->
  parseDroppedColumns (DT o) TypeName sortD {| vis := enc16 h; tail := tl |} tn =
  Ok (expected_dropped TypeName (name_get tn) (live_rows h)).
Proof. exact F_Dropped_parseDroppedColumns_sorted. Qed.
Print Assumptions Dropped_parseDroppedColumns_sorted.
Theorem Dropped_parseDroppedColumns_ties : forall o TypeName sortD (h : heap dattr) tl tn,
  sort_spec lessD sortD ->
  wf_heap S16 (dattr_ds true) wf_dattr h ->
  exists l, parseDroppedColumns (DT o) TypeName sortD {| vis := enc16 h; tail := tl |} tn = Ok l /\
            Permutation (map (info_dropped TypeName (name_get tn)) (filter sel_dropped (live_rows h))) l /\
            StronglySorted (fun x y => lessD y x = false) l.
Proof. exact F_Dropped_parseDroppedColumns_ties. Qed.
Print Assumptions Dropped_parseDroppedColumns_ties.
(* sort_spec is satisfiable (the stable insertion sort), and the reference writer's hypotheses too *)
Theorem Dropped_sort_spec_example : sort_spec lessA (isort_less lessA) /\ sort_spec lessD (isort_less lessD).
Proof. exact F_Dropped_sort_spec_example. Qed.
Theorem Dropped_wf_example : forall v16 a, wf_dattr a -> fits_prefix (dattr_schema v16) (dattr_ds v16 a).
Proof. exact F_Dropped_wf_example. Qed.
Theorem Dropped_roundtrip_example :
  wf_heap S16 (dattr_ds true) wf_dattr ex_attr_heap /\
  NoDup (map da_num (filter (sel_all 16384) (live_rows ex_attr_heap))) /\
  map d_attnum (expected_all (fun _ => []) (live_rows ex_attr_heap) 16384) = [1; 2; 3].
Proof. exact ex_roundtrip. Qed.

(* ---- 2b. THE 17-COLUMN FALLBACK IS DEAD CODE (observation for maintainers) ----
   On EVERY byte string: when the 16-column reading yields no rows, so does the 17-column reading (both return one
   row per visible tuple).  Hence read_attr_rows is always the 16-column reading ... *)
Theorem Dropped_v15_unreachable : forall o s,
  ReadRows (DT o) s schemaPGAttrDropped true = Ok [] -> ReadRows (DT o) s schemaPGAttrDroppedV15 true = Ok [].
Proof. exact F_Dropped_v15_unreachable. Qed.
Print Assumptions Dropped_v15_unreachable.
Theorem Dropped_always_16 : forall o s, read_attr_rows (DT o) s = ReadRows (DT o) s schemaPGAttrDropped true.
Proof. exact F_Dropped_always_16. Qed.
Print Assumptions Dropped_always_16.
(* ... and a file in the 17-column layout is misread.  Witness: one live row, relation 16384, attribute 2, dropped,
   attstattarget = -1 (PostgreSQL's default): attnum is read from the high half of attstattarget (= -1) and the row
   is discarded, so no dropped column is reported where the stored records have one. *)
Theorem Dropped_v15_refuted : forall o TypeName sortD, sort_spec lessD sortD ->
  wf_heap schemaPGAttrDroppedV15 (dattr_ds false) wf_dattr ex_v15_heap /\
  expected_dropped TypeName (fun _ => []) (live_rows ex_v15_heap) <> [] /\
  parseDroppedColumns (DT o) TypeName sortD {| vis := enc_heap schemaPGAttrDroppedV15 (dattr_ds false) ex_v15_heap; tail := [] |} [] = Ok [].
Proof. exact F_Dropped_v15_refuted. Qed.
Print Assumptions Dropped_v15_refuted.

(* ---- 3. layout faithfulness ---- *)
(* the Column list built from the parsed attributes IS the relation's tuple descriptor: one column per stored
   pg_attribute row with attnum > 0, INCLUDING dropped ones (type id 0), each carrying the stored attlen and attalign *)
Theorem Dropped_build_columns : forall TypeName attrs relOID, Forall wf_dattr attrs ->
  buildColumnsWithDropped (expected_all TypeName attrs relOID) = rel_dcols attrs relOID /\
  Forall2 (fun (c : Column) (a : dattr) =>
             c_len c = da_len a /\ c_align c = da_align a /\ c_typid c = da_typid a /\ c_num c = da_num a /\
             c_name c = (if da_isdropped a then s_dropped_ ++ fmt_d (da_num a) else da_name a))
          (buildColumnsWithDropped (expected_all TypeName attrs relOID)) (rel_dattrs attrs relOID).
Proof. exact F_Dropped_build_columns. Qed.
Print Assumptions Dropped_build_columns.
(* so C03 / Compose apply: the relation's file, rows formed by heap_form_tuple over the FULL attribute list, read with
   the Column list derived from pg_attribute, yields for EVERY column the value decoded from exactly its stored bytes *)
Theorem Dropped_rows : forall o TypeName sortA (attrs : heap dattr) (tbl : heap (list datum)) relOID tl1 tl2,
  sort_spec lessA sortA ->
  wf_heap S16 (dattr_ds true) wf_dattr attrs ->
  NoDup (map da_num (filter (sel_all relOID) (live_rows attrs))) ->
  let cols := rel_dcols (live_rows attrs) relOID in
  cols <> [] -> nums_ok cols 0 -> wf_heap cols idds (fun _ => True) tbl ->
  exists allAttrs,
    parseAllAttributes (DT o) TypeName sortA {| vis := enc16 attrs; tail := tl1 |} relOID = Ok allAttrs /\
    buildColumnsWithDropped allAttrs = cols /\
    ReadRows (DT o) {| vis := enc_heap cols idds tbl; tail := tl2 |} (buildColumnsWithDropped allAttrs) true =
    Ok (map (expected_row (decode_full o) cols) (live_rows tbl)).
Proof. exact F_Dropped_rows. Qed.
Print Assumptions Dropped_rows.
(* Dropped_recover: from the abstract attribute list + the abstract table to the result of RecoverDroppedColumnData
   (its part after the by-name lookups: recover_core).  Values = for every LIVE row, in physical order, C03's
   expected_value of the datum stored at position attnum-1: the decoder on exactly the attribute's stored bytes;
   nil when the attribute is NULL there (rows written after the DROP) or the row has fewer attributes.
   Hypotheses: attribute numbers of the relation are 1..n (nums_ok), (attrelid, attnum) is a key, the column names are
   pairwise distinct (a live column may legally be called "dropped_<n>": then the map key collides — see report). *)
Theorem Dropped_recover : forall o TypeName sortA (attrs : heap dattr) (tbl : heap (list datum)) relOID tl1 tl2 a,
  sort_spec lessA sortA ->
  wf_heap S16 (dattr_ds true) wf_dattr attrs ->
  NoDup (map da_num (filter (sel_all relOID) (live_rows attrs))) ->
  let cols := rel_dcols (live_rows attrs) relOID in
  nums_ok cols 0 -> NoDup (map c_name cols) -> wf_heap cols idds (fun _ => True) tbl ->
  In a (live_rows attrs) -> da_relid a = relOID -> 0 < da_num a -> da_isdropped a = true ->
  recover_core (DT o) TypeName sortA {| vis := enc16 attrs; tail := tl1 |} relOID
    (Some {| vis := enc_heap cols idds tbl; tail := tl2 |}) (da_num a) =
  Ok (DOk {| dd_column := info_all TypeName a;
             dd_values := expected_values (decode_full o) cols (da_num a) (live_rows tbl);
             dd_rows := map (expected_row (decode_full o) cols) (live_rows tbl) |}).
Proof. exact F_Dropped_recover. Qed.
Print Assumptions Dropped_recover.
(* rows in which the attribute is NULL (every row written after the DROP) give nil *)
Theorem Dropped_recover_null : forall decode cols n rows,
  Forall (fun ds => nth (Z.to_nat (n - 1)) ds DNull = DNull) rows ->
  expected_values decode cols n rows = map (fun _ => VNil) rows.
Proof. exact expected_values_null. Qed.
(* RecoverDroppedColumnData is recover_core behind the by-name lookups (definitional) *)
Theorem Dropped_recover_dir : forall o TypeName sortA range_order slack fs db tb n dbData classData attrData dbs tables ti,
  ReadFile slack fs PGlobal1262 = Some dbData -> ParsePGDatabase (DT o) dbData = Ok dbs -> find_db dbs db <> 0 ->
  ReadFile slack fs (PBase (find_db dbs db) 1259) = Some classData -> ParsePGClass (DT o) classData = Ok tables ->
  PG.C11.CliModel.findTableByName (map_state range_order tables) tb = Some ti ->
  ReadFile slack fs (PBase (find_db dbs db) 1249) = Some attrData ->
  RecoverDroppedColumnData (DT o) TypeName sortA range_order slack fs db tb n =
  recover_core (DT o) TypeName sortA attrData (ti_oid ti) (ReadFile slack fs (PBase (find_db dbs db) (ti_filenode ti))) n.
Proof. exact recover_dir_unfold. Qed.
Print Assumptions Dropped_recover_dir.
Theorem Dropped_recover_example :
  let cols := rel_dcols (live_rows ex_attr_heap) 16384 in
  nums_ok cols 0 /\ NoDup (map c_name cols) /\ wf_heap cols idds (fun _ => True) ex_tbl_heap /\
  expected_values (fun b _ => VBytes b) cols 2 (live_rows ex_tbl_heap) = [VBytes [x78; x56; x34; x12]; VNil].
Proof. exact ex_recover. Qed.

(* ---- 4. order independence ---- *)
(* parseDroppedColumns only LOOKS UP the tableNames map: two assignment logs denoting the same map, same result *)
Theorem Dropped_tableNames_order : forall DecodeType TypeName sortD s tn1 tn2,
  (forall k, map_get tn1 k = map_get tn2 k) ->
  parseDroppedColumns DecodeType TypeName sortD s tn1 = parseDroppedColumns DecodeType TypeName sortD s tn2.
Proof. exact parseDroppedColumns_map_ext. Qed.
Print Assumptions Dropped_tableNames_order.
(* the by-name lookup of GetDroppedColumnSchema / RecoverDroppedColumnData is C11's findTableByName: any two visiting
   orders of the pg_class map give the same relation (C11_order_findTableByName, restated for this model's map_state) *)
Theorem Dropped_findTableByName_order : forall (v1 v2 : list (Z * TableInfo)) name,
  Permutation v1 v2 -> NoDup (map fst v1) -> (forall e, In e v1 -> ti_filenode (snd e) = fst e) ->
  PG.C11.CliModel.findTableByName v1 name = PG.C11.CliModel.findTableByName v2 name.
Proof. exact PG.C11.OrderProofs.findTableByName_order. Qed.
Print Assumptions Dropped_findTableByName_order.
