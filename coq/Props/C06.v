(* C06 — JSONB documents decode to an equal JSON document.
   Property theorems only; proofs live in C06/JsonbLib.v and C06/JsonbProofs.v.

   json        = abstract JSON documents (JsonbSpec.v), numbers carried as their numeric payload (C05);
   enc_jsonb   = PostgreSQL's binary JSONB image of a document (transcription of convertToJsonb);
   expected    = the Go value an equal document is (nil/bool/number/string/[]interface{}/map);
   wf_json j   = every container has <= 10000 children (pgread's limit; the property stops at 200) and
                 the image is shorter than 2^28 bytes (PostgreSQL's own JENTRY_OFFLENMASK limit).
   ParseJSONB, parseJSONB, DecodeType_jsonb = the Gallina model of pgdump/jsonb.go + types.go (OidJSONB).
   All theorems hold for every sub-decoder DecodeNumeric (property C05) and every safeString, and for
   whatever bytes follow the slice in memory (tail t). *)
Require Import PG.Base.Bytes PG.Base.GoSlice PG.Base.Value.
Require Import PG.C06.JsonbModel PG.C06.JsonbSpec PG.C06.JsonbLib PG.C06.JsonbInst PG.C06.JsonbProofs.
Require Import PG.C06.JsonbFuelProofs PG.C06.JsonbSafeProofs PG.C06.JsonbHistoricProofs PG.C06.JsonbExamplesProofs.
Require Import PG.C06.JsonbOffsetsProofs.

(* Main theorem: any document, any depth, any container sizes (entry indexes beyond the 32-entry
   offset stride in the key half, the value half or both), empty containers anywhere, scalar or null
   root, strings of any length, every alignment of numbers and nested containers. *)
Theorem C06_roundtrip : forall DecodeNumeric j t,
  wf_json j ->
  ParseJSONB DecodeNumeric {| vis := enc_jsonb j; tail := t |} = JOk (expected DecodeNumeric j).
Proof. exact ParseJSONB_roundtrip. Qed.
Print Assumptions C06_roundtrip.

(* The internal parser reports success on every valid document — in particular for the document
   `null`, whose value is Go nil (D22). *)
Theorem C06_parse_ok : forall DecodeNumeric j t,
  wf_json j ->
  parseJSONB DecodeNumeric {| vis := enc_jsonb j; tail := t |} = JOk (Some (expected DecodeNumeric j)).
Proof. exact parseJSONB_roundtrip. Qed.
Print Assumptions C06_parse_ok.

(* DecodeType on a jsonb column value: the document, never the raw-string fallback. *)
Theorem C06_oid : forall DecodeNumeric safeString j t,
  wf_json j ->
  DecodeType_jsonb DecodeNumeric safeString {| vis := enc_jsonb j; tail := t |} = JOk (expected DecodeNumeric j).
Proof. exact DecodeType_jsonb_roundtrip. Qed.
Print Assumptions C06_oid.

(* HAS_OFF stride arithmetic: on the JEntry array PostgreSQL writes for children of ANY lengths
   (entry i holds its length, or its end offset when i mod 32 = 0), endOffset returns the running
   total, entryOffLen the child's start and length, totalLen the size of the data area. *)
Theorem C06_entries : forall (its : list item) (idx : nat) (base : Z),
  items_ok its -> (idx < length its)%nat ->
  endOffset (jentries 0 0 its) (Z.of_nat idx) = Ok (tot its (S idx)) /\
  entryOffLen (jentries 0 0 its) (Z.of_nat idx) base = Ok (base + tot its idx, blen (snd (item_at its idx))) /\
  totalLen (jentries 0 0 its) = Ok (total its).
Proof.
  intros its idx base Hok Hi. split; [|split].
  - apply endOffset_spec; assumption.
  - apply entryOffLen_spec; assumption.
  - apply totalLen_spec; assumption.
Qed.
Print Assumptions C06_entries.

(* The model's recursion fuel (len(data)+1) suffices on EVERY input, and — after the negative-length
   guard — no input whatsoever (any bytes, any capacity tail) makes the decoder panic: it always
   returns a value.  (C10's share for jsonb.go.) *)
Theorem C06_total : forall DecodeNumeric s, exists v, ParseJSONB DecodeNumeric s = JOk v.
Proof. exact ParseJSONB_total. Qed.
Print Assumptions C06_total.
Theorem C06_oid_total : forall DecodeNumeric safeString s,
  exists v, DecodeType_jsonb DecodeNumeric safeString s = JOk v.
Proof. exact DecodeType_jsonb_total. Qed.
Print Assumptions C06_oid_total.

(* ---- the offset walk of parseJSONB (repair of the overlap defect; C10's budget clause for jsonb.go) ----
   parseJSONB rejects a container whose stored end offsets run backwards (offsets_ok = the walk
   `run := 0; for e in entries { if HAS_OFF { if v < run {reject}; run = v } else { run += v } }`). *)

(* The walk accepts every JEntry array PostgreSQL writes (so the round-trip theorems above are
   unaffected): the encoder's stored end offsets are running totals. *)
Theorem C06_offsets_enc : forall its : list item, items_ok its -> offsets_ok (jentries 0 0 its) 0 = true.
Proof. exact entries_offsets_ok. Qed.
Print Assumptions C06_offsets_enc.

(* On ANY JEntry array endOffset / entryOffLen compute the forward running end offset [runoff]
   (entry i = [runoff i, runoff (i+1)) of the data area), and the walk accepts exactly the arrays on
   which the running end offset never decreases, i.e. on which no entry has a negative length. *)
Theorem C06_offsets_iff : forall entries : list Z,
  (forall idx base, (idx < length entries)%nat ->
     endOffset entries (Z.of_nat idx) = Ok (runoff entries (S idx)) /\
     entryOffLen entries (Z.of_nat idx) base = Ok (base + runoff entries idx, runoff entries (S idx) - runoff entries idx)) /\
  (offsets_ok entries 0 = true <->
   forall k, (k < length entries)%nat -> runoff entries k <= runoff entries (S k)).
Proof.
  intros entries. split; [|apply offsets_ok_iff].
  intros idx base H. split; [apply endOffset_run|apply entryOffLen_run]; exact H.
Qed.
Print Assumptions C06_offsets_iff.

(* For EVERY byte string and every decoder [rec] of nested containers (i.e. for every container at
   every depth): if parseJSONB's body does not reject the container, then the JEntry words it read
   from data[4:] — the array whose (offset, length) pairs entryOffLen(entries, i, 0) the loops of
   parseJSONBArray / parseJSONBObject hand to decodeJEntry (and use for the keys) — give every entry
   a non-negative offset and a NON-NEGATIVE length, and the ranges [off_i, off_i + len_i) of the
   entries of the container are pairwise disjoint and in increasing order: a later entry starts at or
   after the end of every earlier one.  No two children of one container cover the same bytes. *)
Theorem C06_children_disjoint : forall DecodeNumeric rec data v,
  parse_body DecodeNumeric rec data = JOk (Some v) ->
  exists entries : list Z,
    read_entries (length entries) data 4 = Ok entries /\
    4 + 4 * Z.of_nat (length entries) <= len data /\
    forall i, (i < length entries)%nat ->
    exists off l,
      entryOffLen entries (Z.of_nat i) 0 = Ok (off, l) /\ 0 <= off /\ 0 <= l /\
      forall j, (i < j < length entries)%nat ->
        exists off' l', entryOffLen entries (Z.of_nat j) 0 = Ok (off', l') /\ off + l <= off' /\ 0 <= l'.
Proof. exact children_disjoint. Qed.
Print Assumptions C06_children_disjoint.

(* The linear size bound that follows, for EVERY byte string (any bytes, any capacity tail): the
   decoder returns a value, and that value has at most len/4 + 1 nodes (containers + scalars + object
   keys; [nodes]) — the JEntry words of distinct containers are distinct 4-byte words of the input, so
   the number of decodeJEntry / parseJSONB calls is linear in the input size, not exponential.
   Hypothesis: the numeric sub-decoder (C05) returns a scalar. *)
Theorem C06_nodes_linear : forall DecodeNumeric,
  (forall b, nodes (DecodeNumeric b) <= 1) ->
  forall s, exists v, ParseJSONB DecodeNumeric s = JOk v /\ nodes v <= len s / 4 + 1.
Proof.
  intros DN HN s. destruct (ParseJSONB_total DN s) as [v Hv]. exists v. split; [exact Hv|].
  exact (ParseJSONB_nodes DN HN s v Hv).
Qed.
Print Assumptions C06_nodes_linear.

(* The unrepaired code (historic model) violated the property: D20 empty containers -> nil,
   D21 objects with >= 17 pairs, D22 null root -> raw bytes.  Witnesses by vm_compute. *)
Theorem C06_empty_refuted :
  exists j, wf_json j /\ ParseJSONB_h num_token (exact (enc_jsonb j)) <> JOk (expected num_token j).
Proof. exact historic_empty_refuted. Qed.
Print Assumptions C06_empty_refuted.
Theorem C06_pairs17_refuted :
  exists j, wf_json j /\ ParseJSONB_h num_token (exact (enc_jsonb j)) <> JOk (expected num_token j).
Proof. exact historic_pairs17_refuted. Qed.
Print Assumptions C06_pairs17_refuted.
Theorem C06_null_refuted :
  exists j, wf_json j /\ DecodeType_jsonb_h num_token raw_token (exact (enc_jsonb j)) <> JOk (expected num_token j).
Proof. exact historic_null_refuted. Qed.
Print Assumptions C06_null_refuted.

(* Non-vacuity: a 40-pair object holding a 70-element array of mixed scalars, {} and [] is well-formed
   (so C06_roundtrip applies to it), as is the document null. *)
Theorem C06_example_wf : wf_json ex_big /\ wf_json JNull.
Proof. exact (conj ex_big_wf ex_null_wf). Qed.
Print Assumptions C06_example_wf.
