(* C15 — Search and secret scan report exactly the matching cells.
   Property theorems only; proofs live in C15/*Proofs.v.

   Model: C15/Model.v mirrors pgdump/search.go (Search, SearchInDump, rowKeys, matchValue, matchMap) and
   pgdump/secrets.go (ScanString, ScanDumpResult, ScanDatabaseDump, scanTable, containsIgnoreCase,
   bytesContains, bytesEqual) after the repair of D38.  Every theorem is stated for EVERY regular-expression
   engine (compile, matches), EVERY rendering function (show = fmt's %v), EVERY list of detectors and
   EVERY DumpDataDir: these are universally quantified oracles, not axioms.  No bound on the number of
   databases, tables, rows, columns, on nesting depth or on string length. *)
Require Import PG.Base.Bytes PG.Base.GoSlice PG.Base.Value.
Require Import PG.C15.Lib PG.C15.Types PG.C15.Model PG.C15.Spec.
Require Import PG.C15.SearchProofs PG.C15.SecretsProofs PG.C15.MainProofs PG.C15.Wrappers.
From Coq Require Import Permutation String.

(* ---------------------------------------------------------------------------------------------- *)
(* a toy instantiation of the oracles, used only to show that the hypotheses of the theorems are
   satisfiable by concrete non-trivial values *)
Module Toy.
  Definition B (s : string) : bytes := list_byte_of_string s.
  Definition regex := bytes.
  Definition compile (p : bytes) : option regex := if bytes_eqb p (B "(?i)(") then None else Some p.
  Definition matches (re : regex) (s : bytes) : bool := strings_Contains s re.      (* substring *)
  Definition show (v : gval) : bytes := match v with VI32 z => if z =? 42 then B "42" else B "?" | _ => B "?" end.
  Definition row0 : row := [(B "id", VI32 42); (B "doc", VMap [(B "who", VList [VStr (B "x"); VStr (B "(?i)bob")])])].
  Definition row1 : row := [(B "doc", VNil); (B "zz", VStr (B "a(?i)bob!")); (B "id", VStr (B "(?i)bobby"))].
  Definition dump : DumpResult :=
    [ {| d_name := B "app"; d_tables := [ {| t_name := B "users"; t_columns := [B "id"; B "doc"]; t_rows := [row0; row1] |} ] |} ].
  Definition opts (max : Z) : SearchOptions :=
    {| Pattern := B "bob"; CaseSensitive := false; IncludeRow := true; MaxResults := max |}.
  Definition det : Detector bytes :=
    {| Keywords := [B "SK_live"]; FromData := fun s => if strings_Contains s (B "sk_live_1234") then Some [B "sk_live_1234"] else Some [] |}.
  Definition sdump : DumpResult :=
    [ {| d_name := B "app"; d_tables := [ {| t_name := B "keys"; t_columns := []; t_rows := [[(B "v", VStr (B "x sk_live_1234"))]] |} ] |} ].
  Definition sshow (v : gval) : bytes := match v with VStr s => s | _ => [] end.
End Toy.

(* ---------------------------------------------------------------------------------------------- *)
(* Which cells match.  matchValue (and matchMap) decide exactly "one of the texts of the cell matches":
   strings, []byte, JSON object keys, everything nested in objects and arrays at any depth, the %v
   rendering of other scalars; NULL never matches. *)
Theorem C15_match_value : forall regex matches show re v,
  matchValue regex matches show re v = cell_matches regex matches show re v /\
  (cell_matches regex matches show re v = true <-> Matches regex matches show re v).
Proof. intros. split; [apply matchValue_spec|apply cell_matches_Matches]. Qed.
Print Assumptions C15_match_value.

Theorem C15_match_map : forall regex matches show re m,
  matchMap regex matches show re m = cell_matches regex matches show re (VMap m).
Proof. exact matchMap_spec. Qed.
Print Assumptions C15_match_map.

Example C15_match_value_ex :
  matchValue _ Toy.matches Toy.show (Toy.B "bob") (row_get Toy.row0 (Toy.B "doc")) = true /\
  matchValue _ Toy.matches Toy.show (Toy.B "who") (row_get Toy.row0 (Toy.B "doc")) = true /\
  matchValue _ Toy.matches Toy.show (Toy.B "42") (row_get Toy.row0 (Toy.B "id")) = true /\
  matchValue _ Toy.matches Toy.show (Toy.B "?") VNil = false.
Proof. vm_compute. auto. Qed.

(* ---------------------------------------------------------------------------------------------- *)
(* C15_exact.  Without a limit (MaxResults <= 0) the result is exactly the list of matching cells in
   database / table / row / column order, and a hit is in it iff it is the hit of a cell of the dump whose
   value matches; each hit carries the cell's value and, iff IncludeRow, the row (see Spec.hit). *)
Theorem C15_exact : forall regex compile matches show d o re,
  compile (pattern_for o) = Some re -> MaxResults o <= 0 ->
  SearchInDump regex compile matches show (Some d) (Some o) = Ok (inr (all_hits regex matches show re o d)) /\
  (forall h, In h (all_hits regex matches show re o d) <->
             exists dbn tn i c r v, cell_at d dbn tn i c r v /\ Matches regex matches show re v /\
                                    h = hit o dbn tn i r c).
Proof. exact search_exact. Qed.
Print Assumptions C15_exact.

Example C15_exact_ex :
  Toy.compile (pattern_for (Toy.opts 0)) = Some (Toy.B "(?i)bob") /\
  SearchInDump _ Toy.compile Toy.matches Toy.show (Some Toy.dump) (Some (Toy.opts 0)) =
  Ok (inr [ hit (Toy.opts 0) (Toy.B "app") (Toy.B "users") 0 Toy.row0 (Toy.B "doc");
            hit (Toy.opts 0) (Toy.B "app") (Toy.B "users") 1 Toy.row1 (Toy.B "id");
            hit (Toy.opts 0) (Toy.B "app") (Toy.B "users") 1 Toy.row1 (Toy.B "zz") ]).
Proof. vm_compute. auto. Qed.

(* every cell of a row is visited exactly once, in an order that does not depend on how Go happens to
   range over the row map (this is what the repair of D38 establishes) *)
Theorem C15_each_cell_once : forall cols r,
  wf_row r -> rowKeys cols r = col_order cols r /\ Permutation (rowKeys cols r) (map fst r).
Proof. intros. split; [apply rowKeys_col_order|]. rewrite rowKeys_col_order. apply col_order_perm. assumption. Qed.
Print Assumptions C15_each_cell_once.

Theorem C15_order_independent : forall cols r r',
  wf_row r -> Permutation r r' ->
  rowKeys cols r = rowKeys cols r' /\ forall c, row_get r c = row_get r' c.
Proof. exact rowKeys_order_independent. Qed.
Print Assumptions C15_order_independent.

Example C15_order_independent_ex :
  wf_row Toy.row1 /\ Permutation Toy.row1 (rev Toy.row1) /\
  rowKeys [Toy.B "id"; Toy.B "doc"] Toy.row1 = [Toy.B "id"; Toy.B "doc"; Toy.B "zz"].
Proof.
  split; [|split; [apply Permutation_rev|reflexivity]].
  unfold wf_row. cbn. repeat constructor; cbn; intuition discriminate.
Qed.

(* D38, the behaviour before the repair: the column loop ran over `range row`, i.e. over whatever order
   the runtime picked.  Two admissible orders of the same row give different results under MaxResults = 1
   (cols_loop is the loop body of the model, here fed with the iteration order directly). *)
Theorem C15_D38_historic_refuted : exists r ord1 ord2 o db t,
  wf_row r /\ Permutation ord1 (map fst r) /\ Permutation ord2 (map fst r) /\ MaxResults o = 1 /\
  fst (cols_loop _ Toy.matches Toy.show (Toy.B "bob") o db t 0 r ord1 []) <>
  fst (cols_loop _ Toy.matches Toy.show (Toy.B "bob") o db t 0 r ord2 []).
Proof.
  exists Toy.row1, (map fst Toy.row1), (rev (map fst Toy.row1)), (Toy.opts 1),
         {| d_name := []; d_tables := [] |}, {| t_name := []; t_columns := []; t_rows := [] |}.
  split; [unfold wf_row; cbn; repeat constructor; cbn; intuition discriminate|].
  split; [reflexivity|]. split; [symmetry; apply Permutation_rev|]. split; [reflexivity|].
  vm_compute. discriminate.
Qed.
Print Assumptions C15_D38_historic_refuted.

(* ---------------------------------------------------------------------------------------------- *)
(* C15_max.  With MaxResults = n > 0 the result is the first n hits of the unlimited list: never more
   than n, and which ones is determined. *)
Theorem C15_max : forall regex compile matches show d o re,
  compile (pattern_for o) = Some re -> 0 < MaxResults o ->
  SearchInDump regex compile matches show (Some d) (Some o) =
    Ok (inr (firstn (Z.to_nat (MaxResults o)) (all_hits regex matches show re o d))) /\
  Z.of_nat (List.length (firstn (Z.to_nat (MaxResults o)) (all_hits regex matches show re o d))) <= MaxResults o.
Proof. exact search_max. Qed.
Print Assumptions C15_max.

Theorem C15_max_prefix : forall regex compile matches show d o l0 n,
  SearchInDump regex compile matches show (Some d) (Some (with_max o 0)) = Ok (inr l0) -> 0 < n ->
  SearchInDump regex compile matches show (Some d) (Some (with_max o n)) = Ok (inr (firstn (Z.to_nat n) l0)).
Proof. exact search_max_prefix. Qed.
Print Assumptions C15_max_prefix.

Example C15_max_ex :
  SearchInDump _ Toy.compile Toy.matches Toy.show (Some Toy.dump) (Some (Toy.opts 2)) =
  Ok (inr [ hit (Toy.opts 2) (Toy.B "app") (Toy.B "users") 0 Toy.row0 (Toy.B "doc");
            hit (Toy.opts 2) (Toy.B "app") (Toy.B "users") 1 Toy.row1 (Toy.B "id") ]).
Proof. vm_compute. reflexivity. Qed.

(* ---------------------------------------------------------------------------------------------- *)
(* C15_case.  The pattern handed to the regexp compiler is "(?i)" ++ p iff the search is not
   case-sensitive; if it does not compile, Search and SearchInDump return the error and no hits
   (whatever the dump, even a nil one). *)
Theorem C15_case : forall regex compile matches show DumpDataDir o,
  effective_pattern o = (if CaseSensitive o then Pattern o else ci_prefix_str ++ Pattern o) /\
  (compile (effective_pattern o) = None ->
     (forall result, SearchInDump regex compile matches show result (Some o) = Ok (inl EInvalidPattern)) /\
     (forall dir, Search regex compile matches show DumpDataDir dir (Some o) = inl EInvalidPattern)).
Proof. exact search_case. Qed.
Print Assumptions C15_case.

Example C15_case_ex :
  let o := {| Pattern := Toy.B "("; CaseSensitive := false; IncludeRow := false; MaxResults := 0 |} in
  Toy.compile (effective_pattern o) = None /\ ci_prefix_str = Toy.B "(?i)".
Proof. vm_compute. auto. Qed.

(* the whole function at once: on a dump and options, SearchInDump (and Search, on what DumpDataDir
   returned) is the specification: compile error, or all hits cut at MaxResults *)
Theorem C15_search_spec : forall regex compile matches show DumpDataDir d o,
  SearchInDump regex compile matches show (Some d) (Some o) = Ok (expected_search regex compile matches show d o) /\
  (forall dir, DumpDataDir dir = Some d ->
     Search regex compile matches show DumpDataDir dir (Some o) = expected_search regex compile matches show d o).
Proof. intros. split; [apply SearchInDump_spec|intros; apply Search_spec; assumption]. Qed.
Print Assumptions C15_search_spec.

(* ---------------------------------------------------------------------------------------------- *)
(* C15_contains.  The keyword prefilter: containsIgnoreCase never panics and holds iff some window of s
   equals the keyword after lower-casing ASCII letters; bytesContains / bytesEqual never panic and never
   look beyond len, whatever follows the slices in memory. *)
Theorem C15_contains : forall s k,
  containsIgnoreCase s k = Ok (ci_contains s k) /\
  (ci_contains s k = true <->
   exists i, 0 <= i /\ i + blen k <= blen s /\ map ascii_lower (sub s i (i + blen k)) = map ascii_lower k).
Proof. intros. split; [apply containsIgnoreCase_spec|apply ci_contains_window]. Qed.
Print Assumptions C15_contains.

Theorem C15_bytes_contains : forall s k : gslice,
  bytesContains s k = Ok (strings_Contains (vis s) (vis k)) /\ bytesEqual s k = Ok (bytes_eqb (vis s) (vis k)).
Proof. intros. split; [apply bytesContains_spec|apply bytesEqual_spec]. Qed.
Print Assumptions C15_bytes_contains.

Example C15_contains_ex :
  containsIgnoreCase (Toy.B "xx AKIA12345") (Toy.B "akia") = Ok true /\
  containsIgnoreCase (Toy.B "`kia") (Toy.B "@KIA") = Ok false.
Proof. vm_compute. auto. Qed.

(* ---------------------------------------------------------------------------------------------- *)
(* C15_scan.  The scan never panics and returns exactly, cell by cell in database / table / row / column
   order, what the detectors passing the keyword prefilter report on the %v rendering of the cell (if it
   has >= 8 bytes), labelled with the cell's coordinates. *)
Theorem C15_scan_exact : forall dres show dets d,
  ScanDumpResult dres show dets d = Ok (expected_scan dres show dets d) /\
  (forall f, In f (expected_scan dres show dets d) <->
     exists dbn tn i c r v x, cell_at d dbn tn i c r v /\ In x (cell_results dres dets (show v)) /\
                              f = finding dres dbn tn c i x).
Proof. intros. split; [apply ScanDumpResult_spec|intros; apply expected_scan_In]. Qed.
Print Assumptions C15_scan_exact.

(* completeness: whatever a consulted detector reports on a cell is reported with that cell's coordinates *)
Theorem C15_scan_complete : forall dres show (dets : list (Detector dres)) d dbn tn i c r v det found x,
  cell_at d dbn tn i c r v -> 8 <= blen (show v) -> In det dets ->
  (Keywords det = [] \/ exists k, In k (Keywords det) /\ ci_contains (show v) k = true) ->
  FromData det (show v) = Some found -> In x found ->
  exists fs, ScanDumpResult dres show dets d = Ok fs /\ In (finding dres dbn tn c i x) fs.
Proof. exact scan_complete. Qed.
Print Assumptions C15_scan_complete.

(* soundness: every finding carries the coordinates of a cell whose rendering made a detector report it *)
Theorem C15_scan_sound : forall dres show (dets : list (Detector dres)) d fs f,
  ScanDumpResult dres show dets d = Ok fs -> In f fs ->
  exists c r v det found,
    cell_at d (f_database f) (f_table f) (f_rowindex f) c r v /\ f_column f = c /\
    8 <= blen (show v) /\ In det dets /\ FromData det (show v) = Some found /\ In (f_result f) found.
Proof. exact scan_sound. Qed.
Print Assumptions C15_scan_sound.

(* the wording of the property: if a detector with keyword k reports token t on every string containing
   t, k occurs in the cell's rendering (ignoring ASCII case) and the rendering has >= 8 bytes and contains
   t, then the scan reports t with that cell's coordinates *)
Theorem C15_scan : forall dres show (dets : list (Detector dres)) d dbn tn i c r v det k t (raw : dres -> bytes),
  cell_at d dbn tn i c r v -> In det dets ->
  (forall s, strings_Contains s t = true -> exists found x, FromData det s = Some found /\ In x found /\ raw x = t) ->
  In k (Keywords det) -> ci_contains (show v) k = true -> 8 <= blen (show v) ->
  strings_Contains (show v) t = true ->
  exists fs f, ScanDumpResult dres show dets d = Ok fs /\ In f fs /\
               f_database f = dbn /\ f_table f = tn /\ f_rowindex f = i /\ f_column f = c /\ raw (f_result f) = t.
Proof. exact scan_token. Qed.
Print Assumptions C15_scan.

Example C15_scan_ex :
  ScanDumpResult _ Toy.sshow [Toy.det] Toy.sdump =
  Ok [ finding _ (Toy.B "app") (Toy.B "keys") (Toy.B "v") 0 (Toy.B "sk_live_1234") ] /\
  cell_at Toy.sdump (Toy.B "app") (Toy.B "keys") 0 (Toy.B "v") [(Toy.B "v", VStr (Toy.B "x sk_live_1234"))] (VStr (Toy.B "x sk_live_1234")).
Proof.
  split; [vm_compute; reflexivity|].
  eexists _, _. repeat split; try (left; reflexivity); try reflexivity; try lia.
Qed.

(* ---------------------------------------------------------------------------------------------- *)
(* The convenience entry points (search.go:194-230, secrets.go:129-137) inherit the statements above. *)

(* regexp.QuoteMeta (as modelled; the model is compared with Go's function on every run): the quoted text is an escaped
   literal - no unescaped metacharacter - that reads back to the original text, at most twice as long *)
Theorem C15_quote_meta : forall s,
  unquote (QuoteMeta s) = Some s /\ (List.length s <= List.length (QuoteMeta s) <= 2 * List.length s)%nat.
Proof. intros. split; [apply unquote_QuoteMeta|apply QuoteMeta_length]. Qed.
Print Assumptions C15_quote_meta.

(* QuickSearch reports exactly the cells matching the quoted literal case-insensitively, each once, row attached, uncut *)
Theorem C15_quick_search : forall regex compile matches show DumpDataDir dir d p re,
  DumpDataDir dir = Some d -> compile (ci_prefix_str ++ QuoteMeta p) = Some re ->
  QuickSearch regex compile matches show DumpDataDir dir p = inr (all_hits regex matches show re (quick_opts p) d) /\
  (forall h, In h (all_hits regex matches show re (quick_opts p) d) <->
     exists dbn tn i c r v, cell_at d dbn tn i c r v /\ Matches regex matches show re v /\
                            h = {| sr_database := dbn; sr_table := tn; sr_column := c; sr_rownum := i;
                                   sr_value := row_get r c; sr_row := Some r |}).
Proof. exact QuickSearch_exact. Qed.
Print Assumptions C15_quick_search.

Example C15_quick_search_ex :
  QuickSearch _ Toy.compile Toy.matches Toy.show (fun _ => Some Toy.dump) [] (Toy.B "bob") <> inr [].
Proof. vm_compute. discriminate. Qed.

(* ScanForSecrets / SearchSecrets: the findings of the dump of that directory, coordinates unchanged *)
Theorem C15_secret_wrappers : forall dres show DumpDataDir (dets : list (Detector dres)) dir d,
  DumpDataDir dir = Some d ->
  ScanForSecrets dres show DumpDataDir dets dir = Some (Ok (expected_scan dres show dets d)) /\
  SearchSecrets dres show DumpDataDir dets dir = Some (Ok (map (secret_result dres) (expected_scan dres show dets d))).
Proof. intros. split; [apply ScanForSecrets_spec|apply SearchSecrets_spec]; assumption. Qed.
Print Assumptions C15_secret_wrappers.
