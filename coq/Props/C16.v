(* C16 — pg_control fields and CRC verdict equal the stored control data.
   Property theorems only; proofs live in C16/*Proofs.v.
   Model: PG.C16.Model (pgdump/control.go after the fix: commits for D49, D50, D51).
   Spec : PG.C16.Spec (ControlFileData of PostgreSQL 12-16, layout computed from the C member types;
          CRC-32C bit-serial; XLogFileName; pg_controldata's renderings). *)
Require Import PG.Base.Bytes PG.Base.GoSlice.
Require Import PG.C16.Types PG.C16.Model PG.C16.Spec.
Require Import PG.C16.CrcProofs PG.C16.FmtProofs PG.C16.LayoutProofs PG.C16.Proofs PG.C16.HistoricProofs.

(* Every field.  For every control value whose members range over the full range of their C types
   (64-bit identifiers and LSNs, any int32 state incl. the seven named ones, counters to 2^32-1, epoch
   and xid of the 64-bit nextXid, any int64 checkpoint time, wal_level 0..2, any int32 connection /
   worker / sender / prepared / lock limit incl. 0, any non-zero block and segment sizes, any checksum
   version, PostgreSQL 12 or 13-16 member list), for any bytes [pad] following the 296-byte struct
   (none, 8 KiB zero padding, anything) and whatever lies beyond len in memory [t], ParseControlFile
   returns exactly [expected c]: each reported field equals the stored one, the texts are
   pg_controldata's, the redo WAL file name is XLogFileName's, CRCValid is the comparison of the
   stored CRC with the bit-serial CRC-32C of the bytes before it. *)
Theorem C16_fields : forall c pad t,
  wf_control c ->
  ParseControlFile {| vis := enc_control c ++ pad; tail := t |} = Ok (inr (expected c)).
Proof. exact parse_control_fields. Qed.
Print Assumptions C16_fields.

(* The layout used by C16_fields is computed from the member types; it agrees with the documented
   offsets (system_identifier 0 ... crc 288, sizeof = 296; CheckPoint copy at 40..127). *)
Theorem C16_layout : forall c,
  offsets 0 (control_fields c) =
    [0; 8; 12; 16; 24; 32; 40; 128; 136; 144; 152; 160; 168; 172; 176; 180; 184; 188; 192; 196; 200; 204; 208;
     216; 220; 224; 228; 232; 236; 240; 244] ++ (if c_pg12 c then [248; 249] else [248]) ++ [252; 256; 288] /\
  map (Z.add 40) (offsets 0 (checkpoint_fields (c_cp c))) =
    [40; 48; 52; 56; 64; 72; 76; 80; 84; 88; 92; 96; 104; 112; 116; 120] /\
  blen (enc_control c) = 296 /\ crc_offset c = 288.
Proof.
  intros c. split; [apply control_offsets|]. split; [apply checkpoint_offsets|].
  split; [apply control_size|apply control_crc_offset].
Qed.
Print Assumptions C16_layout.

(* CRC verdict on control images: the stored CRC is reported, and it is reported valid iff it
   equals the CRC-32C of the 288 bytes before it. *)
Theorem C16_crc : forall c pad t r,
  wf_control c ->
  ParseControlFile {| vis := enc_control c ++ pad; tail := t |} = Ok (inr r) ->
  CRC r = c_crc c /\ (CRCValid r = true <-> c_crc c = crc32c (firstn 288 (enc_control c ++ pad))).
Proof. exact parse_control_crc. Qed.
Print Assumptions C16_crc.

(* ... and on EVERY byte string the parser accepts (corrupted images included). *)
Theorem C16_crc_any : forall s r,
  ParseControlFile s = Ok (inr r) ->
  CRC r = le_dec (sub (vis s) 288 292) /\
  (CRCValid r = true <-> le_dec (sub (vis s) 288 292) = crc32c (firstn 288 (vis s))).
Proof. exact parse_control_crc_any. Qed.
Print Assumptions C16_crc_any.

(* The table-driven loop (makeCRC32CTable + verifyCRC32C) decides equality with the bit-serial
   CRC-32C, for all byte strings and all expected values. *)
Theorem C16_crc_table : forall (data : gslice) (e : Z), verifyCRC32C data e = (crc32c (vis data) =? e).
Proof. exact verifyCRC32C_spec. Qed.
Print Assumptions C16_crc_table.

(* the bit-serial definition is CRC-32C: standard check value and RFC 3720 B.4 vectors *)
Theorem C16_crc_check_values :
  crc32c (str "123456789") = 0xE3069283 /\ crc32c (repeat x00 32) = 0x8A9136AA /\ crc32c (repeat xff 32) = 0x62A8AB43.
Proof. split; [exact crc32c_check_value|]. split; [exact crc32c_zeros32|exact crc32c_ones32]. Qed.
Print Assumptions C16_crc_check_values.

(* Redo WAL file name: XLogFileName of (timeline, segment size, LSN) for every LSN, timeline and
   non-zero 32-bit segment size; for the legal sizes (2^20..2^30) this is
   (timeline, LSN / 2^32, (LSN mod 2^32) / size) in three 8-digit upper-case hexadecimal groups. *)
Theorem C16_walname : forall lsn tli segsz,
  0 <= lsn < 2 ^ 64 -> 0 <= tli < 2 ^ 32 -> 0 < segsz < 2 ^ 32 ->
  formatWALFilename lsn tli segsz = Ok (wal_file_name tli segsz lsn) /\
  (legal_segsz segsz -> wal_file_name tli segsz lsn = wal_file_name_legal tli segsz lsn).
Proof.
  intros. split; [apply formatWALFilename_spec; assumption|].
  intros L. apply wal_file_name_legal_eq; assumption.
Qed.
Print Assumptions C16_walname.

(* LSN text "%X/%X" and state names, for all 64-bit LSNs and all int32 states *)
Theorem C16_lsn_text : forall lsn, 0 <= lsn < 2 ^ 64 -> formatLSN lsn = lsn_text lsn.
Proof. exact formatLSN_spec. Qed.
Print Assumptions C16_lsn_text.
Theorem C16_state_text : forall s, - 2 ^ 31 <= s < 2 ^ 31 -> DBState_String s = state_text s.
Proof. exact DBState_String_spec. Qed.
Print Assumptions C16_state_text.

(* C10 share: no byte string (and no capacity tail) makes the parser panic; short files are
   rejected; no uint32 segment size makes formatWALFilename divide by zero. *)
Theorem C16_no_panic : forall s, ParseControlFile s <> Panic.
Proof. exact parse_control_no_panic. Qed.
Print Assumptions C16_no_panic.
Theorem C16_too_small : forall s, len s < 296 -> ParseControlFile s = Ok (inl ETooSmall).
Proof. exact parse_control_short. Qed.
Print Assumptions C16_too_small.
Theorem C16_walname_no_panic : forall lsn tli segsz, 0 <= segsz < 2 ^ 32 -> formatWALFilename lsn tli segsz <> Panic.
Proof. exact formatWALFilename_no_panic. Qed.
Print Assumptions C16_walname_no_panic.

(* Historic (before the fix: commits): D49 settings/storage heuristics, D50 xid order, D51 WAL name *)
Theorem C16_config_refuted :
  wf_control example_control /\ findConfigSection_old 40 example_file 180 = 196 /\
  sint32 (rd32 example_file 196) = 64 /\ MaxConnections (expected example_control) = 20000.
Proof. exact historic_config_refuted. Qed.
Print Assumptions C16_config_refuted.
Theorem C16_storage_refuted :
  wf_control example_control /\ findStorageSection_old 40 example_file 220 = 0 /\
  DataChecksumsEnabled (expected example_control) = true.
Proof. exact historic_storage_refuted. Qed.
Print Assumptions C16_storage_refuted.
Theorem C16_xid_order_refuted :
  rd32 example_file 112 = cp_oldestcts example_checkpoint /\
  rd32 example_file 112 <> OldestActiveXID (expected example_control) /\
  rd32 example_file 120 = OldestActiveXID (expected example_control).
Proof. exact historic_xid_order_refuted. Qed.
Print Assumptions C16_xid_order_refuted.
Theorem C16_walname_refuted :
  legal_segsz 16777216 /\ formatWALFilename_old 0x100000000 1 = str "000000010000000000000100" /\
  wal_file_name 1 16777216 0x100000000 = str "000000010000000100000000".
Proof. exact historic_walname_refuted. Qed.
Print Assumptions C16_walname_refuted.
