(* C12 — Every access path exposes the same databases, tables and rows.  Property theorems only; proofs live in
   C12/*Proofs.v.

   E : env bundles everything the paths SHARE and other properties own (ParsePGDatabase, ParsePGClass,
   ParsePGAttribute, ReadRows, TypeName, ParsePGAuthID, ParseControlFile; strings.ToLower/EqualFold/TrimSpace,
   fmt verbs; the order in which a Go `range` visits a map).  Every theorem holds for EVERY such E (range_perm E:
   a range visits each entry once), every file system fs : path -> option bytes, every cluster size.
   realizes E v fs c : "fs, read through E's parsers with pg_attribute layout hint v, holds the abstract cluster c"
   (databases; per database relations of EVERY relkind with oid, filenode, name, attributes, and the rows of its
   file or no file).  wf_cluster: database oids and names distinct; per database filenodes (> 0) and relation oids
   distinct; attribute numbers positive. *)
Require Import PG.Base.Bytes PG.Base.Value.
Require Import PG.C12.Lib PG.C12.Model PG.C12.Spec PG.C12.Cli PG.C12.Expect.
Require Import PG.C12.CacheProofs PG.C12.DumpProofs PG.C12.PathProofs PG.C12.ExpectProofs PG.C12.CliProofs PG.C12.HistoricProofs.
Require Import Coq.Sorting.Permutation Coq.Sorting.Sorted.
Require Import Coq.Strings.String.
Import Coq.Init.Datatypes Coq.Lists.List ListNotations.

(* The data-directory dump IS the custom file-reader interface, applied per database with the reader
   fn |-> base/<oid>/<fn> — for EVERY file system and environment (no well-formedness at all). *)
Theorem C12_custom_reader : forall E fs opts,
  DumpDataDir E fs opts =
  match fs (PGlobal 1262) with
  | None => None
  | Some dbData =>
    let o := withDefaults opts in
    Some (flat_map (fun db =>
      if has_prefix (db_name db) s_template then [] else
      if negb (beq (o_dbfilter o) []) && negb (beq (db_name db) (o_dbfilter o)) then [] else
      match fs (PBase (db_oid db) 1259) with
      | None => []
      | Some classData =>
        if blen classData =? 0 then [] else
        let attrData := match fs (PBase (db_oid db) 1249) with Some a => a | None => [] end in
        let dump := DumpDatabaseFromFiles E classData attrData (Some (fun fn => fs (PBase (db_oid db) fn))) (Some o) in
        [{| dd_oid := db_oid db; dd_name := db_name db; dd_tables := dd_tables dump |}]
      end) (e_ParsePGDatabase E dbData))
  end.
Proof. exact custom_reader. Qed.
Print Assumptions C12_custom_reader.

(* The dump, for every Options value (database filter, table filter, list-only, system tables, layout hint): exactly
   the selected non-template databases in pg_database order, in each the selected ORDINARY tables (relkind r) in
   filenode order whatever order the Go map is visited in, each with all its columns and all the rows of its file. *)
Theorem C12_dump : forall E fs c opts,
  range_perm E -> wf_cluster c -> realizes E (o_pgversion (withDefaults opts)) fs c ->
  DumpDataDir E fs opts = Some (expected_dump E c opts).
Proof. intros. eapply DumpDataDir_ok; eauto. Qed.
Print Assumptions C12_dump.

(* Remote dump, issued after ANY sequence ks of earlier calls on the same client: the data-directory dump with, per
   database, the tables filtered by  rows <> [] /\ not prefix "sql_"  (the documented omissions) — same databases,
   same columns, same rows, same order; nothing else differs.  Hypotheses: the layout hint from PG_VERSION and
   auto-detection (hint 0) read the cluster alike (hint_agrees). *)
Theorem C12_remote_dump : forall E fs c,
  range_perm E -> wf_cluster c -> realizes E 0 fs c -> realizes E (hint_of E fs) fs c ->
  forall ks,
  exists dd, DumpDataDir E fs None = Some dd /\
             snd (do_call E fs (after E fs (NewRemoteClient E fs) ks) KDumpAll) = NDump E (map restrict dd) /\
             dd = expected_dump E c None.
Proof. intros. eapply remote_dump; eauto. Qed.
Print Assumptions C12_remote_dump.

(* Remote table dump and database dump (by oid), after ANY earlier calls: DumpTable gives the relation's columns and all
   the rows of its file - exactly the data-directory dump's table entry; DumpDatabase gives the data-directory dump's
   entry of that database minus the documented omissions (also for a template database, which only DumpAll skips). *)
Theorem C12_remote_table_dump : forall E fs c,
  wf_cluster c -> realizes E (hint_of E fs) fs c ->
  forall ks d r, In d (a_dbs c) -> In r (d_rels d) ->
  snd (do_call E fs (after E fs (NewRemoteClient E fs) ks) (KDumpTable (d_oid d) (Some (ti_of r)))) =
  NTableDump E (Some (expected_table E (withDefaults None) r)).
Proof.
  intros E fs c WF R ks d r Hd Hr. rewrite call_after. cbn [pure_call option_map]. f_equal. f_equal.
  eapply p_dump_table_expected; eauto.
Qed.
Print Assumptions C12_remote_table_dump.
Theorem C12_remote_database_dump : forall E fs c,
  range_perm E -> wf_cluster c -> realizes E (hint_of E fs) fs c ->
  forall ks d, In d (a_dbs c) ->
  snd (do_call E fs (after E fs (NewRemoteClient E fs) ks) (KDumpDatabase (d_oid d))) =
  NDbDump E (Some (restrict (expected_db E (withDefaults None) d))).
Proof.
  intros E fs c RP WF R ks d Hd. rewrite call_after. cbn [pure_call]. f_equal. eapply p_dump_database_expected; eauto.
Qed.
Print Assumptions C12_remote_database_dump.

(* Listings: Databases = pg_database; Tables = every relation in filenode order; Columns = the relation's attributes;
   the listing restricted to ordinary non-pg_ relations is the dump's table set and Columns are the dump's columns. *)
Theorem C12_listings : forall E fs c,
  range_perm E -> wf_cluster c -> realizes E (hint_of E fs) fs c ->
  forall ks,
  snd (do_call E fs (after E fs (NewRemoteClient E fs) ks) KDatabases) = NDbs E (expected_databases c) /\
  (forall d, In d (a_dbs c) ->
     snd (do_call E fs (after E fs (NewRemoteClient E fs) ks) (KTables (d_oid d))) = NTables E (expected_listing d) /\
     (forall oid, snd (do_call E fs (after E fs (NewRemoteClient E fs) ks) (KColumns (d_oid d) oid)) = NAttrs E (attrs_of d oid))).
Proof. intros. eapply listings; eauto. Qed.
Print Assumptions C12_listings.
Theorem C12_listing_is_dump_set : forall E c, wf_cluster c -> forall d, In d (a_dbs c) ->
  map (fun t => (ti_oid t, ti_name t, ti_filenode t, ti_kind t))
      (filter (fun t => (beq (ti_kind t) s_r || beq (ti_kind t) []) && negb (has_prefix (ti_name t) s_pg_)) (expected_listing d)) =
  map (fun t => (td_oid t, td_name t, td_filenode t, td_kind t)) (expected_tables E (withDefaults None) d) /\
  forall r, In r (d_rels d) ->
    map (colinfo_of_attr E) (filter (fun a => ai_num a >? 0) (attrs_of d (r_oid r))) =
    td_columns (expected_table E (withDefaults None) r).
Proof. intros E c WF. exact (listing_vs_dump E c WF). Qed.
Print Assumptions C12_listing_is_dump_set.
(* Summary holds the same databases and, per non-template database, the same listing; the names its JSON form keeps
   (json_listed) are the dump's tables of kind r outside sql_*. *)
Theorem C12_summary : forall E fs c,
  range_perm E -> wf_cluster c -> realizes E (hint_of E fs) fs c ->
  forall ks s, snd (do_call E fs (after E fs (NewRemoteClient E fs) ks) KSummary) = NSummary E s ->
  sr_dbs s = expected_databases c /\
  sr_tables s = map (fun d => (d_oid d, expected_listing d)) (filter (fun d => negb (has_prefix (d_name d) s_template)) (a_dbs c)).
Proof. intros. eapply summary_tables; eauto. Qed.
Print Assumptions C12_summary.
Theorem C12_summary_names : forall E c, wf_cluster c -> forall d, In d (a_dbs c) ->
  map ti_name (filter json_listed (expected_listing d)) =
  map td_name (filter (fun t => beq (td_kind t) s_r && negb (has_prefix (td_name t) s_sql_)) (expected_tables E (withDefaults None) d)).
Proof. intros E c WF. exact (summary_names E c WF). Qed.
Print Assumptions C12_summary_names.

(* Query with projection cs and limit n = firstn n (map (project cs) rows): n <= 0 no limit, cs = [] no projection,
   projection keeps the requested columns that exist. *)
Theorem C12_query : forall E fs c,
  range_perm E -> wf_cluster c -> realizes E (hint_of E fs) fs c ->
  forall ks d r cs n, In d (a_dbs c) -> In r (d_rels d) ->
  snd (do_call E fs (after E fs (NewRemoteClient E fs) ks)
         (KQuery (d_oid d) (Some (ti_of r)) (Some {| q_columns := cs; q_limit := n |}))) = NRows E (expected_query r cs n).
Proof. intros. eapply query; eauto. Qed.
Print Assumptions C12_query.

(* By-name access returns the database / relation with EXACTLY that name whenever there is one — whatever other
   names differ from it only in case, whatever EqualFold is — and QueryByName returns that relation's rows. *)
Theorem C12_names : forall E fs c,
  range_perm E -> wf_cluster c -> realizes E (hint_of E fs) fs c ->
  forall ks d, In d (a_dbs c) ->
  snd (do_call E fs (after E fs (NewRemoteClient E fs) ks) (KDatabase (d_name d))) = NDb E (Some (db_of d)) /\
  forall r, In r (d_rels d) -> NoDup (map r_name (d_rels d)) ->
    snd (do_call E fs (after E fs (NewRemoteClient E fs) ks) (KTable (d_oid d) (r_name r))) = NTable E (Some (ti_of r)) /\
    snd (do_call E fs (after E fs (NewRemoteClient E fs) ks) (KQueryByName (d_name d) (r_name r) None)) = NRows E (rel_rows r).
Proof. intros. eapply names; eauto. Qed.
Print Assumptions C12_names.
Theorem C12_names_fallback : forall E A (name_of : A -> bytes) l n,
  (forall x, In x l -> name_of x <> n) -> lookup E name_of l n = find (fun x => e_EqualFold E (name_of x) n) l.
Proof. intros E A. exact (lookup_fold E). Qed.

(* Cache transparency: every sequence of calls (all 18 methods, any arguments, any order, repeated) on ONE client
   answers, call by call, what a fresh client answers to that call alone — for every file system, no hypothesis. *)
Theorem C12_cache : forall E fs ks,
  run_calls E fs (NewRemoteClient E fs) ks = map (fun k => snd (do_call E fs (NewRemoteClient E fs) k)) ks.
Proof. exact run_calls_pure. Qed.
Print Assumptions C12_cache.

(* Every method, every call sequence: ONE client, driven through any sequence ks of calls (all 18 methods; by-name
   calls, Exec commands and database dumps with ANY arguments; by-oid listings of the cluster's databases; queries and
   table dumps about nil, a filenode 0 or the cluster's relations - call_in), answers call by call exactly what
   C12/Expect.v reads off the ABSTRACT cluster: listings, exact-name-first lookups, firstn n (map (project cs) rows),
   the data-directory dump minus the documented omissions, Summary, and Exec's dispatch onto these.
   creds_of / ctl_of: what global/1260 parses to / the bytes of global/pg_control. *)
Theorem C12_answers : forall E fs c,
  range_perm E -> wf_cluster c -> realizes E (hint_of E fs) fs c ->
  forall ks, Forall (call_in c) ks ->
  run_calls E fs (NewRemoteClient E fs) ks = map (expected_answer E c (creds_of E fs) (ctl_of fs)) ks.
Proof. intros. eapply answers_any_client; eauto. Qed.
Print Assumptions C12_answers.

(* The command line: main.go's chain (in source order) is the decision table; a plain invocation dumps with exactly
   the library options the flags name, rendered by the -sql / -csv / JSON switch; -list-db prints ListDatabases,
   which is the sorted arrangement (templates last, then by name) of pg_database. *)
Theorem C12_cli : forall E f, main E f = dispatch E f.
Proof. exact main_dispatch. Qed.
Print Assumptions C12_cli.
Theorem C12_cli_dump : forall E fs_of f, plain_dump E f = true ->
  run E fs_of f =
  OutDump (DumpDataDir E (fs_of (data_dir E f))
             (Some {| o_dbfilter := f_db f; o_tablefilter := f_t f; o_listonly := f_list f; o_skipsys := true; o_pgversion := 0 |}))
          (if f_sql f then FSQL else if f_csv f then FCSV else FJSON).
Proof. exact plain_dump_run. Qed.
Print Assumptions C12_cli_dump.
Theorem C12_cli_list_db : forall E fs_of f,
  f_version f = false -> f_detect f = false -> f_f f = [] -> f_d f <> [] -> f_list_db f = true ->
  run E fs_of f = match ListDatabases E (fs_of (f_d f)) with
                  | [] => OutText (lit "No databases found" ++ nl) 1
                  | dbs => OutText (listdb_text E dbs) 0
                  end.
Proof. exact list_db_run. Qed.
Theorem C12_list_databases : forall E fs,
  StronglySorted (fun a b => db_leb a b = true) (ListDatabases E fs) /\ Permutation (ListDatabases E fs) (p_dbs E fs).
Proof. exact list_databases_sorted. Qed.
Print Assumptions C12_list_databases.

(* Historic (before the repairs): the remote dump listed an index that has rows as a table (D42); a first-EqualFold
   lookup cannot reach the second of two names differing only in case (D43). *)
Theorem C12_remote_kinds_refuted :
  exists E fs c, range_perm E /\ wf_cluster c /\ realizes E (hint_of E fs) fs c /\
                 p_dump_all_h E fs <> expected_remote_all E c.
Proof. exact remote_kinds_refuted. Qed.
Theorem C12_equalfold_refuted :
  exists (l : list bytes) x, NoDup l /\ In x l /\ lookup_h w_env (fun n => n) l x <> Some x.
Proof. exact equalfold_refuted. Qed.

(* Historic (D63): a database of pg_database without a readable pg_class was left out by DumpDataDir but listed
   (with no tables) by the old RemoteClient.DumpAll; the repaired DumpAll leaves it out too. *)
Theorem C12_missing_directory_refuted :
  exists E fs, DumpDataDir E fs None = Some [] /\ p_dump_all_h2 E fs <> [] /\ p_dump_all E fs = [].
Proof. exact missing_directory_refuted. Qed.

(* non-vacuity: a concrete environment, file system and cluster satisfy all the hypotheses *)
Example C12_nonvacuous : range_perm w_env /\ wf_cluster w_cluster /\ realizes w_env (hint_of w_env w_fs) w_fs w_cluster.
Proof. split; [intros l; reflexivity|]. split; [exact w_wf|exact w_realizes]. Qed.
