(* C04 — Scalar values decode to the value PostgreSQL stored.  Property theorems only. *)
Require Import PG.Base.Bytes PG.Base.GoSlice PG.Base.Value.
Require Import PG.C04.Lib PG.C04.Model PG.C04.Spec PG.C04.FixedProofs.

Theorem C04_int4 : forall fg fm tv ju dn jb da v t,
  in_s 32 v -> DecodeType fg fm tv ju dn jb da {| vis := enc_int4 v; tail := t |} 23 = Ok (exp_int4 v).
Proof. exact int4_ok. Qed.
Print Assumptions C04_int4.
