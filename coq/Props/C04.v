(* C04 — Scalar values decode to the value PostgreSQL stored.
   Property theorems only; proofs live in C04/*Proofs.v.  In every theorem [o] bundles the oracles
   (float / money text rendering, ToValidUTF8, json.Unmarshal, the sub-decoders of C05/C06/C07):
   the statement holds for EVERY choice of them, and [t] is whatever lies behind the slice up to its
   capacity.  enc_* is PostgreSQL's stored image, exp_* the expected result computed from the
   abstract value alone (C04/Spec.v). *)
Require Import PG.Base.Bytes PG.Base.GoSlice PG.Base.Value.
Require Import PG.C04.Lib PG.C04.Model PG.C04.Spec PG.C04.ExamplesProofs.
Require Import PG.C04.FixedProofs PG.C04.CalProofs PG.C04.TextProofs PG.C04.NetProofs PG.C04.RangeProofs
               PG.C04.PathProofs PG.C04.SafetyProofs.
Notation DT := DecodeTypeO.
Notation "'IMG' b t" := {| vis := b; tail := t |} (at level 10, b at level 9, t at level 9).

(* ---- integers, OIDs, transaction ids, floats: exactly ---- *)
Theorem C04_bool : forall o b t, DT o (IMG (enc_bool b) t) 16 = Ok (exp_bool b).
Proof. intros o. apply bool_ok. Qed.
Print Assumptions C04_bool.
Theorem C04_char : forall o c t, DT o (IMG (enc_char c) t) 18 = Ok (exp_char c).
Proof. intros o. apply char_ok. Qed.
Print Assumptions C04_char.
Theorem C04_name : forall o n t, wf_name n -> DT o (IMG (enc_name n) t) 19 = Ok (exp_name n).
Proof. intros o. apply name_ok. Qed.
Print Assumptions C04_name.
Theorem C04_int2 : forall o v t, in_s 16 v -> DT o (IMG (enc_int2 v) t) 21 = Ok (exp_int2 v).
Proof. intros o. apply int2_ok. Qed.
Print Assumptions C04_int2.
Theorem C04_int4 : forall o v t, in_s 32 v -> DT o (IMG (enc_int4 v) t) 23 = Ok (exp_int4 v).
Proof. intros o. apply int4_ok. Qed.
Print Assumptions C04_int4.
Theorem C04_int8 : forall o v t, in_s 64 v -> DT o (IMG (enc_int8 v) t) 20 = Ok (exp_int8 v).
Proof. intros o. apply int8_ok. Qed.
Print Assumptions C04_int8.
(* oid (26), xid (28), cid (29): unsigned, the full range 0 .. 2^32-1 *)
Theorem C04_oid_xid_cid : forall o oid v t, oid = 26 \/ oid = 28 \/ oid = 29 -> in_u 32 v ->
  DT o (IMG (enc_u32 v) t) oid = Ok (exp_u32 v).
Proof. intros o. apply u32_ok. Qed.
Print Assumptions C04_oid_xid_cid.
(* all 2^32 / 2^64 bit patterns, NaN payloads included *)
Theorem C04_float4 : forall o b t, in_u 32 b -> DT o (IMG (enc_float4 b) t) 700 = Ok (exp_float4 b).
Proof. intros o. apply float4_ok. Qed.
Print Assumptions C04_float4.
Theorem C04_float8 : forall o b t, in_u 64 b -> DT o (IMG (enc_float8 b) t) 701 = Ok (exp_float8 b).
Proof. intros o. apply float8_ok. Qed.
Print Assumptions C04_float8.
Theorem C04_money : forall o c t, in_s 64 c -> DT o (IMG (enc_money c) t) 790 = Ok (exp_money (o_fmt_money o) c).
Proof. intros o. apply money_ok. Qed.
Print Assumptions C04_money.

(* ---- text types byte for byte (valid UTF-8, non-empty: the empty string is defect D05), bytea as hex, json ---- *)
Theorem C04_text : forall o oid s t, oid = 25 \/ oid = 1043 \/ oid = 1042 \/ oid = 142 -> valid_utf8 s = true -> 0 < blen s ->
  DT o (IMG (enc_text s) t) oid = Ok (exp_text s).
Proof. intros o. apply text_ok. Qed.
Print Assumptions C04_text.
Theorem C04_bytea : forall o d t, 0 < blen d -> DT o (IMG d t) 17 = Ok (exp_bytea d).
Proof. intros o. apply bytea_ok. Qed.
Print Assumptions C04_bytea.
Theorem C04_json : forall o d doc t, 0 < blen d -> o_json_unmarshal o d = Some doc -> DT o (IMG d t) 114 = Ok doc.
Proof. intros o. apply json_ok. Qed.
Print Assumptions C04_json.
(* bit (1560) / varbit (1562): all lengths *)
Theorem C04_bits : forall o oid l t, oid = 1560 \/ oid = 1562 -> Z.of_nat (length l) < 2 ^ 31 ->
  DT o (IMG (enc_bits l) t) oid = Ok (exp_bits l).
Proof. intros o. apply bits_ok. Qed.
Print Assumptions C04_bits.

(* ---- dates, times, timestamps, intervals ---- *)
(* the calendar oracle: Hinnant's civil_from_days inverts the day count on every valid date of every year *)
Theorem C04_calendar : forall y m d, valid_date y m d -> civil_from_days (days_from_civil y m d) = (y, m, d).
Proof. exact civil_from_days_from_civil. Qed.
Print Assumptions C04_calendar.
(* years 0001..9999 and +/- infinity *)
Theorem C04_date : forall o v t, wf_date v -> DT o (IMG (enc_date v) t) 1082 = Ok (exp_date v).
Proof. intros o. apply date_ok. Qed.
Print Assumptions C04_date.
Theorem C04_time : forall o c t, wf_clock c -> DT o (IMG (enc_time c) t) 1083 = Ok (exp_time c).
Proof. intros o. apply time_ok. Qed.
Print Assumptions C04_time.
(* every zone offset -15:59:59 .. +15:59:59, minutes and seconds included *)
Theorem C04_timetz : forall o c z t, wf_clock c -> wf_tz z -> DT o (IMG (enc_timetz c z) t) 1266 = Ok (exp_timetz c z).
Proof. intros o. apply timetz_ok. Qed.
Print Assumptions C04_timetz.
(* timestamp (1114) and timestamptz (1184): years 0001..9999 and +/- infinity, to the second *)
Theorem C04_timestamp : forall o oid v t, oid = 1114 \/ oid = 1184 -> wf_ts v -> DT o (IMG (enc_ts v) t) oid = Ok (exp_ts v).
Proof. intros o. apply ts_ok. Qed.
Print Assumptions C04_timestamp.
(* every int64 time, int32 days, int32 months: all sign combinations *)
Theorem C04_interval : forall o v t, wf_ival v -> DT o (IMG (enc_interval v) t) 1186 = Ok (exp_interval v).
Proof. intros o. apply interval_ok. Qed.
Print Assumptions C04_interval.

(* ---- uuid, MAC, inet/cidr ---- *)
Theorem C04_uuid : forall o u t, blen u = 16 -> DT o (IMG u t) 2950 = Ok (exp_uuid u).
Proof. intros o. apply uuid_ok. Qed.
Print Assumptions C04_uuid.
Theorem C04_macaddr : forall o a t, blen a = 6 -> DT o (IMG a t) 829 = Ok (exp_mac a).
Proof. intros o. apply macaddr_ok. Qed.
Print Assumptions C04_macaddr.
Theorem C04_macaddr8 : forall o a t, blen a = 8 -> DT o (IMG a t) 774 = Ok (exp_mac a).
Proof. intros o. apply macaddr8_ok. Qed.
Print Assumptions C04_macaddr8.
(* inet (869) / cidr (650): IPv4 and IPv6, every prefix length *)
Theorem C04_inet : forall o oid v t, oid = 869 \/ oid = 650 -> wf_inet v -> DT o (IMG (enc_inet v) t) oid = Ok (exp_inet v).
Proof. intros o. apply inet_ok. Qed.
Print Assumptions C04_inet.

(* ---- geometric: every component, as bit patterns handed to the float printer ---- *)
Theorem C04_point : forall o p t, wf_point p -> DT o (IMG (enc_point p) t) 600 = Ok (exp_point (o_fmt_g o) p).
Proof. intros o. apply point_ok. Qed.
Print Assumptions C04_point.
Theorem C04_lseg : forall o p q t, wf_point p -> wf_point q -> DT o (IMG (enc_lseg p q) t) 601 = Ok (exp_lseg (o_fmt_g o) p q).
Proof. intros o. apply lseg_ok. Qed.
Print Assumptions C04_lseg.
Theorem C04_box : forall o p q t, wf_point p -> wf_point q -> DT o (IMG (enc_lseg p q) t) 603 = Ok (exp_box (o_fmt_g o) p q).
Proof. intros o. apply box_ok. Qed.
Print Assumptions C04_box.
Theorem C04_line : forall o a b c t, in_u 64 a -> in_u 64 b -> in_u 64 c ->
  DT o (IMG (enc_line a b c) t) 628 = Ok (exp_line (o_fmt_g o) a b c).
Proof. intros o. apply line_ok. Qed.
Print Assumptions C04_line.
Theorem C04_circle : forall o p r t, wf_point p -> in_u 64 r -> DT o (IMG (enc_circle p r) t) 718 = Ok (exp_circle (o_fmt_g o) p r).
Proof. intros o. apply circle_ok. Qed.
Print Assumptions C04_circle.

(* ---- ranges: int4range 3904, int8range 3926, daterange 3912, tsrange 3908, tstzrange 3910; all 32
   combinations of the five flag bits, bounds written at datum-relative alignment, flags last ---- *)
Theorem C04_range : forall o oid typid f lo hi t,
  relem_fits oid lo = true -> relem_fits oid hi = true -> wf_relem lo -> wf_relem hi -> in_u 32 typid ->
  DT o (IMG (enc_range_of typid f lo hi) t) oid = Ok (exp_range_of f lo hi).
Proof. intros o. apply range_ok. Qed.
Print Assumptions C04_range.

(* ---- type names: PostgreSQL's typname for every oid in the table, "oid:N" for every other integer ---- *)
Theorem C04_typenames : forall oid, TypeName oid = exp_typename oid.
Proof. exact typename_ok. Qed.
Print Assumptions C04_typenames.

(* ---- safety (D30/D33 repaired): no byte string, capacity tail or oid makes DecodeType panic ---- *)
Theorem C04_no_panic : forall o s oid, DT o s oid <> Panic.
Proof. intros o. apply DecodeType_np. Qed.
Print Assumptions C04_no_panic.

(* ---- known findings (pinned by the repository's tests): exact class, agreement outside it,
   machine-checked witness inside it ---- *)
(* D07 tid: FULL STATEMENT  forall hi lo pos, DT (enc_tid hi lo pos) 27 = exp_tid hi lo pos  is false
   whenever bi_hi <> bi_lo (the block number is read as one little-endian u32). *)
Theorem C04_tid_partial : forall o hi lo pos t, in_u 16 hi -> in_u 16 lo -> in_u 16 pos -> kf_tid hi lo = false ->
  DT o (IMG (enc_tid hi lo pos) t) 27 = Ok (exp_tid hi lo pos).
Proof. intros o. apply tid_partial. Qed.
Print Assumptions C04_tid_partial.
Theorem C04_tid_refuted : forall o, exists hi lo pos, in_u 16 hi /\ in_u 16 lo /\ in_u 16 pos /\ kf_tid hi lo = true /\
  DT o (IMG (enc_tid hi lo pos) []) 27 <> Ok (exp_tid hi lo pos).
Proof. intros o. apply tid_refuted. Qed.
Print Assumptions C04_tid_refuted.
(* D08 pg_lsn: wrong whenever high word <> low word (halves printed in the wrong order) *)
Theorem C04_pglsn_partial : forall o v t, in_u 64 v -> kf_lsn v = false -> DT o (IMG (enc_lsn v) t) 3220 = Ok (exp_lsn v).
Proof. intros o. apply lsn_partial. Qed.
Print Assumptions C04_pglsn_partial.
Theorem C04_pglsn_refuted : forall o, exists v, in_u 64 v /\ kf_lsn v = true /\ DT o (IMG (enc_lsn v) []) 3220 <> Ok (exp_lsn v).
Proof. intros o. apply lsn_refuted. Qed.
Print Assumptions C04_pglsn_refuted.
(* D10 path / polygon: parsed with a layout PostgreSQL does not use; FULL STATEMENTS
   forall closed ps, wf_points ps -> DT (enc_path closed ps) 602 = exp_path closed ps   and
   forall b1 b2 ps, wf_points ps -> DT (enc_polygon b1 b2 ps) 604 = exp_polygon ps   are refuted; the
   class is every stored path/polygon (kf_path = true), so there is no _partial. *)
Theorem C04_path_refuted : forall o, exists closed ps, wf_points ps /\ kf_path ps = true /\
  DT o (IMG (enc_path closed ps) []) 602 <> Ok (exp_path (o_fmt_g o) closed ps).
Proof. intros o. apply path_refuted. Qed.
Print Assumptions C04_path_refuted.
Theorem C04_polygon_refuted : forall o, exists b1 b2 ps, wf_points ps /\ kf_path ps = true /\
  DT o (IMG (enc_polygon b1 b2 ps) []) 604 <> Ok (exp_polygon (o_fmt_g o) ps).
Proof. intros o. apply polygon_refuted. Qed.
Print Assumptions C04_polygon_refuted.
(* D16 numrange: finite bounds are printed as "?"; correct exactly for empty and (,) ranges *)
Theorem C04_numrange_partial : forall o num_disp typid f lo hi t, in_u 32 typid -> kf_numrange f = false ->
  DT o (IMG (enc_numrange typid f lo hi) t) 3906 = Ok (exp_numrange num_disp f lo hi).
Proof. intros o. apply numrange_partial. Qed.
Print Assumptions C04_numrange_partial.
Theorem C04_numrange_refuted : forall o num_disp, exists typid f lo hi, in_u 32 typid /\ kf_numrange f = true /\
  (num_disp lo <> bs "?" -> DT o (IMG (enc_numrange typid f lo hi) []) 3906 <> Ok (exp_numrange num_disp f lo hi)).
Proof. intros o. apply numrange_refuted. Qed.
Print Assumptions C04_numrange_refuted.
