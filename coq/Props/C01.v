(* C01 — End-to-end dump reproduces the cluster's logical content.  Statements only.

   Model: coq/C01/Model.v (catalog.go, pgdump.go; the heap layer is the C02/C03 model).  Spec: coq/C01/Spec.v (abstract
   cluster, reference writer enc_cluster, expected_dump on the abstract value).  What is not logic is a Section variable:
   DecodeType (C04-C07; hypotheses DT_ok "total, depends on the visible bytes only" and DT_cat "agrees with cat_decode on
   the seven (type id, width) pairs of the catalog schemas"), ToLower (strings.ToLower), TypeName (types.go table),
   range_order (the order in which Go visits a map: any permutation), slack (spare capacity left by os.ReadFile). *)
Require Import PG.Base.Bytes PG.Base.GoSlice PG.Base.Value.
Require Import PG.C02.Model PG.C03.Model PG.C03.Spec.
Require Import PG.C01.Lib PG.C01.Model PG.C01.Spec PG.C01.Inst PG.C01.Check.
Require Import PG.C01.RowcountProofs PG.C01.HeapProofs PG.C01.CatalogProofs PG.C01.DumpProofs PG.C01.MoreProofs
               PG.C01.CheckProofs PG.C01.Examples.
Require Import Coq.Sorting.Permutation.

Section C01.
Variable DecodeType : gslice -> Z -> res gval.
Variable decode : bytes -> Z -> gval.
Hypothesis DT_ok : forall s oid, DecodeType s oid = Ok (decode (vis s) oid).
Hypothesis DT_cat : agrees_on_catalog decode.
Variable ToLower : bytes -> bytes.
Variable TypeName : Z -> bytes.
Variable range_order : list Z -> list Z.
Hypothesis range_perm : forall l, Permutation l (range_order l).
Variable slack : bytes -> bytes.

(* CORE.  For every well-formed cluster (any number of databases, relations of every relkind, relfilenode <> oid,
   relations without storage or without a file, catalog and table rows spread over any number of pages and interleaved
   with dead versions / dead line pointers / all-zero blocks, either pg_attribute layout) and every option combination
   (nil options, database filter, case-insensitive table filter, list-only, skip-system, version hint) under which the
   pg_attribute layout is named or correctly auto-detected: the dump is exactly expected_dump — every non-template
   database passing the filter, in pg_database order; in it every ordinary table with storage passing the filters, each
   once, in filenode order; its columns in attnum order with the catalog's names and type ids; exactly the rows that are
   live in its heap file, each value = the decoder applied to exactly the stored payload; RowCount = number of rows. *)
Theorem C01_dump : forall c opts,
  wf_cluster c -> detect_ok c opts ->
  DumpDataDir DecodeType ToLower TypeName range_order slack (enc_cluster c) opts =
  Ok (Some (expected_dump decode ToLower TypeName c opts)).
Proof. intros. eapply DumpDataDir_enc; eassumption. Qed.

(* The same for the file-level entry point, with any FileReader that hands out the directory's relation files
   (whatever spare capacity the slices carry). *)
Theorem C01_files : forall v16 d rd opts ctl atl,
  wf_dir v16 d -> reader_for d rd ->
  detect_ok_attrs v16 (o_pgversion (eff_opts opts)) (live_rows (dir_attr d)) = true ->
  DumpDatabaseFromFiles DecodeType ToLower TypeName range_order
    {| vis := enc_heap schemaPGClass class_ds (dir_class d); tail := ctl |}
    {| vis := enc_heap (attr_schema v16) (attr_ds v16) (dir_attr d); tail := atl |} (Some rd) opts =
  Ok {| dd_oid := 0; dd_name := []; dd_tables := expected_tables decode ToLower TypeName d (eff_opts opts) |}.
Proof. intros. eapply DumpDatabaseFromFiles_enc; eassumption. Qed.

(* CORE.  Schema-only mode returns the same databases, tables and columns as the full dump, with no rows and count 0. *)
Theorem C01_schema_only : forall c o,
  wf_cluster c -> detect_ok c (Some (with_listonly o true)) ->
  DumpDataDir DecodeType ToLower TypeName range_order slack (enc_cluster c) (Some (with_listonly o true)) =
  Ok (Some (map strip_db (expected_dump decode ToLower TypeName c (Some (with_listonly o false))))).
Proof. intros c o W D. rewrite C01_dump by assumption. rewrite expected_dump_listonly. reflexivity. Qed.

(* The pieces: any heap file read back with its schema yields exactly the live rows, in physical order ... *)
Theorem C01_heap_rows : forall (cols : list Column) (h : heap (list datum)) tl,
  cols <> [] -> nums_ok cols 0 -> wf_heap cols idds (fun _ => True) h ->
  ReadRows DecodeType {| vis := enc_heap cols idds h; tail := tl |} cols true =
  Ok (map (expected_row decode cols) (live_rows h)).
Proof. intros. eapply ReadRows_enc_heap; eassumption. Qed.

(* ... and the three catalog parsers return the live catalog rows (pg_class keyed by filenode, only relations with
   storage; pg_attribute grouped by relation, attnum <= 0 dropped, sorted by attnum). *)
Theorem C01_pg_database : forall h tl,
  wf_heap schemaPGDatabase db_ds wf_dbrow h ->
  ParsePGDatabase DecodeType {| vis := enc_heap schemaPGDatabase db_ds h; tail := tl |} =
  Ok (map (fun d => {| db_oid := dr_oid d; db_name := dr_name d |}) (live_rows h)).
Proof. intros. eapply ParsePGDatabase_enc; eassumption. Qed.
Theorem C01_pg_class : forall h tl,
  wf_heap schemaPGClass class_ds wf_classrow h ->
  ParsePGClass DecodeType {| vis := enc_heap schemaPGClass class_ds h; tail := tl |} = Ok (flat_map class_entry (live_rows h)).
Proof. intros. eapply ParsePGClass_enc; eassumption. Qed.
Theorem C01_pg_attribute : forall v16 hint h tl oid,
  wf_heap (attr_schema v16) (attr_ds v16) wf_attrow h -> detect_ok_attrs v16 hint (live_rows h) = true -> 0 < oid ->
  exists m, ParsePGAttribute DecodeType {| vis := enc_heap (attr_schema v16) (attr_ds v16) h; tail := tl |} hint = Ok m /\
            attrs_get m oid = map attr_info (rel_atts (live_rows h) oid).
Proof.
  intros v16 hint h tl oid W D Ho. eexists. split; [eapply ParsePGAttribute_enc; eassumption|].
  eapply attrs_of_rows; [eassumption|eassumption| |exact Ho].
  pose proof (live_rows_ok _ _ _ h W) as F. eapply Forall_impl; [|exact F]. intros a [_ H]. exact H.
Qed.

(* Layout detection is right exactly as detect_ok_attrs says: the hint names the layout, or (hint < 12) a 16 layout has
   1..5 as the attnums of its first five live rows, or a <= 15 layout does not carry 1..5 in the high half of
   attstattarget of its first five live rows. *)
Theorem C01_detect : forall v16 hint h tl,
  wf_heap (attr_schema v16) (attr_ds v16) wf_attrow h -> detect_ok_attrs v16 hint (live_rows h) = true ->
  detectAttrSchema DecodeType {| vis := enc_heap (attr_schema v16) (attr_ds v16) h; tail := tl |} hint = Ok (attr_schema v16).
Proof. intros. eapply detectAttrSchema_enc; eassumption. Qed.

(* C10 share: no panic on ANY file system (every byte string in every file, missing files), any options. *)
Theorem C01_no_panic : forall fs opts, DumpDataDir DecodeType ToLower TypeName range_order slack fs opts <> Panic.
Proof. intros fs opts. edestruct DumpDataDir_total as [r E]; [exact DT_ok|]. rewrite E. discriminate. Qed.
Theorem C01_files_no_panic : forall cd ad reader opts,
  DumpDatabaseFromFiles DecodeType ToLower TypeName range_order cd ad reader opts <> Panic.
Proof. intros. edestruct DumpDatabaseFromFiles_total as [r E]; [exact DT_ok|]. rewrite E. discriminate. Qed.
End C01.
Print Assumptions C01_dump.
Print Assumptions C01_files.
Print Assumptions C01_schema_only.
Print Assumptions C01_heap_rows.
Print Assumptions C01_pg_attribute.
Print Assumptions C01_detect.
Print Assumptions C01_no_panic.

Section C01_any_input.
Variable DecodeType : gslice -> Z -> res gval.
Variable ToLower : bytes -> bytes.
Variable TypeName : Z -> bytes.
Variable slack : bytes -> bytes.

(* CORE.  The reported row count always equals the number of rows returned: for EVERY file system (any bytes in any
   file, missing files), every option combination, every decoder, every map order — no well-formedness needed. *)
Theorem C01_rowcount : forall range_order fs opts r,
  DumpDataDir DecodeType ToLower TypeName range_order slack fs opts = Ok (Some r) ->
  Forall (fun d => Forall (fun t => td_rowcount t = Z.of_nat (length (td_rows t))) (dd_tables d)) r.
Proof. intros. eapply DumpDataDir_count; eassumption. Qed.
Theorem C01_rowcount_files : forall range_order classData attrData reader opts d,
  DumpDatabaseFromFiles DecodeType ToLower TypeName range_order classData attrData reader opts = Ok d ->
  Forall (fun t => td_rowcount t = Z.of_nat (length (td_rows t))) (dd_tables d).
Proof. intros. eapply DumpDatabaseFromFiles_count; eassumption. Qed.

(* C11 share (D36 repaired): the result does not depend on the order in which Go visits the pg_class map — for ALL
   inputs, well-formed or not. *)
Theorem C01_order_independent : forall ro1 ro2,
  (forall l, Permutation l (ro1 l)) -> (forall l, Permutation l (ro2 l)) ->
  forall fs opts,
  DumpDataDir DecodeType ToLower TypeName ro1 slack fs opts = DumpDataDir DecodeType ToLower TypeName ro2 slack fs opts.
Proof. intros. eapply DumpDataDir_order; eassumption. Qed.
End C01_any_input.
Print Assumptions C01_rowcount.
Print Assumptions C01_order_independent.

(* In a schema-only expectation every table has no rows and count 0. *)
Theorem C01_schema_only_empty : forall decode ToLower TypeName c o,
  Forall (fun d => Forall (fun t => td_rows t = [] /\ td_rowcount t = 0) (dd_tables d))
         (expected_dump decode ToLower TypeName c (Some (with_listonly o true))).
Proof. exact expected_dump_listonly_empty. Qed.

(* KNOWN FINDING C01-detect-v16 (D62): a well-formed PostgreSQL-16-layout cluster (one table, two attribute rows) on
   which auto-detection picks the wrong layout and the dump differs from the cluster's content.  With the hint it is right
   (C01_dump; Examples.ex_detect_hinted). *)
Theorem C01_detect_refuted : exists c,
  wf_cluster c /\ kf_detect c None = true /\
  DumpDataDir_i (enc_cluster c) None <> Ok (Some (expected_dump_i c None)).
Proof.
  exists ex_detect. destruct ex_detect_refuted as (W & K & N). split; [apply wf_cluster_b_sound; exact W|]. split; [exact K|].
  intros E. apply N. rewrite E. reflexivity.
Qed.
(* KNOWN FINDING C01-zero-column-rows: the live rows of a table without columns are not reported (wf_cluster excludes
   such relations; the relaxed checker admits them). *)
Theorem C01_zero_columns_refuted : exists c,
  wf_cluster_relaxed_b c = true /\ kf_zero_columns c = true /\ detect_ok_b c None = true /\
  DumpDataDir_i (enc_cluster c) None <> Ok (Some (expected_dump_i c None)).
Proof.
  exists ex_zerocol. destruct ex_zerocol_refuted as (W & K & D & S1 & S2).
  split; [exact W|]. split; [exact K|]. split; [exact D|].
  intros E. rewrite E in S1. rewrite S1 in S2. clear - S2. discriminate S2.
Qed.

(* The decidable checker the generator uses is sound. *)
Theorem C01_checker_sound : forall c opts, wf_cluster_b c = true -> detect_ok_b c opts = true -> wf_cluster c /\ detect_ok c opts.
Proof. intros c opts W D. split; [apply wf_cluster_b_sound; exact W|apply detect_ok_b_sound; exact D]. Qed.

(* The instantiation extracted for the correspondence run satisfies the hypotheses of the Section above. *)
Theorem C01_instance :
  (forall s oid, hy_DecodeType s oid = Ok (hy_decode (vis s) oid)) /\ agrees_on_catalog hy_decode /\
  (forall l, Permutation l (i_range_order l)).
Proof.
  split; [reflexivity|]. split.
  - intros bs oid Hn Hl. unfold hy_decode. replace (cat_len oid =? 0) with false by lia. rewrite Hl, Z.eqb_refl. reflexivity.
  - intros l. apply Permutation_rev.
Qed.

(* Non-vacuity: a two-database (plus template1), seven-relation cluster with dead catalog rows, dead line pointers, an
   all-zero block, catalogs on two pages and pg_attribute rows out of attnum order satisfies wf_cluster and detect_ok. *)
Theorem C01_example : wf_cluster ex_cluster /\ detect_ok ex_cluster None /\ detect_ok ex_cluster (Some o_all).
Proof.
  destruct ex_cluster_ok as (W & D1 & D2).
  split; [apply wf_cluster_b_sound; exact W|]. split; apply detect_ok_b_sound; assumption.
Qed.
Print Assumptions C01_detect_refuted.
Print Assumptions C01_zero_columns_refuted.
Print Assumptions C01_example.
