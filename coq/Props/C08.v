(* C08 — TOASTed and compressed values are reassembled to the original bytes.
   Property theorems only; proofs live in C08/*Proofs.v. *)
Require Import PG.Base.Bytes PG.Base.GoSlice.
Require Import PG.C08.Model PG.C08.Spec PG.C08.PointerProofs.

(* A TOAST pointer as PostgreSQL writes it (18 bytes, whatever follows it in the tuple or in memory)
   parses to exactly the recorded sizes, value id, TOAST relation id, compression method, and to
   PostgreSQL's own "is compressed" verdict extsize < rawsize - 4. *)
Theorem C08_pointer : forall p rest t,
  wf_ptr p -> ParseTOASTPointer {| vis := enc_ptr p ++ rest; tail := t |} = Ok (Some (expected_ptr p)).
Proof. exact parse_pointer_roundtrip. Qed.
Print Assumptions C08_pointer.
