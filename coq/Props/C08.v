(* C08 — TOASTed and compressed values are reassembled to the original bytes.
   Property theorems only; proofs live in C08/*Proofs.v. *)
Require Import PG.Base.Bytes PG.Base.GoSlice.
Require Import PG.C08.Model PG.C08.Spec PG.C08.PointerProofs PG.C08.CopyProofs PG.C08.PglzProofs PG.C08.Lz4Proofs
               PG.C08.ReassembleProofs PG.C08.SafetyProofs PG.C08.MiscProofs PG.C08.Fast PG.C08.FastProofs
               PG.C08.StatsProofs PG.C08.TableModel PG.C08.TableProofs.
Require PG.C02.Spec.
From Coq Require Import Permutation.

(* ---- pointer ---- *)
(* A TOAST pointer as PostgreSQL writes it (18 bytes, whatever follows it in the tuple or in memory)
   parses to exactly the recorded sizes, value id, TOAST relation id, compression method, and to
   PostgreSQL's own "is compressed" verdict extsize < rawsize - 4. *)
Theorem C08_pointer : forall p rest t,
  wf_ptr p -> ParseTOASTPointer {| vis := enc_ptr p ++ rest; tail := t |} = Ok (Some (expected_ptr p)).
Proof. exact parse_pointer_roundtrip. Qed.
Print Assumptions C08_pointer.
Example C08_pointer_ex : wf_ptr {| tp_rawsize := 10004; tp_extsize := 1503; tp_method := 1; tp_valueid := 16500; tp_toastrelid := 16390 |}.
Proof. unfold wf_ptr; cbn; lia. Qed.

(* ALL byte strings: nil exactly when shorter than 18 bytes or not starting with 0x01, otherwise the four
   little-endian words at 2, 6, 10, 14 (the tag byte is not examined: on disk it is always 18). *)
Theorem C08_pointer_classify : forall s,
  (len s < 18 \/ byte_at (vis s) 0 <> 1 -> ParseTOASTPointer s = Ok None) /\
  (18 <= len s -> byte_at (vis s) 0 = 1 ->
   ParseTOASTPointer s = Ok (Some {| RawSize := field32 s 2; ExtSize := field32 s 6 mod 2 ^ 30;
                                     ValueID := field32 s 10; ToastRelID := field32 s 14;
                                     IsCompressed := field32 s 6 mod 2 ^ 30 + 4 <? field32 s 2;
                                     CompressionMethod := field32 s 6 / 2 ^ 30 |})).
Proof. exact parse_pointer_classify. Qed.
Print Assumptions C08_pointer_classify.

(* IsTOASTPointer: every stored pointer is recognised; on every datum of >= 2 bytes outside the
   known-finding class (first byte 0x02) the verdict is VARATT_IS_EXTERNAL.
   FULL STATEMENT (fails, see C08_istoast_refuted; pinned by TestIsTOASTPointer):
     forall d t, 2 <= blen d -> IsTOASTPointer {| vis := d; tail := t |} = Ok (datum_is_external d) *)
Theorem C08_istoast_pointer : forall p rest t, IsTOASTPointer {| vis := enc_ptr p ++ rest; tail := t |} = Ok true.
Proof. exact is_pointer_enc. Qed.
Theorem C08_istoast_partial : forall d t, 2 <= blen d -> kf_istoast d = false ->
  IsTOASTPointer {| vis := d; tail := t |} = Ok (datum_is_external d).
Proof. exact is_pointer_partial. Qed.
Print Assumptions C08_istoast_partial.
Theorem C08_istoast_refuted :
  exists d, 2 <= blen d /\ kf_istoast d = true /\ IsTOASTPointer (exact d) = Ok true /\ datum_is_external d = false.
Proof. exact is_pointer_refuted. Qed.

(* ---- pglz ---- *)
(* Every stream of the pglz format (any grouping under control bytes, every tag form: 2-byte tags for
   lengths 3..17, 3-byte tags for 18..273, offsets 1..4095, copies that overlap their own output)
   decompresses to exactly the denoted bytes, for all sizes, given the raw size PostgreSQL recorded. *)
Theorem C08_pglz : forall s out t,
  pglz_denotes s out -> out <> [] -> decompressPGLZ {| vis := s; tail := t |} (blen out) = Ok (DOk out).
Proof. exact decompressPGLZ_denotes. Qed.
Print Assumptions C08_pglz.

(* ---- LZ4 ---- *)
Theorem C08_lz4 : forall s out t,
  lz4_denotes s out -> decompressLZ4 {| vis := s; tail := t |} (blen out) = Ok (DOk out).
Proof. exact decompressLZ4_denotes. Qed.
Print Assumptions C08_lz4.

(* ---- reassembly ---- *)
(* [stored_as rel id size payload]: rel is ANY permutation of the chunks of the payload (cut at any
   positive chunk size) together with any chunks of other values (duplicates allowed).
   Without a pointer, or with one that does not claim compression, the stored payload comes back. *)
Theorem C08_reassemble : forall zlib rel id size payload ptr,
  stored_as rel id size payload -> (0 < size)%nat ->
  match ptr with None => True | Some p => IsCompressed p = false end ->
  ReassembleTOAST zlib (map mchunk rel) id ptr = Ok payload.
Proof. exact reassemble_plain. Qed.
Print Assumptions C08_reassemble.

(* compressed external value: payload = 4-byte tcinfo word ++ stream; the raw bytes come back *)
Theorem C08_reassemble_pglz : forall zlib rel id size raw stream tcm p,
  stored_as rel id size (compressed_payload (blen raw) tcm stream) -> (0 < size)%nat ->
  pglz_denotes stream raw -> raw <> [] ->
  IsCompressed p = true -> RawSize p = blen raw + 4 -> CompressionMethod p <> ToastCompressionLZ4 ->
  ReassembleTOAST zlib (map mchunk rel) id (Some p) = Ok raw.
Proof. exact reassemble_pglz. Qed.
Print Assumptions C08_reassemble_pglz.
Theorem C08_reassemble_lz4 : forall zlib rel id size raw stream tcm p,
  stored_as rel id size (compressed_payload (blen raw) tcm stream) -> (0 < size)%nat ->
  lz4_denotes stream raw ->
  IsCompressed p = true -> RawSize p = blen raw + 4 -> CompressionMethod p = ToastCompressionLZ4 ->
  ReassembleTOAST zlib (map mchunk rel) id (Some p) = Ok raw.
Proof. exact reassemble_lz4. Qed.
Print Assumptions C08_reassemble_lz4.

(* ---- TOASTReader.ReadValue: from the 18 stored pointer bytes to the value ---- *)
Theorem C08_readvalue_plain : forall zlib st p rel size payload rest t,
  wf_ptr p -> stored_as rel (tp_valueid p) size payload -> (0 < size)%nat ->
  ptr_is_compressed p = false ->
  ReadValue zlib (LoadChunks st (tp_toastrelid p) (map mchunk rel)) {| vis := enc_ptr p ++ rest; tail := t |} = Ok payload.
Proof. exact read_value_plain. Qed.
Theorem C08_readvalue_compressed : forall zlib st p rel size raw stream rest t,
  wf_ptr p -> (0 < size)%nat ->
  stored_as rel (tp_valueid p) size (compressed_payload (blen raw) (tp_method p) stream) ->
  tp_rawsize p = blen raw + 4 -> ptr_is_compressed p = true -> raw <> [] ->
  (tp_method p = 0 /\ pglz_denotes stream raw \/ tp_method p = 1 /\ lz4_denotes stream raw) ->
  ReadValue zlib (LoadChunks st (tp_toastrelid p) (map mchunk rel)) {| vis := enc_ptr p ++ rest; tail := t |} = Ok raw.
Proof. exact read_value_compressed. Qed.
Print Assumptions C08_readvalue_compressed.

(* ---- safety, for ALL byte strings and ALL claimed raw sizes (C10 share) ---- *)
(* decompressPGLZ: error exactly on the empty input, otherwise a result of at most max(0,rawSize) bytes;
   never a panic, never out of the model's fuel *)
Theorem C08_pglz_total : forall data rawSize,
  (len data < 1 /\ decompressPGLZ data rawSize = Ok (DErr ETooShort)) \/
  (1 <= len data /\ exists out, decompressPGLZ data rawSize = Ok (DOk out) /\ blen out <= Z.max 0 rawSize).
Proof. exact decompressPGLZ_total. Qed.
Print Assumptions C08_pglz_total.
Theorem C08_lz4_total : forall data rawSize,
  (len data < 1 /\ decompressLZ4 data rawSize = Ok (DErr ETooShort)) \/
  (1 <= len data /\ exists d, decompressLZ4 data rawSize = Ok d /\ d <> DFuel /\
                     forall out, d = DOk out -> blen out <= Z.max 0 rawSize + len data).
Proof. exact decompressLZ4_total. Qed.
Print Assumptions C08_lz4_total.
(* the pre-allocation is bounded by the input, whatever an 18-byte pointer claims *)
Theorem C08_alloc_bound : forall rawSize n, 0 <= n ->
  0 <= decompressCap rawSize n <= 256 * n /\ decompressCap rawSize n <= Z.max 0 rawSize.
Proof. exact decompressCap_bound. Qed.
Theorem C08_no_panic : forall zlib,
  (forall s, ParseTOASTPointer s <> Panic) /\
  (forall chunks id ptr, ReassembleTOAST zlib chunks id ptr <> Panic) /\
  (forall st s, ReadValue zlib st s <> Panic).
Proof. intros. split; [exact parse_pointer_no_panic|]. split; [apply reassemble_no_panic|apply read_value_no_panic]. Qed.
Print Assumptions C08_no_panic.

(* ---- non-vacuity of the denotations; the driver's executable forms are the spec ---- *)
Theorem C08_every_value_has_a_stream : forall v, pglz_denotes (pglz_stream (map PLit v)) v /\ lz4_denotes (enc_lz4block [] v) v.
Proof. intros. split; [apply pglz_every_value|apply lz4_every_value]. Qed.
Theorem C08_pglz_stream_denotes : forall its, pitems_okb its 0 = true ->
  pglz_denotes (pglz_stream its) (pglz_out its).
Proof.
  intros its H. pose proof (pitems_okb_spec its [] H) as OK. rewrite pglz_out_spec by exact OK.
  apply pglz_stream_denotes, OK.
Qed.
Theorem C08_lz4_block_denotes : forall seqs last, lz4seqs_okb seqs 0 = true ->
  lz4_denotes (enc_lz4block seqs last) (lz4_out seqs last).
Proof.
  intros seqs last H. pose proof (lz4seqs_okb_spec seqs [] H) as OK. rewrite lz4_out_spec by exact OK.
  exists seqs, last. auto.
Qed.
Print Assumptions C08_pglz_stream_denotes.

(* ---- statistics ---- *)
(* For every non-empty chunk list and EVERY order in which Go's map iteration may visit the value ids:
   total chunks, distinct values, byte sum, max chunks per value, the chunks-per-value distribution and the
   per-value entries (id, chunk count, bytes; listed in that iteration order) are the tallies of the chunks. *)
Theorem C08_stats : forall relid (cs : list chunk) (order : list Z),
  cs <> [] -> Permutation order (ids_of cs) ->
  exists info, verbose_info_of_chunks relid (map mchunk cs) order = Some info /\
    ti_relid info = relid /\
    ti_total_chunks info = Z.of_nat (length cs) /\
    ti_unique info = Z.of_nat (length (ids_of cs)) /\
    ti_total_size info = total_bytes cs /\
    ti_max info = max_count cs /\
    (forall k, dist_get (ti_dist info) k = values_with_count cs k) /\
    ti_values info = map (expected_value cs) order.
Proof. exact stats_spec. Qed.
Print Assumptions C08_stats.

(* ---- ReadTOASTTable: chunk rows out of heap tuples (heap page scan = the C02 model) ---- *)
(* one row (oid, int4, bytea with 1-byte or 4-byte header), whatever follows it *)
Theorem C08_chunk_row : forall f c more t, wf_chunk c -> vl_form_ok f (ck_data c) ->
  chunk_of_tuple {| vis := enc_chunk_tuple f c ++ more; tail := t |} = Ok (Some (mchunk c)).
Proof. exact chunk_of_tuple_enc. Qed.
(* a relation file of any number of pages: exactly the rows of the VISIBLE tuples, in physical order;
   dead chunk versions (tuples that are not visible) contribute nothing whatever they contain *)
Theorem C08_table : forall bs tl ct rows,
  Forall PG.C02.Spec.wf_block bs -> blen tl < 8192 -> toast_rows_of bs rows -> Forall row_ok rows ->
  ReadTOASTTable {| vis := PG.C02.Spec.enc_file bs tl; tail := ct |} = Ok (map (fun fc => mchunk (snd fc)) rows).
Proof. exact ReadTOASTTable_file. Qed.
Print Assumptions C08_table.
Theorem C08_table_no_panic : forall s, ReadTOASTTable s <> Panic.
Proof. exact ReadTOASTTable_no_panic. Qed.
