(* C17 — WAL records are enumerated with their stored header, position and names.
   Property theorems only; proofs live in C17/*Proofs.v.
   Spec = C17/Spec.v (PostgreSQL's page / record layout as a reference writer) and C17/SpecNames.v
   (rmgrlist.h and the *_identify tables).  Model = C17/Model.v + C17/Names.v (wal.go after the fix
   commit of branch verif-C17).  Fuel: [Ok None] is "out of fuel"; every theorem below shows it does
   not occur. *)
Require Import PG.Base.Bytes PG.Base.GoSlice.
Require Import PG.C17.Names PG.C17.Model PG.C17.SpecNames PG.C17.Spec.
Require Import PG.C17.NamesProofs PG.C17.BlockrefsProofs PG.C17.PageProofs PG.C17.SegmentProofs PG.C17.RefuteProofs PG.C17.TallyProofs.

(* ------------------------------------------------------------------ pages *)
(* Every well-formed WAL page (long or short header, any page address / timeline / info bits, with or
   without a continuation of any length - also one that covers the whole page -, any number of 8-aligned
   records of 24..16000 bytes with any body, the last one possibly running past the page end, zero fill
   behind them; whatever follows the slice in memory): every record whose 24-byte header lies on the
   page is reported exactly once, in order, with its stored tot_len, xid, prev, info, rmid, crc and
   LSN = xlp_pageaddr + offset in page; the two names are rmgrName / operationName of the stored ids. *)
Theorem C17_page : forall p t base,
  wf_page p ->
  exists recs, parseWALPage {| vis := enc_page p; tail := t |} base = Ok (Some (PRecs recs)) /\
               map header_of recs = map header_of (expected_page p) /\
               Forall (fun r => r_rmname r = rmgrName (r_rmid r) /\ r_op r = operationName (r_rmid r) (r_info r)) recs.
Proof.
  intros p t base H. exists (page_model p). split; [apply parseWALPage_enc; exact H|]. split.
  - apply page_headers_from.
  - unfold page_model. generalize (first_start p). induction (p_recs p) as [|r rs IH]; intros st; cbn [model_from]; constructor.
    + apply names_of_model. + apply IH.
Qed.
Print Assumptions C17_page.

(* The full observable record - header, position, PostgreSQL's names (where PostgreSQL assigns one),
   referenced relations and blocks - outside the known-finding classes D53 (records registering blocks)
   and D54 (names): FULL STATEMENT = the same without the hypothesis [Forall rec_clean]; it is refuted by
   C17_blockrefs_refuted and C17_names_refuted. *)
Theorem C17_page_full_partial : forall p t base,
  wf_page p -> Forall rec_clean (p_recs p) ->
  exists recs, parseWALPage {| vis := enc_page p; tail := t |} base = Ok (Some (PRecs recs)) /\
               map observe recs = expected_page p.
Proof.
  intros p t base H C. exists (page_model p). split; [apply parseWALPage_enc; exact H|].
  unfold page_model, expected_page. apply (page_observe_from _ _ _ 24); [|exact C].
  unfold wf_page, wf_page_gen in H. intuition.
Qed.
Print Assumptions C17_page_full_partial.

(* D55: with "every record whose header STARTS on the page" (wf_page_weak: only 8 bytes of the header
   need to be on the page) the statement is false. *)
Theorem C17_straddle_refuted :
  exists p, wf_page_weak p /\ kf_straddle p = true /\
            exists l, parseWALPage (exact (enc_page p)) 0 = Ok (Some (PRecs l)) /\
                      map header_of l <> map header_of (expected_page p).
Proof. exact straddle_refuted. Qed.
Print Assumptions C17_straddle_refuted.

(* ------------------------------------------------------------------ segments *)
(* A segment file = any non-empty sequence of pages (WAL pages as above, or 8192 bytes that do not begin
   with an XLOG page magic, which contribute nothing) followed by fewer than 8192 stray bytes: the
   records of the pages, concatenated in page order. *)
Theorem C17_segment : forall its trailing t,
  Forall (wf_item 24) its -> its <> [] -> blen trailing < 8192 ->
  exists recs, ParseWALFile {| vis := enc_segment its trailing; tail := t |} = Ok (Some (FRecs recs)) /\
               map header_of recs = map header_of (expected_segment its) /\
               (Forall item_clean its -> map observe recs = expected_segment its).
Proof.
  intros its tr t H Hne Htr. exists (segment_model its). split; [apply ParseWALFile_enc; auto|]. split.
  - apply segment_headers.
  - intros C. apply segment_observe; auto.
Qed.
Print Assumptions C17_segment.

(* ------------------------------------------------------------------ block references *)
Theorem C17_blockrefs_partial : forall r t,
  wf_body r -> kf_blockrefs r = false ->
  parseBlockRefs {| vis := enc_body r; tail := t |} = Ok (Some (map expected_block (x_blocks r))).
Proof.
  intros r t B K. rewrite parseBlockRefs_total. cbn [vis].
  assert (E : x_blocks r = []) by (unfold kf_blockrefs in K; destruct (x_blocks r); [reflexivity|discriminate]).
  rewrite blocks_of_noblocks by auto. rewrite E. reflexivity.
Qed.
Print Assumptions C17_blockrefs_partial.
Theorem C17_blockrefs_refuted :
  exists r, wf_rec r /\ wf_body r /\ kf_blockrefs r = true /\
            parseBlockRefs (exact (enc_body r)) <> Ok (Some (map expected_block (x_blocks r))).
Proof. exact blockrefs_refuted. Qed.
Print Assumptions C17_blockrefs_refuted.

(* ------------------------------------------------------------------ names *)
(* Exhaustively over all 256 resource-manager ids and all 65 536 (rmid, info) pairs (vm_compute):
   wherever PostgreSQL assigns a name, the tool prints exactly that name, EXCEPT on the hand-written
   classes kf_rmgr_name / kf_op_name (D54) ... *)
Theorem C17_names_partial : forall rmid info,
  0 <= rmid < 256 -> 0 <= info < 256 ->
  (forall n, kf_rmgr_name rmid = false -> pg_rmgr_name rmid = Some n -> rmgrName rmid = n) /\
  (forall n, kf_op_name rmid info = false -> pg_op_name rmid info = Some n -> operationName rmid info = n).
Proof. intros; split; intros; [eapply rmgr_names_partial|eapply op_names_partial]; eauto. Qed.
Print Assumptions C17_names_partial.
(* ... and on every point of those classes PostgreSQL assigns a name and the tool prints another one. *)
Theorem C17_names_refuted : forall rmid info,
  0 <= rmid < 256 -> 0 <= info < 256 ->
  (kf_rmgr_name rmid = true -> exists n, pg_rmgr_name rmid = Some n /\ rmgrName rmid <> n) /\
  (kf_op_name rmid info = true -> exists n, pg_op_name rmid info = Some n /\ operationName rmid info <> n).
Proof. intros; split; intros; [eapply rmgr_names_class|eapply op_names_class]; eauto. Qed.
Print Assumptions C17_names_refuted.

(* ------------------------------------------------------------------ no panic, fuel suffices: ALL byte strings *)
Theorem C17_no_panic : forall s,
  (exists l, parseBlockRefs s = Ok (Some l)) /\
  (forall lsn, exists r, parseXLogRecord s lsn = Ok (Some r)) /\
  (forall base, exists r, parseWALPage s base = Ok (Some r)) /\
  (exists r, ParseWALFile s = Ok (Some r)).
Proof.
  intros s. split; [|split; [|split]].
  - rewrite parseBlockRefs_total. eauto.
  - intros lsn. destruct (parseXLogRecord_total s lsn) as (rc & c & H & _). eauto.
  - intros base. apply parseWALPage_total.
  - apply ParseWALFile_total.
Qed.
Print Assumptions C17_no_panic.

(* ------------------------------------------------------------------ directory summary *)
(* [ents] = the listing of <datadir>/pg_wal as data (name, IsDir, what ReadFile returns; None = error).
   [dir_recs ents] = the records ParseWALFile reports for the selected files (regular files with a
   24-character name not ending in ".history"), concatenated in name order.  For EVERY listing:
   ScanWALDirectory never panics, and its record count, per-operation counts, per-relation counts
   (relations with a non-zero relfilenode), per-transaction list (sorted by xid, with the number of the
   transaction's records and COMMIT / ABORT / IN_PROGRESS decided by its last Transaction-rmgr record that
   commits or aborts) and first / last LSN equal the tallies over exactly those records. *)
Theorem C17_tallies : forall ents,
  exists sum, ScanWALDirectory ents = Ok (Some sum) /\
    let recs := dir_recs ents in
    s_records sum = Z.of_nat (length recs) /\
    (forall name, lookup bytes_eqb name (s_ops sum) = count (bytes_eqb name) (map r_op recs)) /\
    NoDup (map fst (s_ops sum)) /\
    (forall k, lookup pair_eqb k (s_tables sum) = count (pair_eqb k) (table_keys recs)) /\
    NoDup (map fst (s_tables sum)) /\
    s_txns sum = spec_txns recs /\
    (Forall (fun r => 0 < r_lsn r) recs ->
       s_first sum = FormatLSN (zmin_list (map r_lsn recs)) /\ s_last sum = FormatLSN (zmax_list (map r_lsn recs))).
Proof.
  intros ents. destruct (scan_tallies ents) as (sum & H & A & _ & B & C & _ & D & E & F & G).
  exists sum. split; [exact H|]. cbn zeta in *.
  split; [exact A|]. split; [exact B|]. split; [exact C|]. split; [exact D|]. split; [exact E|].
  split; [apply F, dir_recs_named|exact G].
Qed.
Print Assumptions C17_tallies.

(* the extracted spec-side tallies (spec_ops / spec_tables, used to print S) are the same finite maps *)
Theorem C17_tallies_spec_maps : forall ents,
  exists sum, ScanWALDirectory ents = Ok (Some sum) /\
    (forall name, lookup bytes_eqb name (s_ops sum) = lookup bytes_eqb name (spec_ops (dir_recs ents))) /\
    (forall k, lookup pair_eqb k (s_tables sum) = lookup pair_eqb k (spec_tables (dir_recs ents))).
Proof.
  intros ents. destruct (scan_tallies ents) as (sum & H & _ & A & _ & _ & B & _). exists sum. auto.
Qed.
Print Assumptions C17_tallies_spec_maps.

(* which files, and what their records are when the files are well-formed segments *)
Theorem C17_file_selection : forall ents,
  dir_ok ents -> filter is_wal_name ents = filter is_segment_file ents.
Proof. exact selection_spec. Qed.
Print Assumptions C17_file_selection.
Theorem C17_file_records : forall e its tr t,
  d_file e = Some {| vis := enc_segment its tr; tail := t |} ->
  Forall (wf_item 24) its -> its <> [] -> blen tr < 8192 ->
  map header_of (file_recs e) = map header_of (expected_segment its) /\
  (Forall item_clean its -> map observe (file_recs e) = expected_segment its).
Proof.
  intros e its tr t E W N T. rewrite (file_recs_segment e its tr t) by auto. split.
  - apply segment_headers.
  - intros C. apply segment_observe; auto.
Qed.
Print Assumptions C17_file_records.

(* GetRecentWALRecords n = the last n records of that concatenation (n >= 0; the early exit once n
   records are collected does not change the result) *)
Theorem C17_recent : forall ents limit,
  0 <= limit -> GetRecentWALRecords ents limit = Ok (Some (lastn limit (dir_recs ents))).
Proof. exact recent_spec. Qed.
Print Assumptions C17_recent.

(* Go ranges over the map txnOps in an unspecified order before sorting by XID: whatever order it takes
   (any permutation of the entries), the sorted transaction list is the same, because XIDs are distinct keys. *)
Theorem C17_txn_order_independent : forall recs order,
  let st := fold_left scan_rec recs init_state in
  Permutation.Permutation order (st_txnops st) ->
  sort_txns (map (mk_txn (st_txnstatus st)) order) = s_txns (summarize st).
Proof. intros recs order st P. apply txns_order_independent; [exact P|apply scan_txnops_nodup]. Qed.
Print Assumptions C17_txn_order_independent.
