(* C17 — WAL records are enumerated with their stored header, position and names.
   Property theorems only; proofs live in C17/*Proofs.v. *)
Require Import PG.Base.Bytes PG.Base.GoSlice.
Require Import PG.C17.Names PG.C17.Model PG.C17.SpecNames PG.C17.Spec PG.C17.NamesProofs.

(* Names, exhaustively over all 256 resource-manager ids and all 65 536 (rmid, info) pairs (vm_compute):
   wherever PostgreSQL assigns a name, the tool prints exactly that name, EXCEPT on the hand-written
   classes kf_rmgr_name / kf_op_name (D54) ... *)
Theorem C17_names_partial : forall rmid info,
  0 <= rmid < 256 -> 0 <= info < 256 ->
  (forall n, kf_rmgr_name rmid = false -> pg_rmgr_name rmid = Some n -> rmgrName rmid = n) /\
  (forall n, kf_op_name rmid info = false -> pg_op_name rmid info = Some n -> operationName rmid info = n).
Proof. intros; split; intros; [eapply rmgr_names_partial|eapply op_names_partial]; eauto. Qed.
Print Assumptions C17_names_partial.

(* ... and on every point of those classes PostgreSQL assigns a name and the tool prints another one:
   the classes are exact. *)
Theorem C17_names_refuted : forall rmid info,
  0 <= rmid < 256 -> 0 <= info < 256 ->
  (kf_rmgr_name rmid = true -> exists n, pg_rmgr_name rmid = Some n /\ rmgrName rmid <> n) /\
  (kf_op_name rmid info = true -> exists n, pg_op_name rmid info = Some n /\ operationName rmid info <> n).
Proof. intros; split; intros; [eapply rmgr_names_class|eapply op_names_class]; eauto. Qed.
Print Assumptions C17_names_refuted.
