(* C20 — Sequence state and relation-map files are reported exactly.
   Property theorems only; proofs live in C20/*Proofs.v. *)
Require Import PG.Base.Bytes PG.Base.GoSlice.
Require Import PG.C20.RelmapModel PG.C20.RelmapSpec PG.C20.RelmapProofs.

(* Every well-formed pg_filenode.map image (0..62 mappings of arbitrary oids/filenodes, duplicates
   allowed, any content in the unused slots, any stored CRC, any padding >= 4 bytes, whatever follows
   the slice in memory) parses to exactly the stored magic, count, mappings in stored order, and CRC. *)
Theorem C20_relmap_roundtrip : forall r t,
  wf_relmap r -> sp_magic r = RelMapMagic ->
  ParseRelMapFile {| vis := enc_relmap r; tail := t |} =
  Ok (inr {| rm_magic := sp_magic r; rm_num := sp_count r; rm_mappings := sp_maps r; rm_crc := sp_crc r |}).
Proof. exact parse_relmap_roundtrip. Qed.
Print Assumptions C20_relmap_roundtrip.

(* Rejection, for ALL byte strings: short files, wrong magic, impossible count — and nothing else. *)
Theorem C20_relmap_reject_short : forall s, len s < 512 -> ParseRelMapFile s = Ok (inl ETooSmall).
Proof. exact parse_relmap_short. Qed.
Print Assumptions C20_relmap_reject_short.

Theorem C20_relmap_classify : forall s,
  512 <= len s ->
  (hdr_magic s <> RelMapMagic -> ParseRelMapFile s = Ok (inl EBadMagic)) /\
  (hdr_magic s = RelMapMagic -> (hdr_count s < 0 \/ hdr_count s > 62) -> ParseRelMapFile s = Ok (inl EBadCount)) /\
  (hdr_magic s = RelMapMagic -> 0 <= hdr_count s <= 62 ->
     exists rm, ParseRelMapFile s = Ok (inr rm) /\ rm_magic rm = RelMapMagic /\ rm_num rm = hdr_count s /\
                rm_crc rm = le_dec (sub (vis s) 504 508)).
Proof. exact parse_relmap_classify. Qed.
Print Assumptions C20_relmap_classify.

(* Lookups return the first stored match or 0, for all mapping lists. *)
Theorem C20_relmap_lookup : forall ms k,
  GetFilenode ms k = first_filenode ms k /\ GetOID ms k = first_oid ms k.
Proof. intros; split; [apply GetFilenode_first | apply GetOID_first]. Qed.
Print Assumptions C20_relmap_lookup.

(* C10 share: no input makes the parser panic, and it never looks beyond len. *)
Theorem C20_relmap_no_panic : forall s, ParseRelMapFile s <> Panic.
Proof. exact parse_relmap_no_panic. Qed.
Print Assumptions C20_relmap_no_panic.
