(* C20 — Sequence state and relation-map files are reported exactly.
   Property theorems only; proofs live in C20/*Proofs.v. *)
Require Import PG.Base.Bytes PG.Base.GoSlice.
Require Import PG.C20.RelmapModel PG.C20.RelmapSpec PG.C20.RelmapProofs.
Require Import PG.C20.RelmapFs PG.C20.RelmapFsProofs.
Require Import PG.C20.SeqModel PG.C20.SeqSpec PG.C20.SeqProofs PG.C20.ListingProofs PG.C20.SeqHistoric.

(* Every well-formed pg_filenode.map image (0..62 mappings of arbitrary oids/filenodes, duplicates
   allowed, any content in the unused slots, any stored CRC, any padding >= 4 bytes, whatever follows
   the slice in memory) parses to exactly the stored magic, count, mappings in stored order, and CRC. *)
Theorem C20_relmap_roundtrip : forall r t,
  wf_relmap r -> sp_magic r = RelMapMagic ->
  ParseRelMapFile {| vis := enc_relmap r; tail := t |} =
  Ok (inr {| rm_magic := sp_magic r; rm_num := sp_count r; rm_mappings := sp_maps r; rm_crc := sp_crc r |}).
Proof. exact parse_relmap_roundtrip. Qed.
Print Assumptions C20_relmap_roundtrip.

(* Rejection, for ALL byte strings: short files, wrong magic, impossible count — and nothing else. *)
Theorem C20_relmap_reject_short : forall s, len s < 512 -> ParseRelMapFile s = Ok (inl ETooSmall).
Proof. exact parse_relmap_short. Qed.
Print Assumptions C20_relmap_reject_short.

Theorem C20_relmap_classify : forall s,
  512 <= len s ->
  (hdr_magic s <> RelMapMagic -> ParseRelMapFile s = Ok (inl EBadMagic)) /\
  (hdr_magic s = RelMapMagic -> (hdr_count s < 0 \/ hdr_count s > 62) -> ParseRelMapFile s = Ok (inl EBadCount)) /\
  (hdr_magic s = RelMapMagic -> 0 <= hdr_count s <= 62 ->
     exists rm, ParseRelMapFile s = Ok (inr rm) /\ rm_magic rm = RelMapMagic /\ rm_num rm = hdr_count s /\
                rm_crc rm = le_dec (sub (vis s) 504 508)).
Proof. exact parse_relmap_classify. Qed.
Print Assumptions C20_relmap_classify.

(* Lookups return the first stored match or 0, for all mapping lists. *)
Theorem C20_relmap_lookup : forall ms k,
  GetFilenode ms k = first_filenode ms k /\ GetOID ms k = first_oid ms k.
Proof. intros; split; [apply GetFilenode_first | apply GetOID_first]. Qed.
Print Assumptions C20_relmap_lookup.

(* C10 share: no input makes the parser panic, and it never looks beyond len. *)
Theorem C20_relmap_no_panic : forall s, ParseRelMapFile s <> Panic.
Proof. exact parse_relmap_no_panic. Qed.
Print Assumptions C20_relmap_no_panic.

(* The file-system plumbing: for a cluster whose global map is the image g and whose databases (in
   pg_database order) each have a map image or no map file, ReadAllRelMaps reports the global map and
   exactly the databases that have one, each with its exact content, flag and path, in that order. *)
Theorem C20_relmap_all : forall fs g dbs imgs,
  fs_holds_maps fs g dbs imgs ->
  ReadAllRelMaps fs =
  Ok (inr ({| rmf_map := expected_relmap g; rmf_global := true; rmf_path := PathGlobal |}, expected_db_maps dbs imgs)).
Proof. exact read_all_relmaps_ok. Qed.
Print Assumptions C20_relmap_all.

Theorem C20_relmap_all_no_panic : forall fs, ReadAllRelMaps fs <> Panic.
Proof. exact read_all_relmaps_no_panic. Qed.
Print Assumptions C20_relmap_all_no_panic.

(* GetEnhancedMappings keeps every stored mapping in stored order; the added column is the tool's own
   table of well-known catalog oids (not PostgreSQL data, outside the property). *)
Theorem C20_relmap_enhanced : forall ms,
  map (fun e => (fst (fst e), snd (fst e))) (GetEnhancedMappings ms) = ms /\
  Forall (fun e => snd e = GetCatalogName (fst (fst e))) (GetEnhancedMappings ms).
Proof. exact enhanced_keeps. Qed.
Print Assumptions C20_relmap_enhanced.

(* ===================================================================== sequences *)
(* Every PostgreSQL >= 10 sequence relation file: the reported last value and is-called flag are the
   stored ones - for EVERY int64 last_value (including those whose low 32 bits are 20, 21 or 23), every
   int64 log_cnt, both flags, every t_hoff in 23..255, every placement of the tuple and of the special
   space the page format allows, whatever the undefined bytes, whatever follows the page or the slice. *)
Theorem C20_sequence : forall q t,
  wf_seq q ->
  ParseSequenceFile {| vis := enc_seq q; tail := t |} =
  Ok (inr {| sd_last := expected_last q; sd_start := 0; sd_inc := 0; sd_max := 0; sd_min := 0; sd_cache := 0;
             sd_cycled := false; sd_called := expected_called q |}).
Proof. exact parse_sequence_roundtrip. Qed.
Print Assumptions C20_sequence.
Example C20_sequence_nonvacuous : wf_seq (ex_seq (7 * 2 ^ 32 + 23) true).
Proof. apply ex_seq_wf. unfold int64_ok. lia. Qed.

(* A file is recognised as a sequence iff its special space carries the sequence magic - for ALL byte
   strings (any length, any special pointer, any content) and whatever lies beyond len. *)
Theorem C20_is_sequence : forall s,
  (carries_seq_magic (vis s) -> IsSequenceFile s = Ok true) /\
  (~ carries_seq_magic (vis s) -> IsSequenceFile s = Ok false).
Proof. exact is_sequence_classify. Qed.
Print Assumptions C20_is_sequence.

(* ... every well-formed sequence file does carry it ... *)
Theorem C20_is_sequence_files : forall q t, wf_seq q -> IsSequenceFile {| vis := enc_seq q; tail := t |} = Ok true.
Proof. intros q t W. apply is_sequence_iff. cbn [vis]. apply enc_seq_carries. exact W. Qed.
Print Assumptions C20_is_sequence_files.

(* ... and ParseSequenceFile rejects a file as "not a sequence" (too small / bad special pointer / wrong
   magic) exactly when IsSequenceFile says no. *)
Theorem C20_sequence_recognise : forall s,
  (IsSequenceFile s = Ok false -> rejected_as_non_sequence (ParseSequenceFile s)) /\
  (IsSequenceFile s = Ok true -> ~ rejected_as_non_sequence (ParseSequenceFile s)).
Proof. exact parse_sequence_recognise. Qed.
Print Assumptions C20_sequence_recognise.

(* The per-database listing: for every cluster (any number of databases and relations, distinct
   filenodes per database, distinct database names), whatever order the Go map of pg_class entries is
   visited in (es is an arbitrary permutation, see fs_holds_db), FindSequences reports every relation of
   kind 'S' exactly once, with its own name, oid, filenode, last value and flag, in filenode order. *)
Theorem C20_listing : forall fs c d,
  wf_cluster c -> In d c -> fs_dbs fs = Some (map db_row c) -> fs_holds_db fs d ->
  exists l, FindSequences fs (d_name d) = Ok (inr l) /\ map line_of_entry l = expected_listing d.
Proof. exact find_sequences_listing. Qed.
Print Assumptions C20_listing.
Example C20_listing_nonvacuous :
  wf_cluster [ex_db] /\ fs_holds_db ex_fs ex_db /\ fs_dbs ex_fs = Some (map db_row [ex_db]) /\
  expected_listing ex_db = [ (["b"]%byte, 16391, 16390, 20, false); (["a"]%byte, 16400, 16400, 7, true) ].
Proof. exact listing_example. Qed.

(* the expected listing is a permutation of the sequence relations: each once, nothing else *)
Theorem C20_listing_once : forall d,
  Permutation.Permutation (expected_listing d) (map line_of (filter (fun r => is_seq_kind (r_kind r)) (d_rels d))).
Proof. exact expected_listing_complete. Qed.
Print Assumptions C20_listing_once.

Theorem C20_listing_unknown_db : forall fs c n,
  fs_dbs fs = Some (map db_row c) -> ~ In n (map d_name c) -> FindSequences fs n = Ok (inl EDbNotFound).
Proof. exact find_sequences_unknown. Qed.
Print Assumptions C20_listing_unknown_db.

(* The cluster-wide listing: every database whose name does not start with "template" and that has at
   least one sequence, with exactly its own listing. *)
Theorem C20_scan_all : forall fs c,
  wf_cluster c -> fs_dbs fs = Some (map db_row c) -> (forall d, In d c -> fs_holds_db fs d) ->
  exists m, ScanAllSequences fs = Ok (Some m) /\ scan_obs m = expected_scan c.
Proof. exact scan_all_listing. Qed.
Print Assumptions C20_scan_all.

(* C10 share: no byte string makes the sequence parsers panic, and ParseSequenceFile never looks beyond
   len (so an os.ReadFile buffer with spare capacity gives the same result). *)
Theorem C20_sequence_no_panic : forall s,
  ParseSequenceFile s <> Panic /\ parseSequenceTuple s <> Panic /\ IsSequenceFile s <> Panic.
Proof. intros s. repeat split; [apply parse_sequence_no_panic|apply parse_tuple_no_panic|apply is_sequence_no_panic]. Qed.
Print Assumptions C20_sequence_no_panic.

Theorem C20_sequence_tail : forall v t1 t2,
  ParseSequenceFile {| vis := v; tail := t1 |} = ParseSequenceFile {| vis := v; tail := t2 |}.
Proof. exact parse_sequence_tail. Qed.
Print Assumptions C20_sequence_tail.

(* ===================================================================== historic (repaired) defects *)
(* Each holds of the code as it was BEFORE the corresponding fix: commit (SeqHistoric.v). *)
Theorem C20_iscalled_refuted :
  exists q, wf_seq q /\
    ParseSequenceFile_old (exact (enc_seq q)) <> Ok (inr (pg10_data q)) /\
    ParseSequenceFile_old (exact (enc_seq q)) = Ok (inr (pg10_data (ex_seq 5 false))).
Proof. exact iscalled_refuted. Qed.
Print Assumptions C20_iscalled_refuted.
Theorem C20_typeoid_refuted :
  exists q, wf_seq q /\ ParseSequenceFile_old (exact (enc_seq q)) = Ok (inl ESeqModernShort).
Proof. exact typeoid_refuted. Qed.
Print Assumptions C20_typeoid_refuted.
Theorem C20_magic16_refuted :
  ~ carries_seq_magic page_magic_11717 /\ IsSequenceFile_old (exact page_magic_11717) = Ok true /\
  IsSequenceFile (exact page_magic_11717) = Ok false.
Proof. exact magic16_refuted. Qed.
Print Assumptions C20_magic16_refuted.
Theorem C20_hoff_panic_refuted :
  ParseSequenceFile_old (exact page_hoff_panic) = Panic /\
  ParseSequenceFile (exact page_hoff_panic) = Ok (inl ESeqTupleSmall).
Proof. exact hoff_panic_refuted. Qed.
Print Assumptions C20_hoff_panic_refuted.
Theorem C20_listing_order_refuted :
  FindSequences_old (fs_order two_entries) ["d"]%byte <> FindSequences_old (fs_order (rev two_entries)) ["d"]%byte /\
  FindSequences (fs_order two_entries) ["d"]%byte = FindSequences (fs_order (rev two_entries)) ["d"]%byte.
Proof. exact listing_order_refuted. Qed.
Print Assumptions C20_listing_order_refuted.
