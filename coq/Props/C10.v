(* C10 — Corrupt or hostile input never crashes, hangs or spreads damage.  Statements only.
   The no-panic theorems are proved next to each parser's functional theorems (same models, every index/slice a
   partial operation, capacity tails universally quantified); this file collects them and adds locality. *)
Require Import PG.Base.Bytes PG.Base.GoSlice PG.Base.Value.
Require Import PG.C02.Model PG.C02.Spec PG.C02.Pure PG.C02.SpecProofs PG.C02.Refine.
Require Import PG.C03.Model PG.C03.Refine.
Require Import PG.C03.Spec PG.C03.SpecProofs PG.C03.Main.
Require Import PG.C10.Locality PG.C10.Cost PG.C10.ValueLocal.
Require PG.Props.C02 PG.Props.C03 PG.Props.C04 PG.Props.C05 PG.Props.C06 PG.Props.C07 PG.Props.C13 PG.Props.C15 PG.Props.C16 PG.Props.C19 PG.Props.C20.
Require PG.Props.C01 PG.Props.C08 PG.Props.C14 PG.Props.C17 PG.Props.C18 PG.Props.Dropped.

(* ---- no panic: for ALL byte strings, ALL capacity tails, ALL schemas ---- *)
Theorem C10_no_panic_ReadTuples : forall s v, ReadTuples s v <> Panic.
Proof. exact PG.Props.C02.C02_no_panic. Qed.
Theorem C10_no_panic_ParsePage : forall s, ParsePage s <> Panic.
Proof. exact PG.Props.C02.C02_page_no_panic. Qed.
Theorem C10_no_panic_ParseHeapTuple : forall s, ParseHeapTuple s <> Panic.
Proof. exact PG.Props.C02.C02_tuple_no_panic. Qed.
Theorem C10_no_panic_DecodeTuple : forall DecodeType decode,
  (forall s oid, DecodeType s oid = Ok (decode (vis s) oid)) ->
  forall ot cols, DecodeTuple DecodeType ot cols <> Panic.
Proof. exact PG.Props.C03.C03_no_panic. Qed.
Theorem C10_no_panic_ParseControlFile : forall s, PG.C16.Model.ParseControlFile s <> Panic.
Proof. exact PG.Props.C16.C16_no_panic. Qed.
Theorem C10_no_panic_ParseRelMapFile : forall s, PG.C20.RelmapModel.ParseRelMapFile s <> Panic.
Proof. exact PG.Props.C20.C20_relmap_no_panic. Qed.
Theorem C10_no_panic_Sequence : forall s,
  PG.C20.SeqModel.ParseSequenceFile s <> Panic /\ PG.C20.SeqModel.parseSequenceTuple s <> Panic /\
  PG.C20.SeqModel.IsSequenceFile s <> Panic.
Proof. exact PG.Props.C20.C20_sequence_no_panic. Qed.


(* ---- collected from the other properties' developments; each statement is the one proved there (same models) ---- *)
Notation same_as T := ltac:(let t := type of T in exact t) (only parsing).
(* DecodeType, every type oid, every byte string and tail (after the D30/D33 repairs) *)
Theorem C10_no_panic_DecodeType : same_as PG.Props.C04.C04_no_panic.
Proof. exact PG.Props.C04.C04_no_panic. Qed.
(* DecodeNumeric and decodeJNumeric *)
Theorem C10_no_panic_DecodeNumeric : same_as PG.Props.C05.C05_no_panic.
Proof. exact PG.Props.C05.C05_no_panic. Qed.
(* ParseJSONB returns a value on EVERY input: no panic, and the fuel len(data)+1 always suffices (termination) *)
Theorem C10_total_ParseJSONB : same_as PG.Props.C06.C06_total.
Proof. exact PG.Props.C06.C06_total. Qed.
Theorem C10_total_DecodeType_jsonb : same_as PG.Props.C06.C06_oid_total.
Proof. exact PG.Props.C06.C06_oid_total. Qed.
(* arrays: no panic, element count and allocation request bounded by 8*len(raw), nothing read beyond len *)
Theorem C10_no_panic_decodeArray : same_as PG.Props.C07.C07_no_panic.
Proof. exact PG.Props.C07.C07_no_panic. Qed.
Theorem C10_alloc_bound_decodeArray : same_as PG.Props.C07.C07_alloc_bound.
Proof. exact PG.Props.C07.C07_alloc_bound. Qed.
Theorem C10_tail_independent_decodeArray : same_as PG.Props.C07.C07_reads_within_len.
Proof. exact PG.Props.C07.C07_reads_within_len. Qed.
(* block ranges, block info, segments, checksum verification (8 entry points) *)
Theorem C10_no_panic_blocks_checksums : same_as PG.Props.C19.C19_no_panic.
Proof. exact PG.Props.C19.C19_no_panic. Qed.
(* quoteLiteral's dollar-tag search always terminates with a result *)
Theorem C10_total_quoteLiteral : same_as PG.Props.C13.C13_literal_total.
Proof. exact PG.Props.C13.C13_literal_total. Qed.
(* bytesContains / bytesEqual never panic and never read beyond len *)
Theorem C10_no_panic_bytesContains : same_as PG.Props.C15.C15_bytes_contains.
Proof. exact PG.Props.C15.C15_bytes_contains. Qed.
Print Assumptions C10_no_panic_DecodeType.
Print Assumptions C10_no_panic_DecodeNumeric.
Print Assumptions C10_total_ParseJSONB.
Print Assumptions C10_no_panic_decodeArray.
Print Assumptions C10_no_panic_blocks_checksums.


(* ---- entry points of the properties integrated later: catalogs/dump, TOAST, pg_authid, WAL, index files ---- *)
(* DumpDataDir / DumpDatabaseFromFiles: every file system (any bytes in any file, missing files), every option set *)
Theorem C10_no_panic_DumpDataDir : same_as PG.Props.C01.C01_no_panic.
Proof. exact PG.Props.C01.C01_no_panic. Qed.
Theorem C10_no_panic_DumpDatabaseFromFiles : same_as PG.Props.C01.C01_files_no_panic.
Proof. exact PG.Props.C01.C01_files_no_panic. Qed.
(* ParseTOASTPointer, IsTOASTPointer, ReassembleTOAST (any chunk list, any pointer), ReadValue, decompressors *)
Theorem C10_no_panic_TOAST : same_as PG.Props.C08.C08_no_panic.
Proof. exact PG.Props.C08.C08_no_panic. Qed.
Theorem C10_no_panic_ReadTOASTTable : same_as PG.Props.C08.C08_table_no_panic.
Proof. exact PG.Props.C08.C08_table_no_panic. Qed.
(* the decompressors always return (a value or an error), whatever raw size the pointer claims ... *)
Theorem C10_total_decompressPGLZ : same_as PG.Props.C08.C08_pglz_total.
Proof. exact PG.Props.C08.C08_pglz_total. Qed.
Theorem C10_total_decompressLZ4 : same_as PG.Props.C08.C08_lz4_total.
Proof. exact PG.Props.C08.C08_lz4_total. Qed.
(* ... and the buffer they allocate up front is bounded by the input, not by the claimed raw size *)
Theorem C10_alloc_bound_decompress : same_as PG.Props.C08.C08_alloc_bound.
Proof. exact PG.Props.C08.C08_alloc_bound. Qed.
Theorem C10_no_panic_ParsePGAuthID : same_as PG.Props.C14.C14_no_panic.
Proof. exact PG.Props.C14.C14_no_panic. Qed.
Theorem C10_tail_independent_ParsePGAuthID : same_as PG.Props.C14.C14_tail_independent.
Proof. exact PG.Props.C14.C14_tail_independent. Qed.
(* parseBlockRefs, parseXLogRecord, parseWALPage, ParseWALFile: total, the fuel never runs out *)
Theorem C10_no_panic_WAL : same_as PG.Props.C17.C17_no_panic.
Proof. exact PG.Props.C17.C17_no_panic. Qed.
(* ParseIndexFile, detectIndexType, parseIndexPage, the meta and special-space parsers *)
Theorem C10_no_panic_Index : same_as PG.Props.C18.C18_no_panic.
Proof. exact PG.Props.C18.C18_no_panic. Qed.
Print Assumptions C10_no_panic_DumpDataDir.
(* pgdump/dropped.go (sub-check Dropped): the two pg_attribute readers, the recovery loop and the four directory-level entry
   points return on every byte string / every file system *)
Theorem C10_no_panic_parseDroppedColumns : same_as PG.Props.Dropped.Dropped_no_panic_parseDroppedColumns.
Proof. exact PG.Props.Dropped.Dropped_no_panic_parseDroppedColumns. Qed.
Theorem C10_no_panic_parseAllAttributes : same_as PG.Props.Dropped.Dropped_no_panic_parseAllAttributes.
Proof. exact PG.Props.Dropped.Dropped_no_panic_parseAllAttributes. Qed.
Theorem C10_no_panic_dropped_recover : same_as PG.Props.Dropped.Dropped_no_panic_recover_core.
Proof. exact PG.Props.Dropped.Dropped_no_panic_recover_core. Qed.
Theorem C10_no_panic_dropped_dir : same_as PG.Props.Dropped.Dropped_no_panic_dir.
Proof. exact PG.Props.Dropped.Dropped_no_panic_dir. Qed.
Print Assumptions C10_no_panic_TOAST.
Print Assumptions C10_total_decompressPGLZ.
Print Assumptions C10_no_panic_ParsePGAuthID.
Print Assumptions C10_no_panic_WAL.
Print Assumptions C10_no_panic_Index.

(* termination/fuel: the heap scan's loops are structural on len/8192 and len/4+1 — by construction; the refinement
   theorem shows the fuel never runs out prematurely (the model result equals the total pure function) *)
Theorem C10_scan_total : forall s v, obs_entries (ReadTuples s v) = Ok (p_file (vis s) v).
Proof. exact ReadTuples_obs. Qed.

(* cost: at most one reported entry per 4 input bytes, for ALL byte strings — output size, and with it the
   scan's loop counts (pages = len/8192, line pointers <= (8192-24)/4 per page), are linear in the input *)
Theorem C10_cost_scan : forall s v l,
  ReadTuples s v = Ok l -> Z.of_nat (length l) <= len s / 4.
Proof.
  intros s v l H. pose proof (ReadTuples_obs s v) as O. rewrite H in O. cbn in O. injection O as O.
  rewrite <- (map_length obs_entry l), O. apply scan_output_linear.
Qed.
Print Assumptions C10_cost_scan.

(* ---- the result never depends on bytes beyond len (what follows the slice in memory) ---- *)
Theorem C10_tail_independent_scan : forall v t1 t2 vo,
  obs_entries (ReadTuples {| vis := v; tail := t1 |} vo) = obs_entries (ReadTuples {| vis := v; tail := t2 |} vo).
Proof. intros. rewrite !ReadTuples_obs. reflexivity. Qed.

(* ---- locality ---- *)
(* page: replacing one 8 KiB page by ANY bytes leaves every other page's entries unchanged (all byte strings) *)
Theorem C10_page_local : forall a p b vo,
  blen a mod 8192 = 0 -> blen p = 8192 ->
  p_file (a ++ p ++ b) vo =
  p_file a vo ++ shift_all (blen a) (p_file p vo) ++ shift_all (blen a + 8192) (p_file b vo).
Proof. exact page_local. Qed.
(* tuple: replacing the bytes [|x|, |x|+|y|) of a page (beyond the line pointer array) by ANY bytes of the same length
   leaves the entries of all line pointers whose range does not meet it unchanged (all byte strings) *)
Theorem C10_tuple_local : forall x y y' z po,
  blen y = blen y' -> 24 <= blen x -> ph_lower (p_header (x ++ y ++ z)) + 3 <= blen x ->
  p_page_except (blen x) (blen x + blen y) (x ++ y ++ z) po =
  p_page_except (blen x) (blen x + blen y) (x ++ y' ++ z) po.
Proof. exact tuple_damage_local. Qed.
Print Assumptions C10_no_panic_ReadTuples.
Print Assumptions C10_no_panic_DecodeTuple.
Print Assumptions C10_no_panic_ParseControlFile.
Print Assumptions C10_no_panic_Sequence.
Print Assumptions C10_page_local.
Print Assumptions C10_tuple_local.
(* ---- value locality: overwriting the payload bytes of ONE stored attribute (any storage form: fixed, short/long/
   compressed varlena, external pointer body, cstring) by ANY bytes of the same length changes the tuple's data area only
   inside that payload, leaves the layout of all other attributes intact, and DecodeTuple reports the same value for every
   other column.  For every schema and every row PostgreSQL's heap_fill_tuple can store (fits_prefix), every decoder. *)
Theorem C10_value_local : forall DecodeType decode,
  (forall s oid, DecodeType s oid = Ok (decode (vis s) oid)) ->
  forall cols ds j d' t t',
  fits_prefix cols ds -> fits_prefix cols (upd j d' ds) -> nums_ok cols 0 -> cols <> [] ->
  (j < length ds)%nat -> (j < length cols)%nat -> same_shape (nth j ds DNull) d' ->
  vis (t_data t) = fill 0 cols ds -> option_map vis (t_bitmap t) = bitmap_for ds ->
  vis (t_data t') = fill 0 cols (upd j d' ds) -> option_map vis (t_bitmap t') = option_map vis (t_bitmap t) ->
  (exists x z, vis (t_data t) = x ++ payload (nth j ds DNull) ++ z /\ vis (t_data t') = x ++ payload d' ++ z) /\
  exists r r', DecodeTuple DecodeType (Some t) cols = Ok (Some r) /\
               DecodeTuple DecodeType (Some t') cols = Ok (Some r') /\
               length r = length cols /\ length r' = length cols /\
               forall k, k <> j -> nth_error r' k = nth_error r k.
Proof. exact value_damage_local. Qed.
Print Assumptions C10_value_local.
(* non-vacuity: (int4, text, int8) row whose text payload "abc" is overwritten by "xyz" *)
Example C10_value_local_example :
  fits_prefix vl_cols vl_ds /\ fits_prefix vl_cols (upd 1 (DShort [x78; x79; x7a]) vl_ds) /\ nums_ok vl_cols 0 /\
  same_shape (nth 1 vl_ds DNull) (DShort [x78; x79; x7a]).
Proof. exact vl_example. Qed.

(* ================= extension: WAL and index page locality, further cost bounds =================
   Qualified names: the models of C17 / C18 / C20 / C08 / C14 reuse short names of the models imported above. *)
Require PG.C17.Names PG.C17.Model PG.C18.Types PG.C18.Model PG.C20.RelmapModel PG.C08.Model PG.C08.TableModel PG.C14.Model.
Require PG.C10.WalLocal PG.C10.IndexLocal PG.C10.Cost2.

(* ---- WAL page locality, ALL byte strings (no well-formedness), all capacity tails ----
   wal_page_recs p = what parseWALPage reports for the 8192 bytes p on their own (nothing for an invalid page),
   wal_recs v      = what ParseWALFile reports for the bytes v (nothing for a trailing partial page or v shorter than 40).
   No offset shift is needed: a record's LSN comes from its page's own xlp_pageaddr (wal.go:204), not from the page's
   position in the file; baseOffset / pageNum are dead parameters.  A record continuing on the next page is reported from
   its header alone and the next page skips the continuation by its OWN xlp_rem_len; an invalid page is skipped by
   `continue` - so there is no cross-page dependency and nothing to refute. *)
Theorem C10_wal_file_is_pure : forall s,
  exists r, PG.C17.Model.ParseWALFile s = Ok (Some r) /\ PG.C10.WalLocal.outcome_of r = PG.C10.WalLocal.wal_file (vis s).
Proof. exact PG.C10.WalLocal.ParseWALFile_pure. Qed.
Theorem C10_wal_page_is_pure : forall v t base,
  exists r, PG.C17.Model.parseWALPage {| vis := v; tail := t |} base = Ok (Some r) /\
            PG.C10.WalLocal.wal_page_recs v = match r with PG.C17.Model.PRecs l => l | _ => [] end.
Proof. exact PG.C10.WalLocal.wal_page_recs_spec. Qed.
Theorem C10_wal_page_local : forall a p b t,
  blen a mod 8192 = 0 -> blen p = 8192 ->
  PG.C17.Model.ParseWALFile {| vis := a ++ p ++ b; tail := t |} =
  Ok (Some (PG.C17.Model.FRecs (PG.C10.WalLocal.wal_recs a ++ PG.C10.WalLocal.wal_page_recs p ++ PG.C10.WalLocal.wal_recs b))).
Proof. exact PG.C10.WalLocal.wal_page_local_model. Qed.
(* replacing one page by ANY 8192 bytes: the records of all other pages are reported unchanged, in place *)
Theorem C10_wal_page_damage_local : forall a p p' b t t',
  blen a mod 8192 = 0 -> blen p = 8192 -> blen p' = 8192 ->
  exists mid mid',
    PG.C17.Model.ParseWALFile {| vis := a ++ p ++ b; tail := t |} =
      Ok (Some (PG.C17.Model.FRecs (PG.C10.WalLocal.wal_recs a ++ mid ++ PG.C10.WalLocal.wal_recs b))) /\
    PG.C17.Model.ParseWALFile {| vis := a ++ p' ++ b; tail := t' |} =
      Ok (Some (PG.C17.Model.FRecs (PG.C10.WalLocal.wal_recs a ++ mid' ++ PG.C10.WalLocal.wal_recs b))).
Proof. exact PG.C10.WalLocal.wal_page_damage_local. Qed.
Print Assumptions C10_wal_page_local.
Print Assumptions C10_wal_page_damage_local.

(* ---- index page locality, ALL byte strings, all capacity tails ----
   The access method is decided ONCE from the first page (idx_type (first 8192 bytes) = detectIndexType of it); entry j is
   idx_page (bytes of page j) j method: a function of page j's bytes, the method and j only. *)
Theorem C10_index_file_is_pure : forall s, PG.C18.Model.ParseIndexFile s = Ok (PG.C10.IndexLocal.idx_file (vis s)).
Proof. exact PG.C10.IndexLocal.ParseIndexFile_pure. Qed.
Theorem C10_index_entry_local : forall s,
  8192 <= len s ->
  exists info, PG.C18.Model.ParseIndexFile s = Ok (Some info) /\
    PG.C18.Types.ii_type info = PG.C10.IndexLocal.idx_type (sub (vis s) 0 8192) /\
    Z.of_nat (length (PG.C18.Types.ii_pages info)) = len s / 8192 /\
    forall j, 0 <= j < len s / 8192 ->
      nth_error (PG.C18.Types.ii_pages info) (Z.to_nat j) =
      Some (PG.C10.IndexLocal.idx_page (sub (vis s) (j * 8192) (j * 8192 + 8192)) j (PG.C18.Types.ii_type info)).
Proof. exact PG.C10.IndexLocal.index_entry_local. Qed.
(* the entry list splits at every page boundary (every method ty, numbering from num) *)
Theorem C10_index_page_local : forall a p b num ty,
  blen a mod 8192 = 0 -> blen p = 8192 ->
  PG.C10.IndexLocal.idx_all (a ++ p ++ b) num ty =
  PG.C10.IndexLocal.idx_all a num ty ++ [PG.C10.IndexLocal.idx_page p (num + blen a / 8192) ty] ++
  PG.C10.IndexLocal.idx_all b (num + blen a / 8192 + 1) ty.
Proof. exact PG.C10.IndexLocal.index_page_local. Qed.
(* damage to a page OTHER THAN THE FIRST (8192 <= |a|): type, totals, metapage summary and every other entry unchanged *)
Theorem C10_index_page_damage_local : forall a p p' b t t',
  blen a mod 8192 = 0 -> 8192 <= blen a -> blen p = 8192 -> blen p' = 8192 ->
  exists i i' pre post x x',
    PG.C18.Model.ParseIndexFile {| vis := a ++ p ++ b; tail := t |} = Ok (Some i) /\
    PG.C18.Model.ParseIndexFile {| vis := a ++ p' ++ b; tail := t' |} = Ok (Some i') /\
    PG.C18.Types.ii_type i = PG.C18.Types.ii_type i' /\ PG.C18.Types.ii_tstr i = PG.C18.Types.ii_tstr i' /\
    PG.C18.Types.ii_total i = PG.C18.Types.ii_total i' /\ PG.C18.Types.ii_meta i = PG.C18.Types.ii_meta i' /\
    PG.C18.Types.ii_levels i = PG.C18.Types.ii_levels i' /\ PG.C18.Types.ii_root i = PG.C18.Types.ii_root i' /\
    PG.C18.Types.ii_pages i = pre ++ [x] ++ post /\ PG.C18.Types.ii_pages i' = pre ++ [x'] ++ post /\
    Z.of_nat (length pre) = blen a / 8192.
Proof. exact PG.C10.IndexLocal.index_page_damage_local. Qed.
(* the unrestricted statement (without 8192 <= |a|) is FALSE, by design of the format guess: damage to page 0 can change
   the method and with it the entry of an untouched page (B-tree leaf page 1 no longer reported as btree / leaf) *)
Theorem C10_index_page0_local_refuted :
  blen PG.C10.IndexLocal.bt_leaf_page = 8192 /\ blen (zeros 8192) = 8192 /\
  exists i i',
    PG.C18.Model.ParseIndexFile (exact (PG.C10.IndexLocal.bt_leaf_page ++ PG.C10.IndexLocal.bt_leaf_page)) = Ok (Some i) /\
    PG.C18.Model.ParseIndexFile (exact (zeros 8192 ++ PG.C10.IndexLocal.bt_leaf_page)) = Ok (Some i') /\
    option_map (fun e => (PG.C18.Types.pi_type e, PG.C18.Types.pi_leaf e)) (nth_error (PG.C18.Types.ii_pages i) 1) = Some (1, true) /\
    option_map (fun e => (PG.C18.Types.pi_type e, PG.C18.Types.pi_leaf e)) (nth_error (PG.C18.Types.ii_pages i') 1) = Some (0, false).
Proof. exact PG.C10.IndexLocal.index_page0_dependency. Qed.
Print Assumptions C10_index_entry_local.
Print Assumptions C10_index_page_damage_local.
Print Assumptions C10_index_page0_local_refuted.

(* ---- cost: output sizes (and with them the loop counts) for ALL byte strings ---- *)
(* one WAL record per 24 input bytes at most; per page at most (len-24)/24 = 340 *)
Theorem C10_cost_ParseWALFile : forall s l,
  PG.C17.Model.ParseWALFile s = Ok (Some (PG.C17.Model.FRecs l)) -> Z.of_nat (length l) <= len s / 24.
Proof. exact PG.C10.Cost2.wal_output_linear. Qed.
Theorem C10_cost_parseWALPage : forall s base l,
  PG.C17.Model.parseWALPage s base = Ok (Some (PG.C17.Model.PRecs l)) -> 24 * Z.of_nat (length l) <= Z.max 0 (len s - 24).
Proof. exact PG.C10.Cost2.wal_page_output_bound. Qed.
(* exactly one index entry per complete page *)
Theorem C10_cost_ParseIndexFile : forall s info,
  PG.C18.Model.ParseIndexFile s = Ok (Some info) ->
  Z.of_nat (length (PG.C18.Types.ii_pages info)) = len s / 8192 /\ PG.C18.Types.ii_total info = len s / 8192.
Proof. exact PG.C10.Cost2.index_output_exact. Qed.
(* never more than 62 relation mappings (and never more than the stored count) *)
Theorem C10_cost_ParseRelMapFile : forall s rm,
  PG.C20.RelmapModel.ParseRelMapFile s = Ok (inr rm) ->
  Z.of_nat (length (PG.C20.RelmapModel.rm_mappings rm)) <= 62 /\
  Z.of_nat (length (PG.C20.RelmapModel.rm_mappings rm)) <= PG.C20.RelmapModel.rm_num rm.
Proof. exact PG.C10.Cost2.relmap_output_bound. Qed.
(* at most one TOAST chunk / one role per heap entry, hence per 4 input bytes *)
Theorem C10_cost_ReadTOASTTable : forall s cs,
  PG.C08.TableModel.ReadTOASTTable s = Ok cs -> Z.of_nat (length cs) <= len s / 4.
Proof. exact PG.C10.Cost2.toast_table_output_linear. Qed.
Theorem C10_cost_ParsePGAuthID : forall s l,
  PG.C14.Model.ParsePGAuthID s = Ok l -> Z.of_nat (length l) <= len s / 4.
Proof. exact PG.C10.Cost2.authid_output_linear. Qed.
Print Assumptions C10_cost_ParseWALFile.
Print Assumptions C10_cost_ParseIndexFile.
Print Assumptions C10_cost_ParseRelMapFile.
Print Assumptions C10_cost_ReadTOASTTable.
Print Assumptions C10_cost_ParsePGAuthID.
(* the decompressors' output is linear in the INPUT, whatever raw size the (hostile) pointer claims: a pglz match item
   (2-3 input bytes) yields at most 18 + 255 = 273 bytes, an LZ4 sequence at most 255 bytes per input byte *)
Theorem C10_cost_decompressPGLZ : forall data rawSize out,
  PG.C08.Model.decompressPGLZ data rawSize = Ok (PG.C08.Model.DOk out) -> blen out <= 273 * len data.
Proof. exact PG.C10.Cost2.decompressPGLZ_output_linear. Qed.
Theorem C10_cost_decompressLZ4 : forall data rawSize out,
  PG.C08.Model.decompressLZ4 data rawSize = Ok (PG.C08.Model.DOk out) -> blen out <= 255 * len data.
Proof. exact PG.C10.Cost2.decompressLZ4_output_linear. Qed.
Print Assumptions C10_cost_decompressPGLZ.
Print Assumptions C10_cost_decompressLZ4.

(* ---- JSONB: the decoded document has at most len/4 + 1 nodes for EVERY byte string (the stored end offsets must not run
   backwards, so the children of a container occupy disjoint byte ranges; before the repair bc6d2ff a 388-byte input took
   4.7 s and 650 bytes days).  The number of decodeJEntry / parseJSONB calls is therefore linear in the input. ---- *)
Theorem C10_cost_ParseJSONB : same_as PG.Props.C06.C06_nodes_linear.
Proof. exact PG.Props.C06.C06_nodes_linear. Qed.
Theorem C10_jsonb_children_disjoint : same_as PG.Props.C06.C06_children_disjoint.
Proof. exact PG.Props.C06.C06_children_disjoint. Qed.
Print Assumptions C10_cost_ParseJSONB.

(* one-page functions do not look behind their page *)
Theorem C10_first_page_only_VerifyPageChecksum : same_as PG.Props.C19.C19_verify_page_first_only.
Proof. exact PG.Props.C19.C19_verify_page_first_only. Qed.
