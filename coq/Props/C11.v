(* C11 — Results are a deterministic, side-effect-free function of the input.  Statements only.

   A Gallina function is deterministic by construction; the content of this property is where the CODE's
   nondeterminism and shared state come from.  Every Go `range` over a map is modelled with the visiting order as an
   explicit argument constrained only to be a permutation (the runtime's choice is universally quantified); every
   cache is explicit state threaded through the calls; the checksum routines are written over an explicit memory
   holding the caller's buffer.  Most sites were modelled inside the developments of C01, C08, C12, C13, C15, C19,
   C20 (collected here: restated on their models or re-exported with same_as); the sites repaired by C11's own fix:
   commits (main.go parseSingle, dropped.go findTableByName, GetTOASTVerboseInfo.Values) are modelled in coq/C11.

   NOT covered by any theorem: goroutine interleavings and data races (mutexes of RemoteClient / TOASTReader) are
   runtime facts a Gallina model cannot exhibit; they are tested by the race-detector runs of the correspondence
   check (harness/c11*.go, function Concurrent).  The theorems cover the sequential content: order independence,
   cache transparency, buffer preservation. *)
Require Import PG.Base.Bytes PG.Base.GoSlice PG.Base.Value.
Require PG.Props.C01 PG.Props.C08 PG.Props.C12 PG.Props.C13 PG.Props.C15 PG.Props.C19 PG.Props.C20.
Require PG.C01.MoreProofs PG.C12.Lib PG.C12.Model PG.C12.Spec PG.C12.HistoricProofs PG.C13.Model PG.C19.ChecksumModel.
Require PG.C11.JsonOrderProofs PG.C11.RemoteOrderProofs PG.C11.StateModel PG.C11.StateProofs PG.C11.CliModel
        PG.C11.OrderProofs PG.C11.TextProofs.
Require Import Coq.Sorting.Permutation.
Import ListNotations.
Notation same_as T := ltac:(let t := type of T in exact t) (only parsing).

(* ================================================================ the lemma behind every "sorted after the loop" repair *)
(* Sorting two arrangements of the same entries by a key that is distinct on them gives the same list (integer keys:
   filenodes, oids, chunk ids; the byte-string version, for column names and JSON keys, is sort_kv_canonical). *)
Theorem C11_sort_canonical : forall (A : Type) (key : A -> Z) (l1 l2 : list A),
  Permutation l1 l2 -> NoDup (map key l1) -> PG.C12.Lib.ksort key l1 = PG.C12.Lib.ksort key l2.
Proof. exact (@PG.C12.Lib.ksort_unique). Qed.
Theorem C11_sort_canonical_strings : forall (A : Type) (l1 l2 : list (bytes * A)),
  Permutation l1 l2 -> NoDup (map fst l1) -> PG.C13.Lib.sort_kv l1 = PG.C13.Lib.sort_kv l2.
Proof. exact (@PG.C11.JsonOrderProofs.sort_kv_canonical). Qed.
Print Assumptions C11_sort_canonical.
Print Assumptions C11_sort_canonical_strings.

(* ================================================================ C11_order_<site> *)
(* ---- pgdump.go DumpDataDir / DumpDatabaseFromFiles (D36): for ALL file systems, options, decoders *)
Theorem C11_order_DumpDataDir : same_as PG.Props.C01.C01_order_independent.
Proof. exact PG.Props.C01.C01_order_independent. Qed.
Theorem C11_order_DumpDatabaseFromFiles : same_as PG.C01.MoreProofs.DumpDatabaseFromFiles_order.
Proof. exact PG.C01.MoreProofs.DumpDatabaseFromFiles_order. Qed.
Print Assumptions C11_order_DumpDataDir.
Print Assumptions C11_order_DumpDatabaseFromFiles.

(* ---- remote.go (D37).  E1, E2: one environment with two visiting orders ro1, ro2 of the pg_class map, both
   permutations.  class_map_ok E: ParsePGClass yields a Go map whose entry for key k has Filenode = k.
   p_*: what any client answers (fresh, or after any earlier calls: C11_cache). *)
Section Remote.
Import PG.C12.Lib PG.C12.Model PG.C12.Spec PG.C11.RemoteOrderProofs.
Variable E : env.
Variables ro1 ro2 : order.
Hypothesis P1 : perm_order ro1.
Hypothesis P2 : perm_order ro2.
Hypothesis CM : class_map_ok E.
Let E1 := with_order E ro1.
Let E2 := with_order E ro2.

Theorem C11_order_Tables : forall fs db, p_tables E1 fs db = p_tables E2 fs db.
Proof. exact (tables_order E ro1 ro2 P1 P2 CM). Qed.
Theorem C11_order_TablesByName : forall fs n, p_tables_by_name E1 fs n = p_tables_by_name E2 fs n.
Proof. exact (tables_by_name_order E ro1 ro2 P1 P2 CM). Qed.
Theorem C11_order_Table : forall fs db n, p_table E1 fs db n = p_table E2 fs db n.
Proof. exact (table_order E ro1 ro2 P1 P2 CM). Qed.
Theorem C11_order_QueryByName : forall fs dn tn o, p_query_by_name E1 fs dn tn o = p_query_by_name E2 fs dn tn o.
Proof. exact (query_by_name_order E ro1 ro2 P1 P2 CM). Qed.
Theorem C11_order_DumpDatabase : forall fs db, p_dump_database E1 fs db = p_dump_database E2 fs db.
Proof. exact (dump_database_order E ro1 ro2 P1 P2 CM). Qed.
Theorem C11_order_DumpDatabaseByName : forall fs n, p_dump_database_by_name E1 fs n = p_dump_database_by_name E2 fs n.
Proof. exact (dump_database_by_name_order E ro1 ro2 P1 P2 CM). Qed.
Theorem C11_order_DumpAll : forall fs, p_dump_all E1 fs = p_dump_all E2 fs.
Proof. exact (dump_all_order E ro1 ro2 P1 P2 CM). Qed.
Theorem C11_order_Summary : forall fs, p_summary E1 fs = p_summary E2 fs.
Proof. exact (summary_order E ro1 ro2 P1 P2 CM). Qed.
(* SummaryResult.MarshalJSON and .String() *)
Theorem C11_order_Summary_MarshalJSON : forall fs, MarshalJSON (p_summary E1 fs) = MarshalJSON (p_summary E2 fs).
Proof. exact (summary_json_order E ro1 ro2 P1 P2 CM). Qed.
Theorem C11_order_Summary_String : forall fs, SummaryString E1 (p_summary E1 fs) = SummaryString E2 (p_summary E2 fs).
Proof. exact (summary_string_order E ro1 ro2 P1 P2 CM). Qed.
(* Exec(args).String() for EVERY command line (summary, version, control, creds, dbs, tables, columns, query, dump,
   unknown): includes QueryResult.String and formatDump, whose column order is the sorted key list of the first row *)
Theorem C11_order_Exec_String : forall fs args, result_string E1 (p_exec E1 fs args) = result_string E2 (p_exec E2 fs args).
Proof. exact (exec_string_order E ro1 ro2 P1 P2 CM). Qed.
(* the data-directory dump as C12 models it (same statement as C11_order_DumpDataDir, on the other model) *)
Theorem C11_order_DumpDataDir_paths : forall fs opts, DumpDataDir E1 fs opts = DumpDataDir E2 fs opts.
Proof. exact (datadir_order E ro1 ro2 P1 P2 CM). Qed.
End Remote.
(* non-vacuity: C12's witness environment satisfies class_map_ok, and two different orders are permutations *)
Example C11_order_remote_nonvacuous :
  PG.C11.RemoteOrderProofs.class_map_ok PG.C12.HistoricProofs.w_env /\
  PG.C11.RemoteOrderProofs.perm_order (@rev (Z * PG.C12.Lib.TableInfo)) /\
  PG.C11.RemoteOrderProofs.perm_order (fun l : list (Z * PG.C12.Lib.TableInfo) => l).
Proof.
  split; [|split].
  - intros d. split; [cbn; repeat constructor; intros []|intros e [<-|[]]; reflexivity].
  - intros l. symmetry. apply Permutation_rev.
  - intros l. reflexivity.
Qed.
Print Assumptions C11_order_Tables.
Print Assumptions C11_order_DumpAll.
Print Assumptions C11_order_Summary_MarshalJSON.
Print Assumptions C11_order_Exec_String.
Print Assumptions C11_order_DumpDataDir_paths.

(* ---- sql.go mapToJSON (D39): two visiting orders of one map (distinct keys) give the same JSON text and the same
   SQL literal; any keys, any values, any nesting below *)
Theorem C11_order_mapToJSON : forall (show_f64 show_f32 : Z -> bytes) (m1 m2 : list (bytes * gval)),
  Permutation m1 m2 -> NoDup (map fst m1) ->
  PG.C13.Model.mapToJSON show_f64 show_f32 m1 = PG.C13.Model.mapToJSON show_f64 show_f32 m2.
Proof. exact PG.C11.JsonOrderProofs.mapToJSON_order. Qed.
Theorem C11_order_formatSQLValue : forall (show_f64 show_f32 : Z -> bytes) (m1 m2 : list (bytes * gval)),
  Permutation m1 m2 -> NoDup (map fst m1) ->
  PG.C13.Model.formatSQLValue show_f64 show_f32 (VMap m1) = PG.C13.Model.formatSQLValue show_f64 show_f32 (VMap m2).
Proof. exact PG.C11.JsonOrderProofs.formatSQLValue_map_order. Qed.
Print Assumptions C11_order_mapToJSON.
Example C11_order_mapToJSON_ex :
  let sf := fun _ : Z => [] in
  let m := [([x62], VInt 1); ([x61], VStr [x78]); ([x63], VNil)] in
  Permutation m (rev m) /\ NoDup (map fst m) /\ PG.C13.Model.mapToJSON sf sf m = PG.C13.Model.mapToJSON sf sf (rev m).
Proof.
  split; [apply Permutation_rev|]. split; [|vm_compute; reflexivity].
  cbn. repeat constructor; cbn; intuition discriminate.
Qed.

(* ---- search.go / secrets.go rowKeys (D38): Search, SearchInDump, scanTable visit the cells of a row in an order
   that does not depend on how the row map is laid out, and read the same cell values *)
Theorem C11_order_rows : same_as PG.Props.C15.C15_order_independent.
Proof. exact PG.Props.C15.C15_order_independent. Qed.
Theorem C11_order_rows_once : same_as PG.Props.C15.C15_each_cell_once.
Proof. exact PG.Props.C15.C15_each_cell_once. Qed.
(* with MaxResults = n the hits kept are the first n of the unlimited list: WHICH hits survive is determined *)
Theorem C11_order_MaxResults : same_as PG.Props.C15.C15_max_prefix.
Proof. exact PG.Props.C15.C15_max_prefix. Qed.
Print Assumptions C11_order_rows.

(* ---- sequence.go FindSequences / ScanAllSequences (D40): fs_holds_db lets the pg_class map be visited in ANY order *)
Theorem C11_order_FindSequences : same_as PG.Props.C20.C20_listing.
Proof. exact PG.Props.C20.C20_listing. Qed.
Theorem C11_order_ScanAllSequences : same_as PG.Props.C20.C20_scan_all.
Proof. exact PG.Props.C20.C20_scan_all. Qed.
Print Assumptions C11_order_FindSequences.

(* ---- toast.go GetTOASTVerboseInfo (D40, repaired here): every field, for any two visiting orders of valueChunks *)
Theorem C11_order_GetTOASTVerboseInfo : forall relid (cs : list PG.C08.Spec.chunk) (o1 o2 : list Z),
  cs <> [] -> Permutation o1 (PG.C08.Spec.ids_of cs) -> Permutation o2 (PG.C08.Spec.ids_of cs) ->
  exists i1 i2,
    PG.C11.CliModel.verbose_info_sorted relid (map PG.C08.ReassembleProofs.mchunk cs) o1 = Some i1 /\
    PG.C11.CliModel.verbose_info_sorted relid (map PG.C08.ReassembleProofs.mchunk cs) o2 = Some i2 /\
    PG.C08.Model.ti_relid i1 = PG.C08.Model.ti_relid i2 /\
    PG.C08.Model.ti_total_chunks i1 = PG.C08.Model.ti_total_chunks i2 /\
    PG.C08.Model.ti_unique i1 = PG.C08.Model.ti_unique i2 /\
    PG.C08.Model.ti_total_size i1 = PG.C08.Model.ti_total_size i2 /\
    PG.C08.Model.ti_max i1 = PG.C08.Model.ti_max i2 /\
    (forall k, PG.C08.Model.dist_get (PG.C08.Model.ti_dist i1) k = PG.C08.Model.dist_get (PG.C08.Model.ti_dist i2) k) /\
    PG.C08.Model.ti_values i1 = PG.C08.Model.ti_values i2.
Proof. exact PG.C11.OrderProofs.verbose_info_order. Qed.
Print Assumptions C11_order_GetTOASTVerboseInfo.

(* ---- main.go parseSingle, pg_class and pg_attribute files (D40, repaired here): every file, every decoder *)
Theorem C11_order_parseSingle_class : forall DecodeType fmt_d (ro1 ro2 : list Z -> list Z),
  (forall l, Permutation l (ro1 l)) -> (forall l, Permutation l (ro2 l)) ->
  forall data, PG.C11.CliModel.parseSingle_class DecodeType fmt_d ro1 data =
               PG.C11.CliModel.parseSingle_class DecodeType fmt_d ro2 data.
Proof. exact PG.C11.OrderProofs.parseSingle_class_order. Qed.
Theorem C11_order_parseSingle_attribute : forall DecodeType TypeName fmt_d (ro1 ro2 : list Z -> list Z),
  (forall l, Permutation l (ro1 l)) -> (forall l, Permutation l (ro2 l)) ->
  forall data, PG.C11.CliModel.parseSingle_attribute DecodeType TypeName fmt_d ro1 data =
               PG.C11.CliModel.parseSingle_attribute DecodeType TypeName fmt_d ro2 data.
Proof. exact PG.C11.OrderProofs.parseSingle_attribute_order. Qed.
Print Assumptions C11_order_parseSingle_class.

(* ---- dropped.go findTableByName (new, repaired here): of several relations with the name, the lowest filenode,
   whatever order the map is visited in; before the repair two orders gave two answers *)
Theorem C11_order_findTableByName : forall (v1 v2 : list (Z * PG.C01.Lib.TableInfo)) name,
  Permutation v1 v2 -> NoDup (map fst v1) -> (forall e, In e v1 -> PG.C01.Lib.ti_filenode (snd e) = fst e) ->
  PG.C11.CliModel.findTableByName v1 name = PG.C11.CliModel.findTableByName v2 name.
Proof. exact PG.C11.OrderProofs.findTableByName_order. Qed.
Theorem C11_order_refuted_findTableByName :
  exists v1 v2 name, Permutation v1 v2 /\ NoDup (map fst v1) /\
    (forall e, In e v1 -> PG.C01.Lib.ti_filenode (snd e) = fst e) /\
    PG.C11.CliModel.findTableByName_historic v1 name <> PG.C11.CliModel.findTableByName_historic v2 name.
Proof. exact PG.C11.OrderProofs.findTableByName_historic_refuted. Qed.
Print Assumptions C11_order_findTableByName.

(* ---- historic behaviour of the other sites (two orders, two outputs), proved where the sites were repaired *)
Theorem C11_order_refuted_rows : same_as PG.Props.C15.C15_D38_historic_refuted.
Proof. exact PG.Props.C15.C15_D38_historic_refuted. Qed.
Theorem C11_order_refuted_FindSequences : same_as PG.Props.C20.C20_listing_order_refuted.
Proof. exact PG.Props.C20.C20_listing_order_refuted. Qed.

(* ================================================================ caches are transparent *)
(* RemoteClient: every sequence of calls (all 18 methods, any arguments) on ONE client answers, call by call, what
   a fresh client answers — for every file system.  (The p_* of the theorems above are those answers.) *)
Theorem C11_cache : same_as PG.Props.C12.C12_cache.
Proof. exact PG.Props.C12.C12_cache. Qed.
Print Assumptions C11_cache.
(* TOASTReader with a data directory: ReadValue loads a TOAST table on first use and keeps it; any sequence of reads
   on one reader whose cache agrees with the files (a new reader's does) returns, read by read, what a fresh reader
   returns — including the panics of the byte parsers, if there were any (there are none: C08_no_panic). *)
Theorem C11_toast_cache : forall zlib_inflate toast_file ds r,
  PG.C11.StateProofs.cache_ok toast_file r ->
  PG.C11.StateModel.run_reads zlib_inflate toast_file r ds = PG.C11.StateModel.fresh_reads zlib_inflate toast_file ds.
Proof. intros. apply PG.C11.StateProofs.run_reads_fresh. assumption. Qed.
Theorem C11_toast_cache_new : forall zlib_inflate toast_file ds,
  PG.C11.StateModel.run_reads zlib_inflate toast_file [] ds = PG.C11.StateModel.fresh_reads zlib_inflate toast_file ds.
Proof. intros. apply PG.C11.StateProofs.run_reads_fresh. apply PG.C11.StateProofs.cache_ok_nil. Qed.
Print Assumptions C11_toast_cache.

(* ================================================================ the caller's buffers *)
(* computePageChecksum / pgChecksumBlock over an explicit memory (caller's page, local copy): the caller's page is
   what it was, for every page of every length, and the value computed is the one of C19's pure models (so every C19
   theorem about checksums is about this code path).  The *_inplace variants (copy skipped) do change the page. *)
Theorem C11_input_unchanged : forall page blk,
  PG.C11.StateModel.caller (snd (PG.C11.StateModel.computePageChecksum_st page blk)) = page /\
  PG.C11.StateModel.caller (snd (PG.C11.StateModel.pgChecksumBlock_st page blk)) = page.
Proof. intros. split; [apply PG.C11.StateProofs.cpc_input_unchanged|apply PG.C11.StateProofs.pcb_input_unchanged]. Qed.
Theorem C11_checksum_state_model : forall page tl blk,
  fst (PG.C11.StateModel.computePageChecksum_st page blk) =
    PG.C19.ChecksumModel.computePageChecksum {| vis := page; tail := tl |} blk /\
  fst (PG.C11.StateModel.pgChecksumBlock_st page blk) =
    PG.C19.ChecksumModel.pgChecksumBlock {| vis := page; tail := tl |} blk.
Proof. intros. split; [apply PG.C11.StateProofs.cpc_agrees|apply PG.C11.StateProofs.pcb_agrees]. Qed.
Theorem C11_input_unchanged_not_vacuous :
  (exists page blk, PG.C11.StateModel.caller (snd (PG.C11.StateModel.computePageChecksum_inplace page blk)) <> page) /\
  (exists page blk, PG.C11.StateModel.caller (snd (PG.C11.StateModel.pgChecksumBlock_inplace page blk)) <> page).
Proof. split; [exact PG.C11.StateProofs.cpc_inplace_changes|exact PG.C11.StateProofs.pcb_inplace_changes]. Qed.
(* the verdict does not depend on the stored checksum bytes the copy zeroes (C19) *)
Theorem C11_checksum_field_independent : same_as PG.Props.C19.C19_checksum_field_independent.
Proof. exact PG.Props.C19.C19_checksum_field_independent. Qed.
Print Assumptions C11_input_unchanged.
Print Assumptions C11_checksum_state_model.

(* ================================================================ text renderings *)
(* ToSQL: the clock enters only as the text of the "Generated at" line; everything else is a function of the dump.
   ToCSV, mapToJSON, the String() renderers take no clock, no map order (theorems above) and no other state. *)
Theorem C11_text_sql : forall show_f64 show_f32 now dbs,
  PG.C13.Model.DumpToSQL show_f64 show_f32 now dbs =
  PG.C11.TextProofs.sql_prefix ++ now ++ PG.C11.TextProofs.sql_rest show_f64 show_f32 dbs.
Proof. exact PG.C11.TextProofs.DumpToSQL_timestamp. Qed.
Print Assumptions C11_text_sql.
