(* C06 library lemmas: bit fields as arithmetic, partial list index, JEntry arrays written by the
   spec encoder and what endOffset / entryOffLen compute on them.  (General-purpose pieces that
   could live in Base/ are marked; see the report.) *)
Require Import PG.Base.Bytes PG.Base.GoSlice PG.Base.Value.
Require Import PG.C06.JsonbModel PG.C06.JsonbSpec.

(* ---------- bit fields (candidate for Base/) ---------- *)
Lemma land_field x k n : 0 <= k -> 0 <= n ->
  Z.land x (Z.ones n * 2 ^ k) = (x / 2 ^ k mod 2 ^ n) * 2 ^ k.
Proof.
  intros Hk Hn.
  rewrite <- Z.shiftl_mul_pow2, <- Z.shiftr_div_pow2, <- Z.land_ones, <- Z.shiftl_mul_pow2 by lia.
  apply Z.bits_inj'. intros i Hi.
  rewrite Z.land_spec.
  destruct (Z.lt_ge_cases i k).
  - rewrite !Z.shiftl_spec_low by lia. apply andb_false_r.
  - rewrite !Z.shiftl_spec_high by lia. rewrite Z.land_spec, Z.shiftr_spec by lia.
    f_equal. f_equal. lia.
Qed.

Lemma land_offmask x : Z.land x 268435455 = x mod 268435456.
Proof. change 268435455 with (Z.ones 28). rewrite Z.land_ones by lia. reflexivity. Qed.
Lemma land_bit31 x : Z.land x 2147483648 = (x / 2147483648 mod 2) * 2147483648.
Proof. exact (land_field x 31 1 ltac:(lia) ltac:(lia)). Qed.
Lemma land_bit30 x : Z.land x 1073741824 = (x / 1073741824 mod 2) * 1073741824.
Proof. exact (land_field x 30 1 ltac:(lia) ltac:(lia)). Qed.
Lemma land_bit29 x : Z.land x 536870912 = (x / 536870912 mod 2) * 536870912.
Proof. exact (land_field x 29 1 ltac:(lia) ltac:(lia)). Qed.
Lemma land_bit28 x : Z.land x 268435456 = (x / 268435456 mod 2) * 268435456.
Proof. exact (land_field x 28 1 ltac:(lia) ltac:(lia)). Qed.
Lemma land_typemask x : Z.land x 1879048192 = (x / 268435456 mod 8) * 268435456.
Proof. exact (land_field x 28 3 ltac:(lia) ltac:(lia)). Qed.
Lemma land_3 x : Z.land x 3 = x mod 4.
Proof. change 3 with (Z.ones 2). rewrite Z.land_ones by lia. reflexivity. Qed.

(* JEntry type bits: a multiple of 2^28 below 2^31 *)
Definition ty_ok (ty : Z) : Prop := 0 <= ty < 2147483648 /\ ty mod 268435456 = 0.

Lemma je_len_off ty l : ty_ok ty -> 0 <= l < 268435456 -> Z.land (ty + l) jeOffMask = l.
Proof. unfold ty_ok, jeOffMask. intros. rewrite land_offmask. lia. Qed.
Lemma je_len_has ty l : ty_ok ty -> 0 <= l < 268435456 -> Z.land (ty + l) jeHasOff = 0.
Proof. unfold ty_ok, jeHasOff. intros. rewrite land_bit31. lia. Qed.
Lemma je_len_ty ty l : ty_ok ty -> 0 <= l < 268435456 -> Z.land (ty + l) jeTypeMask = ty.
Proof. unfold ty_ok, jeTypeMask. intros. rewrite land_typemask. lia. Qed.
Lemma je_off_off ty l : ty_ok ty -> 0 <= l < 268435456 -> Z.land (ty + JENTRY_HAS_OFF + l) jeOffMask = l.
Proof. unfold ty_ok, jeOffMask, JENTRY_HAS_OFF. intros. rewrite land_offmask. lia. Qed.
Lemma je_off_has ty l : ty_ok ty -> 0 <= l < 268435456 -> Z.land (ty + JENTRY_HAS_OFF + l) jeHasOff = 2147483648.
Proof. unfold ty_ok, jeHasOff, JENTRY_HAS_OFF. intros. rewrite land_bit31. lia. Qed.
Lemma je_off_ty ty l : ty_ok ty -> 0 <= l < 268435456 -> Z.land (ty + JENTRY_HAS_OFF + l) jeTypeMask = ty.
Proof. unfold ty_ok, jeTypeMask, JENTRY_HAS_OFF. intros. rewrite land_typemask. lia. Qed.

(* ---------- eidx ---------- *)
Lemma eidx_ok entries i : 0 <= i < Z.of_nat (length entries) ->
  eidx entries i = Ok (nth (Z.to_nat i) entries 0).
Proof. intros. unfold eidx. destruct (_ && _) eqn:E; [reflexivity|lia]. Qed.

(* ---------- items: totals and positions ---------- *)
Definition tot (its : list item) (k : nat) : Z := total (firstn k its).
Definition item_at (its : list item) (k : nat) : item := nth k its (0, []).

Lemma total_cons (e : item) (r : list item) : total (e :: r) = blen (snd e) + total r.
Proof. reflexivity. Qed.
Lemma total_nil : total [] = 0.
Proof. reflexivity. Qed.
Lemma total_nonneg (its : list item) : 0 <= total its.
Proof. induction its as [|e r IH]; [rewrite total_nil; lia|]. rewrite total_cons. pose proof (blen_nonneg (snd e)). lia. Qed.
Lemma total_app (a b : list item) : total (a ++ b) = total a + total b.
Proof. induction a as [|e r IH]; [rewrite total_nil; cbn [app]; lia|]. rewrite <- app_comm_cons, !total_cons, IH. lia. Qed.
Lemma tot_0 (its : list item) : tot its 0 = 0. Proof. reflexivity. Qed.
Lemma tot_cons (e : item) (r : list item) k : tot (e :: r) (S k) = blen (snd e) + tot r k.
Proof. unfold tot. cbn [firstn]. apply total_cons. Qed.
Lemma item_at_0 (e : item) (r : list item) : item_at (e :: r) 0 = e. Proof. reflexivity. Qed.
Lemma item_at_S (e : item) (r : list item) k : item_at (e :: r) (S k) = item_at r k. Proof. reflexivity. Qed.
Lemma tot_S (its : list item) k : (k < length its)%nat -> tot its (S k) = tot its k + blen (snd (item_at its k)).
Proof.
  revert k. induction its as [|e r IH]; intros k Hk; cbn [length] in Hk; [lia|].
  destruct k as [|k].
  - rewrite tot_cons, !tot_0, item_at_0. lia.
  - rewrite !tot_cons, item_at_S, IH by lia. lia.
Qed.
Lemma tot_all (its : list item) k : (length its <= k)%nat -> tot its k = total its.
Proof. intros. unfold tot. rewrite firstn_all2 by lia. reflexivity. Qed.
Lemma tot_mono (its : list item) a b : (a <= b)%nat -> tot its a <= tot its b.
Proof.
  intros H. induction H as [|b H IH]; [lia|].
  destruct (Nat.lt_ge_cases b (length its)).
  - rewrite tot_S by lia. pose proof (blen_nonneg (snd (item_at its b))). lia.
  - rewrite (tot_all its (S b)), <- (tot_all its b) by lia. exact IH.
Qed.
Lemma tot_le_total (its : list item) k : tot its k <= total its.
Proof.
  destruct (Nat.lt_ge_cases k (length its)).
  - rewrite <- (tot_all its (length its)) by lia. apply tot_mono. lia.
  - rewrite tot_all by lia. lia.
Qed.
Lemma tot_nonneg (its : list item) k : 0 <= tot its k.
Proof. apply total_nonneg. Qed.

Lemma concat_snd_len (its : list item) : blen (concat (map snd its)) = total its.
Proof. induction its as [|e r IH]; [reflexivity|]. cbn [map concat]. bl. rewrite IH, total_cons. reflexivity. Qed.
#[export] Hint Rewrite concat_snd_len : blen.

(* the bytes of child k sit at [tot k, tot (k+1)) of the data area *)
Lemma data_area_at (its : list item) k : (k < length its)%nat ->
  sub (concat (map snd its)) (tot its k) (tot its (S k)) = snd (item_at its k).
Proof.
  revert k. induction its as [|e r IH]; intros k Hk; cbn [length] in Hk; [lia|].
  destruct k as [|k].
  - rewrite tot_cons, !tot_0, item_at_0. cbn [map concat].
    rewrite sub_app_l by (bl; lia). apply sub_exact; lia.
  - rewrite !tot_cons, item_at_S. cbn [map concat].
    pose proof (tot_nonneg r k). rewrite sub_app_r by lia.
    replace (blen (snd e) + tot r k - blen (snd e)) with (tot r k) by lia.
    replace (blen (snd e) + tot r (S k) - blen (snd e)) with (tot r (S k)) by lia.
    apply IH. lia.
Qed.

(* ---------- the JEntry array the encoder writes ---------- *)
Lemma jentries_length (its : list item) : forall i t, length (jentries i t its) = length its.
Proof. induction its as [|[ty d] r IH]; intros; cbn [jentries length]; [reflexivity|]. rewrite IH. reflexivity. Qed.

#[export] Hint Rewrite jentries_length : blen.

Lemma jentries_nth (its : list item) : forall i t k, (k < length its)%nat ->
  nth k (jentries i t its) 0 =
    if (i + Z.of_nat k) mod 32 =? 0
    then fst (item_at its k) + JENTRY_HAS_OFF + (t + tot its (S k))
    else fst (item_at its k) + blen (snd (item_at its k)).
Proof.
  induction its as [|[ty d] r IH]; intros i t k Hk; cbn [length] in Hk; [lia|].
  cbn [jentries]. unfold JB_OFFSET_STRIDE. destruct k as [|k].
  - cbn [nth]. replace (i + Z.of_nat 0) with i by lia. rewrite tot_cons, tot_0, item_at_0. cbn [fst snd].
    replace (t + (blen d + 0)) with (t + blen d) by lia. reflexivity.
  - cbn [nth]. rewrite IH by lia. replace (i + 1 + Z.of_nat k) with (i + Z.of_nat (S k)) by lia.
    rewrite (tot_cons (ty, d) r (S k)), item_at_S. cbn [snd].
    replace (t + blen d + tot r (S k)) with (t + (blen d + tot r (S k))) by lia.
    reflexivity.
Qed.

Definition items_ok (its : list item) : Prop :=
  Forall (fun e : item => ty_ok (fst e)) its /\ total its < 268435456.

Lemma items_ok_ty (its : list item) k : items_ok its -> (k < length its)%nat -> ty_ok (fst (item_at its k)).
Proof. intros [H _] Hk. rewrite Forall_forall in H. apply H. apply nth_In. exact Hk. Qed.
Lemma items_ok_len (its : list item) k : items_ok its -> (k < length its)%nat -> 0 <= blen (snd (item_at its k)) < 268435456.
Proof.
  intros [_ H] Hk. pose proof (tot_S its k Hk). pose proof (tot_le_total its (S k)). pose proof (tot_nonneg its k).
  pose proof (blen_nonneg (snd (item_at its k))). lia.
Qed.
Lemma items_ok_tot (its : list item) k : items_ok its -> 0 <= tot its k < 268435456.
Proof. intros [_ H]. pose proof (tot_le_total its k). pose proof (tot_nonneg its k). lia. Qed.

(* the end offsets the encoder stores never run backwards: parseJSONB's walk over the JEntry array
   (offsets_ok) accepts every encoder-written array *)
Lemma offsets_ok_jentries (its : list item) : forall i t,
  Forall (fun e : item => ty_ok (fst e)) its -> 0 <= t -> t + total its < 268435456 ->
  offsets_ok (jentries i t its) t = true.
Proof.
  induction its as [|[ty d] r IH]; intros i t HF Ht Hlt; [reflexivity|].
  inversion HF as [|? ? Hty HF']; subst. cbn [fst] in Hty.
  rewrite total_cons in Hlt. cbn [snd] in Hlt.
  pose proof (blen_nonneg d) as Hd. pose proof (total_nonneg r) as Hr.
  cbn [jentries offsets_ok]. cbv zeta.
  destruct (i mod JB_OFFSET_STRIDE =? 0).
  - rewrite je_off_has, je_off_off by (assumption || lia). cbn [Z.eqb negb].
    destruct (t + blen d <? t) eqn:E; [lia|]. apply IH; [assumption|lia|lia].
  - rewrite je_len_has, je_len_off by (assumption || lia). cbn [Z.eqb negb].
    apply IH; [assumption|lia|lia].
Qed.

Section Entries.
Variable its : list item.
Hypothesis Hok : items_ok its.
Let entries := jentries 0 0 its.
Let n := length its.

Lemma entry_stride k : (k < n)%nat -> Z.of_nat k mod 32 = 0 ->
  nth k entries 0 = fst (item_at its k) + JENTRY_HAS_OFF + tot its (S k).
Proof.
  intros Hk Hm. unfold entries. rewrite jentries_nth by exact Hk.
  replace (0 + Z.of_nat k) with (Z.of_nat k) by lia.
  destruct (Z.of_nat k mod 32 =? 0) eqn:E; [|lia]. f_equal; lia.
Qed.
Lemma entry_plain k : (k < n)%nat -> Z.of_nat k mod 32 <> 0 ->
  nth k entries 0 = fst (item_at its k) + blen (snd (item_at its k)).
Proof.
  intros Hk Hm. unfold entries. rewrite jentries_nth by exact Hk.
  replace (0 + Z.of_nat k) with (Z.of_nat k) by lia.
  destruct (Z.of_nat k mod 32 =? 0) eqn:E; [lia|]. reflexivity.
Qed.
Lemma entries_len : length entries = n.
Proof. apply jentries_length. Qed.
Lemma entries_offsets_ok : offsets_ok entries 0 = true.
Proof. destruct Hok as [HF Ht]. apply offsets_ok_jentries; [exact HF|lia|lia]. Qed.

Lemma entry_ty k : (k < n)%nat -> Z.land (nth k entries 0) jeTypeMask = fst (item_at its k).
Proof.
  intros Hk. pose proof (items_ok_ty its k Hok Hk). pose proof (items_ok_len its k Hok Hk).
  pose proof (items_ok_tot its (S k) Hok).
  destruct (Z.eq_dec (Z.of_nat k mod 32) 0).
  - rewrite entry_stride by assumption. apply je_off_ty; assumption.
  - rewrite entry_plain by assumption. apply je_len_ty; assumption.
Qed.
Lemma entry_range k : (k < n)%nat -> 0 <= nth k entries 0 < 4294967296.
Proof.
  intros Hk. pose proof (items_ok_ty its k Hok Hk) as [? ?]. pose proof (items_ok_len its k Hok Hk).
  pose proof (items_ok_tot its (S k) Hok).
  destruct (Z.eq_dec (Z.of_nat k mod 32) 0).
  - rewrite entry_stride by assumption. unfold JENTRY_HAS_OFF. lia.
  - rewrite entry_plain by assumption. lia.
Qed.

(* forward sum over entries that all store lengths *)
Lemma sum_lens_plain : forall c lo,
  (lo + c <= n)%nat ->
  (forall k, (lo <= k < lo + c)%nat -> Z.of_nat k mod 32 <> 0) ->
  sum_lens entries (Z.of_nat lo) c = Ok (tot its (lo + c) - tot its lo).
Proof.
  induction c as [|c IH]; intros lo Hn Hm.
  - cbn [sum_lens]. replace (lo + 0)%nat with lo by lia. f_equal. lia.
  - cbn [sum_lens]. rewrite eidx_ok by (rewrite entries_len; lia). cbn [bind]. rewrite Nat2Z.id.
    replace (Z.of_nat lo + 1) with (Z.of_nat (S lo)) by lia.
    rewrite IH by (try lia; intros; apply Hm; lia). cbn [bind].
    rewrite entry_plain by (try lia; apply Hm; lia).
    rewrite je_len_off by (try apply items_ok_ty; try apply items_ok_len; auto; lia).
    f_equal. replace (S lo + c)%nat with (lo + S c)%nat by lia.
    rewrite (tot_S its lo) by lia. lia.
Qed.

(* backward scan from idx: all entries in (j, idx] store lengths *)
Lemma endOffset_back_ok idx : (idx < n)%nat -> forall c j,
  c = S j -> (j <= idx)%nat ->
  (forall k, (j < k <= idx)%nat -> Z.of_nat k mod 32 <> 0) ->
  endOffset_back entries (Z.of_nat idx) c (Z.of_nat j) = Ok (tot its (S idx)).
Proof.
  intros Hidx. induction c as [|c IH]; intros j Hc Hj Hm; [lia|].
  cbn [endOffset_back]. rewrite eidx_ok by (rewrite entries_len; lia). cbn [bind]. rewrite Nat2Z.id.
  pose proof (items_ok_ty its j Hok ltac:(lia)). pose proof (items_ok_len its j Hok ltac:(lia)).
  pose proof (items_ok_tot its (S j) Hok).
  destruct (Z.eq_dec (Z.of_nat j mod 32) 0) as [E|E].
  - rewrite entry_stride by (assumption || lia).
    rewrite je_off_has by assumption. cbn [Z.eqb negb].
    replace (Z.of_nat j + 1) with (Z.of_nat (S j)) by lia.
    replace (Z.to_nat (Z.of_nat idx - Z.of_nat j)) with (idx - j)%nat by lia.
    rewrite sum_lens_plain by (try lia; intros; apply Hm; lia). cbn [bind].
    rewrite je_off_off by assumption. f_equal.
    replace (S j + (idx - j))%nat with (S idx) by lia. lia.
  - rewrite entry_plain by (assumption || lia).
    rewrite je_len_has by assumption. cbn [Z.eqb negb].
    destruct j as [|j]; [exfalso; apply E; reflexivity|].
    replace (Z.of_nat (S j) - 1) with (Z.of_nat j) by lia.
    apply IH; try lia. intros k Hk. destruct (Nat.eq_dec k (S j)); [subst; exact E|apply Hm; lia].
Qed.

(* endOffset = running total, for every index of an encoder-written entry array (any size) *)
Lemma endOffset_spec idx : (idx < n)%nat -> endOffset entries (Z.of_nat idx) = Ok (tot its (S idx)).
Proof.
  intros H. unfold endOffset. replace (Z.to_nat (Z.of_nat idx + 1)) with (S idx) by lia.
  apply endOffset_back_ok; try lia.
Qed.

Lemma entryOffLen_spec idx base : (idx < n)%nat ->
  entryOffLen entries (Z.of_nat idx) base = Ok (base + tot its idx, blen (snd (item_at its idx))).
Proof.
  intros H. unfold entryOffLen. rewrite eidx_ok by (rewrite entries_len; lia). cbn [bind]. rewrite Nat2Z.id.
  pose proof (items_ok_ty its idx Hok H). pose proof (items_ok_len its idx Hok H).
  pose proof (items_ok_tot its (S idx) Hok).
  assert (St : (if Z.of_nat idx >? 0 then endOffset entries (Z.of_nat idx - 1) else Ok 0) = Ok (tot its idx)).
  { destruct idx as [|i]; [reflexivity|]. destruct (Z.of_nat (S i) >? 0) eqn:E; [|lia].
    replace (Z.of_nat (S i) - 1) with (Z.of_nat i) by lia. apply endOffset_spec. lia. }
  rewrite St. cbn [bind].
  destruct (Z.eq_dec (Z.of_nat idx mod 32) 0) as [E|E].
  - rewrite entry_stride by assumption. rewrite je_off_has, je_off_off by assumption. cbn [Z.eqb negb].
    f_equal. f_equal. rewrite tot_S by exact H. lia.
  - rewrite entry_plain by assumption. rewrite je_len_has, je_len_off by assumption. cbn [Z.eqb negb].
    reflexivity.
Qed.

Lemma totalLen_spec : totalLen entries = Ok (total its).
Proof.
  unfold totalLen. rewrite entries_len. destruct (Z.of_nat n =? 0) eqn:E.
  - f_equal. assert (n = 0%nat) by lia. unfold n in *. destruct its; [reflexivity|discriminate].
  - replace (Z.of_nat n - 1) with (Z.of_nat (n - 1)) by lia. rewrite endOffset_spec by lia.
    f_equal. apply tot_all. unfold n. lia.
Qed.
End Entries.

(* ---------- reading the entry words ---------- *)
Lemma enc_words_len ws : blen (enc_words ws) = 4 * Z.of_nat (length ws).
Proof. induction ws as [|w r IH]; [reflexivity|]. unfold enc_words in *. cbn [map concat length]. bl. rewrite IH. lia. Qed.
#[export] Hint Rewrite enc_words_len : blen.

Lemma read_entries_at : forall ws s off,
  Forall (fun w => 0 <= w < 4294967296) ws -> 0 <= off ->
  off + 4 * Z.of_nat (length ws) <= len s ->
  sub (vis s) off (off + 4 * Z.of_nat (length ws)) = enc_words ws ->
  read_entries (length ws) s off = Ok ws.
Proof.
  induction ws as [|w r IH]; intros s off Hr Hoff Hlen Hsub; [reflexivity|].
  inversion Hr as [|? ? Hw Hr']; subst. cbn [length read_entries] in *.
  assert (Hsplit : forall a b, 0 <= a -> a <= b -> b <= 4 * Z.of_nat (S (length r)) ->
            sub (vis s) (off + a) (off + b) = sub (enc_words (w :: r)) a b).
  { intros a b Ha Hab Hb. rewrite <- Hsub. rewrite sub_sub by lia. reflexivity. }
  unfold u32. rewrite (uN_sub 4 s off w); try lia.
  2:{ replace off with (off + 0) at 1 by lia. rewrite Hsplit by lia.
      unfold enc_words; cbn [map concat]. ssub. }
  cbn [bind]. rewrite IH; auto; try lia.
  replace (off + 4 + 4 * Z.of_nat (length r)) with (off + 4 * Z.of_nat (S (length r))) by lia.
  rewrite Hsplit by lia. unfold enc_words; cbn [map concat]. fold (enc_words r). ssub.
Qed.
