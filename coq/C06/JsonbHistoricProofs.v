(* The code as it was BEFORE the fix: commits for D20, D21, D22 (pgdump/jsonb.go at d1bcd33), and
   machine-checked witnesses that it violates the property.  Kept so that the findings stay checked.
   decodeJEntry / entryOffLen / parseJSONBArray are shared with the current model (the later
   negative-length guard only changes behaviour on malformed input, not on these witnesses). *)
Require Import PG.Base.Bytes PG.Base.GoSlice PG.Base.Value.
Require Import PG.C06.JsonbModel PG.C06.JsonbSpec PG.C06.JsonbInst.
Require Import PG.C06.JsonbFuelProofs.

Section Historic.
Variable DecodeNumeric : bytes -> gval.
Variable safeString : bytes -> bytes.

(* old parseJSONBObject: keys, vals := entries[:count], entries[count:]; keysLen := totalLen(keys);
   value i located by entryOffLen(vals, i, keysLen) — two independent JEntry arrays *)
Fixpoint obj_loop_h (rec : gslice -> jres gval) (data : gslice) (keys vals : list Z) (dataStart keysLen : Z)
         (n : nat) (i : Z) : jres (list (bytes * gval)) :=
  match n with
  | O => JOk []
  | S k =>
      '(kOff, kLen) <~ lift (entryOffLen keys i 0) ;;
      key <~ (if dataStart + kOff + kLen <=? len data
              then s <~ lift (slice data (dataStart + kOff) (dataStart + kOff + kLen)) ;; JOk (vis s)
              else JOk []) ;;
      '(vOff, vLen) <~ lift (entryOffLen vals i keysLen) ;;
      je <~ lift (eidx vals i) ;;
      v <~ decodeJEntry DecodeNumeric rec data (dataStart + vOff) vLen je ;;
      rest <~ obj_loop_h rec data keys vals dataStart keysLen k (i + 1) ;;
      JOk ((key, v) :: rest)
  end.
Definition parseJSONBObject_h rec data (entries : list Z) dataStart count : jres gval :=
  let keys := firstn (Z.to_nat count) entries in
  let vals := skipn (Z.to_nat count) entries in
  keysLen <~ lift (totalLen keys) ;;
  m <~ obj_loop_h rec data keys vals dataStart keysLen (Z.to_nat count) 0 ;; JOk (VMap m).

(* old ParseJSONB: nil on failure, and count <= 0 is a failure *)
Definition parse_body_h (rec : gslice -> jres gval) (data : gslice) : jres gval :=
  if len data <? 4 then JOk VNil else
  header <~ lift (u32 data 0) ;;
  let count := Z.land header jbCMask in
  let isObj := negb (Z.land header jbFObject =? 0) in
  let isArr := negb (Z.land header jbFArray =? 0) in
  if (negb isObj && negb isArr) || (count <=? 0) || (count >? 10000) then JOk VNil else
  let numEntries := if isObj then count * 2 else count in
  if 4 + numEntries * 4 >? len data then JOk VNil else
  entries <~ lift (read_entries (Z.to_nat numEntries) data 4) ;;
  let dataStart := 4 + numEntries * 4 in
  result <~ (if isObj then parseJSONBObject_h rec data entries dataStart count
             else parseJSONBArray DecodeNumeric rec data entries dataStart count) ;;
  if negb (Z.land header jbFScalar =? 0) then
    match result with
    | VList [x] => JOk x
    | _ => JOk result
    end
  else JOk result.
Fixpoint ParseJSONB_hf (fuel : nat) (data : gslice) : jres gval :=
  match fuel with O => JFuel | S f => parse_body_h (ParseJSONB_hf f) data end.
Definition ParseJSONB_h (data : gslice) : jres gval := ParseJSONB_hf (fuel_for data) data.
(* old DecodeType branch: if v := ParseJSONB(data); v != nil { return v }; return safeString(data) *)
Definition DecodeType_jsonb_h (data : gslice) : jres gval :=
  if len data =? 0 then JOk VNil else
  v <~ ParseJSONB_h data ;;
  match v with VNil => JOk (VStr (safeString (vis data))) | _ => JOk v end.
End Historic.

(* witnesses *)
Definition key_of (i : nat) : bytes := [x6b; z2b (Z.of_nat (48 + i / 10)); z2b (Z.of_nat (48 + i mod 10))].  (* "k00".."k99" *)
Definition obj_n (n : nat) : json := JObj (map (fun i => (key_of i, JStr [z2b (Z.of_nat (65 + i))])) (seq 0 n)).

(* D20: {} decoded to nil (and to the raw bytes by DecodeType) *)
Theorem historic_empty_refuted :
  exists j, wf_json j /\ ParseJSONB_h num_token (exact (enc_jsonb j)) <> JOk (expected num_token j).
Proof. exists (JObj []). split; [apply wf_jsonb_sound; vm_compute; reflexivity|]. vm_compute. discriminate. Qed.
(* also nested: [[]] decoded to [nil] *)
Theorem historic_empty_nested_refuted :
  exists j, wf_json j /\ ParseJSONB_h num_token (exact (enc_jsonb j)) <> JOk (expected num_token j).
Proof. exists (JArr [JArr []]). split; [apply wf_jsonb_sound; vm_compute; reflexivity|]. vm_compute. discriminate. Qed.

(* D21: an object with 17 pairs: entry 32 (= value 15) carries HAS_OFF, the old arithmetic adds the key
   area twice for the values after it *)
Theorem historic_pairs17_refuted :
  exists j, wf_json j /\ ParseJSONB_h num_token (exact (enc_jsonb j)) <> JOk (expected num_token j).
Proof. exists (obj_n 17). split; [apply wf_jsonb_sound; vm_compute; reflexivity|]. vm_compute. congruence. Qed.
(* ... while 16 pairs were still decoded correctly *)
Example historic_pairs16_ok :
  ParseJSONB_h num_token (exact (enc_jsonb (obj_n 16))) = JOk (expected num_token (obj_n 16)).
Proof. vm_compute. reflexivity. Qed.

(* D22: the document null came back from DecodeType as the raw bytes *)
Theorem historic_null_refuted :
  exists j, wf_json j /\
    DecodeType_jsonb_h num_token raw_token (exact (enc_jsonb j)) <> JOk (expected num_token j).
Proof. exists JNull. split; [apply wf_jsonb_sound; vm_compute; reflexivity|]. vm_compute. discriminate. Qed.
