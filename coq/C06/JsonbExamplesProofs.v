(* Non-vacuity: concrete documents that satisfy wf_json, and the model run on them. *)
Require Import PG.Base.Bytes PG.Base.GoSlice PG.Base.Value.
Require Import PG.C06.JsonbModel PG.C06.JsonbSpec PG.C06.JsonbInst PG.C06.JsonbFuelProofs PG.C06.JsonbOffsetsProofs.

Definition ex_key (i : nat) : bytes := [x6b; z2b (Z.of_nat (48 + i / 10)); z2b (Z.of_nat (48 + i mod 10))].
Definition ex_elem (i : nat) : json :=
  match (i mod 6)%nat with
  | 0%nat => JNull | 1%nat => JBool true | 2%nat => JNum [x00; x80; z2b (Z.of_nat i); x00]
  | 3%nat => JStr (repeat x61 i) | 4%nat => JObj [] | _ => JArr []
  end.
(* a 40-pair object (80 entries: stride points 0, 32, 64 in both halves) whose pair 7 holds a
   70-element array of mixed scalars, {} and [] *)
Definition ex_big : json :=
  JObj (map (fun i => (ex_key i, if Nat.eqb i 7 then JArr (map ex_elem (seq 0 70)) else ex_elem i)) (seq 0 40)).

Example ex_big_wf : wf_json ex_big.
Proof. apply wf_jsonb_sound. vm_compute. reflexivity. Qed.
Example ex_big_roundtrip :
  x_ParseJSONB {| vis := enc_jsonb ex_big; tail := [x01; x02] |} = JOk (x_expected ex_big).
Proof. vm_compute. reflexivity. Qed.
Example ex_null_wf : wf_json JNull.
Proof. apply wf_jsonb_sound. vm_compute. reflexivity. Qed.
Example ex_null_decode : x_DecodeType_jsonb (exact (enc_jsonb JNull)) = JOk VNil.
Proof. vm_compute. reflexivity. Qed.

(* The overlap bomb (the defect the offset walk repairs): a 3-entry array [container of length L,
   null carrying HAS_OFF with stored end offset 0, container of length L] nested d times; both
   container entries covered the SAME L bytes, so the unrepaired decoder did 2^d nested decodes on
   4 + 16 d bytes.  The repaired parser rejects it at the outermost container. *)
Fixpoint bomb (d : nat) : bytes :=
  match d with
  | O => le_enc 4 1073741824                                  (* empty array *)
  | S k => let c := bomb k in
           le_enc 4 (1073741824 + 3) ++ le_enc 4 (1342177280 + blen c) ++
           le_enc 4 (2147483648 + 1073741824) ++ le_enc 4 (1342177280 + blen c) ++ c
  end.
Example ex_bomb_rejected :
  x_ParseJSONB (exact (bomb 40)) = JOk VNil /\ x_parseJSONB (exact (bomb 40)) = JOk None /\ blen (bomb 40) = 644.
Proof. vm_compute. repeat split; reflexivity. Qed.
(* the placeholder numeric decoder is a scalar: the hypothesis of C06_nodes_linear is satisfiable *)
Example ex_num_token_scalar : forall b, nodes (num_token b) <= 1.
Proof. intros b. cbn [num_token nodes]. lia. Qed.
(* the hypothesis of C06_children_disjoint is satisfiable: the big example document is accepted *)
Example ex_big_accepted :
  exists v, parse_body num_token (fun s => r <~ parseJSONB_f num_token (Z.to_nat (blen (enc_jsonb ex_big))) s ;; JOk (unopt r))
              (exact (enc_jsonb ex_big)) = JOk (Some v).
Proof. eexists. vm_compute. reflexivity. Qed.
