(* Non-vacuity: concrete documents that satisfy wf_json, and the model run on them. *)
Require Import PG.Base.Bytes PG.Base.GoSlice PG.Base.Value.
Require Import PG.C06.JsonbModel PG.C06.JsonbSpec PG.C06.JsonbInst PG.C06.JsonbFuelProofs.

Definition ex_key (i : nat) : bytes := [x6b; z2b (Z.of_nat (48 + i / 10)); z2b (Z.of_nat (48 + i mod 10))].
Definition ex_elem (i : nat) : json :=
  match (i mod 6)%nat with
  | 0%nat => JNull | 1%nat => JBool true | 2%nat => JNum [x00; x80; z2b (Z.of_nat i); x00]
  | 3%nat => JStr (repeat x61 i) | 4%nat => JObj [] | _ => JArr []
  end.
(* a 40-pair object (80 entries: stride points 0, 32, 64 in both halves) whose pair 7 holds a
   70-element array of mixed scalars, {} and [] *)
Definition ex_big : json :=
  JObj (map (fun i => (ex_key i, if Nat.eqb i 7 then JArr (map ex_elem (seq 0 70)) else ex_elem i)) (seq 0 40)).

Example ex_big_wf : wf_json ex_big.
Proof. apply wf_jsonb_sound. vm_compute. reflexivity. Qed.
Example ex_big_roundtrip :
  x_ParseJSONB {| vis := enc_jsonb ex_big; tail := [x01; x02] |} = JOk (x_expected ex_big).
Proof. vm_compute. reflexivity. Qed.
Example ex_null_wf : wf_json JNull.
Proof. apply wf_jsonb_sound. vm_compute. reflexivity. Qed.
Example ex_null_decode : x_DecodeType_jsonb (exact (enc_jsonb JNull)) = JOk VNil.
Proof. vm_compute. reflexivity. Qed.
