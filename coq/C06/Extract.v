Require Import PG.C06.JsonbModel PG.C06.JsonbSpec PG.C06.JsonbInst.
Require Extraction. Require ExtrOcamlBasic.
Extraction "model.ml" x_ParseJSONB x_parseJSONB x_DecodeType_jsonb x_decodeJEntry x_decodeJNumeric x_expected
  endOffset entryOffLen totalLen enc_jsonb enc_value jentries wf_jsonb fuel_for.
