(* Proofs for C06 (JSONB): decoding the encoder's image of any JSON document gives the document. *)
Require Import PG.Base.Bytes PG.Base.GoSlice PG.Base.Value.
Require Import PG.C06.JsonbModel PG.C06.JsonbSpec PG.C06.JsonbLib.

(* ---------- nested induction principle for json ---------- *)
Section JsonInd.
  Variable P : json -> Prop.
  Hypothesis HNull : P JNull.
  Hypothesis HBool : forall b, P (JBool b).
  Hypothesis HNum : forall n, P (JNum n).
  Hypothesis HStr : forall s, P (JStr s).
  Hypothesis HArr : forall l, Forall P l -> P (JArr l).
  Hypothesis HObj : forall l, Forall (fun kv : bytes * json => P (snd kv)) l -> P (JObj l).
  Fixpoint json_ind' (j : json) : P j :=
    match j with
    | JNull => HNull
    | JBool b => HBool b
    | JNum n => HNum n
    | JStr s => HStr s
    | JArr l => HArr l ((fix go (l : list json) : Forall P l :=
                           match l with [] => Forall_nil _ | x :: r => Forall_cons x (json_ind' x) (go r) end) l)
    | JObj l => HObj l ((fix go (l : list (bytes * json)) : Forall (fun kv => P (snd kv)) l :=
                           match l with [] => Forall_nil _ | kv :: r => Forall_cons kv (json_ind' (snd kv)) (go r) end) l)
    end.
End JsonInd.

(* ---------- the encoder, unfolded ---------- *)
Definition body_arr (base : Z) (l : list json) : bytes :=
  enc_container JB_FARRAY (Z.of_nat (length l)) (enc_items (base + 4 + 4 * Z.of_nat (length l)) l).
Definition body_obj (base : Z) (l : list (bytes * json)) : bytes :=
  enc_container JB_FOBJECT (Z.of_nat (length l))
    (enc_keys l ++ enc_vals (base + 4 + 8 * Z.of_nat (length l) + total (enc_keys l)) l).

Lemma enc_value_arr off l :
  enc_value off (JArr l) = (JENTRY_ISCONTAINER, pad4 off ++ body_arr (off + blen (pad4 off)) l).
Proof. reflexivity. Qed.
Lemma enc_value_obj off l :
  enc_value off (JObj l) = (JENTRY_ISCONTAINER, pad4 off ++ body_obj (off + blen (pad4 off)) l).
Proof. reflexivity. Qed.
Lemma enc_items_cons o x r :
  enc_items o (x :: r) = enc_value o x :: enc_items (o + blen (snd (enc_value o x))) r.
Proof. reflexivity. Qed.
Lemma enc_vals_cons o kv r :
  enc_vals o (kv :: r) = enc_value o (snd kv) :: enc_vals (o + blen (snd (enc_value o (snd kv)))) r.
Proof. reflexivity. Qed.

Lemma pad4_len off : blen (pad4 off) = (- off) mod 4.
Proof. unfold pad4. rewrite zeros_len; lia. Qed.
#[export] Hint Rewrite pad4_len : blen.

Lemma enc_container_len flags n its :
  blen (enc_container flags n its) = 4 + 4 * Z.of_nat (length its) + total its.
Proof. unfold enc_container. bl. lia. Qed.

Lemma enc_value_ty off j : ty_ok (fst (enc_value off j)).
Proof.
  destruct j as [| [|] | n | s | l | l]; try rewrite enc_value_arr; try rewrite enc_value_obj;
    cbn [enc_value fst]; unfold ty_ok, JENTRY_ISNULL, JENTRY_ISBOOL_TRUE, JENTRY_ISBOOL_FALSE, JENTRY_ISNUMERIC,
    JENTRY_ISSTRING, JENTRY_ISCONTAINER; lia.
Qed.

Lemma enc_items_length l : forall o, length (enc_items o l) = length l.
Proof. induction l as [|x r IH]; intros o; [reflexivity|]. rewrite enc_items_cons. cbn [length]. rewrite IH. reflexivity. Qed.
Lemma enc_vals_length l : forall o, length (enc_vals o l) = length l.
Proof. induction l as [|x r IH]; intros o; [reflexivity|]. rewrite enc_vals_cons. cbn [length]. rewrite IH. reflexivity. Qed.
Lemma enc_keys_length l : length (enc_keys l) = length l.
Proof. unfold enc_keys. apply map_length. Qed.

Lemma enc_items_at l : forall o k, (k < length l)%nat ->
  item_at (enc_items o l) k = enc_value (o + tot (enc_items o l) k) (nth k l JNull).
Proof.
  induction l as [|x r IH]; intros o k Hk; cbn [length] in Hk; [lia|].
  rewrite enc_items_cons. destruct k as [|k].
  - rewrite item_at_0, tot_0. cbn [nth]. f_equal. lia.
  - rewrite item_at_S, tot_cons. cbn [nth]. rewrite IH by lia. f_equal. lia.
Qed.
Lemma enc_vals_at l : forall o k, (k < length l)%nat ->
  item_at (enc_vals o l) k = enc_value (o + tot (enc_vals o l) k) (snd (nth k l ([], JNull))).
Proof.
  induction l as [|x r IH]; intros o k Hk; cbn [length] in Hk; [lia|].
  rewrite enc_vals_cons. destruct k as [|k].
  - rewrite item_at_0, tot_0. cbn [nth]. f_equal. lia.
  - rewrite item_at_S, tot_cons. cbn [nth]. rewrite IH by lia. f_equal. lia.
Qed.
Lemma enc_keys_at l k : (k < length l)%nat ->
  item_at (enc_keys l) k = (JENTRY_ISSTRING, fst (nth k l ([], JNull))).
Proof.
  revert k. induction l as [|x r IH]; intros k Hk; cbn [length] in Hk; [lia|].
  unfold enc_keys in *. cbn [map]. destruct k as [|k].
  - rewrite item_at_0. reflexivity.
  - rewrite item_at_S. cbn [nth]. apply IH. lia.
Qed.

Lemma enc_items_ty l : forall o, Forall (fun e : item => ty_ok (fst e)) (enc_items o l).
Proof. induction l as [|x r IH]; intros o; [constructor|]. rewrite enc_items_cons. constructor; [apply enc_value_ty|apply IH]. Qed.
Lemma enc_vals_ty l : forall o, Forall (fun e : item => ty_ok (fst e)) (enc_vals o l).
Proof. induction l as [|x r IH]; intros o; [constructor|]. rewrite enc_vals_cons. constructor; [apply enc_value_ty|apply IH]. Qed.
Lemma enc_keys_ty l : Forall (fun e : item => ty_ok (fst e)) (enc_keys l).
Proof. unfold enc_keys. induction l as [|x r IH]; cbn [map]; constructor; auto. cbn [fst]. unfold ty_ok, JENTRY_ISSTRING. lia. Qed.

(* item_at / tot on an append *)
Lemma item_at_app_l (a b : list item) k : (k < length a)%nat -> item_at (a ++ b) k = item_at a k.
Proof. intros. unfold item_at. apply app_nth1. exact H. Qed.
Lemma item_at_app_r (a b : list item) k : item_at (a ++ b) (length a + k) = item_at b k.
Proof. unfold item_at. rewrite app_nth2 by lia. f_equal. lia. Qed.
Lemma tot_app_l (a b : list item) k : (k <= length a)%nat -> tot (a ++ b) k = tot a k.
Proof. intros. unfold tot. rewrite firstn_app. replace (k - length a)%nat with 0%nat by lia. cbn [firstn]. rewrite app_nil_r. reflexivity. Qed.
Lemma tot_app_r (a b : list item) k : tot (a ++ b) (length a + k) = total a + tot b k.
Proof.
  unfold tot. rewrite firstn_app. rewrite firstn_all2 by lia. replace (length a + k - length a)%nat with k by lia.
  apply total_app.
Qed.

(* counts_ok, unfolded *)
Lemma counts_ok_arr l : counts_ok (JArr l) <-> Z.of_nat (length l) <= 10000 /\ Forall counts_ok l.
Proof.
  cbn [counts_ok]. split; intros [H1 H2]; split; auto.
  - clear H1. induction l as [|x r IH]; constructor; destruct H2; auto.
  - clear H1. induction l as [|x r IH]; [exact I|]. inversion H2; subst. split; [assumption|]. apply IH. assumption.
Qed.
Lemma counts_ok_obj l : counts_ok (JObj l) <-> Z.of_nat (length l) <= 10000 /\ Forall (fun kv : bytes * json => counts_ok (snd kv)) l.
Proof.
  cbn [counts_ok]. split; intros [H1 H2]; split; auto.
  - clear H1. induction l as [|x r IH]; constructor; destruct H2; auto.
  - clear H1. induction l as [|x r IH]; [exact I|]. inversion H2; subst. split; [assumption|]. apply IH. assumption.
Qed.

Lemma skipn_nth_cons {A} (l : list A) (d : A) i : (i < length l)%nat -> skipn i l = nth i l d :: skipn (S i) l.
Proof.
  revert i. induction l as [|x r IH]; intros i Hi; cbn [length] in Hi; [lia|].
  destruct i as [|i]; [reflexivity|]. cbn [skipn nth]. apply IH. lia.
Qed.

Section Main.
Variable DecodeNumeric : bytes -> gval.

(* ---------- header and entry table of an encoder-written container ---------- *)
Lemma parse_body_enc rec s flags n its (isObj isScalar : bool) :
  vis s = enc_container flags n its ->
  items_ok its -> 0 <= n <= 10000 ->
  Z.of_nat (length its) = (if isObj then n * 2 else n) ->
  (flags = JB_FOBJECT /\ isObj = true /\ isScalar = false) \/
  (flags = JB_FARRAY /\ isObj = false /\ isScalar = false) \/
  (flags = JB_FARRAY + JB_FSCALAR /\ isObj = false /\ isScalar = true) ->
  parse_body DecodeNumeric rec s =
    (result <~ (if isObj
                then parseJSONBObject DecodeNumeric rec s (jentries 0 0 its) (4 + 4 * Z.of_nat (length its)) n
                else parseJSONBArray DecodeNumeric rec s (jentries 0 0 its) (4 + 4 * Z.of_nat (length its)) n) ;;
     if isScalar then match result with VList [x] => JOk (Some x) | _ => JOk (Some result) end
     else JOk (Some result)).
Proof.
  intros Hvis Hok Hn Hlen Hflags.
  assert (L : len s = 4 + 4 * Z.of_nat (length its) + total its).
  { unfold len. rewrite Hvis. apply enc_container_len. }
  pose proof (total_nonneg its) as Ht.
  assert (Hfl : 0 <= flags < 4294967296 - 268435456 /\ flags mod 268435456 = 0 /\
                (flags / 536870912 mod 2 = if isObj then 1 else 0) /\
                (flags / 1073741824 mod 2 = if isObj then 0 else 1) /\
                (flags / 268435456 mod 2 = if isScalar then 1 else 0)).
  { unfold JB_FOBJECT, JB_FARRAY, JB_FSCALAR in Hflags.
    destruct Hflags as [(-> & -> & ->) | [(-> & -> & ->) | (-> & -> & ->)]]; repeat split; try lia; reflexivity. }
  clear Hflags. destruct Hfl as (Hf0 & Hf1 & Hf2 & Hf3 & Hf4).
  assert (Hh : u32 s 0 = Ok (flags + n)).
  { unfold u32. apply uN_sub; try lia. rewrite Hvis. unfold enc_container. ssub. }
  assert (C : Z.land (flags + n) jbCMask = n) by (unfold jbCMask; rewrite land_offmask; lia).
  assert (O : (Z.land (flags + n) jbFObject =? 0) = negb isObj).
  { unfold jbFObject. rewrite land_bit29. destruct isObj; cbn [negb]; lia. }
  assert (A : (Z.land (flags + n) jbFArray =? 0) = isObj).
  { unfold jbFArray. rewrite land_bit30. destruct isObj; lia. }
  assert (Sc : (Z.land (flags + n) jbFScalar =? 0) = negb isScalar).
  { unfold jbFScalar. rewrite land_bit28. destruct isScalar; cbn [negb]; lia. }
  unfold parse_body.
  destruct (len s <? 4) eqn:E; [lia|]. clear E.
  rewrite Hh. cbn [lift jbind]. cbv zeta. rewrite C, O, A, Sc. rewrite !negb_involutive.
  assert (G : (negb isObj && isObj || (n >? 10000)) = false) by (destruct isObj; cbn; lia).
  rewrite G. clear G.
  rewrite <- Hlen.
  destruct (4 + Z.of_nat (length its) * 4 >? len s) eqn:E; [lia|]. clear E.
  rewrite Nat2Z.id. rewrite <- (jentries_length its 0 0).
  rewrite read_entries_at.
  - cbn [lift jbind]. rewrite (entries_offsets_ok its Hok). cbn [negb]. rewrite jentries_length.
    replace (4 + Z.of_nat (length its) * 4) with (4 + 4 * Z.of_nat (length its)) by lia.
    reflexivity.
  - rewrite Forall_forall. intros w Hw. apply (In_nth _ _ 0) in Hw. destruct Hw as (k & Hk & <-).
    rewrite jentries_length in Hk. apply entry_range; assumption.
  - lia.
  - rewrite jentries_length. lia.
  - rewrite jentries_length, Hvis. unfold enc_container. ssub.
Qed.

(* ---------- where a child's bytes sit in the container image ---------- *)
Lemma container_item_at s flags n its k :
  vis s = enc_container flags n its -> (k < length its)%nat ->
  let ds := 4 + 4 * Z.of_nat (length its) in
  ds + tot its k + blen (snd (item_at its k)) <= len s /\
  sub (vis s) (ds + tot its k) (ds + tot its k + blen (snd (item_at its k))) = snd (item_at its k).
Proof.
  intros Hvis Hk ds.
  pose proof (tot_S its k Hk) as HS. pose proof (tot_le_total its (S k)) as HT. pose proof (tot_nonneg its k) as H0.
  pose proof (blen_nonneg (snd (item_at its k))) as Hb.
  split.
  - unfold len. rewrite Hvis, enc_container_len. subst ds. lia.
  - replace (ds + tot its k + blen (snd (item_at its k))) with (ds + tot its (S k)) by lia.
    rewrite Hvis. unfold enc_container. subst ds. ssub.
    rewrite <- (data_area_at its k Hk). f_equal; bl; lia.
Qed.

(* ---------- parseJSONBArray's loop ---------- *)
Lemma arr_loop_ok rec s its (vals : list gval) ds :
  items_ok its -> length vals = length its ->
  (forall k, (k < length its)%nat ->
     decodeJEntry DecodeNumeric rec s (ds + (0 + tot its k)) (blen (snd (item_at its k))) (nth k (jentries 0 0 its) 0)
     = JOk (nth k vals VNil)) ->
  forall c i, (i + c = length its)%nat ->
  arr_loop DecodeNumeric rec s (jentries 0 0 its) ds c (Z.of_nat i) = JOk (skipn i vals).
Proof.
  intros Hok Hlen Hdec. induction c as [|c IH]; intros i Hi.
  - cbn [arr_loop]. rewrite skipn_all2 by lia. reflexivity.
  - cbn [arr_loop]. rewrite (entryOffLen_spec its Hok) by lia. cbn [lift jbind].
    rewrite eidx_ok by (rewrite jentries_length; lia). cbn [lift jbind]. rewrite Nat2Z.id.
    rewrite Hdec by lia. cbn [jbind].
    replace (Z.of_nat i + 1) with (Z.of_nat (S i)) by lia. rewrite IH by lia. cbn [jbind].
    rewrite (skipn_nth_cons vals VNil i) by lia. reflexivity.
Qed.

(* ---------- parseJSONBObject's loop: keys are entries 0..n-1, values entries n..2n-1 ---------- *)
Lemma obj_loop_ok rec s flags its (n : nat) (keys : list bytes) (vals : list gval) :
  let ds := 4 + 4 * Z.of_nat (length its) in
  vis s = enc_container flags (Z.of_nat n) its ->
  items_ok its -> length its = (n + n)%nat -> length keys = n -> length vals = n ->
  (forall k, (k < n)%nat -> snd (item_at its k) = nth k keys []) ->
  (forall k, (k < n)%nat ->
     decodeJEntry DecodeNumeric rec s (ds + (0 + tot its (n + k))) (blen (snd (item_at its (n + k))))
                  (nth (n + k) (jentries 0 0 its) 0) = JOk (nth k vals VNil)) ->
  forall c i, (i + c = n)%nat ->
  obj_loop DecodeNumeric rec s (jentries 0 0 its) ds (Z.of_nat n) c (Z.of_nat i)
  = JOk (combine (skipn i keys) (skipn i vals)).
Proof.
  intros ds Hvis Hok Hlen Hlk Hlv Hkeys Hdec. induction c as [|c IH]; intros i Hi.
  - cbn [obj_loop]. rewrite !skipn_all2 by lia. reflexivity.
  - cbn [obj_loop]. rewrite (entryOffLen_spec its Hok) by lia. cbn [lift jbind].
    destruct (container_item_at s flags (Z.of_nat n) its i Hvis ltac:(lia)) as [Hle Hsub]. fold ds in Hle, Hsub.
    replace (ds + (0 + tot its i)) with (ds + tot its i) by lia.
    pose proof (tot_nonneg its i) as H0. pose proof (blen_nonneg (snd (item_at its i))) as Hb.
    destruct ((blen (snd (item_at its i)) >=? 0) && (ds + tot its i + blen (snd (item_at its i)) <=? len s)) eqn:E; [|lia]. clear E.
    destruct (slice_ok s (ds + tot its i) (ds + tot its i + blen (snd (item_at its i)))) as [r Hr];
      try (subst ds; lia). { pose proof (len_le_cap s). lia. }
    rewrite Hr. cbn [lift jbind].
    rewrite (slice_vis_within _ _ _ _ Hr Hle), Hsub, Hkeys by lia.
    replace (Z.of_nat n + Z.of_nat i) with (Z.of_nat (n + i)) by lia.
    rewrite (entryOffLen_spec its Hok) by lia. cbn [lift jbind].
    rewrite eidx_ok by (rewrite jentries_length; lia). cbn [lift jbind]. rewrite Nat2Z.id.
    rewrite Hdec by lia. cbn [jbind].
    replace (Z.of_nat i + 1) with (Z.of_nat (S i)) by lia. rewrite IH by lia. cbn [jbind].
    rewrite (skipn_nth_cons keys [] i), (skipn_nth_cons vals VNil i) by lia. reflexivity.
Qed.

(* ---------- slices ---------- *)
Lemma slice_within s lo hi : 0 <= lo -> lo <= hi -> hi <= len s ->
  exists r, slice s lo hi = Ok r /\ vis r = sub (vis s) lo hi.
Proof.
  intros. destruct (slice_ok s lo hi) as [r Hr]; try lia. { pose proof (len_le_cap s). lia. }
  exists r. split; [exact Hr|]. eapply slice_vis_within; eauto.
Qed.

(* a child that starts with alignment padding (numeric or container): what decodeJEntry slices *)
Lemma padded_slice s base o (payload : bytes) :
  0 <= base -> base mod 4 = 0 -> 0 <= o -> 0 < blen payload ->
  o + blen (pad4 (base + o) ++ payload) <= len s ->
  sub (vis s) o (o + blen (pad4 (base + o) ++ payload)) = pad4 (base + o) ++ payload ->
  go_align o 4 - o = blen (pad4 (base + o)) /\ go_align o 4 mod 4 = 0 /\
  ((go_align o 4 - o <? blen (pad4 (base + o) ++ payload)) &&
   (go_align o 4 + blen (pad4 (base + o) ++ payload) - (go_align o 4 - o) <=? len s)) = true /\
  exists r, slice s (go_align o 4) (go_align o 4 + blen (pad4 (base + o) ++ payload) - (go_align o 4 - o)) = Ok r /\
            vis r = payload.
Proof.
  intros Hb Hbm Ho Hp Hlen Hsub.
  assert (Ha : go_align o 4 = align o 4) by (apply go_align_4; lia).
  assert (Hpad : go_align o 4 - o = blen (pad4 (base + o))).
  { rewrite Ha, pad4_len. unfold align. change (4 <=? 1) with false. cbv iota. lia. }
  assert (Hm : go_align o 4 mod 4 = 0) by (rewrite Ha; apply align_mod; lia).
  pose proof (blen_nonneg (pad4 (base + o))) as Hp0.
  rewrite blen_app in *.
  split; [exact Hpad|]. split; [exact Hm|]. split; [lia|].
  destruct (slice_within s (go_align o 4) (go_align o 4 + (blen (pad4 (base + o)) + blen payload) - (go_align o 4 - o)))
    as (r & Hr & Hv); try lia.
  exists r. split; [exact Hr|]. rewrite Hv.
  replace (go_align o 4) with (o + blen (pad4 (base + o))) by lia.
  replace (o + blen (pad4 (base + o)) + (blen (pad4 (base + o)) + blen payload) - (o + blen (pad4 (base + o)) - o))
    with (o + (blen (pad4 (base + o)) + blen payload)) by lia.
  rewrite <- (sub_sub (vis s) o (o + (blen (pad4 (base + o)) + blen payload))) by lia.
  rewrite Hsub. rewrite sub_app_r by lia. apply sub_exact; lia.
Qed.

(* ---------- decodeJNumeric on the numeric datum jsonb embeds ---------- *)
Lemma decodeJNumeric_ok r n : vis r = numeric_varlena n -> blen n + 4 < 268435456 ->
  decodeJNumeric DecodeNumeric r = Ok (DecodeNumeric n).
Proof.
  intros Hv Hn. pose proof (blen_nonneg n) as H0.
  assert (L : len r = 4 + blen n) by (unfold len; rewrite Hv; unfold numeric_varlena; bl; lia).
  unfold decodeJNumeric. destruct (len r <? 4) eqn:E; [lia|]. clear E.
  assert (Hh : u32 r 0 = Ok ((blen n + 4) * 4)).
  { unfold u32. apply uN_sub; try lia. rewrite Hv. unfold numeric_varlena. ssub. }
  rewrite Hh. cbn [bind]. rewrite land_3.
  destruct ((blen n + 4) * 4 mod 4 =? 0) eqn:E; [|lia]. clear E.
  rewrite Z.shiftr_div_pow2 by lia. change (2 ^ 2) with 4.
  replace ((blen n + 4) * 4 / 4) with (blen n + 4) by lia.
  destruct (blen n + 4 >? 4) eqn:E1.
  - destruct (len r >=? blen n + 4) eqn:E2; [|lia]. cbn [andb].
    destruct (slice_within r 4 (blen n + 4)) as (c & Hc & Hvc); try lia.
    rewrite Hc. cbn [bind]. rewrite Hvc, Hv. unfold numeric_varlena.
    replace (sub (le_enc 4 ((blen n + 4) * 4) ++ n) 4 (blen n + 4)) with n; [reflexivity|].
    symmetry. ssub.
  - cbn [andb bind]. assert (blen n = 0) by lia. destruct n; [reflexivity|]. rewrite blen_cons in *. pose proof (blen_nonneg n). lia.
Qed.

Notation exp := (expected DecodeNumeric).
Notation PJ := (ParseJSONB_f DecodeNumeric).

(* ---------- the induction predicate: a child decodes in place ---------- *)
(* [base] = offset of the enclosing container image in the varlena data (a multiple of 4),
   [o] = offset of the child inside that image, [f] = fuel of the recursive ParseJSONB. *)
Definition P (j : json) : Prop :=
  forall (f : nat) (s : gslice) (base o je : Z),
    0 <= base -> base mod 4 = 0 -> 0 <= o ->
    counts_ok j ->
    blen (snd (enc_value (base + o) j)) < 268435456 ->
    o + blen (snd (enc_value (base + o) j)) <= len s ->
    sub (vis s) o (o + blen (snd (enc_value (base + o) j))) = snd (enc_value (base + o) j) ->
    Z.land je jeTypeMask = fst (enc_value (base + o) j) ->
    blen (snd (enc_value (base + o) j)) <= Z.of_nat f ->
    decodeJEntry DecodeNumeric (PJ f) s o (blen (snd (enc_value (base + o) j))) je = JOk (exp j).

Lemma P_null : P JNull.
Proof. intros f s base o je _ _ _ _ _ _ _ Hty _. cbn [enc_value fst snd] in *. unfold decodeJEntry. rewrite Hty. reflexivity. Qed.
Lemma P_bool b : P (JBool b).
Proof. intros f s base o je _ _ _ _ _ _ _ Hty _. destruct b; cbn [enc_value fst snd] in *; unfold decodeJEntry; rewrite Hty; reflexivity. Qed.
Lemma P_str x : P (JStr x).
Proof.
  intros f s base o je _ _ Ho _ _ Hlen Hsub Hty _. cbn [enc_value fst snd] in *. unfold decodeJEntry. rewrite Hty.
  change (JENTRY_ISSTRING =? jeString) with true. cbv iota zeta.
  pose proof (blen_nonneg x). destruct ((blen x >=? 0) && (o + blen x <=? len s)) eqn:E; [|lia]. clear E.
  destruct (slice_within s o (o + blen x)) as (r & Hr & Hv); try lia.
  rewrite Hr. cbn [lift jbind]. rewrite Hv, Hsub. reflexivity.
Qed.
Lemma P_num n : P (JNum n).
Proof.
  intros f s base o je Hb Hbm Ho _ Hlt Hlen Hsub Hty _. cbn [enc_value fst snd] in *.
  assert (Hnv : blen (numeric_varlena n) = 4 + blen n) by (unfold numeric_varlena; bl; lia).
  pose proof (blen_nonneg n) as Hn0. pose proof (blen_nonneg (pad4 (base + o))) as Hp0.
  destruct (padded_slice s base o (numeric_varlena n)) as (Hpad & Hm & G & r & Hr & Hv); try assumption; try lia.
  unfold decodeJEntry. rewrite Hty.
  change (JENTRY_ISNUMERIC =? jeString) with false. change (JENTRY_ISNUMERIC =? jeNumeric) with true. cbv iota zeta.
  rewrite G, Hr. cbn [lift jbind]. rewrite (decodeJNumeric_ok r n Hv); [reflexivity|].
  rewrite blen_app in Hlt. lia.
Qed.

(* ---------- a whole array container ---------- *)
Lemma parse_arr f r base l :
  Forall P l -> 0 <= base -> base mod 4 = 0 -> vis r = body_arr base l ->
  counts_ok (JArr l) -> blen (body_arr base l) < 268435456 -> blen (body_arr base l) <= Z.of_nat (S f) ->
  parse_body DecodeNumeric (PJ f) r = JOk (Some (exp (JArr l))).
Proof.
  intros HF Hb Hbm Hv Hc Hlt Hf. unfold body_arr in *.
  set (n := length l) in *. set (its := enc_items (base + 4 + 4 * Z.of_nat n) l) in *.
  apply counts_ok_arr in Hc. destruct Hc as [Hc1 Hc2]. fold n in Hc1.
  assert (Hli : length its = n) by (unfold its; apply enc_items_length).
  rewrite enc_container_len, Hli in Hlt, Hf.
  pose proof (total_nonneg its) as Ht0.
  assert (Hok : items_ok its) by (split; [apply enc_items_ty|lia]).
  rewrite (parse_body_enc (PJ f) r JB_FARRAY (Z.of_nat n) its false false); auto; try lia.
  unfold parseJSONBArray. rewrite Nat2Z.id.
  rewrite (arr_loop_ok (PJ f) r its (map exp l) (4 + 4 * Z.of_nat (length its)) Hok) with (i := 0%nat);
    [cbn [jbind skipn]; reflexivity| rewrite map_length; lia | | lia].
  intros k Hk. rewrite Hli in Hk.
  destruct (container_item_at r JB_FARRAY (Z.of_nat n) its k Hv ltac:(lia)) as [Hle Hsub].
  rewrite Hli in *.
  change VNil with (exp JNull). rewrite map_nth.
  assert (HP : P (nth k l JNull)) by (rewrite Forall_forall in HF; apply HF, nth_In; exact Hk).
  assert (Hck : counts_ok (nth k l JNull)) by (rewrite Forall_forall in Hc2; apply Hc2, nth_In; exact Hk).
  pose proof (tot_nonneg its k) as Hk0. pose proof (items_ok_len its k Hok ltac:(lia)) as Hkl.
  pose proof (tot_S its k ltac:(lia)) as HS. pose proof (tot_le_total its (S k)) as HT.
  assert (E : item_at its k = enc_value (base + (4 + 4 * Z.of_nat n + (0 + tot its k))) (nth k l JNull)).
  { unfold its at 1. rewrite enc_items_at by exact Hk. fold its. f_equal. lia. }
  replace (4 + 4 * Z.of_nat n + tot its k) with (4 + 4 * Z.of_nat n + (0 + tot its k)) in Hle, Hsub by lia.
  rewrite E in *.
  apply HP; auto; try lia.
  rewrite <- E. apply entry_ty; [exact Hok|lia].
Qed.

Lemma P_arr l : Forall P l -> P (JArr l).
Proof.
  intros HF f s base o je Hb Hbm Ho Hc. rewrite enc_value_arr. cbn [fst snd]. intros Hlt Hlen Hsub Hty Hf.
  pose proof (blen_nonneg (pad4 (base + o))) as Hp0.
  assert (H4 : 4 <= blen (body_arr (base + o + blen (pad4 (base + o))) l)).
  { unfold body_arr. rewrite enc_container_len. pose proof (total_nonneg (enc_items (base + o + blen (pad4 (base + o)) + 4 + 4 * Z.of_nat (length l)) l)). lia. }
  destruct (padded_slice s base o (body_arr (base + o + blen (pad4 (base + o))) l)) as (Hpad & Hm & G & r & Hr & Hv);
    try assumption; try lia.
  unfold decodeJEntry. rewrite Hty.
  change (JENTRY_ISCONTAINER =? jeString) with false. change (JENTRY_ISCONTAINER =? jeNumeric) with false.
  change (JENTRY_ISCONTAINER =? jeContainer) with true. cbv iota zeta.
  rewrite G, Hr. cbn [lift jbind].
  rewrite blen_app in Hlt, Hf.
  destruct f as [|f]; [lia|].
  unfold ParseJSONB_f at 1. cbn [parseJSONB_f].
  change (fun s0 : gslice => r0 <~ parseJSONB_f DecodeNumeric f s0;; JOk (unopt r0)) with (PJ f).
  rewrite (parse_arr f r (base + o + blen (pad4 (base + o))) l); auto; try lia.


Qed.

(* ---------- a whole object container ---------- *)
Lemma combine_map_pairs (l : list (bytes * json)) :
  combine (map fst l) (map (fun kv : bytes * json => exp (snd kv)) l)
  = map (fun kv : bytes * json => (fst kv, exp (snd kv))) l.
Proof. induction l as [|x r IH]; [reflexivity|]. cbn [map combine]. rewrite IH. reflexivity. Qed.

Lemma enc_keys_total_at l k : (k <= length l)%nat -> tot (enc_keys l) k <= total (enc_keys l).
Proof. intros. apply tot_le_total. Qed.

Lemma parse_obj f r base l :
  Forall (fun kv : bytes * json => P (snd kv)) l -> 0 <= base -> base mod 4 = 0 -> vis r = body_obj base l ->
  counts_ok (JObj l) -> blen (body_obj base l) < 268435456 -> blen (body_obj base l) <= Z.of_nat (S f) ->
  parse_body DecodeNumeric (PJ f) r = JOk (Some (exp (JObj l))).
Proof.
  intros HF Hb Hbm Hv Hc Hlt Hf. unfold body_obj in *.
  set (n := length l) in *. set (ks := enc_keys l) in *.
  set (vs := enc_vals (base + 4 + 8 * Z.of_nat n + total ks) l) in *.
  apply counts_ok_obj in Hc. destruct Hc as [Hc1 Hc2]. fold n in Hc1.
  assert (Hlk : length ks = n) by (unfold ks; apply enc_keys_length).
  assert (Hlvs : length vs = n) by (unfold vs; apply enc_vals_length).
  assert (Hli : length (ks ++ vs) = (n + n)%nat) by (rewrite app_length; lia).
  rewrite enc_container_len, Hli in Hlt, Hf.
  pose proof (total_nonneg (ks ++ vs)) as Ht0.
  assert (Hok : items_ok (ks ++ vs)).
  { split; [|lia]. apply Forall_app. split; [apply enc_keys_ty|apply enc_vals_ty]. }
  rewrite (parse_body_enc (PJ f) r JB_FOBJECT (Z.of_nat n) (ks ++ vs) true false); auto; try lia.
  unfold parseJSONBObject. rewrite Nat2Z.id.
  rewrite (obj_loop_ok (PJ f) r JB_FOBJECT (ks ++ vs) n (map fst l) (map (fun kv : bytes * json => exp (snd kv)) l))
    with (i := 0%nat); auto; try (rewrite map_length; reflexivity).
  - cbn [jbind skipn]. rewrite combine_map_pairs. reflexivity.
  - (* keys *)
    intros k Hk. rewrite item_at_app_l by lia. unfold ks. rewrite enc_keys_at by exact Hk. cbn [snd].
    change (@nil byte) with (fst (@nil byte, JNull)). rewrite map_nth. reflexivity.
  - (* values *)
    intros k Hk.
    destruct (container_item_at r JB_FOBJECT (Z.of_nat n) (ks ++ vs) (n + k) Hv ltac:(lia)) as [Hle Hsub].
    rewrite Hli in *.
    change VNil with ((fun kv : bytes * json => exp (snd kv)) ([], JNull)). rewrite map_nth. cbv beta.
    assert (HP : P (snd (nth k l ([], JNull)))).
    { rewrite Forall_forall in HF. apply (HF (nth k l ([], JNull))), nth_In. exact Hk. }
    assert (Hck : counts_ok (snd (nth k l ([], JNull)))).
    { rewrite Forall_forall in Hc2. apply (Hc2 (nth k l ([], JNull))), nth_In. exact Hk. }
    pose proof (items_ok_len (ks ++ vs) (n + k) Hok ltac:(lia)) as Hkl.
    pose proof (tot_S (ks ++ vs) (n + k) ltac:(lia)) as HS. pose proof (tot_le_total (ks ++ vs) (S (n + k))) as HT.
    pose proof (tot_nonneg vs k) as Hk0. pose proof (total_nonneg ks) as Hks0.
    assert (Et : tot (ks ++ vs) (n + k) = total ks + tot vs k) by (rewrite <- Hlk; apply tot_app_r).
    assert (E : item_at (ks ++ vs) (n + k) =
                enc_value (base + (4 + 4 * Z.of_nat (n + n) + (0 + tot (ks ++ vs) (n + k)))) (snd (nth k l ([], JNull)))).
    { rewrite <- Hlk at 1. rewrite item_at_app_r. unfold vs at 1. rewrite enc_vals_at by exact Hk. fold vs.
      f_equal. rewrite Et. lia. }
    replace (4 + 4 * Z.of_nat (n + n) + tot (ks ++ vs) (n + k))
      with (4 + 4 * Z.of_nat (n + n) + (0 + tot (ks ++ vs) (n + k))) in Hle, Hsub by lia.
    rewrite E in *.
    apply HP; auto; try lia.
    rewrite <- E. apply entry_ty; [exact Hok|lia].

Qed.

Lemma P_obj l : Forall (fun kv : bytes * json => P (snd kv)) l -> P (JObj l).
Proof.
  intros HF f s base o je Hb Hbm Ho Hc. rewrite enc_value_obj. cbn [fst snd]. intros Hlt Hlen Hsub Hty Hf.
  pose proof (blen_nonneg (pad4 (base + o))) as Hp0.
  assert (H4 : 4 <= blen (body_obj (base + o + blen (pad4 (base + o))) l)).
  { unfold body_obj. rewrite enc_container_len.
    match goal with |- context [total (?a ++ ?b)] => pose proof (total_nonneg (a ++ b)) end. lia. }
  destruct (padded_slice s base o (body_obj (base + o + blen (pad4 (base + o))) l)) as (Hpad & Hm & G & r & Hr & Hv);
    try assumption; try lia.
  unfold decodeJEntry. rewrite Hty.
  change (JENTRY_ISCONTAINER =? jeString) with false. change (JENTRY_ISCONTAINER =? jeNumeric) with false.
  change (JENTRY_ISCONTAINER =? jeContainer) with true. cbv iota zeta.
  rewrite G, Hr. cbn [lift jbind].
  rewrite blen_app in Hlt, Hf.
  destruct f as [|f]; [lia|].
  unfold ParseJSONB_f at 1. cbn [parseJSONB_f].
  change (fun s0 : gslice => r0 <~ parseJSONB_f DecodeNumeric f s0;; JOk (unopt r0)) with (PJ f).
  rewrite (parse_obj f r (base + o + blen (pad4 (base + o))) l); auto; try lia.


Qed.

Theorem P_all : forall j, P j.
Proof. apply json_ind'; [apply P_null|apply P_bool|apply P_num|apply P_str|apply P_arr|apply P_obj]. Qed.

(* ---------- the root ---------- *)
Lemma parse_root_scalar f s j :
  vis s = enc_container (JB_FARRAY + JB_FSCALAR) 1 [enc_value 8 j] ->
  counts_ok j -> blen (vis s) < 268435456 -> blen (vis s) <= Z.of_nat (S f) ->
  parse_body DecodeNumeric (PJ f) s = JOk (Some (exp j)).
Proof.
  intros Hv Hc Hlt Hf. rewrite Hv, enc_container_len in Hlt, Hf. cbn [length] in Hlt, Hf.
  set (e := enc_value 8 j) in *.
  assert (Ht : total [e] = blen (snd e)) by (rewrite total_cons, total_nil; lia).
  pose proof (blen_nonneg (snd e)) as H0.
  assert (Hok : items_ok [e]).
  { split; [|lia]. constructor; [apply enc_value_ty|constructor]. }
  rewrite (parse_body_enc (PJ f) s (JB_FARRAY + JB_FSCALAR) 1 [e] false true); auto; try lia.
  unfold parseJSONBArray. change (Z.to_nat 1) with 1%nat.
  rewrite (arr_loop_ok (PJ f) s [e] [exp j] (4 + 4 * Z.of_nat (length [e])) Hok) with (i := 0%nat);
    [cbn [jbind skipn]; reflexivity| reflexivity | | reflexivity].
  intros k Hk. cbn [length] in Hk. assert (k = 0)%nat by lia. subst k.
  destruct (container_item_at s (JB_FARRAY + JB_FSCALAR) 1 [e] 0 Hv ltac:(cbn [length]; lia)) as [Hle Hsub].
  cbn [length nth] in *. rewrite tot_0 in *. rewrite item_at_0 in *.
  change (4 + 4 * Z.of_nat 1 + (0 + 0)) with (0 + 8). change (4 + 4 * Z.of_nat 1 + 0) with 8 in *.
  unfold e in *.
  change (enc_value 8 j) with (enc_value (0 + 8) j) in *.
  replace (0 + 8) with 8 at 1 by lia.
  apply (P_all j f s 0 8); auto; try lia.
  pose proof (entry_ty [enc_value (0 + 8) j] Hok 0 ltac:(cbn [length]; lia)) as Hty.
  rewrite item_at_0 in Hty. exact Hty.
Qed.

Definition is_container (j : json) : bool := match j with JArr _ | JObj _ => true | _ => false end.

Theorem parseJSONB_roundtrip j t :
  wf_json j -> parseJSONB DecodeNumeric {| vis := enc_jsonb j; tail := t |} = JOk (Some (exp j)).
Proof.
  intros [Hc Hlt]. unfold parseJSONB, fuel_for. cbn [parseJSONB_f].
  set (s := {| vis := enc_jsonb j; tail := t |}).
  change (fun s0 : gslice => r0 <~ parseJSONB_f DecodeNumeric (Z.to_nat (len s)) s0;; JOk (unopt r0))
    with (PJ (Z.to_nat (len s))).
  assert (Hf : blen (vis s) <= Z.of_nat (S (Z.to_nat (len s)))) by (unfold len; lia).
  change (2 ^ 28) with 268435456 in Hlt.
  destruct j as [| b | n | x | l | l].
  - apply parse_root_scalar; auto.
  - apply parse_root_scalar; auto.
  - apply parse_root_scalar; auto.
  - apply parse_root_scalar; auto.
  - apply (parse_arr (Z.to_nat (len s)) s 0 l); auto; try lia.
    rewrite Forall_forall. intros x _. apply P_all.
  - apply (parse_obj (Z.to_nat (len s)) s 0 l); auto; try lia.
    rewrite Forall_forall. intros x _. apply P_all.
Qed.

Theorem ParseJSONB_roundtrip j t :
  wf_json j -> ParseJSONB DecodeNumeric {| vis := enc_jsonb j; tail := t |} = JOk (exp j).
Proof.
  intros H. unfold ParseJSONB, ParseJSONB_f. fold (parseJSONB DecodeNumeric {| vis := enc_jsonb j; tail := t |}).
  rewrite parseJSONB_roundtrip by exact H. reflexivity.
Qed.

Lemma enc_jsonb_len4 j : 4 <= blen (enc_jsonb j).
Proof.
  destruct j as [| b | n | x | l | l]; unfold enc_jsonb; try (rewrite enc_container_len;
    match goal with |- context [total ?x] => pose proof (total_nonneg x) end; lia).
  - rewrite enc_value_arr. cbn [snd]. unfold body_arr. rewrite blen_app, enc_container_len.
    match goal with |- context [total ?x] => pose proof (total_nonneg x) end. pose proof (blen_nonneg (pad4 0)). lia.
  - rewrite enc_value_obj. cbn [snd]. unfold body_obj. rewrite blen_app, enc_container_len.
    match goal with |- context [total (?a ++ ?b)] => pose proof (total_nonneg (a ++ b)) end. pose proof (blen_nonneg (pad4 0)). lia.
Qed.

Variable safeString : bytes -> bytes.
Theorem DecodeType_jsonb_roundtrip j t :
  wf_json j -> DecodeType_jsonb DecodeNumeric safeString {| vis := enc_jsonb j; tail := t |} = JOk (exp j).
Proof.
  intros H. unfold DecodeType_jsonb. pose proof (enc_jsonb_len4 j).
  destruct (len {| vis := enc_jsonb j; tail := t |} =? 0) eqn:E; [unfold len in E; cbn [vis] in E; lia|].
  rewrite parseJSONB_roundtrip by exact H. reflexivity.
Qed.
End Main.
