(* Model of pgdump/jsonb.go:1-174 (ParseJSONB, parseJSONB, parseJSONBObject, parseJSONBArray, totalLen,
   entryOffLen, endOffset, decodeJEntry, decodeJNumeric) and of the OidJSONB branch of DecodeType
   (types.go), as they are in the worktree AFTER the fix: commits for D20, D21, D22, the
   negative-length guard (kLen >= 0 / length >= 0) and the rejection of JEntry arrays whose stored
   end offsets run backwards (offsets_ok).

   Go []byte = gslice; Go []uint32 (the JEntry array) = list Z with a partial index [eidx];
   interface{} results = gval.  DecodeNumeric (property C05) and safeString (utf8 scrubbing, not
   logic) are Section variables.  The recursion ParseJSONB -> decodeJEntry -> ParseJSONB runs on
   explicit fuel; running out of fuel is the distinct result [JFuel], which fuel > len(data)
   excludes (JsonbProofs.parseJSONB_fuel_enough / the roundtrip theorem). *)
Require Import PG.Base.Bytes PG.Base.GoSlice PG.Base.Value.

(* result of a model function: value, Go panic, or model fuel exhausted *)
Inductive jres (A : Type) := JOk (a : A) | JPanic | JFuel.
Arguments JOk {A}. Arguments JPanic {A}. Arguments JFuel {A}.
Definition jbind {A B} (r : jres A) (f : A -> jres B) : jres B :=
  match r with JOk a => f a | JPanic => JPanic | JFuel => JFuel end.
Definition lift {A} (r : res A) : jres A := match r with Ok a => JOk a | Panic => JPanic end.
Notation "x <~ e ;; k" := (jbind e (fun x => k)) (at level 61, e at next level, right associativity).
Notation "' p <~ e ;; k" := (jbind e (fun x => let p := x in k))
  (at level 61, p pattern, e at next level, right associativity).

(* jsonb.go:6-19 *)
Definition jbCMask : Z := 268435455.      (* 0x0FFFFFFF *)
Definition jbFObject : Z := 536870912.    (* 0x20000000 *)
Definition jbFArray : Z := 1073741824.    (* 0x40000000 *)
Definition jbFScalar : Z := 268435456.    (* 0x10000000 *)
Definition jeOffMask : Z := 268435455.    (* 0x0FFFFFFF *)
Definition jeHasOff : Z := 2147483648.    (* 0x80000000 *)
Definition jeTypeMask : Z := 1879048192.  (* 0x70000000, literal in decodeJEntry *)
Definition jeString : Z := 0.
Definition jeNumeric : Z := 268435456.    (* 0x10000000 *)
Definition jeBoolFalse : Z := 536870912.  (* 0x20000000 *)
Definition jeBoolTrue : Z := 805306368.   (* 0x30000000 *)
Definition jeNull : Z := 1073741824.      (* 0x40000000 *)
Definition jeContainer : Z := 1342177280. (* 0x50000000 *)

(* entries[i] on a []uint32 *)
Definition eidx (entries : list Z) (i : Z) : res Z :=
  if (0 <=? i) && (i <? Z.of_nat (length entries)) then Ok (nth (Z.to_nat i) entries 0) else Panic.

(* ---- endOffset (jsonb.go endOffset) ---- *)
(* for j := lo; j < lo+n; j++ { sum += int(entries[j] & jeOffMask) } *)
Fixpoint sum_lens (entries : list Z) (lo : Z) (n : nat) : res Z :=
  match n with
  | O => Ok 0
  | S k => e <- eidx entries lo ;; r <- sum_lens entries (lo + 1) k ;; Ok (Z.land e jeOffMask + r)
  end.
(* for i := idx; i >= 0; i-- { if entries[i]&jeHasOff != 0 { base := ...; for j := i+1; j <= idx; j++ {...}; return base } }
   then: sum of entries[0..idx].   [n] = number of backward iterations left (= i + 1). *)
Fixpoint endOffset_back (entries : list Z) (idx : Z) (n : nat) (i : Z) : res Z :=
  match n with
  | O => sum_lens entries 0 (Z.to_nat (idx + 1))
  | S k =>
      e <- eidx entries i ;;
      if negb (Z.land e jeHasOff =? 0)
      then r <- sum_lens entries (i + 1) (Z.to_nat (idx - i)) ;; Ok (Z.land e jeOffMask + r)
      else endOffset_back entries idx k (i - 1)
  end.
Definition endOffset (entries : list Z) (idx : Z) : res Z :=
  endOffset_back entries idx (Z.to_nat (idx + 1)) idx.

(* jsonb.go totalLen *)
Definition totalLen (entries : list Z) : res Z :=
  if Z.of_nat (length entries) =? 0 then Ok 0 else endOffset entries (Z.of_nat (length entries) - 1).

(* jsonb.go entryOffLen *)
Definition entryOffLen (entries : list Z) (idx base : Z) : res (Z * Z) :=
  je <- eidx entries idx ;;
  let val := Z.land je jeOffMask in
  start <- (if idx >? 0 then endOffset entries (idx - 1) else Ok 0) ;;
  if negb (Z.land je jeHasOff =? 0) then Ok (base + start, val - start) else Ok (base + start, val).

Section Model.
Variable DecodeNumeric : bytes -> gval.   (* C05 *)
Variable safeString : bytes -> bytes.     (* types.go safeString: utf8.Valid / ToValidUTF8 *)

(* jsonb.go decodeJNumeric: strips the numeric's own varlena header (4-byte or 1-byte form) *)
Definition decodeJNumeric (data : gslice) : res gval :=
  if len data <? 4 then Ok VNil else
  hdr <- u32 data 0 ;;
  content <-
    (if Z.land hdr 3 =? 0 then
       let n := Z.shiftr hdr 2 in
       if (n >? 4) && (len data >=? n) then c <- slice data 4 n ;; Ok (vis c) else Ok []
     else
       let n := Z.shiftr (Z.land hdr 255) 1 in
       if (n >? 1) && (len data >=? n) then c <- slice data 1 n ;; Ok (vis c) else Ok []) ;;
  Ok (DecodeNumeric content).

(* jsonb.go decodeJEntry; [rec] = the exported ParseJSONB (nil on failure) *)
Definition decodeJEntry (rec : gslice -> jres gval) (data : gslice) (off length je : Z) : jres gval :=
  let ty := Z.land je jeTypeMask in
  if ty =? jeString then
    if (length >=? 0) && (off + length <=? len data)
    then s <~ lift (slice data off (off + length)) ;; JOk (VStr (vis s))
    else JOk VNil
  else if ty =? jeNumeric then
    let aligned := go_align off 4 in
    let pad := aligned - off in
    if (pad <? length) && (aligned + length - pad <=? len data)
    then s <~ lift (slice data aligned (aligned + length - pad)) ;; lift (decodeJNumeric s)
    else JOk VNil
  else if ty =? jeContainer then
    let aligned := go_align off 4 in
    let pad := aligned - off in
    if (pad <? length) && (aligned + length - pad <=? len data)
    then s <~ lift (slice data aligned (aligned + length - pad)) ;; rec s
    else JOk VNil
  else if ty =? jeNull then JOk VNil
  else if ty =? jeBoolFalse then JOk (VBool false)
  else if ty =? jeBoolTrue then JOk (VBool true)
  else JOk VNil.

(* jsonb.go parseJSONBArray: for i := 0; i < count; i++ *)
Fixpoint arr_loop (rec : gslice -> jres gval) (data : gslice) (entries : list Z) (dataStart : Z)
         (n : nat) (i : Z) : jres (list gval) :=
  match n with
  | O => JOk []
  | S k =>
      '(off, length) <~ lift (entryOffLen entries i 0) ;;
      je <~ lift (eidx entries i) ;;
      v <~ decodeJEntry rec data (dataStart + off) length je ;;
      rest <~ arr_loop rec data entries dataStart k (i + 1) ;;
      JOk (v :: rest)
  end.
Definition parseJSONBArray rec data entries dataStart count : jres gval :=
  l <~ arr_loop rec data entries dataStart (Z.to_nat count) 0 ;; JOk (VList l).

(* jsonb.go parseJSONBObject (after fix D21): ONE entry array, key i at index i, value i at count+i *)
Fixpoint obj_loop (rec : gslice -> jres gval) (data : gslice) (entries : list Z) (dataStart count : Z)
         (n : nat) (i : Z) : jres (list (bytes * gval)) :=
  match n with
  | O => JOk []
  | S k =>
      '(kOff, kLen) <~ lift (entryOffLen entries i 0) ;;
      key <~ (if (kLen >=? 0) && (dataStart + kOff + kLen <=? len data)
              then s <~ lift (slice data (dataStart + kOff) (dataStart + kOff + kLen)) ;; JOk (vis s)
              else JOk []) ;;
      '(vOff, vLen) <~ lift (entryOffLen entries (count + i) 0) ;;
      je <~ lift (eidx entries (count + i)) ;;
      v <~ decodeJEntry rec data (dataStart + vOff) vLen je ;;
      rest <~ obj_loop rec data entries dataStart count k (i + 1) ;;
      JOk ((key, v) :: rest)
  end.
Definition parseJSONBObject rec data entries dataStart count : jres gval :=
  m <~ obj_loop rec data entries dataStart count (Z.to_nat count) 0 ;; JOk (VMap m).

(* entries[i] = u32(data, 4+i*4) *)
Fixpoint read_entries (n : nat) (data : gslice) (off : Z) : res (list Z) :=
  match n with
  | O => Ok []
  | S k => e <- u32 data off ;; r <- read_entries k data (off + 4) ;; Ok (e :: r)
  end.

(* jsonb.go parseJSONB, the walk over the JEntry array after it has been read:
   run := 0; for _, e := range entries { v := int(e & jeOffMask);
     if e&jeHasOff != 0 { if v < run { return nil, false }; run = v } else { run += v } }
   [offsets_ok entries run] = false iff the walk hits the return: a stored end offset below the
   running end offset (kept exactly as endOffset computes it). *)
Fixpoint offsets_ok (entries : list Z) (run : Z) : bool :=
  match entries with
  | [] => true
  | e :: r =>
      let v := Z.land e jeOffMask in
      if negb (Z.land e jeHasOff =? 0)
      then (if v <? run then false else offsets_ok r v)
      else offsets_ok r (run + v)
  end.

(* body of parseJSONB: (value, ok) as option *)
Definition parse_body (rec : gslice -> jres gval) (data : gslice) : jres (option gval) :=
  if len data <? 4 then JOk None else
  header <~ lift (u32 data 0) ;;
  let count := Z.land header jbCMask in
  let isObj := negb (Z.land header jbFObject =? 0) in
  let isArr := negb (Z.land header jbFArray =? 0) in
  if (negb isObj && negb isArr) || (count >? 10000) then JOk None else
  let numEntries := if isObj then count * 2 else count in
  if 4 + numEntries * 4 >? len data then JOk None else
  entries <~ lift (read_entries (Z.to_nat numEntries) data 4) ;;
  let dataStart := 4 + numEntries * 4 in
  if negb (offsets_ok entries 0) then JOk None else
  result <~ (if isObj then parseJSONBObject rec data entries dataStart count
             else parseJSONBArray rec data entries dataStart count) ;;
  if negb (Z.land header jbFScalar =? 0) then
    match result with
    | VList [x] => JOk (Some x)
    | _ => JOk (Some result)
    end
  else JOk (Some result).

Definition unopt (r : option gval) : gval := match r with Some v => v | None => VNil end.

(* parseJSONB (value, ok) and the exported ParseJSONB (value only), on fuel *)
Fixpoint parseJSONB_f (fuel : nat) (data : gslice) : jres (option gval) :=
  match fuel with
  | O => JFuel
  | S f => parse_body (fun s => r <~ parseJSONB_f f s ;; JOk (unopt r)) data
  end.
Definition ParseJSONB_f (fuel : nat) (data : gslice) : jres gval :=
  r <~ parseJSONB_f fuel data ;; JOk (unopt r).

(* fuel = len(data) + 1: every nested call is on a slice at least 4 bytes shorter *)
Definition fuel_for (data : gslice) : nat := S (Z.to_nat (len data)).
Definition parseJSONB (data : gslice) : jres (option gval) := parseJSONB_f (fuel_for data) data.
Definition ParseJSONB (data : gslice) : jres gval := ParseJSONB_f (fuel_for data) data.

(* types.go DecodeType, restricted to oid = OidJSONB (3802; not an array oid):
   len(data)==0 -> nil; parseJSONB ok -> value; else safeString(data) *)
Definition DecodeType_jsonb (data : gslice) : jres gval :=
  if len data =? 0 then JOk VNil else
  r <~ parseJSONB data ;;
  match r with
  | Some v => JOk v
  | None => JOk (VStr (safeString (vis data)))
  end.

End Model.
