(* C06 / C10 share: the JSONB decoder never panics, on ANY byte string with ANY capacity tail
   (after the fix: commit that guards negative entry lengths). *)
Require Import PG.Base.Bytes PG.Base.GoSlice PG.Base.Value.
Require Import PG.C06.JsonbModel PG.C06.JsonbSpec PG.C06.JsonbLib PG.C06.JsonbFuelProofs.

Lemma np_bind {A B} (r : jres A) (k : A -> jres B) :
  r <> JPanic -> (forall a, r = JOk a -> k a <> JPanic) -> jbind r k <> JPanic.
Proof. destruct r; cbn [jbind]; auto. intros _ _. discriminate. Qed.
Lemma np_lift {A} (r : res A) : r <> Panic -> lift r <> JPanic.
Proof. destruct r; cbn [lift]; [discriminate|congruence]. Qed.
Lemma np_lift_ok {A} (r : res A) a : r = Ok a -> lift r <> JPanic.
Proof. intros ->. discriminate. Qed.

Lemma sum_lens_np entries : forall n lo, 0 <= lo -> lo + Z.of_nat n <= Z.of_nat (length entries) ->
  exists v, sum_lens entries lo n = Ok v.
Proof.
  induction n as [|n IH]; intros lo H0 H1; cbn [sum_lens]; [eauto|].
  rewrite eidx_ok by lia. cbn [bind]. destruct (IH (lo + 1)) as [v Hv]; try lia. rewrite Hv. cbn [bind]. eauto.
Qed.
Lemma endOffset_back_np entries idx : 0 <= idx < Z.of_nat (length entries) -> forall n i,
  Z.of_nat n = i + 1 -> i <= idx -> exists v, endOffset_back entries idx n i = Ok v.
Proof.
  intros Hidx. induction n as [|n IH]; intros i Hn Hi; cbn [endOffset_back].
  - apply sum_lens_np; lia.
  - rewrite eidx_ok by lia. cbn [bind]. destruct (negb _).
    + destruct (sum_lens_np entries (Z.to_nat (idx - i)) (i + 1)) as [v Hv]; try lia. rewrite Hv. cbn [bind]. eauto.
    + apply IH; lia.
Qed.
Lemma endOffset_np entries idx : 0 <= idx < Z.of_nat (length entries) -> exists v, endOffset entries idx = Ok v.
Proof. intros. unfold endOffset. apply endOffset_back_np; lia. Qed.
Lemma entryOffLen_np entries idx base : 0 <= idx < Z.of_nat (length entries) ->
  exists o l, entryOffLen entries idx base = Ok (o, l) /\ base <= o.
Proof.
  intros H. unfold entryOffLen. rewrite eidx_ok by lia. cbn [bind].
  assert (S : exists st, (if idx >? 0 then endOffset entries (idx - 1) else Ok 0) = Ok st).
  { destruct (idx >? 0) eqn:E; [apply endOffset_np; lia|eauto]. }
  destruct S as [st Hst].
  assert (Hr : exists o l, (start <- (if idx >? 0 then endOffset entries (idx - 1) else Ok 0);;
                 (if negb (Z.land (nth (Z.to_nat idx) entries 0) jeHasOff =? 0)
                  then Ok (base + start, Z.land (nth (Z.to_nat idx) entries 0) jeOffMask - start)
                  else Ok (base + start, Z.land (nth (Z.to_nat idx) entries 0) jeOffMask))) = Ok (o, l)).
  { rewrite Hst. cbn [bind]. destruct (negb _); eauto. }
  destruct Hr as (o & l & Hr). exists o, l. split; [exact Hr|].
  eapply (entryOffLen_nonneg entries idx base o l). unfold entryOffLen. rewrite eidx_ok by lia. cbn [bind]. exact Hr.
Qed.
Lemma read_entries_np s : forall n off, 0 <= off -> off + 4 * Z.of_nat n <= len s ->
  exists ws, read_entries n s off = Ok ws /\ length ws = n.
Proof.
  induction n as [|n IH]; intros off H0 H1; cbn [read_entries]; [eauto|].
  destruct (uN_ok 4 s off) as [v Hv]; try lia. unfold u32. rewrite Hv. cbn [bind].
  destruct (IH (off + 4)) as (ws & Hws & Hl); try lia. rewrite Hws. cbn [bind]. eexists; split; [reflexivity|].
  cbn [length]. lia.
Qed.
Lemma slice_np s lo hi : 0 <= lo -> lo <= hi -> hi <= len s -> slice s lo hi <> Panic.
Proof. intros. destruct (slice_ok s lo hi) as [r Hr]; try lia. { pose proof (len_le_cap s). lia. } rewrite Hr. discriminate. Qed.

Section Safe.
Variable DecodeNumeric : bytes -> gval.

Lemma decodeJNumeric_np s : decodeJNumeric DecodeNumeric s <> Panic.
Proof.
  unfold decodeJNumeric. destruct (len s <? 4) eqn:E; [discriminate|].
  destruct (uN_ok 4 s 0) as [h Hh]; try lia. unfold u32. rewrite Hh. cbn [bind].
  destruct (Z.land h 3 =? 0).
  - destruct (_ && _) eqn:G; cbn [bind]; [|discriminate].
    destruct (slice_ok s 4 (Z.shiftr h 2)) as [c Hc]; try lia. { pose proof (len_le_cap s). lia. }
    rewrite Hc. cbn [bind]. discriminate.
  - destruct (_ && _) eqn:G; cbn [bind]; [|discriminate].
    destruct (slice_ok s 1 (Z.shiftr (Z.land h 255) 1)) as [c Hc]; try lia. { pose proof (len_le_cap s). lia. }
    rewrite Hc. cbn [bind]. discriminate.
Qed.

Lemma decodeJEntry_np rec data off length je : 0 <= off ->
  (forall s', rec s' <> JPanic) -> decodeJEntry DecodeNumeric rec data off length je <> JPanic.
Proof.
  intros Ho Hrec. unfold decodeJEntry. cbv zeta.
  assert (Ha : off <= go_align off 4) by (rewrite go_align_4 by lia; apply align_ge; lia).
  destruct (_ =? jeString).
  { destruct (_ && _) eqn:G; [|discriminate]. apply np_bind; [apply np_lift, slice_np; lia|intros; discriminate]. }
  destruct (_ =? jeNumeric).
  { destruct (_ && _) eqn:G; [|discriminate]. apply np_bind; [apply np_lift, slice_np; lia|].
    intros; apply np_lift, decodeJNumeric_np. }
  destruct (_ =? jeContainer).
  { destruct (_ && _) eqn:G; [|discriminate]. apply np_bind; [apply np_lift, slice_np; lia|]. intros; apply Hrec. }
  destruct (_ =? jeNull); [discriminate|].
  destruct (_ =? jeBoolFalse); [discriminate|].
  destruct (_ =? jeBoolTrue); discriminate.
Qed.

Lemma arr_loop_np rec data entries ds : 0 <= ds -> (forall s', rec s' <> JPanic) ->
  forall n i, 0 <= i -> i + Z.of_nat n <= Z.of_nat (length entries) ->
  arr_loop DecodeNumeric rec data entries ds n i <> JPanic.
Proof.
  intros Hds Hrec. induction n as [|n IH]; intros i H0 H1; cbn [arr_loop]; [discriminate|].
  destruct (entryOffLen_np entries i 0) as (o & l & Ho & Hoo); try lia. rewrite Ho. cbn [lift jbind].
  rewrite eidx_ok by lia. cbn [lift jbind].
  apply np_bind; [apply decodeJEntry_np; [lia|exact Hrec]|]. intros v _.
  apply np_bind; [apply IH; lia|]. intros; discriminate.
Qed.
Lemma obj_loop_np rec data entries ds count : 0 <= ds -> 0 <= count -> (forall s', rec s' <> JPanic) ->
  forall n i, 0 <= i -> count + i + Z.of_nat n <= Z.of_nat (length entries) ->
  obj_loop DecodeNumeric rec data entries ds count n i <> JPanic.
Proof.
  intros Hds Hc Hrec. induction n as [|n IH]; intros i H0 H1; cbn [obj_loop]; [discriminate|].
  destruct (entryOffLen_np entries i 0) as (ko & kl & Hk & Hko); try lia. rewrite Hk. cbn [lift jbind].
  apply np_bind.
  { destruct (_ && _) eqn:G; [|discriminate]. apply np_bind; [apply np_lift, slice_np; lia|intros; discriminate]. }
  intros key _.
  destruct (entryOffLen_np entries (count + i) 0) as (o & l & Ho & Hoo); try lia. rewrite Ho. cbn [lift jbind].
  rewrite eidx_ok by lia. cbn [lift jbind].
  apply np_bind; [apply decodeJEntry_np; [lia|exact Hrec]|]. intros v _.
  apply np_bind; [apply IH; lia|]. intros; discriminate.
Qed.

Lemma parse_body_np rec data : (forall s', rec s' <> JPanic) -> parse_body DecodeNumeric rec data <> JPanic.
Proof.
  intros Hrec. unfold parse_body. destruct (len data <? 4) eqn:E; [discriminate|].
  destruct (uN_ok 4 data 0) as [h Hh]; try lia. unfold u32. rewrite Hh. cbn [lift jbind]. cbv zeta.
  pose proof (land_mask_nonneg h) as Hc. change jeOffMask with jbCMask in Hc.
  destruct (_ || _); [discriminate|].
  destruct (_ >? len data) eqn:E2; [discriminate|].
  set (isObj := negb (Z.land h jbFObject =? 0)) in *.
  set (ne := if isObj then Z.land h jbCMask * 2 else Z.land h jbCMask) in *.
  assert (Hne : 0 <= ne) by (unfold ne; destruct isObj; lia).
  destruct (read_entries_np data (Z.to_nat ne) 4) as (ws & Hws & Hl); try lia.
  rewrite Hws. cbn [lift jbind].
  destruct (negb (offsets_ok ws 0)); [discriminate|].
  apply np_bind.
  - destruct isObj.
    + unfold parseJSONBObject. apply np_bind; [|intros; discriminate].
      apply obj_loop_np; auto; try lia.
    + unfold parseJSONBArray. apply np_bind; [|intros; discriminate].
      apply arr_loop_np; auto; try lia.
  - intros result _. destruct (negb (Z.land h jbFScalar =? 0)); cbv iota; [|discriminate].
    destruct result; try discriminate. destruct l as [|x [|y r]]; discriminate.
Qed.

Lemma parseJSONB_f_np : forall f s, parseJSONB_f DecodeNumeric f s <> JPanic.
Proof.
  induction f as [|f IH]; intros s; cbn [parseJSONB_f]; [discriminate|].
  apply parse_body_np. intros s'. apply np_bind; [apply IH|]. intros; discriminate.
Qed.

(* total: on every input the parser returns a value (never a Go panic, never out of model fuel) *)
Theorem ParseJSONB_total s : exists v, ParseJSONB DecodeNumeric s = JOk v.
Proof.
  pose proof (ParseJSONB_fuel_enough DecodeNumeric s) as HF.
  assert (HP : ParseJSONB DecodeNumeric s <> JPanic).
  { unfold ParseJSONB, ParseJSONB_f. apply np_bind; [apply parseJSONB_f_np|]. intros; discriminate. }
  destruct (ParseJSONB DecodeNumeric s) as [v| |]; [eauto|congruence|congruence].
Qed.
Variable safeString : bytes -> bytes.
Theorem DecodeType_jsonb_total s : exists v, DecodeType_jsonb DecodeNumeric safeString s = JOk v.
Proof.
  unfold DecodeType_jsonb. destruct (len s =? 0); [eauto|].
  pose proof (parseJSONB_fuel_enough DecodeNumeric s) as HF.
  pose proof (parseJSONB_f_np (fuel_for s) s) as HP. fold (parseJSONB DecodeNumeric s) in HP.
  destruct (parseJSONB DecodeNumeric s) as [[v|]| |]; cbn [jbind]; eauto; congruence.
Qed.
End Safe.
