(* C06 / C10 share: what the rejection of backwards-running end offsets (offsets_ok, the walk over the
   JEntry array in parseJSONB) buys, on EVERY byte string:
   - endOffset / entryOffLen compute, on ANY JEntry array, the forward running end offset [runoff];
   - the walk accepts exactly the arrays whose running end offset never decreases;
   - so in an accepted container every entry has a non-negative length and the entries occupy
     consecutive, pairwise disjoint ranges of the data area, in increasing order;
   - hence the decoded value has at most len/4 + 1 nodes (the JEntry words of distinct containers
     are distinct 4-byte words of the input): decoding work is linear in the input size. *)
Require Import PG.Base.Bytes PG.Base.GoSlice PG.Base.Value.
Require Import PG.C06.JsonbModel PG.C06.JsonbSpec PG.C06.JsonbLib PG.C06.JsonbFuelProofs.

Local Notation je_val e := (Z.land e jeOffMask).
Local Notation je_has e := (negb (Z.land e jeHasOff =? 0)).

(* the running end offset of parseJSONB's walk: after the entries [es], starting from [run] *)
Fixpoint run_from (run : Z) (es : list Z) : Z :=
  match es with
  | [] => run
  | e :: r => run_from (if je_has e then je_val e else run + je_val e) r
  end.
(* ... after the first k entries of the array *)
Definition runoff (entries : list Z) (k : nat) : Z := run_from 0 (firstn k entries).

Lemma run_from_app a : forall run b, run_from run (a ++ b) = run_from (run_from run a) b.
Proof. induction a as [|e r IH]; intros; [reflexivity|]. cbn [app run_from]. apply IH. Qed.
Lemma firstn_S_nth (l : list Z) : forall k, (k < length l)%nat -> firstn (S k) l = firstn k l ++ [nth k l 0].
Proof.
  induction l as [|x r IH]; intros k Hk; cbn [length] in Hk; [lia|].
  destruct k as [|k]; [reflexivity|]. cbn [firstn nth app]. rewrite <- IH by lia. reflexivity.
Qed.
Lemma runoff_0 entries : runoff entries 0 = 0.
Proof. reflexivity. Qed.
Lemma runoff_S entries k : (k < length entries)%nat ->
  runoff entries (S k) =
    if je_has (nth k entries 0) then je_val (nth k entries 0) else runoff entries k + je_val (nth k entries 0).
Proof. intros H. unfold runoff. rewrite firstn_S_nth by exact H. rewrite run_from_app. reflexivity. Qed.
Lemma run_from_nonneg es : forall run, 0 <= run -> 0 <= run_from run es.
Proof.
  induction es as [|e r IH]; intros run H; [exact H|]. cbn [run_from]. apply IH.
  pose proof (land_mask_nonneg e). destruct (je_has e); lia.
Qed.
Lemma runoff_nonneg entries k : 0 <= runoff entries k.
Proof. apply run_from_nonneg. lia. Qed.

(* ---------- endOffset's backward scan = the forward running offset, on ANY entry array ---------- *)
Lemma sum_lens_run entries : forall c lo,
  (lo + c <= length entries)%nat ->
  (forall k, (lo <= k < lo + c)%nat -> je_has (nth k entries 0) = false) ->
  sum_lens entries (Z.of_nat lo) c = Ok (runoff entries (lo + c) - runoff entries lo).
Proof.
  induction c as [|c IH]; intros lo Hn Hm.
  - cbn [sum_lens]. replace (lo + 0)%nat with lo by lia. f_equal. lia.
  - cbn [sum_lens]. rewrite eidx_ok by lia. cbn [bind]. rewrite Nat2Z.id.
    replace (Z.of_nat lo + 1) with (Z.of_nat (S lo)) by lia.
    rewrite IH by (try lia; intros; apply Hm; lia). cbn [bind].
    f_equal. replace (S lo + c)%nat with (lo + S c)%nat by lia.
    rewrite (runoff_S entries lo) by lia. rewrite (Hm lo) by lia. lia.
Qed.

Lemma endOffset_back_run entries idx : (idx < length entries)%nat -> forall j,
  (j <= idx)%nat ->
  (forall k, (j < k <= idx)%nat -> je_has (nth k entries 0) = false) ->
  endOffset_back entries (Z.of_nat idx) (S j) (Z.of_nat j) = Ok (runoff entries (S idx)).
Proof.
  intros Hidx. induction j as [|j IH]; intros Hj Hm.
  - cbn [endOffset_back]. rewrite eidx_ok by lia. cbn [bind]. rewrite Nat2Z.id.
    destruct (je_has (nth 0 entries 0)) eqn:E.
    + replace (Z.of_nat 0 + 1) with (Z.of_nat 1) by lia.
      replace (Z.to_nat (Z.of_nat idx - Z.of_nat 0)) with idx by lia.
      rewrite sum_lens_run by (try lia; intros; apply Hm; lia). cbn [bind].
      f_equal. rewrite (runoff_S entries 0) by lia. rewrite E.
      replace (1 + idx)%nat with (S idx) by lia. lia.
    + replace (Z.to_nat (Z.of_nat idx + 1)) with (0 + S idx)%nat by lia.
      change 0 with (Z.of_nat 0) at 1.
      rewrite sum_lens_run.
      * f_equal. rewrite runoff_0. cbn [Nat.add]. lia.
      * lia.
      * intros k Hk. destruct k as [|k]; [exact E|apply Hm; lia].
  - cbn [endOffset_back]. rewrite eidx_ok by lia. cbn [bind]. rewrite Nat2Z.id.
    destruct (je_has (nth (S j) entries 0)) eqn:E.
    + replace (Z.of_nat (S j) + 1) with (Z.of_nat (S (S j))) by lia.
      replace (Z.to_nat (Z.of_nat idx - Z.of_nat (S j))) with (idx - S j)%nat by lia.
      rewrite sum_lens_run by (try lia; intros; apply Hm; lia). cbn [bind].
      f_equal. rewrite (runoff_S entries (S j)) by lia. rewrite E.
      replace (S (S j) + (idx - S j))%nat with (S idx) by lia. lia.
    + replace (Z.of_nat (S j) - 1) with (Z.of_nat j) by lia.
      apply IH; [lia|]. intros k Hk. destruct (Nat.eq_dec k (S j)) as [->|]; [exact E|apply Hm; lia].
Qed.

Lemma endOffset_run entries idx : (idx < length entries)%nat ->
  endOffset entries (Z.of_nat idx) = Ok (runoff entries (S idx)).
Proof.
  intros H. unfold endOffset. replace (Z.to_nat (Z.of_nat idx + 1)) with (S idx) by lia.
  apply endOffset_back_run; try lia.
Qed.

(* entry idx starts at the running offset before it and ends at the running offset after it *)
Lemma entryOffLen_run entries idx base : (idx < length entries)%nat ->
  entryOffLen entries (Z.of_nat idx) base
  = Ok (base + runoff entries idx, runoff entries (S idx) - runoff entries idx).
Proof.
  intros H. unfold entryOffLen. rewrite eidx_ok by lia. cbn [bind]. rewrite Nat2Z.id.
  assert (St : (if Z.of_nat idx >? 0 then endOffset entries (Z.of_nat idx - 1) else Ok 0) = Ok (runoff entries idx)).
  { destruct idx as [|i]; [reflexivity|]. destruct (Z.of_nat (S i) >? 0) eqn:E; [|lia].
    replace (Z.of_nat (S i) - 1) with (Z.of_nat i) by lia. apply endOffset_run. lia. }
  rewrite St. cbn [bind]. rewrite (runoff_S entries idx) by exact H.
  destruct (je_has (nth idx entries 0)); f_equal; f_equal; lia.
Qed.

(* ---------- the walk accepts exactly the arrays whose running offset never decreases ---------- *)
Lemma offsets_ok_step es : forall run, offsets_ok es run = true ->
  forall k, (k < length es)%nat -> run_from run (firstn k es) <= run_from run (firstn (S k) es).
Proof.
  induction es as [|e r IH]; intros run H k Hk; cbn [length] in Hk; [lia|].
  cbn [offsets_ok] in H. cbv zeta in H. pose proof (land_mask_nonneg e) as Hv.
  destruct k as [|k].
  - cbn [firstn run_from]. destruct (je_has e); [|lia].
    destruct (je_val e <? run) eqn:E; [discriminate H|lia].
  - cbn [firstn run_from]. destruct (je_has e).
    + destruct (je_val e <? run) eqn:E; [discriminate H|]. apply IH; [exact H|lia].
    + apply IH; [exact H|lia].
Qed.
Lemma offsets_ok_complete es : forall run,
  (forall k, (k < length es)%nat -> run_from run (firstn k es) <= run_from run (firstn (S k) es)) ->
  offsets_ok es run = true.
Proof.
  induction es as [|e r IH]; intros run H; [reflexivity|].
  cbn [offsets_ok]. cbv zeta.
  pose proof (H 0%nat ltac:(cbn [length]; lia)) as H0. cbn [firstn run_from] in H0.
  assert (Hr : forall run', run' = (if je_has e then je_val e else run + je_val e) ->
               offsets_ok r run' = true).
  { intros run' ->. apply IH. intros k Hk.
    pose proof (H (S k) ltac:(cbn [length]; lia)) as HS. cbn [firstn run_from] in HS. exact HS. }
  destruct (je_has e).
  - destruct (je_val e <? run) eqn:E; [lia|]. apply Hr. reflexivity.
  - apply Hr. reflexivity.
Qed.

Theorem offsets_ok_iff entries :
  offsets_ok entries 0 = true <->
  (forall k, (k < length entries)%nat -> runoff entries k <= runoff entries (S k)).
Proof. split; [apply offsets_ok_step|apply offsets_ok_complete]. Qed.

Lemma runoff_mono entries : offsets_ok entries 0 = true ->
  forall a b, (a <= b)%nat -> (b <= length entries)%nat -> runoff entries a <= runoff entries b.
Proof.
  intros H a b Hab. induction Hab as [|b Hab IH]; intros Hb; [lia|].
  pose proof (offsets_ok_step entries 0 H b ltac:(lia)) as Hs. fold (runoff entries b) in Hs.
  fold (runoff entries (S b)) in Hs. specialize (IH ltac:(lia)). lia.
Qed.

(* in an accepted JEntry array: entry i occupies [off_i, off_i + len_i) of the data area with
   len_i >= 0, the next entry starts exactly where it ends, and every later entry starts at or after
   its end: the ranges are pairwise disjoint and in increasing order *)
Theorem entries_disjoint entries base : offsets_ok entries 0 = true ->
  forall i, (i < length entries)%nat ->
  exists off l,
    entryOffLen entries (Z.of_nat i) base = Ok (off, l) /\ base <= off /\ 0 <= l /\
    endOffset entries (Z.of_nat i) = Ok (off - base + l) /\
    forall j, (i < j < length entries)%nat ->
      exists off' l', entryOffLen entries (Z.of_nat j) base = Ok (off', l') /\ off + l <= off' /\ 0 <= l'.
Proof.
  intros H i Hi. exists (base + runoff entries i), (runoff entries (S i) - runoff entries i).
  pose proof (runoff_nonneg entries i). pose proof (runoff_mono entries H i (S i) ltac:(lia) ltac:(lia)).
  split; [apply entryOffLen_run; exact Hi|]. split; [lia|]. split; [lia|].
  split; [rewrite endOffset_run by exact Hi; f_equal; lia|].
  intros j Hj. exists (base + runoff entries j), (runoff entries (S j) - runoff entries j).
  pose proof (runoff_mono entries H (S i) j ltac:(lia) ltac:(lia)).
  pose proof (runoff_mono entries H j (S j) ltac:(lia) ltac:(lia)).
  split; [apply entryOffLen_run; lia|]. lia.
Qed.

Lemma read_entries_length : forall n s off ws, read_entries n s off = Ok ws -> length ws = n.
Proof.
  induction n as [|n IH]; intros s off ws H; cbn [read_entries] in H.
  - injection H as <-. reflexivity.
  - destruct (u32 s off) as [e|]; [|discriminate H]. cbn [bind] in H.
    destruct (read_entries n s (off + 4)) as [r|] eqn:E; [|discriminate H]. cbn [bind] in H.
    injection H as <-. cbn [length]. f_equal. eapply IH; eauto.
Qed.

(* ---------- size of a decoded value ---------- *)
(* containers + scalars + object keys *)
Fixpoint nodes (v : gval) : Z :=
  match v with
  | VList l => 1 + (fix go (l : list gval) : Z := match l with [] => 0 | x :: r => nodes x + go r end) l
  | VMap m => 1 + (fix go (m : list (bytes * gval)) : Z :=
                     match m with [] => 0 | kv :: r => 1 + nodes (snd kv) + go r end) m
  | _ => 1
  end.
Definition nodes_list (l : list gval) : Z := fold_right (fun x a => nodes x + a) 0 l.
Definition nodes_map (m : list (bytes * gval)) : Z := fold_right (fun kv a => 1 + nodes (snd kv) + a) 0 m.
Lemma nodes_VList l : nodes (VList l) = 1 + nodes_list l.
Proof. reflexivity. Qed.
Lemma nodes_VMap m : nodes (VMap m) = 1 + nodes_map m.
Proof. reflexivity. Qed.

Section Offsets.
Variable DecodeNumeric : bytes -> gval.

(* what parse_body does when it does not reject: the entry words it read from data[4:] pass the walk,
   and these are the entries handed to parseJSONBObject / parseJSONBArray, whose loops pass
   entryOffLen(entries, i, 0) (i = 0..count-1, and count+i for object values) to decodeJEntry *)
Lemma parse_body_accepts rec data v :
  parse_body DecodeNumeric rec data = JOk (Some v) ->
  exists header entries result,
    u32 data 0 = Ok header /\
    read_entries (length entries) data 4 = Ok entries /\
    4 + 4 * Z.of_nat (length entries) <= len data /\
    offsets_ok entries 0 = true /\
    (if negb (Z.land header jbFObject =? 0)
     then parseJSONBObject DecodeNumeric rec data entries (4 + Z.of_nat (length entries) * 4) (Z.land header jbCMask)
     else parseJSONBArray DecodeNumeric rec data entries (4 + Z.of_nat (length entries) * 4) (Z.land header jbCMask))
    = JOk result.
Proof.
  intros H. unfold parse_body in H.
  destruct (len data <? 4); [discriminate H|].
  destruct (u32 data 0) as [header|] eqn:Eh; cbn [lift jbind] in H; [|discriminate H]. cbv zeta in H.
  pose proof (land_mask_nonneg header) as Hc. change jeOffMask with jbCMask in Hc.
  set (count := Z.land header jbCMask) in *.
  set (isObj := negb (Z.land header jbFObject =? 0)) in *.
  destruct (_ || _); [discriminate H|].
  set (ne := if isObj then count * 2 else count) in *.
  assert (Hne : 0 <= ne) by (unfold ne; destruct isObj; lia).
  destruct (4 + ne * 4 >? len data) eqn:E2; [discriminate H|].
  destruct (read_entries (Z.to_nat ne) data 4) as [entries|] eqn:Er; cbn [lift jbind] in H; [|discriminate H].
  destruct (offsets_ok entries 0) eqn:Eo; cbn [negb] in H; [|discriminate H].
  pose proof (read_entries_length _ _ _ _ Er) as Hl.
  assert (Hne' : ne = Z.of_nat (length entries)) by lia.
  rewrite Hne' in H.
  match type of H with jbind ?c _ = _ => destruct c as [result| |] eqn:Ec; cbn [jbind] in H; try discriminate H end.
  exists header, entries, result.
  split; [reflexivity|]. split; [rewrite Hl; exact Er|]. split; [lia|]. split; [exact Eo|]. exact Ec.
Qed.

Theorem children_disjoint rec data v :
  parse_body DecodeNumeric rec data = JOk (Some v) ->
  exists entries,
    read_entries (length entries) data 4 = Ok entries /\
    4 + 4 * Z.of_nat (length entries) <= len data /\
    forall i, (i < length entries)%nat ->
    exists off l,
      entryOffLen entries (Z.of_nat i) 0 = Ok (off, l) /\ 0 <= off /\ 0 <= l /\
      forall j, (i < j < length entries)%nat ->
        exists off' l', entryOffLen entries (Z.of_nat j) 0 = Ok (off', l') /\ off + l <= off' /\ 0 <= l'.
Proof.
  intros H. destruct (parse_body_accepts rec data v H) as (header & entries & result & _ & Hr & Hlen & Hok & _).
  exists entries. split; [exact Hr|]. split; [exact Hlen|].
  intros i Hi. destruct (entries_disjoint entries 0 Hok i Hi) as (off & l & H1 & H2 & H3 & _ & H5).
  exists off, l. auto.
Qed.

(* ---------- linear size ---------- *)
Hypothesis HN : forall b, nodes (DecodeNumeric b) <= 1.

Definition rec_small (rec : gslice -> jres gval) : Prop :=
  forall s w, rec s = JOk w -> nodes w <= len s / 4 + 1.

Lemma decodeJNumeric_nodes s v : decodeJNumeric DecodeNumeric s = Ok v -> nodes v <= 1.
Proof.
  unfold decodeJNumeric. destruct (len s <? 4); [intros H; injection H as <-; cbn [nodes]; lia|].
  destruct (u32 s 0) as [hdr|]; cbn [bind]; [|intros H; discriminate H].
  match goal with |- bind ?c _ = _ -> _ => destruct c as [c'|] end; cbn [bind]; [|intros H; discriminate H].
  intros H; injection H as <-. apply HN.
Qed.

Lemma decodeJEntry_nodes rec data off length je v :
  rec_small rec -> 0 <= off ->
  decodeJEntry DecodeNumeric rec data off length je = JOk v ->
  nodes v <= 1 \/ (off + length <= len data /\ nodes v <= length / 4 + 1).
Proof.
  intros HR Ho. unfold decodeJEntry. cbv zeta.
  assert (Ha : off <= go_align off 4) by (rewrite go_align_4 by lia; apply align_ge; lia).
  destruct (_ =? jeString).
  { destruct (_ && _).
    - destruct (slice data off (off + length)) as [s|]; cbn [lift jbind]; intros H; [|discriminate H].
      injection H as <-. left. cbn [nodes]. lia.
    - intros H; injection H as <-. left. cbn [nodes]. lia. }
  destruct (_ =? jeNumeric).
  { destruct (_ && _).
    - destruct (slice data _ _) as [s|]; cbn [lift jbind]; intros H; [|discriminate H].
      apply lift_ok in H. left. eapply decodeJNumeric_nodes; eauto.
    - intros H; injection H as <-. left. cbn [nodes]. lia. }
  destruct (_ =? jeContainer).
  { destruct (_ && _) eqn:G.
    - destruct (slice data _ _) as [s|] eqn:Es; cbn [lift jbind]; intros H; [|discriminate H].
      apply HR in H. apply slice_len in Es. right. split; [lia|]. lia.
    - intros H; injection H as <-. left. cbn [nodes]. lia. }
  destruct (_ =? jeNull); [intros H; injection H as <-; left; cbn [nodes]; lia|].
  destruct (_ =? jeBoolFalse); [intros H; injection H as <-; left; cbn [nodes]; lia|].
  destruct (_ =? jeBoolTrue); intros H; injection H as <-; left; cbn [nodes]; lia.
Qed.

Lemma arr_loop_nodes rec data entries ds :
  rec_small rec -> 0 <= ds -> offsets_ok entries 0 = true ->
  forall n i l, (i + n <= length entries)%nat ->
  arr_loop DecodeNumeric rec data entries ds n (Z.of_nat i) = JOk l ->
  nodes_list l <= Z.of_nat n + Z.max 0 (len data - ds - runoff entries i) / 4.
Proof.
  intros HR Hds Hok. induction n as [|n IH]; intros i l Hi H; cbn [arr_loop] in H.
  - injection H as <-. cbn [nodes_list fold_right]. lia.
  - rewrite entryOffLen_run in H by lia. cbn [lift jbind] in H.
    rewrite eidx_ok in H by lia. cbn [lift jbind] in H.
    pose proof (runoff_nonneg entries i) as H0.
    pose proof (runoff_mono entries Hok i (S i) ltac:(lia) ltac:(lia)) as Hm.
    destruct (decodeJEntry _ _ _ _ _ _) as [v| |] eqn:Ed; cbn [jbind] in H; try discriminate H.
    replace (Z.of_nat i + 1) with (Z.of_nat (S i)) in H by lia.
    destruct (arr_loop _ _ _ _ _ n _) as [rest| |] eqn:Er; cbn [jbind] in H; try discriminate H.
    injection H as <-. apply IH in Er; [|lia].
    apply decodeJEntry_nodes in Ed; [|exact HR|lia].
    cbn [nodes_list fold_right]. fold (nodes_list rest).
    destruct Ed as [Ed|[Ed1 Ed2]]; lia.
Qed.

Lemma obj_loop_nodes rec data entries ds count :
  rec_small rec -> 0 <= ds -> 0 <= count -> offsets_ok entries 0 = true ->
  forall n i m, (Z.to_nat count + i + n <= length entries)%nat ->
  obj_loop DecodeNumeric rec data entries ds count n (Z.of_nat i) = JOk m ->
  nodes_map m <= 2 * Z.of_nat n + Z.max 0 (len data - ds - runoff entries (Z.to_nat count + i)) / 4.
Proof.
  intros HR Hds Hc Hok. induction n as [|n IH]; intros i m Hi H; cbn [obj_loop] in H.
  - injection H as <-. cbn [nodes_map fold_right]. lia.
  - rewrite entryOffLen_run in H by lia. cbn [lift jbind] in H.
    match type of H with jbind ?c _ = _ => destruct c as [key| |]; cbn [jbind] in H; try discriminate H end.
    replace (count + Z.of_nat i) with (Z.of_nat (Z.to_nat count + i)) in H by lia.
    rewrite entryOffLen_run in H by lia. cbn [lift jbind] in H.
    rewrite eidx_ok in H by lia. cbn [lift jbind] in H.
    pose proof (runoff_nonneg entries (Z.to_nat count + i)) as H0.
    pose proof (runoff_mono entries Hok (Z.to_nat count + i) (S (Z.to_nat count + i)) ltac:(lia) ltac:(lia)) as Hm.
    destruct (decodeJEntry _ _ _ _ _ _) as [v| |] eqn:Ed; cbn [jbind] in H; try discriminate H.
    replace (Z.of_nat i + 1) with (Z.of_nat (S i)) in H by lia.
    destruct (obj_loop _ _ _ _ _ _ n _) as [rest| |] eqn:Er; cbn [jbind] in H; try discriminate H.
    injection H as <-. apply IH in Er; [|lia].
    replace (Z.to_nat count + S i)%nat with (S (Z.to_nat count + i)) in Er by lia.
    apply decodeJEntry_nodes in Ed; [|exact HR|lia].
    cbn [nodes_map fold_right snd]. fold (nodes_map rest).
    destruct Ed as [Ed|[Ed1 Ed2]]; lia.
Qed.

Lemma parse_body_nodes rec data r :
  rec_small rec -> parse_body DecodeNumeric rec data = JOk r -> nodes (unopt r) <= len data / 4 + 1.
Proof.
  intros HR H. pose proof (len_nonneg data) as Hl0.
  unfold parse_body in H.
  destruct (len data <? 4); [injection H as <-; cbn [unopt nodes]; lia|].
  destruct (u32 data 0) as [header|]; cbn [lift jbind] in H; [|discriminate H]. cbv zeta in H.
  pose proof (land_mask_nonneg header) as Hc. change jeOffMask with jbCMask in Hc.
  set (count := Z.land header jbCMask) in *.
  destruct (negb (Z.land header jbFObject =? 0)) eqn:EI; cbv iota in H.
  - (* object *)
    destruct (_ || _); [injection H as <-; cbn [unopt nodes]; lia|].
    destruct (4 + count * 2 * 4 >? len data) eqn:E2; [injection H as <-; cbn [unopt nodes]; lia|].
    destruct (read_entries (Z.to_nat (count * 2)) data 4) as [entries|] eqn:Er; cbn [lift jbind] in H; [|discriminate H].
    destruct (offsets_ok entries 0) eqn:Eo; cbn [negb] in H; [|injection H as <-; cbn [unopt nodes]; lia].
    pose proof (read_entries_length _ _ _ _ Er) as Hl.
    unfold parseJSONBObject in H.
    destruct (obj_loop _ _ _ _ _ _ _ _) as [m| |] eqn:El; cbn [jbind] in H; try discriminate H.
    apply (obj_loop_nodes rec data entries (4 + count * 2 * 4) count HR ltac:(lia) Hc Eo (Z.to_nat count) 0%nat m ltac:(lia)) in El.
    pose proof (runoff_nonneg entries (Z.to_nat count + 0)) as H0.
    assert (G : nodes (VMap m) <= len data / 4 + 1) by (rewrite nodes_VMap; lia).
    destruct (negb (Z.land header jbFScalar =? 0)); injection H as <-; exact G.
  - (* array *)
    destruct (_ || _); [injection H as <-; cbn [unopt nodes]; lia|].
    destruct (4 + count * 4 >? len data) eqn:E2; [injection H as <-; cbn [unopt nodes]; lia|].
    destruct (read_entries (Z.to_nat count) data 4) as [entries|] eqn:Er; cbn [lift jbind] in H; [|discriminate H].
    destruct (offsets_ok entries 0) eqn:Eo; cbn [negb] in H; [|injection H as <-; cbn [unopt nodes]; lia].
    pose proof (read_entries_length _ _ _ _ Er) as Hl.
    unfold parseJSONBArray in H.
    destruct (arr_loop _ _ _ _ _ _ _) as [l| |] eqn:El; cbn [jbind] in H; try discriminate H.
    apply (arr_loop_nodes rec data entries (4 + count * 4) HR ltac:(lia) Eo (Z.to_nat count) 0%nat l ltac:(lia)) in El.
    rewrite runoff_0 in El.
    assert (G : nodes (VList l) <= len data / 4 + 1) by (rewrite nodes_VList; lia).
    destruct (negb (Z.land header jbFScalar =? 0)); [|injection H as <-; exact G].
    destruct l as [|x [|y l']]; injection H as <-; try exact G.
    cbn [unopt]. rewrite nodes_VList in G. cbn [nodes_list fold_right] in G. lia.
Qed.

Lemma parseJSONB_f_nodes : forall f s r,
  parseJSONB_f DecodeNumeric f s = JOk r -> nodes (unopt r) <= len s / 4 + 1.
Proof.
  induction f as [|f IH]; intros s r H; cbn [parseJSONB_f] in H; [discriminate H|].
  eapply parse_body_nodes; [|exact H].
  intros s' w Hw. destruct (parseJSONB_f DecodeNumeric f s') as [r'| |] eqn:E; cbn [jbind] in Hw; try discriminate Hw.
  injection Hw as <-. apply IH. exact E.
Qed.

(* every byte string: the decoded value has at most len/4 + 1 nodes *)
Theorem ParseJSONB_nodes s v : ParseJSONB DecodeNumeric s = JOk v -> nodes v <= len s / 4 + 1.
Proof.
  unfold ParseJSONB, ParseJSONB_f. intros H.
  destruct (parseJSONB_f DecodeNumeric (fuel_for s) s) as [r| |] eqn:E; cbn [jbind] in H; try discriminate H.
  injection H as <-. eapply parseJSONB_f_nodes; eauto.
Qed.
End Offsets.
