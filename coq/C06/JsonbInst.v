(* Instances of the C06 model/spec for extraction and for concrete examples: the sub-decoders that
   belong to other properties are replaced by placeholders that return a recognisable token holding
   exactly the bytes handed over (AGENT_GUIDE §10); the harness substitutes the real DecodeNumeric /
   safeString result for the token before comparing. *)
Require Import PG.Base.Bytes PG.Base.GoSlice PG.Base.Value PG.C06.JsonbModel PG.C06.JsonbSpec.

Definition num_prefix : bytes := [x00; x4e; x55; x4d; x00].   (* "\0NUM\0" *)
Definition raw_prefix : bytes := [x00; x52; x41; x57; x00].   (* "\0RAW\0" *)
Definition num_token (b : bytes) : gval := VStr (num_prefix ++ b).
Definition raw_token (b : bytes) : bytes := raw_prefix ++ b.

Definition x_ParseJSONB := ParseJSONB num_token.
Definition x_parseJSONB := parseJSONB num_token.
Definition x_DecodeType_jsonb := DecodeType_jsonb num_token raw_token.
Definition x_decodeJEntry (fuel : nat) := decodeJEntry num_token (ParseJSONB_f num_token fuel).
Definition x_decodeJNumeric := decodeJNumeric num_token.
Definition x_expected := expected num_token.
