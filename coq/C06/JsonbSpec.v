(* Spec for C06: JSON documents and PostgreSQL's binary JSONB encoding of them, transcribed from
   src/include/utils/jsonb.h and src/backend/utils/adt/jsonb_util.c (convertToJsonb,
   convertJsonbValue/Array/Object/Scalar, padBufferToInt) of PostgreSQL 12-16, little endian.
   Written independently of the Go code: nothing here reads bytes.

   jsonb.h:  JEntry = uint32: low 28 bits length-or-end-offset (JENTRY_OFFLENMASK), 3 type bits
             (JENTRY_TYPEMASK 0x70000000), JENTRY_HAS_OFF 0x80000000;  JB_OFFSET_STRIDE 32;
             container header = count (JB_CMASK 0x0FFFFFFF) | JB_FSCALAR 0x10000000 | JB_FOBJECT 0x20000000
             | JB_FARRAY 0x40000000; then the JEntry array; then the children's data.
   An array has nElems entries; an object has ONE array of 2*nPairs entries: all keys, then all
   values, lengths/offsets running over the whole array; entry i stores its end offset (relative to
   the start of the data area) instead of its length when i % 32 == 0.
   Numerics and nested containers are preceded by zero padding up to a 4-byte boundary of the output
   buffer (padBufferToInt); the padding is counted in the entry's length.  The buffer starts with
   the 4-byte varlena header, so boundaries are the same measured from the start of the varlena
   DATA, which is where offset 0 is here.
   A scalar at the root is stored as a 1-element array with JB_FSCALAR|JB_FARRAY. *)
Require Import PG.Base.Bytes PG.Base.Value.

(* JNum carries the numeric's on-disk payload (n_header + digits, i.e. what follows the numeric's
   own varlena header): its meaning belongs to property C05. *)
Inductive json :=
| JNull
| JBool (b : bool)
| JNum (n : bytes)
| JStr (s : bytes)
| JArr (l : list json)
| JObj (l : list (bytes * json)).

Definition JB_FSCALAR : Z := 268435456.
Definition JB_FOBJECT : Z := 536870912.
Definition JB_FARRAY : Z := 1073741824.
Definition JENTRY_HAS_OFF : Z := 2147483648.
Definition JENTRY_ISSTRING : Z := 0.
Definition JENTRY_ISNUMERIC : Z := 268435456.
Definition JENTRY_ISBOOL_FALSE : Z := 536870912.
Definition JENTRY_ISBOOL_TRUE : Z := 805306368.
Definition JENTRY_ISNULL : Z := 1073741824.
Definition JENTRY_ISCONTAINER : Z := 1342177280.
Definition JB_OFFSET_STRIDE : Z := 32.

(* padBufferToInt: INTALIGN(len) - len zero bytes *)
Definition pad4 (off : Z) : bytes := zeros ((- off) mod 4).

(* the Numeric datum as jsonb embeds it: 4-byte varlena header (SET_VARSIZE: total length << 2 on
   little endian) followed by the payload.  (Numerics reaching convertJsonbScalar come from
   numeric_in / DatumGetNumeric and always carry the 4-byte header.) *)
Definition numeric_varlena (n : bytes) : bytes := le_enc 4 ((blen n + 4) * 4) ++ n.

(* an encoded child: its JEntry type bits and the bytes it appended to the buffer *)
Definition item := (Z * bytes)%type.
Definition total (its : list item) : Z := fold_right (fun e a => blen (snd e) + a) 0 its.

(* the JEntry words: i = index of the next entry, tot = totallen so far *)
Fixpoint jentries (i tot : Z) (its : list item) : list Z :=
  match its with
  | [] => []
  | (ty, d) :: r =>
      let tot' := tot + blen d in
      (if i mod JB_OFFSET_STRIDE =? 0 then ty + JENTRY_HAS_OFF + tot' else ty + blen d)
        :: jentries (i + 1) tot' r
  end.

Definition enc_words (ws : list Z) : bytes := concat (map (le_enc 4) ws).

(* header, JEntry array, data area *)
Definition enc_container (flags count : Z) (its : list item) : bytes :=
  le_enc 4 (flags + count) ++ enc_words (jentries 0 0 its) ++ concat (map snd its).

(* convertJsonbValue at buffer offset [off] (relative to the start of the varlena data) *)
Fixpoint enc_value (off : Z) (j : json) {struct j} : item :=
  match j with
  | JNull => (JENTRY_ISNULL, [])
  | JBool false => (JENTRY_ISBOOL_FALSE, [])
  | JBool true => (JENTRY_ISBOOL_TRUE, [])
  | JStr s => (JENTRY_ISSTRING, s)
  | JNum n => (JENTRY_ISNUMERIC, pad4 off ++ numeric_varlena n)
  | JArr l =>
      let p := pad4 off in
      let n := Z.of_nat (length l) in
      let its := (fix go (o : Z) (l : list json) : list item :=
                    match l with
                    | [] => []
                    | x :: r => let e := enc_value o x in e :: go (o + blen (snd e)) r
                    end) (off + blen p + 4 + 4 * n) l in
      (JENTRY_ISCONTAINER, p ++ enc_container JB_FARRAY n its)
  | JObj l =>
      let p := pad4 off in
      let n := Z.of_nat (length l) in
      let keys := map (fun kv : bytes * json => (JENTRY_ISSTRING, fst kv)) l in
      let vals := (fix go (o : Z) (l : list (bytes * json)) : list item :=
                     match l with
                     | [] => []
                     | kv :: r => let e := enc_value o (snd kv) in e :: go (o + blen (snd e)) r
                     end) (off + blen p + 4 + 8 * n + total keys) l in
      (JENTRY_ISCONTAINER, p ++ enc_container JB_FOBJECT n (keys ++ vals))
  end.

(* the children of an array / the values of an object, laid out from offset [o] on *)
Definition enc_items : Z -> list json -> list item :=
  fix go (o : Z) (l : list json) : list item :=
    match l with
    | [] => []
    | x :: r => let e := enc_value o x in e :: go (o + blen (snd e)) r
    end.
Definition enc_vals : Z -> list (bytes * json) -> list item :=
  fix go (o : Z) (l : list (bytes * json)) : list item :=
    match l with
    | [] => []
    | kv :: r => let e := enc_value o (snd kv) in e :: go (o + blen (snd e)) r
    end.
Definition enc_keys (l : list (bytes * json)) : list item :=
  map (fun kv : bytes * json => (JENTRY_ISSTRING, fst kv)) l.

(* convertToJsonb: the varlena data of the jsonb datum for document j *)
Definition enc_jsonb (j : json) : bytes :=
  match j with
  | JArr _ | JObj _ => snd (enc_value 0 j)
  | _ => enc_container (JB_FARRAY + JB_FSCALAR) 1 [enc_value 8 j]
  end.

(* size limits: PostgreSQL refuses a container whose data exceeds JENTRY_OFFLENMASK bytes; pgread
   refuses containers of more than 10000 elements/pairs (the property's domain stops at 200). *)
Fixpoint counts_ok (j : json) : Prop :=
  match j with
  | JArr l => Z.of_nat (length l) <= 10000 /\
              (fix all (l : list json) : Prop := match l with [] => True | x :: r => counts_ok x /\ all r end) l
  | JObj l => Z.of_nat (length l) <= 10000 /\
              (fix all (l : list (bytes * json)) : Prop :=
                 match l with [] => True | kv :: r => counts_ok (snd kv) /\ all r end) l
  | _ => True
  end.
Definition wf_json (j : json) : Prop := counts_ok j /\ blen (enc_jsonb j) < 2 ^ 28.

(* decidable version, used by the generator to double-check its documents *)
Fixpoint counts_okb (j : json) : bool :=
  match j with
  | JArr l => (Z.of_nat (length l) <=? 10000) &&
              (fix all (l : list json) : bool := match l with [] => true | x :: r => counts_okb x && all r end) l
  | JObj l => (Z.of_nat (length l) <=? 10000) &&
              (fix all (l : list (bytes * json)) : bool :=
                 match l with [] => true | kv :: r => counts_okb (snd kv) && all r end) l
  | _ => true
  end.
Definition wf_jsonb (j : json) : bool := counts_okb j && (blen (enc_jsonb j) <? 2 ^ 28).

Section Expected.
Variable DecodeNumeric : bytes -> gval.   (* C05: the value of a numeric payload *)

(* the Go value an equal document is: nil/bool/number/string, []interface{} in array order,
   map[string]interface{} (association list; PostgreSQL's keys are distinct) *)
Fixpoint expected (j : json) : gval :=
  match j with
  | JNull => VNil
  | JBool b => VBool b
  | JNum n => DecodeNumeric n
  | JStr s => VStr s
  | JArr l => VList (map expected l)
  | JObj l => VMap (map (fun kv : bytes * json => (fst kv, expected (snd kv))) l)
  end.
End Expected.

(* Historic defect classes (for the refutation theorems on the unrepaired code):
   D20 some container is empty; D21 some object has >= 17 pairs; D22 the root is null. *)
