Require Import PG.Base.Bytes PG.Base.GoSlice PG.Base.Value.
Require Import PG.C06.JsonbModel PG.C06.JsonbSpec PG.C06.JsonbLib PG.C06.JsonbProofs.

(* ---------- the decidable well-formedness check is sound ---------- *)
Lemma counts_okb_sound : forall j, counts_okb j = true -> counts_ok j.
Proof.
  apply (json_ind' (fun j => counts_okb j = true -> counts_ok j)); try (intros; exact I).
  - intros l HF H. cbn [counts_okb] in H. apply andb_true_iff in H. destruct H as [H1 H2].
    apply counts_ok_arr. split; [lia|]. clear H1.
    induction l as [|x r IH]; constructor; inversion HF; subst; apply andb_true_iff in H2; destruct H2; auto.
  - intros l HF H. cbn [counts_okb] in H. apply andb_true_iff in H. destruct H as [H1 H2].
    apply counts_ok_obj. split; [lia|]. clear H1.
    induction l as [|x r IH]; constructor; inversion HF; subst; apply andb_true_iff in H2; destruct H2; auto.
Qed.
Lemma wf_jsonb_sound j : wf_jsonb j = true -> wf_json j.
Proof.
  unfold wf_jsonb, wf_json. intros H. apply andb_true_iff in H. destruct H as [H1 H2].
  split; [apply counts_okb_sound; exact H1|lia].
Qed.

(* ---------- fuel: len(data)+1 is always enough (every input, valid or not) ---------- *)
Lemma nf_bind {A B} (r : jres A) (k : A -> jres B) :
  r <> JFuel -> (forall a, r = JOk a -> k a <> JFuel) -> jbind r k <> JFuel.
Proof. destruct r; cbn [jbind]; auto. intros _ _. discriminate. Qed.
Lemma nf_lift {A} (r : res A) : lift r <> JFuel.
Proof. destruct r; discriminate. Qed.
Lemma lift_ok {A} (r : res A) a : lift r = JOk a -> r = Ok a.
Proof. destruct r; cbn [lift]; intros H; [injection H as ->; reflexivity|discriminate]. Qed.

Lemma land_mask_nonneg e : 0 <= Z.land e jeOffMask.
Proof. apply Z.land_nonneg. right. unfold jeOffMask. lia. Qed.
Lemma sum_lens_nonneg entries : forall n lo v, sum_lens entries lo n = Ok v -> 0 <= v.
Proof.
  induction n as [|n IH]; intros lo v H; cbn [sum_lens] in H.
  - injection H as <-. lia.
  - destruct (eidx entries lo) as [e|]; [|discriminate]. cbn [bind] in H.
    destruct (sum_lens entries (lo + 1) n) as [r|] eqn:E; [|discriminate]. cbn [bind] in H.
    injection H as <-. pose proof (IH _ _ E). pose proof (land_mask_nonneg e). lia.
Qed.
Lemma endOffset_back_nonneg entries idx : forall n i v, endOffset_back entries idx n i = Ok v -> 0 <= v.
Proof.
  induction n as [|n IH]; intros i v H; cbn [endOffset_back] in H.
  - eapply sum_lens_nonneg; eauto.
  - destruct (eidx entries i) as [e|]; [|discriminate]. cbn [bind] in H.
    destruct (negb (Z.land e jeHasOff =? 0)).
    + destruct (sum_lens entries (i + 1) (Z.to_nat (idx - i))) as [r|] eqn:E; [|discriminate]. cbn [bind] in H.
      injection H as <-. pose proof (sum_lens_nonneg _ _ _ _ E). pose proof (land_mask_nonneg e). lia.
    + eapply IH; eauto.
Qed.
Lemma entryOffLen_nonneg entries idx base o l : entryOffLen entries idx base = Ok (o, l) -> base <= o.
Proof.
  unfold entryOffLen. destruct (eidx entries idx) as [je|]; [|discriminate]. cbn [bind].
  destruct (idx >? 0).
  - destruct (endOffset entries (idx - 1)) as [st|] eqn:E; [|discriminate]. cbn [bind].
    unfold endOffset in E. apply endOffset_back_nonneg in E.
    destruct (negb _); intros H; injection H as <- <-; lia.
  - cbn [bind]. destruct (negb _); intros H; injection H as <- <-; lia.
Qed.

Section Fuel.
Variable DecodeNumeric : bytes -> gval.

Lemma decodeJEntry_nf rec data off length je : 0 <= off ->
  (forall s', len s' <= len data - off -> rec s' <> JFuel) ->
  decodeJEntry DecodeNumeric rec data off length je <> JFuel.
Proof.
  intros Ho Hrec. unfold decodeJEntry. cbv zeta.
  destruct (_ =? jeString).
  { destruct (_ && _); [|discriminate]. apply nf_bind; [apply nf_lift|intros; discriminate]. }
  destruct (_ =? jeNumeric).
  { destruct (_ && _); [|discriminate]. apply nf_bind; [apply nf_lift|intros; apply nf_lift]. }
  destruct (_ =? jeContainer).
  { destruct (_ && _) eqn:G; [|discriminate]. apply nf_bind; [apply nf_lift|]. intros s' Hs'. apply Hrec.
    apply lift_ok in Hs'. apply slice_len in Hs'.
    assert (off <= go_align off 4) by (rewrite go_align_4 by lia; apply align_ge; lia). lia. }
  destruct (_ =? jeNull); [discriminate|].
  destruct (_ =? jeBoolFalse); [discriminate|].
  destruct (_ =? jeBoolTrue); discriminate.
Qed.

Lemma arr_loop_nf rec data entries ds : 0 <= ds ->
  (forall s', len s' <= len data - ds -> rec s' <> JFuel) ->
  forall n i, arr_loop DecodeNumeric rec data entries ds n i <> JFuel.
Proof.
  intros Hds Hrec. induction n as [|n IH]; intros i; cbn [arr_loop]; [discriminate|].
  apply nf_bind; [apply nf_lift|]. intros [o l] Ho. apply lift_ok, entryOffLen_nonneg in Ho.
  apply nf_bind; [apply nf_lift|]. intros je _.
  apply nf_bind.
  { apply decodeJEntry_nf; [lia|]. intros s' Hs'. apply Hrec. lia. }
  intros v _. apply nf_bind; [apply IH|]. intros; discriminate.
Qed.
Lemma obj_loop_nf rec data entries ds count : 0 <= ds ->
  (forall s', len s' <= len data - ds -> rec s' <> JFuel) ->
  forall n i, obj_loop DecodeNumeric rec data entries ds count n i <> JFuel.
Proof.
  intros Hds Hrec. induction n as [|n IH]; intros i; cbn [obj_loop]; [discriminate|].
  apply nf_bind; [apply nf_lift|]. intros [ko kl] _.
  apply nf_bind.
  { destruct (_ && _); [|discriminate]. apply nf_bind; [apply nf_lift|intros; discriminate]. }
  intros key _.
  apply nf_bind; [apply nf_lift|]. intros [o l] Ho. apply lift_ok, entryOffLen_nonneg in Ho.
  apply nf_bind; [apply nf_lift|]. intros je _.
  apply nf_bind.
  { apply decodeJEntry_nf; [lia|]. intros s' Hs'. apply Hrec. lia. }
  intros v _. apply nf_bind; [apply IH|]. intros; discriminate.
Qed.

Lemma parse_body_nf rec data :
  (forall s', len s' <= len data - 4 -> rec s' <> JFuel) -> parse_body DecodeNumeric rec data <> JFuel.
Proof.
  intros Hrec. unfold parse_body. destruct (len data <? 4); [discriminate|].
  apply nf_bind; [apply nf_lift|]. intros header _. cbv zeta.
  pose proof (land_mask_nonneg header) as Hc. change jeOffMask with jbCMask in Hc.
  destruct (_ || _); [discriminate|].
  destruct (_ >? len data); [discriminate|].
  apply nf_bind; [apply nf_lift|]. intros entries _.
  destruct (negb (offsets_ok entries 0)); [discriminate|].
  apply nf_bind.
  - destruct (negb (Z.land header jbFObject =? 0)).
    + unfold parseJSONBObject. apply nf_bind; [|intros; discriminate].
      apply obj_loop_nf; [lia|]. intros s' Hs'. apply Hrec. lia.
    + unfold parseJSONBArray. apply nf_bind; [|intros; discriminate].
      apply arr_loop_nf; [lia|]. intros s' Hs'. apply Hrec. lia.
  - intros result _. destruct (negb _); [|discriminate].
    destruct result; try discriminate. destruct l as [|x [|y r]]; discriminate.
Qed.

Lemma parseJSONB_f_nf : forall f s, len s < Z.of_nat f -> parseJSONB_f DecodeNumeric f s <> JFuel.
Proof.
  induction f as [|f IH]; intros s Hs; [pose proof (len_nonneg s); lia|].
  cbn [parseJSONB_f]. apply parse_body_nf. intros s' Hs'.
  apply nf_bind; [apply IH; lia|]. intros; discriminate.
Qed.

(* the model never runs out of fuel, on any input *)
Theorem parseJSONB_fuel_enough s : parseJSONB DecodeNumeric s <> JFuel.
Proof. unfold parseJSONB, fuel_for. apply parseJSONB_f_nf. pose proof (len_nonneg s). lia. Qed.
Theorem ParseJSONB_fuel_enough s : ParseJSONB DecodeNumeric s <> JFuel.
Proof.
  unfold ParseJSONB, ParseJSONB_f. fold (parseJSONB DecodeNumeric s).
  apply nf_bind; [apply parseJSONB_fuel_enough|]. intros; discriminate.
Qed.
End Fuel.
