(* C04/ExamplesProofs.v — the oracle bundle used to state the property theorems, and non-vacuity
   examples: concrete non-trivial values that satisfy the hypotheses of each theorem. *)
Require Import PG.Base.Bytes PG.Base.GoSlice PG.Base.Value PG.C04.Lib PG.C04.Model PG.C04.Spec.

(* everything that is not logic, or belongs to another property: arbitrary in every theorem *)
Record oracles := {
  o_fmt_g : Z -> bytes;             (* Go fmt "%g" of the float64 with these bits *)
  o_fmt_money : Z -> bytes;         (* Go fmt "$%.2f" of float64(cents)/100 *)
  o_to_valid_utf8 : bytes -> bytes; (* strings.ToValidUTF8(s, ".") *)
  o_json_unmarshal : bytes -> option gval;
  o_DecodeNumeric : bytes -> gval;  (* C05 *)
  o_jsonb_branch : bytes -> gval;   (* C06 *)
  o_decodeArray : bytes -> Z -> gval (* C07 *)
}.
Definition DecodeTypeO (o : oracles) : gslice -> Z -> res gval :=
  DecodeType (o_fmt_g o) (o_fmt_money o) (o_to_valid_utf8 o) (o_json_unmarshal o) (o_DecodeNumeric o)
             (o_jsonb_branch o) (o_decodeArray o).

Example ex_name : wf_name (bs "pg_class").
Proof. split; [cbn; lia|repeat constructor; cbn; lia]. Qed.
Example ex_date : wf_date (DDate 2024 2 29) /\ wf_date (DDate 1 1 1) /\ wf_date (DDate 9999 12 31) /\ wf_date DInf.
Proof. unfold wf_date, valid_date. cbn. repeat split; lia. Qed.
Example ex_ts : wf_ts (TStamp 1707 9 22 {| c_h := 23; c_m := 59; c_s := 59; c_us := 999999 |}) /\
                wf_ts (TStamp 2292 4 11 {| c_h := 0; c_m := 0; c_s := 0; c_us := 1 |}) /\ wf_ts TNegInf.
Proof. unfold wf_ts, valid_date, wf_clock, clock_us. cbn. repeat split; lia. Qed.
Example ex_clock : wf_clock {| c_h := 24; c_m := 0; c_s := 0; c_us := 0 |} /\ wf_clock {| c_h := 14; c_m := 30; c_s := 7; c_us := 123456 |}.
Proof. unfold wf_clock, clock_us. cbn. repeat split; lia. Qed.
Example ex_tz : wf_tz {| z_neg := false; z_h := 5; z_m := 30; z_s := 0 |} /\ wf_tz {| z_neg := true; z_h := 15; z_m := 59; z_s := 59 |} /\
                wf_tz {| z_neg := false; z_h := 0; z_m := 0; z_s := 0 |}.
Proof. unfold wf_tz, tz_total. cbn. repeat split; try lia; discriminate. Qed.
Example ex_ival : wf_ival {| i_us := -14706000000; i_days := 3; i_months := -14 |}.
Proof. unfold wf_ival, in_s. cbn. lia. Qed.
Example ex_inet : wf_inet (Inet4 24 10 0 0 0) /\ wf_inet (Inet6 128 (zeros 15 ++ [x01])).
Proof. unfold wf_inet, in_u. cbn. repeat split; lia. Qed.
Example ex_range : relem_fits 3926 (RInt8 1) = true /\ wf_relem (RInt8 1) /\ wf_relem (RInt8 10) /\
                   relem_fits 3912 (RDate DInf) = true /\ wf_relem (RDate (DDate 2020 1 1)).
Proof. unfold wf_relem, in_s, wf_date, valid_date. cbn. repeat split; lia. Qed.
Example ex_text : valid_utf8 [xe2; x82; xac; x20; xf0; x9f; x98; x80] = true /\ valid_utf8 [xed; xa0; x80] = false /\ valid_utf8 [xc0; x80] = false.
Proof. repeat split; reflexivity. Qed.
Example ex_points : wf_points [(4607182418800017408, 4611686018427387904)].
Proof. unfold wf_points, wf_point, in_u. split; [repeat constructor; cbn; lia|cbn; lia]. Qed.
