(* C04/Tokens.v — instantiation of the model's and spec's Section variables for the correspondence
   run.  Float / money renderings become bit-pattern tokens that the Go harness reproduces by
   parsing Go's text back (strconv.ParseFloat); sub-decoders owned by other properties and the
   non-logic library calls become placeholder tokens that the harness replaces by the result of the
   real Go function on the same bytes (guide §10). *)
Require Import PG.Base.Bytes PG.Base.GoSlice PG.Base.Value PG.C04.Lib PG.C04.Model PG.C04.Spec.

Definition hex16 (bits : Z) : bytes := pad0 16 (hex_nat false bits).
Definition is_nan64 (bits : Z) : bool :=
  ((bits / 4503599627370496) mod 2048 =? 2047) && negb (bits mod 4503599627370496 =? 0).
(* %g: "<16 hex digits>" of the float64 bits; all NaNs print alike *)
Definition tok_g (bits : Z) : bytes := if is_nan64 bits then bs "<nan>" else bs "<" ++ hex16 bits ++ bs ">".
Definition tok_money (cents : Z) : bytes := bs "$<" ++ fmt_d cents ++ bs ">".
Definition tok_tovalid (d : bytes) : bytes := bs "@@tovalid:" ++ hex_bytes d.
Definition tok_json (d : bytes) : option gval := Some (VBytes (bs "json:" ++ hex_bytes d)).
Definition tok_num (d : bytes) : gval := VBytes (bs "num:" ++ hex_bytes d).
Definition tok_jsonb (d : bytes) : gval := VBytes (bs "jsonb:" ++ hex_bytes d).
Definition tok_arr (d : bytes) (e : Z) : gval := VBytes (bs "arr:" ++ fmt_d e ++ bs ":" ++ hex_bytes d).
Definition tok_numdisp (d : bytes) : bytes := bs "<num:" ++ hex_bytes d ++ bs ">".

Definition DecodeTypeX : gslice -> Z -> res gval :=
  DecodeType tok_g tok_money tok_tovalid tok_json tok_num tok_jsonb tok_arr.
Definition decodeRangeX : gslice -> Z -> res bytes :=
  decodeRange tok_g tok_money tok_tovalid tok_json tok_num tok_jsonb tok_arr.

Definition exp_moneyX := exp_money tok_money.
Definition exp_pointX := exp_point tok_g.
Definition exp_lsegX := exp_lseg tok_g.
Definition exp_boxX := exp_box tok_g.
Definition exp_lineX := exp_line tok_g.
Definition exp_circleX := exp_circle tok_g.
Definition exp_pathX := exp_path tok_g.
Definition exp_polygonX := exp_polygon tok_g.
Definition exp_numrangeX := exp_numrange tok_numdisp.
