(* C04/LibProofs.v — generic lemmas and tactics for the C04 proofs. *)
Require Import PG.Base.Bytes PG.Base.GoSlice PG.Base.Value PG.C04.Lib PG.C04.Model PG.C04.Spec.

Lemma blen_enc_int n v : blen (enc_int n v) = Z.of_nat n.
Proof. unfold enc_int. apply blen_le. Qed.
#[export] Hint Rewrite blen_enc_int : blen.
Lemma blen_map {A} (f : A -> byte) l : blen (map f l) = Z.of_nat (length l).
Proof. unfold blen. rewrite map_length. reflexivity. Qed.
#[export] Hint Rewrite @blen_map : blen.

Lemma blen_enc_point p : blen (enc_point p) = 16.
Proof. unfold enc_point. bl. reflexivity. Qed.
#[export] Hint Rewrite blen_enc_point : blen.
Lemma pow2_8n n : 2 ^ (8 * Z.of_nat n) > 0.
Proof. apply Z.lt_gt, Z.pow_pos_nonneg; lia. Qed.

Lemma sub_len_bound (a : bytes) lo hi : 0 <= lo -> lo <= hi -> blen (sub a lo hi) = hi - lo -> hi <= blen a \/ hi = lo.
Proof.
  unfold blen, sub. rewrite firstn_length, skipn_length. lia.
Qed.

(* reads from positional facts *)
Lemma read_u n s off v :
  (0 < n)%nat -> 0 <= off -> sub (vis s) off (off + Z.of_nat n) = le_enc n v -> 0 <= v < 2 ^ (8 * Z.of_nat n) ->
  uN n s off = Ok v.
Proof.
  intros Hn Ho Hs Hv. apply uN_sub; auto.
  assert (L : blen (sub (vis s) off (off + Z.of_nat n)) = Z.of_nat n) by (rewrite Hs; bl; reflexivity).
  destruct (sub_len_bound (vis s) off (off + Z.of_nat n)) as [H|H]; try lia. unfold len. lia.
Qed.

Lemma wrap_range bits v : 0 < bits -> 0 <= wrap bits v < 2 ^ bits.
Proof. intros. unfold wrap. apply Z.mod_pos_bound. apply Z.pow_pos_nonneg; lia. Qed.

Lemma read_i16 s off v : 0 <= off -> sub (vis s) off (off + 2) = enc_int 2 v -> in_s 16 v -> i16 s off = Ok v.
Proof.
  intros Ho Hs Hv. unfold i16, u16. rewrite (read_u 2 s off (wrap 16 v)); auto; try lia.
  - cbn [bind]. unfold sint16. rewrite sint_wrap; auto; lia.
  - apply (wrap_range 16 v). lia.
Qed.
Lemma read_i32 s off v : 0 <= off -> sub (vis s) off (off + 4) = enc_int 4 v -> in_s 32 v -> i32 s off = Ok v.
Proof.
  intros Ho Hs Hv. unfold i32, u32. rewrite (read_u 4 s off (wrap 32 v)); auto; try lia.
  - cbn [bind]. unfold sint32. rewrite sint_wrap; auto; lia.
  - apply (wrap_range 32 v). lia.
Qed.
Lemma read_i64 s off v : 0 <= off -> sub (vis s) off (off + 8) = enc_int 8 v -> in_s 64 v -> i64 s off = Ok v.
Proof.
  intros Ho Hs Hv. unfold i64, u64. rewrite (read_u 8 s off (wrap 64 v)); auto; try lia.
  - cbn [bind]. unfold sint64. rewrite sint_wrap; auto; lia.
  - apply (wrap_range 64 v). lia.
Qed.
Lemma read_u16 s off v : 0 <= off -> sub (vis s) off (off + 2) = le_enc 2 v -> in_u 16 v -> u16 s off = Ok v.
Proof. unfold in_u. intros. apply (read_u 2); auto; try lia; change (8 * Z.of_nat 2) with 16; lia. Qed.
Lemma read_u32 s off v : 0 <= off -> sub (vis s) off (off + 4) = le_enc 4 v -> in_u 32 v -> u32 s off = Ok v.
Proof. unfold in_u. intros. apply (read_u 4); auto; try lia; change (8 * Z.of_nat 4) with 32; lia. Qed.
Lemma read_u64 s off v : 0 <= off -> sub (vis s) off (off + 8) = le_enc 8 v -> in_u 64 v -> u64 s off = Ok v.
Proof. unfold in_u. intros. apply (read_u 8); auto; try lia; change (8 * Z.of_nat 8) with 64; lia. Qed.

Lemma byte_at_nth (d : bytes) i : byte_at d i = b2z (nth (Z.to_nat i) d x00).
Proof. reflexivity. Qed.

Lemma read_idx s i b : 0 <= i -> sub (vis s) i (i + 1) = [b] -> idx s i = Ok (b2z b).
Proof.
  intros Hi Hs.
  assert (L : blen (sub (vis s) i (i + 1)) = 1) by (rewrite Hs; reflexivity).
  destruct (sub_len_bound (vis s) i (i + 1)) as [H|H]; try lia.
  rewrite idx_ok by (unfold len; lia).
  rewrite byte_at_sub in Hs by lia. injection Hs as Hs. rewrite <- Hs, b2z_z2b.
  pose proof (byte_at_range (vis s) i). rewrite Z.mod_small by lia. reflexivity.
Qed.

(* a re-slice that stays within len sees exactly those bytes *)
Lemma slice_sub s lo hi b :
  0 <= lo -> lo <= hi -> hi <= len s -> sub (vis s) lo hi = b ->
  exists t', slice s lo hi = Ok {| vis := b; tail := t' |}.
Proof.
  intros H0 H1 H2 Hs. unfold slice. pose proof (len_le_cap s).
  destruct (_ && _) eqn:E; [|lia].
  eexists. rewrite <- Hs. unfold mem. rewrite sub_app_l by (unfold len in *; lia). reflexivity.
Qed.

(* dispatch: a non-array oid with enough bytes goes to its switch case *)
Section Dispatch.
  Variable fmt_g : Z -> bytes.
  Variable fmt_money : Z -> bytes.
  Variable to_valid_utf8 : bytes -> bytes.
  Variable json_unmarshal : bytes -> option gval.
  Variable DecodeNumeric : bytes -> gval.
  Variable jsonb_branch : bytes -> gval.
  Variable decodeArray : bytes -> Z -> gval.

  Lemma DecodeType_gen_scalar rng s oid k :
    len s <> 0 -> lookup oid arrayElemTypes = None -> kind_of_oid oid = k ->
    match lookup oid fixedLengths with Some n => n <= len s | None => True end ->
    DecodeType_gen fmt_g fmt_money to_valid_utf8 json_unmarshal DecodeNumeric jsonb_branch decodeArray rng s oid
    = decodeKind fmt_g fmt_money to_valid_utf8 json_unmarshal DecodeNumeric jsonb_branch rng k s oid.
  Proof.
    intros Hl Ha Hk Hf. unfold DecodeType_gen. destruct (len s =? 0) eqn:E; [lia|].
    rewrite Ha. unfold decodeScalar_gen. rewrite Hk.
    destruct (lookup oid fixedLengths) as [n|]; [|reflexivity].
    destruct (len s <? n) eqn:E2; [lia|reflexivity].
  Qed.
End Dispatch.

(* [dispatch K]: reduce DecodeType on a literal oid and a slice of known length to its case *)
Ltac unf_enc := unfold enc_bool, enc_char, enc_int2, enc_int4, enc_int8, enc_u32, enc_tid, enc_float4, enc_float8,
  enc_date, enc_time, enc_timetz, enc_ts, enc_interval, enc_lsn, enc_money, enc_lseg, enc_line, enc_circle, enc_text.
Ltac slen := unfold len; cbn [vis]; unf_enc; bl; cbn [length]; try lia.
Ltac dispatch K :=
  unfold DecodeType, DecodeType_elem;
  rewrite DecodeType_gen_scalar with (k := K);
  [ cbn [decodeKind] | slen | reflexivity | reflexivity | cbv [lookup fixedLengths Z.eqb Pos.eqb]; slen ].
(* [at_ off]: the bytes of one field of an append-built encoding *)
Ltac at_ := cbn [vis]; unf_enc; ssub.

(* [rd lem off v]: rewrite one read (lem = read_u32, read_i64, read_idx ...) to its stored value *)
Ltac rd lem off v := rewrite (lem _ off v); [ cbn [bind] | lia | at_ | try assumption; try (unfold in_u, in_s in *; lia) ].
Ltac rdb off b := rewrite (read_idx _ off b); [ cbn [bind] | lia | at_ ].
