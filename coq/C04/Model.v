(* C04/Model.v — model of pgdump/types.go (DecodeType scalar dispatch, decodeScalar and helpers,
   TypeName) and pgdump/binary.go (cstring), as they are in the worktree AFTER the fix: commits
   (xid/cid unsigned, uuid byte order, date/timestamp infinity + overflow, timetz minutes, interval
   signs, range alignment, fixed-width length guard, npts/bitlen guards).
   Not logic, hence Section variables: float formatting (%g, "$%.2f"), strings.ToValidUTF8,
   json.Unmarshal; sub-decoders owned by other properties: DecodeNumeric (C05), the jsonb branch
   (C06), decodeArray (C07).  Go's time package (AddDate/Unix/UTC/Format) is modelled by floor
   division and the proleptic Gregorian [civil_from_days] (Lib.v). *)
Require Import PG.Base.Bytes PG.Base.GoSlice PG.Base.Value PG.C04.Lib.

(* ---------- tables (types.go:94-139) ---------- *)
Fixpoint lookup {A} (k : Z) (l : list (Z * A)) : option A :=
  match l with [] => None | (k', v) :: r => if k =? k' then Some v else lookup k r end.

Definition typeNames : list (Z * lit) :=
  [ (16, "bool"); (17, "bytea"); (18, "char"); (19, "name");
    (20, "int8"); (21, "int2"); (23, "int4"); (25, "text");
    (26, "oid"); (27, "tid"); (28, "xid"); (29, "cid");
    (114, "json"); (142, "xml");
    (600, "point"); (601, "lseg"); (602, "path"); (603, "box");
    (604, "polygon"); (628, "line"); (718, "circle");
    (650, "cidr"); (700, "float4"); (701, "float8");
    (774, "macaddr8"); (790, "money"); (829, "macaddr"); (869, "inet");
    (1042, "bpchar"); (1043, "varchar");
    (1082, "date"); (1083, "time"); (1114, "timestamp");
    (1184, "timestamptz"); (1186, "interval"); (1266, "timetz");
    (1560, "bit"); (1562, "varbit");
    (1700, "numeric"); (2950, "uuid"); (3220, "pg_lsn");
    (3614, "tsvector"); (3615, "tsquery");
    (3802, "jsonb"); (4072, "jsonpath");
    (3904, "int4range"); (3906, "numrange"); (3908, "tsrange");
    (3910, "tstzrange"); (3912, "daterange"); (3926, "int8range") ]%lit.

(* types.go:143-148 *)
Definition TypeName (oid : Z) : bytes :=
  match lookup oid typeNames with Some n => bs n | None => bs "oid:" ++ fmt_d oid end.

Definition arrayElemTypes : list (Z * Z) :=
  [ (1000, 16); (1001, 17); (1002, 18); (1003, 19);
    (1005, 21); (1006, 21); (1007, 23); (1008, 26);
    (1009, 25); (1010, 27); (1011, 28); (1012, 29);
    (1014, 1042); (1015, 1043); (1016, 20);
    (1017, 600); (1018, 601); (1019, 602); (1020, 603);
    (1021, 700); (1022, 701); (1027, 604);
    (1028, 26); (1040, 829); (1041, 869);
    (1115, 1114); (1182, 1082); (1183, 1083);
    (1185, 1184); (1187, 1186); (1231, 1700);
    (1270, 1266); (1561, 1560); (1563, 1562);
    (2951, 2950); (3221, 3220); (3643, 3614); (3645, 3615);
    (3807, 3802); (4073, 4072);
    (629, 628); (651, 650); (719, 718); (775, 774); (791, 790);
    (3905, 3904); (3907, 3906); (3909, 3908);
    (3911, 3910); (3913, 3912); (3927, 3926) ].

Definition fixedLengths : list (Z * Z) :=
  [ (16, 1); (18, 1); (19, 64); (21, 2); (23, 4); (20, 8); (26, 4);
    (700, 4); (701, 8); (1082, 4); (1114, 8); (1184, 8);
    (27, 6); (28, 4); (29, 4); (790, 8); (1083, 8);
    (829, 6); (774, 8); (2950, 16); (3220, 8);
    (600, 16); (601, 32); (603, 32); (628, 24); (718, 24);
    (1266, 12); (1186, 16) ].

(* the cases of decodeScalar's switch (types.go:167-305) *)
Inductive kind :=
| KBool | KChar | KName | KInt2 | KInt4 | KInt8 | KU32 | KTid | KFloat4 | KFloat8 | KMoney
| KSafe | KJson | KBytea | KBit | KDate | KTime | KTimeTZ | KTimestamp | KInterval
| KMacaddr | KMacaddr8 | KInet | KUUID | KPgLsn | KPoint | KLseg | KBox | KLine | KCircle
| KPathPoly | KNumeric | KJsonb | KRange.

Definition scalarSwitch : list (Z * kind) :=
  [ (16, KBool); (18, KChar); (19, KName); (21, KInt2); (23, KInt4); (20, KInt8);
    (26, KU32); (28, KU32); (29, KU32); (27, KTid); (700, KFloat4); (701, KFloat8); (790, KMoney);
    (25, KSafe); (1043, KSafe); (1042, KSafe); (142, KSafe); (4072, KSafe);
    (114, KJson); (17, KBytea); (1560, KBit); (1562, KBit);
    (1082, KDate); (1083, KTime); (1266, KTimeTZ); (1114, KTimestamp); (1184, KTimestamp);
    (1186, KInterval); (829, KMacaddr); (774, KMacaddr8); (869, KInet); (650, KInet);
    (2950, KUUID); (3220, KPgLsn); (600, KPoint); (601, KLseg); (603, KBox); (628, KLine);
    (718, KCircle); (602, KPathPoly); (604, KPathPoly); (1700, KNumeric);
    (3614, KSafe); (3615, KSafe); (3802, KJsonb);
    (3904, KRange); (3926, KRange); (3906, KRange); (3908, KRange); (3910, KRange); (3912, KRange) ].
Definition kind_of_oid (oid : Z) : kind :=
  match lookup oid scalarSwitch with Some k => k | None => KSafe (* default: safeString *) end.

(* ---------- binary.go:42-52  cstring: prefix up to the first NUL / maxLen / end ---------- *)
Fixpoint cstring_go (fuel : nat) (d : bytes) : bytes :=
  match fuel, d with
  | O, _ => []
  | _, [] => []
  | S k, b :: r => if b2z b =? 0 then [] else b :: cstring_go k r
  end.
Definition cstring (s : gslice) (maxLen : Z) : bytes := cstring_go (Z.to_nat maxLen) (vis s).

(* %v of the values a range bound can decode to *)
Definition fmt_v (v : gval) : bytes :=
  match v with
  | VI16 z | VI32 z | VI64 z | VInt z | VU16 z | VU32 z | VU64 z => fmt_d z
  | VStr s => s
  | VBool true => bs "true" | VBool false => bs "false"
  | VNil => bs "<nil>"
  | _ => bs "?unmodelled"
  end.

Definition bit (v : Z) (k : Z) : bool := Z.testbit v k.   (* v & (1<<k) != 0 *)

Section Model.
  Variable fmt_g : Z -> bytes.             (* fmt "%g" of math.Float64frombits(bits) *)
  Variable fmt_money : Z -> bytes.         (* fmt.Sprintf("$%.2f", float64(cents)/100) *)
  Variable to_valid_utf8 : bytes -> bytes. (* strings.ToValidUTF8(string(d), ".") for invalid d *)
  Variable json_unmarshal : bytes -> option gval.  (* encoding/json into interface{}; None = error *)
  Variable DecodeNumeric : bytes -> gval.          (* C05 *)
  Variable jsonb_branch : bytes -> gval.           (* types.go:293-297, C06 *)
  Variable decodeArray : bytes -> Z -> gval.       (* C07 *)

  (* types.go safeString *)
  Definition safeString (d : bytes) : bytes := if valid_utf8 d then d else to_valid_utf8 d.

  (* types.go decodePoint *)
  Definition decodePoint (s : gslice) : res bytes :=
    if len s <? 16 then Ok (bs "(?,?)") else
    x <- u64 s 0 ;; y <- u64 s 8 ;;
    Ok (bs "(" ++ fmt_g x ++ bs "," ++ fmt_g y ++ bs ")").

  (* for i := 0; i < npts; i++ { points[i] = decodePoint(data[5+i*16 : 5+(i+1)*16]) } *)
  Fixpoint path_points (n : nat) (s : gslice) (i : Z) : res (list bytes) :=
    match n with
    | O => Ok []
    | S k => sl <- slice s (5 + i * 16) (5 + (i + 1) * 16) ;; p <- decodePoint sl ;;
             r <- path_points k s (i + 1) ;; Ok (p :: r)
    end.
  (* types.go decodePathOrPolygon *)
  Definition decodePathOrPolygon (s : gslice) (oid : Z) : res bytes :=
    if len s <? 5 then Ok [] else
    c <- idx s 0 ;; n <- i32 s 1 ;;
    if (n <? 0) || (len s <? 5 + n * 16) then Ok [] else
    pts <- path_points (Z.to_nat n) s 0 ;;
    let joined := join (bs ",") pts in
    if (oid =? 604) || negb (c =? 0) then Ok (bs "(" ++ joined ++ bs ")") else Ok (bs "[" ++ joined ++ bs "]").

  (* for i := 0; i < bitlen; i++ {...} *)
  Fixpoint bits_loop (cnt : nat) (s : gslice) (i : Z) : res bytes :=
    match cnt with
    | O => Ok []
    | S k => let byteIdx := 4 + i / 8 in let bitIdx := 7 - i mod 8 in
             c <- (if byteIdx <? len s then b <- idx s byteIdx ;; Ok (bit b bitIdx) else Ok false) ;;
             r <- bits_loop k s (i + 1) ;; Ok ((if c then x31 else x30) :: r)
    end.
  (* types.go decodeBitString *)
  Definition decodeBitString (s : gslice) : res bytes :=
    if len s <? 4 then Ok [] else
    n <- i32 s 0 ;;
    if n =? 0 then Ok [] else
    if (n <? 0) || ((n + 7) / 8 >? len s - 4) then Ok [] else
    bits_loop (Z.to_nat n) s 0.

  (* types.go decodeInterval; Go's / and % truncate: Z.quot, Z.rem *)
  Definition ipart (v : Z) (unit : lit) : list bytes := if v =? 0 then [] else [fmt_d v ++ bs unit].
  Definition decodeInterval (s : gslice) : res bytes :=
    if len s <? 16 then Ok (bs "0") else
    us <- i64 s 0 ;; days <- i32 s 8 ;; months <- i32 s 12 ;;
    let parts := ipart (Z.quot months 12) "y" ++ ipart (Z.rem months 12) "mo" ++ ipart days "d"
                 ++ ipart (Z.quot us 3600000000) "h" ++ ipart (Z.rem (Z.quot us 60000000) 60) "m"
                 ++ ipart (Z.rem (Z.quot us 1000000) 60) "s" in
    match parts with [] => Ok (bs "0") | _ => Ok (join (bs " ") parts) end.

  (* types.go decodeInet.  binary.BigEndian.Uint16(data[a:a+2]) is modelled as data[a]<<8|data[a+1]:
     under the length guards a+2 <= len, so neither form can panic. *)
  Definition be16 (s : gslice) (a : Z) : res Z := h <- idx s a ;; l <- idx s (a + 1) ;; Ok (h * 256 + l).
  Fixpoint inet6_parts (n : nat) (s : gslice) (a : Z) : res (list bytes) :=
    match n with
    | O => Ok []
    | S k => v <- be16 s a ;; r <- inet6_parts k s (a + 2) ;; Ok (hex_nat false v :: r)
    end.
  Definition with_bits (addr : bytes) (bits full : Z) : bytes :=
    if negb (bits =? full) then addr ++ bs "/" ++ fmt_d bits else addr.
  Definition decodeInet (s : gslice) : res bytes :=
    if len s <? 2 then Ok [] else
    family <- idx s 0 ;; bits <- idx s 1 ;;
    if family =? 2 then
      if len s =? 6 then
        a <- idx s 2 ;; b <- idx s 3 ;; c <- idx s 4 ;; d <- idx s 5 ;;
        Ok (with_bits (join (bs ".") [fmt_d a; fmt_d b; fmt_d c; fmt_d d]) bits 32)
      else if len s >=? 8 then
        a <- idx s 4 ;; b <- idx s 5 ;; c <- idx s 6 ;; d <- idx s 7 ;;
        Ok (with_bits (join (bs ".") [fmt_d a; fmt_d b; fmt_d c; fmt_d d]) bits 32)
      else Ok (bs "inet:" ++ hex_bytes (vis s))
    else if family =? 3 then
      if len s =? 18 then
        parts <- inet6_parts 8 s 2 ;; Ok (with_bits (join (bs ":") parts) bits 128)
      else if len s >=? 20 then
        parts <- inet6_parts 8 s 4 ;; Ok (with_bits (join (bs ":") parts) bits 128)
      else Ok (bs "inet:" ++ hex_bytes (vis s))
    else Ok (bs "inet:" ++ hex_bytes (vis s)).

  (* types.go formatTimestamp; time.Unix(946684800+sec, _).UTC().Format("2006-01-02 15:04:05") *)
  Definition formatTimestamp (us : Z) : bytes :=
    if us =? 9223372036854775807 then bs "infinity"
    else if us =? -9223372036854775808 then bs "-infinity"
    else
      let sec := Z.quot us 1000000 in let rem := Z.rem us 1000000 in
      let sec := if rem <? 0 then sec - 1 else sec in
      let t := 946684800 + sec in
      let days := t / 86400 in let sod := t mod 86400 in
      fmt_date (civil_from_days days) ++ bs " " ++ fmt_hms (sod / 3600) (sod / 60 mod 60) (sod mod 60).

  Definition hms_of_us (us : Z) : bytes :=
    fmt_hms (Z.quot us 3600000000) (Z.rem (Z.quot us 60000000) 60) (Z.rem (Z.quot us 1000000) 60).

  Fixpoint idx_list (n : nat) (s : gslice) (i : Z) : res (list Z) :=
    match n with O => Ok [] | S k => b <- idx s i ;; r <- idx_list k s (i + 1) ;; Ok (b :: r) end.

  Definition hexslice (s : gslice) (lo hi : Z) : res bytes := sl <- slice s lo hi ;; Ok (hex_bytes (vis sl)).

  (* types.go decodeNumericRange *)
  Definition decodeNumericRange (flags : Z) : bytes :=
    (if bit flags 1 then bs "[" else bs "(") ++ (if bit flags 3 then bs "," else bs "?,")
    ++ (if bit flags 4 then [] else bs "?") ++ (if bit flags 2 then bs "]" else bs ")").

  (* ---- decodeScalar: one switch case ---- *)
  Definition decodeKind (rng : gslice -> Z -> res bytes) (k : kind) (s : gslice) (oid : Z) : res gval :=
    match k with
    | KBool => b <- idx s 0 ;; Ok (VBool (negb (b =? 0)))
    | KChar => sl <- slice_to s 1 ;; Ok (VStr (vis sl))
    | KName => Ok (VStr (cstring s 64))
    | KInt2 => v <- i16 s 0 ;; Ok (VI16 v)
    | KInt4 => v <- i32 s 0 ;; Ok (VI32 v)
    | KInt8 => v <- i64 s 0 ;; Ok (VI64 v)
    | KU32 => v <- u32 s 0 ;; Ok (VU32 v)
    | KTid => a <- u32 s 0 ;; b <- u16 s 4 ;; Ok (VStr (bs "(" ++ fmt_d a ++ bs "," ++ fmt_d b ++ bs ")"))
    | KFloat4 => v <- u32 s 0 ;; Ok (VF32 v)
    | KFloat8 => v <- u64 s 0 ;; Ok (VF64 v)
    | KMoney => c <- i64 s 0 ;; Ok (VStr (fmt_money c))
    | KSafe => Ok (VStr (safeString (vis s)))
    | KJson => match json_unmarshal (vis s) with Some v => Ok v | None => Ok (VStr (safeString (vis s))) end
    | KBytea => Ok (VStr (bs "\x" ++ hex_bytes (vis s)))
    | KBit => r <- decodeBitString s ;; Ok (VStr r)
    | KDate =>
        d <- i32 s 0 ;;
        if d =? 2147483647 then Ok (VStr (bs "infinity"))
        else if d =? -2147483648 then Ok (VStr (bs "-infinity"))
        else Ok (VStr (fmt_date (civil_from_days (pg_epoch_days + d))))   (* pgEpoch.AddDate(0,0,d).Format *)
    | KTime => us <- i64 s 0 ;; Ok (VStr (hms_of_us us))
    | KTimeTZ =>
        us <- i64 s 0 ;; tz <- i32 s 8 ;;
        let off0 := - tz in
        let off := if off0 <? 0 then - off0 else off0 in
        let sign := if off0 <? 0 then bs "-" else bs "+" in
        Ok (VStr (hms_of_us us ++ sign ++ fmt_0d 2 (Z.quot off 3600)
                  ++ (if negb (Z.rem off 3600 =? 0) then bs ":" ++ fmt_0d 2 (Z.quot (Z.rem off 3600) 60) else [])
                  ++ (if negb (Z.rem off 60 =? 0) then bs ":" ++ fmt_0d 2 (Z.rem off 60) else [])))
    | KTimestamp => us <- i64 s 0 ;; Ok (VStr (formatTimestamp us))
    | KInterval => r <- decodeInterval s ;; Ok (VStr r)
    | KMacaddr => l <- idx_list 6 s 0 ;; Ok (VStr (join (bs ":") (map hex2 l)))
    | KMacaddr8 => l <- idx_list 8 s 0 ;; Ok (VStr (join (bs ":") (map hex2 l)))
    | KInet => r <- decodeInet s ;; Ok (VStr r)
    | KUUID =>
        a <- hexslice s 0 4 ;; b <- hexslice s 4 6 ;; c <- hexslice s 6 8 ;; d <- hexslice s 8 10 ;;
        e <- hexslice s 10 16 ;; Ok (VStr (join (bs "-") [a; b; c; d; e]))
    | KPgLsn => a <- u32 s 0 ;; b <- u32 s 4 ;; Ok (VStr (hex_nat true a ++ bs "/" ++ hex_nat true b))
    | KPoint => r <- decodePoint s ;; Ok (VStr r)
    | KLseg =>
        s1 <- slice s 0 16 ;; p1 <- decodePoint s1 ;; s2 <- slice s 16 32 ;; p2 <- decodePoint s2 ;;
        Ok (VStr (bs "[" ++ p1 ++ bs "," ++ p2 ++ bs "]"))
    | KBox =>
        s1 <- slice s 0 16 ;; p1 <- decodePoint s1 ;; s2 <- slice s 16 32 ;; p2 <- decodePoint s2 ;;
        Ok (VStr (bs "(" ++ p1 ++ bs "),(" ++ p2 ++ bs ")"))
    | KLine =>
        a <- u64 s 0 ;; b <- u64 s 8 ;; c <- u64 s 16 ;;
        Ok (VStr (bs "{" ++ fmt_g a ++ bs "," ++ fmt_g b ++ bs "," ++ fmt_g c ++ bs "}"))
    | KCircle =>
        s1 <- slice s 0 16 ;; p <- decodePoint s1 ;; r <- u64 s 16 ;;
        Ok (VStr (bs "<" ++ p ++ bs "," ++ fmt_g r ++ bs ">"))
    | KPathPoly => r <- decodePathOrPolygon s oid ;; Ok (VStr r)
    | KNumeric => Ok (DecodeNumeric (vis s))
    | KJsonb => Ok (jsonb_branch (vis s))
    | KRange => r <- rng s oid ;; Ok (VStr r)
    end.

  (* types.go:161-166 + switch *)
  Definition decodeScalar_gen (rng : gslice -> Z -> res bytes) (s : gslice) (oid : Z) : res gval :=
    match lookup oid fixedLengths with
    | Some n => if len s <? n then Ok VNil else decodeKind rng (kind_of_oid oid) s oid
    | None => decodeKind rng (kind_of_oid oid) s oid
    end.
  (* types.go:151-159 *)
  Definition DecodeType_gen (rng : gslice -> Z -> res bytes) (s : gslice) (oid : Z) : res gval :=
    if len s =? 0 then Ok VNil else
    match lookup oid arrayElemTypes with
    | Some e => Ok (decodeArray (vis s) e)
    | None => decodeScalar_gen rng s oid
    end.

  (* DecodeType as called by decodeRange on a bound: the element oids 23/20/1082/1114/1184 never
     reach the range case again, so the recursion is cut here. *)
  Definition DecodeType_elem : gslice -> Z -> res gval := DecodeType_gen (fun _ _ => Ok []).

  (* types.go decodeRange *)
  Definition range_render (lbInc ubInc lbInf ubInf : bool) (lb ub : bytes) : bytes :=
    (if lbInc then bs "[" else bs "(") ++ (if lbInf then bs "," else lb ++ bs ",")
    ++ (if negb ubInf then ub else []) ++ (if ubInc then bs "]" else bs ")").
  Definition range_elem (oid : Z) : option (Z * Z) :=
    if oid =? 3904 then Some (23, 4) else if oid =? 3926 then Some (20, 8)
    else if oid =? 3912 then Some (1082, 4) else if oid =? 3908 then Some (1114, 8)
    else if oid =? 3910 then Some (1184, 8) else None.
  Definition decodeRange (s : gslice) (oid : Z) : res bytes :=
    if len s <? 5 then Ok (bs "empty") else
    flags <- idx s (len s - 1) ;;
    if bit flags 0 then Ok (bs "empty") else
    let lbInc := bit flags 1 in let ubInc := bit flags 2 in
    let lbInf := bit flags 3 in let ubInf := bit flags 4 in
    match range_elem oid with
    | None => if oid =? 3906 then Ok (decodeNumericRange flags) else Ok (bs "range:" ++ hex_bytes (vis s))
    | Some (elemOid, elemSize) =>
      let dataEnd := len s - 1 in
      let upper (lb : bytes) (offset : Z) : res bytes :=
        if negb ubInf then
          let offset := if elemSize >? 1 then go_align (offset + 4) elemSize - 4 else offset in
          if offset + elemSize >? dataEnd then Ok (bs "[?,?]") else
          sl <- slice s offset (offset + elemSize) ;; v <- DecodeType_elem sl elemOid ;;
          Ok (range_render lbInc ubInc lbInf ubInf lb (fmt_v v))
        else Ok (range_render lbInc ubInc lbInf ubInf lb []) in
      if negb lbInf then
        if 4 + elemSize >? dataEnd then Ok (bs "[?,?]") else
        sl <- slice s 4 (4 + elemSize) ;; v <- DecodeType_elem sl elemOid ;;
        upper (fmt_v v) (4 + elemSize)
      else upper [] 4
    end.

  Definition decodeScalar : gslice -> Z -> res gval := decodeScalar_gen decodeRange.
  Definition DecodeType : gslice -> Z -> res gval := DecodeType_gen decodeRange.
End Model.
