(* C04/TextProofs.v — name, text family, bytea, json, bit strings. *)
Require Import PG.Base.Bytes PG.Base.GoSlice PG.Base.Value PG.C04.Lib PG.C04.Model PG.C04.Spec PG.C04.LibProofs.

Lemma cstring_go_prefix : forall (n : bytes) fuel r,
  Forall (fun b => b2z b <> 0) n -> (length n < fuel)%nat -> cstring_go fuel (n ++ x00 :: r) = n.
Proof.
  induction n as [|b n IH]; intros fuel r Hf Hl.
  - destruct fuel; [cbn in Hl; lia|]. reflexivity.
  - destruct fuel; [cbn in Hl; lia|]. inversion Hf as [|? ? Hb Hn]; subst.
    cbn [app cstring_go]. destruct (b2z b =? 0) eqn:E; [lia|]. f_equal. apply IH; auto. cbn in Hl. lia.
Qed.

Lemma nth_seq_map {A} (l : list A) d : map (fun k => nth k l d) (seq 0 (length l)) = l.
Proof.
  induction l as [|x l IH]; [reflexivity|]. cbn [length seq map nth]. f_equal.
  rewrite <- seq_shift, map_map. exact IH.
Qed.

Definition b2i (b : bool) : Z := if b then 1 else 0.
Lemma testbit_byte b0 b1 b2 b3 b4 b5 b6 b7 k : (k < 8)%nat ->
  Z.testbit (128 * b2i b0 + 64 * b2i b1 + 32 * b2i b2 + 16 * b2i b3 + 8 * b2i b4 + 4 * b2i b5 + 2 * b2i b6 + b2i b7)
            (7 - Z.of_nat k) = nth k [b0; b1; b2; b3; b4; b5; b6; b7] false.
Proof.
  intros Hk. do 8 (destruct k as [|k]; [destruct b0, b1, b2, b3, b4, b5, b6, b7; reflexivity|]). lia.
Qed.
Lemma byte_sum_range b0 b1 b2 b3 b4 b5 b6 b7 :
  0 <= 128 * b2i b0 + 64 * b2i b1 + 32 * b2i b2 + 16 * b2i b3 + 8 * b2i b4 + 4 * b2i b5 + 2 * b2i b6 + b2i b7 < 256.
Proof. destruct b0, b1, b2, b3, b4, b5, b6, b7; cbn; lia. Qed.

Lemma bits_byte_range l j : 0 <= bits_byte l j < 256.
Proof. unfold bits_byte, bit_at. apply (byte_sum_range (nth _ l false) (nth _ l false) (nth _ l false) (nth _ l false)
  (nth _ l false) (nth _ l false) (nth _ l false) (nth _ l false)). Qed.
Lemma bits_byte_bit l j k : (k < 8)%nat -> bit (bits_byte l j) (7 - Z.of_nat k) = nth (8 * j + k) l false.
Proof.
  intros Hk. unfold bit, bits_byte, bit_at. fold (b2i (nth (8 * j) l false)).
  fold (b2i (nth (8 * j + 1) l false)). fold (b2i (nth (8 * j + 2) l false)). fold (b2i (nth (8 * j + 3) l false)).
  fold (b2i (nth (8 * j + 4) l false)). fold (b2i (nth (8 * j + 5) l false)). fold (b2i (nth (8 * j + 6) l false)).
  fold (b2i (nth (8 * j + 7) l false)).
  rewrite testbit_byte by auto.
  do 8 (destruct k as [|k]; [cbn [nth]; f_equal; lia|]). lia.
Qed.

Section P.
  Variable fmt_g : Z -> bytes.
  Variable fmt_money : Z -> bytes.
  Variable to_valid_utf8 : bytes -> bytes.
  Variable json_unmarshal : bytes -> option gval.
  Variable DecodeNumeric : bytes -> gval.
  Variable jsonb_branch : bytes -> gval.
  Variable decodeArray : bytes -> Z -> gval.
  Notation DecodeType := (DecodeType fmt_g fmt_money to_valid_utf8 json_unmarshal DecodeNumeric jsonb_branch decodeArray).

  Lemma name_ok n t : wf_name n -> DecodeType {| vis := enc_name n; tail := t |} 19 = Ok (exp_name n).
  Proof.
    intros [Hl Hf]. pose proof (blen_nonneg n).
    assert (L : blen (enc_name n) = 64) by (unfold enc_name; bl; lia).
    dispatch KName.
    unfold cstring, exp_name. cbn [vis]. do 2 f_equal. unfold enc_name, zeros.
    replace (Z.to_nat (64 - blen n)) with (S (Z.to_nat (63 - blen n))) by lia. cbn [repeat].
    apply cstring_go_prefix; auto. unfold blen in *. lia.
  Qed.

  Lemma text_ok oid s t : oid = 25 \/ oid = 1043 \/ oid = 1042 \/ oid = 142 -> valid_utf8 s = true -> 0 < blen s ->
    DecodeType {| vis := enc_text s; tail := t |} oid = Ok (exp_text s).
  Proof.
    intros O V L. unfold enc_text.
    destruct O as [->|[->|[->| ->]]]; dispatch KSafe; unfold safeString; cbn [vis]; rewrite V; reflexivity.
  Qed.

  Lemma bytea_ok d t : 0 < blen d -> DecodeType {| vis := d; tail := t |} 17 = Ok (exp_bytea d).
  Proof. intros L. dispatch KBytea. reflexivity. Qed.

  Lemma json_ok d doc t : 0 < blen d -> json_unmarshal d = Some doc -> DecodeType {| vis := d; tail := t |} 114 = Ok doc.
  Proof. intros L J. dispatch KJson. cbn [vis]. rewrite J. reflexivity. Qed.

  (* ---- bit strings ---- *)
  Definition nbytes (l : list bool) : nat := ((length l + 7) / 8)%nat.
  Lemma enc_bits_len l : blen (enc_bits l) = 4 + Z.of_nat (nbytes l).
  Proof. unfold enc_bits, nbytes. bl. rewrite seq_length. lia. Qed.

  Lemma enc_bits_byte l j t : (j < nbytes l)%nat ->
    idx {| vis := enc_bits l; tail := t |} (4 + Z.of_nat j) = Ok (bits_byte l j).
  Proof.
    intros Hj. rewrite idx_ok by (unfold len; cbn [vis]; rewrite enc_bits_len; lia).
    cbn [vis]. unfold enc_bits. rewrite byte_at_app_r by (bl; lia). bl.
    replace (4 + Z.of_nat j - Z.of_nat 4) with (Z.of_nat j) by lia.
    unfold byte_at. rewrite Nat2Z.id. fold (nbytes l).
    rewrite (nth_indep _ x00 (z2b (bits_byte l 0))) by (rewrite map_length, seq_length; lia).
    rewrite (map_nth (fun j => z2b (bits_byte l j))). rewrite seq_nth by lia. cbn [Nat.add].
    rewrite b2z_z2b. rewrite Z.mod_small by apply bits_byte_range. reflexivity.
  Qed.

  Lemma bits_loop_ok l t : forall cnt i, (i + cnt = length l)%nat ->
    bits_loop cnt {| vis := enc_bits l; tail := t |} (Z.of_nat i) =
    Ok (map (fun k => if nth k l false then x31 else x30) (seq i cnt)).
  Proof.
    induction cnt as [|cnt IH]; intros i Hi; [reflexivity|].
    cbn [bits_loop seq map]. cbv zeta.
    set (j := (i / 8)%nat). set (k := (i mod 8)%nat).
    assert (Hjk : i = (8 * j + k)%nat) by (unfold j, k; apply Nat.div_mod; lia).
    assert (Hk : (k < 8)%nat) by (unfold k; apply Nat.mod_upper_bound; lia).
    assert (Hj : (j < nbytes l)%nat).
    { unfold nbytes. apply Nat.div_lt_upper_bound; [lia|].
      pose proof (Nat.div_mod (length l + 7) 8 ltac:(lia)). pose proof (Nat.mod_upper_bound (length l + 7) 8 ltac:(lia)). lia. }
    assert (Zj : Z.of_nat i / 8 = Z.of_nat j) by lia.
    assert (Zk : Z.of_nat i mod 8 = Z.of_nat k) by lia.
    rewrite Zj, Zk.
    destruct (4 + Z.of_nat j <? len {| vis := enc_bits l; tail := t |}) eqn:E.
    2:{ unfold len in E. cbn [vis] in E. rewrite enc_bits_len in E. lia. }
    rewrite enc_bits_byte by auto. cbn [bind]. rewrite bits_byte_bit by auto. rewrite <- Hjk.
    replace (Z.of_nat i + 1) with (Z.of_nat (S i)) by lia. rewrite IH by lia. reflexivity.
  Qed.

  Lemma bits_ok oid l t : oid = 1560 \/ oid = 1562 -> Z.of_nat (length l) < 2 ^ 31 ->
    DecodeType {| vis := enc_bits l; tail := t |} oid = Ok (exp_bits l).
  Proof.
    intros O Hl.
    assert (D : decodeBitString {| vis := enc_bits l; tail := t |} = Ok (map (fun b : bool => if b then x31 else x30) l)).
    { unfold decodeBitString. unfold len at 1. cbn [vis]. rewrite enc_bits_len.
      destruct (4 + Z.of_nat (nbytes l) <? 4) eqn:E; [lia|].
      rewrite (read_i32 _ 0 (Z.of_nat (length l))); [|lia| |unfold in_s; lia].
      2:{ cbn [vis]. unfold enc_bits, enc_int. change (8 * Z.of_nat 4) with 32. unfold wrap. rewrite Z.mod_small by lia. ssub. }
      cbn [bind]. destruct (Z.of_nat (length l) =? 0) eqn:E0.
      { destruct l; [reflexivity|cbn in E0; lia]. }
      unfold len. cbn [vis]. rewrite enc_bits_len.
      assert (N : (Z.of_nat (length l) + 7) / 8 = Z.of_nat (nbytes l)).
      { unfold nbytes. rewrite Nat2Z.inj_div. f_equal. lia. }
      rewrite N. destruct ((Z.of_nat (length l) <? 0) || (Z.of_nat (nbytes l) >? 4 + Z.of_nat (nbytes l) - 4)) eqn:E1; [lia|].
      rewrite Nat2Z.id. pose proof (bits_loop_ok l t (length l) 0%nat ltac:(lia)) as B. change (Z.of_nat 0) with 0 in B. rewrite B.
      f_equal. transitivity (map (fun b : bool => if b then x31 else x30) (map (fun k => nth k l false) (seq 0 (length l)))).
      - rewrite map_map. reflexivity.
      - rewrite nth_seq_map. reflexivity. }
    destruct O as [-> | ->]; dispatch KBit; try (rewrite enc_bits_len; lia); rewrite D; reflexivity.
  Qed.
End P.
