(* C04/NetProofs.v — inet/cidr and interval. *)
Require Import PG.Base.Bytes PG.Base.GoSlice PG.Base.Value PG.C04.Lib PG.C04.Model PG.C04.Spec PG.C04.LibProofs.

Ltac rdc i x := rewrite (read_idx _ i x); [cbn [bind] | lia | try reflexivity].

Lemma inet6_parts_ok : forall n (l : bytes) s a, length l = (2 * n)%nat -> 0 <= a ->
  sub (vis s) a (a + blen l) = l -> inet6_parts n s a = Ok (map (hex_nat false) (groups16 l)).
Proof.
  induction n as [|n IH]; intros l s a Hl Ha Hs.
  - destruct l; [reflexivity|cbn in Hl; lia].
  - destruct l as [|h [|lo r]]; try (cbn in Hl; lia).
    cbn [inet6_parts groups16 map]. rewrite !blen_cons in Hs. pose proof (blen_nonneg r).
    assert (L : blen (sub (vis s) a (a + (1 + (1 + blen r)))) = 2 + blen r) by (rewrite Hs; bl; lia).
    destruct (sub_len_bound (vis s) a (a + (1 + (1 + blen r)))) as [HB|HB]; try lia.
    rewrite (sub_split _ a (a + 1)) in Hs by lia. rewrite (sub_split _ (a + 1) (a + 1 + 1)) in Hs by lia.
    rewrite (byte_at_sub _ a) in Hs by lia. rewrite (byte_at_sub _ (a + 1)) in Hs by lia.
    cbn [app] in Hs. injection Hs as H1 H2 H3.
    unfold be16. rewrite (read_idx s a h); [|lia|rewrite byte_at_sub by lia; congruence]. cbn [bind].
    rewrite (read_idx s (a + 1) lo); [|lia|rewrite byte_at_sub by lia; congruence].
    cbn [bind]. rewrite (IH r); [reflexivity|cbn in Hl; lia|lia|].
    transitivity (sub (vis s) (a + 1 + 1) (a + (1 + (1 + blen r)))); [f_equal; lia|exact H3].
Qed.

Lemma ipart_filter v u : ipart v u = map (fun p : Z * lit => fmt_d (fst p) ++ bs (snd p)) (filter (fun p => negb (fst p =? 0)) [(v, u)]).
Proof. unfold ipart. cbn [filter fst]. destruct (v =? 0); reflexivity. Qed.

Lemma quot_sub_nonneg b : 0 <= b ->
  Z.quot (b - Z.quot b 3600000000 * 3600000000) 60000000 = Z.rem (Z.quot b 60000000) 60 /\
  Z.quot (b - Z.quot b 3600000000 * 3600000000 - Z.rem (Z.quot b 60000000) 60 * 60000000) 1000000 = Z.rem (Z.quot b 1000000) 60.
Proof.
  intros Hb.
  rewrite (Z.quot_div_nonneg b 3600000000), (Z.quot_div_nonneg b 60000000), (Z.quot_div_nonneg b 1000000) by lia.
  rewrite (Z.rem_mod_nonneg (b / 60000000) 60), (Z.rem_mod_nonneg (b / 1000000) 60) by (try apply Z.div_pos; lia).
  assert (0 <= b - b / 3600000000 * 3600000000) by lia.
  assert (0 <= b - b / 3600000000 * 3600000000 - b / 60000000 mod 60 * 60000000) by lia.
  rewrite !Z.quot_div_nonneg by lia. split; lia.
Qed.
Lemma quot_sub_both a :
  Z.quot (a - Z.quot a 3600000000 * 3600000000) 60000000 = Z.rem (Z.quot a 60000000) 60 /\
  Z.quot (a - Z.quot a 3600000000 * 3600000000 - Z.rem (Z.quot a 60000000) 60 * 60000000) 1000000 = Z.rem (Z.quot a 1000000) 60.
Proof.
  destruct (Z_lt_ge_dec a 0) as [N|N]; [|apply quot_sub_nonneg; lia].
  destruct (quot_sub_nonneg (- a) ltac:(lia)) as [A B].
  rewrite !Z.quot_opp_l in A, B by lia. rewrite !Z.rem_opp_l in A, B by lia.
  set (q1 := Z.quot a 3600000000) in *. set (r2 := Z.rem (Z.quot a 60000000) 60) in *.
  replace (- a - - q1 * 3600000000) with (- (a - q1 * 3600000000)) in A, B by lia.
  rewrite Z.quot_opp_l in A by lia.
  replace (- (a - q1 * 3600000000) - - r2 * 60000000) with (- (a - q1 * 3600000000 - r2 * 60000000)) in B by lia.
  rewrite Z.quot_opp_l in B by lia. rewrite (Z.quot_opp_l a 1000000) in B by lia. rewrite Z.rem_opp_l in B by lia. split; lia.
Qed.
Lemma quot_sub_min a : Z.quot (a - Z.quot a 3600000000 * 3600000000) 60000000 = Z.rem (Z.quot a 60000000) 60.
Proof. apply quot_sub_both. Qed.
Lemma quot_sub_sec a :
  Z.quot (a - Z.quot a 3600000000 * 3600000000 - Z.rem (Z.quot a 60000000) 60 * 60000000) 1000000 = Z.rem (Z.quot a 1000000) 60.
Proof. apply quot_sub_both. Qed.

Section P.
  Variable fmt_g : Z -> bytes.
  Variable fmt_money : Z -> bytes.
  Variable to_valid_utf8 : bytes -> bytes.
  Variable json_unmarshal : bytes -> option gval.
  Variable DecodeNumeric : bytes -> gval.
  Variable jsonb_branch : bytes -> gval.
  Variable decodeArray : bytes -> Z -> gval.
  Notation DecodeType := (DecodeType fmt_g fmt_money to_valid_utf8 json_unmarshal DecodeNumeric jsonb_branch decodeArray).

  Lemma decodeInet_ok v t : wf_inet v -> decodeInet {| vis := enc_inet v; tail := t |} = Ok (txt_inet v).
  Proof.
    destruct v as [bits a b c d|bits addr]; cbn [wf_inet enc_inet txt_inet]; unfold in_u.
    - intros (Hb & Ha & Hbb & Hc & Hd). unfold decodeInet.
      change (len {| vis := [z2b 2; z2b bits; z2b a; z2b b; z2b c; z2b d]; tail := t |}) with 6.
      change (6 <? 2) with false. cbv iota.
      rdc 0 (z2b 2). rdc 1 (z2b bits). change (b2z (z2b 2) =? 2) with true. cbv iota.
      change (6 =? 6) with true. cbv iota.
      rdc 2 (z2b a). rdc 3 (z2b b). rdc 4 (z2b c). rdc 5 (z2b d).
      rewrite !b2z_z2b. rewrite !Z.mod_small by lia.
      f_equal. unfold with_bits. cbn [join]. destruct (bits =? 32); cbn [negb].
      + rewrite app_nil_r. reflexivity.
      + rewrite <- !app_assoc. reflexivity.
    - intros (Hb & Hl). unfold decodeInet.
      assert (L : len {| vis := [z2b 3; z2b bits] ++ addr; tail := t |} = 18) by (unfold len; cbn [vis]; bl; lia).
      rewrite !L. change (18 <? 2) with false. cbv iota.
      rdc 0 (z2b 3). rdc 1 (z2b bits). change (b2z (z2b 3) =? 2) with false. change (b2z (z2b 3) =? 3) with true. cbv iota.
      change (18 =? 18) with true. cbv iota.
      rewrite (inet6_parts_ok 8 addr); [|unfold blen in Hl; lia|lia|].
      2:{ cbn [vis]. rewrite Hl. change ([z2b 3; z2b bits] ++ addr) with ([z2b 3; z2b bits] ++ addr). ssub. }
      cbn [bind]. rewrite b2z_z2b, Z.mod_small by lia. f_equal. unfold with_bits.
      destruct (bits =? 128); cbn [negb]; [rewrite app_nil_r|]; reflexivity.
  Qed.

  Lemma inet_ok oid v t : oid = 869 \/ oid = 650 -> wf_inet v ->
    DecodeType {| vis := enc_inet v; tail := t |} oid = Ok (exp_inet v).
  Proof.
    intros O H. pose proof (decodeInet_ok v t H) as D.
    assert (L : 0 < blen (enc_inet v)).
    { destruct v as [? ? ? ? ?|? addr]; cbn [enc_inet]; bl; [lia|pose proof (blen_nonneg addr); lia]. }
    destruct O as [-> | ->]; dispatch KInet; rewrite D; reflexivity.
  Qed.

  (* ---- interval ---- *)
  Lemma interval_ok v t : wf_ival v -> DecodeType {| vis := enc_interval v; tail := t |} 1186 = Ok (exp_interval v).
  Proof.
    intros (Hu & Hd & Hm). dispatch KInterval. unfold decodeInterval.
    assert (L : len {| vis := enc_interval v; tail := t |} = 16) by slen.
    rewrite L. change (16 <? 16) with false. cbv iota.
    rd read_i64 0 (i_us v). rd read_i32 8 (i_days v). rd read_i32 12 (i_months v).
    unfold exp_interval, txt_interval.
    rewrite !ipart_filter. rewrite <- !map_app. rewrite <- !filter_app. cbn [app].
    assert (E : ival_parts v =
      [(Z.quot (i_months v) 12, "y"%lit); (Z.rem (i_months v) 12, "mo"%lit); (i_days v, "d"%lit);
       (Z.quot (i_us v) 3600000000, "h"%lit); (Z.rem (Z.quot (i_us v) 60000000) 60, "m"%lit);
       (Z.rem (Z.quot (i_us v) 1000000) 60, "s"%lit)]).
    { unfold ival_parts. cbv zeta.
      assert (A : i_months v - Z.quot (i_months v) 12 * 12 = Z.rem (i_months v) 12) by (pose proof (Z.quot_rem' (i_months v) 12); lia).
      rewrite A. rewrite quot_sub_min. rewrite quot_sub_sec. reflexivity. }
    rewrite <- E.
    destruct (filter _ (ival_parts v)) as [|p r]; reflexivity.
  Qed.
End P.
