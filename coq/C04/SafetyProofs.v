(* C04/SafetyProofs.v — DecodeType never panics: every byte string, every capacity tail, every oid.
   (Sub-decoders owned by other properties are total functions here by construction; their own
   no-panic theorems live with C05/C06/C07.) *)
Require Import PG.Base.Bytes PG.Base.GoSlice PG.Base.Value PG.C04.Lib PG.C04.Model PG.C04.Spec PG.C04.LibProofs.

Definition minlen (k : kind) : Z :=
  match k with
  | KBool | KChar => 1 | KInt2 => 2 | KInt4 | KU32 | KFloat4 | KDate => 4 | KTid | KMacaddr => 6
  | KInt8 | KFloat8 | KMoney | KTime | KTimestamp | KMacaddr8 | KPgLsn => 8 | KTimeTZ => 12 | KUUID => 16
  | KLine | KCircle => 24 | KLseg | KBox => 32 | _ => 0
  end.

Lemma kind_minlen oid :
  minlen (kind_of_oid oid) <= match lookup oid fixedLengths with Some n => n | None => 0 end.
Proof.
  unfold kind_of_oid, scalarSwitch, fixedLengths. cbn [lookup].
  repeat match goal with
  | |- context [oid =? ?k] => destruct (Z.eqb_spec oid k); [subst; cbn; lia|]
  end.
  cbn. lia.
Qed.

Ltac np_u :=
  match goal with
  | |- context [uN ?n ?s ?off] =>
      let v := fresh "v" in let E := fresh "E" in
      destruct (uN_ok n s off) as [v E]; [lia|cbn [Z.of_nat Pos.of_succ_nat Pos.succ]; lia|rewrite E; cbn [bind]]
  end.
Ltac np_idx := match goal with |- context [idx ?s ?i] => rewrite (idx_ok s i) by lia; cbn [bind] end.
Ltac np_slice :=
  match goal with
  | |- context [slice ?s ?lo ?hi] =>
      let r := fresh "r" in let E := fresh "E" in
      destruct (slice_ok s lo hi) as [r E]; [lia|lia|pose proof (len_le_cap s); lia|rewrite E; cbn [bind]]
  end.
Ltac unf_u := unfold i16, i32, i64, u16, u32, u64 in *.

Lemma idx_list_np : forall n s i, 0 <= i -> i + Z.of_nat n <= len s -> exists l, idx_list n s i = Ok l.
Proof.
  induction n as [|n IH]; intros s i Hi Hl; [eexists; reflexivity|].
  cbn [idx_list]. rewrite idx_ok by lia. cbn [bind].
  destruct (IH s (i + 1)) as [l ->]; [lia|lia|]. cbn [bind]. eexists; reflexivity.
Qed.
Lemma inet6_parts_np : forall n s a, 0 <= a -> a + 2 * Z.of_nat n <= len s -> exists l, inet6_parts n s a = Ok l.
Proof.
  induction n as [|n IH]; intros s a Ha Hl; [eexists; reflexivity|].
  cbn [inet6_parts]. unfold be16. rewrite !idx_ok by lia. cbn [bind].
  destruct (IH s (a + 2)) as [l ->]; [lia|lia|]. cbn [bind]. eexists; reflexivity.
Qed.
Lemma bits_loop_np : forall cnt s i, 0 <= i -> exists r, bits_loop cnt s i = Ok r.
Proof.
  induction cnt as [|cnt IH]; intros s i Hi; [eexists; reflexivity|].
  cbn [bits_loop]. cbv zeta.
  destruct (4 + i / 8 <? len s) eqn:E.
  - rewrite idx_ok by lia. cbn [bind]. destruct (IH s (i + 1)) as [r ->]; [lia|]. cbn [bind]. eexists; reflexivity.
  - cbn [bind]. destruct (IH s (i + 1)) as [r ->]; [lia|]. cbn [bind]. eexists; reflexivity.
Qed.

Section P.
  Variable fmt_g : Z -> bytes.
  Variable fmt_money : Z -> bytes.
  Variable to_valid_utf8 : bytes -> bytes.
  Variable json_unmarshal : bytes -> option gval.
  Variable DecodeNumeric : bytes -> gval.
  Variable jsonb_branch : bytes -> gval.
  Variable decodeArray : bytes -> Z -> gval.
  Notation DecodeType := (DecodeType fmt_g fmt_money to_valid_utf8 json_unmarshal DecodeNumeric jsonb_branch decodeArray).
  Notation DecodeType_gen := (DecodeType_gen fmt_g fmt_money to_valid_utf8 json_unmarshal DecodeNumeric jsonb_branch decodeArray).
  Notation decodeKind := (decodeKind fmt_g fmt_money to_valid_utf8 json_unmarshal DecodeNumeric jsonb_branch).
  Notation decodeRange := (decodeRange fmt_g fmt_money to_valid_utf8 json_unmarshal DecodeNumeric jsonb_branch decodeArray).
  Notation decodePoint := (decodePoint fmt_g).
  Notation decodePathOrPolygon := (decodePathOrPolygon fmt_g).

  Lemma decodePoint_np s : exists r, decodePoint s = Ok r.
  Proof.
    unfold decodePoint. destruct (len s <? 16) eqn:E; [eexists; reflexivity|]. unf_u.
    np_u. np_u. eexists; reflexivity.
  Qed.

  Lemma path_points_np : forall n s i, 0 <= i -> 5 + (i + Z.of_nat n) * 16 <= len s ->
    exists l, path_points fmt_g n s i = Ok l.
  Proof.
    induction n as [|n IH]; intros s i Hi Hl; [eexists; reflexivity|].
    cbn [path_points]. np_slice. destruct (decodePoint_np r) as [p ->]. cbn [bind].
    destruct (IH s (i + 1)) as [l ->]; [lia|lia|]. cbn [bind]. eexists; reflexivity.
  Qed.

  Lemma decodePathOrPolygon_np s oid : exists r, decodePathOrPolygon s oid = Ok r.
  Proof.
    unfold decodePathOrPolygon. destruct (len s <? 5) eqn:E; [eexists; reflexivity|].
    np_idx. unf_u. np_u.
    destruct ((sint32 v <? 0) || (len s <? 5 + sint32 v * 16)) eqn:G; [eexists; reflexivity|].
    destruct (path_points_np (Z.to_nat (sint32 v)) s 0) as [l ->]; [lia|lia|]. cbn [bind].
    destruct ((oid =? 604) || _); eexists; reflexivity.
  Qed.

  Lemma decodeBitString_np s : exists r, decodeBitString s = Ok r.
  Proof.
    unfold decodeBitString. destruct (len s <? 4) eqn:E; [eexists; reflexivity|]. unf_u. np_u.
    destruct (sint32 v =? 0); [eexists; reflexivity|]. destruct (_ || _); [eexists; reflexivity|].
    apply bits_loop_np. lia.
  Qed.

  Lemma decodeInterval_np s : exists r, decodeInterval s = Ok r.
  Proof.
    unfold decodeInterval. destruct (len s <? 16) eqn:E; [eexists; reflexivity|]. unf_u. np_u. np_u. np_u.
    destruct (_ ++ _); eexists; reflexivity.
  Qed.

  Lemma decodeInet_np s : exists r, decodeInet s = Ok r.
  Proof.
    unfold decodeInet. destruct (len s <? 2) eqn:E; [eexists; reflexivity|]. np_idx. np_idx.
    destruct (_ =? 2).
    - destruct (len s =? 6) eqn:E6; [rewrite !idx_ok by lia; cbn [bind]; eexists; reflexivity|].
      destruct (len s >=? 8) eqn:E8; [rewrite !idx_ok by lia; cbn [bind]; eexists; reflexivity|]. eexists; reflexivity.
    - destruct (_ =? 3); [|eexists; reflexivity].
      destruct (len s =? 18) eqn:E18.
      { destruct (inet6_parts_np 8 s 2) as [l ->]; [lia|lia|]. cbn [bind]. eexists; reflexivity. }
      destruct (len s >=? 20) eqn:E20; [|eexists; reflexivity].
      destruct (inet6_parts_np 8 s 4) as [l ->]; [lia|lia|]. cbn [bind]. eexists; reflexivity.
  Qed.

  Lemma decodeKind_np rng k s oid : (forall s o, rng s o <> Panic) -> 1 <= len s -> minlen k <= len s ->
    decodeKind rng k s oid <> Panic.
  Proof.
    intros R L1 L. destruct k; cbn [decodeKind minlen] in *; unf_u; unfold hexslice, slice_to;
      try discriminate;
      try (repeat first [np_u | np_idx | np_slice]; discriminate).
    - (* json *) destruct (json_unmarshal _); discriminate.
    - destruct (decodeBitString_np s) as [r ->]. discriminate.
    - (* date *) np_u. destruct (_ =? 2147483647); [discriminate|]. destruct (_ =? -2147483648); discriminate.
    - destruct (decodeInterval_np s) as [r ->]. discriminate.
    - destruct (idx_list_np 6 s 0) as [l ->]; [lia|cbn; lia|]. discriminate.
    - destruct (idx_list_np 8 s 0) as [l ->]; [lia|cbn; lia|]. discriminate.
    - destruct (decodeInet_np s) as [r ->]. discriminate.
    - destruct (decodePoint_np s) as [r ->]. discriminate.
    - np_slice. destruct (decodePoint_np r) as [p ->]. cbn [bind]. np_slice. destruct (decodePoint_np r0) as [q ->]. discriminate.
    - np_slice. destruct (decodePoint_np r) as [p ->]. cbn [bind]. np_slice. destruct (decodePoint_np r0) as [q ->]. discriminate.
    - np_slice. destruct (decodePoint_np r) as [p ->]. cbn [bind]. np_u. discriminate.
    - destruct (decodePathOrPolygon_np s oid) as [r ->]. discriminate.
    - specialize (R s oid). destruct (rng s oid); [discriminate|congruence].
  Qed.

  Lemma DecodeType_gen_np rng : (forall s o, rng s o <> Panic) -> forall s oid, DecodeType_gen rng s oid <> Panic.
  Proof.
    intros R s oid. unfold DecodeType_gen. pose proof (len_nonneg s).
    destruct (len s =? 0) eqn:E; [discriminate|].
    destruct (lookup oid arrayElemTypes); [discriminate|].
    unfold decodeScalar_gen. pose proof (kind_minlen oid) as K.
    destruct (lookup oid fixedLengths) as [n|].
    - destruct (len s <? n) eqn:E2; [discriminate|]. apply decodeKind_np; auto; lia.
    - apply decodeKind_np; auto; lia.
  Qed.

  Lemma decodeRange_np s oid : decodeRange s oid <> Panic.
  Proof.
    unfold decodeRange. destruct (len s <? 5) eqn:E; [discriminate|]. np_idx.
    destruct (bit _ 0); [discriminate|].
    destruct (range_elem oid) as [[eo size]|] eqn:RE; [|destruct (oid =? 3906); discriminate].
    assert (SZ : size = 4 \/ size = 8).
    { revert RE. unfold range_elem.
      destruct (oid =? 3904). { intros RE; injection RE as H1 H2; lia. }
      destruct (oid =? 3926). { intros RE; injection RE as H1 H2; lia. }
      destruct (oid =? 3912). { intros RE; injection RE as H1 H2; lia. }
      destruct (oid =? 3908). { intros RE; injection RE as H1 H2; lia. }
      destruct (oid =? 3910). { intros RE; injection RE as H1 H2; lia. }
      intros RE; discriminate RE. }
    cbv zeta.
    assert (EL : forall sl o, DecodeType_elem fmt_g fmt_money to_valid_utf8 json_unmarshal DecodeNumeric jsonb_branch decodeArray sl o <> Panic).
    { intros sl o. apply DecodeType_gen_np. discriminate. }
    assert (UP : forall lb offset, 4 <= offset ->
      (if negb (bit (byte_at (vis s) (len s - 1)) 4)
       then let offset0 := if size >? 1 then go_align (offset + 4) size - 4 else offset in
            if offset0 + size >? len s - 1 then Ok (bs "[?,?]")
            else sl <- slice s offset0 (offset0 + size);;
                 v <- DecodeType_elem fmt_g fmt_money to_valid_utf8 json_unmarshal DecodeNumeric jsonb_branch decodeArray sl eo;;
                 Ok (range_render (bit (byte_at (vis s) (len s - 1)) 1) (bit (byte_at (vis s) (len s - 1)) 2)
                       (bit (byte_at (vis s) (len s - 1)) 3) (bit (byte_at (vis s) (len s - 1)) 4) lb (fmt_v v))
       else Ok (range_render (bit (byte_at (vis s) (len s - 1)) 1) (bit (byte_at (vis s) (len s - 1)) 2)
                       (bit (byte_at (vis s) (len s - 1)) 3) (bit (byte_at (vis s) (len s - 1)) 4) lb [])) <> Panic).
    { intros lb offset Ho. destruct (negb (bit (byte_at (vis s) (len s - 1)) 4)); [|discriminate]. cbv zeta.
      assert (AL : offset <= (if size >? 1 then go_align (offset + 4) size - 4 else offset)).
      { destruct SZ as [-> | ->]; cbn [Z.gtb Z.compare Pos.compare Pos.compare_cont].
        - rewrite go_align_4 by lia. pose proof (align_ge (offset + 4) 4 ltac:(lia)). lia.
        - rewrite go_align_8 by lia. pose proof (align_ge (offset + 4) 8 ltac:(lia)). lia. }
      set (o' := if size >? 1 then go_align (offset + 4) size - 4 else offset) in *.
      destruct (o' + size >? len s - 1) eqn:G; [discriminate|].
      np_slice. specialize (EL r eo). destruct (DecodeType_elem _ _ _ _ _ _ _ r eo); [discriminate|congruence]. }
    destruct (negb (bit (byte_at (vis s) (len s - 1)) 3)).
    - destruct (4 + size >? len s - 1) eqn:G; [discriminate|].
      np_slice. pose proof (EL r eo) as ELr. destruct (DecodeType_elem _ _ _ _ _ _ _ r eo); [|congruence]. cbn [bind].
      apply UP. lia.
    - apply UP. lia.
  Qed.

  Theorem DecodeType_np s oid : DecodeType s oid <> Panic.
  Proof. unfold DecodeType. apply DecodeType_gen_np. intros. apply decodeRange_np. Qed.
End P.
