(* C04/Spec.v — how PostgreSQL 12-16 (little-endian x86-64) stores each scalar type, written
   independently of the Go code: an abstract value, a well-formedness predicate, a reference writer
   [enc_*] and the expected decoded result [exp_*] computed from the abstract value only.
   "Denotes the same value PostgreSQL would display" is read as equality of every component
   (DESIGN.md §7): the text layout around the components is the tool's.
   Rendering of floats ("%g", "$%.2f") and of numerics is abstract (Section variables). *)
Require Import PG.Base.Bytes PG.Base.Value PG.C04.Lib.

Definition in_u (bits : Z) (v : Z) : Prop := 0 <= v < 2 ^ bits.
Definition in_s (bits : Z) (v : Z) : Prop := - 2 ^ (bits - 1) <= v < 2 ^ (bits - 1).

(* ---------- bool, "char", name ---------- *)
Definition enc_bool (b : bool) : bytes := [if b then x01 else x00].
Definition exp_bool (b : bool) : gval := VBool b.
Definition enc_char (c : byte) : bytes := [c].
Definition exp_char (c : byte) : gval := VStr [c].
(* NameData: 64 bytes, NUL padded; at most 63 significant bytes, none of them NUL *)
Definition wf_name (n : bytes) : Prop := blen n <= 63 /\ Forall (fun b => b2z b <> 0) n.
Definition enc_name (n : bytes) : bytes := n ++ zeros (64 - blen n).
Definition exp_name (n : bytes) : gval := VStr n.

(* ---------- integers, oid, xid, cid ---------- *)
Definition enc_int (nbytes : nat) (v : Z) : bytes := le_enc nbytes (wrap (8 * Z.of_nat nbytes) v).
Definition enc_int2 := enc_int 2. Definition exp_int2 (v : Z) := VI16 v.
Definition enc_int4 := enc_int 4. Definition exp_int4 (v : Z) := VI32 v.
Definition enc_int8 := enc_int 8. Definition exp_int8 (v : Z) := VI64 v.
Definition enc_u32 (v : Z) : bytes := le_enc 4 v.          (* Oid, TransactionId, CommandId: uint32 *)
Definition exp_u32 (v : Z) := VU32 v.

(* ---------- tid: ItemPointerData { BlockIdData { uint16 bi_hi; uint16 bi_lo }; uint16 ip_posid } ---------- *)
Definition enc_tid (hi lo pos : Z) : bytes := le_enc 2 hi ++ le_enc 2 lo ++ le_enc 2 pos.
Definition exp_tid (hi lo pos : Z) : gval :=
  VStr (bs "(" ++ fmt_d (hi * 65536 + lo) ++ bs "," ++ fmt_d pos ++ bs ")").
(* known finding: the tool reads the block number as ONE little-endian u32 = bi_hi + 65536*bi_lo *)
Definition kf_tid (hi lo : Z) : bool := negb (hi =? lo).

(* ---------- floats: IEEE bit patterns ---------- *)
Definition enc_float4 (bits : Z) : bytes := le_enc 4 bits.  Definition exp_float4 (bits : Z) := VF32 bits.
Definition enc_float8 (bits : Z) : bytes := le_enc 8 bits.  Definition exp_float8 (bits : Z) := VF64 bits.

(* ---------- text family / bytea ---------- *)
Definition enc_text (s : bytes) : bytes := s.       (* payload of the varlena (header stripped by the caller) *)
Definition exp_text (s : bytes) : gval := VStr s.
Definition exp_bytea (d : bytes) : gval := VStr (bs "\x" ++ hex_bytes d).

(* ---------- bit / varbit: int32 bit_len; then the bits, most significant first, zero padded ---------- *)
Definition bit_at (l : list bool) (i : nat) : Z := if nth i l false then 1 else 0.
Definition bits_byte (l : list bool) (j : nat) : Z :=
  128 * bit_at l (8 * j) + 64 * bit_at l (8 * j + 1) + 32 * bit_at l (8 * j + 2) + 16 * bit_at l (8 * j + 3)
  + 8 * bit_at l (8 * j + 4) + 4 * bit_at l (8 * j + 5) + 2 * bit_at l (8 * j + 6) + bit_at l (8 * j + 7).
Definition enc_bits (l : list bool) : bytes :=
  le_enc 4 (Z.of_nat (length l)) ++ map (fun j => z2b (bits_byte l j)) (seq 0 ((length l + 7) / 8)).
Definition exp_bits (l : list bool) : gval := VStr (map (fun b : bool => if b then x31 else x30) l).

(* ---------- date: int32 days since 2000-01-01; INT32_MAX / INT32_MIN = +/- infinity ---------- *)
Inductive dateval := DDate (y m d : Z) | DInf | DNegInf.
Definition wf_date (v : dateval) : Prop :=
  match v with DDate y m d => 1 <= y <= 9999 /\ valid_date y m d | _ => True end.
Definition date_days (v : dateval) : Z :=
  match v with
  | DDate y m d => days_from_civil y m d - pg_epoch_days
  | DInf => 2147483647 | DNegInf => -2147483648
  end.
Definition enc_date (v : dateval) : bytes := enc_int 4 (date_days v).
Definition txt_date (v : dateval) : bytes :=
  match v with DDate y m d => fmt_date (y, m, d) | DInf => bs "infinity" | DNegInf => bs "-infinity" end.
Definition exp_date (v : dateval) : gval := VStr (txt_date v).

(* ---------- time: int64 microseconds since midnight (24:00:00 allowed) ---------- *)
Record clock := { c_h : Z; c_m : Z; c_s : Z; c_us : Z }.
Definition clock_us (c : clock) : Z := ((c_h c * 60 + c_m c) * 60 + c_s c) * 1000000 + c_us c.
Definition wf_clock (c : clock) : Prop :=
  0 <= c_h c <= 24 /\ 0 <= c_m c < 60 /\ 0 <= c_s c < 60 /\ 0 <= c_us c < 1000000 /\ clock_us c <= 86400000000.
Definition enc_time (c : clock) : bytes := enc_int 8 (clock_us c).
Definition txt_clock (c : clock) : bytes := fmt_hms (c_h c) (c_m c) (c_s c).
Definition exp_time (c : clock) : gval := VStr (txt_clock c).

(* ---------- timetz: TimeADT time; int32 zone = seconds WEST of UTC. Displayed offset = -zone,
   as +HH, +HH:MM or +HH:MM:SS ---------- *)
Record tzoff := { z_neg : bool; z_h : Z; z_m : Z; z_s : Z }.   (* the displayed offset, sign + magnitude *)
Definition tz_total (z : tzoff) : Z := z_h z * 3600 + z_m z * 60 + z_s z.
Definition wf_tz (z : tzoff) : Prop :=
  0 <= z_h z <= 15 /\ 0 <= z_m z < 60 /\ 0 <= z_s z < 60 /\ (z_neg z = true -> tz_total z <> 0).
Definition tz_zone (z : tzoff) : Z := if z_neg z then tz_total z else - tz_total z.
Definition enc_timetz (c : clock) (z : tzoff) : bytes := enc_int 8 (clock_us c) ++ enc_int 4 (tz_zone z).
Definition txt_tz (z : tzoff) : bytes :=
  (if z_neg z then bs "-" else bs "+") ++ fmt_0d 2 (z_h z)
  ++ (if (z_m z =? 0) && (z_s z =? 0) then [] else bs ":" ++ fmt_0d 2 (z_m z))
  ++ (if z_s z =? 0 then [] else bs ":" ++ fmt_0d 2 (z_s z)).
Definition exp_timetz (c : clock) (z : tzoff) : gval := VStr (txt_clock c ++ txt_tz z).

(* ---------- timestamp / timestamptz: int64 microseconds since 2000-01-01 00:00:00 (UTC);
   INT64_MAX / INT64_MIN = +/- infinity ---------- *)
Inductive tsval := TStamp (y m d : Z) (c : clock) | TInf | TNegInf.
Definition wf_ts (v : tsval) : Prop :=
  match v with
  | TStamp y m d c => 1 <= y <= 9999 /\ valid_date y m d /\ wf_clock c /\ c_h c <= 23
  | _ => True
  end.
Definition ts_us (v : tsval) : Z :=
  match v with
  | TStamp y m d c => (days_from_civil y m d - pg_epoch_days) * 86400000000 + clock_us c
  | TInf => 9223372036854775807 | TNegInf => -9223372036854775808
  end.
Definition enc_ts (v : tsval) : bytes := enc_int 8 (ts_us v).
Definition txt_ts (v : tsval) : bytes :=
  match v with
  | TStamp y m d c => fmt_date (y, m, d) ++ bs " " ++ txt_clock c
  | TInf => bs "infinity" | TNegInf => bs "-infinity"
  end.
Definition exp_ts (v : tsval) : gval := VStr (txt_ts v).

(* ---------- interval: int64 time (us); int32 day; int32 month.  Components as interval2itm
   computes them (C division truncates: all parts of one field share its sign) ---------- *)
Record ival := { i_us : Z; i_days : Z; i_months : Z }.
Definition wf_ival (v : ival) : Prop := in_s 64 (i_us v) /\ in_s 32 (i_days v) /\ in_s 32 (i_months v).
Definition enc_interval (v : ival) : bytes := enc_int 8 (i_us v) ++ enc_int 4 (i_days v) ++ enc_int 4 (i_months v).
Definition ival_parts (v : ival) : list (Z * lit) :=
  let year := Z.quot (i_months v) 12 in
  let mon := i_months v - year * 12 in
  let t := i_us v in
  let hour := Z.quot t 3600000000 in
  let t := t - hour * 3600000000 in
  let min := Z.quot t 60000000 in
  let t := t - min * 60000000 in
  let sec := Z.quot t 1000000 in
  [(year, "y"); (mon, "mo"); (i_days v, "d"); (hour, "h"); (min, "m"); (sec, "s")]%lit.
Definition txt_interval (v : ival) : bytes :=
  match filter (fun p => negb (fst p =? 0)) (ival_parts v) with
  | [] => bs "0"
  | l => join (bs " ") (map (fun p => fmt_d (fst p) ++ bs (snd p)) l)
  end.
Definition exp_interval (v : ival) : gval := VStr (txt_interval v).

(* ---------- uuid (16 bytes in text order), macaddr (6), macaddr8 (8) ---------- *)
Definition exp_uuid (u : bytes) : gval :=
  VStr (hex_bytes (sub u 0 4) ++ bs "-" ++ hex_bytes (sub u 4 6) ++ bs "-" ++ hex_bytes (sub u 6 8) ++ bs "-"
        ++ hex_bytes (sub u 8 10) ++ bs "-" ++ hex_bytes (sub u 10 16)).
Definition exp_mac (a : bytes) : gval := VStr (join (bs ":") (map (fun b => hex2 (b2z b)) a)).

(* ---------- pg_lsn: XLogRecPtr = uint64; displayed %X/%X of (high 32, low 32) ---------- *)
Definition enc_lsn (v : Z) : bytes := le_enc 8 v.
Definition exp_lsn (v : Z) : gval := VStr (hex_nat true (v / 4294967296) ++ bs "/" ++ hex_nat true (v mod 4294967296)).
(* known finding: the tool prints (low, high) *)
Definition kf_lsn (v : Z) : bool := negb (v / 4294967296 =? v mod 4294967296).

(* ---------- inet / cidr: inet_struct { family (2 = v4, 3 = v6); bits; ipaddr[4 or 16] } ---------- *)
Inductive inetval := Inet4 (bits : Z) (a b c d : Z) | Inet6 (bits : Z) (addr : bytes).
Definition wf_inet (v : inetval) : Prop :=
  match v with
  | Inet4 bits a b c d => 0 <= bits <= 32 /\ in_u 8 a /\ in_u 8 b /\ in_u 8 c /\ in_u 8 d
  | Inet6 bits addr => 0 <= bits <= 128 /\ blen addr = 16
  end.
Definition enc_inet (v : inetval) : bytes :=
  match v with
  | Inet4 bits a b c d => [z2b 2; z2b bits; z2b a; z2b b; z2b c; z2b d]
  | Inet6 bits addr => [z2b 3; z2b bits] ++ addr
  end.
Fixpoint groups16 (l : bytes) : list Z :=
  match l with h :: lo :: r => (b2z h * 256 + b2z lo) :: groups16 r | _ => [] end.
Definition txt_inet (v : inetval) : bytes :=
  match v with
  | Inet4 bits a b c d =>
      fmt_d a ++ bs "." ++ fmt_d b ++ bs "." ++ fmt_d c ++ bs "." ++ fmt_d d
      ++ (if bits =? 32 then [] else bs "/" ++ fmt_d bits)
  | Inet6 bits addr =>
      join (bs ":") (map (hex_nat false) (groups16 addr)) ++ (if bits =? 128 then [] else bs "/" ++ fmt_d bits)
  end.
Definition exp_inet (v : inetval) : gval := VStr (txt_inet v).

(* ---------- ranges over fixed-width elements.  RangeType datum: varlena header (4), range type
   oid (4), lower bound, upper bound (each only if finite and the range is not empty, written at
   the element type's alignment counted from the START OF THE DATUM), flags byte last. ---------- *)
Record rflags := { f_empty : bool; f_lb_inc : bool; f_ub_inc : bool; f_lb_inf : bool; f_ub_inf : bool }.
Definition flags_byte (f : rflags) : Z :=
  (if f_empty f then 1 else 0) + (if f_lb_inc f then 2 else 0) + (if f_ub_inc f then 4 else 0)
  + (if f_lb_inf f then 8 else 0) + (if f_ub_inf f then 16 else 0).
Definition has_lb (f : rflags) : bool := negb (f_empty f) && negb (f_lb_inf f).
Definition has_ub (f : rflags) : bool := negb (f_empty f) && negb (f_ub_inf f).
(* padding that brings datum offset [o] to alignment [a] *)
Definition pad_at (o a : Z) : bytes := zeros (align o a - o).
(* [size] = [alignment] = 4 or 8 for int4/date and int8/timestamp[tz] *)
Definition enc_range (typid : Z) (size : Z) (f : rflags) (lo hi : bytes) : bytes :=
  let o1 := 8 in                                        (* after header + type oid *)
  let lower := if has_lb f then pad_at o1 size ++ lo else [] in
  let o2 := o1 + blen lower in
  let upper := if has_ub f then pad_at o2 size ++ hi else [] in
  le_enc 4 typid ++ lower ++ upper ++ [z2b (flags_byte f)].
Definition txt_range (f : rflags) (lo hi : bytes) : bytes :=
  if f_empty f then bs "empty" else
  (if f_lb_inc f then bs "[" else bs "(") ++ (if f_lb_inf f then [] else lo) ++ bs ","
  ++ (if f_ub_inf f then [] else hi) ++ (if f_ub_inc f then bs "]" else bs ")").
(* element kinds *)
Inductive relem := RInt4 (v : Z) | RInt8 (v : Z) | RDate (v : dateval) | RTs (v : tsval).
Definition wf_relem (e : relem) : Prop :=
  match e with RInt4 v => in_s 32 v | RInt8 v => in_s 64 v | RDate v => wf_date v | RTs v => wf_ts v end.
Definition enc_relem (e : relem) : bytes :=
  match e with RInt4 v => enc_int 4 v | RInt8 v => enc_int 8 v | RDate v => enc_date v | RTs v => enc_ts v end.
Definition txt_relem (e : relem) : bytes :=
  match e with RInt4 v | RInt8 v => fmt_d v | RDate v => txt_date v | RTs v => txt_ts v end.
Definition relem_size (e : relem) : Z := match e with RInt4 _ | RDate _ => 4 | _ => 8 end.
(* range type oid -> does the element have this shape *)
Definition relem_fits (oid : Z) (e : relem) : bool :=
  match e with
  | RInt4 _ => oid =? 3904 | RInt8 _ => oid =? 3926 | RDate _ => oid =? 3912
  | RTs _ => (oid =? 3908) || (oid =? 3910)
  end.
Definition enc_range_of (typid : Z) (f : rflags) (lo hi : relem) : bytes :=
  enc_range typid (relem_size lo) f (enc_relem lo) (enc_relem hi).
Definition exp_range_of (f : rflags) (lo hi : relem) : gval := VStr (txt_range f (txt_relem lo) (txt_relem hi)).

Section FloatsAndNumerics.
  Variable fmt_g : Z -> bytes.       (* display of the float64 with these bits *)
  Variable fmt_money : Z -> bytes.   (* display of [cents] as currency with two decimals *)
  Variable num_disp : bytes -> bytes. (* display of a stored numeric (C05) *)

  Definition enc_money (cents : Z) : bytes := enc_int 8 cents.
  Definition exp_money (cents : Z) : gval := VStr (fmt_money cents).

  (* ---------- geometric: Point = {float8 x, y} ---------- *)
  Definition enc_point (p : Z * Z) : bytes := le_enc 8 (fst p) ++ le_enc 8 (snd p).
  Definition wf_point (p : Z * Z) : Prop := in_u 64 (fst p) /\ in_u 64 (snd p).
  Definition txt_point (p : Z * Z) : bytes := bs "(" ++ fmt_g (fst p) ++ bs "," ++ fmt_g (snd p) ++ bs ")".
  Definition exp_point (p : Z * Z) : gval := VStr (txt_point p).
  Definition enc_lseg (p q : Z * Z) : bytes := enc_point p ++ enc_point q.        (* LSEG {Point p[2]} *)
  Definition exp_lseg (p q : Z * Z) : gval := VStr (bs "[" ++ txt_point p ++ bs "," ++ txt_point q ++ bs "]").
  (* BOX {Point high, low} *)
  Definition exp_box (p q : Z * Z) : gval := VStr (bs "(" ++ txt_point p ++ bs "),(" ++ txt_point q ++ bs ")").
  Definition enc_line (a b c : Z) : bytes := le_enc 8 a ++ le_enc 8 b ++ le_enc 8 c.   (* LINE {A, B, C} *)
  Definition exp_line (a b c : Z) : gval :=
    VStr (bs "{" ++ fmt_g a ++ bs "," ++ fmt_g b ++ bs "," ++ fmt_g c ++ bs "}").
  Definition enc_circle (p : Z * Z) (r : Z) : bytes := enc_point p ++ le_enc 8 r.  (* CIRCLE {Point center; float8 radius} *)
  Definition exp_circle (p : Z * Z) (r : Z) : gval := VStr (bs "<" ++ txt_point p ++ bs "," ++ fmt_g r ++ bs ">").

  (* PATH { int32 npts; int32 closed; int32 dummy; Point p[] }  (after the varlena header) *)
  Definition enc_points (ps : list (Z * Z)) : bytes := flat_map enc_point ps.
  Definition enc_path (closed : bool) (ps : list (Z * Z)) : bytes :=
    le_enc 4 (Z.of_nat (length ps)) ++ le_enc 4 (if closed then 1 else 0) ++ le_enc 4 0 ++ enc_points ps.
  Definition txt_points (ps : list (Z * Z)) : bytes := join (bs ",") (map txt_point ps).
  Definition exp_path (closed : bool) (ps : list (Z * Z)) : gval :=
    VStr (if closed then bs "(" ++ txt_points ps ++ bs ")" else bs "[" ++ txt_points ps ++ bs "]").
  (* POLYGON { int32 npts; BOX boundbox; Point p[] } *)
  Definition enc_polygon (bb1 bb2 : Z * Z) (ps : list (Z * Z)) : bytes :=
    le_enc 4 (Z.of_nat (length ps)) ++ enc_point bb1 ++ enc_point bb2 ++ enc_points ps.
  Definition exp_polygon (ps : list (Z * Z)) : gval := VStr (bs "(" ++ txt_points ps ++ bs ")").
  Definition wf_points (ps : list (Z * Z)) : Prop := Forall wf_point ps /\ (1 <= length ps)%nat /\ Z.of_nat (length ps) < 2 ^ 27.

  (* numrange: bounds are stored numerics (varlena, any padding included in lo/hi); flags last *)
  Definition enc_numrange (typid : Z) (f : rflags) (lo hi : bytes) : bytes :=
    le_enc 4 typid ++ (if has_lb f then lo else []) ++ (if has_ub f then hi else []) ++ [z2b (flags_byte f)].
  Definition exp_numrange (f : rflags) (lo hi : bytes) : gval := VStr (txt_range f (num_disp lo) (num_disp hi)).
  (* known finding: finite numeric bounds are never decoded (printed as "?") *)
  Definition kf_numrange (f : rflags) : bool := has_lb f || has_ub f.
End FloatsAndNumerics.

(* known findings: path / polygon are parsed with a layout PostgreSQL does not use; every stored
   path or polygon (>= 1 point) is affected *)
Definition kf_path (ps : list (Z * Z)) : bool := true.

(* ---------- type names: pg_type.dat typname by oid ---------- *)
Definition pg_typname (oid : Z) : option lit :=
  let t := [ (16, "bool"); (17, "bytea"); (18, "char"); (19, "name"); (20, "int8"); (21, "int2"); (23, "int4");
             (25, "text"); (26, "oid"); (27, "tid"); (28, "xid"); (29, "cid"); (114, "json"); (142, "xml");
             (600, "point"); (601, "lseg"); (602, "path"); (603, "box"); (604, "polygon"); (628, "line");
             (650, "cidr"); (700, "float4"); (701, "float8"); (718, "circle"); (774, "macaddr8"); (790, "money");
             (829, "macaddr"); (869, "inet"); (1042, "bpchar"); (1043, "varchar"); (1082, "date"); (1083, "time");
             (1114, "timestamp"); (1184, "timestamptz"); (1186, "interval"); (1266, "timetz"); (1560, "bit");
             (1562, "varbit"); (1700, "numeric"); (2950, "uuid"); (3220, "pg_lsn"); (3614, "tsvector");
             (3615, "tsquery"); (3802, "jsonb"); (3904, "int4range"); (3906, "numrange"); (3908, "tsrange");
             (3910, "tstzrange"); (3912, "daterange"); (3926, "int8range"); (4072, "jsonpath") ]%lit in
  option_map snd (find (fun p => fst p =? oid) t).
Definition exp_typename (oid : Z) : bytes :=
  match pg_typname oid with Some n => bs n | None => bs "oid:" ++ fmt_d oid end.
