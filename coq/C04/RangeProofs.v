(* C04/RangeProofs.v — range types over fixed-width elements; numrange (known finding D16). *)
Require Import PG.Base.Bytes PG.Base.GoSlice PG.Base.Value PG.C04.Lib PG.C04.Model PG.C04.Spec PG.C04.LibProofs.
Require Import PG.C04.CalProofs.

Lemma flags_bits f :
  bit (flags_byte f) 0 = f_empty f /\ bit (flags_byte f) 1 = f_lb_inc f /\ bit (flags_byte f) 2 = f_ub_inc f /\
  bit (flags_byte f) 3 = f_lb_inf f /\ bit (flags_byte f) 4 = f_ub_inf f /\ 0 <= flags_byte f < 32.
Proof. destruct f as [[] [] [] [] []]; cbn; repeat split; lia. Qed.

Section P.
  Variable fmt_g : Z -> bytes.
  Variable fmt_money : Z -> bytes.
  Variable to_valid_utf8 : bytes -> bytes.
  Variable json_unmarshal : bytes -> option gval.
  Variable DecodeNumeric : bytes -> gval.
  Variable jsonb_branch : bytes -> gval.
  Variable decodeArray : bytes -> Z -> gval.
  Notation DecodeType := (DecodeType fmt_g fmt_money to_valid_utf8 json_unmarshal DecodeNumeric jsonb_branch decodeArray).
  Notation DecodeType_elem := (DecodeType_elem fmt_g fmt_money to_valid_utf8 json_unmarshal DecodeNumeric jsonb_branch decodeArray).
  Notation decodeRange := (decodeRange fmt_g fmt_money to_valid_utf8 json_unmarshal DecodeNumeric jsonb_branch decodeArray).

  (* what decoding one bound gives, for any slice holding exactly the element's bytes *)
  Definition elem_spec (eo : Z) (enc txt : bytes) : Prop :=
    forall sl, vis sl = enc -> exists v, DecodeType_elem sl eo = Ok v /\ fmt_v v = txt.

  Lemma elem_int4 v : in_s 32 v -> elem_spec 23 (enc_int 4 v) (fmt_d v).
  Proof.
    intros H [vs tl] V. cbn [vis] in V. subst vs. exists (VI32 v). split; [|reflexivity].
    dispatch KInt4. rd read_i32 0 v. reflexivity.
  Qed.
  Lemma elem_int8 v : in_s 64 v -> elem_spec 20 (enc_int 8 v) (fmt_d v).
  Proof.
    intros H [vs tl] V. cbn [vis] in V. subst vs. exists (VI64 v). split; [|reflexivity].
    dispatch KInt8. rd read_i64 0 v. reflexivity.
  Qed.
  Lemma elem_date v : wf_date v -> elem_spec 1082 (enc_date v) (txt_date v).
  Proof.
    intros H [vs tl] V. cbn [vis] in V. subst vs. exists (exp_date v). split; [|reflexivity].
    pose proof (date_days_range v H). dispatch KDate. rd read_i32 0 (date_days v).
    rewrite <- (date_text v H).
    destruct (_ =? 2147483647); [reflexivity|]. destruct (_ =? -2147483648); reflexivity.
  Qed.
  Lemma elem_ts eo v : eo = 1114 \/ eo = 1184 -> wf_ts v -> elem_spec eo (enc_ts v) (txt_ts v).
  Proof.
    intros O H [vs tl] V. cbn [vis] in V. subst vs. exists (exp_ts v). split; [|reflexivity].
    pose proof (ts_us_range v H).
    destruct O as [-> | ->]; dispatch KTimestamp; rd read_i64 0 (ts_us v); rewrite ts_text by auto; reflexivity.
  Qed.

  Lemma render_txt f lo hi : f_empty f = false ->
    range_render (f_lb_inc f) (f_ub_inc f) (f_lb_inf f) (f_ub_inf f) (if f_lb_inf f then [] else lo) (if f_ub_inf f then [] else hi)
    = txt_range f lo hi.
  Proof.
    intros E. unfold range_render, txt_range. rewrite E.
    destruct (f_lb_inc f), (f_ub_inc f), (f_lb_inf f), (f_ub_inf f); cbn [negb app]; rewrite <- ?app_assoc; reflexivity.
  Qed.

  (* generic fixed-width range: size = alignment = 4 or 8 *)
  Lemma range_generic oid eo size typid f elo ehi tlo thi t :
    range_elem oid = Some (eo, size) -> size = 4 \/ size = 8 -> in_u 32 typid ->
    blen elo = size -> blen ehi = size -> elem_spec eo elo tlo -> elem_spec eo ehi thi ->
    decodeRange {| vis := enc_range typid size f elo ehi; tail := t |} oid = Ok (txt_range f tlo thi).
  Proof.
    intros RE SZ Ht Llo Lhi Slo Shi.
    destruct (flags_bits f) as (B0 & B1 & B2 & B3 & B4 & FR).
    set (fb := flags_byte f) in *.
    assert (P1 : pad_at 8 size = []) by (destruct SZ as [-> | ->]; reflexivity).
    unfold decodeRange.
    (* shape of the image *)
    assert (IMG : exists lower upper, enc_range typid size f elo ehi = le_enc 4 typid ++ lower ++ upper ++ [z2b fb] /\
              lower = (if has_lb f then elo else []) /\ upper = (if has_ub f then ehi else [])).
    { assert (P2 : pad_at (8 + size) size = []) by (destruct SZ as [-> | ->]; reflexivity).
      assert (P3 : pad_at (8 + 0) size = []) by (destruct SZ as [-> | ->]; reflexivity).
      exists (if has_lb f then elo else []), (if has_ub f then ehi else []).
      split; [|split; reflexivity].
      unfold enc_range. cbv zeta. rewrite P1.
      destruct (has_lb f), (has_ub f); cbn [app]; rewrite ?blen_nil, ?Llo, ?P2, ?P3; reflexivity. }
    destruct IMG as (lower & upper & IMG & Hlower & Hupper). rewrite IMG.
    set (s := {| vis := le_enc 4 typid ++ lower ++ upper ++ [z2b fb]; tail := t |}).
    assert (L : len s = 4 + blen lower + blen upper + 1) by (unfold s, len; cbn [vis]; bl; lia).
    pose proof (blen_nonneg lower). pose proof (blen_nonneg upper).
    destruct (len s <? 5) eqn:E5; [lia|].
    rewrite (read_idx s (len s - 1) (z2b fb)); [|lia|].
    2:{ rewrite L. unfold s. cbn [vis]. ssub. }
    cbn [bind]. rewrite b2z_z2b, Z.mod_small by lia. rewrite B0.
    destruct (f_empty f) eqn:Em; [unfold txt_range; rewrite Em; reflexivity|].
    rewrite RE. cbv zeta. rewrite B1, B2, B3, B4.
    rewrite <- (render_txt f tlo thi Em).
    unfold has_lb, has_ub in *. rewrite Em in *. cbn [negb andb] in *.
    (* the upper-bound continuation, for an offset where the upper bound really starts *)
    assert (UP : forall lb offset, offset = 4 + blen lower -> 
       (if negb (f_ub_inf f)
        then let offset0 := if size >? 1 then go_align (offset + 4) size - 4 else offset in
             if offset0 + size >? len s - 1 then Ok (bs "[?,?]")
             else sl <- slice s offset0 (offset0 + size);;
                  v <- DecodeType_elem sl eo;;
                  Ok (range_render (f_lb_inc f) (f_ub_inc f) (f_lb_inf f) (f_ub_inf f) lb (fmt_v v))
        else Ok (range_render (f_lb_inc f) (f_ub_inc f) (f_lb_inf f) (f_ub_inf f) lb []))
       = Ok (range_render (f_lb_inc f) (f_ub_inc f) (f_lb_inf f) (f_ub_inf f) lb (if f_ub_inf f then [] else thi))).
    { intros lb offset Ho. destruct (f_ub_inf f) eqn:UI; cbn [negb]; [reflexivity|].
      cbv zeta.
      assert (Eu : upper = ehi) by (rewrite Hupper; rewrite ?UI; reflexivity).
      assert (Lu : blen upper = size) by (rewrite Eu; exact Lhi).
      assert (AL : (if size >? 1 then go_align (offset + 4) size - 4 else offset) = offset).
      { subst offset. rewrite Hlower. destruct (f_lb_inf f); cbn [negb]; [|rewrite Llo]; destruct SZ as [-> | ->]; reflexivity. }
      rewrite AL. rewrite L, Lu. destruct (offset + size >? 4 + blen lower + size + 1 - 1) eqn:E; [lia|].
      destruct (slice_sub s offset (offset + size) ehi) as [t' ->]; try lia.
      { subst offset. unfold s. cbn [vis]. rewrite Eu. ssub. }
      cbn [bind]. destruct (Shi {| vis := ehi; tail := t' |} eq_refl) as (v & -> & Fv). cbn [bind]. rewrite Fv. reflexivity. }
    destruct (f_lb_inf f) eqn:LI; cbn [negb].
    - apply UP. rewrite Hlower; rewrite ?LI. reflexivity.
    - assert (El : lower = elo) by (rewrite Hlower; rewrite ?LI; reflexivity).
      assert (Ll : blen lower = size) by (rewrite El; exact Llo).
      destruct (4 + size >? len s - 1) eqn:E; [lia|].
      destruct (slice_sub s 4 (4 + size) elo) as [t' ->]; try lia.
      { unfold s. cbn [vis]. rewrite El. ssub. }
      cbn [bind]. destruct (Slo {| vis := elo; tail := t' |} eq_refl) as (v & -> & Fv). cbn [bind]. rewrite Fv.
      apply UP. lia.
  Qed.

  Lemma relem_spec oid e : relem_fits oid e = true -> wf_relem e ->
    exists eo, range_elem oid = Some (eo, relem_size e) /\ elem_spec eo (enc_relem e) (txt_relem e) /\
               blen (enc_relem e) = relem_size e /\ (relem_size e = 4 \/ relem_size e = 8).
  Proof.
    intros F W. destruct e as [v|v|v|v]; cbn [relem_fits wf_relem enc_relem txt_relem relem_size] in *.
    - assert (oid = 3904) by lia. subst. exists 23. repeat split; auto using elem_int4; try (bl; reflexivity).
    - assert (oid = 3926) by lia. subst. exists 20. repeat split; auto using elem_int8; try (bl; reflexivity).
    - assert (oid = 3912) by lia. subst. exists 1082. repeat split; auto using elem_date; try (unfold enc_date; bl; reflexivity).
    - assert (O : oid = 3908 \/ oid = 3910) by lia. destruct O; subst.
      + exists 1114. repeat split; auto using elem_ts; try (unfold enc_ts; bl; reflexivity).
      + exists 1184. repeat split; auto using elem_ts; try (unfold enc_ts; bl; reflexivity).
  Qed.

  Lemma range_ok oid typid f lo hi t :
    relem_fits oid lo = true -> relem_fits oid hi = true -> wf_relem lo -> wf_relem hi -> in_u 32 typid ->
    DecodeType {| vis := enc_range_of typid f lo hi; tail := t |} oid = Ok (exp_range_of f lo hi).
  Proof.
    intros Flo Fhi Wlo Whi Ht.
    destruct (relem_spec oid lo Flo Wlo) as (eo & RE & Slo & Llo & SZ).
    destruct (relem_spec oid hi Fhi Whi) as (eo' & RE' & Shi & Lhi & SZ').
    rewrite RE in RE'. injection RE' as <- Hsz.
    assert (D : decodeRange {| vis := enc_range_of typid f lo hi; tail := t |} oid = Ok (txt_range f (txt_relem lo) (txt_relem hi))).
    { unfold enc_range_of. apply (range_generic oid eo); auto. congruence. }
    assert (L : 5 <= blen (enc_range_of typid f lo hi)).
    { unfold enc_range_of, enc_range. cbv zeta.
      match goal with |- 5 <= blen (_ ++ ?A ++ ?B ++ _) => pose proof (blen_nonneg A); pose proof (blen_nonneg B); set (a := A) in *; set (b := B) in * end.
      bl. lia. }
    assert (K : kind_of_oid oid = KRange /\ lookup oid arrayElemTypes = None /\ lookup oid fixedLengths = None).
    { unfold range_elem in RE.
      destruct (oid =? 3904) eqn:E1; [assert (oid = 3904) by lia; subst; repeat split; reflexivity|].
      destruct (oid =? 3926) eqn:E2; [assert (oid = 3926) by lia; subst; repeat split; reflexivity|].
      destruct (oid =? 3912) eqn:E3; [assert (oid = 3912) by lia; subst; repeat split; reflexivity|].
      destruct (oid =? 3908) eqn:E4; [assert (oid = 3908) by lia; subst; repeat split; reflexivity|].
      destruct (oid =? 3910) eqn:E5; [assert (oid = 3910) by lia; subst; repeat split; reflexivity|]. discriminate. }
    destruct K as (K1 & K2 & K3).
    unfold DecodeType. rewrite DecodeType_gen_scalar with (k := KRange); auto.
    - cbn [decodeKind]. rewrite D. reflexivity.
    - unfold len. cbn [vis]. lia.
    - rewrite K3. exact I.
  Qed.

  (* ---- numrange (known finding D16): what the tool prints ---- *)
  Lemma numrange_model typid f lo hi t : in_u 32 typid ->
    DecodeType {| vis := enc_numrange typid f lo hi; tail := t |} 3906 =
    Ok (VStr (if f_empty f then bs "empty" else decodeNumericRange (flags_byte f))).
  Proof.
    intros Ht. destruct (flags_bits f) as (B0 & B1 & B2 & B3 & B4 & FR).
    unfold enc_numrange. pose proof (blen_nonneg lo). pose proof (blen_nonneg hi).
    destruct (has_lb f); destruct (has_ub f);
    (unfold DecodeType; rewrite DecodeType_gen_scalar with (k := KRange);
      [ | unfold len; cbn [vis]; bl; lia | reflexivity | reflexivity | exact I ];
     cbn [decodeKind]; unfold decodeRange;
     match goal with |- context [len ?s] => set (s0 := s);
       assert (L : exists n, 0 <= n /\ len s0 = 5 + n) by (exists (len s0 - 5); split; [unfold s0, len; cbn [vis]; bl; lia|lia]) end;
     destruct L as (n & Hn & L); rewrite !L;
     destruct (5 + n <? 5) eqn:E5; [lia|];
     rewrite (read_idx s0 (5 + n - 1) (z2b (flags_byte f))); [|lia|unfold s0, len in *; cbn [vis] in *; bl; ssub];
     cbn [bind]; rewrite b2z_z2b, Z.mod_small by lia; rewrite B0;
     destruct (f_empty f); reflexivity).
  Qed.
  Section NumDisp.
    Variable num_disp : bytes -> bytes.
    Lemma numrange_partial typid f lo hi t : in_u 32 typid -> kf_numrange f = false ->
      DecodeType {| vis := enc_numrange typid f lo hi; tail := t |} 3906 = Ok (exp_numrange num_disp f lo hi).
    Proof.
      intros Ht K. rewrite numrange_model by auto. unfold exp_numrange, txt_range, kf_numrange, has_lb, has_ub in *.
      destruct f as [[] i1 i2 [] []]; cbn in K; try discriminate; try reflexivity.
      destruct i1, i2; reflexivity.
    Qed.
    (* any rendering of numerics that never prints a bare "?" for the witness bound is contradicted *)
    Lemma numrange_refuted : exists typid f lo hi, in_u 32 typid /\ kf_numrange f = true /\
      (num_disp lo <> bs "?" ->
       DecodeType {| vis := enc_numrange typid f lo hi; tail := [] |} 3906 <> Ok (exp_numrange num_disp f lo hi)).
    Proof.
      exists 3906, {| f_empty := false; f_lb_inc := true; f_ub_inc := false; f_lb_inf := false; f_ub_inf := true |},
             [x0b; x00; x80; x01; x00], [].
      split; [unfold in_u; lia|]. split; [reflexivity|]. intros ND.
      rewrite numrange_model by (unfold in_u; lia). unfold exp_numrange, txt_range. cbn.
      intros E. injection E as E. apply ND.
      change (x3f :: [x2c; x29] = num_disp [x0b; x00; x80; x01; x00] ++ [x2c; x29]) in E.
      change (x3f :: [x2c; x29]) with ([x3f] ++ [x2c; x29]) in E.
      apply app_inv_tail in E. symmetry. exact E.
    Qed.
  End NumDisp.
End P.
