(* C04/PathProofs.v — path / polygon (known finding D10) and type names. *)
Require Import PG.Base.Bytes PG.Base.GoSlice PG.Base.Value PG.C04.Lib PG.C04.Model PG.C04.Spec PG.C04.LibProofs.

Section P.
  Variable fmt_g : Z -> bytes.
  Variable fmt_money : Z -> bytes.
  Variable to_valid_utf8 : bytes -> bytes.
  Variable json_unmarshal : bytes -> option gval.
  Variable DecodeNumeric : bytes -> gval.
  Variable jsonb_branch : bytes -> gval.
  Variable decodeArray : bytes -> Z -> gval.
  Notation DecodeType := (DecodeType fmt_g fmt_money to_valid_utf8 json_unmarshal DecodeNumeric jsonb_branch decodeArray).

  (* the closed path ((1,2)) : 1 point, closed = 1.  The tool reads closed from byte 0 and the count from bytes 1..4 *)
  Definition w_pt : Z * Z := (4607182418800017408, 4611686018427387904).  (* 1.0, 2.0 *)
  Lemma path_refuted : exists closed ps, wf_points ps /\ kf_path ps = true /\
    DecodeType {| vis := enc_path closed ps; tail := [] |} 602 <> Ok (exp_path fmt_g closed ps).
  Proof.
    exists true, [w_pt]. split; [|split; [reflexivity|]].
    - unfold wf_points, wf_point, in_u. split; [repeat constructor; cbn; lia|cbn; lia].
    - assert (M : DecodeType {| vis := enc_path true [w_pt]; tail := [] |} 602 = Ok (VStr [])) by (vm_compute; reflexivity).
      rewrite M. unfold exp_path. cbn. discriminate.
  Qed.
  Lemma polygon_refuted : exists b1 b2 ps, wf_points ps /\ kf_path ps = true /\
    DecodeType {| vis := enc_polygon b1 b2 ps; tail := [] |} 604 <> Ok (exp_polygon fmt_g ps).
  Proof.
    exists w_pt, w_pt, [w_pt]. split; [|split; [reflexivity|]].
    - unfold wf_points, wf_point, in_u. split; [repeat constructor; cbn; lia|cbn; lia].
    - assert (M : DecodeType {| vis := enc_polygon w_pt w_pt [w_pt]; tail := [] |} 604 = Ok (VStr (bs "()"))) by (vm_compute; reflexivity).
      rewrite M. unfold exp_polygon, txt_points. cbn. discriminate.
  Qed.
End P.

(* ---- TypeName ---- *)
Lemma typename_ok oid : TypeName oid = exp_typename oid.
Proof.
  unfold TypeName, exp_typename, pg_typname, typeNames.
  cbn [lookup find fst snd option_map].
  repeat match goal with
  | |- context [oid =? ?k] => destruct (Z.eqb_spec oid k); [subst; reflexivity|]
  end.
  repeat match goal with
  | |- context [?k =? oid] => destruct (Z.eqb_spec k oid); [subst; lia|]
  end.
  reflexivity.
Qed.
