(* C04/CalProofs.v — the proleptic Gregorian calendar: civil_from_days (Hinnant) inverts
   days_from_civil on every valid date of every year (all of Z); date and timestamp theorems. *)
Require Import PG.Base.Bytes PG.Base.GoSlice PG.Base.Value PG.C04.Lib PG.C04.Model PG.C04.Spec PG.C04.LibProofs.

(* ---- one 400-year era, checked exhaustively (146097 days) ---- *)
Definition doe_of (yoe mp d : Z) : Z := yoe * 365 + yoe / 4 - yoe / 100 + ((153 * mp + 2) / 5 + d - 1).
Definition civil_of_doe (doe : Z) : Z * Z * Z :=
  let yoe := (doe - doe / 1460 + doe / 36524 - doe / 146096) / 365 in
  let doy := doe - (365 * yoe + yoe / 4 - yoe / 100) in
  let mp := (5 * doy + 2) / 153 in
  (yoe, mp, doy - (153 * mp + 2) / 5 + 1).
(* month length by shifted month mp (0 = March ... 11 = February of the next civil year) *)
Definition dim_mp (yoe mp : Z) : Z :=
  if mp =? 11 then (if is_leap (yoe + 1) then 29 else 28)
  else if (mp =? 1) || (mp =? 3) || (mp =? 6) || (mp =? 8) then 30 else 31.
Definition zrange (lo : Z) (n : nat) : list Z := map (fun i => lo + Z.of_nat i) (seq 0 n).
Lemma zrange_in lo n x : lo <= x < lo + Z.of_nat n -> In x (zrange lo n).
Proof.
  intros H. unfold zrange. apply in_map_iff. exists (Z.to_nat (x - lo)). split; [lia|].
  apply in_seq. lia.
Qed.
Definition day_ok (yoe mp d : Z) : bool :=
  let doe := doe_of yoe mp d in
  let '(a, b, c) := civil_of_doe doe in
  (a =? yoe) && (b =? mp) && (c =? d) && (0 <=? doe) && (doe <? 146097).
Definition mp_ok (yoe mp : Z) : bool := forallb (day_ok yoe mp) (zrange 1 (Z.to_nat (dim_mp yoe mp))).
Definition yoe_ok (yoe : Z) : bool := forallb (mp_ok yoe) (zrange 0 12).
Lemma era_check_true : forallb yoe_ok (zrange 0 400) = true.
Proof. vm_compute. reflexivity. Qed.

Lemma era_ok yoe mp d : 0 <= yoe < 400 -> 0 <= mp < 12 -> 1 <= d <= dim_mp yoe mp ->
  civil_of_doe (doe_of yoe mp d) = (yoe, mp, d) /\ 0 <= doe_of yoe mp d < 146097.
Proof.
  intros Hy Hm Hd.
  assert (H1 : yoe_ok yoe = true).
  { apply (proj1 (forallb_forall yoe_ok (zrange 0 400)) era_check_true). apply zrange_in. lia. }
  assert (H2 : mp_ok yoe mp = true).
  { apply (proj1 (forallb_forall (mp_ok yoe) (zrange 0 12)) H1). apply zrange_in. lia. }
  assert (H3 : day_ok yoe mp d = true).
  { apply (proj1 (forallb_forall (day_ok yoe mp) _) H2). apply zrange_in. lia. }
  clear H1 H2. unfold day_ok in H3. cbv zeta in H3.
  destruct (civil_of_doe (doe_of yoe mp d)) as [[a b] c].
  split; [f_equal; [f_equal|]|]; lia.
Qed.

Lemma is_leap_shift y k : is_leap (y + 400 * k) = is_leap y.
Proof.
  unfold is_leap.
  replace ((y + 400 * k) mod 4) with (y mod 4) by lia.
  replace ((y + 400 * k) mod 100) with (y mod 100) by lia.
  replace ((y + 400 * k) mod 400) with (y mod 400) by lia. reflexivity.
Qed.

Lemma civil_from_days_eq z :
  civil_from_days z =
  let z' := z + 719468 in
  let era := z' / 146097 in
  let '(yoe, mp, d) := civil_of_doe (z' - era * 146097) in
  let m := if mp <? 10 then mp + 3 else mp - 9 in
  (if m <=? 2 then yoe + era * 400 + 1 else yoe + era * 400, m, d).
Proof. reflexivity. Qed.

(* the calendar theorem: for every year (no bound), every valid month/day *)
Theorem civil_from_days_from_civil y m d : valid_date y m d -> civil_from_days (days_from_civil y m d) = (y, m, d).
Proof.
  intros [Hm Hd].
  set (y' := if m <=? 2 then y - 1 else y).
  set (era := y' / 400). set (yoe := y' - era * 400).
  set (mp := if m >? 2 then m - 3 else m + 9).
  assert (Hyoe : 0 <= yoe < 400) by (unfold yoe, era; lia).
  assert (Hmp : 0 <= mp < 12) by (unfold mp; destruct (m >? 2) eqn:E; lia).
  assert (Hdim : days_in_month y m = dim_mp yoe mp).
  { unfold days_in_month, dim_mp, mp.
    destruct (m =? 2) eqn:E2.
    - assert (m = 2) by lia. subst m. cbn [Z.gtb Z.compare Pos.compare Pos.compare_cont]. change (2 + 9 =? 11) with true. cbv iota.
      assert (Y1 : y' = y - 1) by reflexivity.
      replace (yoe + 1) with (y + 400 * (- era)) by (unfold yoe; lia).
      rewrite is_leap_shift. reflexivity.
    - destruct (m >? 2) eqn:E3.
      + destruct (m - 3 =? 11) eqn:E4; [lia|].
        assert (M : m = 3 \/ m = 4 \/ m = 5 \/ m = 6 \/ m = 7 \/ m = 8 \/ m = 9 \/ m = 10 \/ m = 11 \/ m = 12) by lia.
        destruct M as [->|[->|[->|[->|[->|[->|[->|[->|[->| ->]]]]]]]]]; reflexivity.
      + assert (m = 1) by lia. subst m. reflexivity. }
  rewrite Hdim in Hd.
  destruct (era_ok yoe mp d Hyoe Hmp Hd) as [Hc Hb].
  assert (Hdays : days_from_civil y m d = era * 146097 + doe_of yoe mp d - 719468).
  { unfold days_from_civil. fold y'. fold era. fold yoe. fold mp. unfold doe_of. lia. }
  rewrite Hdays. rewrite civil_from_days_eq. cbv zeta.
  set (doe := doe_of yoe mp d) in *.
  replace (era * 146097 + doe - 719468 + 719468) with (era * 146097 + doe) by lia.
  assert (E1 : (era * 146097 + doe) / 146097 = era) by lia.
  rewrite E1. replace (era * 146097 + doe - era * 146097) with doe by lia.
  rewrite Hc.
  assert (Y : yoe + era * 400 = y') by (unfold yoe; lia).
  rewrite Y. unfold mp, y'.
  destruct (m >? 2) eqn:G.
  - destruct (m - 3 <? 10) eqn:L; [|lia]. replace (m - 3 + 3) with m by lia.
    destruct (m <=? 2) eqn:L2; [lia|]. reflexivity.
  - destruct (m + 9 <? 10) eqn:L; [lia|]. replace (m + 9 - 9) with m by lia.
    destruct (m <=? 2) eqn:L2; [|lia]. f_equal. f_equal. lia.
Qed.

Lemma days_from_civil_bound y m d : 1 <= y <= 9999 -> valid_date y m d ->
  -719162 - 306 <= days_from_civil y m d <= 2932896 + 366.
Proof.
  intros Hy [Hm Hd].
  assert (Hd' : 1 <= d <= 31).
  { unfold days_in_month in Hd. destruct (m =? 2); [destruct (is_leap y); lia|]. destruct (_ || _); lia. }
  unfold days_from_civil.
  destruct (m <=? 2) eqn:E1; destruct (m >? 2) eqn:E2; try lia.
Qed.

(* sanity of the day count itself: anchors *)
Example days_1970 : days_from_civil 1970 1 1 = 0. Proof. reflexivity. Qed.
Example days_2000 : days_from_civil 2000 1 1 = pg_epoch_days. Proof. reflexivity. Qed.
Example days_leap : days_from_civil 2000 3 1 - days_from_civil 2000 2 28 = 2 /\ days_from_civil 1900 3 1 - days_from_civil 1900 2 28 = 1.
Proof. split; reflexivity. Qed.

Lemma quot_floor a : (if Z.rem a 1000000 <? 0 then Z.quot a 1000000 - 1 else Z.quot a 1000000) = a / 1000000.
Proof. destruct (Z.rem a 1000000 <? 0) eqn:R; Z.quot_rem_to_equations; lia. Qed.

  Lemma date_days_range v : wf_date v -> in_s 32 (date_days v).
  Proof.
    unfold in_s. destruct v as [y m d| |]; cbn [wf_date date_days]; [|lia|lia].
    intros [Hy Hv]. pose proof (days_from_civil_bound y m d Hy Hv). unfold pg_epoch_days. lia.
  Qed.

  (* the text DecodeType produces for a stored date / timestamp number *)
  Lemma date_text v : wf_date v ->
    (if date_days v =? 2147483647 then VStr (bs "infinity")
     else if date_days v =? -2147483648 then VStr (bs "-infinity")
     else VStr (fmt_date (civil_from_days (pg_epoch_days + date_days v)))) = exp_date v.
  Proof.
    destruct v as [y m d| |]; cbn [wf_date date_days]; [|reflexivity|reflexivity].
    intros [Hy Hv]. pose proof (days_from_civil_bound y m d Hy Hv) as B. unfold pg_epoch_days in *.
    destruct (_ =? 2147483647) eqn:E1; [lia|]. destruct (_ =? -2147483648) eqn:E2; [lia|].
    replace (10957 + (days_from_civil y m d - 10957)) with (days_from_civil y m d) by lia.
    rewrite civil_from_days_from_civil by auto. reflexivity.
  Qed.

  Lemma ts_us_range v : wf_ts v -> in_s 64 (ts_us v).
  Proof.
    unfold in_s. destruct v as [y m d c| |]; cbn [wf_ts ts_us]; [|lia|lia].
    intros (Hy & Hv & (Hh & Hm & Hs & Hu & Ht) & H23). pose proof (days_from_civil_bound y m d Hy Hv).
    unfold pg_epoch_days, clock_us in *. lia.
  Qed.

  Lemma ts_text v : wf_ts v -> formatTimestamp (ts_us v) = txt_ts v.
  Proof.
    destruct v as [y m d c| |]; cbn [wf_ts ts_us txt_ts]; [|reflexivity|reflexivity].
    intros (Hy & Hv & (Hh & Hm & Hs & Hu & Ht) & H23). pose proof (days_from_civil_bound y m d Hy Hv) as B.
    unfold formatTimestamp. unfold pg_epoch_days, clock_us in *.
    set (D := days_from_civil y m d) in *.
    set (us := (D - 10957) * 86400000000 + (((c_h c * 60 + c_m c) * 60 + c_s c) * 1000000 + c_us c)).
    destruct (us =? 9223372036854775807) eqn:E1; [unfold us in E1; lia|].
    destruct (us =? -9223372036854775808) eqn:E2; [unfold us in E2; lia|].
    cbv zeta. rewrite quot_floor.
    set (secs := (c_h c * 60 + c_m c) * 60 + c_s c).
    assert (F : us / 1000000 = (D - 10957) * 86400 + secs) by (unfold us, secs; lia).
    rewrite F.
    assert (S0 : 0 <= secs < 86400) by (unfold secs; lia).
    assert (T1 : (946684800 + ((D - 10957) * 86400 + secs)) / 86400 = D) by lia.
    assert (T2 : (946684800 + ((D - 10957) * 86400 + secs)) mod 86400 = secs) by lia.
    rewrite T1, T2. unfold D. rewrite civil_from_days_from_civil by auto.
    assert (A : secs / 3600 = c_h c) by (unfold secs; lia).
    assert (A2 : secs / 60 mod 60 = c_m c) by (unfold secs; lia).
    assert (A3 : secs mod 60 = c_s c) by (unfold secs; lia).
    rewrite A, A2, A3. reflexivity.
  Qed.

Section P.
  Variable fmt_g : Z -> bytes.
  Variable fmt_money : Z -> bytes.
  Variable to_valid_utf8 : bytes -> bytes.
  Variable json_unmarshal : bytes -> option gval.
  Variable DecodeNumeric : bytes -> gval.
  Variable jsonb_branch : bytes -> gval.
  Variable decodeArray : bytes -> Z -> gval.
  Notation DecodeType := (DecodeType fmt_g fmt_money to_valid_utf8 json_unmarshal DecodeNumeric jsonb_branch decodeArray).

  Lemma date_ok v t : wf_date v -> DecodeType {| vis := enc_date v; tail := t |} 1082 = Ok (exp_date v).
  Proof.
    intros H. pose proof (date_days_range v H). dispatch KDate. rd read_i32 0 (date_days v).
    rewrite <- (date_text v H).
    destruct (_ =? 2147483647); [reflexivity|]. destruct (_ =? -2147483648); reflexivity.
  Qed.

  Lemma ts_ok oid v t : oid = 1114 \/ oid = 1184 -> wf_ts v ->
    DecodeType {| vis := enc_ts v; tail := t |} oid = Ok (exp_ts v).
  Proof.
    intros O H. pose proof (ts_us_range v H).
    destruct O as [-> | ->]; dispatch KTimestamp; rd read_i64 0 (ts_us v); rewrite ts_text by auto; reflexivity.
  Qed.
End P.
