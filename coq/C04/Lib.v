(* C04/Lib.v — text helpers shared by the C04 model and spec: ASCII literals, the integer
   formats of Go's fmt (%d, %0Nd, %x, %X, %02x), hex dumps, UTF-8 validity (RFC 3629 = Go's
   utf8.Valid), the proleptic Gregorian calendar.  Definitions only; proofs are in *Proofs.v.
   (Belongs in a shared Base file if another property needs it.) *)
Require Import PG.Base.Bytes.

(* ASCII literal as bytes: "abc"%lit is [Lit [x61; x62; x63]] (a String Notation onto byte lists;
   Coq's own [string] type is avoided because its extracted name would shadow OCaml's). *)
Inductive lit := Lit (l : list byte).
Definition lit_parse (l : list byte) : lit := Lit l.
Definition lit_print (x : lit) : list byte := match x with Lit l => l end.
Declare Scope lit_scope.
Delimit Scope lit_scope with lit.
Bind Scope lit_scope with lit.
String Notation lit lit_parse lit_print : lit_scope.
Definition bs (x : lit) : bytes := lit_print x.
Arguments bs x%lit_scope.

(* ---------- decimal ---------- *)
Definition digit (d : Z) : byte := z2b (48 + d).
Fixpoint dec_fuel (n : nat) (z : Z) (acc : bytes) : bytes :=
  match n with
  | O => acc
  | S k => let acc' := digit (z mod 10) :: acc in
           if z <? 10 then acc' else dec_fuel k (z / 10) acc'
  end.
(* decimal digits of z >= 0 (fuel: a number below 2^(k+1) has at most k+1 digits) *)
Definition dec_nat (z : Z) : bytes := dec_fuel (S (Z.to_nat (Z.log2 z))) z [].
(* %d *)
Definition fmt_d (z : Z) : bytes := if z <? 0 then x2d :: dec_nat (- z) else dec_nat z.
Definition pad0 (w : Z) (b : bytes) : bytes := repeat x30 (Z.to_nat (w - blen b)) ++ b.
(* %0wd : the sign counts towards the width *)
Definition fmt_0d (w : Z) (z : Z) : bytes :=
  if z <? 0 then x2d :: pad0 (w - 1) (dec_nat (- z)) else pad0 w (dec_nat z).

(* ---------- hexadecimal ---------- *)
Definition hexdig (up : bool) (d : Z) : byte :=
  if d <? 10 then z2b (48 + d) else z2b ((if up then 55 else 87) + d).
Fixpoint hex_fuel (up : bool) (n : nat) (z : Z) (acc : bytes) : bytes :=
  match n with
  | O => acc
  | S k => let acc' := hexdig up (z mod 16) :: acc in
           if z <? 16 then acc' else hex_fuel up k (z / 16) acc'
  end.
(* %x / %X of an unsigned integer *)
Definition hex_nat (up : bool) (z : Z) : bytes := hex_fuel up (S (Z.to_nat (Z.log2 z))) z [].
(* %02x of one byte value 0..255 *)
Definition hex2 (v : Z) : bytes := [hexdig false (v / 16); hexdig false (v mod 16)].
(* %x of a byte slice *)
Definition hex_bytes (d : bytes) : bytes := flat_map (fun b => hex2 (b2z b)) d.

(* ---------- joining ---------- *)
Fixpoint join (sep : bytes) (l : list bytes) : bytes :=
  match l with
  | [] => []
  | [x] => x
  | x :: r => x ++ sep ++ join sep r
  end.

(* ---------- UTF-8 (RFC 3629: shortest form, no surrogates, <= U+10FFFF) ---------- *)
Definition cont (b : byte) : bool := (128 <=? b2z b) && (b2z b <=? 191).
Definition inr_ (lo hi : Z) (b : byte) : bool := (lo <=? b2z b) && (b2z b <=? hi).
Fixpoint valid_utf8 (l : bytes) : bool :=
  match l with
  | [] => true
  | b0 :: r =>
    let c := b2z b0 in
    if c <? 128 then valid_utf8 r
    else if (194 <=? c) && (c <=? 223) then
      match r with b1 :: r1 => cont b1 && valid_utf8 r1 | _ => false end
    else if (224 <=? c) && (c <=? 239) then
      match r with
      | b1 :: b2 :: r2 =>
        (if c =? 224 then inr_ 160 191 b1 else if c =? 237 then inr_ 128 159 b1 else cont b1)
        && cont b2 && valid_utf8 r2
      | _ => false
      end
    else if (240 <=? c) && (c <=? 244) then
      match r with
      | b1 :: b2 :: b3 :: r3 =>
        (if c =? 240 then inr_ 144 191 b1 else if c =? 244 then inr_ 128 143 b1 else cont b1)
        && cont b2 && cont b3 && valid_utf8 r3
      | _ => false
      end
    else false
  end.

(* ---------- proleptic Gregorian calendar (days counted from 1970-01-01) ---------- *)
(* days_from_civil: the textbook day count; civil_from_days: Hinnant's inverse. Floor division. *)
Definition days_from_civil (y m d : Z) : Z :=
  let y' := if m <=? 2 then y - 1 else y in
  let era := y' / 400 in
  let yoe := y' - era * 400 in
  let mp := if m >? 2 then m - 3 else m + 9 in
  let doy := (153 * mp + 2) / 5 + d - 1 in
  let doe := yoe * 365 + yoe / 4 - yoe / 100 + doy in
  era * 146097 + doe - 719468.

Definition civil_from_days (z0 : Z) : Z * Z * Z :=
  let z := z0 + 719468 in
  let era := z / 146097 in
  let doe := z - era * 146097 in
  let yoe := (doe - doe / 1460 + doe / 36524 - doe / 146096) / 365 in
  let y := yoe + era * 400 in
  let doy := doe - (365 * yoe + yoe / 4 - yoe / 100) in
  let mp := (5 * doy + 2) / 153 in
  let d := doy - (153 * mp + 2) / 5 + 1 in
  let m := if mp <? 10 then mp + 3 else mp - 9 in
  (if m <=? 2 then y + 1 else y, m, d).

Definition is_leap (y : Z) : bool := ((y mod 4 =? 0) && negb (y mod 100 =? 0)) || (y mod 400 =? 0).
Definition days_in_month (y m : Z) : Z :=
  if m =? 2 then (if is_leap y then 29 else 28)
  else if (m =? 4) || (m =? 6) || (m =? 9) || (m =? 11) then 30 else 31.
Definition valid_date (y m d : Z) : Prop := 1 <= m <= 12 /\ 1 <= d <= days_in_month y m.
Definition valid_dateb (y m d : Z) : bool := (1 <=? m) && (m <=? 12) && (1 <=? d) && (d <=? days_in_month y m).

(* 2000-01-01 is day 10957 of the Unix era; 86400 s/day *)
Definition pg_epoch_days : Z := 10957.

(* Go's Format("2006") for any year: at least 4 digits, sign in front; "01"/"02": 2 digits *)
Definition fmt_date (ymd : Z * Z * Z) : bytes :=
  let '(y, m, d) := ymd in fmt_0d (if y <? 0 then 5 else 4) y ++ bs "-" ++ fmt_0d 2 m ++ bs "-" ++ fmt_0d 2 d.
Definition fmt_hms (h m s : Z) : bytes := fmt_0d 2 h ++ bs ":" ++ fmt_0d 2 m ++ bs ":" ++ fmt_0d 2 s.
