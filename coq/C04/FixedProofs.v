(* C04/FixedProofs.v — fixed-width scalar types. *)
Require Import PG.Base.Bytes PG.Base.GoSlice PG.Base.Value PG.C04.Lib PG.C04.Model PG.C04.Spec PG.C04.LibProofs.

Lemma le_enc_app n : forall m a b, 0 <= a < 2 ^ (8 * Z.of_nat n) ->
  le_enc n a ++ le_enc m b = le_enc (n + m) (a + 2 ^ (8 * Z.of_nat n) * b).
Proof.
  induction n as [|n IH]; intros m a b Ha.
  - change (2 ^ (8 * Z.of_nat 0)) with 1 in *. assert (a = 0) by lia. subst. cbn [le_enc app Nat.add]. f_equal. lia.
  - cbn [le_enc app Nat.add].
    replace (8 * Z.of_nat (S n)) with (8 + 8 * Z.of_nat n) in * by lia.
    rewrite Z.pow_add_r in * by lia. change (2 ^ 8) with 256 in *.
    assert (P : 0 < 2 ^ (8 * Z.of_nat n)) by (apply Z.pow_pos_nonneg; lia).
    f_equal.
    + unfold z2b. replace ((a + 256 * 2 ^ (8 * Z.of_nat n) * b) mod 256) with (a mod 256); [reflexivity|].
      rewrite <- (Z.mod_add a (2 ^ (8 * Z.of_nat n) * b) 256) by lia. f_equal. lia.
    + rewrite IH.
      * f_equal. replace (a + 256 * 2 ^ (8 * Z.of_nat n) * b) with (a + (2 ^ (8 * Z.of_nat n) * b) * 256) by lia.
        rewrite Z.div_add by lia. lia.
      * split; [apply Z.div_pos; lia|]. apply Z.div_lt_upper_bound; lia.
Qed.

Lemma idx_list_ok : forall (l : bytes) s i, 0 <= i ->
  sub (vis s) i (i + blen l) = l -> idx_list (length l) s i = Ok (map b2z l).
Proof.
  induction l as [|b l IH]; intros s i Hi Hs; [reflexivity|].
  cbn [length idx_list map]. rewrite blen_cons in Hs.
  assert (L : blen (sub (vis s) i (i + (1 + blen l))) = 1 + blen l) by (rewrite Hs; bl; reflexivity).
  pose proof (blen_nonneg l).
  destruct (sub_len_bound (vis s) i (i + (1 + blen l))) as [HB|HB]; try lia.
  rewrite (sub_split _ i (i + 1)) in Hs by lia.
  rewrite byte_at_sub in Hs by lia. cbn [app] in Hs. injection Hs as Hb Hr.
  rewrite (read_idx s i b); [|lia|rewrite byte_at_sub by lia; congruence].
  cbn [bind]. rewrite IH; [reflexivity|lia|]. transitivity (sub (vis s) (i + 1) (i + (1 + blen l))); [f_equal; lia|exact Hr].
Qed.

Section P.
  Variable fmt_g : Z -> bytes.
  Variable fmt_money : Z -> bytes.
  Variable to_valid_utf8 : bytes -> bytes.
  Variable json_unmarshal : bytes -> option gval.
  Variable DecodeNumeric : bytes -> gval.
  Variable jsonb_branch : bytes -> gval.
  Variable decodeArray : bytes -> Z -> gval.
  Notation DecodeType := (DecodeType fmt_g fmt_money to_valid_utf8 json_unmarshal DecodeNumeric jsonb_branch decodeArray).
  Notation decodePoint := (decodePoint fmt_g).

  Lemma bool_ok b t : DecodeType {| vis := enc_bool b; tail := t |} 16 = Ok (exp_bool b).
  Proof. dispatch KBool. rdb 0 (if b then x01 else x00). destruct b; reflexivity. Qed.

  Lemma char_ok c t : DecodeType {| vis := enc_char c; tail := t |} 18 = Ok (exp_char c).
  Proof.
    dispatch KChar. unfold slice_to.
    destruct (slice_sub {| vis := enc_char c; tail := t |} 0 1 [c]) as [t' ->]; try lia; [slen|reflexivity|].
    reflexivity.
  Qed.

  Lemma int2_ok v t : in_s 16 v -> DecodeType {| vis := enc_int2 v; tail := t |} 21 = Ok (exp_int2 v).
  Proof. intros H. dispatch KInt2. rd read_i16 0 v. reflexivity. Qed.
  Lemma int4_ok v t : in_s 32 v -> DecodeType {| vis := enc_int4 v; tail := t |} 23 = Ok (exp_int4 v).
  Proof. intros H. dispatch KInt4. rd read_i32 0 v. reflexivity. Qed.
  Lemma int8_ok v t : in_s 64 v -> DecodeType {| vis := enc_int8 v; tail := t |} 20 = Ok (exp_int8 v).
  Proof. intros H. dispatch KInt8. rd read_i64 0 v. reflexivity. Qed.

  Lemma u32_ok oid v t : oid = 26 \/ oid = 28 \/ oid = 29 -> in_u 32 v ->
    DecodeType {| vis := enc_u32 v; tail := t |} oid = Ok (exp_u32 v).
  Proof. intros [->|[->| ->]] H; dispatch KU32; rd read_u32 0 v; reflexivity. Qed.

  Lemma float4_ok b t : in_u 32 b -> DecodeType {| vis := enc_float4 b; tail := t |} 700 = Ok (exp_float4 b).
  Proof. intros H. dispatch KFloat4. rd read_u32 0 b. reflexivity. Qed.
  Lemma float8_ok b t : in_u 64 b -> DecodeType {| vis := enc_float8 b; tail := t |} 701 = Ok (exp_float8 b).
  Proof. intros H. dispatch KFloat8. rd read_u64 0 b. reflexivity. Qed.

  Lemma money_ok c t : in_s 64 c -> DecodeType {| vis := enc_money c; tail := t |} 790 = Ok (exp_money fmt_money c).
  Proof. intros H. dispatch KMoney. rd read_i64 0 c. reflexivity. Qed.

  (* ---- tid (known finding D07) ---- *)
  Lemma tid_model hi lo pos t : in_u 16 hi -> in_u 16 lo -> in_u 16 pos ->
    DecodeType {| vis := enc_tid hi lo pos; tail := t |} 27 =
    Ok (VStr (bs "(" ++ fmt_d (hi + 65536 * lo) ++ bs "," ++ fmt_d pos ++ bs ")")).
  Proof.
    intros Hh Hl Hp. unfold in_u in *. dispatch KTid.
    rewrite (read_u32 _ 0 (hi + 65536 * lo)); [cbn [bind]|lia| |unfold in_u; lia].
    2:{ cbn [vis]. unfold enc_tid. rewrite app_assoc. rewrite (le_enc_app 2 2 hi lo) by (cbn; lia).
        change (2 ^ (8 * Z.of_nat 2)) with 65536. change (2 + 2)%nat with 4%nat. ssub. }
    rd read_u16 4 pos. reflexivity.
  Qed.
  Lemma tid_partial hi lo pos t : in_u 16 hi -> in_u 16 lo -> in_u 16 pos -> kf_tid hi lo = false ->
    DecodeType {| vis := enc_tid hi lo pos; tail := t |} 27 = Ok (exp_tid hi lo pos).
  Proof.
    intros Hh Hl Hp K. rewrite tid_model by auto. unfold kf_tid in K. assert (hi = lo) by lia. subst.
    unfold exp_tid. replace (lo * 65536 + lo) with (lo + 65536 * lo) by lia. reflexivity.
  Qed.
  Lemma tid_refuted : exists hi lo pos, in_u 16 hi /\ in_u 16 lo /\ in_u 16 pos /\ kf_tid hi lo = true /\
    DecodeType {| vis := enc_tid hi lo pos; tail := [] |} 27 <> Ok (exp_tid hi lo pos).
  Proof.
    exists 1, 0, 5. unfold in_u. repeat split; try lia. rewrite tid_model by (unfold in_u; lia).
    vm_compute. discriminate.
  Qed.

  (* ---- pg_lsn (known finding D08) ---- *)
  Lemma lsn_model v t : in_u 64 v ->
    DecodeType {| vis := enc_lsn v; tail := t |} 3220 =
    Ok (VStr (hex_nat true (v mod 4294967296) ++ bs "/" ++ hex_nat true (v / 4294967296))).
  Proof.
    intros Hv. unfold in_u in *. dispatch KPgLsn.
    assert (E : enc_lsn v = le_enc 4 (v mod 4294967296) ++ le_enc 4 (v / 4294967296)).
    { unfold enc_lsn. rewrite (le_enc_app 4 4) by (change (2 ^ (8 * Z.of_nat 4)) with 4294967296; lia).
      change (2 ^ (8 * Z.of_nat 4)) with 4294967296. change (4 + 4)%nat with 8%nat. f_equal. lia. }
    rewrite E.
    rd read_u32 0 (v mod 4294967296). rd read_u32 4 (v / 4294967296). reflexivity.
  Qed.
  Lemma lsn_partial v t : in_u 64 v -> kf_lsn v = false ->
    DecodeType {| vis := enc_lsn v; tail := t |} 3220 = Ok (exp_lsn v).
  Proof.
    intros Hv K. rewrite lsn_model by auto. unfold kf_lsn in K.
    assert (E : v / 4294967296 = v mod 4294967296) by lia. unfold exp_lsn. rewrite E. reflexivity.
  Qed.
  Lemma lsn_refuted : exists v, in_u 64 v /\ kf_lsn v = true /\
    DecodeType {| vis := enc_lsn v; tail := [] |} 3220 <> Ok (exp_lsn v).
  Proof.
    exists 23803720 (* 0/16B3748 *). unfold in_u. repeat split; try lia. rewrite lsn_model by (unfold in_u; lia).
    vm_compute. discriminate.
  Qed.

  (* ---- time ---- *)
  Lemma clock_hms c : wf_clock c ->
    Z.quot (clock_us c) 3600000000 = c_h c /\ Z.rem (Z.quot (clock_us c) 60000000) 60 = c_m c /\
    Z.rem (Z.quot (clock_us c) 1000000) 60 = c_s c.
  Proof.
    intros (Hh & Hm & Hs & Hu & Ht). unfold clock_us in *.
    set (us := ((c_h c * 60 + c_m c) * 60 + c_s c) * 1000000 + c_us c) in *.
    assert (U : 0 <= us) by (unfold us; lia).
    rewrite !Z.quot_div_nonneg by lia. rewrite !Z.rem_mod_nonneg by (try apply Z.div_pos; lia).
    unfold us. repeat split; lia.
  Qed.
  Lemma clock_range c : wf_clock c -> in_s 64 (clock_us c).
  Proof. intros (Hh & Hm & Hs & Hu & Ht). unfold in_s, clock_us in *. lia. Qed.

  Lemma hms_clock c : wf_clock c -> hms_of_us (clock_us c) = txt_clock c.
  Proof. intros H. destruct (clock_hms c H) as (A & B & C). unfold hms_of_us, txt_clock. rewrite A, B, C. reflexivity. Qed.

  Lemma time_ok c t : wf_clock c -> DecodeType {| vis := enc_time c; tail := t |} 1083 = Ok (exp_time c).
  Proof.
    intros H. pose proof (clock_range c H). dispatch KTime. rd read_i64 0 (clock_us c).
    rewrite hms_clock by auto. reflexivity.
  Qed.

  (* ---- timetz ---- *)
  Lemma timetz_ok c z t : wf_clock c -> wf_tz z ->
    DecodeType {| vis := enc_timetz c z; tail := t |} 1266 = Ok (exp_timetz c z).
  Proof.
    intros H (Zh & Zm & Zs & Zn). pose proof (clock_range c H).
    assert (T : 0 <= tz_total z <= 57599) by (unfold tz_total; lia).
    assert (R : in_s 32 (tz_zone z)) by (unfold in_s, tz_zone; destruct (z_neg z); lia).
    dispatch KTimeTZ. rd read_i64 0 (clock_us c). rd read_i32 8 (tz_zone z).
    rewrite hms_clock by auto. unfold exp_timetz, txt_tz. do 2 f_equal. f_equal.
    set (tot := tz_total z) in *.
    assert (O : (if - tz_zone z <? 0 then - - tz_zone z else - tz_zone z) = tot).
    { unfold tz_zone. fold tot. destruct (z_neg z) eqn:N.
      - specialize (Zn eq_refl). destruct (- tot <? 0) eqn:E; lia.
      - destruct (- - tot <? 0) eqn:E; lia. }
    rewrite O.
    assert (S : (if - tz_zone z <? 0 then bs "-" else bs "+") = (if z_neg z then bs "-" else bs "+")).
    { unfold tz_zone. fold tot. destruct (z_neg z) eqn:N.
      - specialize (Zn eq_refl). destruct (- tot <? 0) eqn:E; [reflexivity|lia].
      - destruct (- - tot <? 0) eqn:E; [lia|reflexivity]. }
    rewrite S. f_equal.
    rewrite !Z.quot_div_nonneg by lia. rewrite !Z.rem_mod_nonneg by lia.
    rewrite Z.quot_div_nonneg by (try apply Z.mod_pos_bound; lia).
    assert (A : tot / 3600 = z_h z) by (unfold tot, tz_total; lia).
    assert (B : tot mod 3600 / 60 = z_m z) by (unfold tot, tz_total; lia).
    assert (C : tot mod 60 = z_s z) by (unfold tot, tz_total; lia).
    assert (D : tot mod 3600 = z_m z * 60 + z_s z) by (unfold tot, tz_total; lia).
    rewrite A, B, C. f_equal. rewrite D.
    destruct (z_m z =? 0) eqn:E1; destruct (z_s z =? 0) eqn:E2; cbn [andb negb];
      destruct (z_m z * 60 + z_s z =? 0) eqn:E3; try lia; cbn [negb]; reflexivity.
  Qed.

  (* ---- uuid ---- *)
  Lemma uuid_ok u t : blen u = 16 -> DecodeType {| vis := u; tail := t |} 2950 = Ok (exp_uuid u).
  Proof.
    intros L. dispatch KUUID. unfold hexslice.
    destruct (slice_sub {| vis := u; tail := t |} 0 4 (sub u 0 4)) as [t1 ->]; try lia; [slen|reflexivity|].
    destruct (slice_sub {| vis := u; tail := t |} 4 6 (sub u 4 6)) as [t2 ->]; try lia; [slen|reflexivity|].
    destruct (slice_sub {| vis := u; tail := t |} 6 8 (sub u 6 8)) as [t3 ->]; try lia; [slen|reflexivity|].
    destruct (slice_sub {| vis := u; tail := t |} 8 10 (sub u 8 10)) as [t4 ->]; try lia; [slen|reflexivity|].
    destruct (slice_sub {| vis := u; tail := t |} 10 16 (sub u 10 16)) as [t5 ->]; try lia; [slen|reflexivity|].
    cbn [bind vis]. reflexivity.
  Qed.

  (* ---- macaddr / macaddr8 ---- *)
  Lemma macaddr_ok a t : blen a = 6 -> DecodeType {| vis := a; tail := t |} 829 = Ok (exp_mac a).
  Proof.
    intros L. dispatch KMacaddr. assert (N : length a = 6%nat) by (unfold blen in L; lia).
    rewrite <- N. rewrite idx_list_ok; [|lia|cbn [vis]; apply sub_exact; lia].
    cbn [bind]. unfold exp_mac. rewrite map_map. reflexivity.
  Qed.
  Lemma macaddr8_ok a t : blen a = 8 -> DecodeType {| vis := a; tail := t |} 774 = Ok (exp_mac a).
  Proof.
    intros L. dispatch KMacaddr8. assert (N : length a = 8%nat) by (unfold blen in L; lia).
    rewrite <- N. rewrite idx_list_ok; [|lia|cbn [vis]; apply sub_exact; lia].
    cbn [bind]. unfold exp_mac. rewrite map_map. reflexivity.
  Qed.

  (* ---- geometric ---- *)
  Lemma decodePoint_ok s p : sub (vis s) 0 16 = enc_point p -> wf_point p -> decodePoint s = Ok (txt_point fmt_g p).
  Proof.
    intros Hs [Hx Hy]. unfold decodePoint.
    assert (L : blen (sub (vis s) 0 16) = 16) by (rewrite Hs; unfold enc_point; bl; reflexivity).
    destruct (sub_len_bound (vis s) 0 16) as [B|B]; try lia.
    destruct (len s <? 16) eqn:E; [unfold len in E; lia|].
    rewrite (read_u64 s 0 (fst p)); [|lia| |exact Hx].
    2:{ replace (sub (vis s) 0 (0 + 8)) with (sub (sub (vis s) 0 16) 0 8) by (rewrite sub_sub by lia; reflexivity).
        rewrite Hs. unfold enc_point. ssub. }
    cbn [bind]. rewrite (read_u64 s 8 (snd p)); [reflexivity|lia| |exact Hy].
    replace (sub (vis s) 8 (8 + 8)) with (sub (sub (vis s) 0 16) 8 16) by (rewrite sub_sub by lia; reflexivity).
    rewrite Hs. unfold enc_point. ssub.
  Qed.

  Lemma point_ok p t : wf_point p -> DecodeType {| vis := enc_point p; tail := t |} 600 = Ok (exp_point fmt_g p).
  Proof.
    intros H. dispatch KPoint. rewrite (decodePoint_ok _ p); auto; cbn [vis]; apply sub_exact; slen.
  Qed.

  Lemma two_points s p q : vis s = enc_point p ++ enc_point q -> wf_point p -> wf_point q ->
    exists s1 s2, slice s 0 16 = Ok s1 /\ slice s 16 32 = Ok s2 /\
                  decodePoint s1 = Ok (txt_point fmt_g p) /\ decodePoint s2 = Ok (txt_point fmt_g q).
  Proof.
    intros V Hp Hq.
    assert (L : len s = 32) by (unfold len; rewrite V; bl; lia).
    destruct (slice_sub s 0 16 (enc_point p)) as [t1 E1]; try lia.
    { rewrite V. ssub. }
    destruct (slice_sub s 16 32 (enc_point q)) as [t2 E2]; try lia.
    { rewrite V. ssub. }
    do 2 eexists. repeat split; eauto.
    - apply decodePoint_ok; auto; cbn [vis]; apply sub_exact; bl; lia.
    - apply decodePoint_ok; auto; cbn [vis]; apply sub_exact; bl; lia.
  Qed.

  Lemma lseg_ok p q t : wf_point p -> wf_point q ->
    DecodeType {| vis := enc_lseg p q; tail := t |} 601 = Ok (exp_lseg fmt_g p q).
  Proof.
    intros Hp Hq. dispatch KLseg.
    destruct (two_points {| vis := enc_lseg p q; tail := t |} p q) as (s1 & s2 & E1 & E2 & D1 & D2); auto.
    rewrite E1. cbn [bind]. rewrite D1. cbn [bind]. rewrite E2. cbn [bind]. rewrite D2. reflexivity.
  Qed.
  Lemma box_ok p q t : wf_point p -> wf_point q ->
    DecodeType {| vis := enc_lseg p q; tail := t |} 603 = Ok (exp_box fmt_g p q).
  Proof.
    intros Hp Hq. dispatch KBox.
    destruct (two_points {| vis := enc_lseg p q; tail := t |} p q) as (s1 & s2 & E1 & E2 & D1 & D2); auto.
    rewrite E1. cbn [bind]. rewrite D1. cbn [bind]. rewrite E2. cbn [bind]. rewrite D2. reflexivity.
  Qed.
  Lemma line_ok a b c t : in_u 64 a -> in_u 64 b -> in_u 64 c ->
    DecodeType {| vis := enc_line a b c; tail := t |} 628 = Ok (exp_line fmt_g a b c).
  Proof.
    intros Ha Hb Hc. dispatch KLine. rd read_u64 0 a. rd read_u64 8 b. rd read_u64 16 c. reflexivity.
  Qed.
  Lemma circle_ok p r t : wf_point p -> in_u 64 r ->
    DecodeType {| vis := enc_circle p r; tail := t |} 718 = Ok (exp_circle fmt_g p r).
  Proof.
    intros Hp Hr. dispatch KCircle.
    destruct (slice_sub {| vis := enc_circle p r; tail := t |} 0 16 (enc_point p)) as [t1 ->]; try lia; [slen| |].
    { cbn [vis]. unfold enc_circle. ssub. }
    cbn [bind]. rewrite (decodePoint_ok _ p); [|cbn [vis]; apply sub_exact; bl; lia|exact Hp].
    cbn [bind]. rd read_u64 16 r. reflexivity.
  Qed.
End P.
