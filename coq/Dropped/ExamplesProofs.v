(* Dropped/ExamplesProofs.v — concrete values satisfying the hypotheses of the theorems (non-vacuity), and the
   witness of the misread 17-column layout. *)
Require Import PG.Base.Bytes PG.Base.GoSlice PG.Base.Value.
Require Import PG.C02.Model PG.C02.Spec PG.C03.Model PG.C03.Pure PG.C03.Spec PG.C03.SpecProofs PG.C03.Main.
Require Import PG.C04.Lib PG.C01.Lib PG.C01.Model PG.C01.Spec PG.C01.Check PG.C01.CheckProofs PG.C01.HeapProofs.
Require Import PG.Dropped.Model PG.Dropped.Spec PG.Dropped.ParseProofs PG.Dropped.RecoverProofs.
Require Import Coq.Sorting.Permutation Coq.Sorting.Sorted.

Definition wf_dattr_b (a : dattr) : bool :=
  (0 <=? da_relid a) && (da_relid a <? 2 ^ 32) && wf_name_b (da_name a) && (0 <=? da_typid a) && (da_typid a <? 2 ^ 32) &&
  (- 32768 <=? da_len a) && (da_len a <? 32768) && (- 32768 <=? da_num a) && (da_num a <? 32768) &&
  (0 <=? da_align a) && (da_align a <? 256) && (blen (da_misc a) =? 12) && (blen (da_stat a) =? 4).
Lemma wf_dattr_sound a : wf_dattr_b a = true -> wf_dattr a.
Proof.
  unfold wf_dattr_b, wf_dattr. intros H.
  repeat match goal with H : _ && _ = true |- _ => apply andb_prop in H; destruct H end.
  split; [lia|]. split; [apply wf_name_sound; assumption|]. repeat split; lia.
Qed.

(* HEAP_XMIN_COMMITTED|HEAP_XMAX_INVALID = 0x0900 (live);  HEAP_XMIN_COMMITTED|HEAP_XMAX_COMMITTED = 0x0500 (deleted) *)
Definition h_live : vhdr := {| vh_head := repeat x11 18; vh_flags2 := 0; vh_mask_hi := 1152; vh_extra := 0 |}.
Definition h_dead : vhdr := {| vh_head := repeat x22 18; vh_flags2 := 2; vh_mask_hi := 640; vh_extra := 1 |}.
Definition pg {A} (items : list (version A)) : hblock A := HPage {| hp_lsn := repeat x33 12; hp_prune := zeros 4; hp_items := items |}.
Definition att (relid : Z) (name : bytes) (typ len num align : Z) (dropped : bool) : dattr :=
  {| da_relid := relid; da_name := name; da_typid := typ; da_len := len; da_num := num; da_byval := (0 <? len);
     da_align := align; da_isdropped := dropped; da_misc := repeat x01 12; da_stat := repeat xff 4 |}.

(* CREATE TABLE t(id int4, secret int4, note text); two rows; ALTER TABLE t DROP COLUMN secret; one more row *)
Definition ex_attr_heap : heap dattr :=
  [pg [VRow h_live (att 16384 (bs "note") 25 (-1) 3 105 false);
       VRow h_dead (att 16384 (bs "secret") 23 4 2 105 false);
       VRow h_live (att 16384 (bs "........pg.dropped.2........") 0 4 2 105 true);
       VRow h_live (att 16390 (bs "x") 23 4 1 105 false);
       VRow h_live (att 16384 (bs "ctid") 27 6 (-1) 115 false);
       VRow h_live (att 16384 (bs "id") 23 4 1 105 false)]].
Definition i4 (v : Z) : datum := DFixed (le_enc 4 v).
Definition ex_tbl_heap : heap (list datum) :=
  [pg [VRow h_live [i4 7; i4 305419896; DShort (bs "ab")]; VRow h_dead [i4 9; i4 1; DShort (bs "zz")];
       VRow h_live [i4 8; DNull; DShort (bs "c")]]].

Example ex_roundtrip :
  wf_heap schemaPGAttrDropped (dattr_ds true) wf_dattr ex_attr_heap /\
  NoDup (map da_num (filter (sel_all 16384) (live_rows ex_attr_heap))) /\
  map d_attnum (expected_all (fun _ => []) (live_rows ex_attr_heap) 16384) = [1; 2; 3].
Proof.
  split; [|split].
  - apply (wf_heap_sound schemaPGAttrDropped (dattr_ds true) wf_dattr_b wf_dattr wf_dattr_sound). vm_compute. reflexivity.
  - apply (nodup_sound Z.eqb Z.eqb_refl). vm_compute. reflexivity.
  - vm_compute. reflexivity.
Qed.

Example ex_recover :
  let cols := rel_dcols (live_rows ex_attr_heap) 16384 in
  nums_ok cols 0 /\ NoDup (map c_name cols) /\ wf_heap cols idds (fun _ => True) ex_tbl_heap /\
  expected_values (fun b _ => VBytes b) cols 2 (live_rows ex_tbl_heap) = [VBytes [x78; x56; x34; x12]; VNil].
Proof.
  cbv zeta. split; [|split; [|split]].
  - apply nums_ok_sound. vm_compute. reflexivity.
  - apply (nodup_sound beq beq_refl). vm_compute. reflexivity.
  - apply (wf_heap_sound _ idds (fun _ => true) (fun _ => True) (fun _ _ => I)). vm_compute. reflexivity.
  - vm_compute. reflexivity.
Qed.

(* ---------- the 17-column layout is misread ---------- *)
(* one live row in the 17-column layout: relation 16384, attribute 2, dropped, attstattarget = -1 *)
Definition ex_v15_att : dattr := att 16384 (bs "........pg.dropped.2........") 0 4 2 105 true.
Definition ex_v15_heap : heap dattr := [pg [VRow h_live ex_v15_att]].

Section V15.
Variable DecodeType : gslice -> Z -> res gval.
Variable decode : bytes -> Z -> gval.
Hypothesis DT_ok : forall s oid, DecodeType s oid = Ok (decode (vis s) oid).
Variable TypeName : Z -> bytes.
Variable sortD : list DroppedColumnInfo -> list DroppedColumnInfo.
Hypothesis DT_cat : agrees_on_catalog decode.
Hypothesis sortD_ok : sort_spec lessD sortD.

Lemma ex_v15_wf : wf_heap schemaPGAttrDroppedV15 (dattr_ds false) wf_dattr ex_v15_heap.
Proof. apply (wf_heap_sound schemaPGAttrDroppedV15 (dattr_ds false) wf_dattr_b wf_dattr wf_dattr_sound). vm_compute. reflexivity. Qed.

Theorem ex_v15_misread :
  wf_heap schemaPGAttrDroppedV15 (dattr_ds false) wf_dattr ex_v15_heap /\
  expected_dropped TypeName (fun _ => []) (live_rows ex_v15_heap) <> [] /\
  parseDroppedColumns DecodeType TypeName sortD
    {| vis := enc_heap schemaPGAttrDroppedV15 (dattr_ds false) ex_v15_heap; tail := [] |} [] = Ok [].
Proof.
  split; [exact ex_v15_wf|]. split.
  { change (live_rows ex_v15_heap) with [ex_v15_att]. unfold expected_dropped, pre_dropped. cbn. discriminate. }
  unfold parseDroppedColumns. rewrite (read_attr_rows_16 DecodeType decode DT_ok).
  rewrite (ReadRows_enc_heap_gen DecodeType decode DT_ok schemaPGAttrDroppedV15 (dattr_ds false) wf_dattr schemaPGAttrDropped
             ltac:(discriminate) ex_v15_heap [] ex_v15_wf).
  cbn [bind]. change (live_rows ex_v15_heap) with [ex_v15_att]. cbn [map flat_map]. rewrite app_nil_r.
  assert (E : dropped_of_row TypeName []
                (row_read decode schemaPGAttrDroppedV15 (dattr_ds false) schemaPGAttrDropped ex_v15_att) = []).
  { unfold dropped_of_row, row_bool.
    remember (row_read decode schemaPGAttrDroppedV15 (dattr_ds false) schemaPGAttrDropped ex_v15_att) as r eqn:R.
    vm_compute in R. subst r.
    rewrite (DT_cat [x01] 16), (DT_cat [xff; xff] 21) by (cbn; lia).
    vm_compute. reflexivity. }
  rewrite E. f_equal. apply (sort_nil lessD). exact sortD_ok.
Qed.
End V15.
