(* Dropped/Model.v — model of pgdump/dropped.go (dropped-column discovery and recovery), one definition per Go
   function, same name.  The heap layer (ReadRows = ReadTuples + DecodeTuple) is the C02/C03 model, the catalog
   parsers ParsePGDatabase / ParsePGClass and getOID / getString / toInt / row_get / the Go-map log are C01's model,
   findTableByName is C11's model (coq/C11/CliModel.v), all imported.  What is not logic is a Section variable:
     DecodeType    C04-C07's decoder (Props/Dropped.v instantiates it with Compose's DecodeType_full)
     TypeName      the oid -> name table of types.go (C04's TypeName; kept abstract in the theorems)
     sortD, sortA  what sort.Slice does with the two `less` functions of dropped.go:195-200 / 342-344.  sort.Slice is
                   NOT stable; the theorems assume only [sort_spec] (a permutation, sorted for `less`)
     range_order   the order in which THIS run's `for .. := range m` visits the keys of a Go map
     slack         the spare capacity os.ReadFile leaves behind the bytes it returns
   The regular expression droppedColumnRegex is a hand-written recogniser (droppedColumnMatch); NameProofs.v proves it
   equivalent to the language  dots+ "pg.dropped." digits+ dots+ . *)
Require Import PG.Base.Bytes PG.Base.GoSlice PG.Base.Value PG.C02.Model PG.C03.Model.
Require Import PG.C04.Lib PG.C01.Lib PG.C01.Model.
Require PG.C11.CliModel.
Require Import Coq.Sorting.Permutation Coq.Sorting.Sorted.

(* ---------------- column names (dropped.go:42-80) ---------------- *)
Definition n_attstorage : bytes := bs "attstorage".
Definition n_attnotnull : bytes := bs "attnotnull".
Definition n_atthasdef : bytes := bs "atthasdef".
Definition n_atthasmissing : bytes := bs "atthasmissing".
Definition n_attidentity : bytes := bs "attidentity".
Definition n_attgenerated : bytes := bs "attgenerated".
Definition n_attisdropped : bytes := bs "attisdropped".

(* dropped.go:42-59 *)
Definition schemaPGAttrDropped : list Column :=
  [mkcol n_attrelid OidOid 4; mkcol n_attname OidName 64; mkcol n_atttypid OidOid 4;
   mkcol n_attlen OidInt2 2; mkcol n_attnum OidInt2 2; mkcol n_atttypmod OidInt4 4; mkcol n_attndims OidInt2 2;
   mkcol n_attbyval OidBool 1; mkcol n_attstorage OidChar 1; mkcol n_attalign OidChar 1;
   mkcol n_attnotnull OidBool 1; mkcol n_atthasdef OidBool 1; mkcol n_atthasmissing OidBool 1;
   mkcol n_attidentity OidChar 1; mkcol n_attgenerated OidChar 1; mkcol n_attisdropped OidBool 1].
(* dropped.go:62-80 *)
Definition schemaPGAttrDroppedV15 : list Column :=
  [mkcol n_attrelid OidOid 4; mkcol n_attname OidName 64; mkcol n_atttypid OidOid 4; mkcol n_attstattarget OidInt4 4;
   mkcol n_attlen OidInt2 2; mkcol n_attnum OidInt2 2; mkcol n_atttypmod OidInt4 4; mkcol n_attndims OidInt2 2;
   mkcol n_attbyval OidBool 1; mkcol n_attstorage OidChar 1; mkcol n_attalign OidChar 1;
   mkcol n_attnotnull OidBool 1; mkcol n_atthasdef OidBool 1; mkcol n_atthasmissing OidBool 1;
   mkcol n_attidentity OidChar 1; mkcol n_attgenerated OidChar 1; mkcol n_attisdropped OidBool 1].

(* ---------------- dropped.go:83  droppedColumnRegex = ^\.+pg\.dropped\.(\d+)\.+$ ---------------- *)
(* RE2 semantics: \d is [0-9], ^ and $ (no `m` flag) are begin / end of text, no byte >= 0x80 can match a literal of
   the pattern; the pattern is deterministic (the character after each `+` group is outside the group's class), so
   leftmost-first matching = the unique parse.  Result: the submatch (\d+), i.e. matches[1]. *)
Definition is_dot (b : byte) : bool := b2z b =? 46.
Definition is_digit (b : byte) : bool := (48 <=? b2z b) && (b2z b <=? 57).
Fixpoint span (p : byte -> bool) (l : bytes) : bytes * bytes :=
  match l with
  | [] => ([], [])
  | b :: r => if p b then let '(a, c) := span p r in (b :: a, c) else ([], l)
  end.
Fixpoint strip_prefix (p s : bytes) : option bytes :=
  match p with
  | [] => Some s
  | x :: p' => match s with
               | y :: s' => if b2z x =? b2z y then strip_prefix p' s' else None
               | [] => None
               end
  end.
Definition s_pg_dropped : bytes := bs "pg.dropped.".
Definition droppedColumnMatch (name : bytes) : option bytes :=
  let '(d1, r1) := span is_dot name in
  match d1 with
  | [] => None
  | _ :: _ =>
    match strip_prefix s_pg_dropped r1 with
    | None => None
    | Some r2 =>
      let '(dg, r3) := span is_digit r2 in
      match dg with
      | [] => None
      | _ :: _ =>
        let '(d2, r4) := span is_dot r3 in
        match d2, r4 with
        | _ :: _, [] => Some dg
        | _, _ => None
        end
      end
    end
  end.

(* ---------------- dropped.go:14-25 ---------------- *)
Record DroppedColumnInfo := {
  d_relid : Z; d_table : bytes; d_attnum : Z; d_orig : bytes; d_dname : bytes;
  d_typid : Z; d_tname : bytes; d_len : Z; d_align : Z (* byte *); d_byval : bool }.

Definition s_dropped_ : bytes := bs "dropped_".

(* the two `less` closures handed to sort.Slice *)
Definition lessD (a b : DroppedColumnInfo) : bool :=      (* dropped.go:195-200 *)
  if negb (d_relid a =? d_relid b) then d_relid a <? d_relid b else d_attnum a <? d_attnum b.
Definition lessA (a b : DroppedColumnInfo) : bool := d_attnum a <? d_attnum b.   (* dropped.go:342-344 *)
(* what sort.Slice guarantees for a strict weak order: the same elements, no later one `less` than an earlier one *)
Definition sort_spec (less : DroppedColumnInfo -> DroppedColumnInfo -> bool)
                     (sorter : list DroppedColumnInfo -> list DroppedColumnInfo) : Prop :=
  forall l, Permutation l (sorter l) /\ StronglySorted (fun x y => less y x = false) (sorter l).

(* a reference sorter: stable insertion sort for a `less` function (what sort.Slice runs on up to 12 elements) *)
Section ISort.
Context {A : Type}.
Variable less : A -> A -> bool.
Fixpoint insert_less (a : A) (l : list A) : list A :=
  match l with
  | [] => [a]
  | x :: r => if less a x then a :: x :: r else x :: insert_less a r
  end.
(* elements are inserted from the right, each BEFORE the first element it is `less` than: equal keys keep their order *)
Definition isort_less (l : list A) : list A := fold_right (fun a acc => insert_less a acc) [] l.
End ISort.

(* row[key].(bool) *)
Definition row_bool (r : row) (k : bytes) : option bool :=
  match row_get r k with Some (VBool b) => Some b | _ => None end.
(* if align := getString(row, "attalign"); len(align) > 0 { col.AttAlign = align[0] }  — zero value otherwise *)
Definition align_of_row (r : row) : Z := match getString r n_attalign with [] => 0 | b :: _ => b2z b end.
(* if byval, ok := row["attbyval"].(bool); ok { col.AttByVal = byval } *)
Definition byval_of_row (r : row) : bool := match row_bool r n_attbyval with Some b => b | None => false end.
(* tableNames[relid]: the zero value "" when absent *)
Definition name_get (m : gomap bytes) (k : Z) : bytes := match map_get m k with Some n => n | None => [] end.

Inductive derr := ERead | EDb | ETable | EColumn.     (* the error returns, by kind (never by message text) *)
Inductive dres (A : Type) := DOk (a : A) | DErr (e : derr).
Arguments DOk {A}. Arguments DErr {A}.
Record DroppedColumnData := { dd_column : DroppedColumnInfo; dd_values : list gval; dd_rows : list row }.

Section Model.
Variable DecodeType : gslice -> Z -> res gval.
Variable TypeName : Z -> bytes.
Variable sortD sortA : list DroppedColumnInfo -> list DroppedColumnInfo.

(* dropped.go:141-146 = 295-299: the first schema unless it yields NO rows *)
Definition read_attr_rows (data : gslice) : res (list row) :=
  rows <- ReadRows DecodeType data schemaPGAttrDropped true ;;
  match rows with
  | [] => ReadRows DecodeType data schemaPGAttrDroppedV15 true
  | _ :: _ => Ok rows
  end.

(* dropped.go:148-192, one iteration *)
Definition dropped_of_row (tableNames : gomap bytes) (r : row) : list DroppedColumnInfo :=
  match row_bool r n_attisdropped with
  | Some true =>
    let attnum := toInt (row_get r n_attnum) in
    if attnum <=? 0 then [] else
    let relid := getOID r n_attrelid in
    let attname := getString r n_attname in
    let typ := getOID r n_atttypid in
    [{| d_relid := relid; d_table := name_get tableNames relid; d_attnum := attnum;
        d_orig := match droppedColumnMatch attname with Some dg => s_dropped_ ++ dg | None => [] end;
        d_dname := attname; d_typid := typ; d_tname := TypeName typ; d_len := toInt (row_get r n_attlen);
        d_align := align_of_row r; d_byval := byval_of_row r |}]
  | _ => []
  end.
(* dropped.go:138-203 *)
Definition parseDroppedColumns (data : gslice) (tableNames : gomap bytes) : res (list DroppedColumnInfo) :=
  rows <- read_attr_rows data ;;
  Ok (sortD (flat_map (dropped_of_row tableNames) rows)).

(* dropped.go:301-340, one iteration *)
Definition attr_of_row_all (relOID : Z) (r : row) : list DroppedColumnInfo :=
  let relid := getOID r n_attrelid in
  if negb (relid =? relOID) then [] else
  let attnum := toInt (row_get r n_attnum) in
  if attnum <=? 0 then [] else
  let isDrop := match row_bool r n_attisdropped with Some b => b | None => false end in
  let attname := getString r n_attname in
  let typ := getOID r n_atttypid in
  [{| d_relid := relid; d_table := []; d_attnum := attnum;
      d_orig := if isDrop then s_dropped_ ++ fmt_d attnum else attname;
      d_dname := attname; d_typid := typ; d_tname := TypeName typ; d_len := toInt (row_get r n_attlen);
      d_align := align_of_row r; d_byval := byval_of_row r |}].
(* dropped.go:292-347 *)
Definition parseAllAttributes (data : gslice) (relOID : Z) : res (list DroppedColumnInfo) :=
  rows <- read_attr_rows data ;;
  Ok (sortA (flat_map (attr_of_row_all relOID) rows)).

(* dropped.go:350-369 *)
Definition col_of_info (a : DroppedColumnInfo) : Column :=
  {| c_name := if beq (d_orig a) [] then s_dropped_ ++ fmt_d (d_attnum a) else d_orig a;
     c_typid := d_typid a; c_len := d_len a; c_num := d_attnum a; c_align := d_align a |}.
Definition buildColumnsWithDropped (attrs : list DroppedColumnInfo) : list Column := map col_of_info attrs.

(* dropped.go:276-283: per row the value under "dropped_<attNum>", nil when the key is absent *)
Definition recover_values (rows : list row) (attNum : Z) : list gval :=
  map (fun r => match row_get r (s_dropped_ ++ fmt_d attNum) with Some v => v | None => VNil end) rows.

(* dropped.go:244-288: RecoverDroppedColumnData from the point where the relation is known
   ([tableData] = None: os.ReadFile of the relation file failed) *)
Definition recover_core (attrData : gslice) (relOID : Z) (tableData : option gslice) (attNum : Z)
  : res (dres DroppedColumnData) :=
  allAttrs <- parseAllAttributes attrData relOID ;;
  match find (fun c => d_attnum c =? attNum) allAttrs with
  | None => Ok (DErr EColumn)
  | Some droppedCol =>
    match tableData with
    | None => Ok (DErr ERead)
    | Some td =>
      let cols := buildColumnsWithDropped allAttrs in
      rows <- ReadRows DecodeType td cols true ;;
      Ok (DOk {| dd_column := droppedCol; dd_values := recover_values rows attNum; dd_rows := rows |})
    end
  end.

(* ---------------- the directory-level entry points ---------------- *)
Variable range_order : list Z -> list Z.
Variable slack : bytes -> bytes.

(* the current state of a Go map given as its assignment log, in THIS run's visiting order *)
Definition map_state {V} (m : gomap V) : list (Z * V) :=
  flat_map (fun k => match map_get m k with Some v => [(k, v)] | None => [] end) (range_order (map_keys m)).
(* for _, db := range ParsePGDatabase(dbData) { if db.Name == dbName { dbOID = db.OID; break } } *)
Definition find_db (dbs : list DatabaseInfo) (name : bytes) : Z :=
  match find (fun d => beq (db_name d) name) dbs with Some d => db_oid d | None => 0 end.
(* dropped.go:123-126  for _, t := range tables { tableNames[t.OID] = t.Name } *)
Definition tableNames_of (tables : gomap TableInfo) : gomap bytes :=
  map (fun kv => (ti_oid (snd kv), ti_name (snd kv))) (map_state tables).

(* dropped.go:86-135; the result's Database is the argument and DroppedCount = len(Columns) *)
Definition FindDroppedColumns (fs : path -> option bytes) (dbName : bytes) : res (dres (list DroppedColumnInfo)) :=
  match ReadFile slack fs PGlobal1262 with
  | None => Ok (DErr ERead)
  | Some dbData =>
    dbs <- ParsePGDatabase DecodeType dbData ;;
    let dbOID := find_db dbs dbName in
    if dbOID =? 0 then Ok (DErr EDb) else
    match ReadFile slack fs (PBase dbOID 1249) with
    | None => Ok (DErr ERead)
    | Some attrData =>
      match ReadFile slack fs (PBase dbOID 1259) with
      | None => Ok (DErr ERead)
      | Some classData =>
        tables <- ParsePGClass DecodeType classData ;;
        cols <- parseDroppedColumns attrData (tableNames_of tables) ;;
        Ok (DOk cols)
      end
    end
  end.

(* dropped.go:372-397: (database name, columns) of every non-template database with at least one dropped column *)
Fixpoint scan_dbs (fs : path -> option bytes) (dbs : list DatabaseInfo) : res (list (bytes * list DroppedColumnInfo)) :=
  match dbs with
  | [] => Ok []
  | db :: rest =>
    if has_prefix (db_name db) s_template then scan_dbs fs rest else
    r <- FindDroppedColumns fs (db_name db) ;;
    tl <- scan_dbs fs rest ;;
    match r with
    | DOk (c :: cs) => Ok ((db_name db, c :: cs) :: tl)
    | _ => Ok tl
    end
  end.
Definition ScanDroppedColumns (fs : path -> option bytes) : res (dres (list (bytes * list DroppedColumnInfo))) :=
  match ReadFile slack fs PGlobal1262 with
  | None => Ok (DErr ERead)
  | Some dbData => dbs <- ParsePGDatabase DecodeType dbData ;; r <- scan_dbs fs dbs ;; Ok (DOk r)
  end.

(* dropped.go:400-440 *)
Definition GetDroppedColumnSchema (fs : path -> option bytes) (dbName tableName : bytes) : res (dres (list Column)) :=
  match ReadFile slack fs PGlobal1262 with
  | None => Ok (DErr ERead)
  | Some dbData =>
    dbs <- ParsePGDatabase DecodeType dbData ;;
    let dbOID := find_db dbs dbName in
    if dbOID =? 0 then Ok (DErr EDb) else
    match ReadFile slack fs (PBase dbOID 1259) with
    | None => Ok (DErr ERead)
    | Some classData =>
      tables <- ParsePGClass DecodeType classData ;;
      let tableOID := match PG.C11.CliModel.findTableByName (map_state tables) tableName with
                      | Some t => ti_oid t | None => 0 end in
      if tableOID =? 0 then Ok (DErr ETable) else
      match ReadFile slack fs (PBase dbOID 1249) with
      | None => Ok (DErr ERead)
      | Some attrData =>
        attrs <- parseAllAttributes attrData tableOID ;;
        Ok (DOk (buildColumnsWithDropped attrs))
      end
    end
  end.

(* dropped.go:206-289 *)
Definition RecoverDroppedColumnData (fs : path -> option bytes) (dbName tableName : bytes) (attNum : Z)
  : res (dres DroppedColumnData) :=
  match ReadFile slack fs PGlobal1262 with
  | None => Ok (DErr ERead)
  | Some dbData =>
    dbs <- ParsePGDatabase DecodeType dbData ;;
    let dbOID := find_db dbs dbName in
    if dbOID =? 0 then Ok (DErr EDb) else
    match ReadFile slack fs (PBase dbOID 1259) with
    | None => Ok (DErr ERead)
    | Some classData =>
      tables <- ParsePGClass DecodeType classData ;;
      match PG.C11.CliModel.findTableByName (map_state tables) tableName with
      | None => Ok (DErr ETable)
      | Some tableInfo =>
        match ReadFile slack fs (PBase dbOID 1249) with
        | None => Ok (DErr ERead)
        | Some attrData =>
          recover_core attrData (ti_oid tableInfo) (ReadFile slack fs (PBase dbOID (ti_filenode tableInfo))) attNum
        end
      end
    end
  end.

End Model.
