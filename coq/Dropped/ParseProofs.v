(* Dropped/ParseProofs.v — sorting facts, totality, the unreachable 17-column fallback, and the reference-writer
   round trips of parseAllAttributes / parseDroppedColumns. *)
Require Import PG.Base.Bytes PG.Base.GoSlice PG.Base.Value.
Require Import PG.C02.Model PG.C02.Spec PG.C02.Refine.
Require Import PG.C03.Model PG.C03.Pure PG.C03.Spec PG.C03.Refine PG.C03.SpecProofs PG.C03.Main.
Require Import PG.C04.Lib PG.C01.Lib PG.C01.Model PG.C01.Spec PG.C01.HeapProofs PG.C01.CatalogProofs PG.C01.MoreProofs.
Require Import PG.Dropped.Model PG.Dropped.Spec.
Require Import Coq.Sorting.Permutation Coq.Sorting.Sorted.

(* ================= sort.Slice ================= *)
Section SortFacts.
Variable less : DroppedColumnInfo -> DroppedColumnInfo -> bool.
Hypothesis less_asym : forall x y, less x y = true -> less y x = false.
Hypothesis less_trans : forall x y z, less x y = true -> less y z = true -> less x z = true.
Notation R := (fun x y => less y x = false).

Lemma insert_less_perm a l : Permutation (a :: l) (insert_less less a l).
Proof.
  induction l as [|x r IH]; cbn [insert_less]; [apply Permutation_refl|].
  destruct (less a x); [apply Permutation_refl|].
  eapply perm_trans; [apply perm_swap|]. apply perm_skip. exact IH.
Qed.
Lemma isort_less_perm l : Permutation l (isort_less less l).
Proof.
  induction l as [|a r IH]; [constructor|]. cbn [isort_less fold_right].
  eapply perm_trans; [apply perm_skip; exact IH|]. apply insert_less_perm.
Qed.
Lemma insert_less_sorted a l : StronglySorted R l -> StronglySorted R (insert_less less a l).
Proof.
  induction 1 as [|x r Hs IH Hx]; cbn [insert_less]; [repeat constructor|].
  destruct (less a x) eqn:E.
  - constructor; [constructor; assumption|]. constructor; [apply less_asym; exact E|].
    rewrite Forall_forall in *. intros z Hz. specialize (Hx z Hz). cbv beta in *.
    destruct (less z a) eqn:E2; [|reflexivity]. rewrite (less_trans z a x E2 E) in Hx. discriminate Hx.
  - constructor; [exact IH|]. rewrite Forall_forall in *. intros z Hz.
    apply (Permutation_in _ (Permutation_sym (insert_less_perm a r))) in Hz. destruct Hz as [<-|Hz]; [exact E|auto].
Qed.
Lemma isort_less_sorted l : StronglySorted R (isort_less less l).
Proof. induction l as [|a r IH]; [constructor|]. cbn [isort_less fold_right]. apply insert_less_sorted. exact IH. Qed.
Theorem isort_less_spec : sort_spec less (isort_less less).
Proof. intros l. split; [apply isort_less_perm|apply isort_less_sorted]. Qed.

(* two sorted arrangements of the same elements coincide when no two DIFFERENT elements tie *)
Lemma sorted_perm_unique : forall l1 l2, Permutation l1 l2 -> StronglySorted R l1 -> StronglySorted R l2 ->
  (forall x y, In x l1 -> In y l1 -> less x y = false -> less y x = false -> x = y) -> l1 = l2.
Proof.
  induction l1 as [|a r IH]; intros l2 P S1 S2 AS.
  - apply Permutation_nil in P. subst. reflexivity.
  - destruct l2 as [|b s]; [apply Permutation_sym, Permutation_nil in P; discriminate P|].
    assert (E : a = b).
    { assert (Ha : In a (b :: s)) by (eapply Permutation_in; [exact P|left; reflexivity]).
      assert (Hb : In b (a :: r)) by (eapply Permutation_in; [apply Permutation_sym; exact P|left; reflexivity]).
      destruct Ha as [Ha|Ha]; [auto|]. destruct Hb as [Hb|Hb]; [auto|].
      inversion S1 as [|? ? _ F1]; subst. inversion S2 as [|? ? _ F2]; subst.
      rewrite Forall_forall in F1, F2. apply AS; [left; reflexivity|right; exact Hb|apply (F2 a Ha)|apply (F1 b Hb)]. }
    subst b. f_equal. apply IH.
    + eapply Permutation_cons_inv. exact P.
    + inversion S1; assumption.
    + inversion S2; assumption.
    + intros x y Hx Hy. apply AS; right; assumption.
Qed.
Theorem sort_unique sorter l : sort_spec less sorter ->
  (forall x y, In x l -> In y l -> less x y = false -> less y x = false -> x = y) ->
  sorter l = isort_less less l.
Proof.
  intros SP AS. destruct (SP l) as [P1 S1]. symmetry. apply sorted_perm_unique.
  - eapply perm_trans; [apply Permutation_sym, isort_less_perm|exact P1].
  - apply isort_less_sorted.
  - exact S1.
  - intros x y Hx Hy. apply AS; eapply Permutation_in; try (apply Permutation_sym, isort_less_perm); assumption.
Qed.
End SortFacts.

Lemma lessA_asym x y : lessA x y = true -> lessA y x = false.
Proof. unfold lessA. lia. Qed.
Lemma lessA_trans x y z : lessA x y = true -> lessA y z = true -> lessA x z = true.
Proof. unfold lessA. lia. Qed.
Lemma lessD_asym x y : lessD x y = true -> lessD y x = false.
Proof. unfold lessD. destruct (d_relid x =? d_relid y) eqn:E1, (d_relid y =? d_relid x) eqn:E2; cbn [negb]; lia. Qed.
Lemma lessD_trans x y z : lessD x y = true -> lessD y z = true -> lessD x z = true.
Proof.
  unfold lessD. destruct (d_relid x =? d_relid y) eqn:E1, (d_relid y =? d_relid z) eqn:E2, (d_relid x =? d_relid z) eqn:E3;
    cbn [negb]; lia.
Qed.
(* non-vacuity of [sort_spec]: the reference insertion sort satisfies it for both `less` functions *)
Theorem isortA_spec : sort_spec lessA (isort_less lessA).
Proof. apply isort_less_spec; [apply lessA_asym|apply lessA_trans]. Qed.
Theorem isortD_spec : sort_spec lessD (isort_less lessD).
Proof. apply isort_less_spec; [apply lessD_asym|apply lessD_trans]. Qed.

Lemma nodup_key_inj {A B} (f : A -> B) (l : list A) : NoDup (map f l) ->
  forall x y, In x l -> In y l -> f x = f y -> x = y.
Proof.
  induction l as [|a r IH]; intros ND x y Hx Hy E; [contradiction|]. cbn [map] in ND. inversion ND as [|? ? Hn ND']; subst.
  destruct Hx as [<-|Hx], Hy as [<-|Hy]; auto.
  - exfalso. apply Hn. rewrite E. apply in_map. exact Hy.
  - exfalso. apply Hn. rewrite <- E. apply in_map. exact Hx.
Qed.
Lemma sortA_unique sorter l : sort_spec lessA sorter -> NoDup (map d_attnum l) -> sorter l = isort_less lessA l.
Proof.
  intros SP ND. apply sort_unique; [apply lessA_asym|apply lessA_trans|exact SP|].
  intros x y Hx Hy L1 L2. apply (nodup_key_inj d_attnum l ND); auto. unfold lessA in *. lia.
Qed.
Lemma sortD_unique sorter l : sort_spec lessD sorter -> NoDup (map (fun c => (d_relid c, d_attnum c)) l) ->
  sorter l = isort_less lessD l.
Proof.
  intros SP ND. apply sort_unique; [apply lessD_asym|apply lessD_trans|exact SP|].
  intros x y Hx Hy L1 L2. apply (nodup_key_inj _ l ND); auto. unfold lessD in *.
  destruct (d_relid x =? d_relid y) eqn:E1, (d_relid y =? d_relid x) eqn:E2; cbn [negb] in *; try lia.
  f_equal; lia.
Qed.
Lemma sort_nil less sorter : sort_spec less sorter -> sorter [] = [].
Proof. intros SP. destruct (SP []) as [P _]. apply Permutation_nil in P. exact P. Qed.

(* ================= the parsers ================= *)
Section Parse.
Variable DecodeType : gslice -> Z -> res gval.
Variable decode : bytes -> Z -> gval.
Hypothesis DT_ok : forall s oid, DecodeType s oid = Ok (decode (vis s) oid).
Variable TypeName : Z -> bytes.
Variable sortD sortA : list DroppedColumnInfo -> list DroppedColumnInfo.

Notation ReadRows_total := (ReadRows_total DecodeType decode DT_ok).

(* ---------- a non-empty schema yields one row per scanned tuple ---------- *)
Lemma decode_entries_length cols : cols <> [] -> forall es,
  exists rows, decode_entries DecodeType es cols = Ok rows /\ length rows = length es.
Proof.
  intros Hne. induction es as [|e r (rows & IH & L)]; [exists []; split; reflexivity|].
  cbn [decode_entries]. rewrite (DecodeTuple_refines DecodeType decode DT_ok). cbn [bind]. rewrite IH. cbn [bind].
  unfold p_decode. replace (Z.of_nat (length cols) =? 0) with false by (destruct cols; [contradiction|cbn [length]; lia]).
  rewrite andb_false_r. eexists. split; [reflexivity|]. cbn [length]. rewrite L. reflexivity.
Qed.
(* THE FALLBACK CAN NEVER YIELD ANYTHING: on every byte string, when the 16-column reading has no rows the
   17-column reading has none either (both return one row per visible tuple) *)
Theorem v15_fallback_empty s :
  ReadRows DecodeType s schemaPGAttrDropped true = Ok [] -> ReadRows DecodeType s schemaPGAttrDroppedV15 true = Ok [].
Proof.
  unfold ReadRows. destruct (ReadTuples_refines s true) as (l & -> & _). cbn [bind]. intros H.
  destruct (decode_entries_length schemaPGAttrDropped ltac:(discriminate) l) as (r1 & E1 & L1).
  destruct (decode_entries_length schemaPGAttrDroppedV15 ltac:(discriminate) l) as (r2 & E2 & L2).
  rewrite E1 in H. injection H as ->. rewrite E2. destruct r2; [reflexivity|]. cbn [length] in *. lia.
Qed.
(* hence the schema choice is no choice: always the 16-column reading *)
Theorem read_attr_rows_16 s : read_attr_rows DecodeType s = ReadRows DecodeType s schemaPGAttrDropped true.
Proof.
  unfold read_attr_rows. destruct (ReadRows DecodeType s schemaPGAttrDropped true) as [rows|] eqn:E; [|reflexivity].
  cbn [bind]. destruct rows; [|reflexivity]. apply v15_fallback_empty. exact E.
Qed.

(* ---------- totality: every byte string, every capacity tail ---------- *)
Lemma read_attr_rows_total s : exists rows, read_attr_rows DecodeType s = Ok rows.
Proof. rewrite read_attr_rows_16. apply ReadRows_total. Qed.
Theorem parseDroppedColumns_total s tn : exists r, parseDroppedColumns DecodeType TypeName sortD s tn = Ok r.
Proof. unfold parseDroppedColumns. destruct (read_attr_rows_total s) as [rows ->]. eexists; reflexivity. Qed.
Theorem parseAllAttributes_total s oid : exists r, parseAllAttributes DecodeType TypeName sortA s oid = Ok r.
Proof. unfold parseAllAttributes. destruct (read_attr_rows_total s) as [rows ->]. eexists; reflexivity. Qed.
Theorem recover_core_total ad oid td n : exists r, recover_core DecodeType TypeName sortA ad oid td n = Ok r.
Proof.
  unfold recover_core. destruct (parseAllAttributes_total ad oid) as [l ->]. cbn [bind].
  destruct (find _ l); [|eexists; reflexivity]. destruct td as [td|]; [|eexists; reflexivity].
  destruct (ReadRows_total td (buildColumnsWithDropped l) true) as [rows ->]. eexists; reflexivity.
Qed.

Section Dir.
Variable range_order : list Z -> list Z.
Variable slack : bytes -> bytes.
Theorem FindDroppedColumns_total fs db :
  exists r, FindDroppedColumns DecodeType TypeName sortD range_order slack fs db = Ok r.
Proof.
  unfold FindDroppedColumns. destruct (ReadFile slack fs PGlobal1262) as [d|]; [|eexists; reflexivity].
  destruct (ParsePGDatabase_total DecodeType decode DT_ok d) as [dbs ->]. cbn [bind].
  destruct (find_db dbs db =? 0); [eexists; reflexivity|].
  destruct (ReadFile slack fs (PBase _ 1249)) as [a|]; [|eexists; reflexivity].
  destruct (ReadFile slack fs (PBase _ 1259)) as [c|]; [|eexists; reflexivity].
  destruct (ParsePGClass_total DecodeType decode DT_ok c) as [t ->]. cbn [bind].
  destruct (parseDroppedColumns_total a (tableNames_of range_order t)) as [r ->]. eexists; reflexivity.
Qed.
Lemma scan_dbs_total fs : forall dbs, exists r, scan_dbs DecodeType TypeName sortD range_order slack fs dbs = Ok r.
Proof.
  induction dbs as [|d r [x IH]]; [eexists; reflexivity|]. cbn [scan_dbs].
  destruct (has_prefix _ _); [eexists; exact IH|].
  destruct (FindDroppedColumns_total fs (db_name d)) as [y ->]. cbn [bind]. rewrite IH. cbn [bind].
  destruct y as [[|? ?]|]; eexists; reflexivity.
Qed.
Theorem ScanDroppedColumns_total fs : exists r, ScanDroppedColumns DecodeType TypeName sortD range_order slack fs = Ok r.
Proof.
  unfold ScanDroppedColumns. destruct (ReadFile slack fs PGlobal1262) as [d|]; [|eexists; reflexivity].
  destruct (ParsePGDatabase_total DecodeType decode DT_ok d) as [dbs ->]. cbn [bind].
  destruct (scan_dbs_total fs dbs) as [r ->]. eexists; reflexivity.
Qed.
Theorem GetDroppedColumnSchema_total fs db tb :
  exists r, GetDroppedColumnSchema DecodeType TypeName sortA range_order slack fs db tb = Ok r.
Proof.
  unfold GetDroppedColumnSchema. destruct (ReadFile slack fs PGlobal1262) as [d|]; [|eexists; reflexivity].
  destruct (ParsePGDatabase_total DecodeType decode DT_ok d) as [dbs ->]. cbn [bind].
  destruct (find_db dbs db =? 0); [eexists; reflexivity|].
  destruct (ReadFile slack fs (PBase _ 1259)) as [c|]; [|eexists; reflexivity].
  destruct (ParsePGClass_total DecodeType decode DT_ok c) as [t ->]. cbn [bind].
  destruct (_ =? 0); [eexists; reflexivity|].
  destruct (ReadFile slack fs (PBase _ 1249)) as [a|]; [|eexists; reflexivity].
  match goal with |- context [parseAllAttributes _ _ _ a ?o] => destruct (parseAllAttributes_total a o) as [r ->] end.
  eexists; reflexivity.
Qed.
Theorem RecoverDroppedColumnData_total fs db tb n :
  exists r, RecoverDroppedColumnData DecodeType TypeName sortA range_order slack fs db tb n = Ok r.
Proof.
  unfold RecoverDroppedColumnData. destruct (ReadFile slack fs PGlobal1262) as [d|]; [|eexists; reflexivity].
  destruct (ParsePGDatabase_total DecodeType decode DT_ok d) as [dbs ->]. cbn [bind].
  destruct (find_db dbs db =? 0); [eexists; reflexivity|].
  destruct (ReadFile slack fs (PBase _ 1259)) as [c|]; [|eexists; reflexivity].
  destruct (ParsePGClass_total DecodeType decode DT_ok c) as [t ->]. cbn [bind].
  destruct (PG.C11.CliModel.findTableByName _ tb) as [ti|]; [|eexists; reflexivity].
  destruct (ReadFile slack fs (PBase _ 1249)) as [a|]; [|eexists; reflexivity].
  apply recover_core_total.
Qed.
End Dir.

(* ---------- decoding the catalog columns ---------- *)
Hypothesis DT_cat : agrees_on_catalog decode.

Lemma dec_u32 v : 0 <= v < 2 ^ 32 -> decode (le_enc 4 v) 26 = VU32 v.
Proof. intros. rewrite DT_cat by (cbn; bl; lia). change (cat_decode (le_enc 4 v) 26) with (VU32 (le_dec (le_enc 4 v))). rewrite le_dec_enc by (cbn; lia). reflexivity. Qed.
Lemma dec_name n : wf_name n -> decode (name64 n) 19 = VStr n.
Proof.
  intros [Hl Hn]. rewrite DT_cat by (try rewrite name64_len; cbn; lia).
  change (cat_decode (name64 n) 19) with (VStr (cstr_take (name64 n))). unfold name64. rewrite cstr_take_padded by exact Hn. reflexivity.
Qed.
Lemma dec_i16 v : - 32768 <= v < 32768 -> decode (le_enc 2 (v mod 65536)) 21 = VI16 v.
Proof.
  intros. rewrite DT_cat by (cbn; bl; lia). change (cat_decode (le_enc 2 (v mod 65536)) 21) with (VI16 (sint16 (le_dec (le_enc 2 (v mod 65536))))).
  rewrite le_dec_enc by (cbn; lia). f_equal. apply (sint_wrap 16 v); cbn; lia.
Qed.
Lemma dec_char k : decode [z2b k] 18 = VStr [z2b k].
Proof. rewrite DT_cat by (cbn; lia). reflexivity. Qed.
Lemma dec_bool (b : bool) : decode [if b then x01 else x00] 16 = VBool b.
Proof. rewrite DT_cat by (destruct b; cbn; lia). destruct b; reflexivity. Qed.

Lemma dattr_fits v16 a : wf_dattr a -> fits_prefix (dattr_schema v16) (dattr_ds v16 a).
Proof.
  intros (Hr & (Hl & Hn) & Ht & Hlen & Hnum & Ha & Hm & Hs).
  destruct v16; unfold dattr_ds, dattr_schema, schemaPGAttrDropped, schemaPGAttrDroppedV15, d_u32, d_i16, d_sub, d_bool; cbn [app];
    repeat (constructor; [apply fits_cat; [cbn [In]; auto 10|lia|
      first [rewrite name64_len by lia; lia | rewrite sub_length by lia; lia | bl; lia | exact Hs | (destruct (da_byval a); reflexivity) | (destruct (da_isdropped a); reflexivity) ]]|]);
    constructor.
Qed.
Lemma dattr_schema_ok v16 : dattr_schema v16 <> [] /\ nums_ok (dattr_schema v16) 0.
Proof. destruct v16; (split; [discriminate|cbn; auto 30]). Qed.

(* one stored row, read back with the 16-column schema it was written under *)
Lemma dattr_row_ok a tn relOID : wf_dattr a ->
  let r := expected_row decode schemaPGAttrDropped (dattr_ds true a) in
  attr_of_row_all TypeName relOID r = (if sel_all relOID a then [info_all TypeName a] else []) /\
  dropped_of_row TypeName tn r = (if sel_dropped a then [info_dropped TypeName (name_get tn) a] else []).
Proof.
  intros (Hr & Hn & Ht & Hl & Hnum & Ha & Hm & Hs).
  assert (AL : b2z (z2b (da_align a)) = da_align a) by (rewrite b2z_z2b; lia).
  unfold dattr_ds, schemaPGAttrDropped, mkcol, d_u32, d_i16, d_sub, d_bool.
  cbn [app expected_row expected_value c_name c_typid].
  rewrite !dec_u32, dec_name, !dec_i16, dec_char, !dec_bool
    by (try assumption; lia).
  cbv zeta.
  unfold attr_of_row_all, dropped_of_row, align_of_row, byval_of_row, row_bool, sel_all, sel_dropped, info_all, info_dropped.
  match goal with |- context [getOID ?r n_attrelid] =>
    change (getOID r n_attrelid) with (da_relid a);
    change (toInt (row_get r n_attnum)) with (da_num a); change (toInt (row_get r n_attlen)) with (da_len a);
    change (getOID r n_atttypid) with (da_typid a); change (getString r n_attname) with (da_name a);
    change (getString r n_attalign) with [z2b (da_align a)];
    change (row_get r n_attisdropped) with (Some (VBool (da_isdropped a)));
    change (row_get r n_attbyval) with (Some (VBool (da_byval a))) end.
  cbv beta iota. rewrite AL. split.
  - destruct (da_relid a =? relOID) eqn:E1; cbn [negb andb]; [|reflexivity].
    destruct (da_num a <=? 0) eqn:E2.
    + replace (da_num a >? 0) with false by lia. reflexivity.
    + replace (da_num a >? 0) with true by lia. reflexivity.
  - destruct (da_isdropped a); cbn [andb]; [|reflexivity].
    destruct (da_num a <=? 0) eqn:E2.
    + replace (da_num a >? 0) with false by lia. reflexivity.
    + replace (da_num a >? 0) with true by lia. reflexivity.
Qed.

Lemma read_rows_16 (h : heap dattr) tl : wf_heap schemaPGAttrDropped (dattr_ds true) wf_dattr h ->
  read_attr_rows DecodeType {| vis := enc_heap schemaPGAttrDropped (dattr_ds true) h; tail := tl |} =
  Ok (map (fun a => expected_row decode schemaPGAttrDropped (dattr_ds true a)) (live_rows h)).
Proof.
  intros W. rewrite read_attr_rows_16.
  apply (ReadRows_enc_heap DecodeType decode DT_ok schemaPGAttrDropped (dattr_ds true) wf_dattr h tl);
    [discriminate|cbn; auto 30|exact W].
Qed.

(* ---------- round trips (16-column layout), for ANY sorter: the result is the sorter applied to the live records in
   physical order; how much that determines is sort_spec's business (below) ---------- *)
Theorem parseAllAttributes_enc (h : heap dattr) tl relOID :
  wf_heap schemaPGAttrDropped (dattr_ds true) wf_dattr h ->
  parseAllAttributes DecodeType TypeName sortA {| vis := enc_heap schemaPGAttrDropped (dattr_ds true) h; tail := tl |} relOID =
  Ok (sortA (pre_all TypeName (live_rows h) relOID)).
Proof.
  intros W. unfold parseAllAttributes. rewrite read_rows_16 by exact W. cbn [bind]. do 2 f_equal.
  pose proof (live_rows_ok schemaPGAttrDropped (dattr_ds true) wf_dattr h W) as F. unfold pre_all.
  induction F as [|a r [_ Ha] _ IH]; [reflexivity|]. cbn [map flat_map filter]. rewrite IH.
  destruct (dattr_row_ok a [] relOID Ha) as [E _]. cbv zeta in E. rewrite E.
  destruct (sel_all relOID a); reflexivity.
Qed.
Theorem parseDroppedColumns_enc (h : heap dattr) tl tn :
  wf_heap schemaPGAttrDropped (dattr_ds true) wf_dattr h ->
  parseDroppedColumns DecodeType TypeName sortD {| vis := enc_heap schemaPGAttrDropped (dattr_ds true) h; tail := tl |} tn =
  Ok (sortD (pre_dropped TypeName (name_get tn) (live_rows h))).
Proof.
  intros W. unfold parseDroppedColumns. rewrite read_rows_16 by exact W. cbn [bind]. do 2 f_equal.
  pose proof (live_rows_ok schemaPGAttrDropped (dattr_ds true) wf_dattr h W) as F. unfold pre_dropped.
  induction F as [|a r [_ Ha] _ IH]; [reflexivity|]. cbn [map flat_map filter]. rewrite IH.
  destruct (dattr_row_ok a tn 0 Ha) as [_ E]. cbv zeta in E. rewrite E.
  destruct (sel_dropped a); reflexivity.
Qed.

(* ---------- with sort.Slice's contract ---------- *)
Hypothesis sortA_ok : sort_spec lessA sortA.
Hypothesis sortD_ok : sort_spec lessD sortD.

Lemma pre_all_nums attrs relOID : map d_attnum (pre_all TypeName attrs relOID) = map da_num (filter (sel_all relOID) attrs).
Proof. unfold pre_all. rewrite map_map. reflexivity. Qed.
Lemma pre_dropped_keys tnf attrs :
  map (fun c => (d_relid c, d_attnum c)) (pre_dropped TypeName tnf attrs) =
  map (fun a => (da_relid a, da_num a)) (filter sel_dropped attrs).
Proof. unfold pre_dropped. rewrite map_map. reflexivity. Qed.

(* (attrelid, attnum) is a key of the live rows (PostgreSQL: unique index pg_attribute_relid_attnum_index): the result
   is THE list of live records of the relation with attnum > 0, sorted by attnum *)
Theorem parseAllAttributes_enc_sorted (h : heap dattr) tl relOID :
  wf_heap schemaPGAttrDropped (dattr_ds true) wf_dattr h ->
  NoDup (map da_num (filter (sel_all relOID) (live_rows h))) ->
  parseAllAttributes DecodeType TypeName sortA {| vis := enc_heap schemaPGAttrDropped (dattr_ds true) h; tail := tl |} relOID =
  Ok (expected_all TypeName (live_rows h) relOID).
Proof.
  intros W ND. rewrite parseAllAttributes_enc by exact W. f_equal. unfold expected_all.
  apply sortA_unique; [exact sortA_ok|]. rewrite pre_all_nums. exact ND.
Qed.
Theorem parseDroppedColumns_enc_sorted (h : heap dattr) tl tn :
  wf_heap schemaPGAttrDropped (dattr_ds true) wf_dattr h ->
  NoDup (map (fun a => (da_relid a, da_num a)) (filter sel_dropped (live_rows h))) ->
  parseDroppedColumns DecodeType TypeName sortD {| vis := enc_heap schemaPGAttrDropped (dattr_ds true) h; tail := tl |} tn =
  Ok (expected_dropped TypeName (name_get tn) (live_rows h)).
Proof.
  intros W ND. rewrite parseDroppedColumns_enc by exact W. f_equal. unfold expected_dropped.
  apply sortD_unique; [exact sortD_ok|]. rewrite pre_dropped_keys. exact ND.
Qed.
(* without the key hypothesis: the same records, sorted, in an order determined up to ties *)
Theorem parseAllAttributes_enc_ties (h : heap dattr) tl relOID :
  wf_heap schemaPGAttrDropped (dattr_ds true) wf_dattr h ->
  exists l, parseAllAttributes DecodeType TypeName sortA {| vis := enc_heap schemaPGAttrDropped (dattr_ds true) h; tail := tl |} relOID = Ok l /\
            Permutation (pre_all TypeName (live_rows h) relOID) l /\
            StronglySorted (fun x y => lessA y x = false) l.
Proof.
  intros W. rewrite parseAllAttributes_enc by exact W. eexists. split; [reflexivity|]. apply sortA_ok.
Qed.
Theorem parseDroppedColumns_enc_ties (h : heap dattr) tl tn :
  wf_heap schemaPGAttrDropped (dattr_ds true) wf_dattr h ->
  exists l, parseDroppedColumns DecodeType TypeName sortD {| vis := enc_heap schemaPGAttrDropped (dattr_ds true) h; tail := tl |} tn = Ok l /\
            Permutation (pre_dropped TypeName (name_get tn) (live_rows h)) l /\
            StronglySorted (fun x y => lessD y x = false) l.
Proof.
  intros W. rewrite parseDroppedColumns_enc by exact W. eexists. split; [reflexivity|]. apply sortD_ok.
Qed.
End Parse.
