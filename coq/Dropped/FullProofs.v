(* Dropped/FullProofs.v — the lemmas of the other files instantiated with Compose's real decoder DecodeType_full
   (hypotheses DT_ok / DT_cat discharged by Compose's FullProofs / CatProofs).  Statements as in Props/Dropped.v.
   Dropped — pgdump/dropped.go: dropped-column discovery (pg_attribute rows with attisdropped) and recovery of the
   bytes dropped columns still occupy in heap tuples.  Sub-check of C03 (row decoding follows PostgreSQL's attribute
   layout rules, dropped columns included).  Statements only; proofs in coq/Dropped/*.v.

   Every theorem is stated for the REAL decoder DecodeType_full o of Compose (all of pgdump.DecodeType; the only
   parameters left are the four library calls bundled in [o]), for every TypeName table, for every pair of sorters
   satisfying sort.Slice's contract [sort_spec] where sorting matters, every map visiting order and every os.ReadFile
   slack.  Model.v says which Go line each definition mirrors. *)
Require Import PG.Base.Bytes PG.Base.GoSlice PG.Base.Value.
Require Import PG.C02.Model PG.C03.Model PG.C03.Spec PG.C03.SpecProofs PG.C03.Main.
Require Import PG.C04.Lib PG.C04.Model PG.C01.Lib PG.C01.Model PG.C01.Spec.
Require PG.C11.CliModel PG.C11.OrderProofs.
Require Import PG.Compose.Full PG.Compose.FullProofs PG.Compose.CatProofs.
Require Import PG.Dropped.Model PG.Dropped.Spec PG.Dropped.NameProofs PG.Dropped.ParseProofs PG.Dropped.RecoverProofs
               PG.Dropped.ExamplesProofs.
Require Import Coq.Sorting.Permutation Coq.Sorting.Sorted.

Notation DT o := (DecodeType_full o).
Notation S16 := schemaPGAttrDropped.
Notation enc16 h := (enc_heap schemaPGAttrDropped (dattr_ds true) h).

Lemma dir_no_panic : forall o TypeName sortD sortA range_order slack fs db tb n,
  FindDroppedColumns (DT o) TypeName sortD range_order slack fs db <> Panic /\
  ScanDroppedColumns (DT o) TypeName sortD range_order slack fs <> Panic /\
  GetDroppedColumnSchema (DT o) TypeName sortA range_order slack fs db tb <> Panic /\
  RecoverDroppedColumnData (DT o) TypeName sortA range_order slack fs db tb n <> Panic.
Proof.
  intros. split; [|split; [|split]].
  - destruct (FindDroppedColumns_total (DT o) (decode_full o) (DecodeType_full_DT_ok o) TypeName sortD range_order slack fs db) as [r ->]. discriminate.
  - destruct (ScanDroppedColumns_total (DT o) (decode_full o) (DecodeType_full_DT_ok o) TypeName sortD range_order slack fs) as [r ->]. discriminate.
  - destruct (GetDroppedColumnSchema_total (DT o) (decode_full o) (DecodeType_full_DT_ok o) TypeName sortA range_order slack fs db tb) as [r ->]. discriminate.
  - destruct (RecoverDroppedColumnData_total (DT o) (decode_full o) (DecodeType_full_DT_ok o) TypeName sortA range_order slack fs db tb n) as [r ->]. discriminate.
Qed.

Lemma recover_dir_unfold : forall o TypeName sortA range_order slack fs db tb n dbData classData attrData dbs tables ti,
  ReadFile slack fs PGlobal1262 = Some dbData -> ParsePGDatabase (DT o) dbData = Ok dbs -> find_db dbs db <> 0 ->
  ReadFile slack fs (PBase (find_db dbs db) 1259) = Some classData -> ParsePGClass (DT o) classData = Ok tables ->
  PG.C11.CliModel.findTableByName (map_state range_order tables) tb = Some ti ->
  ReadFile slack fs (PBase (find_db dbs db) 1249) = Some attrData ->
  RecoverDroppedColumnData (DT o) TypeName sortA range_order slack fs db tb n =
  recover_core (DT o) TypeName sortA attrData (ti_oid ti) (ReadFile slack fs (PBase (find_db dbs db) (ti_filenode ti))) n.
Proof.
  intros o TypeName sortA range_order slack fs db tb n dbData classData attrData dbs tables ti H1 H2 H3 H4 H5 H6 H7.
  unfold RecoverDroppedColumnData. rewrite H1, H2. cbn [bind].
  replace (find_db dbs db =? 0) with false by lia. rewrite H4, H5. cbn [bind]. rewrite H6, H7. reflexivity.
Qed.

Lemma F_Dropped_no_panic_parseDroppedColumns : forall o TypeName sortD s tableNames,
  parseDroppedColumns (DT o) TypeName sortD s tableNames <> Panic.
Proof. intros. destruct (parseDroppedColumns_total (DT o) (decode_full o) (DecodeType_full_DT_ok o) TypeName sortD s tableNames) as [r ->]. discriminate. Qed.

Lemma F_Dropped_no_panic_parseAllAttributes : forall o TypeName sortA s relOID,
  parseAllAttributes (DT o) TypeName sortA s relOID <> Panic.
Proof. intros. destruct (parseAllAttributes_total (DT o) (decode_full o) (DecodeType_full_DT_ok o) TypeName sortA s relOID) as [r ->]. discriminate. Qed.

Lemma F_Dropped_no_panic_recover_core : forall o TypeName sortA attrData relOID tableData attNum,
  recover_core (DT o) TypeName sortA attrData relOID tableData attNum <> Panic.
Proof. intros. destruct (recover_core_total (DT o) (decode_full o) (DecodeType_full_DT_ok o) TypeName sortA attrData relOID tableData attNum) as [r ->]. discriminate. Qed.

Lemma F_Dropped_parseAllAttributes_enc : forall o TypeName sortA (h : heap dattr) tl relOID,
  wf_heap S16 (dattr_ds true) wf_dattr h ->
  parseAllAttributes (DT o) TypeName sortA {| vis := enc16 h; tail := tl |} relOID =
  Ok (sortA (map (info_all TypeName) (filter (sel_all relOID) (live_rows h)))).
Proof. intros. apply (parseAllAttributes_enc (DT o) (decode_full o) (DecodeType_full_DT_ok o) TypeName sortA (full_agrees_on_catalog o)). assumption. Qed.

Lemma F_Dropped_parseAllAttributes_sorted : forall o TypeName sortA (h : heap dattr) tl relOID,
  sort_spec lessA sortA ->
  wf_heap S16 (dattr_ds true) wf_dattr h ->
  NoDup (map da_num (filter (sel_all relOID) (live_rows h))) ->
  parseAllAttributes (DT o) TypeName sortA {| vis := enc16 h; tail := tl |} relOID =
  Ok (expected_all TypeName (live_rows h) relOID).
Proof. intros o TypeName sortA h tl relOID SP. apply (parseAllAttributes_enc_sorted (DT o) (decode_full o) (DecodeType_full_DT_ok o) TypeName sortA (full_agrees_on_catalog o) SP). Qed.

Lemma F_Dropped_parseAllAttributes_ties : forall o TypeName sortA (h : heap dattr) tl relOID,
  sort_spec lessA sortA ->
  wf_heap S16 (dattr_ds true) wf_dattr h ->
  exists l, parseAllAttributes (DT o) TypeName sortA {| vis := enc16 h; tail := tl |} relOID = Ok l /\
            Permutation (map (info_all TypeName) (filter (sel_all relOID) (live_rows h))) l /\
            StronglySorted (fun x y => lessA y x = false) l.
Proof. intros o TypeName sortA h tl relOID SP. apply (parseAllAttributes_enc_ties (DT o) (decode_full o) (DecodeType_full_DT_ok o) TypeName sortA (full_agrees_on_catalog o) SP). Qed.

Lemma F_Dropped_parseDroppedColumns_enc : forall o TypeName sortD (h : heap dattr) tl tn,
  wf_heap S16 (dattr_ds true) wf_dattr h ->
  parseDroppedColumns (DT o) TypeName sortD {| vis := enc16 h; tail := tl |} tn =
  Ok (sortD (map (info_dropped TypeName (name_get tn)) (filter sel_dropped (live_rows h)))).
Proof. intros. apply (parseDroppedColumns_enc (DT o) (decode_full o) (DecodeType_full_DT_ok o) TypeName sortD (full_agrees_on_catalog o)). assumption. Qed.

Lemma F_Dropped_parseDroppedColumns_sorted : forall o TypeName sortD (h : heap dattr) tl tn,
  sort_spec lessD sortD ->
  wf_heap S16 (dattr_ds true) wf_dattr h ->
  NoDup (map (fun a => (da_relid a, da_num a)) (filter sel_dropped (live_rows h))) ->
  parseDroppedColumns (DT o) TypeName sortD {| vis := enc16 h; tail := tl |} tn =
  Ok (expected_dropped TypeName (name_get tn) (live_rows h)).
Proof. intros o TypeName sortD h tl tn SP. apply (parseDroppedColumns_enc_sorted (DT o) (decode_full o) (DecodeType_full_DT_ok o) TypeName sortD (full_agrees_on_catalog o) SP). Qed.

Lemma F_Dropped_parseDroppedColumns_ties : forall o TypeName sortD (h : heap dattr) tl tn,
  sort_spec lessD sortD ->
  wf_heap S16 (dattr_ds true) wf_dattr h ->
  exists l, parseDroppedColumns (DT o) TypeName sortD {| vis := enc16 h; tail := tl |} tn = Ok l /\
            Permutation (map (info_dropped TypeName (name_get tn)) (filter sel_dropped (live_rows h))) l /\
            StronglySorted (fun x y => lessD y x = false) l.
Proof. intros o TypeName sortD h tl tn SP. apply (parseDroppedColumns_enc_ties (DT o) (decode_full o) (DecodeType_full_DT_ok o) TypeName sortD (full_agrees_on_catalog o) SP). Qed.

Lemma F_Dropped_sort_spec_example : sort_spec lessA (isort_less lessA) /\ sort_spec lessD (isort_less lessD).
Proof. exact (conj isortA_spec isortD_spec). Qed.

Lemma F_Dropped_wf_example : forall v16 a, wf_dattr a -> fits_prefix (dattr_schema v16) (dattr_ds v16 a).
Proof. exact dattr_fits. Qed.

Lemma F_Dropped_v15_unreachable : forall o s,
  ReadRows (DT o) s schemaPGAttrDropped true = Ok [] -> ReadRows (DT o) s schemaPGAttrDroppedV15 true = Ok [].
Proof. intros o. exact (v15_fallback_empty (DT o) (decode_full o) (DecodeType_full_DT_ok o)). Qed.

Lemma F_Dropped_always_16 : forall o s, read_attr_rows (DT o) s = ReadRows (DT o) s schemaPGAttrDropped true.
Proof. intros o. exact (read_attr_rows_16 (DT o) (decode_full o) (DecodeType_full_DT_ok o)). Qed.

Lemma F_Dropped_v15_refuted : forall o TypeName sortD, sort_spec lessD sortD ->
  wf_heap schemaPGAttrDroppedV15 (dattr_ds false) wf_dattr ex_v15_heap /\
  expected_dropped TypeName (fun _ => []) (live_rows ex_v15_heap) <> [] /\
  parseDroppedColumns (DT o) TypeName sortD {| vis := enc_heap schemaPGAttrDroppedV15 (dattr_ds false) ex_v15_heap; tail := [] |} [] = Ok [].
Proof. intros o TypeName sortD SP. exact (ex_v15_misread (DT o) (decode_full o) (DecodeType_full_DT_ok o) TypeName sortD (full_agrees_on_catalog o) SP). Qed.

Lemma F_Dropped_build_columns : forall TypeName attrs relOID, Forall wf_dattr attrs ->
  buildColumnsWithDropped (expected_all TypeName attrs relOID) = rel_dcols attrs relOID /\
  Forall2 (fun (c : Column) (a : dattr) =>
             c_len c = da_len a /\ c_align c = da_align a /\ c_typid c = da_typid a /\ c_num c = da_num a /\
             c_name c = (if da_isdropped a then s_dropped_ ++ fmt_d (da_num a) else da_name a))
          (buildColumnsWithDropped (expected_all TypeName attrs relOID)) (rel_dattrs attrs relOID).
Proof. intros. split; [apply build_columns_layout|apply build_columns_fields]; assumption. Qed.

Lemma F_Dropped_rows : forall o TypeName sortA (attrs : heap dattr) (tbl : heap (list datum)) relOID tl1 tl2,
  sort_spec lessA sortA ->
  wf_heap S16 (dattr_ds true) wf_dattr attrs ->
  NoDup (map da_num (filter (sel_all relOID) (live_rows attrs))) ->
  let cols := rel_dcols (live_rows attrs) relOID in
  cols <> [] -> nums_ok cols 0 -> wf_heap cols idds (fun _ => True) tbl ->
  exists allAttrs,
    parseAllAttributes (DT o) TypeName sortA {| vis := enc16 attrs; tail := tl1 |} relOID = Ok allAttrs /\
    buildColumnsWithDropped allAttrs = cols /\
    ReadRows (DT o) {| vis := enc_heap cols idds tbl; tail := tl2 |} (buildColumnsWithDropped allAttrs) true =
    Ok (map (expected_row (decode_full o) cols) (live_rows tbl)).
Proof. intros o TypeName sortA attrs tbl relOID tl1 tl2 SP. apply (recover_rows (DT o) (decode_full o) (DecodeType_full_DT_ok o) (full_agrees_on_catalog o) TypeName sortA SP). Qed.

Lemma F_Dropped_recover : forall o TypeName sortA (attrs : heap dattr) (tbl : heap (list datum)) relOID tl1 tl2 a,
  sort_spec lessA sortA ->
  wf_heap S16 (dattr_ds true) wf_dattr attrs ->
  NoDup (map da_num (filter (sel_all relOID) (live_rows attrs))) ->
  let cols := rel_dcols (live_rows attrs) relOID in
  nums_ok cols 0 -> NoDup (map c_name cols) -> wf_heap cols idds (fun _ => True) tbl ->
  In a (live_rows attrs) -> da_relid a = relOID -> 0 < da_num a -> da_isdropped a = true ->
  recover_core (DT o) TypeName sortA {| vis := enc16 attrs; tail := tl1 |} relOID
    (Some {| vis := enc_heap cols idds tbl; tail := tl2 |}) (da_num a) =
  Ok (DOk {| dd_column := info_all TypeName a;
             dd_values := expected_values (decode_full o) cols (da_num a) (live_rows tbl);
             dd_rows := map (expected_row (decode_full o) cols) (live_rows tbl) |}).
Proof. intros o TypeName sortA attrs tbl relOID tl1 tl2 a SP. apply (recover_core_enc (DT o) (decode_full o) (DecodeType_full_DT_ok o) (full_agrees_on_catalog o) TypeName sortA SP). Qed.
