(* Dropped/Spec.v — what dropped.go is to compute, stated on abstract values only.
   * the language of PostgreSQL's dropped-column names (RemoveAttributeById: "........pg.dropped.%d........"), as a
     predicate;
   * an abstract pg_attribute record with the columns dropped.go reads, and the reference writer of its rows in the two
     layouts dropped.go declares (16 columns; 17 columns = the same with attstattarget after atttypid) — rows are
     formed by heap_form_tuple (C03's fill / stored_tuple) and laid out in pages by C01's enc_heap (C02's enc_page);
   * the expected results: filter / map / sort on the LIVE records, never on bytes.
   The catalog layouts are the tool's own (as in C01): see the report for how they relate to PostgreSQL's. *)
Require Import PG.Base.Bytes PG.Base.GoSlice PG.Base.Value PG.C03.Model PG.C03.Spec.
Require Import PG.C04.Lib PG.C01.Lib PG.C01.Model PG.C01.Spec.
Require Import PG.Dropped.Model.

(* ---------------- the dropped-name language ---------------- *)
(* one or more dots, "pg.dropped.", one or more ASCII digits, one or more dots; [dg] = the digits *)
Definition all_b (p : byte -> bool) (l : bytes) : Prop := Forall (fun b => p b = true) l.
Definition dropped_name_spec (name dg : bytes) : Prop :=
  exists d1 d2, d1 <> [] /\ dg <> [] /\ d2 <> [] /\ all_b is_dot d1 /\ all_b is_digit dg /\ all_b is_dot d2 /\
                name = d1 ++ s_pg_dropped ++ dg ++ d2.

(* ---------------- abstract pg_attribute rows ---------------- *)
(* da_misc = atttypmod (4) attndims (2) attstorage attnotnull atthasdef atthasmissing attidentity attgenerated (1 each),
   da_stat = attstattarget (4, 17-column layout only): columns dropped.go declares but never looks at *)
Record dattr := { da_relid : Z; da_name : bytes; da_typid : Z; da_len : Z; da_num : Z;
                  da_byval : bool; da_align : Z; da_isdropped : bool; da_misc : bytes; da_stat : bytes }.
Definition d_bool (b : bool) : datum := DFixed [if b then x01 else x00].
Definition dattr_ds (v16 : bool) (a : dattr) : list datum :=
  let m := da_misc a in
  [d_u32 (da_relid a); DFixed (name64 (da_name a)); d_u32 (da_typid a)] ++
  (if v16 then [] else [DFixed (da_stat a)]) ++
  [d_i16 (da_len a); d_i16 (da_num a); d_sub m 0 4; d_sub m 4 6; d_bool (da_byval a); d_sub m 6 7;
   DFixed [z2b (da_align a)]; d_sub m 7 8; d_sub m 8 9; d_sub m 9 10; d_sub m 10 11; d_sub m 11 12;
   d_bool (da_isdropped a)].
Definition wf_dattr (a : dattr) : Prop :=
  0 <= da_relid a < 2 ^ 32 /\ wf_name (da_name a) /\ 0 <= da_typid a < 2 ^ 32 /\
  - 32768 <= da_len a < 32768 /\ - 32768 <= da_num a < 32768 /\ 0 <= da_align a < 256 /\
  blen (da_misc a) = 12 /\ blen (da_stat a) = 4.
Definition dattr_schema (v16 : bool) : list Column := if v16 then schemaPGAttrDropped else schemaPGAttrDroppedV15.

(* ---------------- expected results ---------------- *)
Section Expected.
Variable TypeName : Z -> bytes.

(* parseAllAttributes: every reported field equal to the stored one *)
Definition info_all (a : dattr) : DroppedColumnInfo :=
  {| d_relid := da_relid a; d_table := []; d_attnum := da_num a;
     d_orig := if da_isdropped a then s_dropped_ ++ fmt_d (da_num a) else da_name a;
     d_dname := da_name a; d_typid := da_typid a; d_tname := TypeName (da_typid a); d_len := da_len a;
     d_align := da_align a; d_byval := da_byval a |}.
Definition sel_all (relOID : Z) (a : dattr) : bool := (da_relid a =? relOID) && (da_num a >? 0).
(* before sorting: the live records of the relation with attnum > 0, in physical order *)
Definition pre_all (attrs : list dattr) (relOID : Z) : list DroppedColumnInfo :=
  map info_all (filter (sel_all relOID) attrs).
(* ... sorted by attnum *)
Definition expected_all (attrs : list dattr) (relOID : Z) : list DroppedColumnInfo :=
  isort_less lessA (pre_all attrs relOID).

(* parseDroppedColumns *)
Definition info_dropped (tableNames : Z -> bytes) (a : dattr) : DroppedColumnInfo :=
  {| d_relid := da_relid a; d_table := tableNames (da_relid a); d_attnum := da_num a;
     d_orig := match droppedColumnMatch (da_name a) with Some dg => s_dropped_ ++ dg | None => [] end;
     d_dname := da_name a; d_typid := da_typid a; d_tname := TypeName (da_typid a); d_len := da_len a;
     d_align := da_align a; d_byval := da_byval a |}.
Definition sel_dropped (a : dattr) : bool := da_isdropped a && (da_num a >? 0).
Definition pre_dropped (tableNames : Z -> bytes) (attrs : list dattr) : list DroppedColumnInfo :=
  map (info_dropped tableNames) (filter sel_dropped attrs).
Definition expected_dropped (tableNames : Z -> bytes) (attrs : list dattr) : list DroppedColumnInfo :=
  isort_less lessD (pre_dropped tableNames attrs).
End Expected.

(* ---------------- the relation's tuple descriptor, dropped columns included ---------------- *)
(* what PostgreSQL itself uses to form and deform the relation's tuples: one entry per pg_attribute row with
   attnum > 0, dropped ones too (atttypid 0, attlen / attalign kept), by attnum *)
Definition col_of_dattr (a : dattr) : Column :=
  {| c_name := if da_isdropped a then s_dropped_ ++ fmt_d (da_num a) else da_name a;
     c_typid := da_typid a; c_len := da_len a; c_num := da_num a; c_align := da_align a |}.
Definition rel_dattrs (attrs : list dattr) (relOID : Z) : list dattr :=
  isort_less (fun a b => da_num a <? da_num b) (filter (sel_all relOID) attrs).
Definition rel_dcols (attrs : list dattr) (relOID : Z) : list Column := map col_of_dattr (rel_dattrs attrs relOID).

(* the values of attribute number [attNum] in the live rows of the relation: decoded from exactly the stored bytes of
   that attribute; NULL (in particular: every row written after the DROP) and rows with fewer stored attributes: nil *)
Definition expected_values (decode : bytes -> Z -> gval) (cols : list Column) (attNum : Z) (rows : list (list datum))
  : list gval :=
  map (fun ds => match nth_error cols (Z.to_nat (attNum - 1)) with
                 | Some c => expected_value decode c (nth (Z.to_nat (attNum - 1)) ds DNull)
                 | None => VNil
                 end) rows.
