(* Dropped/NameProofs.v — the hand-written recogniser droppedColumnMatch accepts exactly the language
   dots+ "pg.dropped." digits+ dots+  and returns exactly its digit group. *)
Require Import PG.Base.Bytes PG.Base.GoSlice PG.Base.Value PG.C04.Lib.
Require Import PG.Dropped.Model PG.Dropped.Spec.

Lemma span_eq p : forall l a c, span p l = (a, c) ->
  l = a ++ c /\ all_b p a /\ (c = [] \/ exists b r, c = b :: r /\ p b = false).
Proof.
  induction l as [|b r IH]; intros a c H; cbn [span] in H.
  - injection H as <- <-. split; [reflexivity|]. split; [constructor|]. left; reflexivity.
  - destruct (p b) eqn:E.
    + destruct (span p r) as [a' c'] eqn:S. injection H as <- <-.
      destruct (IH a' c' eq_refl) as (H1 & H2 & H3). subst r.
      split; [reflexivity|]. split; [constructor; assumption|]. exact H3.
    + injection H as <- <-. split; [reflexivity|]. split; [constructor|]. right. eauto.
Qed.

Lemma span_app p : forall a c, all_b p a -> (c = [] \/ exists b r, c = b :: r /\ p b = false) ->
  span p (a ++ c) = (a, c).
Proof.
  induction a as [|x a IH]; intros c Ha Hc.
  - cbn [app]. destruct Hc as [->|(b & r & -> & Hb)]; [reflexivity|]. cbn [span]. rewrite Hb. reflexivity.
  - inversion Ha as [|? ? Hx Ha']; subst. cbn [app span]. rewrite Hx, (IH c Ha' Hc). reflexivity.
Qed.

Lemma strip_prefix_eq : forall p s r, strip_prefix p s = Some r <-> s = p ++ r.
Proof.
  induction p as [|x p IH]; intros s r; cbn [strip_prefix app].
  - split; [intros [= ->]; reflexivity|intros ->; reflexivity].
  - destruct s as [|y s]; [split; [discriminate|discriminate]|].
    destruct (b2z x =? b2z y) eqn:E.
    + apply Z.eqb_eq, b2z_inj in E. subst y. rewrite IH. split; [intros ->; reflexivity|intros [= ->]; reflexivity].
    + split; [discriminate|]. intros [= -> _]. rewrite Z.eqb_refl in E. discriminate E.
Qed.

Lemma dot_not_digit b : is_dot b = true -> is_digit b = false.
Proof. unfold is_dot, is_digit. intros H. lia. Qed.

Lemma nonempty_cons {A} (l : list A) : l <> [] -> exists x r, l = x :: r.
Proof. destruct l; [contradiction|eauto]. Qed.

Theorem droppedColumnMatch_spec name dg : droppedColumnMatch name = Some dg <-> dropped_name_spec name dg.
Proof.
  split.
  - unfold droppedColumnMatch. intros H.
    destruct (span is_dot name) as [d1 r1] eqn:S1. destruct (span_eq _ _ _ _ S1) as (E1 & A1 & _).
    destruct d1 as [|x1 d1]; [discriminate H|].
    destruct (strip_prefix s_pg_dropped r1) as [r2|] eqn:P; [|discriminate H]. apply strip_prefix_eq in P.
    destruct (span is_digit r2) as [g r3] eqn:S2. destruct (span_eq _ _ _ _ S2) as (E2 & A2 & _).
    destruct g as [|x2 g]; [discriminate H|].
    destruct (span is_dot r3) as [d2 r4] eqn:S3. destruct (span_eq _ _ _ _ S3) as (E3 & A3 & _).
    destruct d2 as [|x3 d2]; [discriminate H|]. destruct r4; [|discriminate H]. injection H as <-.
    exists (x1 :: d1), (x3 :: d2).
    split; [discriminate|]. split; [discriminate|]. split; [discriminate|].
    split; [exact A1|]. split; [exact A2|]. split; [exact A3|].
    subst. rewrite app_nil_r. reflexivity.
  - intros (d1 & d2 & N1 & Ng & N2 & A1 & Ag & A2 & ->). unfold droppedColumnMatch.
    rewrite (span_app is_dot d1) by first [assumption | (right; eexists _, _; split; reflexivity)].
    destruct (nonempty_cons d1 N1) as (x1 & t1 & ->).
    replace (strip_prefix s_pg_dropped (s_pg_dropped ++ dg ++ d2)) with (Some (dg ++ d2))
      by (symmetry; apply strip_prefix_eq; reflexivity).
    destruct (nonempty_cons d2 N2) as (x3 & t3 & ->).
    rewrite (span_app is_digit dg).
    + destruct (nonempty_cons dg Ng) as (x2 & t2 & ->).
      rewrite <- (app_nil_r (x3 :: t3)) at 1. rewrite (span_app is_dot (x3 :: t3) []) by first [assumption | (left; reflexivity)].
      reflexivity.
    + exact Ag.
    + right. eexists _, _. split; [reflexivity|]. apply dot_not_digit. inversion A2; assumption.
Qed.

(* the digit group of a name is unique, and "no match" is "not in the language" *)
Corollary dropped_name_digits_unique name g1 g2 : dropped_name_spec name g1 -> dropped_name_spec name g2 -> g1 = g2.
Proof. intros H1 H2. apply droppedColumnMatch_spec in H1, H2. congruence. Qed.
Corollary droppedColumnMatch_none name : droppedColumnMatch name = None <-> forall dg, ~ dropped_name_spec name dg.
Proof.
  split.
  - intros H dg S. apply droppedColumnMatch_spec in S. congruence.
  - intros H. destruct (droppedColumnMatch name) as [dg|] eqn:E; [|reflexivity].
    exfalso. apply (H dg). apply droppedColumnMatch_spec. exact E.
Qed.

(* non-vacuity: the name PostgreSQL writes for attribute 42, and four near misses *)
Example dropped_name_ex :
  droppedColumnMatch (bs "........pg.dropped.42........") = Some (bs "42") /\
  droppedColumnMatch (bs "pg.dropped.42........") = None /\
  droppedColumnMatch (bs "........pg.dropped..........") = None /\
  droppedColumnMatch (bs "........pg.dropped.42........x") = None /\
  droppedColumnMatch (bs "........pg.dropped.42") = None.
Proof. repeat split. Qed.
