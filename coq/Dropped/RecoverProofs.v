(* Dropped/RecoverProofs.v — layout faithfulness: the Column list buildColumnsWithDropped derives from the stored
   pg_attribute rows is the relation's tuple descriptor, dropped attributes included (their stored attlen / attalign),
   so C03's row-decoding theorem applies to the relation's file; and the composed theorem about the values
   RecoverDroppedColumnData returns. *)
Require Import PG.Base.Bytes PG.Base.GoSlice PG.Base.Value.
Require Import PG.C02.Model PG.C02.Spec.
Require Import PG.C03.Model PG.C03.Pure PG.C03.Spec PG.C03.SpecProofs PG.C03.Main.
Require Import PG.C04.Lib PG.C01.Lib PG.C01.Model PG.C01.Spec PG.C01.HeapProofs.
Require Import PG.Dropped.Model PG.Dropped.Spec PG.Dropped.ParseProofs.
Require Import Coq.Sorting.Permutation Coq.Sorting.Sorted.

(* ---------- insertion sort commutes with a key-preserving map ---------- *)
Lemma insert_less_map {A B} (f : A -> B) (lb : B -> B -> bool) (la : A -> A -> bool)
  (H : forall x y, lb (f x) (f y) = la x y) a l :
  insert_less lb (f a) (map f l) = map f (insert_less la a l).
Proof.
  induction l as [|y r IH]; [reflexivity|]. cbn [map insert_less]. rewrite H.
  destruct (la a y); cbn [map]; [reflexivity|]. rewrite IH. reflexivity.
Qed.
Lemma isort_less_map {A B} (f : A -> B) (lb : B -> B -> bool) (la : A -> A -> bool)
  (H : forall x y, lb (f x) (f y) = la x y) l :
  isort_less lb (map f l) = map f (isort_less la l).
Proof.
  induction l as [|a r IH]; [reflexivity|]. cbn [map isort_less fold_right].
  change (fold_right (fun a acc => insert_less lb a acc) [] (map f r)) with (isort_less lb (map f r)).
  change (fold_right (fun a acc => insert_less la a acc) [] r) with (isort_less la r).
  rewrite IH. apply insert_less_map. exact H.
Qed.
Lemma insert_less_perm' {A} (less : A -> A -> bool) a l : Permutation (a :: l) (insert_less less a l).
Proof.
  induction l as [|x r IH]; cbn [insert_less]; [apply Permutation_refl|].
  destruct (less a x); [apply Permutation_refl|].
  eapply perm_trans; [apply perm_swap|]. apply perm_skip. exact IH.
Qed.
Lemma isort_less_perm' {A} (less : A -> A -> bool) l : Permutation l (isort_less less l).
Proof.
  induction l as [|a r IH]; [constructor|]. cbn [isort_less fold_right].
  eapply perm_trans; [apply perm_skip; exact IH|]. apply insert_less_perm'.
Qed.

Notation lessN := (fun a b : dattr => da_num a <? da_num b).

Lemma expected_all_map TypeName attrs relOID :
  expected_all TypeName attrs relOID = map (info_all TypeName) (rel_dattrs attrs relOID).
Proof. unfold expected_all, pre_all, rel_dattrs. apply (isort_less_map (info_all TypeName) lessA lessN). reflexivity. Qed.

Lemma rel_dattrs_in attrs relOID a : In a (rel_dattrs attrs relOID) <-> In a attrs /\ sel_all relOID a = true.
Proof.
  unfold rel_dattrs. rewrite <- filter_In. split; intros H.
  - eapply Permutation_in; [apply Permutation_sym, isort_less_perm'|exact H].
  - eapply Permutation_in; [apply isort_less_perm'|exact H].
Qed.

(* ---------- buildColumnsWithDropped on the parsed attributes = the relation's tuple descriptor ---------- *)
Lemma col_of_info_all TypeName a : da_name a <> [] -> col_of_info (info_all TypeName a) = col_of_dattr a.
Proof.
  intros Hn. unfold col_of_info, info_all, col_of_dattr. cbn [d_orig d_attnum d_typid d_len d_align]. f_equal.
  destruct (da_isdropped a).
  - destruct (beq (s_dropped_ ++ fmt_d (da_num a)) []) eqn:E; [|reflexivity]. apply beq_true in E. discriminate E.
  - destruct (beq (da_name a) []) eqn:E; [|reflexivity]. apply beq_true in E. contradiction.
Qed.
Theorem build_columns_layout TypeName attrs relOID : Forall wf_dattr attrs ->
  buildColumnsWithDropped (expected_all TypeName attrs relOID) = rel_dcols attrs relOID.
Proof.
  intros F. rewrite expected_all_map. unfold buildColumnsWithDropped, rel_dcols. rewrite map_map.
  apply map_ext_in. intros a Ha. apply col_of_info_all.
  apply rel_dattrs_in in Ha. destruct Ha as [Ha _]. rewrite Forall_forall in F.
  destruct (F a Ha) as (_ & (Hl & _) & _). intros E. rewrite E in Hl. cbn in Hl. lia.
Qed.
(* every attribute of the relation, INCLUDING dropped ones (type id 0), carries its stored attlen and attalign *)
Theorem build_columns_fields TypeName attrs relOID : Forall wf_dattr attrs ->
  Forall2 (fun (c : Column) (a : dattr) =>
             c_len c = da_len a /\ c_align c = da_align a /\ c_typid c = da_typid a /\ c_num c = da_num a /\
             c_name c = (if da_isdropped a then s_dropped_ ++ fmt_d (da_num a) else da_name a))
          (buildColumnsWithDropped (expected_all TypeName attrs relOID)) (rel_dattrs attrs relOID).
Proof.
  intros F. rewrite build_columns_layout by exact F. unfold rel_dcols.
  induction (rel_dattrs attrs relOID) as [|a r IH]; cbn [map]; constructor; [|exact IH].
  repeat split; reflexivity.
Qed.

(* ---------- looking a column up in a decoded row ---------- *)
Lemma row_get_absent decode : forall cols ds key, ~ In key (map c_name cols) ->
  row_get (expected_row decode cols ds) key = None.
Proof.
  induction cols as [|c cs IH]; intros ds key Hn; [reflexivity|].
  assert (H1 : c_name c <> key) by (intros E; apply Hn; left; exact E).
  assert (H2 : ~ In key (map c_name cs)) by (intros E; apply Hn; right; exact E).
  assert (B : beq (c_name c) key = false) by (destruct (beq (c_name c) key) eqn:E; [apply beq_true in E; contradiction|reflexivity]).
  destruct ds as [|d ds']; cbn [expected_row row_get]; rewrite IH by exact H2; rewrite B; reflexivity.
Qed.
Lemma row_get_nth decode : forall cols ds k c, NoDup (map c_name cols) -> nth_error cols k = Some c ->
  row_get (expected_row decode cols ds) (c_name c) = Some (expected_value decode c (nth k ds DNull)).
Proof.
  induction cols as [|c0 cs IH]; intros ds k c ND Hk; [destruct k; discriminate Hk|].
  cbn [map] in ND. inversion ND as [|? ? Hn ND']; subst.
  destruct k as [|k']; cbn [nth_error] in Hk.
  - injection Hk as ->. destruct ds as [|d ds']; cbn [expected_row row_get nth];
      rewrite (row_get_absent decode cs _ _ Hn), beq_refl; reflexivity.
  - destruct ds as [|d ds']; cbn [expected_row row_get nth].
    + rewrite (IH [] k' c ND' Hk). destruct k'; reflexivity.
    + rewrite (IH ds' k' c ND' Hk). reflexivity.
Qed.

(* attribute numbers are the positions: the column with attnum n is the n-th *)
Lemma nums_ok_lower : forall cols i c, nums_ok cols i -> In c cols -> c_num c = 0 \/ i + 1 <= c_num c.
Proof.
  induction cols as [|c0 cs IH]; intros i c H Hc; [contradiction|]. destruct H as [H0 H1].
  destruct Hc as [<-|Hc]; [lia|]. destruct (IH (i + 1) c H1 Hc); lia.
Qed.
Lemma nums_ok_nth : forall cols i c, nums_ok cols i -> In c cols -> 0 < c_num c ->
  nth_error cols (Z.to_nat (c_num c - 1 - i)) = Some c.
Proof.
  induction cols as [|c0 cs IH]; intros i c H Hc Hp; [contradiction|]. destruct H as [H0 H1].
  destruct Hc as [<-|Hc].
  - replace (c_num c0 - 1 - i) with 0 by lia. reflexivity.
  - pose proof (nums_ok_lower cs (i + 1) c H1 Hc) as L.
    replace (Z.to_nat (c_num c - 1 - i)) with (S (Z.to_nat (c_num c - 1 - (i + 1)))) by lia.
    cbn [nth_error]. apply IH; assumption.
Qed.

Lemma find_key {A} (key : A -> Z) (l : list A) x : NoDup (map key l) -> In x l ->
  find (fun c => key c =? key x) l = Some x.
Proof.
  induction l as [|a r IH]; intros ND Hx; [contradiction|]. cbn [map] in ND. inversion ND as [|? ? Hn ND']; subst.
  cbn [find]. destruct Hx as [->|Hx]; [rewrite Z.eqb_refl; reflexivity|].
  destruct (key a =? key x) eqn:E; [|apply IH; assumption].
  exfalso. apply Hn. apply Z.eqb_eq in E. rewrite E. apply in_map. exact Hx.
Qed.

(* ================= the composed theorem ================= *)
Section Recover.
Variable DecodeType : gslice -> Z -> res gval.
Variable decode : bytes -> Z -> gval.
Hypothesis DT_ok : forall s oid, DecodeType s oid = Ok (decode (vis s) oid).
Hypothesis DT_cat : agrees_on_catalog decode.
Variable TypeName : Z -> bytes.
Variable sortA : list DroppedColumnInfo -> list DroppedColumnInfo.
Hypothesis sortA_ok : sort_spec lessA sortA.

(* the relation's rows read with the descriptor derived from pg_attribute: C03 for every column *)
Theorem recover_rows (attrs : heap dattr) (tbl : heap (list datum)) relOID tl1 tl2 :
  wf_heap schemaPGAttrDropped (dattr_ds true) wf_dattr attrs ->
  NoDup (map da_num (filter (sel_all relOID) (live_rows attrs))) ->
  let cols := rel_dcols (live_rows attrs) relOID in
  cols <> [] -> nums_ok cols 0 -> wf_heap cols idds (fun _ => True) tbl ->
  exists allAttrs,
    parseAllAttributes DecodeType TypeName sortA
      {| vis := enc_heap schemaPGAttrDropped (dattr_ds true) attrs; tail := tl1 |} relOID = Ok allAttrs /\
    buildColumnsWithDropped allAttrs = cols /\
    ReadRows DecodeType {| vis := enc_heap cols idds tbl; tail := tl2 |} (buildColumnsWithDropped allAttrs) true =
    Ok (map (expected_row decode cols) (live_rows tbl)).
Proof.
  intros W ND cols Hne Hnum Wt. eexists. split; [apply (parseAllAttributes_enc_sorted DecodeType decode DT_ok TypeName sortA DT_cat sortA_ok); assumption|].
  assert (F : Forall wf_dattr (live_rows attrs)).
  { eapply Forall_impl; [|apply (live_rows_ok schemaPGAttrDropped (dattr_ds true) wf_dattr attrs W)]. intros a [_ H]. exact H. }
  rewrite build_columns_layout by exact F. split; [reflexivity|].
  apply (ReadRows_enc_heap DecodeType decode DT_ok cols idds (fun _ => True) tbl tl2); assumption.
Qed.

(* Dropped_recover: from the abstract attribute list and the abstract table to what RecoverDroppedColumnData returns *)
Theorem recover_core_enc (attrs : heap dattr) (tbl : heap (list datum)) relOID tl1 tl2 a :
  wf_heap schemaPGAttrDropped (dattr_ds true) wf_dattr attrs ->
  NoDup (map da_num (filter (sel_all relOID) (live_rows attrs))) ->
  let cols := rel_dcols (live_rows attrs) relOID in
  nums_ok cols 0 -> NoDup (map c_name cols) -> wf_heap cols idds (fun _ => True) tbl ->
  In a (live_rows attrs) -> da_relid a = relOID -> 0 < da_num a -> da_isdropped a = true ->
  recover_core DecodeType TypeName sortA
    {| vis := enc_heap schemaPGAttrDropped (dattr_ds true) attrs; tail := tl1 |} relOID
    (Some {| vis := enc_heap cols idds tbl; tail := tl2 |}) (da_num a) =
  Ok (DOk {| dd_column := info_all TypeName a;
             dd_values := expected_values decode cols (da_num a) (live_rows tbl);
             dd_rows := map (expected_row decode cols) (live_rows tbl) |}).
Proof.
  intros W ND cols Hnum NDn Wt Ha Hrel Hpos Hdrop.
  assert (Hsel : sel_all relOID a = true) by (unfold sel_all; lia).
  assert (Hin : In a (rel_dattrs (live_rows attrs) relOID)) by (apply rel_dattrs_in; auto).
  assert (Hc : In (col_of_dattr a) cols) by (apply in_map; exact Hin).
  assert (Hne : cols <> []) by (intros E; rewrite E in Hc; contradiction).
  destruct (recover_rows attrs tbl relOID tl1 tl2 W ND Hne Hnum Wt) as (allAttrs & P & B & R).
  unfold recover_core. rewrite P. cbn [bind].
  assert (EA : allAttrs = map (info_all TypeName) (rel_dattrs (live_rows attrs) relOID)).
  { rewrite (parseAllAttributes_enc_sorted DecodeType decode DT_ok TypeName sortA DT_cat sortA_ok attrs tl1 relOID W ND) in P.
    injection P as <-. apply expected_all_map. }
  assert (NDr : NoDup (map da_num (rel_dattrs (live_rows attrs) relOID))).
  { eapply Permutation_NoDup; [apply Permutation_map, isort_less_perm'|exact ND]. }
  assert (Fd : find (fun c => d_attnum c =? da_num a) allAttrs = Some (info_all TypeName a)).
  { rewrite EA. change (da_num a) with (d_attnum (info_all TypeName a)).
    apply (find_key d_attnum); [rewrite map_map; exact NDr|apply in_map; exact Hin]. }
  rewrite Fd. cbv beta iota zeta. unfold cols in *. rewrite R. cbn [bind]. do 3 f_equal.
  unfold recover_values, expected_values. rewrite map_map. apply map_ext. intros ds.
  pose proof (nums_ok_nth (rel_dcols (live_rows attrs) relOID) 0 (col_of_dattr a) Hnum Hc Hpos) as Hk. cbn [c_num col_of_dattr] in Hk.
  rewrite Z.sub_0_r in Hk. rewrite Hk.
  replace (s_dropped_ ++ fmt_d (da_num a)) with (c_name (col_of_dattr a)) by (cbn [c_name col_of_dattr]; rewrite Hdrop; reflexivity).
  rewrite (row_get_nth decode (rel_dcols (live_rows attrs) relOID) ds _ _ NDn Hk). reflexivity.
Qed.

(* rows written after the DROP store the attribute as NULL: nil *)
Lemma expected_values_null cols n rows :
  Forall (fun ds => nth (Z.to_nat (n - 1)) ds DNull = DNull) rows ->
  expected_values decode cols n rows = map (fun _ => VNil) rows.
Proof.
  intros F. unfold expected_values. induction F as [|ds r H _ IH]; [reflexivity|]. cbn [map]. rewrite IH, H.
  destruct (nth_error cols (Z.to_nat (n - 1))); reflexivity.
Qed.
End Recover.

(* ---------- order independence ---------- *)
(* parseDroppedColumns only LOOKS UP tableNames: two assignment logs denoting the same map give the same result *)
Theorem parseDroppedColumns_map_ext DecodeType TypeName sortD s tn1 tn2 :
  (forall k, map_get tn1 k = map_get tn2 k) ->
  parseDroppedColumns DecodeType TypeName sortD s tn1 = parseDroppedColumns DecodeType TypeName sortD s tn2.
Proof.
  intros E. unfold parseDroppedColumns. destruct (read_attr_rows DecodeType s) as [rows|]; [|reflexivity]. cbn [bind].
  do 2 f_equal. induction rows as [|r rs IH]; [reflexivity|]. cbn [flat_map]. rewrite IH. f_equal.
  unfold dropped_of_row, name_get. rewrite E. reflexivity.
Qed.
