(* Dropped/Inst.v — instances extracted for the correspondence run.
   MODEL side: dropped.go's functions over the composed decoder DecodeType_full (Compose/Inst.v x_oracles: only the
   four library calls that are not logic are tokens), C04's TypeName table, the stable insertion sort as sort.Slice
   (outputs are compared modulo the order of tied keys), list reversal / identity as the two map visiting orders, one
   spare byte as os.ReadFile's slack.
   SPEC side: the reference writers (C01's enc_heap over this development's dattr_ds, C01's db_ds / class_ds) and the
   expectations of Dropped/Spec.v, under unambiguous names (monolithic extraction renames clashing constants). *)
Require Import PG.Base.Bytes PG.Base.GoSlice PG.Base.Value.
Require Import PG.C04.Lib PG.C04.Model PG.C04.Tokens.
Require Import PG.C02.Model PG.C03.Model PG.C03.Spec.
Require PG.C01.Lib PG.C01.Model PG.C01.Spec PG.C09.Spec.
Require Import PG.Compose.Full PG.Compose.Inst.
Require Import PG.Dropped.Model PG.Dropped.Spec.

Definition dx_DecodeType : gslice -> Z -> res gval := x_DecodeType.
Definition dx_decode : bytes -> Z -> gval := decode_full x_oracles.
Definition dx_TypeName : Z -> bytes := PG.C04.Model.TypeName.
Definition dx_sortD := isort_less lessD.
Definition dx_sortA := isort_less lessA.
Definition dx_slack (b : bytes) : bytes := [x00].
Definition dx_rev (l : list Z) : list Z := rev l.
Definition dx_id (l : list Z) : list Z := l.

Definition dx_parseDropped := parseDroppedColumns dx_DecodeType dx_TypeName dx_sortD.
Definition dx_parseAll := parseAllAttributes dx_DecodeType dx_TypeName dx_sortA.
Definition dx_build := buildColumnsWithDropped.
Definition dx_match := droppedColumnMatch.
Definition dx_schema16 := schemaPGAttrDropped.
Definition dx_schema15 := schemaPGAttrDroppedV15.
Definition dx_Find := FindDroppedColumns dx_DecodeType dx_TypeName dx_sortD dx_rev dx_slack.
Definition dx_Find_id := FindDroppedColumns dx_DecodeType dx_TypeName dx_sortD dx_id dx_slack.
Definition dx_Scan := ScanDroppedColumns dx_DecodeType dx_TypeName dx_sortD dx_rev dx_slack.
Definition dx_Scan_id := ScanDroppedColumns dx_DecodeType dx_TypeName dx_sortD dx_id dx_slack.
Definition dx_Schema := GetDroppedColumnSchema dx_DecodeType dx_TypeName dx_sortA dx_rev dx_slack.
Definition dx_Schema_id := GetDroppedColumnSchema dx_DecodeType dx_TypeName dx_sortA dx_id dx_slack.
Definition dx_Recover := RecoverDroppedColumnData dx_DecodeType dx_TypeName dx_sortA dx_rev dx_slack.
Definition dx_Recover_id := RecoverDroppedColumnData dx_DecodeType dx_TypeName dx_sortA dx_id dx_slack.

(* reference writers *)
Definition dx_enc_attr (v16 : bool) (h : PG.C01.Spec.heap dattr) : bytes :=
  PG.C01.Spec.enc_heap (dattr_schema v16) (dattr_ds v16) h.
Definition dx_attr_fits (v16 : bool) (p : PG.C01.Spec.hpage dattr) : bool :=
  PG.C01.Spec.page_fits (dattr_schema v16) (dattr_ds v16) p.
Definition dx_enc_db (h : PG.C01.Spec.heap PG.C01.Spec.dbrow) : bytes :=
  PG.C01.Spec.enc_heap PG.C01.Model.schemaPGDatabase PG.C01.Spec.db_ds h.
Definition dx_db_fits (p : PG.C01.Spec.hpage PG.C01.Spec.dbrow) : bool :=
  PG.C01.Spec.page_fits PG.C01.Model.schemaPGDatabase PG.C01.Spec.db_ds p.
Definition dx_enc_class (h : PG.C01.Spec.heap PG.C01.Spec.classrow) : bytes :=
  PG.C01.Spec.enc_heap PG.C01.Model.schemaPGClass PG.C01.Spec.class_ds h.
Definition dx_class_fits (p : PG.C01.Spec.hpage PG.C01.Spec.classrow) : bool :=
  PG.C01.Spec.page_fits PG.C01.Model.schemaPGClass PG.C01.Spec.class_ds p.
Definition dx_enc_tbl (cols : list Column) (h : PG.C01.Spec.heap (list datum)) : bytes :=
  PG.C01.Spec.enc_heap cols PG.C01.Spec.idds h.
Definition dx_tbl_fits (cols : list Column) (p : PG.C01.Spec.hpage (list datum)) : bool :=
  PG.C01.Spec.page_fits cols PG.C01.Spec.idds p.
Definition dx_live_attr (h : PG.C01.Spec.heap dattr) : list dattr := PG.C01.Spec.live_rows h.
Definition dx_live_tbl (h : PG.C01.Spec.heap (list datum)) : list (list datum) := PG.C01.Spec.live_rows h.
Definition dx_live_mask := PG.C09.Spec.live.

(* expectations *)
Definition dx_expected_all := expected_all dx_TypeName.
Definition dx_expected_dropped := expected_dropped dx_TypeName.
Definition dx_rel_dcols := rel_dcols.
Definition dx_expected_values := expected_values dx_decode.
Definition dx_expected_row := expected_row dx_decode.
Definition dx_exp_typename := PG.C04.Spec.exp_typename.
Definition dx_fmt_d := fmt_d.
