Require Import PG.C03.Model PG.C03.Spec PG.C01.Lib PG.C01.Spec PG.Dropped.Model PG.Dropped.Spec PG.Dropped.Inst.
Require Extraction. Require ExtrOcamlBasic.
Extraction "model.ml" dx_parseDropped dx_parseAll dx_build dx_match dx_schema16 dx_schema15
  dx_Find dx_Find_id dx_Scan dx_Scan_id dx_Schema dx_Schema_id dx_Recover dx_Recover_id
  dx_enc_attr dx_attr_fits dx_enc_db dx_db_fits dx_enc_class dx_class_fits dx_enc_tbl dx_tbl_fits
  dx_live_attr dx_live_tbl dx_live_mask dx_expected_all dx_expected_dropped dx_rel_dcols dx_expected_values
  dx_expected_row dx_exp_typename dx_fmt_d dx_DecodeType.
