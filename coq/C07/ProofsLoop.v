(* C07: the element loop [parse_elems] against the reference layout [enc_items]. *)
Require Import PG.Base.Bytes PG.Base.GoSlice PG.Base.Value PG.C07.Model PG.C07.Spec.

(* ---------- lengths ---------- *)
Lemma enc_i32_len v : blen (enc_i32 v) = 4.
Proof. unfold enc_i32. bl. reflexivity. Qed.
#[export] Hint Rewrite enc_i32_len : blen.

Lemma pad_to_len n a : 0 < a -> blen (pad_to n a) = align n a - n.
Proof. intros. unfold pad_to. apply zeros_len. pose proof (align_ge n a). lia. Qed.

Lemma enc_elem_len e :
  blen (enc_elem e) = match e with EFixed d => blen d | EShort d => 1 + blen d | ELong d => 4 + blen d end.
Proof. destruct e; cbn [enc_elem]; bl; lia. Qed.

Lemma sub_cons_01 (x : byte) (d : bytes) : sub (x :: d) 0 1 = [x].
Proof. reflexivity. Qed.
Lemma le_dec_single x : le_dec [x] = b2z x.
Proof. cbn [le_dec]. lia. Qed.

Lemma land1 x : Z.land x 1 = x mod 2.
Proof. change 1 with (Z.ones 1). rewrite Z.land_ones by lia. reflexivity. Qed.

Definition valid_align (al : Z) : Prop := al = 1 \/ al = 2 \/ al = 4 \/ al = 8.

Lemma valid_align_pos al : valid_align al -> 0 < al.
Proof. unfold valid_align. lia. Qed.

Lemma go_align_valid x al : valid_align al -> 0 <= x -> go_align x al = align x al.
Proof.
  intros [-> | [-> | [-> | ->]]] Hx.
  - reflexivity.
  - apply go_align_2; lia.
  - apply go_align_4; lia.
  - apply go_align_8; lia.
Qed.

(* an aligned position plus a size: the next aligned position is the size rounded up *)
Lemma align_shift p sz al : valid_align al -> p mod al = 0 ->
  align (p + sz) al = p + align sz al.
Proof.
  intros [-> | [-> | [-> | ->]]] Hp; unfold align;
    repeat match goal with |- context [?a <=? 1] =>
      let v := eval vm_compute in (a <=? 1) in change (a <=? 1) with v end;
    cbv iota; lia.
Qed.

(* ---------- element well-formedness ---------- *)
Definition wf_opt (tl : Z) (o : option velem) : Prop :=
  match o with None => True | Some e => wf_elem tl e end.

(* every stored element occupies at least one byte *)
Lemma enc_elem_pos tl e : wf_elem tl e -> 1 <= blen (enc_elem e).
Proof.
  rewrite enc_elem_len. destruct e; cbn [wf_elem]; pose proof (blen_nonneg data); lia.
Qed.

(* ---------- the null bitmap as the loop sees it ---------- *)
Definition is_null (o : option velem) : bool := match o with None => true | Some _ => false end.

Definition nulls_ok (nulls : option gslice) (es : list (option velem)) (i : Z) : Prop :=
  match nulls with
  | None => forall j o, nth_error es j = Some o -> is_null o = false
  | Some nb => forall j o, nth_error es j = Some o ->
      (i + Z.of_nat j) / 8 < len nb /\
      (Z.land (byte_at (vis nb) ((i + Z.of_nat j) / 8)) (Z.shiftl 1 ((i + Z.of_nat j) mod 8)) =? 0) = is_null o
  end.

Lemma nulls_ok_tail nulls o r i : nulls_ok nulls (o :: r) i -> nulls_ok nulls r (i + 1).
Proof.
  unfold nulls_ok. destruct nulls as [nb|]; intros H j o' Hj.
  - specialize (H (S j) o' Hj). replace (i + 1 + Z.of_nat j) with (i + Z.of_nat (S j)) by lia. exact H.
  - exact (H (S j) o' Hj).
Qed.

Section Loop.
  Variable DecodeType : bytes -> Z -> res gval.
  Variables (raw : gslice) (eoid elemLen : Z) (fixed : bool) (nulls : option gslice) (al tl : Z).
  Hypothesis Hal : valid_align al.
  (* the Go-side (elemLen, fixed) pair describes the pg_type length [tl] *)
  Hypothesis Hfix : (tl = -1 /\ fixed = false) \/ (0 < tl /\ fixed = true /\ elemLen = tl).

  Let loop := parse_elems DecodeType raw eoid elemLen fixed nulls al.

  (* the null test of one iteration *)
  Lemma null_test o r i : 0 <= i -> nulls_ok nulls (o :: r) i ->
    match nulls with
    | None => Ok false
    | Some nb => b <- idx nb (i / 8) ;; Ok (Z.land b (Z.shiftl 1 (i mod 8)) =? 0)
    end = Ok (is_null o).
  Proof.
    intros Hi H. unfold nulls_ok in H. destruct nulls as [nb|].
    - destruct (H 0%nat o eq_refl) as [H1 H2]. replace (i + Z.of_nat 0) with i in * by lia.
      rewrite idx_ok by (split; [apply Z.div_pos; lia|exact H1]). cbn [bind]. rewrite H2. reflexivity.
    - rewrite (H 0%nat o eq_refl). reflexivity.
  Qed.

  (* The items of [es] lie at [p], the first aligned position at or after [off] (alignment counted
     from the datum start, 4 bytes before raw[0]); then the loop returns the expected elements. *)
  Lemma parse_elems_at : forall es i off p,
    Forall (wf_opt tl) es ->
    0 <= i -> 0 <= off ->
    p = align (off + 4) al - 4 ->
    sub (vis raw) p (p + blen (enc_items al es)) = enc_items al es ->
    p + blen (enc_items al es) <= len raw ->
    nulls_ok nulls es i ->
    loop (length es) i off = exp_elems DecodeType eoid es.
  Proof.
    pose proof (valid_align_pos al Hal) as Hal0.
    induction es as [|o r IH]; intros i off p Hwf Hi Hoff Hp Hsub Hlen Hn; [reflexivity|].
    inversion Hwf as [|x xs Hwo Hwr]; subst x xs.
    unfold loop in *. cbn [length parse_elems].
    rewrite (null_test o r i Hi Hn). cbn [bind].
    pose proof (nulls_ok_tail _ _ _ _ Hn) as Hn'.
    destruct o as [e|]; cbn [is_null exp_elems].
    2:{ (* NULL: nothing stored *)
        cbn [enc_items] in Hsub, Hlen.
        rewrite (IH (i + 1) off p); auto; lia. }
    (* a stored element *)
    cbn [wf_opt] in Hwo. cbn [enc_items] in Hsub, Hlen.
    set (b := enc_elem e) in *. set (sz := blen b) in *.
    set (rest := enc_items al r) in *.
    assert (Hpad : blen (pad_to sz al) = align sz al - sz) by (apply pad_to_len; lia).
    assert (Hsz : 1 <= sz) by (apply (enc_elem_pos tl); exact Hwo).
    pose proof (align_ge sz al Hal0) as Hage.
    pose proof (blen_nonneg rest) as Hrest0.
    assert (Htot : blen (b ++ pad_to sz al ++ rest) = align sz al + blen rest) by (bl; fold sz; lia).
    rewrite Htot in Hsub, Hlen.
    assert (Hp0 : off <= p) by (pose proof (align_ge (off + 4) al Hal0); lia).
    assert (Hpm : (p + 4) mod al = 0).
    { replace (p + 4) with (align (off + 4) al) by lia. apply align_mod; lia. }
    assert (Hga : go_align (off + 4) al - 4 = p) by (rewrite go_align_valid by (auto; lia); lia).
    rewrite Hga.
    (* positional reading inside the image *)
    assert (Hsplit : forall x y, 0 <= x -> x <= y -> y <= align sz al + blen rest ->
              sub (vis raw) (p + x) (p + y) = sub (b ++ pad_to sz al ++ rest) x y).
    { intros x y Hx Hxy Hy. rewrite <- Hsub. rewrite sub_sub by lia. reflexivity. }
    (* the remaining items sit at the next aligned position *)
    assert (Hnext : forall off', off' = p + sz ->
              loop (length r) (i + 1) off' = exp_elems DecodeType eoid r).
    { intros off' ->. unfold loop. apply (IH (i + 1) (p + sz) (p + align sz al)); auto; try lia.
      - replace (p + sz + 4) with ((p + 4) + sz) by lia. rewrite align_shift by auto. lia.
      - fold rest. replace (p + align sz al + blen rest) with (p + (align sz al + blen rest)) by lia.
        rewrite Hsplit by lia. rewrite sub_app_r by (fold sz; lia). rewrite sub_app_r by (bl; lia).
        apply sub_exact; rewrite ?Hpad; fold sz; lia. }
    unfold loop in Hnext.
    destruct Hfix as [[Htl Hfx]|[Htl [Hfx Hel]]]; rewrite Hfx in Hnext |- *.
    - (* varlena *)
      destruct (p >=? len raw) eqn:E1; [lia|]. clear E1.
      rewrite idx_ok by lia. cbn [bind].
      assert (Hb0 : byte_at (vis raw) p = le_dec (sub b 0 1)).
      { rewrite byte_at_le_dec by (unfold len in *; lia). f_equal.
        replace p with (p + 0) at 1 by lia. rewrite Hsplit by lia.
        rewrite sub_app_l by (fold sz; lia). reflexivity. }
      destruct e as [d|d|d]; cbn [wf_elem] in Hwo; [lia| |].
      + (* 1-byte header *)
        destruct Hwo as [_ Hd]. pose proof (blen_nonneg d) as Hd0.
        assert (Hszd : sz = 1 + blen d) by (unfold sz, b; rewrite enc_elem_len; reflexivity).
        assert (Hh : byte_at (vis raw) p = (blen d + 1) * 2 + 1).
        { rewrite Hb0. unfold b. cbn [enc_elem]. rewrite sub_cons_01, le_dec_single, b2z_z2b. lia. }
        rewrite Hh.
        rewrite land1. replace (((blen d + 1) * 2 + 1) mod 2) with 1 by lia.
        cbn [Z.eqb Pos.eqb].
        replace (((blen d + 1) * 2 + 1) / 2) with sz by lia.
        destruct ((sz <? 1) || (p + sz >? len raw)) eqn:E2; [lia|]. clear E2.
        destruct (slice_ok raw (p + 1) (p + sz)) as [e' He']; try lia.
        { pose proof (len_le_cap raw). lia. }
        rewrite He'. cbn [bind].
        rewrite (slice_vis_within _ _ _ _ He') by lia.
        rewrite Hsplit by lia. rewrite sub_app_l by (fold sz; lia).
        replace (sub b 1 sz) with d.
        2:{ unfold b. cbn [enc_elem]. change (z2b ((blen d + 1) * 2 + 1) :: d) with ([z2b ((blen d + 1) * 2 + 1)] ++ d).
            rewrite sub_app_r by (bl; lia). symmetry. apply sub_exact; bl; lia. }
        cbn [elem_data]. destruct (DecodeType d eoid) as [v|]; cbn [bind]; [|reflexivity].
        rewrite Hnext by reflexivity. reflexivity.
      + (* 4-byte header *)
        destruct Hwo as [_ Hd]. pose proof (blen_nonneg d) as Hd0.
        assert (Hszd : sz = 4 + blen d) by (unfold sz, b; rewrite enc_elem_len; reflexivity).
        assert (Hh : byte_at (vis raw) p = ((blen d + 4) * 4) mod 256).
        { rewrite Hb0. unfold b. cbn [enc_elem le_enc app]. rewrite sub_cons_01, le_dec_single, b2z_z2b. lia. }
        rewrite Hh.
        rewrite land1. replace ((((blen d + 4) * 4) mod 256) mod 2) with 0 by lia.
        cbn [Z.eqb].
        destruct (p + 4 >? len raw) eqn:E3; [lia|]. clear E3.
        unfold u32. rewrite (uN_sub 4 raw p ((blen d + 4) * 4)); try lia.
        2:{ change (Z.of_nat 4) with 4. rewrite <- (Z.add_0_r p) at 1. rewrite Hsplit by lia.
            rewrite sub_app_l by (fold sz; lia). unfold b. cbn [enc_elem].
            rewrite sub_app_l by (bl; lia). apply sub_exact; bl; lia. }
        all: try (change (8 * Z.of_nat 4) with 32; change (2 ^ 30) with 1073741824 in Hd;
                  change (2 ^ 32) with 4294967296; lia).
        cbn [bind].
        replace ((blen d + 4) * 4 / 4) with sz by lia.
        destruct ((sz <? 4) || (p + sz >? len raw)) eqn:E2; [lia|]. clear E2.
        destruct (slice_ok raw (p + 4) (p + sz)) as [e' He']; try lia.
        { pose proof (len_le_cap raw). lia. }
        rewrite He'. cbn [bind].
        rewrite (slice_vis_within _ _ _ _ He') by lia.
        rewrite Hsplit by lia. rewrite sub_app_l by (fold sz; lia).
        replace (sub b 4 sz) with d.
        2:{ unfold b. cbn [enc_elem]. rewrite sub_app_r by (bl; lia). symmetry. apply sub_exact; bl; lia. }
        cbn [elem_data]. destruct (DecodeType d eoid) as [v|]; cbn [bind]; [|reflexivity].
        rewrite Hnext by reflexivity. reflexivity.
    - (* fixed width *)
      destruct e as [d|d|d]; cbn [wf_elem] in Hwo; [|lia|lia].
      destruct Hwo as [_ Hd].
      assert (Hszd : sz = tl) by (unfold sz, b; rewrite enc_elem_len; exact Hd).
      rewrite Hel in Hnext |- *. rewrite <- Hszd in Hnext |- *.
      destruct (p + sz >? len raw) eqn:E1; [lia|]. clear E1.
      destruct (slice_ok raw p (p + sz)) as [e' He']; try lia.
      { pose proof (len_le_cap raw). lia. }
      rewrite He'. cbn [bind].
      rewrite (slice_vis_within _ _ _ _ He') by lia.
      replace p with (p + 0) at 1 by lia. rewrite Hsplit by lia. rewrite sub_app_l by (fold sz; lia).
      replace (sub b 0 sz) with d by (symmetry; apply sub_exact; [reflexivity|unfold sz; reflexivity]).
      cbn [elem_data]. destruct (DecodeType d eoid) as [v|]; cbn [bind]; [|reflexivity].
      rewrite Hnext by reflexivity. reflexivity.
  Qed.
End Loop.
