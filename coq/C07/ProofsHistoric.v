(* C07: what the code did before the fix: commits — concrete witnesses, by computation. *)
Require Import PG.Base.Bytes PG.Base.GoSlice PG.Base.Value PG.C07.Model PG.C07.Spec PG.C07.Historic.

(* D23: '{1,NULL,3}'::int4[] — dataoffset (32) used relative to the stripped payload *)
Definition w_nulls : arr :=
  {| a_ty := ty 1007 23 4 4; a_dims := [(3, 1)]; a_hasnull := true;
     a_elems := [Some (EFixed (le_enc 4 1)); None; Some (EFixed (le_enc 4 3))] |}.
Lemma w_nulls_wf : wf_arr w_nulls.
Proof.
  unfold w_nulls, wf_arr, ndim, nitems; cbn [a_ty a_dims a_hasnull a_elems t_len length].
  repeat split; try (cbn; lia); try discriminate.
  - cbn [pg_array_types In]. do 5 right. left. reflexivity.
  - repeat constructor; cbn; lia.
  - repeat constructor; cbn; lia.
Qed.

(* D24: '{}'::int4[] *)
Definition w_empty : arr := {| a_ty := ty 1007 23 4 4; a_dims := []; a_hasnull := false; a_elems := [] |}.
Lemma w_empty_wf : wf_arr w_empty.
Proof.
  unfold w_empty, wf_arr, ndim, nitems; cbn [a_ty a_dims a_hasnull a_elems t_len length].
  split; [cbn [pg_array_types In]; do 5 right; left; reflexivity|].
  split; [cbn; lia|]. split; [constructor|]. split; [constructor|].
  split; [intros _; split; reflexivity|]. split; [intros H; exfalso; apply H; reflexivity|].
  split; [cbn; lia|]. intros [].
Qed.

(* D25a: two macaddr (6 bytes, int-aligned: 2 bytes of padding between them) *)
Definition w_macaddr : arr :=
  {| a_ty := ty 1040 829 6 4; a_dims := [(2, 1)]; a_hasnull := false;
     a_elems := [Some (EFixed [x01; x02; x03; x04; x05; x06]); Some (EFixed [x11; x12; x13; x14; x15; x16])] |}.
Lemma w_macaddr_wf : wf_arr w_macaddr.
Proof.
  unfold w_macaddr, wf_arr, ndim, nitems; cbn [a_ty a_dims a_hasnull a_elems t_len length].
  repeat split; try (cbn; lia); try discriminate.
  - cbn [pg_array_types In]. do 22 right. left. reflexivity.
  - repeat constructor; cbn; lia.
  - repeat constructor; cbn; lia.
  - intros [H|[H|[]]]; discriminate H.
Qed.

(* D25b: one name (64 bytes, fixed) — absent from fixedLengths, read as a varlena *)
Definition w_name : arr :=
  {| a_ty := ty 1003 19 64 1; a_dims := [(1, 1)]; a_hasnull := false;
     a_elems := [Some (EFixed (x61 :: x62 :: repeat x00 62))] |}.
Lemma w_name_wf : wf_arr w_name.
Proof.
  unfold w_name, wf_arr, ndim, nitems; cbn [a_ty a_dims a_hasnull a_elems t_len length].
  repeat split; try (cbn; lia); try discriminate.
  - cbn [pg_array_types In]. do 3 right. left. reflexivity.
  - repeat constructor; cbn; lia.
  - repeat constructor; cbn; lia.
  - intros [H|[]]; discriminate H.
Qed.

(* D25c: two tsrange (varlena, double-aligned): a 5-byte element is followed by 3 bytes of padding,
   and the payload offset of an element is 4 mod 8 *)
Definition w_tsrange : arr :=
  {| a_ty := ty 3909 3908 (-1) 8; a_dims := [(2, 1)]; a_hasnull := false;
     a_elems := [Some (ELong [x01; x02; x03; x04; x05]); Some (EShort [x11; x12; x13; x14; x15])] |}.
Lemma w_tsrange_wf : wf_arr w_tsrange.
Proof.
  unfold w_tsrange, wf_arr, ndim, nitems; cbn [a_ty a_dims a_hasnull a_elems t_len length].
  repeat split; try (cbn; lia); try discriminate.
  - cbn [pg_array_types In]. do 46 right. left. reflexivity.
  - repeat constructor; cbn; lia.
  - repeat constructor; cbn; lia.
  - intros [H|[H|[]]]; discriminate H.
Qed.

Definition old_wrong (a : arr) : Prop :=
  wf_arr a /\ DecodeType_array_old dt_id (exact (enc_array a)) (t_arr (a_ty a)) <> expected dt_id a.

Lemma dataoffset_refuted : old_wrong w_nulls.
Proof. split; [exact w_nulls_wf|]. vm_compute. discriminate. Qed.
Lemma empty_refuted : old_wrong w_empty.
Proof. split; [exact w_empty_wf|]. vm_compute. discriminate. Qed.
Lemma stride_refuted : old_wrong w_macaddr /\ old_wrong w_name /\ old_wrong w_tsrange.
Proof.
  split; [|split]; (split; [first [exact w_macaddr_wf | exact w_name_wf | exact w_tsrange_wf]|]);
    vm_compute; discriminate.
Qed.

(* D32: byte strings on which the old code panicked *)
Definition hdr1 (eoid cnt doff : Z) : bytes :=
  le_enc 4 1 ++ le_enc 4 doff ++ le_enc 4 eoid ++ le_enc 4 cnt ++ le_enc 4 1.
(* one text element whose header byte is 0x01: raw[off+1:off+0] *)
Definition p_short0 : bytes := hdr1 25 1 0 ++ [x01].
(* a null bitmap for 1000 elements in a 20-byte value: raw[20:145] *)
Definition p_bitmap : bytes := hdr1 23 1000 24.
(* six dimensions announced in 20 bytes: i32(raw, 28) *)
Definition p_ndim6 : bytes := le_enc 4 6 ++ le_enc 4 0 ++ le_enc 4 23 ++ le_enc 4 1 ++ le_enc 4 1.
(* a 4-byte element header announcing 2 bytes: raw[off+4:off+2] *)
Definition p_long2 : bytes := hdr1 25 1 0 ++ le_enc 4 8.

Lemma old_panics :
  DecodeType_array_old dt_id (exact p_short0) 1009 = Panic /\
  DecodeType_array_old dt_id (exact p_bitmap) 1007 = Panic /\
  DecodeType_array_old dt_id (exact p_ndim6) 1007 = Panic /\
  DecodeType_array_old dt_id (exact p_long2) 1009 = Panic.
Proof. split; [|split; [|split]]; vm_compute; reflexivity. Qed.

(* the repaired code on the same inputs *)
Lemma new_on_witnesses :
  DecodeType_array dt_id (exact (enc_array w_nulls)) 1007 = expected dt_id w_nulls /\
  DecodeType_array dt_id (exact (enc_array w_empty)) 1007 = Ok (Some (VList [])) /\
  DecodeType_array dt_id (exact p_short0) 1009 = Ok (Some (VList [])) /\
  DecodeType_array dt_id (exact p_bitmap) 1007 = Ok (Some VListNil) /\
  DecodeType_array dt_id (exact p_ndim6) 1007 = Ok (Some VListNil) /\
  DecodeType_array dt_id (exact p_long2) 1009 = Ok (Some (VList [])).
Proof. split; [|split; [|split; [|split; [|split]]]]; vm_compute; reflexivity. Qed.
