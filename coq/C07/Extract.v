Require Import PG.Base.Bytes PG.Base.GoSlice PG.Base.Value PG.C07.Model PG.C07.Spec.
(* element decoder placeholder (guide §10): the token carries the element type and exactly the bytes
   handed over; the driver prints it as elem:<oid>:<hex>, the harness replaces it by the real
   DecodeType(bytes, oid). *)
Definition elem_token (b : bytes) (oid : Z) : res gval := Ok (VStr (le_enc 4 oid ++ b)).
Definition m_parseArrayElements := parseArrayElements elem_token.
Definition m_decodeArray := decodeArray elem_token.
Definition m_DecodeType_array := DecodeType_array elem_token.
Definition s_expected := expected elem_token.
Require Extraction. Require ExtrOcamlBasic.
Extraction "model.ml" m_parseArrayElements m_decodeArray m_DecodeType_array s_expected decodeArray_header
  enc_array enc_array_datum enc_elem wf_elemb pg_array_types arrayElemTypes fixedLengths elemAligns arrayElemAlign lookup
  dataoffset overhead nitems ndim.
