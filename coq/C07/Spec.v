(* C07 spec — PostgreSQL's on-disk array value (utils/array.h, arrayfuncs.c), PostgreSQL 12-16,
   little-endian.  Written from the server's format, not from the Go code.

   typedef struct ArrayType {
       int32 vl_len_;      varlena header (4-byte form; the caller of DecodeType strips it)
       int   ndim;         number of dimensions; 0 for EVERY empty array
       int32 dataoffset;   offset to the data FROM THE START OF THE DATUM (header included),
                           or 0 if there is no null bitmap
       Oid   elemtype;
   } ArrayType;            16 bytes
   then  int dims[ndim]; int lbounds[ndim];
   then, iff dataoffset != 0, the null bitmap: (nitems+7)/8 bytes, bit (i mod 8) of byte (i/8),
         least significant bit first, 1 = element i is NOT null (unused high bits are 0);
   then padding so that the data begins at
         ARR_OVERHEAD_WITHNULLS = MAXALIGN(16 + 8*ndim + (nitems+7)/8)   (= dataoffset)   or
         ARR_OVERHEAD_NONULLS   = MAXALIGN(16 + 8*ndim) = 16 + 8*ndim;
   then the non-NULL elements in row-major order.  ArrayCastAndSet / CopyArrayEls store each
   element followed by zero padding up to att_align_nominal(size, typalign) — the NOMINAL type
   alignment, for fixed-width elements (macaddr 6 -> 8, timetz 12 -> 16) and for varlena
   elements alike, whether their header is the 4-byte or the 1-byte ("short") form.  Elements
   are never compressed or out of line.  Because the data area starts MAXALIGNed, every element
   begins on a multiple of typalign counted from the start of the datum. *)
Require Import PG.Base.Bytes PG.Base.GoSlice PG.Base.Value.

(* ---- pg_type: (array type, element type, typlen (-1 = varlena), typalign in bytes) ----
   Rows for the array types the tool claims to decode (pg_type.dat).  _int2vector (1006), whose
   elements the tool decodes as int2, is deliberately absent (observation O6, not claimed);
   _regproc (1008): a regproc is stored as a 4-byte, int-aligned Oid. *)
Record tyrow := { t_arr : Z; t_elem : Z; t_len : Z; t_align : Z }.
Definition ty a e l al := {| t_arr := a; t_elem := e; t_len := l; t_align := al |}.
Definition pg_array_types : list tyrow :=
  [ ty 1000 16 1 1      (* bool      c *);   ty 1001 17 (-1) 4   (* bytea     i *);
    ty 1002 18 1 1      (* char      c *);   ty 1003 19 64 1     (* name      c *);
    ty 1005 21 2 2      (* int2      s *);   ty 1007 23 4 4      (* int4      i *);
    ty 1008 26 4 4      (* regproc ~ oid i *);
    ty 1009 25 (-1) 4   (* text      i *);   ty 1010 27 6 2      (* tid       s *);
    ty 1011 28 4 4      (* xid       i *);   ty 1012 29 4 4      (* cid       i *);
    ty 1014 1042 (-1) 4 (* bpchar    i *);   ty 1015 1043 (-1) 4 (* varchar   i *);
    ty 1016 20 8 8      (* int8      d *);   ty 1017 600 16 8    (* point     d *);
    ty 1018 601 32 8    (* lseg      d *);   ty 1019 602 (-1) 8  (* path      d *);
    ty 1020 603 32 8    (* box       d *);   ty 1021 700 4 4     (* float4    i *);
    ty 1022 701 8 8     (* float8    d *);   ty 1027 604 (-1) 8  (* polygon   d *);
    ty 1028 26 4 4      (* oid       i *);   ty 1040 829 6 4     (* macaddr   i *);
    ty 1041 869 (-1) 4  (* inet      i *);   ty 1115 1114 8 8    (* timestamp d *);
    ty 1182 1082 4 4    (* date      i *);   ty 1183 1083 8 8    (* time      d *);
    ty 1185 1184 8 8    (* timestamptz d *); ty 1187 1186 16 8   (* interval  d *);
    ty 1231 1700 (-1) 4 (* numeric   i *);   ty 1270 1266 12 8   (* timetz    d *);
    ty 1561 1560 (-1) 4 (* bit       i *);   ty 1563 1562 (-1) 4 (* varbit    i *);
    ty 2951 2950 16 1   (* uuid      c *);   ty 3221 3220 8 8    (* pg_lsn    d *);
    ty 3643 3614 (-1) 4 (* tsvector  i *);   ty 3645 3615 (-1) 4 (* tsquery   i *);
    ty 3807 3802 (-1) 4 (* jsonb     i *);   ty 4073 4072 (-1) 4 (* jsonpath  i *);
    ty 629 628 24 8     (* line      d *);   ty 651 650 (-1) 4   (* cidr      i *);
    ty 719 718 24 8     (* circle    d *);   ty 775 774 8 4      (* macaddr8  i *);
    ty 791 790 8 8      (* money     d *);
    ty 3905 3904 (-1) 4 (* int4range i *);   ty 3907 3906 (-1) 4 (* numrange  i *);
    ty 3909 3908 (-1) 8 (* tsrange   d *);   ty 3911 3910 (-1) 8 (* tstzrange d *);
    ty 3913 3912 (-1) 4 (* daterange i *);   ty 3927 3926 (-1) 8 (* int8range d *) ].

(* ---- abstract array value ---- *)
Inductive velem :=
| EFixed (data : bytes)     (* element of a fixed-width type: exactly typlen bytes *)
| EShort (data : bytes)     (* varlena element with a 1-byte header, total size 1+|data| <= 127 *)
| ELong  (data : bytes).    (* varlena element with a 4-byte header, total size 4+|data| < 2^30 *)

Definition elem_data (e : velem) : bytes := match e with EFixed d | EShort d | ELong d => d end.

Record arr := {
  a_ty : tyrow;                     (* the pg_type row of the array type *)
  a_dims : list (Z * Z);            (* (length, lower bound) per dimension; [] = the empty array *)
  a_hasnull : bool;                 (* a null bitmap is present (it may be all ones) *)
  a_elems : list (option velem)     (* row-major storage order; None = NULL *)
}.

Definition wf_elem (typlen : Z) (e : velem) : Prop :=
  match e with
  | EFixed d => 0 < typlen /\ blen d = typlen
  | EShort d => typlen = -1 /\ blen d + 1 <= 127
  | ELong d  => typlen = -1 /\ blen d + 4 < 2 ^ 30
  end.

Definition dims_prod (ds : list (Z * Z)) : Z := fold_right (fun d acc => fst d * acc) 1 ds.
Definition nitems (a : arr) : Z := Z.of_nat (length (a_elems a)).
Definition ndim (a : arr) : Z := Z.of_nat (length (a_dims a)).

Definition wf_arr (a : arr) : Prop :=
  In (a_ty a) pg_array_types /\
  ndim a <= 6 /\
  Forall (fun d => 1 <= fst d /\ - 2 ^ 31 <= snd d < 2 ^ 31) (a_dims a) /\
  Forall (fun o => match o with None => True | Some e => wf_elem (t_len (a_ty a)) e end) (a_elems a) /\
  (a_dims a = [] -> a_elems a = [] /\ a_hasnull a = false) /\   (* zero elements <-> ndim = 0 *)
  (a_dims a <> [] -> nitems a = dims_prod (a_dims a)) /\
  nitems a < 2 ^ 31 /\                                          (* MaxArraySize is far below *)
  (In None (a_elems a) -> a_hasnull a = true).

(* ---- reference writer ---- *)
Definition enc_i32 (v : Z) : bytes := le_enc 4 (wrap 32 v).

Definition enc_elem (e : velem) : bytes :=
  match e with
  | EFixed d => d
  | EShort d => z2b ((blen d + 1) * 2 + 1) :: d          (* SET_VARSIZE_1B: (len << 1) | 1 *)
  | ELong d  => le_enc 4 ((blen d + 4) * 4) ++ d         (* SET_VARSIZE_4B: len << 2 *)
  end.

(* zero bytes from n up to the next multiple of a *)
Definition pad_to (n a : Z) : bytes := zeros (align n a - n).

Fixpoint enc_items (al : Z) (es : list (option velem)) : bytes :=
  match es with
  | [] => []
  | None :: r => enc_items al r
  | Some e :: r => enc_elem e ++ pad_to (blen (enc_elem e)) al ++ enc_items al r
  end.

(* null bitmap *)
Definition bm_bit (es : list (option velem)) (k : Z) : Z :=
  match nth_error es (Z.to_nat k) with Some (Some _) => 1 | _ => 0 end.
Definition bm_byte (es : list (option velem)) (k : Z) : Z :=
  bm_bit es (8 * k) + 2 * bm_bit es (8 * k + 1) + 4 * bm_bit es (8 * k + 2) + 8 * bm_bit es (8 * k + 3) +
  16 * bm_bit es (8 * k + 4) + 32 * bm_bit es (8 * k + 5) + 64 * bm_bit es (8 * k + 6) + 128 * bm_bit es (8 * k + 7).
Definition bitmap_len (n : Z) : Z := (n + 7) / 8.
Definition enc_bitmap (es : list (option velem)) : bytes :=
  map (fun k => z2b (bm_byte es (Z.of_nat k))) (seq 0 (Z.to_nat (bitmap_len (Z.of_nat (length es))))).

(* offsets counted from the start of the DATUM (varlena header included) *)
Definition hdr_end (a : arr) : Z := 16 + 8 * ndim a.
Definition overhead (a : arr) : Z :=
  if a_hasnull a then align (hdr_end a + bitmap_len (nitems a)) 8    (* ARR_OVERHEAD_WITHNULLS *)
  else hdr_end a.                                                    (* ARR_OVERHEAD_NONULLS *)
Definition dataoffset (a : arr) : Z := if a_hasnull a then overhead a else 0.

(* the datum WITHOUT its varlena header = the payload DecodeType receives *)
Definition enc_array (a : arr) : bytes :=
  enc_i32 (ndim a) ++ enc_i32 (dataoffset a) ++ le_enc 4 (t_elem (a_ty a)) ++
  concat (map (fun d => enc_i32 (fst d)) (a_dims a)) ++
  concat (map (fun d => enc_i32 (snd d)) (a_dims a)) ++
  (if a_hasnull a
   then enc_bitmap (a_elems a) ++ zeros (overhead a - (hdr_end a + bitmap_len (nitems a)))
   else []) ++
  enc_items (t_align (a_ty a)) (a_elems a).

(* the complete datum with a 4-byte varlena header; [enc_array] is what remains after the caller
   (ReadVarlena) has stripped it — C07/Proofs.v: payload_of_datum *)
Definition enc_array_datum (a : arr) : bytes :=
  le_enc 4 ((4 + blen (enc_array a)) * 4) ++ enc_array a.

(* ---- expected result: elements in storage order, nil exactly at the NULL positions, every other
   element = the element decoder applied to that element's own bytes ---- *)
Section Expected.
  Variable DecodeType : bytes -> Z -> res gval.
  Fixpoint exp_elems (oid : Z) (es : list (option velem)) : res (list gval) :=
    match es with
    | [] => Ok []
    | None :: r => l <- exp_elems oid r ;; Ok (VNil :: l)
    | Some e :: r => v <- DecodeType (elem_data e) oid ;; l <- exp_elems oid r ;; Ok (v :: l)
    end.
  Definition expected (a : arr) : res (option gval) :=
    l <- exp_elems (t_elem (a_ty a)) (a_elems a) ;; Ok (Some (VList l)).
End Expected.

(* decidable well-formedness, used by the generator to cross-check itself and by the Examples *)
Definition wf_elemb (typlen : Z) (e : velem) : bool :=
  match e with
  | EFixed d => (0 <? typlen) && (blen d =? typlen)
  | EShort d => (typlen =? -1) && (blen d + 1 <=? 127)
  | ELong d  => (typlen =? -1) && (blen d + 4 <? 2 ^ 30)
  end.
