(* C07: for ALL byte strings (any len, any cap) the array layer neither panics nor sizes an
   allocation beyond 8 * len(raw) elements. *)
Require Import PG.Base.Bytes PG.Base.GoSlice PG.Base.Value PG.C07.Model PG.C07.Spec.
Require Import PG.C07.ProofsTables PG.C07.ProofsLoop.

(* ---------- table facts ---------- *)
Lemma fixedLengths_pos_b : forallb (fun kv : Z * Z => 0 <? snd kv) fixedLengths = true.
Proof. vm_compute. reflexivity. Qed.
Lemma fixedLengths_pos k l : lookup k fixedLengths = Some l -> 0 < l.
Proof.
  intros H. apply lookup_In in H. pose proof fixedLengths_pos_b as F. rewrite forallb_forall in F.
  specialize (F _ H). cbn [snd] in F. lia.
Qed.
Lemma elemAligns_valid_b :
  forallb (fun kv : Z * Z => (snd kv =? 1) || (snd kv =? 2) || (snd kv =? 4) || (snd kv =? 8)) elemAligns = true.
Proof. vm_compute. reflexivity. Qed.
Lemma arrayElemAlign_valid eoid : valid_align (arrayElemAlign eoid).
Proof.
  unfold arrayElemAlign, valid_align. destruct (lookup eoid elemAligns) as [al|] eqn:E; [|lia].
  apply lookup_In in E. pose proof elemAligns_valid_b as F. rewrite forallb_forall in F.
  specialize (F _ E). cbn [snd] in F. lia.
Qed.

(* ---------- header ---------- *)
Lemma i32_ok s off : 0 <= off -> off + 4 <= len s -> exists v, i32 s off = Ok v.
Proof.
  intros. unfold i32, u32. destruct (uN_ok 4 s off) as [v Hv]; [lia|lia|]. rewrite Hv. cbn [bind]. eauto.
Qed.

Lemma dims_total_ok : forall n s i acc, 0 <= i -> 12 + 4 * (i + Z.of_nat n) <= len s ->
  exists v, dims_total n s i acc = Ok v.
Proof.
  induction n as [|n IH]; intros s i acc Hi Hl; cbn [dims_total]; [eauto|].
  destruct (i32_ok s (12 + i * 4)) as [d Hd]; [lia|lia|]. rewrite Hd. cbn [bind].
  apply IH; lia.
Qed.

(* what the header part guarantees to the loop *)
Definition hdr_inv (s : gslice) (h : hdr_result) : Prop :=
  match h with
  | HNil | HEmpty => True
  | HElems ds c nulls =>
    0 <= ds /\ 0 < c <= 8 * len s /\ (forall nb, nulls = Some nb -> len nb = (c + 7) / 8)
  end.

Lemma header_safe s : exists h, decodeArray_header s = Ok h /\ hdr_inv s h.
Proof.
  unfold decodeArray_header.
  destruct (len s <? 12) eqn:E1; [exists HNil; split; [reflexivity|exact I]|].
  destruct (i32_ok s 0) as [nd Hnd]; [lia|lia|]. rewrite Hnd. cbn [bind].
  destruct (nd =? 0) eqn:E2; [exists HEmpty; split; [reflexivity|exact I]|].
  destruct ((nd <? 0) || (nd >? 6) || (len s <? 12 + nd * 8)) eqn:E3; [exists HNil; split; [reflexivity|exact I]|].
  destruct (i32_ok s 4) as [dataoff Hdo]; [lia|lia|]. rewrite Hdo. cbn [bind].
  destruct (dims_total_ok (Z.to_nat nd) s 0 1) as [total Ht]; [lia|lia|]. rewrite Ht. cbn [bind].
  destruct (total <=? 0) eqn:E4; [exists HNil; split; [reflexivity|exact I]|].
  destruct (total >? 8 * len s) eqn:E5; [exists HNil; split; [reflexivity|exact I]|].
  destruct (dataoff >? 0) eqn:E6.
  - destruct ((12 + nd * 8 + (total + 7) / 8 >? len s) || (dataoff - 4 <? 12 + nd * 8 + (total + 7) / 8)) eqn:E7;
      [exists HNil; split; [reflexivity|exact I]|].
    destruct (slice_ok s (12 + nd * 8) (12 + nd * 8 + (total + 7) / 8)) as [nb Hnb]; try lia.
    { pose proof (len_le_cap s). lia. }
    rewrite Hnb. cbn [bind]. eexists. split; [reflexivity|].
    cbn [hdr_inv]. repeat split; try lia.
    intros nb' [= <-]. rewrite (slice_len _ _ _ _ Hnb). lia.
  - eexists. split; [reflexivity|]. cbn [hdr_inv]. repeat split; try lia. discriminate.
Qed.

(* ---------- loop ---------- *)
Section Safe.
  Variable DecodeType : bytes -> Z -> res gval.
  Hypothesis DT_total : forall b o, DecodeType b o <> Panic.

  Lemma DT_ok b o : exists v, DecodeType b o = Ok v.
  Proof. destruct (DecodeType b o) eqn:E; [eauto|]. exfalso. exact (DT_total _ _ E). Qed.

  Variables (raw : gslice) (eoid elemLen : Z) (fixed : bool) (nulls : option gslice) (al : Z).
  Hypothesis Hal : valid_align al.
  Hypothesis Hel : fixed = true -> 0 <= elemLen.

  Lemma parse_elems_safe : forall n i off,
    0 <= i -> 0 <= off ->
    (forall nb, nulls = Some nb -> (i + Z.of_nat n + 7) / 8 <= len nb) ->
    exists l, parse_elems DecodeType raw eoid elemLen fixed nulls al n i off = Ok l /\ (length l <= n)%nat.
  Proof.
    pose proof (valid_align_pos al Hal) as Hal0.
    induction n as [|n IH]; intros i off Hi Hoff Hnb; cbn [parse_elems].
    { exists []. split; [reflexivity|cbn; lia]. }
    assert (Hnull : exists b, match nulls with
                             | None => Ok false
                             | Some nb => b <- idx nb (i / 8) ;; Ok (Z.land b (Z.shiftl 1 (i mod 8)) =? 0)
                             end = Ok b).
    { destruct nulls as [nb|]; [|eauto]. specialize (Hnb nb eq_refl).
      rewrite idx_ok by lia. cbn [bind]. eauto. }
    destruct Hnull as [isnull ->]. cbn [bind].
    assert (Hnb' : forall nb, nulls = Some nb -> (i + 1 + Z.of_nat n + 7) / 8 <= len nb).
    { intros nb Hs. specialize (Hnb nb Hs). lia. }
    assert (Hrec : forall off', 0 <= off' -> forall v,
              exists l, (r <- parse_elems DecodeType raw eoid elemLen fixed nulls al n (i + 1) off' ;; Ok (v :: r)) = Ok l /\
                        (length l <= S n)%nat).
    { intros off' Ho v. destruct (IH (i + 1) off') as (l & Hl & Hlen); auto; try lia.
      rewrite Hl. cbn [bind]. exists (v :: l). split; [reflexivity|cbn [length]; lia]. }
    assert (Hstop : exists l : list gval, Ok (@nil gval) = Ok l /\ (length l <= S n)%nat).
    { exists []. split; [reflexivity|cbn; lia]. }
    destruct isnull; [apply Hrec; lia|].
    rewrite go_align_valid by (auto; lia).
    pose proof (align_ge (off + 4) al Hal0) as Hge.
    set (p := align (off + 4) al - 4) in *.
    assert (Hp : 0 <= p) by (unfold p; lia).
    pose proof (len_le_cap raw) as Hcap.
    destruct fixed eqn:Hfx.
    - specialize (Hel eq_refl).
      destruct (p + elemLen >? len raw) eqn:E1; [exact Hstop|].
      destruct (slice_ok raw p (p + elemLen)) as [e He]; try lia. rewrite He. cbn [bind].
      destruct (DT_ok (vis e) eoid) as [v ->]. cbn [bind]. apply Hrec. lia.
    - destruct (p >=? len raw) eqn:E1; [exact Hstop|].
      rewrite idx_ok by lia. cbn [bind].
      set (hdr := byte_at (vis raw) p).
      destruct (Z.land hdr 1 =? 1) eqn:E2.
      + destruct ((hdr / 2 <? 1) || (p + hdr / 2 >? len raw)) eqn:E3; [exact Hstop|].
        destruct (slice_ok raw (p + 1) (p + hdr / 2)) as [e He]; try lia. rewrite He. cbn [bind].
        destruct (DT_ok (vis e) eoid) as [v ->]. cbn [bind]. apply Hrec. lia.
      + destruct (p + 4 >? len raw) eqn:E3; [exact Hstop|].
        destruct (uN_ok 4 raw p) as [w Hw]; [lia|lia|]. unfold u32. rewrite Hw. cbn [bind].
        destruct ((w / 4 <? 4) || (p + w / 4 >? len raw)) eqn:E4; [exact Hstop|].
        destruct (slice_ok raw (p + 4) (p + w / 4)) as [e He]; try lia. rewrite He. cbn [bind].
        destruct (DT_ok (vis e) eoid) as [v ->]. cbn [bind]. apply Hrec. lia.
  Qed.
End Safe.

Section Top.
  Variable DecodeType : bytes -> Z -> res gval.
  Hypothesis DT_total : forall b o, DecodeType b o <> Panic.

  (* decodeArray returns nil, or a list of at most 8*len(raw) elements; the capacity it requests from
     make() is the stored count, which the header part has bounded by 8*len(raw). *)
  Lemma decodeArray_safe s eoid :
    decodeArray DecodeType s eoid = Ok VListNil \/
    exists l, decodeArray DecodeType s eoid = Ok (VList l) /\ Z.of_nat (length l) <= 8 * len s.
  Proof.
    unfold decodeArray. destruct (header_safe s) as (h & Hh & Hinv). rewrite Hh. cbn [bind].
    destruct h as [| |ds c nulls].
    - left. reflexivity.
    - right. exists []. split; [reflexivity|]. cbn [length]. pose proof (len_nonneg s). lia.
    - right. cbn [hdr_inv] in Hinv. destruct Hinv as (Hds & Hc & Hnb).
      set (lf := match lookup eoid fixedLengths with Some l => (l, true) | None => (0, false) end).
      assert (Hlf : snd lf = true -> 0 <= fst lf).
      { unfold lf. destruct (lookup eoid fixedLengths) as [l|] eqn:E; cbn [fst snd]; intros Hs;
          [apply fixedLengths_pos in E; lia | lia]. }
      destruct lf as [elemLen fixed]. cbn [fst snd] in Hlf.
      unfold parseArrayElements. destruct (c <? 0) eqn:E; [lia|]. clear E.
      destruct (parse_elems_safe DecodeType DT_total s eoid elemLen fixed nulls (arrayElemAlign eoid)
                  (arrayElemAlign_valid eoid) Hlf (Z.to_nat c) 0 ds) as (l & Hl & Hlen); try lia.
      all: try (intros nb Hs; rewrite (Hnb nb Hs); rewrite Z2Nat.id by lia; lia).
      rewrite Hl. cbn [bind]. exists l. split; [reflexivity|]. lia.
  Qed.

  Theorem decodeArray_no_panic s eoid : decodeArray DecodeType s eoid <> Panic.
  Proof. destruct (decodeArray_safe s eoid) as [H|(l & H & _)]; rewrite H; discriminate. Qed.

  Theorem DecodeType_array_no_panic s oid : DecodeType_array DecodeType s oid <> Panic.
  Proof.
    unfold DecodeType_array. destruct (len s =? 0); [discriminate|].
    destruct (lookup oid arrayElemTypes) as [eoid|]; [|discriminate].
    destruct (decodeArray_safe s eoid) as [H|(l & H & _)]; rewrite H; discriminate.
  Qed.

  Theorem DecodeType_array_bounded s oid l :
    DecodeType_array DecodeType s oid = Ok (Some (VList l)) -> Z.of_nat (length l) <= 8 * len s.
  Proof.
    unfold DecodeType_array. destruct (len s =? 0); [discriminate|].
    destruct (lookup oid arrayElemTypes) as [eoid|]; [|discriminate].
    destruct (decodeArray_safe s eoid) as [H|(l' & H & Hb)]; rewrite H; cbn [bind]; intros [= <-]. exact Hb.
  Qed.
End Top.

(* the capacity requested from make() *)
Theorem alloc_request_bounded s ds c nulls :
  decodeArray_header s = Ok (HElems ds c nulls) -> 0 < c <= 8 * len s.
Proof.
  intros H. destruct (header_safe s) as (h & Hh & Hinv). rewrite H in Hh. injection Hh as <-.
  cbn [hdr_inv] in Hinv. tauto.
Qed.
