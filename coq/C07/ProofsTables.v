(* C07: the Go tables against the pg_type rows (finite, by computation). *)
Require Import PG.Base.Bytes PG.Base.GoSlice PG.Base.Value PG.C07.Model PG.C07.Spec.

Definition row_ok (r : tyrow) : bool :=
  (match lookup (t_arr r) arrayElemTypes with Some e => e =? t_elem r | None => false end) &&
  (match lookup (t_elem r) fixedLengths with
   | Some l => (0 <? t_len r) && (l =? t_len r)
   | None => t_len r =? -1 end) &&
  (arrayElemAlign (t_elem r) =? t_align r) &&
  ((t_align r =? 1) || (t_align r =? 2) || (t_align r =? 4) || (t_align r =? 8)).

Lemma rows_ok : forallb row_ok pg_array_types = true.
Proof. vm_compute. reflexivity. Qed.

Lemma row_facts r : In r pg_array_types ->
  lookup (t_arr r) arrayElemTypes = Some (t_elem r) /\
  lookup (t_elem r) fixedLengths = (if 0 <? t_len r then Some (t_len r) else None) /\
  arrayElemAlign (t_elem r) = t_align r /\
  (t_len r = -1 \/ 0 < t_len r) /\
  (t_align r = 1 \/ t_align r = 2 \/ t_align r = 4 \/ t_align r = 8).
Proof.
  intros Hin. pose proof rows_ok as H. rewrite forallb_forall in H. specialize (H r Hin).
  unfold row_ok in H.
  apply andb_true_iff in H. destruct H as [H H4].
  apply andb_true_iff in H. destruct H as [H H3].
  apply andb_true_iff in H. destruct H as [H1 H2].
  destruct (lookup (t_arr r) arrayElemTypes) as [e|]; [|discriminate H1].
  destruct (lookup (t_elem r) fixedLengths) as [l|].
  - destruct (0 <? t_len r) eqn:E; [|discriminate H2].
    repeat split; try (f_equal; lia); lia.
  - destruct (0 <? t_len r) eqn:E; [lia|].
    repeat split; try (f_equal; lia); lia.
Qed.

Definition key_ok (kv : Z * Z) : bool :=
  (fst kv =? 1006) || existsb (fun r => (t_arr r =? fst kv) && (t_elem r =? snd kv)) pg_array_types.
Lemma keys_ok : forallb key_ok arrayElemTypes = true.
Proof. vm_compute. reflexivity. Qed.

Lemma lookup_In k v m : lookup k m = Some v -> In (k, v) m.
Proof.
  induction m as [|[k' v'] m IH]; cbn [lookup]; [discriminate|].
  destruct (k' =? k) eqn:E.
  - intros [= <-]. left. f_equal. lia.
  - intros H. right. auto.
Qed.

Lemma table_complete k e : lookup k arrayElemTypes = Some e -> k <> 1006 ->
  exists r, In r pg_array_types /\ t_arr r = k /\ t_elem r = e.
Proof.
  intros H Hk. apply lookup_In in H. pose proof keys_ok as K. rewrite forallb_forall in K.
  specialize (K _ H). unfold key_ok in K. cbn [fst snd] in K.
  apply orb_true_iff in K. destruct K as [K|K]; [lia|].
  apply existsb_exists in K. destruct K as (r & Hin & Hr). exists r. repeat split; auto; lia.
Qed.

Theorem tables_agree :
  (forall r, In r pg_array_types ->
     lookup (t_arr r) arrayElemTypes = Some (t_elem r) /\
     lookup (t_elem r) fixedLengths = (if 0 <? t_len r then Some (t_len r) else None) /\
     arrayElemAlign (t_elem r) = t_align r) /\
  (forall k e, lookup k arrayElemTypes = Some e -> k <> 1006 ->
     exists r, In r pg_array_types /\ t_arr r = k /\ t_elem r = e).
Proof.
  split.
  - intros r Hin. destruct (row_facts r Hin) as (A & B & C & _). auto.
  - exact table_complete.
Qed.
