(* C07 model — pgdump/types.go (worktree after the C07 fix: commits):
     tables arrayElemTypes / fixedLengths / elemAligns      types.go:114-151
     array branch of DecodeType                             types.go:162-171
     decodeArray                                            types.go:572-616
     arrayElemAlign                                         types.go:619-624
     parseArrayElements                                     types.go:626-669
   Element decoding (DecodeType on the bytes of ONE element) belongs to C04: it is the Section
   variable [DecodeType] below (guide §10); it may panic, and a panic propagates.             *)
Require Import PG.Base.Bytes PG.Base.GoSlice PG.Base.Value.

(* ---- type OIDs, types.go:14-89 ---- *)
Definition OidBool := 16.   Definition OidBytea := 17.  Definition OidChar := 18.
Definition OidName := 19.   Definition OidInt8 := 20.   Definition OidInt2 := 21.
Definition OidInt4 := 23.   Definition OidText := 25.   Definition OidOid := 26.
Definition OidTid := 27.    Definition OidXid := 28.    Definition OidCid := 29.
Definition OidPoint := 600. Definition OidLseg := 601.  Definition OidPath := 602.
Definition OidBox := 603.   Definition OidPolygon := 604. Definition OidLine := 628.
Definition OidCircle := 718. Definition OidCidr := 650. Definition OidFloat4 := 700.
Definition OidFloat8 := 701. Definition OidMacaddr8 := 774. Definition OidMoney := 790.
Definition OidMacaddr := 829. Definition OidInet := 869.
Definition OidBpchar := 1042. Definition OidVarchar := 1043.
Definition OidDate := 1082. Definition OidTime := 1083. Definition OidTimestamp := 1114.
Definition OidTimestampTZ := 1184. Definition OidInterval := 1186. Definition OidTimeTZ := 1266.
Definition OidBit := 1560.  Definition OidVarbit := 1562. Definition OidNumeric := 1700.
Definition OidUUID := 2950. Definition OidPgLsn := 3220.
Definition OidTsvector := 3614. Definition OidTsquery := 3615.
Definition OidJSONB := 3802. Definition OidJSONPath := 4072.
Definition OidInt4Range := 3904. Definition OidNumRange := 3906. Definition OidTsRange := 3908.
Definition OidTsTzRange := 3910. Definition OidDateRange := 3912. Definition OidInt8Range := 3926.

(* Go map literals (duplicate keys do not compile) = association lists, first match *)
Fixpoint lookup (k : Z) (m : list (Z * Z)) : option Z :=
  match m with [] => None | (k', v) :: r => if k' =? k then Some v else lookup k r end.

(* types.go:114-130 *)
Definition arrayElemTypes : list (Z * Z) :=
  [ (1000, OidBool); (1001, OidBytea); (1002, OidChar); (1003, OidName);
    (1005, OidInt2); (1006, OidInt2); (1007, OidInt4); (1008, OidOid);
    (1009, OidText); (1010, OidTid); (1011, OidXid); (1012, OidCid);
    (1014, OidBpchar); (1015, OidVarchar); (1016, OidInt8);
    (1017, OidPoint); (1018, OidLseg); (1019, OidPath); (1020, OidBox);
    (1021, OidFloat4); (1022, OidFloat8); (1027, OidPolygon);
    (1028, OidOid); (1040, OidMacaddr); (1041, OidInet);
    (1115, OidTimestamp); (1182, OidDate); (1183, OidTime);
    (1185, OidTimestampTZ); (1187, OidInterval); (1231, OidNumeric);
    (1270, OidTimeTZ); (1561, OidBit); (1563, OidVarbit);
    (2951, OidUUID); (3221, OidPgLsn); (3643, OidTsvector); (3645, OidTsquery);
    (3807, OidJSONB); (4073, OidJSONPath);
    (629, OidLine); (651, OidCidr); (719, OidCircle); (775, OidMacaddr8); (791, OidMoney);
    (3905, OidInt4Range); (3907, OidNumRange); (3909, OidTsRange);
    (3911, OidTsTzRange); (3913, OidDateRange); (3927, OidInt8Range) ].

(* types.go:132-139 *)
Definition fixedLengths : list (Z * Z) :=
  [ (OidBool, 1); (OidChar, 1); (OidInt2, 2); (OidInt4, 4); (OidInt8, 8); (OidOid, 4);
    (OidFloat4, 4); (OidFloat8, 8); (OidDate, 4); (OidTimestamp, 8); (OidTimestampTZ, 8);
    (OidTid, 6); (OidXid, 4); (OidCid, 4); (OidMoney, 8); (OidTime, 8);
    (OidMacaddr, 6); (OidMacaddr8, 8); (OidUUID, 16); (OidPgLsn, 8);
    (OidPoint, 16); (OidLseg, 32); (OidBox, 32); (OidLine, 24); (OidCircle, 24);
    (OidTimeTZ, 12); (OidInterval, 16); (OidName, 64) ].

(* types.go:141-151 *)
Definition elemAligns : list (Z * Z) :=
  [ (OidBool, 1); (OidChar, 1); (OidName, 1); (OidUUID, 1);
    (OidInt2, 2); (OidTid, 2);
    (OidInt8, 8); (OidFloat8, 8); (OidMoney, 8); (OidPgLsn, 8);
    (OidTime, 8); (OidTimeTZ, 8); (OidTimestamp, 8); (OidTimestampTZ, 8); (OidInterval, 8);
    (OidPoint, 8); (OidLseg, 8); (OidPath, 8); (OidBox, 8); (OidPolygon, 8); (OidLine, 8); (OidCircle, 8);
    (OidTsRange, 8); (OidTsTzRange, 8); (OidInt8Range, 8) ].

(* types.go:619-624 *)
Definition arrayElemAlign (elemOid : Z) : Z :=
  match lookup elemOid elemAligns with Some a => a | None => 4 end.

(* ---- decodeArray, header part (types.go:573-612): everything up to the call of
   parseArrayElements, which does not depend on the element type.  The three outcomes are
   `return nil`, `return []interface{}{}` and "go on with (dataStart, count, nullBitmap)". ---- *)
Inductive hdr_result :=
| HNil                                                  (* return nil *)
| HEmpty                                                (* return []interface{}{} *)
| HElems (dataStart count : Z) (nulls : option gslice). (* nulls = None <-> nullBitmap == nil *)

(* for i := int32(0); i < ndim; i++ { total *= i32(raw, 12+int(i)*4) }   -- int32 wrap-around *)
Fixpoint dims_total (n : nat) (raw : gslice) (i total : Z) : res Z :=
  match n with
  | O => Ok total
  | S k => d <- i32 raw (12 + i * 4) ;; dims_total k raw (i + 1) (sint32 (wrap 32 (total * d)))
  end.

Definition decodeArray_header (raw : gslice) : res hdr_result :=
  if len raw <? 12 then Ok HNil else                                          (* :573 *)
  ndim <- i32 raw 0 ;;                                                        (* :576 *)
  if ndim =? 0 then Ok HEmpty else                                            (* :577 *)
  if (ndim <? 0) || (ndim >? 6) || (len raw <? 12 + ndim * 8) then Ok HNil else (* :582 *)
  dataoff <- i32 raw 4 ;;                                                     (* :586 *)
  total <- dims_total (Z.to_nat ndim) raw 0 1 ;;                              (* :587-590 *)
  if total <=? 0 then Ok HNil else                                            (* :591 *)
  let count := total in                                                       (* :596 *)
  if count >? 8 * len raw then Ok HNil else                                   (* :597 *)
  let dataStart := 12 + ndim * 8 in                                           (* :602 *)
  if dataoff >? 0 then                                                        (* :603 *)
    let bitmapEnd := dataStart + (count + 7) / 8 in                           (* :604 *)
    if (bitmapEnd >? len raw) || (dataoff - 4 <? bitmapEnd) then Ok HNil else (* :607 *)
    nb <- slice raw dataStart bitmapEnd ;;                                    (* :610 *)
    Ok (HElems (dataoff - 4) count (Some nb))                                 (* :611 *)
  else Ok (HElems dataStart count None).

Section Array.
  (* Go's DecodeType applied to the bytes of one element (never an array type): C04 *)
  Variable DecodeType : bytes -> Z -> res gval.

  Section Loop.
    Variables (raw : gslice) (elemOid elemLen : Z) (fixed : bool) (nulls : option gslice) (elemAlign : Z).

    (* the body of  for i := 0; i < count; i++  (types.go:629-667); [n] = count - i iterations left;
       `break` = return what has been appended so far *)
    Fixpoint parse_elems (n : nat) (i off : Z) : res (list gval) :=
      match n with
      | O => Ok []
      | S k =>
        isnull <- match nulls with                                            (* :630 *)
                  | None => Ok false
                  | Some nb => b <- idx nb (i / 8) ;; Ok (Z.land b (Z.shiftl 1 (i mod 8)) =? 0)
                  end ;;
        if isnull then r <- parse_elems k (i + 1) off ;; Ok (VNil :: r) else  (* :631 *)
        let off := go_align (off + 4) elemAlign - 4 in                        (* :637 *)
        if fixed then
          if off + elemLen >? len raw then Ok [] else                         (* :639 *)
          e <- slice raw off (off + elemLen) ;;                               (* :642 *)
          v <- DecodeType (vis e) elemOid ;;
          r <- parse_elems k (i + 1) (off + elemLen) ;; Ok (v :: r)           (* :643 *)
        else
          if off >=? len raw then Ok [] else                                  (* :645 *)
          hdr <- idx raw off ;;                                               (* :648 *)
          if Z.land hdr 1 =? 1 then
            let n := hdr / 2 in                                               (* :649  hdr >> 1 *)
            if (n <? 1) || (off + n >? len raw) then Ok [] else               (* :650 *)
            e <- slice raw (off + 1) (off + n) ;;                             (* :653 *)
            v <- DecodeType (vis e) elemOid ;;
            r <- parse_elems k (i + 1) (off + n) ;; Ok (v :: r)               (* :654 *)
          else
            if off + 4 >? len raw then Ok [] else                             (* :656 *)
            w <- u32 raw off ;;                                               (* :659 *)
            let n := w / 4 in                                                 (*       >> 2 *)
            if (n <? 4) || (off + n >? len raw) then Ok [] else               (* :660 *)
            e <- slice raw (off + 4) (off + n) ;;                             (* :663 *)
            v <- DecodeType (vis e) elemOid ;;
            r <- parse_elems k (i + 1) (off + n) ;; Ok (v :: r)               (* :664 *)
      end.
  End Loop.

  (* types.go:626-669.  make([]interface{}, 0, count) panics for a negative count; the requested
     capacity is [count] (bounded by C07_alloc_bound). *)
  Definition parseArrayElements (raw : gslice) (off count elemOid elemLen : Z) (fixed : bool)
             (nulls : option gslice) : res gval :=
    let elemAlign := arrayElemAlign elemOid in                                (* :627 *)
    if count <? 0 then Panic else                                             (* :628 *)
    l <- parse_elems raw elemOid elemLen fixed nulls elemAlign (Z.to_nat count) 0 off ;;
    Ok (VList l).

  (* types.go:572-616 *)
  Definition decodeArray (raw : gslice) (elemOid : Z) : res gval :=
    h <- decodeArray_header raw ;;
    match h with
    | HNil => Ok VListNil
    | HEmpty => Ok (VList [])
    | HElems dataStart count nulls =>
      let '(elemLen, fixed) := match lookup elemOid fixedLengths with     (* :614  v, ok := m[k] *)
                               | Some l => (l, true) | None => (0, false) end in
      parseArrayElements raw dataStart count elemOid elemLen fixed nulls      (* :615 *)
    end.

  (* types.go:162-171, the array branch of DecodeType.  None = "not an array type": the value goes
     to decodeScalar, which is C04's. *)
  Definition DecodeType_array (data : gslice) (oid : Z) : res (option gval) :=
    if len data =? 0 then Ok (Some VNil) else                                 (* :163 *)
    match lookup oid arrayElemTypes with                                      (* :166 *)
    | Some elemOid => v <- decodeArray data elemOid ;; Ok (Some v)
    | None => Ok None
    end.
End Array.
