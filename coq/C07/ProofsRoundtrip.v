(* C07: decodeArray / DecodeType on the reference image of a well-formed array value. *)
Require Import PG.Base.Bytes PG.Base.GoSlice PG.Base.Value PG.C07.Model PG.C07.Spec.
Require Import PG.C07.ProofsTables PG.C07.ProofsLoop.

(* ---------- int32 fields ---------- *)
Lemma i32_sub s off x : 0 <= off -> off + 4 <= len s -> - 2 ^ 31 <= x < 2 ^ 31 ->
  sub (vis s) off (off + 4) = enc_i32 x -> i32 s off = Ok x.
Proof.
  intros H0 H1 Hx Hs. unfold i32, u32.
  rewrite (uN_sub 4 s off (wrap 32 x)); auto.
  - cbn [bind]. unfold sint32. rewrite sint_wrap; [reflexivity|lia|].
    change (32 - 1) with 31. exact Hx.
  - change (8 * Z.of_nat 4) with 32. unfold wrap. apply Z.mod_pos_bound. reflexivity.
Qed.

(* ---------- dimension words ---------- *)
Definition enc_dims (f : Z * Z -> Z) (ds : list (Z * Z)) : bytes := concat (map (fun d => enc_i32 (f d)) ds).
Lemma enc_dims_len f ds : blen (enc_dims f ds) = 4 * Z.of_nat (length ds).
Proof.
  unfold enc_dims. induction ds as [|d ds IH]; [reflexivity|]. cbn [map concat length]. bl. rewrite IH. lia.
Qed.
#[export] Hint Rewrite enc_dims_len : blen.

Lemma dims_prod_pos ds : Forall (fun d : Z * Z => 1 <= fst d) ds -> 1 <= dims_prod ds.
Proof.
  induction 1 as [|d ds Hd _ IH]; cbn [dims_prod fold_right]; [lia|]. fold (dims_prod ds). nia.
Qed.

Lemma dims_total_at : forall ds s i acc,
  Forall (fun d : Z * Z => 1 <= fst d) ds -> 0 <= i -> 1 <= acc -> acc * dims_prod ds < 2 ^ 31 ->
  sub (vis s) (12 + 4 * i) (12 + 4 * i + 4 * Z.of_nat (length ds)) = enc_dims fst ds ->
  12 + 4 * i + 4 * Z.of_nat (length ds) <= len s ->
  dims_total (length ds) s i acc = Ok (acc * dims_prod ds).
Proof.
  induction ds as [|d ds IH]; intros s i acc Hf Hi Hacc Hlt Hsub Hlen.
  - cbn [length dims_total dims_prod fold_right]. f_equal. lia.
  - inversion Hf as [|x xs Hd Hf']; subst x xs.
    pose proof (dims_prod_pos ds Hf') as Hp.
    cbn [dims_prod fold_right] in Hlt |- *. fold (dims_prod ds) in Hlt |- *.
    cbn [length dims_total]. cbn [length] in Hsub, Hlen.
    set (dx := fst d) in *. set (P := dims_prod ds) in *.
    assert (Hx1 : dx * 1 <= dx * P) by (apply Z.mul_le_mono_nonneg_l; lia).
    assert (Hx2 : 1 * (dx * P) <= acc * (dx * P)) by (apply Z.mul_le_mono_nonneg_r; lia).
    assert (Hx3 : acc * dx * 1 <= acc * dx * P) by (apply Z.mul_le_mono_nonneg_l; [apply Z.mul_nonneg_nonneg|]; lia).
    assert (Hx4 : 1 * 1 <= acc * dx) by (apply Z.mul_le_mono_nonneg; lia).
    assert (Hassoc : acc * dx * P = acc * (dx * P)) by ring.
    assert (Hd31 : dx < 2 ^ 31) by lia.
    assert (Hacc' : acc * dx < 2 ^ 31) by lia.
    assert (Hsplit : forall x y, 0 <= x -> x <= y -> y <= 4 * Z.of_nat (S (length ds)) ->
              sub (vis s) (12 + 4 * i + x) (12 + 4 * i + y) = sub (enc_dims fst (d :: ds)) x y).
    { intros x y Hx Hxy Hy. rewrite <- Hsub. rewrite sub_sub by lia. reflexivity. }
    replace (12 + i * 4) with (12 + 4 * i) by lia.
    rewrite (i32_sub s (12 + 4 * i) dx); try lia.
    2:{ rewrite <- (Z.add_0_r (12 + 4 * i)) at 1. rewrite Hsplit by lia.
        unfold enc_dims. cbn [map concat]. rewrite sub_app_l by (bl; lia). apply sub_exact; bl; lia. }
    cbn [bind].
    replace (sint32 (wrap 32 (acc * dx))) with (acc * dx).
    2:{ unfold sint32. rewrite sint_wrap; [reflexivity|lia|]. change (32 - 1) with 31. lia. }
    rewrite (IH s (i + 1) (acc * dx)); auto; try lia.
    + f_equal. fold P. ring.
    + replace (12 + 4 * (i + 1)) with (12 + 4 * i + 4) by lia.
      replace (12 + 4 * i + 4 + 4 * Z.of_nat (length ds)) with (12 + 4 * i + 4 * Z.of_nat (S (length ds))) by lia.
      rewrite Hsplit by lia. unfold enc_dims. cbn [map concat].
      rewrite sub_app_r by (bl; lia). apply sub_exact; bl.
      * lia.
      * fold (enc_dims fst ds). bl. lia.
Qed.

(* ---------- null bitmap ---------- *)
Lemma bm_bit_01 es k : bm_bit es k = 0 \/ bm_bit es k = 1.
Proof. unfold bm_bit. destruct (nth_error es (Z.to_nat k)) as [[e|]|]; auto. Qed.

Lemma land_bits b0 b1 b2 b3 b4 b5 b6 b7 j :
  (b0 = 0 \/ b0 = 1) -> (b1 = 0 \/ b1 = 1) -> (b2 = 0 \/ b2 = 1) -> (b3 = 0 \/ b3 = 1) ->
  (b4 = 0 \/ b4 = 1) -> (b5 = 0 \/ b5 = 1) -> (b6 = 0 \/ b6 = 1) -> (b7 = 0 \/ b7 = 1) ->
  0 <= j < 8 ->
  (Z.land (b0 + 2 * b1 + 4 * b2 + 8 * b3 + 16 * b4 + 32 * b5 + 64 * b6 + 128 * b7) (Z.shiftl 1 j) =? 0)
  = (nth (Z.to_nat j) [b0; b1; b2; b3; b4; b5; b6; b7] 0 =? 0).
Proof.
  intros H0 H1 H2 H3 H4 H5 H6 H7 Hj.
  assert (Hc : j = 0 \/ j = 1 \/ j = 2 \/ j = 3 \/ j = 4 \/ j = 5 \/ j = 6 \/ j = 7) by lia.
  destruct H0 as [-> | ->], H1 as [-> | ->], H2 as [-> | ->], H3 as [-> | ->],
           H4 as [-> | ->], H5 as [-> | ->], H6 as [-> | ->], H7 as [-> | ->];
    destruct Hc as [-> | [-> | [-> | [-> | [-> | [-> | [-> | ->]]]]]]]; reflexivity.
Qed.

Lemma bm_byte_bit es q j : 0 <= j < 8 ->
  (Z.land (bm_byte es q) (Z.shiftl 1 j) =? 0) = (bm_bit es (8 * q + j) =? 0).
Proof.
  intros Hj. unfold bm_byte.
  rewrite land_bits by (auto using bm_bit_01).
  assert (Hc : j = 0 \/ j = 1 \/ j = 2 \/ j = 3 \/ j = 4 \/ j = 5 \/ j = 6 \/ j = 7) by lia.
  destruct Hc as [-> | [-> | [-> | [-> | [-> | [-> | [-> | ->]]]]]]]; cbn [Z.to_nat Pos.to_nat Pos.iter_op Nat.add nth];
    rewrite ?Z.add_0_r; reflexivity.
Qed.

Lemma bm_byte_range es q : 0 <= bm_byte es q < 256.
Proof.
  unfold bm_byte.
  pose proof (bm_bit_01 es (8 * q)). pose proof (bm_bit_01 es (8 * q + 1)).
  pose proof (bm_bit_01 es (8 * q + 2)). pose proof (bm_bit_01 es (8 * q + 3)).
  pose proof (bm_bit_01 es (8 * q + 4)). pose proof (bm_bit_01 es (8 * q + 5)).
  pose proof (bm_bit_01 es (8 * q + 6)). pose proof (bm_bit_01 es (8 * q + 7)). lia.
Qed.

Lemma bitmap_len_nonneg n : 0 <= n -> 0 <= bitmap_len n.
Proof. unfold bitmap_len. lia. Qed.

Lemma enc_bitmap_len es : blen (enc_bitmap es) = bitmap_len (Z.of_nat (length es)).
Proof.
  unfold enc_bitmap, blen. rewrite map_length, seq_length.
  pose proof (bitmap_len_nonneg (Z.of_nat (length es))). lia.
Qed.
#[export] Hint Rewrite enc_bitmap_len : blen.

Lemma enc_bitmap_byte es q : 0 <= q < bitmap_len (Z.of_nat (length es)) ->
  byte_at (enc_bitmap es) q = bm_byte es q.
Proof.
  intros Hq. unfold byte_at, enc_bitmap.
  set (N := Z.to_nat (bitmap_len (Z.of_nat (length es)))).
  assert (Hn : (Z.to_nat q < N)%nat) by (unfold N; lia).
  assert (E : nth_error (seq 0 N) (Z.to_nat q) = Some (Z.to_nat q)).
  { rewrite (nth_error_nth' _ 0%nat) by (rewrite seq_length; exact Hn). rewrite seq_nth by exact Hn. reflexivity. }
  apply (map_nth_error (fun k => z2b (bm_byte es (Z.of_nat k)))) in E.
  rewrite (nth_error_nth _ _ x00 E). rewrite b2z_z2b. rewrite Z2Nat.id by lia.
  apply Z.mod_small. apply bm_byte_range.
Qed.

Lemma bitmap_nulls_ok nb es :
  vis nb = enc_bitmap es -> nulls_ok (Some nb) es 0.
Proof.
  intros Hv j o Hj. cbn [nulls_ok]. rewrite Z.add_0_l.
  assert (Hlt : (j < length es)%nat) by (apply nth_error_Some; congruence).
  assert (Hlen : len nb = bitmap_len (Z.of_nat (length es))) by (unfold len; rewrite Hv; bl; reflexivity).
  assert (Hq : 0 <= Z.of_nat j / 8 < bitmap_len (Z.of_nat (length es))) by (unfold bitmap_len; lia).
  split; [lia|].
  rewrite Hv, enc_bitmap_byte by exact Hq.
  rewrite bm_byte_bit by lia.
  replace (8 * (Z.of_nat j / 8) + Z.of_nat j mod 8) with (Z.of_nat j) by lia.
  unfold bm_bit. rewrite Nat2Z.id, Hj. destruct o; reflexivity.
Qed.

Lemma nonull_nulls_ok es : ~ In None es -> nulls_ok None es 0.
Proof.
  intros H j o Hj. apply nth_error_In in Hj. destruct o; [reflexivity|]. contradiction.
Qed.

(* ---------- sizes ---------- *)
Lemma enc_items_count tl al es : 0 < al -> Forall (wf_opt tl) es -> ~ In None es ->
  Z.of_nat (length es) <= blen (enc_items al es).
Proof.
  intros Hal Hf Hn. induction Hf as [|o es Ho _ IH]; [cbn; lia|].
  destruct o as [e|]; [|exfalso; apply Hn; left; reflexivity].
  cbn [enc_items length]. bl. rewrite pad_to_len by lia.
  pose proof (enc_elem_pos tl e Ho). pose proof (align_ge (blen (enc_elem e)) al Hal).
  assert (Z.of_nat (length es) <= blen (enc_items al es)) by (apply IH; intros H'; apply Hn; right; exact H').
  lia.
Qed.

(* ---------- the header of a non-empty array ---------- *)
Section Image.
  Variables (a : arr) (t : bytes).
  Hypothesis Hwf : wf_arr a.
  Let s := {| vis := enc_array a; tail := t |}.
  Let items := enc_items (t_align (a_ty a)) (a_elems a).
  Let nd := ndim a.
  Let n := nitems a.

  Lemma nd_range : 0 <= nd <= 6.
  Proof. destruct Hwf as (_ & H & _). unfold nd, ndim in *. lia. Qed.

  Lemma overhead_facts :
    16 + 8 * nd <= overhead a /\ overhead a mod 8 = 0 /\ overhead a < 16 + 8 * nd + bitmap_len n + 8 /\
    (a_hasnull a = true -> 16 + 8 * nd + bitmap_len n <= overhead a) /\
    (a_hasnull a = false -> overhead a = 16 + 8 * nd).
  Proof.
    unfold overhead, hdr_end. change (ndim a) with nd. change (nitems a) with n. pose proof nd_range.
    assert (0 <= n) by (unfold n, nitems; lia).
    pose proof (bitmap_len_nonneg n ltac:(lia)).
    destruct (a_hasnull a).
    - pose proof (align_ge (16 + 8 * nd + bitmap_len n) 8 ltac:(lia)).
      pose proof (align_lt (16 + 8 * nd + bitmap_len n) 8 ltac:(lia)).
      pose proof (align_mod (16 + 8 * nd + bitmap_len n) 8 ltac:(lia)).
      repeat split; try lia; try discriminate.
    - repeat split; try lia; try discriminate.
  Qed.

  (* normalise every spelling of the two counts *)
  Ltac norm :=
    unfold hdr_end;
    change (ndim a) with nd; change (nitems a) with n;
    change (Z.of_nat (length (a_dims a))) with nd;
    change (Z.of_nat (length (a_elems a))) with n;
    change (Z.of_nat 4) with 4.

  Lemma image_len : len s = overhead a - 4 + blen items.
  Proof.
    unfold s, len. cbn [vis]. unfold enc_array.
    change (enc_items (t_align (a_ty a)) (a_elems a)) with items.
    fold (enc_dims fst (a_dims a)). fold (enc_dims snd (a_dims a)).
    pose proof overhead_facts as (O1 & O2 & O3 & O4 & O5). pose proof nd_range as Hndr.
    assert (0 <= n) by (unfold n, nitems; lia).
    destruct (a_hasnull a) eqn:Hn; bl; norm.
    - specialize (O4 eq_refl). rewrite zeros_len by lia. lia.
    - specialize (O5 eq_refl). lia.
  Qed.

  Lemma items_at :
    sub (vis s) (overhead a - 4) (overhead a - 4 + blen items) = items.
  Proof.
    unfold s. cbn [vis]. unfold enc_array.
    change (enc_items (t_align (a_ty a)) (a_elems a)) with items.
    fold (enc_dims fst (a_dims a)). fold (enc_dims snd (a_dims a)).
    pose proof overhead_facts as (O1 & O2 & O3 & O4 & O5). pose proof nd_range as Hndr.
    assert (0 <= n) by (unfold n, nitems; lia).
    destruct (a_hasnull a) eqn:Hn.
    - specialize (O4 eq_refl). norm.
      rewrite <- ?app_assoc.
      repeat (rewrite sub_app_r by (bl; norm; rewrite ?zeros_len by lia; lia); bl; norm; rewrite ?zeros_len by lia).
      apply sub_exact; lia.
    - specialize (O5 eq_refl). norm. cbn [app].
      repeat (rewrite sub_app_r by (bl; norm; lia); bl; norm).
      apply sub_exact; lia.
  Qed.

  Hypothesis Hne : a_dims a <> [].

  Lemma n_facts : n = dims_prod (a_dims a) /\ 1 <= n < 2 ^ 31 /\ 1 <= nd.
  Proof.
    destruct Hwf as (_ & _ & Hd & _ & _ & Hp & Hlt & _). specialize (Hp Hne). fold n in Hp, Hlt.
    assert (Forall (fun d : Z * Z => 1 <= fst d) (a_dims a)) as Hd1.
    { eapply Forall_impl; [|exact Hd]. cbn. intros ? [? _]. assumption. }
    pose proof (dims_prod_pos _ Hd1). repeat split; try lia.
    unfold nd, ndim. destruct (a_dims a); [contradiction|cbn [length]; lia].
  Qed.

  Lemma count_le_8len : n <= 8 * len s.
  Proof.
    rewrite image_len. pose proof overhead_facts as (O1 & O2 & O3 & O4 & O5).
    pose proof n_facts as (_ & Hn & Hnd).
    destruct Hwf as (Hty & _ & _ & Hel & _ & _ & _ & Hnull).
    destruct (row_facts _ Hty) as (_ & _ & _ & _ & Hal).
    assert (Hal0 : 0 < t_align (a_ty a)) by lia.
    pose proof (blen_nonneg items).
    destruct (a_hasnull a) eqn:Hh.
    - specialize (O4 eq_refl). unfold bitmap_len in *. lia.
    - assert (Hnn : ~ In None (a_elems a)) by (intros Hi; apply Hnull in Hi; congruence).
      pose proof (enc_items_count _ _ _ Hal0 Hel Hnn) as Hc.
      change (enc_items (t_align (a_ty a)) (a_elems a)) with items in Hc.
      change (Z.of_nat (length (a_elems a))) with n in Hc. lia.
  Qed.

  Lemma header_ok :
    exists nulls,
      decodeArray_header s = Ok (HElems (overhead a - 4) n nulls) /\ nulls_ok nulls (a_elems a) 0.
  Proof.
    pose proof overhead_facts as (O1 & O2 & O3 & O4 & O5). pose proof n_facts as (Hprod & Hn & Hnd1).
    pose proof nd_range as Hnd. pose proof image_len as L. pose proof count_le_8len as C8.
    pose proof (blen_nonneg items) as Hi0.
    destruct Hwf as (Hty & _ & Hd & Hel & _ & _ & _ & Hnull).
    assert (Hd1 : Forall (fun d : Z * Z => 1 <= fst d) (a_dims a)).
    { eapply Forall_impl; [|exact Hd]. cbn. intros ? [? _]. assumption. }
    assert (Hbl : 0 <= bitmap_len n) by (apply bitmap_len_nonneg; lia).
    assert (Hdo : 0 <= dataoffset a < 2 ^ 31).
    { unfold dataoffset. destruct (a_hasnull a); [|lia]. unfold bitmap_len in *. lia. }
    (* positions of the header fields *)
    assert (V : vis s = enc_i32 nd ++ enc_i32 (dataoffset a) ++ le_enc 4 (t_elem (a_ty a)) ++
                        enc_dims fst (a_dims a) ++ enc_dims snd (a_dims a) ++
                        (if a_hasnull a then enc_bitmap (a_elems a) ++ zeros (overhead a - (16 + 8 * nd + bitmap_len n)) else []) ++
                        items) by reflexivity.
    assert (Hlen12 : 12 + 8 * nd <= len s) by lia.
    assert (F0 : i32 s 0 = Ok nd).
    { apply i32_sub; try lia. rewrite V. ssub. }
    assert (F4 : i32 s 4 = Ok (dataoffset a)).
    { apply i32_sub; try lia. rewrite V. ssub. }
    assert (FD : dims_total (Z.to_nat nd) s 0 1 = Ok n).
    { unfold nd, ndim. rewrite Nat2Z.id. rewrite (dims_total_at (a_dims a) s 0 1); auto; try lia.
      - f_equal. lia.
      - norm. rewrite V.
        repeat (rewrite sub_app_r by (bl; norm; lia); bl; norm).
        rewrite sub_app_l by (bl; norm; lia). apply sub_exact; bl; norm; lia.
      - norm. lia. }
    unfold decodeArray_header.
    destruct (len s <? 12) eqn:E; [lia|]. clear E.
    rewrite F0. cbn [bind].
    destruct (nd =? 0) eqn:E; [lia|]. clear E.
    destruct ((nd <? 0) || (nd >? 6) || (len s <? 12 + nd * 8)) eqn:E; [lia|]. clear E.
    rewrite F4. cbn [bind]. rewrite FD. cbn [bind].
    destruct (n <=? 0) eqn:E; [lia|]. clear E.
    destruct (n >? 8 * len s) eqn:E; [lia|]. clear E.
    unfold dataoffset in *. destruct (a_hasnull a) eqn:Hh.
    - (* with a null bitmap *)
      specialize (O4 eq_refl).
      destruct (overhead a >? 0) eqn:E; [|lia]. clear E.
      fold (bitmap_len n).
      destruct ((12 + nd * 8 + bitmap_len n >? len s) || (overhead a - 4 <? 12 + nd * 8 + bitmap_len n)) eqn:E; [lia|]. clear E.
      destruct (slice_ok s (12 + nd * 8) (12 + nd * 8 + bitmap_len n)) as [nb Hnb]; try lia.
      { pose proof (len_le_cap s). lia. }
      rewrite Hnb. cbn [bind]. exists (Some nb). split; [reflexivity|].
      apply bitmap_nulls_ok. rewrite (slice_vis_within _ _ _ _ Hnb) by lia.
      rewrite V. rewrite <- ?app_assoc.
      repeat (rewrite sub_app_r by (bl; norm; lia); bl; norm).
      rewrite sub_app_l by (bl; norm; lia).
      apply sub_exact; bl; norm; lia.
    - (* without *)
      specialize (O5 eq_refl).
      destruct (0 >? 0) eqn:E; [lia|]. clear E.
      exists None. split.
      + do 2 f_equal. lia.
      + apply nonull_nulls_ok. intros Hi. apply Hnull in Hi. congruence.
  Qed.
End Image.

(* ---------- the theorem ---------- *)
Section Roundtrip.
  Variable DecodeType : bytes -> Z -> res gval.

  Lemma decodeArray_roundtrip a t :
    wf_arr a ->
    decodeArray DecodeType {| vis := enc_array a; tail := t |} (t_elem (a_ty a)) =
    (l <- exp_elems DecodeType (t_elem (a_ty a)) (a_elems a) ;; Ok (VList l)).
  Proof.
    intros Hwf. pose proof Hwf as (Hty & Hnd & Hd & Hel & Hemp & Hprod & Hlt & Hnull).
    destruct (row_facts _ Hty) as (Harr & Hfl & Hal & Htl & Hav).
    unfold decodeArray.
    destruct (a_dims a) as [|d0 ds] eqn:Hdims.
    - (* the empty array *)
      destruct (Hemp eq_refl) as [He Hh].
      assert (V : enc_array a = enc_i32 0 ++ enc_i32 0 ++ le_enc 4 (t_elem (a_ty a))).
      { unfold enc_array, ndim, dataoffset. rewrite Hdims, He, Hh. cbn [length map concat enc_items app Z.of_nat].
        rewrite !app_nil_r. reflexivity. }
      unfold decodeArray_header.
      assert (L : len {| vis := enc_array a; tail := t |} = 12) by (unfold len; cbn [vis]; rewrite V; bl; reflexivity).
      rewrite L. change (12 <? 12) with false. cbv iota.
      rewrite (i32_sub _ 0 0); try lia.
      2:{ cbn [vis]. rewrite V. ssub. }
      cbn [bind]. change (0 =? 0) with true. cbv iota. cbn [bind].
      rewrite He. reflexivity.
    - assert (Hne : a_dims a <> []) by (rewrite Hdims; discriminate).
      destruct (header_ok a t Hwf Hne) as (nulls & Hh & Hno).
      rewrite Hh. cbn [bind].
      pose proof (n_facts a Hwf Hne) as (_ & Hn & _).
      pose proof (overhead_facts a Hwf) as (O1 & O2 & O3).
      pose proof (image_len a t Hwf) as L. pose proof (items_at a t Hwf) as IA.
      rewrite Hfl.
      set (s := {| vis := enc_array a; tail := t |}) in *.
      assert (Hgo : forall elemLen fixed,
                (t_len (a_ty a) = -1 /\ fixed = false) \/ (0 < t_len (a_ty a) /\ fixed = true /\ elemLen = t_len (a_ty a)) ->
                parseArrayElements DecodeType s (overhead a - 4) (nitems a) (t_elem (a_ty a)) elemLen fixed nulls =
                (l <- exp_elems DecodeType (t_elem (a_ty a)) (a_elems a) ;; Ok (VList l))).
      { intros elemLen fixed Hfx. unfold parseArrayElements.
        destruct (nitems a <? 0) eqn:E; [lia|]. clear E.
        unfold nitems at 1. rewrite Nat2Z.id. rewrite Hal.
        rewrite (parse_elems_at DecodeType s (t_elem (a_ty a)) elemLen fixed nulls (t_align (a_ty a)) (t_len (a_ty a))
                   Hav Hfx (a_elems a) 0 (overhead a - 4) (overhead a - 4)); auto; try lia.
        - unfold hdr_end in O1. unfold ndim in O1. lia.
        - replace (overhead a - 4 + 4) with (overhead a) by lia.
          rewrite align_id; [lia|lia|].
          destruct Hav as [-> | [-> | [-> | ->]]]; lia. }
      destruct (0 <? t_len (a_ty a)) eqn:E.
      + apply Hgo. right. repeat split; lia.
      + apply Hgo. left. split; [lia|reflexivity].
  Qed.

  Theorem DecodeType_array_roundtrip a t :
    wf_arr a ->
    DecodeType_array DecodeType {| vis := enc_array a; tail := t |} (t_arr (a_ty a)) = expected DecodeType a.
  Proof.
    intros Hwf. pose proof Hwf as (Hty & _).
    destruct (row_facts _ Hty) as (Harr & _).
    unfold DecodeType_array, expected. rewrite Harr.
    assert (L : 12 <= len {| vis := enc_array a; tail := t |}).
    { unfold len. cbn [vis]. unfold enc_array. bl.
      repeat match goal with
             | |- context [blen ?x] =>
               lazymatch goal with
               | H : 0 <= blen x |- _ => fail
               | _ => pose proof (blen_nonneg x)
               end
             end.
      lia. }
    destruct (len _ =? 0) eqn:E; [lia|]. clear E.
    rewrite decodeArray_roundtrip by exact Hwf.
    destruct (exp_elems DecodeType (t_elem (a_ty a)) (a_elems a)); reflexivity.
  Qed.
End Roundtrip.

(* the payload is the datum minus its 4-byte varlena header *)
Lemma payload_of_datum a : skipn 4 (enc_array_datum a) = enc_array a.
Proof. unfold enc_array_datum. cbn [le_enc app skipn]. reflexivity. Qed.
