(* C07: the array decoder as it was BEFORE the fix: commits (pgdump/types.go of branch main,
   lines 561-625), kept only to state what was wrong (defects D23, D24, D25, D32) as theorems with
   concrete witnesses.  Not extracted, not part of the correspondence run (that code is gone).
   int32 arithmetic of the bitmap bounds is modelled without wrap-around: the witnesses below
   stay far from it. *)
Require Import PG.Base.Bytes PG.Base.GoSlice PG.Base.Value PG.C07.Model PG.C07.Spec.

(* fixedLengths without the later `OidName: 64` *)
Definition fixedLengths_old : list (Z * Z) := removelast fixedLengths.

Section Historic.
  Variable DecodeType : bytes -> Z -> res gval.
  Section Loop.
    Variables (raw : gslice) (elemOid elemLen : Z) (fixed : bool) (nulls : option gslice).
    Fixpoint parse_elems_old (n : nat) (i off : Z) : res (list gval) :=
      match n with
      | O => Ok []
      | S k =>
        isnull <- match nulls with
                  | None => Ok false
                  | Some nb => b <- idx nb (i / 8) ;; Ok (Z.land b (Z.shiftl 1 (i mod 8)) =? 0)
                  end ;;
        if isnull then r <- parse_elems_old k (i + 1) off ;; Ok (VNil :: r) else
        if fixed then
          if off + elemLen >? len raw then Ok [] else
          e <- slice raw off (off + elemLen) ;;
          v <- DecodeType (vis e) elemOid ;;
          r <- parse_elems_old k (i + 1) (off + elemLen) ;; Ok (v :: r)     (* stride = size *)
        else
          let off := if i >? 0 then go_align off 4 else off in              (* always 4, payload-relative *)
          if off >=? len raw then Ok [] else
          hdr <- idx raw off ;;
          if Z.land hdr 1 =? 1 then
            let n := hdr / 2 in
            e <- slice raw (off + 1) (off + n) ;;                           (* no check of n *)
            v <- DecodeType (vis e) elemOid ;;
            r <- parse_elems_old k (i + 1) (off + n) ;; Ok (v :: r)
          else
            if off + 4 >? len raw then Ok [] else
            w <- u32 raw off ;;
            let n := w / 4 in
            e <- slice raw (off + 4) (off + n) ;;
            v <- DecodeType (vis e) elemOid ;;
            r <- parse_elems_old k (i + 1) (off + n) ;; Ok (v :: r)
      end.
  End Loop.

  Definition decodeArray_old (raw : gslice) (elemOid : Z) : res gval :=
    if len raw <? 20 then Ok VListNil else
    ndim <- i32 raw 0 ;;
    if (ndim <=? 0) || (ndim >? 6) then Ok VListNil else        (* ndim = 0: nil slice *)
    dataoff <- i32 raw 4 ;;
    total <- dims_total (Z.to_nat ndim) raw 0 1 ;;              (* reads 12+4i unguarded *)
    if total <=? 0 then Ok VListNil else
    let dataStart := 12 + ndim * 8 in
    '(dataStart, nulls) <-
      (if dataoff >? 0
       then nb <- slice raw dataStart (dataStart + (total + 7) / 8) ;; Ok (dataoff, Some nb)   (* not dataoff-4 *)
       else Ok (dataStart, None)) ;;
    let '(elemLen, fixed) := match lookup elemOid fixedLengths_old with
                             | Some l => (l, true) | None => (0, false) end in
    l <- parse_elems_old raw elemOid elemLen fixed nulls (Z.to_nat total) 0 dataStart ;;
    Ok (VList l).

  Definition DecodeType_array_old (data : gslice) (oid : Z) : res (option gval) :=
    if len data =? 0 then Ok (Some VNil) else
    match lookup oid arrayElemTypes with
    | Some elemOid => v <- decodeArray_old data elemOid ;; Ok (Some v)
    | None => Ok None
    end.
End Historic.

(* a concrete, total element decoder for the witnesses: the element's bytes themselves *)
Definition dt_id (b : bytes) (_ : Z) : res gval := Ok (VStr b).
