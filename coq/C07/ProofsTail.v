(* C07: the array layer never looks beyond len(raw): its result is the same whatever bytes (and
   however many) lie between len and cap.  (Go checks a slice's upper bound against cap, so an
   unguarded raw[a:b] with b > len would silently read the neighbouring memory — D32.) *)
Require Import PG.Base.Bytes PG.Base.GoSlice PG.Base.Value PG.C07.Model PG.C07.Spec.

Definition rel_slice (r1 r2 : res gslice) : Prop :=
  match r1, r2 with
  | Ok e1, Ok e2 => vis e1 = vis e2
  | Panic, Panic => True
  | _, _ => False
  end.

(* a slice expression whose upper bound is within len *)
Lemma slice_within v t1 t2 lo hi : hi <= blen v ->
  rel_slice (slice {| vis := v; tail := t1 |} lo hi) (slice {| vis := v; tail := t2 |} lo hi).
Proof.
  intros Hhi. unfold slice, cap, mem. cbn [vis tail].
  pose proof (blen_nonneg t1). pose proof (blen_nonneg t2).
  destruct ((0 <=? lo) && (lo <=? hi) && (hi <=? blen v + blen t1)) eqn:E1;
    destruct ((0 <=? lo) && (lo <=? hi) && (hi <=? blen v + blen t2)) eqn:E2; cbn [rel_slice vis]; try lia; auto.
  rewrite !sub_app_l by lia. reflexivity.
Qed.

Lemma idx_tail v t1 t2 i : idx {| vis := v; tail := t1 |} i = idx {| vis := v; tail := t2 |} i.
Proof. reflexivity. Qed.
Lemma uN_tail n v t1 t2 off : uN n {| vis := v; tail := t1 |} off = uN n {| vis := v; tail := t2 |} off.
Proof. reflexivity. Qed.
Lemma i32_tail v t1 t2 off : i32 {| vis := v; tail := t1 |} off = i32 {| vis := v; tail := t2 |} off.
Proof. reflexivity. Qed.
Lemma len_tail v t1 t2 : len {| vis := v; tail := t1 |} = len {| vis := v; tail := t2 |}.
Proof. reflexivity. Qed.

Definition same_vis (a b : option gslice) : Prop :=
  match a, b with
  | None, None => True
  | Some x, Some y => vis x = vis y
  | _, _ => False
  end.

Section Tail.
  Variable DecodeType : bytes -> Z -> res gval.
  Variables (v t1 t2 : bytes) (eoid elemLen : Z) (fixed : bool) (n1 n2 : option gslice) (al : Z).
  Hypothesis Hn : same_vis n1 n2.
  Let r1 := {| vis := v; tail := t1 |}.
  Let r2 := {| vis := v; tail := t2 |}.

  Lemma null_test_tail i :
    match n1 with
    | None => Ok false
    | Some nb => b <- idx nb (i / 8) ;; Ok (Z.land b (Z.shiftl 1 (i mod 8)) =? 0)
    end =
    match n2 with
    | None => Ok false
    | Some nb => b <- idx nb (i / 8) ;; Ok (Z.land b (Z.shiftl 1 (i mod 8)) =? 0)
    end.
  Proof.
    destruct n1 as [a|], n2 as [b|]; cbn [same_vis] in Hn; try contradiction; [|reflexivity].
    unfold idx, len. rewrite Hn. reflexivity.
  Qed.

  (* one guarded  DecodeType(raw[lo:hi], elemOid)  followed by the same continuation *)
  Lemma step_tail lo hi (k1 k2 : gval -> res (list gval)) :
    hi <= blen v -> (forall x, k1 x = k2 x) ->
    (e <- slice r1 lo hi ;; x <- DecodeType (vis e) eoid ;; k1 x) =
    (e <- slice r2 lo hi ;; x <- DecodeType (vis e) eoid ;; k2 x).
  Proof.
    intros Hhi Hk. pose proof (slice_within v t1 t2 lo hi Hhi) as R. fold r1 r2 in R.
    destruct (slice r1 lo hi) as [e1|], (slice r2 lo hi) as [e2|]; cbn [rel_slice] in R; try contradiction;
      cbn [bind]; [|reflexivity].
    rewrite R. destruct (DecodeType (vis e2) eoid); cbn [bind]; auto.
  Qed.

  Lemma parse_elems_tail : forall n i off,
    parse_elems DecodeType r1 eoid elemLen fixed n1 al n i off =
    parse_elems DecodeType r2 eoid elemLen fixed n2 al n i off.
  Proof.
    induction n as [|n IH]; intros i off; cbn [parse_elems]; [reflexivity|].
    rewrite null_test_tail.
    destruct (match n2 with
              | None => Ok false
              | Some nb => b <- idx nb (i / 8) ;; Ok (Z.land b (Z.shiftl 1 (i mod 8)) =? 0)
              end) as [isnull|]; cbn [bind]; [|reflexivity].
    destruct isnull; [rewrite IH; reflexivity|].
    set (p := go_align (off + 4) al - 4).
    change (len r1) with (blen v). change (len r2) with (blen v).
    destruct fixed.
    - destruct (p + elemLen >? blen v) eqn:E; [reflexivity|].
      apply step_tail; [lia|]. intros x. rewrite IH. reflexivity.
    - destruct (p >=? blen v) eqn:E; [reflexivity|].
      change (idx r1 p) with (idx r2 p). destruct (idx r2 p) as [hdr|]; cbn [bind]; [|reflexivity].
      destruct (Z.land hdr 1 =? 1).
      + destruct ((hdr / 2 <? 1) || (p + hdr / 2 >? blen v)) eqn:E2; [reflexivity|].
        apply step_tail; [lia|]. intros x. rewrite IH. reflexivity.
      + destruct (p + 4 >? blen v) eqn:E2; [reflexivity|].
        change (u32 r1 p) with (u32 r2 p). destruct (u32 r2 p) as [w|]; cbn [bind]; [|reflexivity].
        destruct ((w / 4 <? 4) || (p + w / 4 >? blen v)) eqn:E3; [reflexivity|].
        apply step_tail; [lia|]. intros x. rewrite IH. reflexivity.
  Qed.
End Tail.

Definition rel_hdr (h1 h2 : res hdr_result) : Prop :=
  match h1, h2 with
  | Ok HNil, Ok HNil | Ok HEmpty, Ok HEmpty | Panic, Panic => True
  | Ok (HElems d1 c1 n1), Ok (HElems d2 c2 n2) => d1 = d2 /\ c1 = c2 /\ same_vis n1 n2
  | _, _ => False
  end.

Lemma dims_total_tail : forall n v t1 t2 i acc,
  dims_total n {| vis := v; tail := t1 |} i acc = dims_total n {| vis := v; tail := t2 |} i acc.
Proof.
  induction n as [|n IH]; intros; cbn [dims_total]; [reflexivity|].
  rewrite (i32_tail v t1 t2). destruct (i32 _ _); cbn [bind]; [apply IH|reflexivity].
Qed.

Lemma header_tail v t1 t2 :
  rel_hdr (decodeArray_header {| vis := v; tail := t1 |}) (decodeArray_header {| vis := v; tail := t2 |}).
Proof.
  unfold decodeArray_header.
  rewrite (len_tail v t1 t2), (i32_tail v t1 t2 0), (i32_tail v t1 t2 4).
  set (r2 := {| vis := v; tail := t2 |}). change (len r2) with (blen v).
  destruct (blen v <? 12); [exact I|].
  destruct (i32 r2 0) as [nd|]; cbn [bind]; [|exact I].
  destruct (nd =? 0); [exact I|].
  destruct ((nd <? 0) || (nd >? 6) || (blen v <? 12 + nd * 8)); [exact I|].
  destruct (i32 r2 4) as [dataoff|]; cbn [bind]; [|exact I].
  rewrite (dims_total_tail _ v t1 t2). fold r2.
  destruct (dims_total (Z.to_nat nd) r2 0 1) as [total|]; cbn [bind]; [|exact I].
  destruct (total <=? 0); [exact I|].
  destruct (total >? 8 * blen v); [exact I|].
  destruct (dataoff >? 0).
  - destruct ((12 + nd * 8 + (total + 7) / 8 >? blen v) || (dataoff - 4 <? 12 + nd * 8 + (total + 7) / 8)) eqn:E; [exact I|].
    pose proof (slice_within v t1 t2 (12 + nd * 8) (12 + nd * 8 + (total + 7) / 8) ltac:(lia)) as R. fold r2 in R.
    destruct (slice {| vis := v; tail := t1 |} _ _) as [e1|], (slice r2 _ _) as [e2|];
      cbn [rel_slice] in R; try contradiction; cbn [bind rel_hdr same_vis]; auto.
  - cbn [rel_hdr same_vis]. auto.
Qed.

Theorem decodeArray_tail DecodeType v t1 t2 eoid :
  decodeArray DecodeType {| vis := v; tail := t1 |} eoid = decodeArray DecodeType {| vis := v; tail := t2 |} eoid.
Proof.
  unfold decodeArray. pose proof (header_tail v t1 t2) as R.
  destruct (decodeArray_header {| vis := v; tail := t1 |}) as [[| |d1 c1 n1]|],
           (decodeArray_header {| vis := v; tail := t2 |}) as [[| |d2 c2 n2]|];
    cbn [rel_hdr] in R; try contradiction; cbn [bind]; try reflexivity.
  destruct R as (-> & -> & Hn).
  destruct (match lookup eoid fixedLengths with Some l => (l, true) | None => (0, false) end) as [elemLen fixed].
  unfold parseArrayElements. destruct (c2 <? 0); [reflexivity|].
  rewrite (parse_elems_tail DecodeType v t1 t2 eoid elemLen fixed n1 n2 (arrayElemAlign eoid) Hn).
  reflexivity.
Qed.

Theorem DecodeType_array_tail DecodeType v t1 t2 oid :
  DecodeType_array DecodeType {| vis := v; tail := t1 |} oid =
  DecodeType_array DecodeType {| vis := v; tail := t2 |} oid.
Proof.
  unfold DecodeType_array. rewrite (len_tail v t1 t2).
  destruct (len _ =? 0); [reflexivity|].
  destruct (lookup oid arrayElemTypes); [|reflexivity].
  rewrite (decodeArray_tail DecodeType v t1 t2). reflexivity.
Qed.
