(* C15/Spec.v — what the property asks of search and secret scan, written without looking at the loops
   of the Go code: a cell matches iff one of its searchable texts matches; the result is the list of
   matching cells in database / table / row / column order, cut to MaxResults; the scan reports, for every
   cell, what the detectors that pass the keyword prefilter return, with the cell's coordinates. *)
Require Import PG.Base.Bytes PG.Base.Value PG.C15.Lib PG.C15.Types.

(* ---------- the order in which the cells of one row are reported ---------- *)
(* keep the first occurrence of every name *)
Fixpoint first_occ (l : list bytes) : list bytes :=
  match l with
  | [] => []
  | x :: t => x :: filter (fun y => negb (bytes_eqb y x)) (first_occ t)
  end.
(* declared columns that the row has, in declaration order; then the row's other keys ascending *)
Definition col_order (cols : list bytes) (r : row) : list bytes :=
  filter (has_key r) (first_occ cols) ++
  isort (filter (fun k => negb (memb k cols)) (map fst r)).

(* the cell (c) of row number i of table tn of database dbn holds v *)
Definition cell_at (d : DumpResult) (dbn tn : bytes) (i : Z) (c : bytes) (r : row) (v : gval) : Prop :=
  exists db t, In db d /\ d_name db = dbn /\ In t (d_tables db) /\ t_name t = tn /\
               0 <= i /\ nth_error (t_rows t) (Z.to_nat i) = Some r /\ row_find r c = Some v.

Section SearchSpec.
  Variable regex : Type.
  Variable compile : bytes -> option regex.
  Variable matches : regex -> bytes -> bool.
  Variable show : gval -> bytes.

  (* every text of a cell the search looks at: strings, []byte, the keys of JSON objects, everything
     nested in objects and arrays, the %v rendering of other scalars; nothing for NULL *)
  Fixpoint texts (v : gval) : list bytes :=
    match v with
    | VNil | VListNil => []
    | VStr s | VBytes s => [s]
    | VMap m => flat_map (fun p : bytes * gval => let (k, x) := p in k :: texts x) m
    | VList l => flat_map texts l
    | _ => [show v]
    end.
  Definition cell_matches (re : regex) (v : gval) : bool := existsb (matches re) (texts v).

  (* the same, as an inductive predicate (the wording of the property) *)
  Inductive Matches (re : regex) : gval -> Prop :=
  | MStr s : matches re s = true -> Matches re (VStr s)
  | MBytes s : matches re s = true -> Matches re (VBytes s)
  | MKey m k x : In (k, x) m -> matches re k = true -> Matches re (VMap m)
  | MVal m k x : In (k, x) m -> Matches re x -> Matches re (VMap m)
  | MElem l x : In x l -> Matches re x -> Matches re (VList l)
  | MScalar v : is_scalar v = true -> matches re (show v) = true -> Matches re v.

  Definition pattern_for (o : SearchOptions) : bytes :=
    if CaseSensitive o then Pattern o else ci_prefix_str ++ Pattern o.

  Definition hit (o : SearchOptions) (dbn tn : bytes) (i : Z) (r : row) (c : bytes) : SearchResult :=
    {| sr_database := dbn; sr_table := tn; sr_column := c; sr_rownum := i; sr_value := row_get r c;
       sr_row := if IncludeRow o then Some r else None |}.

  Definition row_hits re o dbn (t : TableDump) (ir : Z * row) : list SearchResult :=
    map (hit o dbn (t_name t) (fst ir) (snd ir))
        (filter (fun c => cell_matches re (row_get (snd ir) c)) (col_order (t_columns t) (snd ir))).
  Definition table_hits re o dbn (t : TableDump) : list SearchResult :=
    flat_map (row_hits re o dbn t) (indexed 0 (t_rows t)).
  Definition db_hits re o (db : DatabaseDump) : list SearchResult :=
    flat_map (table_hits re o (d_name db)) (d_tables db).
  Definition all_hits re o (d : DumpResult) : list SearchResult := flat_map (db_hits re o) d.

  Definition cut (max : Z) {A} (l : list A) : list A := if 0 <? max then firstn (Z.to_nat max) l else l.

  Definition expected_search (d : DumpResult) (o : SearchOptions) : serr + list SearchResult :=
    match compile (pattern_for o) with
    | None => inl EInvalidPattern
    | Some re => inr (cut (MaxResults o) (all_hits re o d))
    end.
End SearchSpec.

(* ---------- keyword prefilter: case-insensitive substring ---------- *)
Definition ascii_lower (c : byte) : Z := let z := b2z c in if (65 <=? z) && (z <=? 90) then z + 32 else z.
Fixpoint ci_prefix (k s : bytes) : bool :=
  match k, s with
  | [], _ => true
  | _ :: _, [] => false
  | a :: k', b :: s' => (ascii_lower a =? ascii_lower b) && ci_prefix k' s'
  end.
(* k occurs in s at some position, comparing ASCII letters without regard to case *)
Fixpoint ci_contains (s k : bytes) : bool :=
  ci_prefix k s || match s with [] => false | _ :: s' => ci_contains s' k end.

Section ScanSpec.
  Variable dres : Type.
  Variable show : gval -> bytes.
  Notation Detector := (Detector dres).
  Notation SecretFinding := (SecretFinding dres).

  (* a detector is consulted iff it has no keywords or one of them occurs (ignoring ASCII case) *)
  Definition prefilter (det : Detector) (s : bytes) : bool :=
    match Keywords det with [] => true | kws => existsb (ci_contains s) kws end.
  Definition det_results (det : Detector) (s : bytes) : list dres :=
    if prefilter det s then match FromData det s with Some l => l | None => [] end else [].
  (* strings shorter than 8 bytes are not scanned *)
  Definition cell_results (dets : list Detector) (s : bytes) : list dres :=
    if blen s <? 8 then [] else flat_map (fun det => det_results det s) dets.

  Definition finding (dbn tn c : bytes) (i : Z) (x : dres) : SecretFinding :=
    {| f_database := dbn; f_table := tn; f_column := c; f_rowindex := i; f_result := x |}.

  Definition row_findings dets dbn (t : TableDump) (ir : Z * row) : list SecretFinding :=
    flat_map (fun c => map (finding dbn (t_name t) c (fst ir)) (cell_results dets (show (row_get (snd ir) c))))
             (col_order (t_columns t) (snd ir)).
  Definition table_findings dets dbn (t : TableDump) : list SecretFinding :=
    flat_map (row_findings dets dbn t) (indexed 0 (t_rows t)).
  Definition db_findings dets (db : DatabaseDump) : list SecretFinding :=
    flat_map (table_findings dets (d_name db)) (d_tables db).
  Definition expected_scan dets (d : DumpResult) : list SecretFinding := flat_map (db_findings dets) d.
End ScanSpec.
