(* C15/SearchProofs.v — proofs about the search half of the model (search.go). *)
Require Import PG.Base.Bytes PG.Base.GoSlice PG.Base.Value PG.C15.Lib PG.C15.Types PG.C15.Model PG.C15.Spec.
From Coq Require Import Permutation.

(* ================================================================================================ *)
(* matchValue / matchMap = "one of the cell's texts matches" *)
Section MatchValue.
  Variable regex : Type.
  Variable matches : regex -> bytes -> bool.
  Variable show : gval -> bytes.
  Notation matchValue := (matchValue regex matches show).
  Notation matchMap := (matchMap regex matches show).
  Notation cell_matches := (cell_matches regex matches show).
  Notation texts := (texts show).
  Notation Matches := (Matches regex matches show).

  Lemma matchValue_VMap re m : matchValue re (VMap m) = matchMap re m.
  Proof. induction m as [|[k x] r IH]; [reflexivity|]. cbn in *. rewrite IH. reflexivity. Qed.

  Lemma matchValue_VList re l : matchValue re (VList l) = existsb (matchValue re) l.
  Proof.
    induction l as [|x r IH]; [reflexivity|]. cbn [existsb]. rewrite <- IH. cbn.
    destruct (matchValue re x); reflexivity.
  Qed.

  Lemma matchMap_cons re k x r :
    matchMap re ((k, x) :: r) = matches re k || matchValue re x || matchMap re r.
  Proof. cbn. destruct (matches re k); [reflexivity|]. destruct (matchValue re x); reflexivity. Qed.

  Lemma matchValue_spec re v : matchValue re v = cell_matches re v.
  Proof.
    induction v as [| s | s | | v Hs | l IH | m IH] using gval_nested_ind.
    - reflexivity.
    - unfold Spec.cell_matches. cbn. rewrite orb_false_r. reflexivity.
    - unfold Spec.cell_matches. cbn. rewrite orb_false_r. reflexivity.
    - reflexivity.
    - destruct v; try discriminate Hs; unfold Spec.cell_matches; cbn; rewrite orb_false_r; reflexivity.
    - rewrite matchValue_VList. unfold Spec.cell_matches. cbn [Spec.texts].
      induction IH as [|x r Hx Hr IHr]; [reflexivity|].
      cbn [existsb flat_map]. rewrite existsb_app, Hx, IHr. reflexivity.
    - rewrite matchValue_VMap. unfold Spec.cell_matches. cbn [Spec.texts].
      induction IH as [|[k x] r Hx Hr IHr]; [reflexivity|].
      rewrite matchMap_cons. cbn [flat_map existsb app snd] in *. rewrite existsb_app.
      rewrite Hx, IHr. unfold Spec.cell_matches. rewrite orb_assoc. reflexivity.
  Qed.

  Lemma matchMap_spec re m : matchMap re m = cell_matches re (VMap m).
  Proof. rewrite <- matchValue_VMap. apply matchValue_spec. Qed.

  (* the inductive reading of the property: a string matches; an object matches iff a key or a value
     does; an array iff an element does; NULL never; other scalars through their %v rendering *)
  Lemma cell_matches_Matches re v : cell_matches re v = true <-> Matches re v.
  Proof.
    unfold Spec.cell_matches.
    induction v as [| s | s | | v Hs | l IH | m IH] using gval_nested_ind.
    - cbn. split; [discriminate|]. intros H; inversion H; discriminate.
    - cbn. rewrite orb_false_r. split; [apply MStr|]. intros H; inversion H; [assumption|discriminate].
    - cbn. rewrite orb_false_r. split; [apply MBytes|]. intros H; inversion H; [assumption|discriminate].
    - cbn. split; [discriminate|]. intros H; inversion H; discriminate.
    - assert (E : texts v = [show v]) by (destruct v; try discriminate Hs; reflexivity).
      rewrite E. cbn. rewrite orb_false_r. split; [apply MScalar; assumption|].
      intros H; inversion H; subst; try discriminate Hs. assumption.
    - cbn [Spec.texts]. rewrite existsb_exists. split.
      + intros (t & Hin & Ht). apply in_flat_map in Hin as (x & Hx & Htx).
        rewrite Forall_forall in IH. eapply MElem; [exact Hx|]. apply IH; [exact Hx|].
        apply existsb_exists. eauto.
      + intros H. inversion H as [| | | |l' x Hx HM|? Hsc]; subst; [|discriminate Hsc].
        rewrite Forall_forall in IH. apply IH in HM; [|exact Hx].
        apply existsb_exists in HM as (t & Ht & Hm). exists t. split; [|exact Hm].
        apply in_flat_map. eauto.
    - cbn [Spec.texts]. rewrite existsb_exists. split.
      + intros (t & Hin & Ht). apply in_flat_map in Hin as ([k x] & Hx & Htx).
        destruct Htx as [<-|Htx]; [eapply MKey; eauto|].
        rewrite Forall_forall in IH. eapply MVal; [exact Hx|]. apply (IH _ Hx).
        apply existsb_exists. eauto.
      + rewrite Forall_forall in IH.
        intros H. inversion H as [| |m' k x Hx Hk|m' k x Hx HM| |? Hsc]; subst; [| |discriminate Hsc].
        * exists k. split; [|exact Hk]. apply in_flat_map. exists (k, x). split; [exact Hx|left; reflexivity].
        * apply (IH _ Hx) in HM. apply existsb_exists in HM as (t & Ht & Hm). exists t. split; [|exact Hm].
          apply in_flat_map. exists (k, x). split; [exact Hx|right; exact Ht].
  Qed.
End MatchValue.

(* ================================================================================================ *)
(* rowKeys = col_order; every key exactly once; independent of the map's iteration order *)

Lemma filter_filter' {A} (P Q : A -> bool) l : filter P (filter Q l) = filter (fun x => Q x && P x) l.
Proof.
  induction l as [|x l IH]; [reflexivity|]. cbn [filter].
  destruct (Q x); cbn [filter andb]; [destruct (P x)|]; rewrite IH; reflexivity.
Qed.

Lemma first_occ_In x l : In x (first_occ l) <-> In x l.
Proof.
  induction l as [|y l IH]; [reflexivity|]. cbn [first_occ In]. rewrite filter_In, IH.
  split.
  - intros [H|[H _]]; auto.
  - intros [H|H]; auto. destruct (bytes_eqb x y) eqn:E.
    + apply bytes_eqb_eq in E. auto.
    + right. split; [exact H|reflexivity].
Qed.

Lemma first_occ_NoDup l : NoDup (first_occ l).
Proof.
  induction l as [|y l IH]; cbn [first_occ]; constructor.
  - rewrite filter_In. intros [_ H]. rewrite bytes_eqb_refl in H. discriminate.
  - apply NoDup_filter. exact IH.
Qed.

Lemma declared_keys_filter cols r : forall seen,
  declared_keys cols r seen = filter (fun c => has_key r c && negb (memb c seen)) (first_occ cols).
Proof.
  induction cols as [|c cs IH]; intros seen; [reflexivity|].
  cbn [declared_keys first_occ filter]. rewrite filter_filter'.
  destruct (has_key r c && negb (memb c seen)) eqn:E.
  - f_equal. rewrite IH. apply filter_ext. intros y. unfold memb. cbn [existsb]. fold (memb y seen).
    destruct (bytes_eqb y c), (has_key r y), (memb y seen); reflexivity.
  - rewrite IH. apply filter_ext. intros y.
    destruct (bytes_eqb y c) eqn:Ey; [|reflexivity].
    apply bytes_eqb_eq in Ey. subst y. rewrite E. reflexivity.
Qed.

Lemma row_find_has_key r k : In k (map fst r) <-> has_key r k = true.
Proof.
  unfold has_key. induction r as [|[k' v] r IH]; cbn [map fst In row_find].
  - split; [intros []|discriminate].
  - destruct (bytes_eqb k' k) eqn:E.
    + apply bytes_eqb_eq in E. subst. split; auto.
    + apply bytes_eqb_neq in E. rewrite <- IH. split; [intros [H|H]; [contradiction|exact H]|auto].
Qed.

Lemma declared_keys_In cols r k :
  In k (declared_keys cols r []) <-> In k cols /\ has_key r k = true.
Proof.
  rewrite declared_keys_filter, filter_In, first_occ_In. cbn. rewrite andb_true_r. reflexivity.
Qed.

Lemma rowKeys_col_order cols r : rowKeys cols r = col_order cols r.
Proof.
  unfold rowKeys, col_order. f_equal.
  - rewrite declared_keys_filter. apply filter_ext. intros c. cbn. apply andb_true_r.
  - f_equal. apply filter_ext_in. intros k Hk. f_equal.
    apply row_find_has_key in Hk.
    destruct (memb k cols) eqn:E.
    + apply memb_In. apply declared_keys_In. split; [apply memb_In; exact E|exact Hk].
    + apply memb_false. intros H. apply declared_keys_In in H as [H _]. apply memb_In in H. congruence.
Qed.

(* every key of the row is visited, and nothing else *)
Lemma col_order_In cols r k : In k (col_order cols r) <-> In k (map fst r).
Proof.
  unfold col_order. rewrite in_app_iff, filter_In, first_occ_In.
  assert (P : forall x l, In x (isort l) <-> In x l).
  { intros x l. split; apply Permutation_in; [|symmetry]; apply isort_perm. }
  rewrite P, filter_In, row_find_has_key. split.
  - intros [[_ H]|[H _]]; exact H.
  - intros H. destruct (memb k cols) eqn:E.
    + left. split; [apply memb_In; exact E|exact H].
    + right. split; [exact H|reflexivity].
Qed.

Lemma NoDup_app_intro {A} (l1 l2 : list A) :
  NoDup l1 -> NoDup l2 -> (forall x, In x l1 -> In x l2 -> False) -> NoDup (l1 ++ l2).
Proof.
  induction l1 as [|a l1 IH]; intros H1 H2 HD; [exact H2|].
  inversion H1; subst. cbn. constructor.
  - rewrite in_app_iff. intros [H|H]; [contradiction|]. eapply HD; [left; reflexivity|exact H].
  - apply IH; auto. intros x Hx1 Hx2. eapply HD; [right; exact Hx1|exact Hx2].
Qed.

(* ... exactly once, when the row is a map (distinct keys) *)
Lemma col_order_NoDup cols r : wf_row r -> NoDup (col_order cols r).
Proof.
  intros Hwf. unfold col_order. apply NoDup_app_intro.
  - apply NoDup_filter, first_occ_NoDup.
  - eapply Permutation_NoDup; [symmetry; apply isort_perm|]. apply NoDup_filter. exact Hwf.
  - intros x H1 H2. apply filter_In in H1 as [H1 _]. apply -> first_occ_In in H1.
    eapply Permutation_in in H2; [|apply isort_perm]. apply filter_In in H2 as [_ H2].
    apply <- memb_In in H1. rewrite H1 in H2. discriminate.
Qed.

Lemma col_order_perm cols r : wf_row r -> Permutation (col_order cols r) (map fst r).
Proof.
  intros Hwf. apply NoDup_Permutation; [apply col_order_NoDup; exact Hwf|exact Hwf|].
  intros k. apply col_order_In.
Qed.

(* a Go map has no order: any two listings of the same map give the same lookups and the same keys *)
Lemma row_find_In r k v : wf_row r -> (row_find r k = Some v <-> In (k, v) r).
Proof.
  unfold wf_row. induction r as [|[k' v'] r IH]; intros Hwf; cbn [row_find In fst snd map] in *.
  - split; [discriminate|intros []].
  - inversion Hwf as [|? ? Hnin Hwf']; subst. destruct (bytes_eqb k' k) eqn:E.
    + apply bytes_eqb_eq in E. subst k'. split.
      * intros H. inversion H. auto.
      * intros [H|H]; [inversion H; reflexivity|]. exfalso. apply Hnin.
        change k with (fst (k, v)). apply in_map. exact H.
    + apply bytes_eqb_neq in E. rewrite (IH Hwf'). split; [auto|].
      intros [H|H]; [inversion H; contradiction|exact H].
Qed.

Lemma row_find_perm r r' k : wf_row r -> Permutation r r' -> row_find r k = row_find r' k.
Proof.
  intros Hwf HP.
  assert (Hwf' : wf_row r') by (unfold wf_row in *; eapply Permutation_NoDup; [apply Permutation_map; exact HP|exact Hwf]).
  destruct (row_find r k) as [v|] eqn:E.
  - symmetry. apply row_find_In; [exact Hwf'|]. eapply Permutation_in; [exact HP|]. apply row_find_In; assumption.
  - destruct (row_find r' k) as [v'|] eqn:E'; [|reflexivity].
    apply row_find_In in E'; [|exact Hwf']. apply Permutation_sym in HP.
    eapply Permutation_in in E'; [|exact HP]. apply row_find_In in E'; [|exact Hwf]. congruence.
Qed.

Lemma filter_perm {A} (P : A -> bool) l l' : Permutation l l' -> Permutation (filter P l) (filter P l').
Proof.
  induction 1 as [|x l l' HP IH|x y l|l l' l'' H1 IH1 H2 IH2]; cbn [filter].
  - constructor.
  - destruct (P x); [constructor|]; exact IH.
  - destruct (P x), (P y); try reflexivity. apply perm_swap.
  - etransitivity; eassumption.
Qed.

Lemma rowKeys_order_independent cols r r' :
  wf_row r -> Permutation r r' ->
  rowKeys cols r = rowKeys cols r' /\ forall c, row_get r c = row_get r' c.
Proof.
  intros Hwf HP. split.
  - rewrite !rowKeys_col_order. unfold col_order. f_equal.
    + apply filter_ext. intros c. unfold has_key. rewrite (row_find_perm r r' c Hwf HP). reflexivity.
    + apply isort_perm_eq. apply filter_perm. apply Permutation_map. exact HP.
  - intros c. unfold row_get. rewrite (row_find_perm r r' c Hwf HP). reflexivity.
Qed.

(* ================================================================================================ *)
(* the four loops with their early return = the list of all hits, cut at MaxResults *)
Section Loops.
  Variable regex : Type.
  Variable compile : bytes -> option regex.
  Variable matches : regex -> bytes -> bool.
  Variable show : gval -> bytes.
  Variable DumpDataDir : bytes -> option DumpResult.
  Notation matchValue := (matchValue regex matches show).
  Notation cell_matches := (cell_matches regex matches show).
  Notation cols_loop := (cols_loop regex matches show).
  Notation rows_loop := (rows_loop regex matches show).
  Notation tables_loop := (tables_loop regex matches show).
  Notation dbs_loop := (dbs_loop regex matches show).
  Notation row_hits := (row_hits regex matches show).
  Notation table_hits := (table_hits regex matches show).
  Notation db_hits := (db_hits regex matches show).
  Notation all_hits := (all_hits regex matches show).

  (* append one hit, test MaxResults, go on or stop *)
  Fixpoint push_all (max : Z) (hs acc : list SearchResult) : list SearchResult * bool :=
    match hs with
    | [] => (acc, false)
    | h :: r => let acc' := acc ++ [h] in
                if (max >? 0) && (Z.of_nat (length acc') >=? max) then (acc', true) else push_all max r acc'
    end.

  Lemma push_all_app max a b : forall acc,
    push_all max (a ++ b) acc =
    let (acc', stop) := push_all max a acc in if stop then (acc', true) else push_all max b acc'.
  Proof.
    induction a as [|h a IH]; intros acc; [reflexivity|]. cbn [app push_all].
    destruct ((max >? 0) && (Z.of_nat (length (acc ++ [h])) >=? max)); [reflexivity|]. apply IH.
  Qed.

  Lemma push_all_unlimited max hs : forall acc, max <= 0 -> fst (push_all max hs acc) = acc ++ hs.
  Proof.
    induction hs as [|h r IH]; intros acc Hm; cbn [push_all]; [rewrite app_nil_r; reflexivity|].
    destruct (max >? 0) eqn:E; [lia|]. cbn [andb]. rewrite IH by exact Hm. rewrite <- app_assoc. reflexivity.
  Qed.

  Lemma push_all_limited max hs : forall acc, 0 < max -> Z.of_nat (length acc) < max ->
    fst (push_all max hs acc) = acc ++ firstn (Z.to_nat (max - Z.of_nat (length acc))) hs.
  Proof.
    induction hs as [|h r IH]; intros acc Hm Hl; cbn [push_all].
    - rewrite firstn_nil, app_nil_r. reflexivity.
    - assert (L : Z.of_nat (length (acc ++ [h])) = Z.of_nat (length acc) + 1) by (rewrite app_length; cbn; lia).
      destruct (max >? 0) eqn:E; [|lia]. cbn [andb].
      destruct (Z.of_nat (length (acc ++ [h])) >=? max) eqn:E2.
      + cbn [fst]. replace (Z.to_nat (max - Z.of_nat (length acc))) with 1%nat by lia. reflexivity.
      + rewrite IH by lia. rewrite L.
        replace (Z.to_nat (max - Z.of_nat (length acc))) with (S (Z.to_nat (max - (Z.of_nat (length acc) + 1)))) by lia.
        cbn [firstn]. rewrite <- app_assoc. reflexivity.
  Qed.

  Lemma push_all_cut max hs : fst (push_all max hs []) = cut max hs.
  Proof.
    unfold cut. destruct (0 <? max) eqn:E.
    - rewrite push_all_limited by (cbn; lia). cbn. rewrite Z.sub_0_r. reflexivity.
    - apply push_all_unlimited. lia.
  Qed.

  Lemma cols_loop_push re o db t i r keys : forall acc,
    cols_loop re o db t i r keys acc =
    push_all (MaxResults o)
      (map (hit o (d_name db) (t_name t) i r) (filter (fun c => cell_matches re (row_get r c)) keys)) acc.
  Proof.
    induction keys as [|c ks IH]; intros acc; [reflexivity|].
    cbn [Model.cols_loop filter]. rewrite matchValue_spec.
    destruct (cell_matches re (row_get r c)); [|apply IH].
    cbn [map push_all]. unfold mkMatch, hit at 1 2.
    destruct ((MaxResults o >? 0) && _); [reflexivity|]. apply IH.
  Qed.

  Lemma rows_loop_push re o db t rows : forall i acc,
    rows_loop re o db t rows i acc =
    push_all (MaxResults o) (flat_map (row_hits re o (d_name db) t) (indexed i rows)) acc.
  Proof.
    induction rows as [|r rs IH]; intros i acc; [reflexivity|].
    cbn [Model.rows_loop indexed flat_map]. rewrite push_all_app.
    rewrite cols_loop_push, rowKeys_col_order. unfold Spec.row_hits at 1. cbn [fst snd].
    destruct (push_all _ _ acc) as [acc' stop]. destruct stop; [reflexivity|]. apply IH.
  Qed.

  Lemma tables_loop_push re o db ts : forall acc,
    tables_loop re o db ts acc = push_all (MaxResults o) (flat_map (table_hits re o (d_name db)) ts) acc.
  Proof.
    induction ts as [|t ts IH]; intros acc; [reflexivity|].
    cbn [Model.tables_loop flat_map]. rewrite push_all_app, rows_loop_push. fold (table_hits re o (d_name db) t).
    destruct (push_all _ _ acc) as [acc' stop]. destruct stop; [reflexivity|]. apply IH.
  Qed.

  Lemma dbs_loop_push re o dbs : forall acc,
    dbs_loop re o dbs acc = push_all (MaxResults o) (flat_map (db_hits re o) dbs) acc.
  Proof.
    induction dbs as [|db dbs IH]; intros acc; [reflexivity|].
    cbn [Model.dbs_loop flat_map]. rewrite push_all_app, tables_loop_push. fold (db_hits re o db).
    destruct (push_all _ _ acc) as [acc' stop]. destruct stop; [reflexivity|]. apply IH.
  Qed.

  Lemma effective_pattern_spec o : effective_pattern o = pattern_for o.
  Proof. unfold effective_pattern, pattern_for. destruct (CaseSensitive o); reflexivity. Qed.

  (* the functional core: on a dump and options, SearchInDump is the specification *)
  Lemma SearchInDump_spec d o :
    SearchInDump regex compile matches show (Some d) (Some o) =
    Ok (expected_search regex compile matches show d o).
  Proof.
    unfold SearchInDump, expected_search. rewrite effective_pattern_spec.
    destruct (compile (pattern_for o)) as [re|]; [|reflexivity].
    rewrite dbs_loop_push, push_all_cut. reflexivity.
  Qed.

  Lemma Search_spec dir d o : DumpDataDir dir = Some d ->
    Search regex compile matches show DumpDataDir dir (Some o) = expected_search regex compile matches show d o.
  Proof.
    intros Hd. unfold Search, expected_search. rewrite effective_pattern_spec.
    destruct (compile (pattern_for o)) as [re|]; [|reflexivity].
    rewrite Hd, dbs_loop_push, push_all_cut. reflexivity.
  Qed.

  (* ---------- the list of all hits, read as a set of cells ---------- *)
  Lemma indexed_In {A} (l : list A) : forall from i x,
    In (i, x) (indexed from l) <-> from <= i /\ nth_error l (Z.to_nat (i - from)) = Some x.
  Proof.
    induction l as [|y l IH]; intros from i x; cbn [indexed In].
    - split; [intros []|]. intros [_ H]. destruct (Z.to_nat (i - from)); discriminate.
    - rewrite IH. split.
      + intros [H|[H1 H2]].
        * inversion H; subst. split; [lia|]. rewrite Z.sub_diag. reflexivity.
        * split; [lia|]. replace (Z.to_nat (i - from)) with (S (Z.to_nat (i - (from + 1)))) by lia. exact H2.
      + intros [H1 H2]. destruct (Z.eq_dec i from) as [->|Hne].
        * left. rewrite Z.sub_diag in H2. cbn in H2. inversion H2. reflexivity.
        * right. split; [lia|].
          replace (Z.to_nat (i - from)) with (S (Z.to_nat (i - (from + 1)))) in H2 by lia. exact H2.
  Qed.

  Lemma all_hits_In re o d h :
    In h (all_hits re o d) <->
    exists dbn tn i c r v, cell_at d dbn tn i c r v /\ cell_matches re v = true /\ h = hit o dbn tn i r c.
  Proof.
    unfold Spec.all_hits, Spec.db_hits, Spec.table_hits, Spec.row_hits, cell_at. split.
    - intros H. apply in_flat_map in H as (db & Hdb & H). apply in_flat_map in H as (t & Ht & H).
      apply in_flat_map in H as ([i r] & Hir & H). cbn [fst snd] in H.
      apply in_map_iff in H as (c & <- & Hc). apply filter_In in Hc as [Hc Hm].
      apply indexed_In in Hir as [Hi Hn]. rewrite Z.sub_0_r in Hn.
      apply col_order_In, row_find_has_key in Hc. unfold has_key in Hc.
      destruct (row_find r c) as [v|] eqn:Ev; [|discriminate].
      exists (d_name db), (t_name t), i, c, r, v. split; [exists db, t; auto 10|].
      split; [|reflexivity]. unfold row_get in Hm. rewrite Ev in Hm. exact Hm.
    - intros (dbn & tn & i & c & r & v & (db & t & Hdb & <- & Ht & <- & Hi & Hn & Hv) & Hm & ->).
      apply in_flat_map. exists db. split; [exact Hdb|]. apply in_flat_map. exists t. split; [exact Ht|].
      apply in_flat_map. exists (i, r). split; [apply indexed_In; rewrite Z.sub_0_r; auto|]. cbn [fst snd].
      apply in_map. apply filter_In. split.
      + apply col_order_In, row_find_has_key. unfold has_key. rewrite Hv. reflexivity.
      + unfold row_get. rewrite Hv. exact Hm.
  Qed.
End Loops.
