(* C15/Types.v — the data the search and the secret scan work on (pgdump.go:59-86, search.go:9-24,
   secrets.go:15-25), shared by model and spec.  Only the fields C15 observes are kept. *)
Require Import PG.Base.Bytes PG.Base.Value PG.C15.Lib.

(* TableDump: Name, Columns[i].Name, Rows.  A row is a Go map[string]interface{}: an association list
   whose keys are pairwise distinct ([wf_row]); the list order stands for the (arbitrary) order in which
   Go happens to range over the map — theorems that depend on it say so. *)
Record TableDump := { t_name : bytes; t_columns : list bytes; t_rows : list row }.
Record DatabaseDump := { d_name : bytes; d_tables : list TableDump }.
Definition DumpResult := list DatabaseDump.

Record SearchOptions := { Pattern : bytes; CaseSensitive : bool; IncludeRow : bool; MaxResults : Z }.

Record SearchResult := {
  sr_database : bytes; sr_table : bytes; sr_column : bytes; sr_rownum : Z;
  sr_value : gval; sr_row : option row (* None = Row left nil *) }.

Inductive serr := ENoOptions | EInvalidPattern | EDump.

(* row[colName]: the value stored under the key, the nil interface when absent *)
Fixpoint row_find (r : row) (k : bytes) : option gval :=
  match r with
  | [] => None
  | p :: r' => if bytes_eqb (fst p) k then Some (snd p) else row_find r' k
  end.
Definition row_get (r : row) (k : bytes) : gval :=
  match row_find r k with Some v => v | None => VNil end.
Definition has_key (r : row) (k : bytes) : bool :=
  match row_find r k with Some _ => true | None => false end.

Definition wf_row (r : row) : Prop := NoDup (map fst r).
Definition wf_table (t : TableDump) : Prop := Forall wf_row (t_rows t).
Definition wf_db (d : DatabaseDump) : Prop := Forall wf_table (d_tables d).
Definition wf_dump (d : DumpResult) : Prop := Forall wf_db d.

(* a trufflehog detector as far as ScanString uses it: Keywords() and FromData(ctx, false, data)
   (None = it returned an error); [dres] stands for detectors.Result *)
Record Detector (dres : Type) := { Keywords : list bytes; FromData : bytes -> option (list dres) }.
Arguments Keywords {dres}. Arguments FromData {dres}.

Record SecretFinding (dres : Type) := {
  f_database : bytes; f_table : bytes; f_column : bytes; f_rowindex : Z;
  f_result : dres (* DetectorName, Raw, Redacted, Verified, ExtraData are copied from it *) }.
Arguments f_database {dres}. Arguments f_table {dres}. Arguments f_column {dres}.
Arguments f_rowindex {dres}. Arguments f_result {dres}.

(* rows with their index: [(from, r0); (from+1, r1); ...] *)
Fixpoint indexed {A} (from : Z) (l : list A) : list (Z * A) :=
  match l with [] => [] | x :: r => (from, x) :: indexed (from + 1) r end.

(* "(?i)" *)
Definition ci_prefix_str : bytes := [x28; x3f; x69; x29].
