Require Import PG.Base.Bytes PG.Base.GoSlice PG.Base.Value PG.C15.Lib PG.C15.Types PG.C15.Model PG.C15.Spec PG.C15.Wrappers.
Require Extraction. Require ExtrOcamlBasic.
Extraction "model.ml" rowKeys col_order matchValue matchMap SearchInDump Search cell_matches expected_search
  bytesEqual bytesContains containsIgnoreCase strings_Contains ci_contains
  ScanString scanTable ScanDatabaseDump ScanDumpResult cell_results expected_scan
  QuoteMeta unquote QuickSearch
  bytes_eqb bytes_leb isort exact.
