(* C15/Model.v — Gallina model of pgdump/search.go (Search, SearchInDump, rowKeys, matchValue, matchMap)
   and pgdump/secrets.go (ScanString, ScanDumpResult, ScanDatabaseDump, scanTable, containsIgnoreCase,
   bytesContains, bytesEqual) as they are AFTER the commit "fix: iterate row columns in a deterministic
   order ..." (D38).  Oracles (not logic) are Section variables: regexp.Compile / MatchString, fmt's %v,
   the trufflehog detectors, DumpDataDir (owned by C01). *)
Require Import PG.Base.Bytes PG.Base.GoSlice PG.Base.Value PG.C15.Lib PG.C15.Types.

(* ------------------------------------------------------------------------------------------------ *)
(* rowKeys (search.go:127-148): declared columns first (each once, only if present), then the rest sorted *)

(* for _, c := range cols { if _, ok := row[c.Name]; ok && !seen[c.Name] { seen[..]=true; keys = append(keys, ..) } } *)
Fixpoint declared_keys (cols : list bytes) (r : row) (seen : list bytes) : list bytes :=
  match cols with
  | [] => []
  | c :: cs => if has_key r c && negb (memb c seen)
               then c :: declared_keys cs r (c :: seen)
               else declared_keys cs r seen
  end.

(* for k := range row { if !seen[k] { rest = append(rest, k) } }; sort.Strings(rest); append(keys, rest...)
   [map fst r] is the order in which Go ranges over the map; [rowKeys_order_independent] shows it is
   irrelevant.  After the first loop seen = the set of emitted keys. *)
Definition rowKeys (cols : list bytes) (r : row) : list bytes :=
  let keys := declared_keys cols r [] in
  keys ++ isort (filter (fun k => negb (memb k keys)) (map fst r)).

(* ------------------------------------------------------------------------------------------------ *)
Section Search.
  Variable regex : Type.
  Variable compile : bytes -> option regex.        (* regexp.Compile: None = error *)
  Variable matches : regex -> bytes -> bool.       (* re.MatchString / re.Match *)
  Variable show : gval -> bytes.                   (* fmt.Sprintf("%v", v) *)
  Variable DumpDataDir : bytes -> option DumpResult.  (* pgdump.go:109, owned by C01; None = error *)

  (* search.go:151-177 matchValue and search.go:180-190 matchMap (mutually recursive in Go; matchMap is
     the inner fix here and the stand-alone [matchMap] below, convertible).  matchMap ranges over a Go
     map and returns at the first hit: the result is an "exists", independent of the order. *)
  Fixpoint matchValue (re : regex) (value : gval) : bool :=
    match value with
    | VNil => false                                           (* value == nil *)
    | VStr s => matches re s                                  (* case string *)
    | VBytes s => matches re s                                (* case []byte *)
    | VMap m =>                                               (* case map[string]interface{} *)
        (fix matchMap (m : list (bytes * gval)) : bool :=
           match m with
           | [] => false
           | p :: r => let (key, val) := p in
                       if matches re key then true
                       else if matchValue re val then true
                       else matchMap r
           end) m
    | VList l =>                                              (* case []interface{} *)
        (fix loop (l : list gval) : bool :=
           match l with
           | [] => false
           | elem :: r => if matchValue re elem then true else loop r
           end) l
    | VListNil => false                                       (* typed nil slice: zero iterations *)
    | _ => matches re (show value)                            (* default: fmt.Sprintf("%v", v) *)
    end.

  Fixpoint matchMap (re : regex) (m : list (bytes * gval)) : bool :=
    match m with
    | [] => false
    | p :: r => let (key, val) := p in
                if matches re key then true
                else if matchValue re val then true
                else matchMap re r
    end.

  (* search.go:101-111 *)
  Definition mkMatch (opts : SearchOptions) (db : DatabaseDump) (t : TableDump) (rowNum : Z) (r : row)
             (colName : bytes) (value : gval) : SearchResult :=
    {| sr_database := d_name db; sr_table := t_name t; sr_column := colName; sr_rownum := rowNum;
       sr_value := value; sr_row := if IncludeRow opts then Some r else None |}.

  (* the four nested loops of search.go:96-120 (identical at :50-74); the bool says "returned early" *)
  Fixpoint cols_loop re opts db t rowNum (r : row) (keys : list bytes) (acc : list SearchResult)
    : list SearchResult * bool :=
    match keys with
    | [] => (acc, false)
    | colName :: ks =>
        let value := row_get r colName in
        if matchValue re value then
          let acc' := acc ++ [mkMatch opts db t rowNum r colName value] in
          if (MaxResults opts >? 0) && (Z.of_nat (length acc') >=? MaxResults opts) then (acc', true)
          else cols_loop re opts db t rowNum r ks acc'
        else cols_loop re opts db t rowNum r ks acc
    end.

  Fixpoint rows_loop re opts db t (rows : list row) (rowNum : Z) acc : list SearchResult * bool :=
    match rows with
    | [] => (acc, false)
    | r :: rs =>
        let (acc', stop) := cols_loop re opts db t rowNum r (rowKeys (t_columns t) r) acc in
        if stop then (acc', true) else rows_loop re opts db t rs (rowNum + 1) acc'
    end.

  Fixpoint tables_loop re opts db (ts : list TableDump) acc : list SearchResult * bool :=
    match ts with
    | [] => (acc, false)
    | t :: ts' =>
        let (acc', stop) := rows_loop re opts db t (t_rows t) 0 acc in
        if stop then (acc', true) else tables_loop re opts db ts' acc'
    end.

  Fixpoint dbs_loop re opts (dbs : list DatabaseDump) acc : list SearchResult * bool :=
    match dbs with
    | [] => (acc, false)
    | db :: dbs' =>
        let (acc', stop) := tables_loop re opts db (d_tables db) acc in
        if stop then (acc', true) else dbs_loop re opts dbs' acc'
    end.

  (* search.go:33-36 / 85-88 *)
  Definition effective_pattern (opts : SearchOptions) : bytes :=
    if negb (CaseSensitive opts) then ci_prefix_str ++ Pattern opts else Pattern opts.

  (* search.go:80-123.  result == nil: the opts check and the compile come first, then result.Databases
     dereferences the nil pointer *)
  Definition SearchInDump (result : option DumpResult) (opts : option SearchOptions)
    : res (serr + list SearchResult) :=
    match opts with
    | None => Ok (inl ENoOptions)
    | Some o =>
        match compile (effective_pattern o) with
        | None => Ok (inl EInvalidPattern)
        | Some re =>
            match result with
            | None => Panic
            | Some d => Ok (inr (fst (dbs_loop re o d [])))
            end
        end
    end.

  (* search.go:27-77 *)
  Definition Search (dataDir : bytes) (opts : option SearchOptions) : serr + list SearchResult :=
    match opts with
    | None => inl ENoOptions
    | Some o =>
        match compile (effective_pattern o) with
        | None => inl EInvalidPattern
        | Some re =>
            match DumpDataDir dataDir with
            | None => inl EDump
            | Some d => inr (fst (dbs_loop re o d []))
            end
        end
    end.
End Search.

(* ------------------------------------------------------------------------------------------------ *)
(* secrets.go:139-189 *)

(* for i := range a { if a[i] != b[i] { return false } } *)
Fixpoint bytesEqual_loop (n : nat) (a b : gslice) (i : Z) : res bool :=
  match n with
  | O => Ok true
  | S n' => x <- idx a i ;; y <- idx b i ;;
            if negb (x =? y) then Ok false else bytesEqual_loop n' a b (i + 1)
  end.
Definition bytesEqual (a b : gslice) : res bool :=
  if negb (len a =? len b) then Ok false else bytesEqual_loop (Z.to_nat (len a)) a b 0.

(* for i := 0; i <= len(s)-len(substr); i++ { if bytesEqual(s[i:i+len(substr)], substr) { return true } } *)
Fixpoint bytesContains_loop (n : nat) (s substr : gslice) (i : Z) : res bool :=
  match n with
  | O => Ok false
  | S n' => w <- slice s i (i + len substr) ;;
            e <- bytesEqual w substr ;;
            if e then Ok true else bytesContains_loop n' s substr (i + 1)
  end.
Definition bytesContains (s substr : gslice) : res bool :=
  if len substr =? 0 then Ok true
  else if len substr >? len s then Ok false
  else bytesContains_loop (Z.to_nat (len s - len substr + 1)) s substr 0.

(* c >= 'A' && c <= 'Z' ? c + 32 : c *)
Definition lower_byte (c : byte) : byte :=
  if (65 <=? b2z c) && (b2z c <=? 90) then z2b (b2z c + 32) else c.
(* sLower := make([]byte, len(s)); for i { sLower[i] = lower(s[i]) }: an exact-capacity slice *)
Definition containsIgnoreCase (s substr : bytes) : res bool :=
  bytesContains (exact (map lower_byte s)) (exact (map lower_byte substr)).

(* strings.Contains (standard library; assumed semantics: substr occurs at some position of s) *)
Fixpoint is_prefix (k s : bytes) : bool :=
  match k, s with
  | [], _ => true
  | _ :: _, [] => false
  | a :: k', b :: s' => (b2z a =? b2z b) && is_prefix k' s'
  end.
Fixpoint strings_Contains (s substr : bytes) : bool :=
  is_prefix substr s || match s with [] => false | _ :: s' => strings_Contains s' substr end.

Section Secrets.
  Variable dres : Type.                            (* detectors.Result *)
  Variable show : gval -> bytes.                   (* fmt.Sprintf("%v", v) *)

  Notation Detector := (Detector dres).
  Notation SecretFinding := (SecretFinding dres).

  (* secrets.go:49-56 *)
  Fixpoint hasKeyword (data : bytes) (keywords : list bytes) : res bool :=
    match keywords with
    | [] => Ok false
    | kw :: r =>
        if strings_Contains data kw then Ok true
        else c <- containsIgnoreCase data kw ;; if c then Ok true else hasKeyword data r
    end.

  (* secrets.go:40-70 *)
  Fixpoint ScanString (dets : list Detector) (data : bytes) : res (list dres) :=
    match dets with
    | [] => Ok []
    | det :: ds =>
        hk <- hasKeyword data (Keywords det) ;;
        if negb hk && (0 <? Z.of_nat (length (Keywords det))) then ScanString ds data
        else match FromData det data with
             | None => ScanString ds data                       (* err != nil: continue *)
             | Some found => rest <- ScanString ds data ;; Ok (found ++ rest)
             end
    end.

  Definition mkFinding (dbName : bytes) (t : TableDump) (colName : bytes) (rowIdx : Z) (x : dres)
    : SecretFinding :=
    {| f_database := dbName; f_table := t_name t; f_column := colName; f_rowindex := rowIdx; f_result := x |}.

  (* secrets.go:100-121 *)
  Fixpoint scan_cols dets dbName t rowIdx (r : row) (keys : list bytes) : res (list SecretFinding) :=
    match keys with
    | [] => Ok []
    | colName :: ks =>
        let strVal := show (row_get r colName) in
        if blen strVal <? 8 then scan_cols dets dbName t rowIdx r ks
        else results <- ScanString dets strVal ;;
             rest <- scan_cols dets dbName t rowIdx r ks ;;
             Ok (map (mkFinding dbName t colName rowIdx) results ++ rest)
    end.
  Fixpoint scan_rows dets dbName t (rows : list row) (rowIdx : Z) : res (list SecretFinding) :=
    match rows with
    | [] => Ok []
    | r :: rs => a <- scan_cols dets dbName t rowIdx r (rowKeys (t_columns t) r) ;;
                 b <- scan_rows dets dbName t rs (rowIdx + 1) ;; Ok (a ++ b)
    end.
  (* secrets.go:96-125 *)
  Definition scanTable dets (dbName : bytes) (t : TableDump) : res (list SecretFinding) :=
    scan_rows dets dbName t (t_rows t) 0.

  (* secrets.go:85-94 *)
  Fixpoint scan_tables dets dbName (ts : list TableDump) : res (list SecretFinding) :=
    match ts with
    | [] => Ok []
    | t :: ts' => a <- scanTable dets dbName t ;; b <- scan_tables dets dbName ts' ;; Ok (a ++ b)
    end.
  Definition ScanDatabaseDump dets (db : DatabaseDump) : res (list SecretFinding) :=
    scan_tables dets (d_name db) (d_tables db).

  (* secrets.go:73-82 *)
  Fixpoint ScanDumpResult dets (result : DumpResult) : res (list SecretFinding) :=
    match result with
    | [] => Ok []
    | db :: dbs => a <- ScanDatabaseDump dets db ;; b <- ScanDumpResult dets dbs ;; Ok (a ++ b)
    end.
End Secrets.
