(* C15/SecretsProofs.v — proofs about the secret-scan half of the model (secrets.go). *)
Require Import PG.Base.Bytes PG.Base.GoSlice PG.Base.Value PG.C15.Lib PG.C15.Types PG.C15.Model PG.C15.Spec.
Require Import PG.C15.SearchProofs.
From Coq Require Import Permutation.

(* ================================================================================================ *)
(* bytesEqual / bytesContains: never panic (whatever lies beyond len), and decide equality / substring *)

Lemma skipn_nth_cons {A} (d : A) : forall (l : list A) n, (n < length l)%nat -> skipn n l = nth n l d :: skipn (S n) l.
Proof.
  induction l as [|x l IH]; intros n Hn; cbn [length] in Hn; [lia|].
  destruct n; [reflexivity|]. cbn [skipn nth]. rewrite IH by lia. reflexivity.
Qed.

Lemma bytesEqual_loop_spec : forall n a b i,
  0 <= i -> i + Z.of_nat n = len a -> len a = len b ->
  bytesEqual_loop n a b i = Ok (bytes_eqb (skipn (Z.to_nat i) (vis a)) (skipn (Z.to_nat i) (vis b))).
Proof.
  induction n as [|n IH]; intros a b i Hi Hn Hab; cbn [bytesEqual_loop].
  - unfold len, blen in *. rewrite !skipn_all2 by lia. reflexivity.
  - rewrite !idx_ok by lia. cbn [bind].
    unfold len, blen in *.
    rewrite (skipn_nth_cons x00 (vis a)) by lia. rewrite (skipn_nth_cons x00 (vis b)) by lia.
    cbn [bytes_eqb]. unfold byte_at.
    destruct (b2z (nth (Z.to_nat i) (vis a) x00) =? b2z (nth (Z.to_nat i) (vis b) x00)); cbn [negb andb]; [|reflexivity].
    rewrite IH by (unfold len, blen; lia). replace (Z.to_nat (i + 1)) with (S (Z.to_nat i)) by lia. reflexivity.
Qed.

Lemma bytes_eqb_length a : forall b, bytes_eqb a b = true -> length a = length b.
Proof. intros b H. apply bytes_eqb_eq in H. subst. reflexivity. Qed.

Lemma bytesEqual_spec a b : bytesEqual a b = Ok (bytes_eqb (vis a) (vis b)).
Proof.
  unfold bytesEqual. destruct (len a =? len b) eqn:E; cbn [negb].
  - rewrite bytesEqual_loop_spec; try lia; [reflexivity|]. pose proof (len_nonneg a). lia.
  - destruct (bytes_eqb (vis a) (vis b)) eqn:E2; [|reflexivity].
    apply bytes_eqb_length in E2. unfold len, blen in E. lia.
Qed.

Lemma is_prefix_firstn k : forall l, is_prefix k l = bytes_eqb (firstn (length k) l) k.
Proof.
  induction k as [|a k IH]; intros [|b l]; cbn [is_prefix length firstn bytes_eqb]; try reflexivity.
  rewrite IH, Z.eqb_sym. reflexivity.
Qed.

Lemma is_prefix_short k l : (length l < length k)%nat -> is_prefix k l = false.
Proof.
  revert l; induction k as [|a k IH]; intros [|b l] H; cbn [length is_prefix] in *; try lia; try reflexivity.
  rewrite IH by lia. apply andb_false_r.
Qed.

Lemma strings_Contains_short k : forall s, (length s < length k)%nat -> strings_Contains s k = false.
Proof.
  induction s as [|x s IH]; intros H; cbn [strings_Contains].
  - rewrite is_prefix_short by exact H. reflexivity.
  - rewrite is_prefix_short by exact H. cbn [length] in H. apply IH. lia.
Qed.

Lemma bytesContains_loop_spec : forall n s k i,
  0 <= i -> 0 < len k -> i + Z.of_nat n = len s - len k + 1 ->
  bytesContains_loop n s k i = Ok (strings_Contains (skipn (Z.to_nat i) (vis s)) (vis k)).
Proof.
  induction n as [|n IH]; intros s k i Hi Hk Hn; cbn [bytesContains_loop].
  - rewrite strings_Contains_short; [reflexivity|]. unfold len, blen in *. rewrite skipn_length. lia.
  - unfold slice. pose proof (len_le_cap s).
    destruct ((0 <=? i) && (i <=? i + len k) && (i + len k <=? cap s)) eqn:E; [|lia]. cbn [bind].
    rewrite bytesEqual_spec. cbn [vis bind].
    assert (W : sub (mem s) i (i + len k) = firstn (length (vis k)) (skipn (Z.to_nat i) (vis s))).
    { unfold mem. rewrite sub_app_l by (unfold len in *; lia). unfold sub.
      replace (Z.to_nat (i + len k - i)) with (length (vis k)) by (unfold len, blen; lia). reflexivity. }
    rewrite W, <- is_prefix_firstn.
    unfold len, blen in *.
    rewrite (skipn_nth_cons x00 (vis s) (Z.to_nat i)) by lia.
    cbn [strings_Contains]. rewrite <- (skipn_nth_cons x00 (vis s) (Z.to_nat i)) by lia.
    destruct (is_prefix (vis k) (skipn (Z.to_nat i) (vis s))); [reflexivity|]. cbn [orb].
    rewrite IH by (unfold len, blen; lia). replace (Z.to_nat (i + 1)) with (S (Z.to_nat i)) by lia. reflexivity.
Qed.

Lemma bytesContains_spec s k : bytesContains s k = Ok (strings_Contains (vis s) (vis k)).
Proof.
  unfold bytesContains. pose proof (len_nonneg k). destruct (len k =? 0) eqn:E0.
  - assert (vis k = []) as -> by (unfold len, blen in *; destruct (vis k); [reflexivity|cbn in *; lia]).
    destruct (vis s); reflexivity.
  - destruct (len k >? len s) eqn:E1.
    + rewrite strings_Contains_short; [reflexivity|]. unfold len, blen in *. lia.
    + rewrite bytesContains_loop_spec by lia. reflexivity.
Qed.

Lemma bytesContains_no_panic s k : bytesContains s k <> Panic.
Proof. rewrite bytesContains_spec. discriminate. Qed.

(* ================================================================================================ *)
(* containsIgnoreCase = case-insensitive substring *)

Lemma lower_byte_ascii c : b2z (lower_byte c) = ascii_lower c.
Proof.
  unfold lower_byte, ascii_lower. cbv zeta. pose proof (b2z_range c).
  destruct ((65 <=? b2z c) && (b2z c <=? 90)) eqn:E; [|reflexivity].
  rewrite b2z_z2b. apply Z.mod_small. lia.
Qed.

Lemma is_prefix_lower k : forall s, is_prefix (map lower_byte k) (map lower_byte s) = ci_prefix k s.
Proof.
  induction k as [|a k IH]; intros [|b s]; cbn [map is_prefix ci_prefix]; try reflexivity.
  rewrite !lower_byte_ascii, IH. reflexivity.
Qed.

Lemma strings_Contains_lower k : forall s,
  strings_Contains (map lower_byte s) (map lower_byte k) = ci_contains s k.
Proof.
  induction s as [|x s IH]; cbn [map strings_Contains ci_contains].
  - change (@nil byte) with (map lower_byte []) at 1. rewrite is_prefix_lower. reflexivity.
  - change (lower_byte x :: map lower_byte s) with (map lower_byte (x :: s)). rewrite is_prefix_lower, IH. reflexivity.
Qed.

Lemma containsIgnoreCase_spec s k : containsIgnoreCase s k = Ok (ci_contains s k).
Proof. unfold containsIgnoreCase. rewrite bytesContains_spec. cbn [exact vis]. rewrite strings_Contains_lower. reflexivity. Qed.

(* an exact occurrence is in particular a case-insensitive one: the strings.Contains test is redundant *)
Lemma is_prefix_ci k : forall s, is_prefix k s = true -> ci_prefix k s = true.
Proof.
  induction k as [|a k IH]; intros [|b s]; cbn [is_prefix ci_prefix]; auto.
  intros H. apply andb_true_iff in H as [H1 H2]. apply Z.eqb_eq, b2z_inj in H1. subst.
  rewrite Z.eqb_refl. apply IH. exact H2.
Qed.
Lemma strings_Contains_ci k : forall s, strings_Contains s k = true -> ci_contains s k = true.
Proof.
  induction s as [|x s IH]; cbn [strings_Contains ci_contains]; intros H; apply orb_true_iff in H as [H|H].
  - rewrite is_prefix_ci by exact H. reflexivity.
  - discriminate.
  - rewrite is_prefix_ci by exact H. reflexivity.
  - rewrite IH by exact H. apply orb_true_r.
Qed.

(* the window reading: some window of s equals k after lower-casing ASCII letters *)
Lemma ci_prefix_window k : forall s,
  ci_prefix k s = true <->
  (length k <= length s)%nat /\ map ascii_lower (firstn (length k) s) = map ascii_lower k.
Proof.
  induction k as [|a k IH]; intros [|b s]; cbn [ci_prefix length firstn map].
  - split; auto with arith.
  - split; [intros _; split; [lia|reflexivity]|reflexivity].
  - split; [discriminate|intros [H _]; lia].
  - rewrite andb_true_iff, IH, Z.eqb_eq. split.
    + intros [E [H1 H2]]. split; [lia|]. rewrite H2. congruence.
    + intros [H1 H2]. inversion H2. auto with arith.
Qed.

Lemma ci_contains_window_nat k : forall s,
  ci_contains s k = true <->
  exists n, (n + length k <= length s)%nat /\ map ascii_lower (firstn (length k) (skipn n s)) = map ascii_lower k.
Proof.
  induction s as [|x s IH]; cbn [ci_contains].
  - rewrite orb_false_r, ci_prefix_window. split.
    + intros [H1 H2]. exists 0%nat. auto.
    + intros (n & H1 & H2). cbn [length] in *. assert (n = 0%nat) as -> by lia. auto.
  - rewrite orb_true_iff, ci_prefix_window, IH. split.
    + intros [[H1 H2]|(n & H1 & H2)]; [exists 0%nat; auto|]. exists (S n). cbn [length skipn]. split; [lia|exact H2].
    + intros ([|n] & H1 & H2); [left; auto|]. right. exists n. cbn [length skipn] in *. split; [lia|exact H2].
Qed.

Lemma ci_contains_window s k :
  ci_contains s k = true <->
  exists i, 0 <= i /\ i + blen k <= blen s /\ map ascii_lower (sub s i (i + blen k)) = map ascii_lower k.
Proof.
  rewrite ci_contains_window_nat. unfold sub, blen. split.
  - intros (n & H1 & H2). exists (Z.of_nat n). split; [lia|]. split; [lia|].
    rewrite Nat2Z.id. replace (Z.to_nat (Z.of_nat n + Z.of_nat (length k) - Z.of_nat n)) with (length k) by lia. exact H2.
  - intros (i & H0 & H1 & H2). exists (Z.to_nat i). split; [lia|].
    replace (Z.to_nat (i + Z.of_nat (length k) - i)) with (length k) in H2 by lia. exact H2.
Qed.

(* ================================================================================================ *)
Section Scan.
  Variable dres : Type.
  Variable show : gval -> bytes.
  Notation Detector := (Detector dres).
  Notation SecretFinding := (SecretFinding dres).

  Lemma hasKeyword_spec data kws : hasKeyword data kws = Ok (existsb (ci_contains data) kws).
  Proof.
    induction kws as [|kw r IH]; [reflexivity|]. cbn [hasKeyword existsb].
    destruct (strings_Contains data kw) eqn:E.
    - rewrite (strings_Contains_ci _ _ E). reflexivity.
    - rewrite containsIgnoreCase_spec. cbn [bind]. destruct (ci_contains data kw); [reflexivity|]. exact IH.
  Qed.

  Lemma ScanString_spec (dets : list Detector) data :
    ScanString dres dets data = Ok (flat_map (fun det => det_results dres det data) dets).
  Proof.
    induction dets as [|det ds IH]; [reflexivity|]. cbn [ScanString flat_map].
    rewrite hasKeyword_spec. cbn [bind]. unfold det_results at 1, prefilter.
    destruct (Keywords det) as [|kw kws] eqn:EK.
    - cbn [existsb negb length Z.of_nat Z.ltb andb]. cbn.
      destruct (FromData det data); [rewrite IH; reflexivity|exact IH].
    - assert (L : (0 <? Z.of_nat (length (kw :: kws))) = true) by (cbn [length]; lia). rewrite L, andb_true_r.
      destruct (existsb (ci_contains data) (kw :: kws)); cbn [negb].
      + destruct (FromData det data); [rewrite IH; reflexivity|exact IH].
      + exact IH.
  Qed.

  Lemma scan_cols_spec dets dbn t i r keys :
    scan_cols dres show dets dbn t i r keys =
    Ok (flat_map (fun c => map (finding dres dbn (t_name t) c i) (cell_results dres dets (show (row_get r c)))) keys).
  Proof.
    induction keys as [|c ks IH]; [reflexivity|]. cbn [scan_cols flat_map]. unfold cell_results at 1.
    destruct (blen (show (row_get r c)) <? 8); [exact IH|].
    rewrite ScanString_spec, IH. reflexivity.
  Qed.

  Lemma scan_rows_spec dets dbn t rows : forall i,
    scan_rows dres show dets dbn t rows i = Ok (flat_map (row_findings dres show dets dbn t) (indexed i rows)).
  Proof.
    induction rows as [|r rs IH]; intros i; [reflexivity|]. cbn [scan_rows indexed flat_map].
    rewrite scan_cols_spec, IH, rowKeys_col_order. reflexivity.
  Qed.

  Lemma scanTable_spec dets dbn t : scanTable dres show dets dbn t = Ok (table_findings dres show dets dbn t).
  Proof. apply scan_rows_spec. Qed.

  Lemma scan_tables_spec dets dbn ts :
    scan_tables dres show dets dbn ts = Ok (flat_map (table_findings dres show dets dbn) ts).
  Proof.
    induction ts as [|t ts IH]; [reflexivity|]. cbn [scan_tables flat_map]. rewrite scanTable_spec, IH. reflexivity.
  Qed.

  Lemma ScanDatabaseDump_spec dets db : ScanDatabaseDump dres show dets db = Ok (db_findings dres show dets db).
  Proof. apply scan_tables_spec. Qed.

  Lemma ScanDumpResult_spec dets d : ScanDumpResult dres show dets d = Ok (expected_scan dres show dets d).
  Proof.
    induction d as [|db dbs IH]; [reflexivity|]. cbn [ScanDumpResult]. rewrite ScanDatabaseDump_spec, IH. reflexivity.
  Qed.

  (* ---------- the findings read as a set ---------- *)
  Lemma cell_results_In (dets : list Detector) s x :
    In x (cell_results dres dets s) <->
    8 <= blen s /\ exists det found, In det dets /\ prefilter dres det s = true /\ FromData det s = Some found /\ In x found.
  Proof.
    unfold cell_results. destruct (blen s <? 8) eqn:E.
    - split; [intros []|intros [H _]; lia].
    - rewrite in_flat_map. split.
      + intros (det & Hd & Hx). split; [lia|]. unfold det_results in Hx.
        destruct (prefilter dres det s) eqn:EP; [|destruct Hx].
        destruct (FromData det s) as [found|] eqn:EF; [|destruct Hx]. exists det, found. auto.
      + intros (_ & det & found & Hd & HP & HF & Hx). exists det. split; [exact Hd|].
        unfold det_results. rewrite HP, HF. exact Hx.
  Qed.

  Lemma prefilter_true (det : Detector) s :
    prefilter dres det s = true <-> Keywords det = [] \/ exists k, In k (Keywords det) /\ ci_contains s k = true.
  Proof.
    unfold prefilter. destruct (Keywords det) as [|kw kws] eqn:E.
    - split; auto.
    - rewrite existsb_exists. split; [auto|]. intros [H|H]; [discriminate|exact H].
  Qed.

  Lemma expected_scan_In dets d f :
    In f (expected_scan dres show dets d) <->
    exists dbn tn i c r v x, cell_at d dbn tn i c r v /\ In x (cell_results dres dets (show v)) /\
                             f = finding dres dbn tn c i x.
  Proof.
    unfold expected_scan, db_findings, table_findings, row_findings, cell_at. split.
    - intros H. apply in_flat_map in H as (db & Hdb & H). apply in_flat_map in H as (t & Ht & H).
      apply in_flat_map in H as ([i r] & Hir & H). cbn [fst snd] in H.
      apply in_flat_map in H as (c & Hc & H). apply in_map_iff in H as (x & <- & Hx).
      apply indexed_In in Hir as [Hi Hn]. rewrite Z.sub_0_r in Hn.
      apply col_order_In, row_find_has_key in Hc. unfold has_key in Hc.
      destruct (row_find r c) as [v|] eqn:Ev; [|discriminate].
      exists (d_name db), (t_name t), i, c, r, v, x. split; [exists db, t; auto 10|].
      split; [|reflexivity]. unfold row_get in Hx. rewrite Ev in Hx. exact Hx.
    - intros (dbn & tn & i & c & r & v & x & (db & t & Hdb & <- & Ht & <- & Hi & Hn & Hv) & Hx & ->).
      apply in_flat_map. exists db. split; [exact Hdb|]. apply in_flat_map. exists t. split; [exact Ht|].
      apply in_flat_map. exists (i, r). split; [apply indexed_In; rewrite Z.sub_0_r; auto|]. cbn [fst snd].
      apply in_flat_map. exists c. split.
      + apply col_order_In, row_find_has_key. unfold has_key. rewrite Hv. reflexivity.
      + apply in_map. unfold row_get. rewrite Hv. exact Hx.
  Qed.
End Scan.
