(* C15/MainProofs.v — the property-level statements, assembled from SearchProofs.v / SecretsProofs.v.
   Props/C15.v only restates them. *)
Require Import PG.Base.Bytes PG.Base.GoSlice PG.Base.Value PG.C15.Lib PG.C15.Types PG.C15.Model PG.C15.Spec.
Require Import PG.C15.SearchProofs PG.C15.SecretsProofs.
From Coq Require Import Permutation.

Definition with_max (o : SearchOptions) (n : Z) : SearchOptions :=
  {| Pattern := Pattern o; CaseSensitive := CaseSensitive o; IncludeRow := IncludeRow o; MaxResults := n |}.

Section Main.
  Variable regex : Type.
  Variable compile : bytes -> option regex.
  Variable matches : regex -> bytes -> bool.
  Variable show : gval -> bytes.
  Variable DumpDataDir : bytes -> option DumpResult.
  Notation SearchInDump := (SearchInDump regex compile matches show).
  Notation Search := (Search regex compile matches show DumpDataDir).
  Notation all_hits := (all_hits regex matches show).
  Notation Matches := (Matches regex matches show).

  Lemma search_exact d o re :
    compile (pattern_for o) = Some re -> MaxResults o <= 0 ->
    SearchInDump (Some d) (Some o) = Ok (inr (all_hits re o d)) /\
    (forall h, In h (all_hits re o d) <->
               exists dbn tn i c r v, cell_at d dbn tn i c r v /\ Matches re v /\ h = hit o dbn tn i r c).
  Proof.
    intros Hc Hm. split.
    - rewrite SearchInDump_spec. unfold expected_search. rewrite Hc. unfold cut.
      destruct (0 <? MaxResults o) eqn:E; [lia|reflexivity].
    - intros h. rewrite all_hits_In. split.
      + intros (dbn & tn & i & c & r & v & H1 & H2 & H3). exists dbn, tn, i, c, r, v.
        split; [exact H1|]. split; [apply cell_matches_Matches; exact H2|exact H3].
      + intros (dbn & tn & i & c & r & v & H1 & H2 & H3). exists dbn, tn, i, c, r, v.
        split; [exact H1|]. split; [apply cell_matches_Matches; exact H2|exact H3].
  Qed.

  Lemma search_max d o re :
    compile (pattern_for o) = Some re -> 0 < MaxResults o ->
    SearchInDump (Some d) (Some o) = Ok (inr (firstn (Z.to_nat (MaxResults o)) (all_hits re o d))) /\
    Z.of_nat (length (firstn (Z.to_nat (MaxResults o)) (all_hits re o d))) <= MaxResults o.
  Proof.
    intros Hc Hm. split.
    - rewrite SearchInDump_spec. unfold expected_search. rewrite Hc. unfold cut.
      destruct (0 <? MaxResults o) eqn:E; [reflexivity|lia].
    - rewrite firstn_length. lia.
  Qed.

  (* the limited run is a prefix of the unlimited one: which hits survive is determined *)
  Lemma search_max_prefix d o l0 n :
    SearchInDump (Some d) (Some (with_max o 0)) = Ok (inr l0) -> 0 < n ->
    SearchInDump (Some d) (Some (with_max o n)) = Ok (inr (firstn (Z.to_nat n) l0)).
  Proof.
    rewrite !SearchInDump_spec. unfold expected_search.
    change (pattern_for (with_max o 0)) with (pattern_for o). change (pattern_for (with_max o n)) with (pattern_for o).
    destruct (compile (pattern_for o)) as [re|]; [|discriminate].
    intros H Hn. inversion H as [H']. unfold cut. cbn [MaxResults with_max].
    destruct (0 <? n) eqn:E; [|lia]. reflexivity.
  Qed.

  Lemma search_case o :
    effective_pattern o = (if CaseSensitive o then Pattern o else ci_prefix_str ++ Pattern o) /\
    (compile (effective_pattern o) = None ->
       (forall result, SearchInDump result (Some o) = Ok (inl EInvalidPattern)) /\
       (forall dir, Search dir (Some o) = inl EInvalidPattern)).
  Proof.
    split; [apply effective_pattern_spec|]. intros H. split; intros x.
    - unfold Model.SearchInDump. rewrite H. reflexivity.
    - unfold Model.Search. rewrite H. reflexivity.
  Qed.
End Main.

Section MainScan.
  Variable dres : Type.
  Variable show : gval -> bytes.
  Notation Detector := (Detector dres).
  Notation ScanDumpResult := (ScanDumpResult dres show).
  Notation finding := (finding dres).

  Lemma scan_complete (dets : list Detector) d dbn tn i c r v det found x :
    cell_at d dbn tn i c r v -> 8 <= blen (show v) -> In det dets ->
    (Keywords det = [] \/ exists k, In k (Keywords det) /\ ci_contains (show v) k = true) ->
    FromData det (show v) = Some found -> In x found ->
    exists fs, ScanDumpResult dets d = Ok fs /\ In (finding dbn tn c i x) fs.
  Proof.
    intros Hcell Hlen Hdet Hkw Hfd Hx. eexists. split; [apply ScanDumpResult_spec|].
    apply expected_scan_In. exists dbn, tn, i, c, r, v, x. split; [exact Hcell|]. split; [|reflexivity].
    apply cell_results_In. split; [exact Hlen|]. exists det, found.
    split; [exact Hdet|]. split; [apply prefilter_true; exact Hkw|]. auto.
  Qed.

  Lemma scan_sound (dets : list Detector) d fs f :
    ScanDumpResult dets d = Ok fs -> In f fs ->
    exists c r v det found,
      cell_at d (f_database f) (f_table f) (f_rowindex f) c r v /\ f_column f = c /\
      8 <= blen (show v) /\ In det dets /\ FromData det (show v) = Some found /\ In (f_result f) found.
  Proof.
    rewrite ScanDumpResult_spec. intros H Hf. inversion H; subst fs. clear H.
    apply expected_scan_In in Hf as (dbn & tn & i & c & r & v & x & Hcell & Hx & ->).
    apply cell_results_In in Hx as (Hlen & det & found & Hdet & _ & Hfd & Hx).
    exists c, r, v, det, found. cbn. auto 10.
  Qed.

  (* the wording of the property: a detector that reports token t on every string containing t *)
  Lemma scan_token (dets : list Detector) d dbn tn i c r v det k t (raw : dres -> bytes) :
    cell_at d dbn tn i c r v -> In det dets ->
    (forall s, strings_Contains s t = true ->
               exists found x, FromData det s = Some found /\ In x found /\ raw x = t) ->
    In k (Keywords det) -> ci_contains (show v) k = true -> 8 <= blen (show v) ->
    strings_Contains (show v) t = true ->
    exists fs f, ScanDumpResult dets d = Ok fs /\ In f fs /\
                 f_database f = dbn /\ f_table f = tn /\ f_rowindex f = i /\ f_column f = c /\ raw (f_result f) = t.
  Proof.
    intros Hcell Hdet Horacle Hk Hci Hlen Ht.
    destruct (Horacle _ Ht) as (found & x & Hfd & Hx & Hraw).
    destruct (scan_complete dets d dbn tn i c r v det found x) as (fs & Hfs & Hin); auto.
    { right. exists k. auto. }
    exists fs, (finding dbn tn c i x). cbn. auto 10.
  Qed.
End MainScan.
