(* C15/Lib.v — helpers that would belong in a shared library (Base/SortPerm.v of the design):
   bytewise string order and equality (Go's == and < on strings), insertion sort with
   "sorting is independent of the input order", a nested induction principle for gval. *)
Require Import PG.Base.Bytes PG.Base.Value.
From Coq Require Import Permutation Sorted.

(* ---------- Go string equality / order (bytewise) ---------- *)
Fixpoint bytes_eqb (a b : bytes) : bool :=
  match a, b with
  | [], [] => true
  | x :: a', y :: b' => (b2z x =? b2z y) && bytes_eqb a' b'
  | _, _ => false
  end.

Fixpoint bytes_leb (a b : bytes) : bool :=
  match a, b with
  | [], _ => true
  | _ :: _, [] => false
  | x :: a', y :: b' =>
      if b2z x <? b2z y then true else if b2z y <? b2z x then false else bytes_leb a' b'
  end.

Lemma bytes_eqb_eq a b : bytes_eqb a b = true <-> a = b.
Proof.
  revert b; induction a as [|x a IH]; intros [|y b]; cbn [bytes_eqb]; split; intros H;
    try reflexivity; try discriminate.
  - apply andb_true_iff in H as [H1 H2]. apply Z.eqb_eq, b2z_inj in H1. apply IH in H2. congruence.
  - inversion H; subst. rewrite Z.eqb_refl. cbn. apply IH. reflexivity.
Qed.
Lemma bytes_eqb_refl a : bytes_eqb a a = true.
Proof. apply bytes_eqb_eq. reflexivity. Qed.
Lemma bytes_eqb_neq a b : bytes_eqb a b = false <-> a <> b.
Proof.
  split; intros H.
  - intros E. apply bytes_eqb_eq in E. congruence.
  - destruct (bytes_eqb a b) eqn:E; [|reflexivity]. apply bytes_eqb_eq in E. contradiction.
Qed.
Lemma bytes_eqb_sym a b : bytes_eqb a b = bytes_eqb b a.
Proof.
  destruct (bytes_eqb a b) eqn:E.
  - apply bytes_eqb_eq in E. subst. symmetry. apply bytes_eqb_refl.
  - apply bytes_eqb_neq in E. symmetry. apply bytes_eqb_neq. congruence.
Qed.

Lemma bytes_leb_total a b : bytes_leb a b = true \/ bytes_leb b a = true.
Proof.
  revert b; induction a as [|x a IH]; intros [|y b]; cbn [bytes_leb]; auto.
  destruct (b2z x <? b2z y) eqn:E1; destruct (b2z y <? b2z x) eqn:E2; auto; lia.
Qed.
Lemma bytes_leb_antisym a b : bytes_leb a b = true -> bytes_leb b a = true -> a = b.
Proof.
  revert b; induction a as [|x a IH]; intros [|y b]; cbn [bytes_leb]; auto; try discriminate.
  destruct (b2z x <? b2z y) eqn:E1; destruct (b2z y <? b2z x) eqn:E2; try discriminate; try lia.
  intros H1 H2. assert (b2z x = b2z y) by lia. apply b2z_inj in H. f_equal; auto.
Qed.
Lemma bytes_leb_trans a b c : bytes_leb a b = true -> bytes_leb b c = true -> bytes_leb a c = true.
Proof.
  revert b c; induction a as [|x a IH]; intros [|y b] [|z c]; cbn [bytes_leb]; auto; try discriminate.
  destruct (b2z x <? b2z y) eqn:E1; destruct (b2z y <? b2z x) eqn:E2;
  destruct (b2z y <? b2z z) eqn:E3; destruct (b2z z <? b2z y) eqn:E4;
  destruct (b2z x <? b2z z) eqn:E5; destruct (b2z z <? b2z x) eqn:E6;
    try discriminate; try lia; auto.
  apply IH.
Qed.

(* ---------- membership by bytes_eqb ---------- *)
Definition memb (k : bytes) (l : list bytes) : bool := existsb (bytes_eqb k) l.
Lemma memb_In k l : memb k l = true <-> In k l.
Proof.
  unfold memb. rewrite existsb_exists. split.
  - intros (x & Hx & E). apply bytes_eqb_eq in E. subst. exact Hx.
  - intros H. exists k. split; [exact H|apply bytes_eqb_refl].
Qed.
Lemma memb_false k l : memb k l = false <-> ~ In k l.
Proof.
  split; intros H.
  - intros Hin. apply memb_In in Hin. congruence.
  - destruct (memb k l) eqn:E; [|reflexivity]. apply memb_In in E. contradiction.
Qed.

(* ---------- insertion sort = sort.Strings (assumed to return the sorted permutation) ---------- *)
Fixpoint insert (x : bytes) (l : list bytes) : list bytes :=
  match l with
  | [] => [x]
  | y :: r => if bytes_leb x y then x :: l else y :: insert x r
  end.
Fixpoint isort (l : list bytes) : list bytes :=
  match l with [] => [] | x :: r => insert x (isort r) end.

Definition ble (a b : bytes) : Prop := bytes_leb a b = true.

Lemma insert_perm x l : Permutation (insert x l) (x :: l).
Proof.
  induction l as [|y r IH]; cbn [insert]; [reflexivity|].
  destruct (bytes_leb x y); [reflexivity|].
  rewrite IH. apply perm_swap.
Qed.
Lemma isort_perm l : Permutation (isort l) l.
Proof.
  induction l as [|x r IH]; cbn [isort]; [reflexivity|].
  rewrite insert_perm. constructor. exact IH.
Qed.
Lemma insert_sorted x l : StronglySorted ble l -> StronglySorted ble (insert x l).
Proof.
  induction 1 as [|y r Hs IH Hall]; cbn [insert]; [repeat constructor|].
  destruct (bytes_leb x y) eqn:E.
  - constructor; [constructor; assumption|].
    constructor; [exact E|].
    eapply Forall_impl; [|exact Hall]. intros z Hz. unfold ble in *. eapply bytes_leb_trans; eauto.
  - constructor; [exact IH|].
    assert (Hyx : ble y x). { destruct (bytes_leb_total x y) as [H|H]; [congruence|exact H]. }
    eapply Permutation_Forall; [symmetry; apply insert_perm|].
    constructor; assumption.
Qed.
Lemma isort_sorted l : StronglySorted ble (isort l).
Proof. induction l; cbn [isort]; [constructor|apply insert_sorted; assumption]. Qed.

Lemma sorted_perm_eq : forall l1 l2,
  StronglySorted ble l1 -> StronglySorted ble l2 -> Permutation l1 l2 -> l1 = l2.
Proof.
  induction l1 as [|x l1 IH]; intros l2 S1 S2 P.
  - apply Permutation_nil in P. subst. reflexivity.
  - destruct l2 as [|y l2]; [apply Permutation_sym, Permutation_nil in P; discriminate|].
    inversion S1 as [|? ? S1' A1]; inversion S2 as [|? ? S2' A2]; subst.
    assert (x = y).
    { assert (Hx : In x (y :: l2)) by (eapply Permutation_in; [exact P|left; reflexivity]).
      assert (Hy : In y (x :: l1)) by (eapply Permutation_in; [symmetry; exact P|left; reflexivity]).
      destruct Hx as [->|Hx]; [reflexivity|]. destruct Hy as [->|Hy]; [reflexivity|].
      rewrite Forall_forall in A1, A2. apply bytes_leb_antisym; [apply A1|apply A2]; assumption. }
    subst y. f_equal. apply IH; auto. eapply Permutation_cons_inv; exact P.
Qed.

(* the lemma behind "independent of the map iteration order" *)
Lemma isort_perm_eq l1 l2 : Permutation l1 l2 -> isort l1 = isort l2.
Proof.
  intros P. apply sorted_perm_eq; try apply isort_sorted.
  rewrite !isort_perm. exact P.
Qed.

(* ---------- nested induction on gval ---------- *)
Definition is_scalar (v : gval) : bool :=
  match v with
  | VNil | VStr _ | VBytes _ | VList _ | VListNil | VMap _ => false
  | _ => true
  end.

Section GvalInd.
  Variable P : gval -> Prop.
  Hypothesis HNil : P VNil.
  Hypothesis HStr : forall s, P (VStr s).
  Hypothesis HBytes : forall s, P (VBytes s).
  Hypothesis HListNil : P VListNil.
  Hypothesis HScalar : forall v, is_scalar v = true -> P v.
  Hypothesis HList : forall l, Forall P l -> P (VList l).
  Hypothesis HMap : forall m, Forall (fun p => P (snd p)) m -> P (VMap m).

  Fixpoint gval_nested_ind (v : gval) : P v :=
    match v with
    | VNil => HNil
    | VStr s => HStr s
    | VBytes s => HBytes s
    | VListNil => HListNil
    | VList l =>
        HList l ((fix go (l : list gval) : Forall P l :=
                    match l with
                    | [] => Forall_nil P
                    | x :: r => Forall_cons x (gval_nested_ind x) (go r)
                    end) l)
    | VMap m =>
        HMap m ((fix go (m : list (bytes * gval)) : Forall (fun p => P (snd p)) m :=
                   match m with
                   | [] => Forall_nil _
                   | p :: r => Forall_cons p (gval_nested_ind (snd p)) (go r)
                   end) m)
    | VBool b => HScalar (VBool b) eq_refl
    | VI16 z => HScalar (VI16 z) eq_refl
    | VI32 z => HScalar (VI32 z) eq_refl
    | VI64 z => HScalar (VI64 z) eq_refl
    | VInt z => HScalar (VInt z) eq_refl
    | VU16 z => HScalar (VU16 z) eq_refl
    | VU32 z => HScalar (VU32 z) eq_refl
    | VU64 z => HScalar (VU64 z) eq_refl
    | VF32 z => HScalar (VF32 z) eq_refl
    | VF64 z => HScalar (VF64 z) eq_refl
    end.
End GvalInd.
