(* C15: the convenience entry points of search.go / secrets.go that wrap the modelled ones —
     QuickSearch      (search.go:194-200)  Search with regexp.QuoteMeta(pattern), case-insensitive, rows attached
     ScanForSecrets   (secrets.go:129-137) DumpDataDir, then ScanDumpResult with a fresh scanner
     SearchSecrets    (search.go:205-230)  ScanForSecrets re-shaped into SearchResult records
   and regexp.QuoteMeta itself (Go library: every byte of `\.+*?()|[]{}^$` gets a backslash in front; everything else,
   including bytes >= 0x80, is copied).  The regular-expression engine stays the Section oracle of Model.v; what is
   proved about QuoteMeta is what does not need its semantics: the quoted text is an escaped literal that reads back to
   the original text (so it contains no unescaped metacharacter). *)
Require Import PG.Base.Bytes PG.Base.GoSlice PG.Base.Value PG.C15.Lib PG.C15.Types PG.C15.Model PG.C15.Spec
  PG.C15.SearchProofs PG.C15.SecretsProofs PG.C15.MainProofs.

(* regexp/regexp.go: specialBytes *)
Definition special_codes : list Z := [92; 46; 43; 42; 63; 40; 41; 124; 91; 93; 123; 125; 94; 36].
Definition special (b : byte) : bool := existsb (fun z => b2z b =? z) special_codes.
Definition x5c : byte := z2b 92.

Fixpoint QuoteMeta (s : bytes) : bytes :=
  match s with
  | [] => []
  | b :: r => if special b then x5c :: b :: QuoteMeta r else b :: QuoteMeta r
  end.

(* reading an escaped literal: a backslash takes the next byte as it is, an unescaped metacharacter is not a literal *)
Fixpoint unquote_fuel (fuel : nat) (s : bytes) : option bytes :=
  match fuel with
  | O => match s with [] => Some [] | _ => None end
  | S f =>
      match s with
      | [] => Some []
      | b :: r =>
          if b2z b =? 92 then
            match r with
            | [] => None
            | c :: r' => option_map (cons c) (unquote_fuel f r')
            end
          else if special b then None
          else option_map (cons b) (unquote_fuel f r)
      end
  end.
Definition unquote (s : bytes) : option bytes := unquote_fuel (length s) s.

Lemma special_backslash b : b2z b = 92 -> special b = true.
Proof. intros H. unfold special, special_codes. cbn [existsb]. rewrite H. reflexivity. Qed.

Lemma unquote_QuoteMeta_fuel : forall s fuel, (length (QuoteMeta s) <= fuel)%nat -> unquote_fuel fuel (QuoteMeta s) = Some s.
Proof.
  induction s as [|b r IH]; intros fuel L.
  - destruct fuel; reflexivity.
  - cbn [QuoteMeta] in *. destruct (special b) eqn:E.
    + cbn [length] in L. destruct fuel as [|f]; [lia|]. cbn [unquote_fuel].
      change (b2z x5c =? 92) with true. cbv iota.
      rewrite (IH f) by lia. reflexivity.
    + cbn [length] in L. destruct fuel as [|f]; [lia|]. cbn [unquote_fuel].
      destruct (b2z b =? 92) eqn:E2.
      * apply Z.eqb_eq in E2. rewrite (special_backslash b E2) in E. discriminate E.
      * rewrite E. rewrite (IH f) by lia. reflexivity.
Qed.

Theorem unquote_QuoteMeta s : unquote (QuoteMeta s) = Some s.
Proof. apply unquote_QuoteMeta_fuel. lia. Qed.

Lemma QuoteMeta_length s : (length s <= length (QuoteMeta s) <= 2 * length s)%nat.
Proof. induction s as [|b r IH]; cbn [QuoteMeta length]; [lia|]. destruct (special b); cbn [length]; lia. Qed.

Lemma QuoteMeta_plain s : forallb (fun b => negb (special b)) s = true -> QuoteMeta s = s.
Proof.
  induction s as [|b r IH]; intros H; [reflexivity|]. cbn [forallb] in H. apply andb_true_iff in H. destruct H as [H1 H2].
  cbn [QuoteMeta]. destruct (special b); [discriminate H1|]. rewrite (IH H2). reflexivity.
Qed.

Section SearchWrappers.
  Variable regex : Type.
  Variable compile : bytes -> option regex.
  Variable matches : regex -> bytes -> bool.
  Variable show : gval -> bytes.
  Variable DumpDataDir : bytes -> option DumpResult.

  Definition quick_opts (pattern : bytes) : SearchOptions :=
    {| Pattern := QuoteMeta pattern; CaseSensitive := false; IncludeRow := true; MaxResults := 0 |}.

  (* search.go:194-200 *)
  Definition QuickSearch (dataDir pattern : bytes) : serr + list SearchResult :=
    Search regex compile matches show DumpDataDir dataDir (Some (quick_opts pattern)).

  Lemma QuickSearch_spec dir d p : DumpDataDir dir = Some d ->
    QuickSearch dir p = expected_search regex compile matches show d (quick_opts p).
  Proof. intros H. unfold QuickSearch. apply Search_spec. exact H. Qed.

  (* every cell matching the quoted literal case-insensitively, once, with its row attached, no cut *)
  Lemma QuickSearch_exact dir d p re : DumpDataDir dir = Some d ->
    compile (ci_prefix_str ++ QuoteMeta p) = Some re ->
    QuickSearch dir p = inr (all_hits regex matches show re (quick_opts p) d) /\
    (forall h, In h (all_hits regex matches show re (quick_opts p) d) <->
       exists dbn tn i c r v, cell_at d dbn tn i c r v /\ Matches regex matches show re v /\
                              h = {| sr_database := dbn; sr_table := tn; sr_column := c; sr_rownum := i;
                                     sr_value := row_get r c; sr_row := Some r |}).
  Proof.
    intros Hd Hc. split.
    - rewrite (QuickSearch_spec dir d p Hd). unfold expected_search, pattern_for. cbn [quick_opts CaseSensitive Pattern MaxResults].
      rewrite Hc. reflexivity.
    - intros h. destruct (search_exact regex compile matches show d (quick_opts p) re) as [_ H]; [exact Hc|cbn; lia|].
      rewrite H. unfold hit. cbn [quick_opts IncludeRow]. reflexivity.
  Qed.

  Lemma QuickSearch_invalid dir p : compile (ci_prefix_str ++ QuoteMeta p) = None -> QuickSearch dir p = inl EInvalidPattern.
  Proof.
    intros H. unfold QuickSearch, Search, effective_pattern. cbn [quick_opts CaseSensitive Pattern negb]. rewrite H. reflexivity.
  Qed.
End SearchWrappers.

Section SecretWrappers.
  Variable dres : Type.
  Variable show : gval -> bytes.
  Variable DumpDataDir : bytes -> option DumpResult.      (* with the caller's Options; None = error *)
  Variable dets : list (Detector dres).                    (* NewSecretScanner(): the default detector list *)

  (* secrets.go:129-137 *)
  Definition ScanForSecrets (dataDir : bytes) : option (res (list (SecretFinding dres))) :=
    match DumpDataDir dataDir with
    | None => None
    | Some d => Some (ScanDumpResult dres show dets d)
    end.

  (* search.go:205-230: Database, Table, Column, RowNum copied; Value / Row made from the detector result *)
  Definition secret_result (f : SecretFinding dres) : bytes * bytes * bytes * Z * dres :=
    (f_database f, f_table f, f_column f, f_rowindex f, f_result f).
  Definition SearchSecrets (dataDir : bytes) : option (res (list (bytes * bytes * bytes * Z * dres))) :=
    match ScanForSecrets dataDir with
    | None => None
    | Some (Ok fs) => Some (Ok (map secret_result fs))
    | Some Panic => Some Panic
    end.

  Lemma ScanForSecrets_spec dir d : DumpDataDir dir = Some d ->
    ScanForSecrets dir = Some (Ok (expected_scan dres show dets d)).
  Proof. intros H. unfold ScanForSecrets. rewrite H. rewrite ScanDumpResult_spec. reflexivity. Qed.

  Lemma SearchSecrets_spec dir d : DumpDataDir dir = Some d ->
    SearchSecrets dir = Some (Ok (map secret_result (expected_scan dres show dets d))).
  Proof. intros H. unfold SearchSecrets. rewrite (ScanForSecrets_spec dir d H). reflexivity. Qed.

  Lemma wrappers_error dir : DumpDataDir dir = None -> ScanForSecrets dir = None /\ SearchSecrets dir = None.
  Proof. intros H. unfold SearchSecrets, ScanForSecrets. rewrite H. split; reflexivity. Qed.
End SecretWrappers.

(* non-vacuity: "a.b" quotes to "a\.b" and reads back *)
Example QuoteMeta_ex :
  QuoteMeta [z2b 97; z2b 46; z2b 98] = [z2b 97; z2b 92; z2b 46; z2b 98] /\
  unquote [z2b 97; z2b 92; z2b 46; z2b 98] = Some [z2b 97; z2b 46; z2b 98] /\
  unquote [z2b 97; z2b 46; z2b 98] = None.
Proof. vm_compute. auto. Qed.
