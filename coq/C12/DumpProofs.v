(* The access paths against the abstract cluster:
     DumpDataDir_ok     the data-directory dump (every Options) = expected_dump
     custom_reader      DumpDataDir = DumpDatabaseFromFiles per database with the reader  fn -> base/<oid>/<fn>
     dump_all_ok        the remote dump of a fresh client = expected_remote_all (= the dump minus the documented omissions)
     listings, lookups, query
   Hypotheses on the shared environment: a `range` visits every entry once (range_perm). *)
Require Import PG.Base.Bytes PG.Base.Value PG.C12.Lib PG.C12.Model PG.C12.Spec.
Require Import Coq.Sorting.Permutation.

Lemma flat_map_map {A B C} (f : B -> list C) (g : A -> B) l : flat_map f (map g l) = flat_map (fun x => f (g x)) l.
Proof. induction l; cbn; congruence. Qed.
Lemma flat_map_ext_in' {A B} (f g : A -> list B) l : (forall a, In a l -> f a = g a) -> flat_map f l = flat_map g l.
Proof. induction l as [|a l IH]; cbn; intros H; [reflexivity|]. rewrite H, IH; auto. Qed.
Lemma flat_map_if {A B} (p : A -> bool) (f : A -> B) l :
  flat_map (fun a => if p a then [f a] else []) l = map f (filter p l).
Proof. induction l as [|a l IH]; cbn; [reflexivity|]. destruct (p a); cbn; congruence. Qed.
Lemma find_key {A} (key : A -> Z) l r : NoDup (map key l) -> In r l -> find (fun x => key x =? key r) l = Some r.
Proof.
  induction l as [|x l IH]; cbn; intros ND HI; [contradiction|]. inversion ND; subst.
  destruct HI as [->|HI]; [rewrite Z.eqb_refl; reflexivity|].
  destruct (key x =? key r) eqn:Eq; [|auto]. exfalso. apply H1. apply Z.eqb_eq in Eq. rewrite Eq. apply in_map. exact HI.
Qed.
Lemma filter_map_comm {A B} (p : B -> bool) (f : A -> B) l : filter p (map f l) = map f (filter (fun a => p (f a)) l).
Proof. induction l as [|a l IH]; cbn; [reflexivity|]. destruct (p (f a)); cbn; congruence. Qed.

Lemma apply_opts_nil o : apply_opts o [] = [].
Proof.
  destruct o as [o|]; [|reflexivity]. unfold apply_opts.
  destruct (Z.of_nat (length (q_columns o)) >? 0); cbn [map]; destruct (_ && _); try reflexivity; apply firstn_nil.
Qed.

Definition range_perm (E : env) : Prop := forall l, Permutation (e_range_order E l) l.

Section DumpProofs.
Variable E : env.
Hypothesis RP : range_perm E.

Definition entry (r : arel) : Z * TableInfo := (r_filenode r, ti_of r).

(* ---------------------------------------------------------------- the class map, sorted *)
Lemma sorted_filenodes tables rels :
  Permutation tables (map entry rels) -> NoDup (map r_filenode rels) ->
  ksort (fun x => x) (map fst (e_range_order E tables)) = map r_filenode (ksort r_filenode rels).
Proof.
  intros P ND.
  assert (P2 : Permutation (map fst (e_range_order E tables)) (map r_filenode rels)).
  { rewrite (RP tables), P, map_map. cbn. reflexivity. }
  rewrite (ksort_unique (fun x => x) _ _ P2).
  - apply (ksort_map r_filenode (fun x => x)).
  - rewrite map_id. eapply Permutation_NoDup; [symmetry; exact P2|exact ND].
Qed.
Lemma sorted_tables tables rels :
  Permutation tables (map entry rels) -> NoDup (map r_filenode rels) ->
  ksort ti_filenode (map snd (e_range_order E tables)) = map ti_of (ksort r_filenode rels).
Proof.
  intros P ND.
  assert (P2 : Permutation (map snd (e_range_order E tables)) (map ti_of rels)).
  { rewrite (RP tables), P, map_map. cbn. reflexivity. }
  rewrite (ksort_unique ti_filenode _ _ P2).
  - apply (ksort_map ti_of ti_filenode).
  - eapply Permutation_NoDup; [apply Permutation_map; symmetry; exact P2|]. rewrite map_map. cbn. exact ND.
Qed.
Lemma class_get_entry tables rels r :
  Permutation tables (map entry rels) -> NoDup (map r_filenode rels) -> In r rels ->
  class_get tables (r_filenode r) = ti_of r.
Proof.
  intros P ND HI. unfold class_get. rewrite (zfind_in tables (r_filenode r) (ti_of r)); [reflexivity| |].
  - eapply Permutation_NoDup; [apply Permutation_map; symmetry; exact P|]. rewrite map_map. cbn. exact ND.
  - eapply Permutation_in; [symmetry; exact P|]. apply (in_map entry). exact HI.
Qed.

Lemma attrs_of_rel d r : NoDup (map r_oid (d_rels d)) -> In r (d_rels d) -> attrs_of d (r_oid r) = r_attrs r.
Proof. intros ND HI. unfold attrs_of. rewrite (find_key r_oid); auto. Qed.

(* ---------------------------------------------------------------- one table through the data-directory path *)
Lemma table_wanted_selected o r : table_wanted E o (ti_of r) = table_selected E o r.
Proof.
  unfold table_wanted, table_selected, ordinary. cbn [ti_of ti_kind ti_name].
  destruct (beq (r_kind r) s_r), (beq (r_kind r) []), (o_skipsys o), (has_prefix (r_name r) s_pg_),
           (beq (o_tablefilter o) []), (contains (e_ToLower E (r_name r)) (e_ToLower E (o_tablefilter o))); reflexivity.
Qed.
Lemma dumpTable_expected fs d r attrs o :
  realizes_rel E fs d r -> attrs = r_attrs r ->
  dumpTable E (r_filenode r) (ti_of r) attrs (Some (fun fn => fs (PBase (d_oid d) fn))) o = expected_table E o r.
Proof.
  intros R ->. unfold dumpTable, expected_table, rel_rows. cbn [ti_of ti_oid ti_name ti_kind].
  destruct (o_listonly o); [reflexivity|]. unfold realizes_rel in R.
  destruct (r_rows r) as [rows|].
  - destruct R as (data & -> & HR & H0). destruct (blen data =? 0) eqn:Eb.
    + rewrite H0 by lia. reflexivity.
    + rewrite HR. reflexivity.
  - rewrite R. reflexivity.
Qed.

Lemma DDF_tables v fs d o cd ad :
  wf_db d -> o_pgversion o = v ->
  Permutation (e_ParsePGClass E cd) (map entry (d_rels d)) ->
  (forall oid, e_ParsePGAttribute E ad v oid = attrs_of d oid) ->
  (forall r, In r (d_rels d) -> realizes_rel E fs d r) ->
  dd_tables (DumpDatabaseFromFiles E cd ad (Some (fun fn => fs (PBase (d_oid d) fn))) (Some o)) = expected_tables E o d.
Proof.
  intros (NDf & NDo & Hpos) Hv P HA HR. unfold DumpDatabaseFromFiles, expected_tables. cbn [withDefaults dd_tables].
  rewrite (sorted_filenodes _ _ P NDf), flat_map_map.
  rewrite (flat_map_ext_in' _ (fun r => if table_selected E o r then [expected_table E o r] else [])).
  - rewrite flat_map_if. f_equal. apply ksort_filter. exact NDf.
  - intros r Hr. apply ksort_in in Hr. rewrite (class_get_entry _ _ _ P NDf Hr), table_wanted_selected.
    destruct (table_selected E o r); [|reflexivity]. f_equal. apply dumpTable_expected; [auto|].
    cbn [ti_of ti_oid]. rewrite Hv, HA. apply attrs_of_rel; auto.
Qed.

(* ---------------------------------------------------------------- the data-directory dump *)
Lemma dump_db_expected v fs o d :
  wf_db d -> o_pgversion o = v -> realizes_db E v fs d ->
  dump_db E fs o (db_of d) = if db_selected o d then [expected_db E o d] else [].
Proof.
  intros W Hv (cd & ad & Hc & Hlen & P & Ha & HA & HR). unfold dump_db, db_selected. cbn [db_of db_name db_oid].
  destruct (has_prefix (d_name d) s_template); [reflexivity|]. cbn [negb andb].
  destruct (beq (o_dbfilter o) []); cbn [negb andb orb].
  - rewrite Hc, Ha. cbn [or_nil]. destruct (blen cd =? 0) eqn:Eb; [lia|].
    unfold expected_db. f_equal. f_equal. eapply DDF_tables; eauto.
  - destruct (beq (d_name d) (o_dbfilter o)); cbn [negb]; [|reflexivity].
    rewrite Hc, Ha. cbn [or_nil]. destruct (blen cd =? 0) eqn:Eb; [lia|].
    unfold expected_db. f_equal. f_equal. eapply DDF_tables; eauto.
Qed.

Theorem DumpDataDir_ok fs c opts :
  wf_cluster c -> realizes E (o_pgversion (withDefaults opts)) fs c ->
  DumpDataDir E fs opts = Some (expected_dump E c opts).
Proof.
  intros (_ & _ & WF) (_ & (dd & Hf & Hp) & HD). unfold DumpDataDir, expected_dump. rewrite Hf, Hp. f_equal.
  rewrite flat_map_map. rewrite Forall_forall in WF.
  rewrite (flat_map_ext_in' _ (fun d => if db_selected (withDefaults opts) d then [expected_db E (withDefaults opts) d] else [])).
  - apply flat_map_if.
  - intros d Hd. eapply dump_db_expected; eauto.
Qed.

(* C12_custom_reader: the data-directory dump IS the custom-reader interface applied per database, with the files
   of base/<oid>/ as reader - for EVERY file system and environment (no well-formedness needed) *)
Theorem custom_reader fs opts :
  DumpDataDir E fs opts =
  match fs (PGlobal 1262) with
  | None => None
  | Some dbData =>
    let o := withDefaults opts in
    Some (flat_map (fun db =>
      if has_prefix (db_name db) s_template then [] else
      if negb (beq (o_dbfilter o) []) && negb (beq (db_name db) (o_dbfilter o)) then [] else
      match fs (PBase (db_oid db) 1259) with
      | None => []
      | Some classData =>
        if blen classData =? 0 then [] else
        let attrData := match fs (PBase (db_oid db) 1249) with Some a => a | None => [] end in
        let dump := DumpDatabaseFromFiles E classData attrData (Some (fun fn => fs (PBase (db_oid db) fn))) (Some o) in
        [{| dd_oid := db_oid db; dd_name := db_name db; dd_tables := dd_tables dump |}]
      end) (e_ParsePGDatabase E dbData))
  end.
Proof.
  unfold DumpDataDir. destruct (fs (PGlobal 1262)) as [dbData|]; [|reflexivity]. cbn zeta. f_equal.
  apply flat_map_ext. intros db. unfold dump_db.
  destruct (has_prefix (db_name db) s_template); [reflexivity|].
  destruct (negb (beq (o_dbfilter (withDefaults opts)) []) && negb (beq (db_name db) (o_dbfilter (withDefaults opts)))); [reflexivity|].
  destruct (fs (PBase (db_oid db) 1259)) as [cd|]; cbn [or_nil]; reflexivity.
Qed.

(* ---------------------------------------------------------------- the remote client (fresh-client reading) *)
Section Remote.
Variable fs : fsys.
Variable c : acluster.
Hypothesis WF : wf_cluster c.
Hypothesis R : realizes E (hint_of E fs) fs c.

Lemma p_dbs_expected : p_dbs E fs = expected_databases c.
Proof. destruct R as (_ & (dd & Hf & Hp) & _). unfold p_dbs, expected_databases. rewrite Hf. exact Hp. Qed.

Lemma wf_in d : In d (a_dbs c) -> wf_db d.
Proof. destruct WF as (_ & _ & F). rewrite Forall_forall in F. auto. Qed.
Lemma real_in d : In d (a_dbs c) -> realizes_db E (hint_of E fs) fs d.
Proof. destruct R as (_ & _ & F). auto. Qed.

Lemma p_tables_expected d : In d (a_dbs c) -> p_tables E fs (d_oid d) = expected_listing d.
Proof.
  intros Hd. destruct (real_in d Hd) as (cd & ad & Hc & Hlen & P & Ha & HA & HR). destruct (wf_in d Hd) as (NDf & _).
  unfold p_tables, p_class, expected_listing. rewrite Hc. apply sorted_tables; auto.
Qed.
Lemma p_attrs_expected d oid : In d (a_dbs c) -> p_attrs E fs (d_oid d) oid = attrs_of d oid.
Proof.
  intros Hd. destruct (real_in d Hd) as (cd & ad & Hc & Hlen & P & Ha & HA & HR).
  unfold p_attrs. rewrite Hc, Ha. apply HA.
Qed.
Lemma positive_attrs d r : In d (a_dbs c) -> In r (d_rels d) -> filter (fun a => ai_num a >? 0) (r_attrs r) = r_attrs r.
Proof.
  intros Hd Hr. destruct (wf_in d Hd) as (_ & _ & Hpos). destruct (Hpos r Hr) as (_ & Hp).
  induction (r_attrs r) as [|a l IH]; cbn; [reflexivity|].
  destruct (ai_num a >? 0) eqn:Ea; [f_equal; apply IH; intros; apply Hp; right; auto|].
  specialize (Hp a (or_introl eq_refl)). lia.
Qed.

Lemma p_query_expected d r o : In d (a_dbs c) -> In r (d_rels d) ->
  p_query E fs (d_oid d) (Some (ti_of r)) o = apply_opts o (rel_rows r).
Proof.
  intros Hd Hr. destruct (real_in d Hd) as (cd & ad & Hc & Hlen & P & Ha & HA & HR).
  destruct (wf_in d Hd) as (NDf & NDo & Hpos). destruct (Hpos r Hr) as (Hfn & _).
  unfold p_query. cbn [ti_of ti_filenode ti_oid]. destruct (r_filenode r =? 0) eqn:E0; [lia|].
  specialize (HR r Hr). unfold realizes_rel in HR. unfold rel_rows.
  rewrite p_attrs_expected, attrs_of_rel by auto.
  destruct (r_rows r) as [rows|].
  - destruct HR as (data & -> & HRr & _). rewrite HRr. reflexivity.
  - rewrite HR. symmetry. apply apply_opts_nil.
Qed.

Lemma p_dump_table_expected d r : In d (a_dbs c) -> In r (d_rels d) ->
  p_dump_table E fs (d_oid d) (ti_of r) = expected_table E (withDefaults None) r.
Proof.
  intros Hd Hr. unfold p_dump_table, expected_table. rewrite p_query_expected by auto.
  cbn [ti_of ti_oid ti_name ti_filenode ti_kind withDefaults o_listonly apply_opts].
  destruct (wf_in d Hd) as (_ & NDo & _).
  rewrite (p_attrs_expected d _ Hd), (attrs_of_rel d r NDo Hr), (positive_attrs d r Hd Hr). reflexivity.
Qed.

Lemma remote_wanted_selected r :
  remote_wanted (ti_of r) = table_selected E (withDefaults None) r && negb (has_prefix (r_name r) s_sql_).
Proof.
  unfold remote_wanted, table_selected, ordinary. cbn [ti_of ti_kind ti_name withDefaults o_skipsys o_tablefilter].
  rewrite beq_refl. destruct (beq (r_kind r) s_r), (beq (r_kind r) []), (has_prefix (r_name r) s_pg_),
    (has_prefix (r_name r) s_sql_); reflexivity.
Qed.

Lemma p_dump_tables_expected d : In d (a_dbs c) ->
  p_dump_tables E fs (d_oid d) (expected_listing d) = filter remote_keeps (expected_tables E (withDefaults None) d).
Proof.
  intros Hd. destruct (wf_in d Hd) as (NDf & _). unfold p_dump_tables, expected_listing, expected_tables.
  rewrite <- (ksort_filter r_filenode _ _ NDf).
  assert (IN : forall r, In r (ksort r_filenode (d_rels d)) -> In r (d_rels d)) by (intros r; apply ksort_in).
  induction (ksort r_filenode (d_rels d)) as [|r l IH]; [reflexivity|].
  cbn [map filter]. rewrite remote_wanted_selected.
  assert (Hr : In r (d_rels d)) by (apply IN; left; reflexivity).
  assert (IH' := IH (fun x Hx => IN x (or_intror Hx))). clear IH.
  destruct (table_selected E (withDefaults None) r); cbn [andb]; [|exact IH'].
  cbn [map filter]. unfold remote_keeps at 1. cbn [expected_table td_name td_rows withDefaults o_listonly].
  destruct (has_prefix (r_name r) s_sql_); cbn [negb andb]; [exact IH'|].
  cbn [map filter]. rewrite p_dump_table_expected by auto. cbn [expected_table td_rows withDefaults o_listonly].
  destruct (Z.of_nat (length (rel_rows r)) >? 0) eqn:E1; destruct (Z.of_nat (length (rel_rows r)) =? 0) eqn:E2; try lia;
    cbn [negb]; rewrite IH'; reflexivity.
Qed.

Lemma find_db_of d : In d (a_dbs c) -> find (fun x => db_oid x =? d_oid d) (map db_of (a_dbs c)) = Some (db_of d).
Proof.
  intros Hd. destruct WF as (ND & _). change (d_oid d) with (db_oid (db_of d)). apply find_key.
  - rewrite map_map. exact ND.
  - apply in_map. exact Hd.
Qed.

Lemma p_dump_database_expected d : In d (a_dbs c) ->
  p_dump_database E fs (d_oid d) = Some (restrict (expected_db E (withDefaults None) d)).
Proof.
  intros Hd. unfold p_dump_database. rewrite p_dbs_expected. unfold expected_databases. rewrite find_db_of by auto.
  rewrite p_tables_expected, p_dump_tables_expected by auto. reflexivity.
Qed.

Lemma hasClassFile_real d : In d (a_dbs c) -> hasClassFile fs (d_oid d) = true.
Proof.
  intros Hd. destruct (real_in d Hd) as (cd & ad & Hc & Hpos & _). unfold hasClassFile. rewrite Hc. lia.
Qed.

(* C12_remote_dump *)
Theorem dump_all_ok : p_dump_all E fs = expected_remote_all E c.
Proof.
  unfold p_dump_all, expected_remote_all, expected_dump. rewrite p_dbs_expected. unfold expected_databases.
  rewrite flat_map_map.
  rewrite (flat_map_ext_in' _ (fun d => if db_selected (withDefaults None) d
                                        then [restrict (expected_db E (withDefaults None) d)] else [])).
  - rewrite flat_map_if, map_map. reflexivity.
  - intros d Hd. unfold p_dump_all_db. cbn [db_of db_name db_oid]. unfold db_selected. cbn [withDefaults o_dbfilter]. rewrite beq_refl.
    destruct (has_prefix (d_name d) s_template); [reflexivity|]. cbn [negb andb orb].
    rewrite hasClassFile_real by auto. cbn [negb]. rewrite Bool.andb_false_r.
    rewrite p_dump_database_expected by auto. reflexivity.
Qed.

(* ---------------------------------------------------------------- query *)
Lemma apply_opts_expected rows cs n :
  apply_opts (Some {| q_columns := cs; q_limit := n |}) rows =
  let rows1 := match cs with [] => rows | _ => map (project cs) rows end in
  if n <=? 0 then rows1 else firstn (Z.to_nat n) rows1.
Proof.
  unfold apply_opts. cbn [q_columns q_limit].
  assert (E1 : (if Z.of_nat (length cs) >? 0 then map (project_row cs) rows else rows) =
               match cs with [] => rows | _ => map (project cs) rows end).
  { destruct cs; cbn [length]; [reflexivity|]. destruct (Z.of_nat (S (length cs)) >? 0) eqn:Ec; [reflexivity|lia]. }
  rewrite E1. cbn zeta. set (rows1 := match cs with [] => rows | _ => map (project cs) rows end).
  destruct (n <=? 0) eqn:En.
  - destruct (n >? 0) eqn:En2; [lia|reflexivity].
  - destruct (n >? 0) eqn:En2; [|lia]. cbn [andb].
    destruct (Z.of_nat (length rows1) >? n) eqn:El; [reflexivity|].
    rewrite firstn_all2; [reflexivity|lia].
Qed.
Theorem query_ok d r cs n : In d (a_dbs c) -> In r (d_rels d) ->
  p_query E fs (d_oid d) (Some (ti_of r)) (Some {| q_columns := cs; q_limit := n |}) = expected_query r cs n.
Proof. intros Hd Hr. rewrite p_query_expected by auto. apply apply_opts_expected. Qed.
Theorem query_all d r : In d (a_dbs c) -> In r (d_rels d) ->
  p_query E fs (d_oid d) (Some (ti_of r)) None = rel_rows r.
Proof. intros Hd Hr. rewrite p_query_expected by auto. reflexivity. Qed.

End Remote.

(* ---------------------------------------------------------------- by-name lookup: the exact name wins *)
Lemma find_exact {A} (name_of : A -> bytes) l x :
  NoDup (map name_of l) -> In x l -> find (fun y => beq (name_of y) (name_of x)) l = Some x.
Proof.
  induction l as [|y l IH]; cbn; intros ND HI; [contradiction|]. inversion ND; subst.
  destruct HI as [->|HI]; [rewrite beq_refl; reflexivity|].
  destruct (beq (name_of y) (name_of x)) eqn:Eq; [|auto]. exfalso. apply H1. apply beq_true in Eq. rewrite Eq.
  apply in_map. exact HI.
Qed.
Theorem lookup_exact {A} (name_of : A -> bytes) l x :
  NoDup (map name_of l) -> In x l -> lookup E name_of l (name_of x) = Some x.
Proof. intros ND HI. unfold lookup. rewrite find_exact; auto. Qed.
Theorem lookup_fold {A} (name_of : A -> bytes) l n :
  (forall x, In x l -> name_of x <> n) ->
  lookup E name_of l n = find (fun x => e_EqualFold E (name_of x) n) l.
Proof.
  intros H. unfold lookup. destruct (find (fun x => beq (name_of x) n) l) as [x|] eqn:Ef; [|reflexivity].
  apply find_some in Ef as [HI Eq]. apply beq_true in Eq. exfalso. eapply H; eauto.
Qed.

End DumpProofs.
