Require Import PG.Base.Bytes PG.Base.GoSlice PG.Base.Value PG.C02.Model PG.C02.Spec PG.C03.Model PG.C03.Spec PG.C03.Main PG.C09.Spec.
Require Import PG.C01.Lib PG.C01.Model PG.C01.Spec PG.C01.Inst PG.C01.Check.
Require PG.C12.Lib PG.C12.Model PG.C12.Spec PG.C12.Cli PG.C12.Inst.
Require Extraction. Require ExtrOcamlBasic.
Extraction "model.ml" ParsePGDatabase_i ParsePGClass_i ParsePGAttribute_i detectAttrSchema_i dumpTable_i
  DumpDatabaseFromFiles_i DumpDatabaseFromFiles_id DumpDataDir_i expected_dump_i expected_tables_i expected_row_hy
  enc_cluster enc_heap page_fits to_page live_rows rel_atts rel_cols dumpable detect_ok_attrs first_five_ok v15_looks_v16
  db_ds class_ds attr_ds attr_schema schemaPGDatabase schemaPGClass schemaPGAttrV15 schemaPGAttrV16
  map_get map_keys attrs_get ParseFile stored_tuple enc_tuple enc_page hy_decode cat_decode cat_len
  getOID getString toInt row_get withDefaults eff_opts find_dir find_file has_prefix contains lower_byte isort
  wf_cluster_b wf_cluster_relaxed_b
  PG.C12.Inst.m_DumpDataDir PG.C12.Inst.m_DumpDatabaseFromFiles PG.C12.Inst.m_ListDatabases PG.C12.Inst.m_NewRemoteClient
  PG.C12.Inst.m_run_calls PG.C12.Inst.m_run_calls_id PG.C12.Inst.m_result_string PG.C12.Inst.m_MarshalJSON
  PG.C12.Inst.m_SummaryString PG.C12.Inst.m_main PG.C12.Inst.m_dispatch PG.C12.Inst.m_run PG.C12.Inst.m_plain_dump
  PG.C12.Inst.abstract_of PG.C12.Inst.wf_acluster_b PG.C12.Inst.mk_role PG.C12.Inst.auth_file PG.C12.Inst.auth_ok
  PG.C12.Inst.x_creds PG.C12.Inst.x_answer PG.C12.Inst.x_dump PG.C12.Inst.x_list_databases PG.C12.Inst.x_cli
  PG.C12.Inst.i_env PG.C12.Inst.c12_decode PG.C12.Spec.restrict PG.C12.Model.row_keys PG.C12.Lib.row_get.
