(* C12/Expect.v - spec side: what a RemoteClient holding the abstract cluster c must answer to each call, written on
   the abstract cluster only (never on bytes, never through a parser): the listings, the by-name lookups (exact name
   first), query = firstn n (map (project cs) rows), the dumps = the data-directory dump minus the documented
   omissions, Summary, and Exec as the dispatch onto these.  creds = what pg_authid holds (None: no such file),
   ctl = the bytes of pg_control.  ExpectProofs.v proves that a fresh client (hence, by cache transparency, any
   client) answers exactly this. *)
Require Import PG.Base.Bytes PG.Base.Value PG.C12.Lib PG.C12.Model PG.C12.Spec.
Import Coq.Init.Datatypes Coq.Lists.List ListNotations.

Section Expect.
Variable E : env.
Variable c : acluster.
Variable creds : option (list AuthInfo).     (* None: no global/1260 *)
Variable ctl : option bytes.                 (* the bytes of global/pg_control; None: no such file *)

Definition x_version : bytes := match a_version c with Some v => e_TrimSpace E v | None => [] end.
Definition x_control : option (e_ControlFile E) := match ctl with Some d => e_ParseControlFile E d | None => None end.
Definition x_credentials : list AuthInfo := match creds with Some l => l | None => [] end.
Definition x_dbs : list DatabaseInfo := expected_databases c.
Definition x_database (n : bytes) : option DatabaseInfo := lookup E db_name x_dbs n.
Definition x_tables (db : Z) : list TableInfo := match find_adb c db with Some d => expected_listing d | None => [] end.
Definition x_tables_by_name (n : bytes) : list TableInfo :=
  match x_database n with Some db => x_tables (db_oid db) | None => [] end.
Definition x_table (db : Z) (n : bytes) : option TableInfo := lookup E ti_name (x_tables db) n.
Definition x_attrs (db oid : Z) : list AttrInfo := match find_adb c db with Some d => attrs_of d oid | None => [] end.
Definition x_find_rel (db : Z) (t : TableInfo) : option arel :=
  match find_adb c db with
  | None => None
  | Some d => find (fun r => (r_filenode r =? ti_filenode t) && (r_oid r =? ti_oid t)) (d_rels d)
  end.
(* queries are asked about relations of the cluster (t = ti_of r), about nil, and about a filenode 0 *)
Definition x_query (db : Z) (t : option TableInfo) (o : option QueryOptions) : list row :=
  match t with
  | None => []
  | Some t => if ti_filenode t =? 0 then [] else
              match x_find_rel db t with
              | None => []
              | Some r => match o with
                          | None => expected_query r [] 0
                          | Some o => expected_query r (q_columns o) (q_limit o)
                          end
              end
  end.
Definition x_query_by_name (dn tn : bytes) (o : option QueryOptions) : list row :=
  match x_database dn with
  | None => []
  | Some db => match x_table (db_oid db) tn with None => [] | Some t => x_query (db_oid db) (Some t) o end
  end.
Definition x_dump_table (db : Z) (t : TableInfo) : TableDump :=
  let rows := x_query db (Some t) None in
  {| td_oid := ti_oid t; td_name := ti_name t; td_filenode := ti_filenode t; td_kind := ti_kind t;
     td_columns := map (colinfo_of_attr E) (x_attrs db (ti_oid t)); td_rows := rows; td_rowcount := Z.of_nat (length rows) |}.
Definition x_dump_database (db : Z) : option DatabaseDump :=
  match find_adb c db with
  | None => None
  | Some d => Some (restrict (expected_db E (withDefaults None) d))
  end.
Definition x_dump_database_by_name (n : bytes) : option DatabaseDump :=
  match x_database n with Some db => x_dump_database (db_oid db) | None => None end.
Definition x_dump_all : list DatabaseDump := expected_remote_all E c.
Definition x_summary : SummaryResult :=
  {| sr_version := x_version; sr_creds := x_credentials; sr_dbs := x_dbs;
     sr_tables := map (fun d => (d_oid d, expected_listing d))
                      (filter (fun d => negb (has_prefix (d_name d) s_template)) (a_dbs c)) |}.
Definition x_exec (args : list bytes) : result E :=
  let cmd := match args with a :: _ => a | [] => [] end in
  let nargs := Z.of_nat (length args) in
  let arg i := nth i args [] in
  if beq cmd [] || is_cmd cmd "summary" then RSummary _ x_summary
  else if is_cmd cmd "version" then RVersion _ x_version
  else if is_cmd cmd "control" then RControl E x_control
  else if is_cmd cmd "creds" || is_cmd cmd "credentials" then RCreds _ x_credentials
  else if is_cmd cmd "dbs" || is_cmd cmd "databases" then RDatabases _ x_dbs
  else if is_cmd cmd "tables" then
    if nargs <? 2 then RError _ EUsageTables else RTables _ (x_tables_by_name (arg 1%nat))
  else if is_cmd cmd "columns" then
    if nargs <? 3 then RError _ EUsageColumns else
    match x_database (arg 1%nat) with
    | None => RError _ EDbNotFound
    | Some db => match x_table (db_oid db) (arg 2%nat) with
                 | None => RError _ ETableNotFound
                 | Some t => RColumns _ (x_attrs (db_oid db) (ti_oid t))
                 end
    end
  else if is_cmd cmd "query" then
    if nargs <? 3 then RError _ EUsageQuery
    else RQuery _ (x_query_by_name (arg 1%nat) (arg 2%nat) (Some {| q_columns := []; q_limit := 20 |}))
  else if is_cmd cmd "dump" then
    if nargs >=? 2 then RDumpDatabase _ (x_dump_database_by_name (arg 1%nat)) else RDumpAll _ x_dump_all
  else RError _ (EUnknown cmd).

Definition expected_answer (k : call) : answer E :=
  match k with
  | KVersion => NBytes _ x_version
  | KControl => NControl E x_control
  | KCredentials => NCreds _ x_credentials
  | KDatabases => NDbs _ x_dbs
  | KDatabase n => NDb _ (x_database n)
  | KTables db => NTables _ (x_tables db)
  | KTablesByName n => NTables _ (x_tables_by_name n)
  | KTable db n => NTable _ (x_table db n)
  | KColumns db oid => NAttrs _ (x_attrs db oid)
  | KColumnNames db oid => NNames _ (map ai_name (x_attrs db oid))
  | KQuery db t o => NRows _ (x_query db t o)
  | KQueryByName dn tn o => NRows _ (x_query_by_name dn tn o)
  | KDumpTable db t => NTableDump _ (option_map (x_dump_table db) t)
  | KDumpDatabase db => NDbDump _ (x_dump_database db)
  | KDumpDatabaseByName n => NDbDump _ (x_dump_database_by_name n)
  | KDumpAll => NDump _ x_dump_all
  | KSummary => NSummary _ x_summary
  | KExec args => NResult _ (x_exec args)
  end.
End Expect.

