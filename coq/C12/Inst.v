(* C12/Inst.v — the instance of the environment E used by the correspondence run (guide §10, brief "STATUS").
   The C12 model is parametric in everything the access paths share; here those parameters are the CONCRETE
   models other properties verified, so that M = the extracted C12 path models run on the real bytes of a
   generated data directory:
     ParsePGDatabase / ParsePGClass / ParsePGAttribute   coq/C01/Model.v   (Go-faithful, over gslice)
     ReadRows                                            coq/C03/Model.v   (ReadTuples of C02 + DecodeTuple)
     ParsePGAuthID                                       coq/C14/Model.v
     DecodeType     int4 -> int32, text -> string (what types.go does for a 4-byte int4 / an ASCII text), the
                    catalog decoder of C01/Inst.v on the catalog columns, the C03 placeholder elsewhere
     TypeName       the placeholder of C01/Inst.v (the harness substitutes pgdump.TypeName)
     ParseControlFile / ControlString   placeholders carrying the bytes handed over (C16 owns the decoding)
     strings.ToLower / EqualFold        ASCII folding;  TrimSpace: ASCII white space;  Sscanf "%d", %d, %-Ns, %v:
                    small Gallina transcriptions, valid on the ASCII inputs the generator draws
     range_order    list reversal (every theorem holds for every permutation)
   Nothing here is used by a theorem.  The second half is the spec side of the run: the abstract cluster of
   C12/Spec.v read off C01's abstract cluster (never from bytes), and what each client call must answer. *)
Require Import PG.Base.Bytes PG.Base.GoSlice PG.Base.Value.
Require Import PG.C02.Model PG.C02.Spec PG.C03.Model PG.C03.Spec PG.C03.Main PG.C03.Inst PG.C09.Spec.
Require PG.C01.Lib PG.C01.Model PG.C01.Spec PG.C01.Inst.
Require PG.C14.Model PG.C14.Spec.
Require Import PG.C12.Lib PG.C12.Model PG.C12.Spec PG.C12.Cli PG.C12.Expect.
Require Import Coq.Strings.String.
Import Coq.Init.Datatypes Coq.Lists.List ListNotations.


(* ---------------------------------------------------------------- value decoding *)
Definition c12_decode (bs : bytes) (oid : Z) : gval :=
  if (oid =? 23) && (blen bs =? 4) then VI32 (sint32 (le_dec bs))
  else if oid =? 25 then VStr bs
  else PG.C01.Inst.hy_decode bs oid.
Definition c12_DecodeType (s : gslice) (oid : Z) : res gval := Ok (c12_decode (vis s) oid).
Definition slice_of (b : bytes) : gslice := Build_gslice b [x00].     (* os.ReadFile leaves spare capacity *)

(* ---------------------------------------------------------------- record conversions (same fields) *)
Definition cv_db (d : PG.C01.Lib.DatabaseInfo) : DatabaseInfo := {| db_oid := PG.C01.Lib.db_oid d; db_name := PG.C01.Lib.db_name d |}.
Definition cv_ti (t : PG.C01.Lib.TableInfo) : TableInfo :=
  {| ti_oid := PG.C01.Lib.ti_oid t; ti_filenode := PG.C01.Lib.ti_filenode t; ti_name := PG.C01.Lib.ti_name t; ti_kind := PG.C01.Lib.ti_kind t |}.
Definition cv_ai (a : PG.C01.Lib.AttrInfo) : AttrInfo :=
  {| ai_name := PG.C01.Lib.ai_name a; ai_typid := PG.C01.Lib.ai_typid a; ai_num := PG.C01.Lib.ai_num a; ai_len := PG.C01.Lib.ai_len a; ai_align := PG.C01.Lib.ai_align a |}.
Definition cv_col (c : Lib.Column) : PG.C03.Model.Column :=
  {| PG.C03.Model.c_name := Lib.c_name c; PG.C03.Model.c_typid := Lib.c_typid c; PG.C03.Model.c_len := Lib.c_len c;
     PG.C03.Model.c_num := Lib.c_num c; PG.C03.Model.c_align := Lib.c_align c |}.
Definition cv_auth (a : PG.C14.Model.AuthInfo) : AuthInfo :=
  {| au_oid := PG.C14.Model.a_oid a; au_role := PG.C14.Model.a_name a; au_password := PG.C14.Model.a_password a; au_super := PG.C14.Model.a_super a;
     au_login := PG.C14.Model.a_login a |}.

(* a model that panics where the run expects a value shows up as this marker *)
Definition s_panic : bytes := lit "MODEL-PANIC".

Definition i_ParsePGDatabase (data : bytes) : list DatabaseInfo :=
  match PG.C01.Model.ParsePGDatabase c12_DecodeType (slice_of data) with
  | Ok l => map cv_db l
  | Panic => [{| db_oid := -1; db_name := s_panic |}]
  end.
(* the Go map in its final state: one entry per key, the last assignment *)
Definition i_ParsePGClass (data : bytes) : list (Z * TableInfo) :=
  match PG.C01.Model.ParsePGClass c12_DecodeType (slice_of data) with
  | Ok m => flat_map (fun k => match PG.C01.Model.map_get m k with Some t => [(k, cv_ti t)] | None => [] end) (PG.C01.Model.map_keys m)
  | Panic => [(-1, {| ti_oid := -1; ti_filenode := -1; ti_name := s_panic; ti_kind := [] |})]
  end.
(* parse once, look up many times: the partial application [i_ParsePGAttribute data ver] holds the parsed table
   (written as an application so that extraction does not eta-expand it into "parse at every lookup") *)
Definition parse_attr_table (data : bytes) (ver : Z) : option (PG.C01.Model.gomap (list PG.C01.Lib.AttrInfo)) :=
  match PG.C01.Model.ParsePGAttribute c12_DecodeType (slice_of data) ver with Ok m => Some m | Panic => None end.
Definition attr_lookup (t : option (PG.C01.Model.gomap (list PG.C01.Lib.AttrInfo))) (oid : Z) : list AttrInfo :=
  match t with
  | Some m => map cv_ai (PG.C01.Model.attrs_get m oid)
  | None => [{| ai_name := s_panic; ai_typid := 0; ai_num := 1; ai_len := 4; ai_align := 105 |}]
  end.
Definition i_ParsePGAttribute (data : bytes) (ver : Z) : Z -> list AttrInfo := attr_lookup (parse_attr_table data ver).
Definition i_ReadRows (data : bytes) (cols : list Lib.Column) : list row :=
  match ReadRows c12_DecodeType (slice_of data) (map cv_col cols) true with
  | Ok rows => rows
  | Panic => [[(s_panic, VNil)]]
  end.
Definition i_ParsePGAuthID (data : bytes) : list AuthInfo :=
  match PG.C14.Model.ParsePGAuthID (slice_of data) with
  | Ok l => map cv_auth l
  | Panic => [{| au_oid := -1; au_role := s_panic; au_password := []; au_super := false; au_login := false |}]
  end.

(* ---------------------------------------------------------------- strings / fmt on ASCII *)
Definition is_space (b : byte) : bool := (b2z b =? 32) || ((9 <=? b2z b) && (b2z b <=? 13)).
Fixpoint trim_left (s : bytes) : bytes :=
  match s with [] => [] | b :: r => if is_space b then trim_left r else s end.
Definition i_TrimSpace (s : bytes) : bytes := rev (trim_left (rev (trim_left s))).
Definition is_digit (b : byte) : bool := (48 <=? b2z b) && (b2z b <=? 57).
(* the value of the longest digit prefix; None when it is empty *)
Fixpoint scan_digits (s : bytes) (acc : Z) (seen : bool) : option Z :=
  match s with
  | b :: r => if is_digit b then scan_digits r (acc * 10 + (b2z b - 48)) true else if seen then Some acc else None
  | [] => if seen then Some acc else None
  end.
Definition i_ScanInt (s : bytes) : Z :=
  match s with
  | [] => 0
  | b :: r =>
    if b2z b =? 45 then match scan_digits r 0 false with Some v => - v | None => 0 end
    else if b2z b =? 43 then match scan_digits r 0 false with Some v => v | None => 0 end
    else match scan_digits s 0 false with Some v => v | None => 0 end
  end.
Fixpoint dec_digits (fuel : nat) (u : Z) (acc : bytes) : bytes :=
  match fuel with
  | O => acc
  | S k => let acc' := z2b (48 + u mod 10) :: acc in if u <? 10 then acc' else dec_digits k (u / 10) acc'
  end.
Definition i_fmt_d (n : Z) : bytes := if n <? 0 then x2d :: dec_digits 40 (- n) [] else dec_digits 40 n [].
Definition i_pad (n : Z) (s : bytes) : bytes := s ++ repeat x20 (Z.to_nat (n - blen s)).
Definition i_fmt_v (v : gval) : bytes :=
  match v with
  | VNil => lit "<nil>"
  | VBool true => lit "true" | VBool false => lit "false"
  | VI16 z | VI32 z | VI64 z | VInt z | VU16 z | VU32 z | VU64 z => i_fmt_d z
  | VStr s => s
  | _ => lit "?unmodelled-value"
  end.
(* strconv.ParseUint(s, 10, 32): decimal digits only, at least one, value below 2^32 *)
Definition i_ParseUint32 (s : bytes) : option Z :=
  if forallb is_digit s then
    match scan_digits s 0 false with Some v => if v <? 2 ^ 32 then Some v else None | None => None end
  else None.

(* ---------------------------------------------------------------- pg_control: a placeholder *)
Definition s_ctl : bytes := [x00; x63; x74; x6c].                                   (* "\000ctl" *)
Definition i_ParseControlFile (data : bytes) : option bytes := if blen data <? 296 then None else Some data.
Definition i_ControlString (cf : bytes) : bytes := s_ctl ++ cf.

Definition i_env : env :=
  {| e_ParsePGDatabase := i_ParsePGDatabase;
     e_ParsePGClass := i_ParsePGClass;
     e_ParsePGAttribute := i_ParsePGAttribute;
     e_ReadRows := i_ReadRows;
     e_TypeName := PG.C01.Inst.ph_TypeName;
     e_ParsePGAuthID := i_ParsePGAuthID;
     e_ControlFile := bytes;
     e_ParseControlFile := i_ParseControlFile;
     e_ControlString := i_ControlString;
     e_ToLower := ascii_lower;
     e_EqualFold := ascii_fold_eq;
     e_TrimSpace := i_TrimSpace;
     e_ScanInt := i_ScanInt;
     e_fmt_d := i_fmt_d;
     e_pad := i_pad;
     e_fmt_v := i_fmt_v;
     e_range_order := @rev _;
     e_DetectDataDir := [];
     e_ParseUint32 := i_ParseUint32 |}.
(* the same environment with the map visited in stored order: the driver checks that nothing depends on it *)
Definition i_env_id : env :=
  {| e_ParsePGDatabase := i_ParsePGDatabase; e_ParsePGClass := i_ParsePGClass; e_ParsePGAttribute := i_ParsePGAttribute;
     e_ReadRows := i_ReadRows; e_TypeName := PG.C01.Inst.ph_TypeName; e_ParsePGAuthID := i_ParsePGAuthID; e_ControlFile := bytes;
     e_ParseControlFile := i_ParseControlFile; e_ControlString := i_ControlString; e_ToLower := ascii_lower;
     e_EqualFold := ascii_fold_eq; e_TrimSpace := i_TrimSpace; e_ScanInt := i_ScanInt; e_fmt_d := i_fmt_d; e_pad := i_pad;
     e_fmt_v := i_fmt_v; e_range_order := fun l => l; e_DetectDataDir := []; e_ParseUint32 := i_ParseUint32 |}.

(* ---------------------------------------------------------------- the models the driver runs *)
Definition m_DumpDataDir := DumpDataDir i_env.
Definition m_DumpDatabaseFromFiles := DumpDatabaseFromFiles i_env.
Definition m_ListDatabases := ListDatabases i_env.
Definition m_NewRemoteClient := NewRemoteClient i_env.
Definition m_run_calls := run_calls i_env.
Definition m_run_calls_id := run_calls i_env_id.
Definition m_result_string := result_string i_env.
Definition m_MarshalJSON := MarshalJSON.
Definition m_SummaryString := SummaryString i_env.
Definition m_main := main i_env.
Definition m_dispatch := dispatch i_env.
Definition m_run (fs : fsys) := run i_env (fun _ => fs).
Definition m_plain_dump := plain_dump i_env.

(* ================================================================ spec side *)
(* the abstract cluster of C12/Spec.v, read off C01's abstract cluster: the live catalog rows and the live rows
   of each relation file, decoded by expected_row — never through a parser *)
Definition x_attr (a : PG.C01.Spec.attrow) : AttrInfo :=
  {| ai_name := PG.C01.Spec.ar_name a; ai_typid := PG.C01.Spec.ar_typid a; ai_num := PG.C01.Spec.ar_num a; ai_len := PG.C01.Spec.ar_len a; ai_align := PG.C01.Spec.ar_align a |}.
Definition x_rel (d : PG.C01.Spec.dbdir) (k : PG.C01.Spec.classrow) : arel :=
  let atts := PG.C01.Spec.rel_atts (PG.C01.Spec.live_rows (PG.C01.Spec.dir_attr d)) (PG.C01.Spec.cr_oid k) in
  {| r_oid := PG.C01.Spec.cr_oid k; r_filenode := PG.C01.Spec.cr_filenode k; r_name := PG.C01.Spec.cr_name k; r_kind := [z2b (PG.C01.Spec.cr_kind k)];
     r_attrs := map x_attr atts;
     r_rows := match PG.C01.Spec.find_file d (PG.C01.Spec.cr_filenode k) with
               | None => None
               | Some rf => Some (map (expected_row c12_decode (map PG.C01.Spec.col_of_att atts)) (PG.C01.Spec.live_rows (PG.C01.Spec.rf_heap rf)))
               end |}.
Definition x_db (c : PG.C01.Spec.cluster) (r : PG.C01.Spec.dbrow) : adb :=
  {| d_oid := PG.C01.Spec.dr_oid r; d_name := PG.C01.Spec.dr_name r;
     d_rels := match PG.C01.Spec.find_dir c (PG.C01.Spec.dr_oid r) with
               | None => []
               | Some d => map (x_rel d) (filter (fun k => PG.C01.Spec.cr_filenode k >? 0) (PG.C01.Spec.live_rows (PG.C01.Spec.dir_class d)))
               end |}.
Definition abstract_of (ver : option bytes) (c : PG.C01.Spec.cluster) : acluster :=
  {| a_version := ver; a_dbs := map (x_db c) (PG.C01.Spec.live_rows (PG.C01.Spec.cl_pgdb c)) |}.

(* the decidable part of Spec.wf_cluster plus "every database has its directory" (realizes_db) *)
Fixpoint nodupb {A} (eqb : A -> A -> bool) (l : list A) : bool :=
  match l with [] => true | x :: r => negb (existsb (eqb x) r) && nodupb eqb r end.
Definition wf_adb_b (d : adb) : bool :=
  nodupb Z.eqb (map r_filenode (d_rels d)) && nodupb Z.eqb (map r_oid (d_rels d)) &&
  forallb (fun r => (0 <? r_filenode r) && forallb (fun a => 0 <? ai_num a) (r_attrs r)) (d_rels d).
Definition wf_acluster_b (c : acluster) : bool :=
  nodupb Z.eqb (map d_oid (a_dbs c)) && nodupb beq (map d_name (a_dbs c)) && forallb wf_adb_b (a_dbs c).

(* pg_authid: roles laid out by C14's writer; what extraction must report *)
Definition mk_role (oid : Z) (name : bytes) (super login : bool) (pw : option bytes) (head : bytes) (mask_hi : Z)
  : PG.C14.Spec.stored_role :=
  {| PG.C14.Spec.sr_role := {| PG.C14.Spec.r_oid := oid; PG.C14.Spec.r_name := name; PG.C14.Spec.r_super := super; PG.C14.Spec.r_inherit := true;
                       PG.C14.Spec.r_createrole := super; PG.C14.Spec.r_createdb := false; PG.C14.Spec.r_canlogin := login;
                       PG.C14.Spec.r_replication := false; PG.C14.Spec.r_bypassrls := super; PG.C14.Spec.r_connlimit := -1;
                       PG.C14.Spec.r_password := pw; PG.C14.Spec.r_validuntil := None |};
     PG.C14.Spec.sr_head := head; PG.C14.Spec.sr_flags2 := 0; PG.C14.Spec.sr_mask_hi := mask_hi; PG.C14.Spec.sr_extra := 0; PG.C14.Spec.sr_long := false |}.
Definition auth_file (roles : list PG.C14.Spec.stored_role) : bytes := PG.C14.Spec.enc_heap [roles].
Definition auth_ok (roles : list PG.C14.Spec.stored_role) : bool := PG.C14.Spec.page_ok_b roles.
Definition x_creds (roles : list PG.C14.Spec.stored_role) : list AuthInfo := map cv_auth (PG.C14.Spec.expected_roles roles).

(* what a client must answer to a call: C12/Expect.v at this instance *)
Definition x_answer := expected_answer i_env.

(* the data-directory dump and the database listing a cluster must give *)
Definition x_dump (c : acluster) (opts : option Options) : list DatabaseDump := expected_dump i_env c opts.
Definition x_list_databases (c : acluster) : list DatabaseInfo := isort db_leb (expected_databases c).
(* the command line on a directory holding cluster c *)
Definition x_cli (c : acluster) (creds : option (list AuthInfo)) (f : flags) : output :=
  match dispatch i_env f with
  | AListDatabases _ =>
    match x_list_databases c with
    | [] => OutText (lit "No databases found" ++ nl) 1
    | dbs => OutText (listdb_text i_env dbs) 0
    end
  | APasswords _ user =>
    match creds with
    | None => OutText [] 1
    | Some l => OutText (passwords_text l user) 0
    end
  | ADump _ opts _ fmt => OutDump (Some (x_dump c (Some opts))) fmt
  | a => OutLib a
  end.
