(* The property's clauses, assembled from CacheProofs (stateful client = fresh-client reading) and DumpProofs
   (fresh-client reading / data-directory dump = expectation on the abstract cluster). *)
Require Import PG.Base.Bytes PG.Base.Value PG.C12.Lib PG.C12.Model PG.C12.Spec PG.C12.CacheProofs PG.C12.DumpProofs.
Require Import Coq.Sorting.Permutation.

Lemma filter_filter' {A} (p q : A -> bool) l : filter p (filter q l) = filter (fun x => q x && p x) l.
Proof. induction l as [|a l IH]; cbn; [reflexivity|]. destruct (q a); cbn; [destruct (p a)|]; congruence. Qed.

Section PathProofs.
Variable E : env.
Hypothesis RP : range_perm E.
Variable fs : fsys.
Variable c : acluster.
Hypothesis WF : wf_cluster c.

(* the client after ANY sequence of earlier calls *)
Fixpoint after (cl : client) (ks : list call) : client :=
  match ks with [] => cl | k :: rest => after (fst (do_call E fs cl k)) rest end.
Lemma after_ok ks : forall cl, cache_ok E fs cl -> cache_ok E fs (after cl ks).
Proof.
  induction ks as [|k rest IH]; intros cl K; cbn; [exact K|]. apply IH.
  destruct (do_call E fs cl k) as [c1 a] eqn:H. apply do_call_ok in H as [K1 _]; auto.
Qed.
Lemma call_after ks k : snd (do_call E fs (after (NewRemoteClient E fs) ks) k) = pure_call E fs k.
Proof.
  destruct (do_call E fs (after (NewRemoteClient E fs) ks) k) as [c1 a] eqn:H.
  apply do_call_ok in H as [_ ->]; [reflexivity|]. apply after_ok, new_ok.
Qed.

(* remote dump = data-directory dump minus the documented omissions; hint_agrees = both layout hints read the
   cluster's pg_attribute the same way (realizes at 0 = auto-detection, and at the PG_VERSION hint) *)
Theorem remote_dump :
  realizes E 0 fs c -> realizes E (hint_of E fs) fs c ->
  forall ks,
  exists dd, DumpDataDir E fs None = Some dd /\
             snd (do_call E fs (after (NewRemoteClient E fs) ks) KDumpAll) = NDump E (map restrict dd) /\
             dd = expected_dump E c None.
Proof.
  intros R0 Rh ks. exists (expected_dump E c None). split; [apply DumpDataDir_ok; auto|]. split; [|reflexivity].
  rewrite call_after. cbn [pure_call]. f_equal. apply dump_all_ok; auto.
Qed.

Theorem listings :
  realizes E (hint_of E fs) fs c ->
  forall ks,
  snd (do_call E fs (after (NewRemoteClient E fs) ks) KDatabases) = NDbs E (expected_databases c) /\
  (forall d, In d (a_dbs c) ->
     snd (do_call E fs (after (NewRemoteClient E fs) ks) (KTables (d_oid d))) = NTables E (expected_listing d) /\
     (forall oid, snd (do_call E fs (after (NewRemoteClient E fs) ks) (KColumns (d_oid d) oid)) = NAttrs E (attrs_of d oid))).
Proof.
  intros Rh ks. split; [rewrite call_after; cbn [pure_call]; f_equal; apply p_dbs_expected; auto|].
  intros d Hd. split; [rewrite call_after; cbn [pure_call]; f_equal; eapply p_tables_expected; eauto|].
  intros oid. rewrite call_after; cbn [pure_call]; f_equal; eapply p_attrs_expected; eauto.
Qed.

(* the listing restricted to ordinary, non-pg_ relations IS the dump's table set, with the dump's columns *)
Theorem listing_vs_dump d :
  In d (a_dbs c) ->
  map (fun t => (ti_oid t, ti_name t, ti_filenode t, ti_kind t))
      (filter (fun t => (beq (ti_kind t) s_r || beq (ti_kind t) []) && negb (has_prefix (ti_name t) s_pg_)) (expected_listing d)) =
  map (fun t => (td_oid t, td_name t, td_filenode t, td_kind t)) (expected_tables E (withDefaults None) d) /\
  forall r, In r (d_rels d) ->
    map (colinfo_of_attr E) (filter (fun a => ai_num a >? 0) (attrs_of d (r_oid r))) =
    td_columns (expected_table E (withDefaults None) r).
Proof.
  intros Hd. destruct WF as (_ & _ & F). rewrite Forall_forall in F. destruct (F d Hd) as (NDf & NDo & Hpos). split.
  - unfold expected_listing, expected_tables. rewrite filter_map_comm, !map_map.
    rewrite <- (ksort_filter r_filenode _ _ NDf). cbn [expected_table td_oid td_name td_filenode td_kind ti_of ti_oid ti_name ti_filenode ti_kind].
    f_equal. apply filter_ext. intros r. unfold table_selected, ordinary. cbn [withDefaults o_skipsys o_tablefilter].
    rewrite beq_refl. destruct (beq (r_kind r) s_r), (beq (r_kind r) []), (has_prefix (r_name r) s_pg_); reflexivity.
  - intros r Hr. rewrite attrs_of_rel by auto. cbn [expected_table td_columns]. f_equal.
    destruct (Hpos r Hr) as (_ & Hp). induction (r_attrs r) as [|a l IH]; cbn; [reflexivity|].
    destruct (ai_num a >? 0) eqn:Ea; [f_equal; apply IH; intros; apply Hp; right; auto|].
    specialize (Hp a (or_introl eq_refl)). lia.
Qed.

(* Summary: per non-template database the tables the client lists; its JSON form names exactly the dump's
   tables of kind 'r' that are not sql_* *)
Theorem summary_tables :
  realizes E (hint_of E fs) fs c ->
  forall ks s, snd (do_call E fs (after (NewRemoteClient E fs) ks) KSummary) = NSummary E s ->
  sr_dbs s = expected_databases c /\
  sr_tables s = map (fun d => (d_oid d, expected_listing d)) (filter (fun d => negb (has_prefix (d_name d) s_template)) (a_dbs c)).
Proof.
  intros Rh ks s H. rewrite call_after in H. cbn [pure_call] in H. inversion H; subst; clear H.
  unfold p_summary; cbn [sr_dbs sr_tables]. rewrite (p_dbs_expected E fs c Rh). split; [reflexivity|].
  unfold expected_databases. rewrite filter_map_comm, map_map. cbn [db_of db_name db_oid].
  apply map_ext_in. intros d Hd. apply filter_In in Hd as [Hd _]. f_equal. eapply p_tables_expected; eauto.
Qed.
Theorem summary_names d :
  In d (a_dbs c) ->
  map ti_name (filter json_listed (expected_listing d)) =
  map td_name (filter (fun t => beq (td_kind t) s_r && negb (has_prefix (td_name t) s_sql_)) (expected_tables E (withDefaults None) d)).
Proof.
  intros Hd. destruct WF as (_ & _ & F). rewrite Forall_forall in F. destruct (F d Hd) as (NDf & _).
  unfold expected_listing, expected_tables. rewrite !filter_map_comm, !map_map.
  rewrite <- (ksort_filter r_filenode _ _ NDf). rewrite filter_filter' .
  cbn [expected_table td_name ti_of ti_name]. f_equal. apply filter_ext. intros r.
  unfold json_listed, table_selected, ordinary. cbn [ti_of ti_name ti_kind expected_table td_kind td_name withDefaults o_skipsys o_tablefilter].
  rewrite beq_refl. destruct (beq (r_kind r) s_r), (beq (r_kind r) []), (has_prefix (r_name r) s_pg_), (has_prefix (r_name r) s_sql_); reflexivity.
Qed.

(* query = firstn n (map (project cs) rows) *)
Theorem query :
  realizes E (hint_of E fs) fs c ->
  forall ks d r cs n, In d (a_dbs c) -> In r (d_rels d) ->
  snd (do_call E fs (after (NewRemoteClient E fs) ks)
         (KQuery (d_oid d) (Some (ti_of r)) (Some {| q_columns := cs; q_limit := n |}))) = NRows E (expected_query r cs n).
Proof. intros Rh ks d r cs n Hd Hr. rewrite call_after. cbn [pure_call]. f_equal. eapply query_ok; eauto. Qed.

(* by-name access reaches the relation with exactly that name, also when another name differs only in case *)
Theorem names :
  realizes E (hint_of E fs) fs c ->
  forall ks d, In d (a_dbs c) ->
  snd (do_call E fs (after (NewRemoteClient E fs) ks) (KDatabase (d_name d))) = NDb E (Some (db_of d)) /\
  forall r, In r (d_rels d) -> NoDup (map r_name (d_rels d)) ->
    snd (do_call E fs (after (NewRemoteClient E fs) ks) (KTable (d_oid d) (r_name r))) = NTable E (Some (ti_of r)) /\
    snd (do_call E fs (after (NewRemoteClient E fs) ks) (KQueryByName (d_name d) (r_name r) None)) = NRows E (rel_rows r).
Proof.
  intros Rh ks d Hd.
  assert (HDB : p_database E fs (d_name d) = Some (db_of d)).
  { unfold p_database. rewrite (p_dbs_expected E fs c Rh). unfold expected_databases.
    apply (lookup_exact E db_name (map db_of (a_dbs c)) (db_of d)).
    - rewrite map_map. cbn [db_of db_name]. destruct WF as (_ & ND & _). exact ND.
    - apply in_map. exact Hd. }
  split; [rewrite call_after; cbn [pure_call]; f_equal; exact HDB|].
  intros r Hr NDn.
  assert (HT : p_table E fs (d_oid d) (r_name r) = Some (ti_of r)).
  { unfold p_table. rewrite (p_tables_expected E RP fs c WF Rh d Hd). unfold expected_listing.
    apply (lookup_exact E ti_name _ (ti_of r)).
    - rewrite map_map. cbn [ti_of ti_name]. eapply Permutation_NoDup; [apply Permutation_map; symmetry; apply ksort_perm|exact NDn].
    - apply in_map. apply ksort_in. exact Hr. }
  split; [rewrite call_after; cbn [pure_call]; f_equal; exact HT|].
  rewrite call_after. cbn [pure_call]. f_equal. unfold p_query_by_name. rewrite HDB. cbn [db_of db_oid]. rewrite HT.
  eapply query_all; eauto.
Qed.

End PathProofs.
