(* Model of main.go:16-374: the flag record, the dispatch chain IN SOURCE ORDER and the output switch, as a pure
   function from a flag record to "which library call with which options, rendered how" (type action), plus the
   branches whose output is made of C12 material (-list-db, -passwords, the dump) down to their text / result.
   Package flag (parsing the command line into the record), os.Exit and the environment probing of detect.go are
   not modelled: DetectDataDir is a Section variable, ParseUint32 stands for strconv.ParseUint(s, 10, 32). *)
Require Import PG.Base.Bytes PG.Base.Value PG.C12.Lib PG.C12.Model.
Require Import Coq.Strings.String.
Import Coq.Init.Datatypes Coq.Lists.List ListNotations.

(* main.go:17-59: one field per flag, named after the flag *)
Record flags := {
  f_d : bytes; f_f : bytes; f_db : bytes; f_t : bytes; f_list : bool; f_list_db : bool; f_detect : bool;
  f_sql : bool; f_csv : bool; f_search : bytes; f_passwords : bytes; f_secrets : bytes; f_deleted : bool;
  f_wal : bool; f_control : bool; f_checksum : bool; f_index : bool; f_dropped : bool; f_sequences : bytes;
  f_relmap : bytes; f_R : bytes; f_b : bool; f_o : bool; f_toast_verbose : bool; f_n : Z; f_s : Z;
  f_v : bool; f_debug : bool; f_version : bool }.

Inductive outfmt := FJSON | FSQL | FCSV.
Inductive action :=
| AVersion                                         (* :63  print pgdump.Version *)
| ADetect                                          (* :68  DetectAllDataDirs + ListDatabases *)
| ABinaryDump (file range : bytes)                 (* :97  DumpBinaryRange(file, ParseBlockRange(range) | nil) *)
| AIndexFile (file : bytes)                        (* :99  ParseIndexFile *)
| AToastVerbose (file : bytes)                     (* :101 GetTOASTVerboseInfo *)
| ABlockRange (file range : bytes) (seg : option (Z * Z))   (* :103 DumpBlockRange(file, ParseBlockRange(range)) *)
| ASingle (file : bytes)                           (* :105 parseSingle *)
| ANoDataDir                                       (* :113-120 exit 1 *)
| AListDatabases (dir : bytes)                     (* :129 *)
| AControl (dir : bytes)                           (* :142 ReadControlFile *)
| AChecksum (dir : bytes)                          (* :158 VerifyDataDirChecksums *)
| ADroppedDb (dir db : bytes)                      (* :175 FindDroppedColumns *)
| ADroppedAll (dir : bytes)                        (* :184 ScanDroppedColumns *)
| ASequencesAll (dir : bytes)                      (* :201 ScanAllSequences *)
| ASequences (dir name : bytes)                    (* :208 FindSequences *)
| ARelmapGlobal (dir : bytes)                      (* :223 ReadGlobalRelMap *)
| ARelmapAll (dir : bytes)                         (* :230 ReadAllRelMaps *)
| ARelmapDb (dir : bytes) (oid : Z)                (* :243 ReadDatabaseRelMap *)
| ARelmapInvalid (arg : bytes)                     (* :240 exit 1 *)
| APasswords (dir user : bytes)                    (* :255 ExtractPasswords, filtered by user *)
| ASecrets (dir : bytes) (opts : Options)          (* :291 ScanForSecrets *)
| ASearch (dir pattern : bytes)                    (* :312 Search{Pattern, IncludeRow: true} *)
| AWal (dir : bytes)                               (* :328 ScanWALDirectory *)
| ADump (dir : bytes) (opts : Options) (debug : bool) (fmt : outfmt).   (* :339-373 *)

Section Cli.
Variable E : env.
Local Notation ParsePGDatabase := (e_ParsePGDatabase E).
Local Notation ParsePGClass := (e_ParsePGClass E).
Local Notation ParsePGAttribute := (e_ParsePGAttribute E).
Local Notation ReadRows := (e_ReadRows E).
Local Notation TypeName := (e_TypeName E).
Local Notation ParsePGAuthID := (e_ParsePGAuthID E).
Local Notation ControlFile := (e_ControlFile E).
Local Notation ParseControlFile := (e_ParseControlFile E).
Local Notation ControlString := (e_ControlString E).
Local Notation ToLower := (e_ToLower E).
Local Notation EqualFold := (e_EqualFold E).
Local Notation TrimSpace := (e_TrimSpace E).
Local Notation ScanInt := (e_ScanInt E).
Local Notation fmt_d := (e_fmt_d E).
Local Notation pad := (e_pad E).
Local Notation fmt_v := (e_fmt_v E).
Local Notation range_order := (e_range_order E).
Local Notation DetectDataDir := (e_DetectDataDir E).
Local Notation ParseUint32 := (e_ParseUint32 E).

Definition nonempty (s : bytes) : bool := negb (beq s []).
Definition s_all : bytes := lit "all".
Definition s_global : bytes := lit "global".

Definition cli_opts (f : flags) : Options :=
  {| o_dbfilter := f_db f; o_tablefilter := f_t f; o_listonly := f_list f; o_skipsys := true; o_pgversion := 0 |}.
(* main.go:358-373 *)
Definition out_format (f : flags) : outfmt := if f_sql f then FSQL else if f_csv f then FCSV else FJSON.

(* main.go:63-374 *)
Definition main (f : flags) : action :=
  if f_version f then AVersion else                                                (* :63 *)
  if f_detect f then ADetect else                                                  (* :68 *)
  if nonempty (f_f f) then                                                         (* :86 *)
    let segOpts := if (f_n f >? 0) || (f_s f >? 0) then Some (f_n f, f_s f) else None in   (* :89 *)
    if f_b f then ABinaryDump (f_f f) (f_R f)                                      (* :96 *)
    else if f_index f then AIndexFile (f_f f)                                      (* :98 *)
    else if f_toast_verbose f then AToastVerbose (f_f f)                           (* :100 *)
    else if nonempty (f_R f) then ABlockRange (f_f f) (f_R f) segOpts              (* :102 *)
    else ASingle (f_f f)
  else
  let dataDir := if nonempty (f_d f) then f_d f else DetectDataDir in              (* :111-112 *)
  if negb (nonempty dataDir) then ANoDataDir else                                  (* :113 *)
  if f_list_db f then AListDatabases dataDir else                                  (* :128 *)
  if f_control f then AControl dataDir else                                        (* :141 *)
  if f_checksum f then AChecksum dataDir else                                      (* :154 *)
  if f_dropped f then                                                              (* :173 *)
    (if nonempty (f_db f) then ADroppedDb dataDir (f_db f) else ADroppedAll dataDir) else
  if nonempty (f_sequences f) then                                                 (* :197 *)
    (if beq (f_sequences f) s_all then ASequencesAll dataDir else ASequences dataDir (f_sequences f)) else
  if nonempty (f_relmap f) then                                                    (* :219 *)
    (if beq (f_relmap f) s_global then ARelmapGlobal dataDir
     else if beq (f_relmap f) s_all then ARelmapAll dataDir
     else match ParseUint32 (f_relmap f) with
          | Some oid => ARelmapDb dataDir oid
          | None => ARelmapInvalid (f_relmap f)
          end) else
  if nonempty (f_passwords f) then APasswords dataDir (f_passwords f) else         (* :254 *)
  if nonempty (f_secrets f) then                                                   (* :287 *)
    ASecrets dataDir {| o_dbfilter := f_db f; o_tablefilter := f_t f; o_listonly := false; o_skipsys := true;
                        o_pgversion := 0 |} else
  if nonempty (f_search f) then ASearch dataDir (f_search f) else                  (* :311 *)
  if f_wal f then AWal dataDir else                                                (* :327 *)
  (* -deleted (:43) is parsed but no branch reads it *)
  ADump dataDir (cli_opts f) (f_debug f) (out_format f).                           (* :339-373 *)

(* ---------------------------------------------------------------- the branches made of C12 material *)
Variable fs_of : bytes -> fsys.                    (* the files below a directory name *)

(* main.go:134-136 *)
Definition listdb_text (dbs : list DatabaseInfo) : bytes :=
  concat (map (fun db => db_name db ++ lit " (OID " ++ fmt_d (db_oid db) ++ lit ")" ++ nl) dbs).
(* main.go:260-283 *)
Definition passwords_text (auths : list AuthInfo) (user : bytes) : bytes :=
  match auths with
  | [] => lit "No password hashes found" ++ nl
  | _ =>
    lit "PostgreSQL Password Hashes:" ++ nl ++ lit "===========================" ++ nl ++
    concat (map (fun a =>
      if negb (beq user s_all) && negb (beq (au_role a) user) then [] else         (* :267 *)
      let fl := (if au_super a then lit " [SUPERUSER]" else []) ++ (if au_login a then lit " [LOGIN]" else []) in
      if nonempty (au_password a) then au_role a ++ lit ":" ++ au_password a ++ fl ++ nl
      else au_role a ++ lit ":(no password)" ++ fl ++ nl) auths)
  end.

Inductive output :=
| OutText (stdout : bytes) (exit : Z)                         (* text fully determined here *)
| OutDump (r : option (list DatabaseDump)) (fmt : outfmt)     (* None: error on stderr, exit 1;  Some r: r rendered by
                                                                 encoding/json, ToSQL or ToCSV (C13), exit 0 *)
| OutLib (a : action).                                        (* the rendering of another property's library call *)

Definition run (f : flags) : output :=
  match main f with
  | AListDatabases dir =>
    match ListDatabases E (fs_of dir) with
    | [] => OutText (lit "No databases found" ++ nl) 1                             (* :130-133 *)
    | dbs => OutText (listdb_text dbs) 0
    end
  | APasswords dir user =>
    match fs_of dir (PGlobal 1260) with
    | None => OutText [] 1                                                         (* :256-259 *)
    | Some data => OutText (passwords_text (ParsePGAuthID data) user) 0
    end
  | ADump dir opts _ fmt =>
    OutDump (DumpDataDir E (fs_of dir) (Some opts)) fmt
  | a => OutLib a
  end.

(* ---------------------------------------------------------------- the dispatch as a decision table (spec) *)
(* rows in priority order: the first row whose guard holds decides *)
Definition on_file (f : flags) : bool := nonempty (f_f f).
Definition data_dir (f : flags) : bytes := if nonempty (f_d f) then f_d f else DetectDataDir.
Definition table : list ((flags -> bool) * (flags -> action)) :=
  [ (f_version, fun _ => AVersion);
    (f_detect, fun _ => ADetect);
    (fun f => on_file f && f_b f, fun f => ABinaryDump (f_f f) (f_R f));
    (fun f => on_file f && f_index f, fun f => AIndexFile (f_f f));
    (fun f => on_file f && f_toast_verbose f, fun f => AToastVerbose (f_f f));
    (fun f => on_file f && nonempty (f_R f),
       fun f => ABlockRange (f_f f) (f_R f) (if (f_n f >? 0) || (f_s f >? 0) then Some (f_n f, f_s f) else None));
    (on_file, fun f => ASingle (f_f f));
    (fun f => negb (nonempty (data_dir f)), fun _ => ANoDataDir);
    (f_list_db, fun f => AListDatabases (data_dir f));
    (f_control, fun f => AControl (data_dir f));
    (f_checksum, fun f => AChecksum (data_dir f));
    (fun f => f_dropped f && nonempty (f_db f), fun f => ADroppedDb (data_dir f) (f_db f));
    (f_dropped, fun f => ADroppedAll (data_dir f));
    (fun f => beq (f_sequences f) s_all, fun f => ASequencesAll (data_dir f));
    (fun f => nonempty (f_sequences f), fun f => ASequences (data_dir f) (f_sequences f));
    (fun f => beq (f_relmap f) s_global, fun f => ARelmapGlobal (data_dir f));
    (fun f => beq (f_relmap f) s_all, fun f => ARelmapAll (data_dir f));
    (fun f => nonempty (f_relmap f),
       fun f => match ParseUint32 (f_relmap f) with Some oid => ARelmapDb (data_dir f) oid | None => ARelmapInvalid (f_relmap f) end);
    (fun f => nonempty (f_passwords f), fun f => APasswords (data_dir f) (f_passwords f));
    (fun f => nonempty (f_secrets f),
       fun f => ASecrets (data_dir f) {| o_dbfilter := f_db f; o_tablefilter := f_t f; o_listonly := false;
                                         o_skipsys := true; o_pgversion := 0 |});
    (fun f => nonempty (f_search f), fun f => ASearch (data_dir f) (f_search f));
    (f_wal, fun f => AWal (data_dir f)) ].
Fixpoint first_row (rows : list ((flags -> bool) * (flags -> action))) (dflt : flags -> action) (f : flags) : action :=
  match rows with
  | [] => dflt f
  | (g, a) :: rest => if g f then a f else first_row rest dflt f
  end.
Definition dispatch (f : flags) : action :=
  first_row table (fun f => ADump (data_dir f) (cli_opts f) (f_debug f) (out_format f)) f.

(* "no mode flag": none of the rows fires, so the invocation is a dump *)
Definition plain_dump (f : flags) : bool := forallb (fun r => negb (fst r f)) table.

End Cli.
