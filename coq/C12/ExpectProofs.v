(* Every RemoteClient call answers what the abstract cluster says (C12/Expect.v): a fresh client's answer
   (pure_call) equals expected_answer, for every call about the cluster's own databases and relations and for every
   by-name call and Exec command whatsoever.  With CacheProofs (any client = fresh client) this covers every method
   after every call sequence. *)
Require Import PG.Base.Bytes PG.Base.Value PG.C12.Lib PG.C12.Model PG.C12.Spec PG.C12.Expect.
Require Import PG.C12.CacheProofs PG.C12.DumpProofs PG.C12.PathProofs.
Require Import Coq.Sorting.Permutation.
Import Coq.Init.Datatypes Coq.Lists.List ListNotations.

Lemma find_unique {A} (p : A -> bool) l r :
  (forall x, In x l -> p x = true -> x = r) -> In r l -> p r = true -> find p l = Some r.
Proof.
  induction l as [|x l IH]; cbn; intros U HI Hp; [contradiction|].
  destruct (p x) eqn:Ex.
  - f_equal. apply U; auto.
  - destruct HI as [->|HI]; [congruence|]. apply IH; auto.
Qed.
Lemma find_map_key {A B} (f : A -> B) (kb : B -> Z) (ka : A -> Z) l k :
  (forall a, kb (f a) = ka a) ->
  find (fun x => kb x =? k) (map f l) = option_map f (find (fun a => ka a =? k) l).
Proof.
  intros H. induction l as [|a l IH]; cbn; [reflexivity|]. rewrite H. destruct (ka a =? k); [reflexivity|exact IH].
Qed.

Section ExpectProofs.
Variable E : env.
Hypothesis RP : range_perm E.
Variable fs : fsys.
Variable c : acluster.
Hypothesis WF : wf_cluster c.
Hypothesis R : realizes E (hint_of E fs) fs c.

(* what the two global files outside the catalogs hold *)
Definition creds_of : option (list AuthInfo) := option_map (e_ParsePGAuthID E) (fs (PGlobal 1260)).
Definition ctl_of : option bytes := fs PControl.

Local Notation xdb := (x_database E c).
Local Notation xtables := (x_tables c).

Lemma lookup_in {A} (name_of : A -> bytes) l n x : lookup E name_of l n = Some x -> In x l.
Proof.
  unfold lookup. destruct (find (fun y => beq (name_of y) n) l) as [y|] eqn:Ef.
  - intros H; inversion H; subst. apply find_some in Ef. tauto.
  - intros H. apply find_some in H. tauto.
Qed.
Lemma find_adb_in d : In d (a_dbs c) -> find_adb c (d_oid d) = Some d.
Proof. intros Hd. destruct WF as (ND & _). unfold find_adb. apply find_key; auto. Qed.
Lemma find_adb_some db d : find_adb c db = Some d -> In d (a_dbs c) /\ d_oid d = db.
Proof. unfold find_adb. intros H. apply find_some in H as [HI He]. split; [exact HI|lia]. Qed.
Lemma db_in db : In db (expected_databases c) -> exists d, In d (a_dbs c) /\ db = db_of d.
Proof. unfold expected_databases. intros H. apply in_map_iff in H as (d & <- & Hd). eauto. Qed.

Lemma x_version_ok : Version E fs = x_version E c.
Proof. destruct R as (Hv & _). unfold Version, x_version. rewrite Hv. reflexivity. Qed.
Lemma x_control_ok : Control E fs = x_control E ctl_of.
Proof. reflexivity. Qed.
Lemma x_credentials_ok : Credentials E fs = x_credentials creds_of.
Proof. unfold Credentials, x_credentials, creds_of. destruct (fs (PGlobal 1260)); reflexivity. Qed.
Lemma x_dbs_ok : p_dbs E fs = x_dbs c.
Proof. apply p_dbs_expected; auto. Qed.
Lemma x_database_ok n : p_database E fs n = xdb n.
Proof. unfold p_database, x_database. rewrite x_dbs_ok. reflexivity. Qed.
Lemma x_database_in n db : xdb n = Some db -> exists d, In d (a_dbs c) /\ db = db_of d.
Proof. intros H. apply lookup_in in H. apply db_in. exact H. Qed.

Lemma x_tables_ok d : In d (a_dbs c) -> p_tables E fs (d_oid d) = xtables (d_oid d).
Proof. intros Hd. unfold x_tables. rewrite find_adb_in by auto. eapply p_tables_expected; eauto. Qed.
Lemma x_tables_by_name_ok n : p_tables_by_name E fs n = x_tables_by_name E c n.
Proof.
  unfold p_tables_by_name, x_tables_by_name. rewrite x_database_ok. destruct (xdb n) as [db|] eqn:Ed; [|reflexivity].
  apply x_database_in in Ed as (d & Hd & ->). cbn [db_of db_oid]. apply x_tables_ok; auto.
Qed.
Lemma x_table_ok d n : In d (a_dbs c) -> p_table E fs (d_oid d) n = x_table E c (d_oid d) n.
Proof. intros Hd. unfold p_table, x_table. rewrite x_tables_ok by auto. reflexivity. Qed.
Lemma x_table_in d n t : In d (a_dbs c) -> x_table E c (d_oid d) n = Some t -> exists r, In r (d_rels d) /\ t = ti_of r.
Proof.
  intros Hd H. apply lookup_in in H. unfold x_tables in H. rewrite find_adb_in in H by auto. unfold expected_listing in H.
  apply in_map_iff in H as (r & <- & Hr). apply ksort_in in Hr. eauto.
Qed.
Lemma x_attrs_ok d oid : In d (a_dbs c) -> p_attrs E fs (d_oid d) oid = x_attrs c (d_oid d) oid.
Proof. intros Hd. unfold x_attrs. rewrite find_adb_in by auto. eapply p_attrs_expected; eauto. Qed.
Lemma attrs_of_positive d oid : In d (a_dbs c) -> filter (fun a => ai_num a >? 0) (attrs_of d oid) = attrs_of d oid.
Proof.
  intros Hd. unfold attrs_of. destruct (find (fun r => r_oid r =? oid) (d_rels d)) as [r|] eqn:Ef; [|reflexivity].
  apply find_some in Ef as [Hr _]. eapply positive_attrs; eauto.
Qed.
Lemma x_column_names_ok d oid : In d (a_dbs c) -> p_column_names E fs (d_oid d) oid = map ai_name (x_attrs c (d_oid d) oid).
Proof.
  intros Hd. unfold p_column_names. rewrite x_attrs_ok by auto. unfold x_attrs. rewrite find_adb_in by auto.
  rewrite attrs_of_positive by auto. reflexivity.
Qed.

Lemma x_find_rel_ok d r : In d (a_dbs c) -> In r (d_rels d) -> x_find_rel c (d_oid d) (ti_of r) = Some r.
Proof.
  intros Hd Hr. unfold x_find_rel. rewrite find_adb_in by auto. cbn [ti_of ti_filenode ti_oid].
  destruct (wf_in c WF d Hd) as (NDf & _).
  apply find_unique; [|exact Hr|rewrite !Z.eqb_refl; reflexivity].
  intros x Hx Hp. apply andb_prop in Hp as [Hp _]. apply Z.eqb_eq in Hp. eapply nodup_map_inj; eauto.
Qed.
Lemma filenode_pos d r : In d (a_dbs c) -> In r (d_rels d) -> (r_filenode r =? 0) = false.
Proof. intros Hd Hr. destruct (wf_in c WF d Hd) as (_ & _ & Hpos). destruct (Hpos r Hr) as [Hp _]. lia. Qed.
Lemma x_query_rel d r o : In d (a_dbs c) -> In r (d_rels d) ->
  p_query E fs (d_oid d) (Some (ti_of r)) o = x_query c (d_oid d) (Some (ti_of r)) o.
Proof.
  intros Hd Hr. rewrite (p_query_expected E fs c WF R d r o Hd Hr). unfold x_query.
  change (ti_filenode (ti_of r)) with (r_filenode r). rewrite (filenode_pos d r Hd Hr). rewrite x_find_rel_ok by auto.
  destruct o as [[cs n]|].
  - cbn [q_columns q_limit]. apply apply_opts_expected.
  - reflexivity.
Qed.

(* the tables a query / table dump may be asked about: nil, a filenode 0, or a relation of the cluster *)
Definition known_table (db : Z) (t : option TableInfo) : Prop :=
  match t with
  | None => True
  | Some t => ti_filenode t = 0 \/ exists d r, In d (a_dbs c) /\ d_oid d = db /\ In r (d_rels d) /\ t = ti_of r
  end.
Lemma x_query_ok db t o : known_table db t -> p_query E fs db t o = x_query c db t o.
Proof.
  destruct t as [t|]; [|reflexivity]. intros [H0|(d & r & Hd & <- & Hr & ->)].
  - unfold p_query, x_query. rewrite H0. reflexivity.
  - apply x_query_rel; auto.
Qed.
Lemma x_query_by_name_ok dn tn o : p_query_by_name E fs dn tn o = x_query_by_name E c dn tn o.
Proof.
  unfold p_query_by_name, x_query_by_name. rewrite x_database_ok. destruct (xdb dn) as [db|] eqn:Ed; [|reflexivity].
  apply x_database_in in Ed as (d & Hd & ->). cbn [db_of db_oid]. rewrite x_table_ok by auto.
  destruct (x_table E c (d_oid d) tn) as [t|] eqn:Et; [|reflexivity].
  apply x_table_in in Et as (r & Hr & ->); auto. apply x_query_rel; auto.
Qed.

Lemma x_dump_table_ok d r : In d (a_dbs c) -> In r (d_rels d) ->
  p_dump_table E fs (d_oid d) (ti_of r) = x_dump_table E c (d_oid d) (ti_of r).
Proof.
  intros Hd Hr. rewrite (p_dump_table_expected E fs c WF R d r Hd Hr). unfold x_dump_table, expected_table.
  cbn [withDefaults o_listonly ti_of ti_oid ti_name ti_filenode ti_kind].
  destruct (wf_in c WF d Hd) as (_ & NDo & _).
  unfold x_attrs. rewrite find_adb_in by auto. rewrite (attrs_of_rel d r NDo Hr).
  change {| ti_oid := r_oid r; ti_filenode := r_filenode r; ti_name := r_name r; ti_kind := r_kind r |} with (ti_of r).
  rewrite <- (x_query_rel d r None Hd Hr). rewrite (query_all E fs c WF R d r Hd Hr). reflexivity.
Qed.

Lemma x_dump_database_ok db : p_dump_database E fs db = x_dump_database E c db.
Proof.
  unfold x_dump_database. destruct (find_adb c db) as [d|] eqn:Ef.
  - apply find_adb_some in Ef as [Hd <-]. eapply p_dump_database_expected; eauto.
  - unfold p_dump_database. rewrite x_dbs_ok. unfold x_dbs, expected_databases.
    rewrite (find_map_key db_of db_oid d_oid (a_dbs c) db (fun a => eq_refl)).
    unfold find_adb in Ef. rewrite Ef. reflexivity.
Qed.
Lemma x_dump_database_by_name_ok n : p_dump_database_by_name E fs n = x_dump_database_by_name E c n.
Proof.
  unfold p_dump_database_by_name, x_dump_database_by_name. rewrite x_database_ok.
  destruct (xdb n); [apply x_dump_database_ok|reflexivity].
Qed.
Lemma x_dump_all_ok : p_dump_all E fs = x_dump_all E c.
Proof. apply dump_all_ok; auto. Qed.

Lemma x_summary_ok : p_summary E fs = x_summary E c creds_of.
Proof.
  unfold p_summary, x_summary. rewrite x_version_ok, x_credentials_ok, x_dbs_ok. f_equal.
  unfold x_dbs, expected_databases. rewrite filter_map_comm, map_map. cbn [db_of db_name db_oid].
  apply map_ext_in. intros d Hd. apply filter_In in Hd as [Hd _]. f_equal. eapply p_tables_expected; eauto.
Qed.

Lemma x_exec_ok args : p_exec E fs args = x_exec E c creds_of ctl_of args.
Proof.
  unfold p_exec, x_exec.
  set (cmd := match args with a :: _ => a | [] => [] end).
  destruct (beq cmd [] || is_cmd cmd "summary"); [f_equal; apply x_summary_ok|].
  destruct (is_cmd cmd "version"); [f_equal; apply x_version_ok|].
  destruct (is_cmd cmd "control"); [reflexivity|].
  destruct (is_cmd cmd "creds" || is_cmd cmd "credentials"); [f_equal; apply x_credentials_ok|].
  destruct (is_cmd cmd "dbs" || is_cmd cmd "databases"); [f_equal; apply x_dbs_ok|].
  destruct (is_cmd cmd "tables").
  { destruct (Z.of_nat (length args) <? 2); [reflexivity|]. f_equal. apply x_tables_by_name_ok. }
  destruct (is_cmd cmd "columns").
  { destruct (Z.of_nat (length args) <? 3); [reflexivity|]. rewrite x_database_ok.
    destruct (xdb (nth 1 args [])) as [db|] eqn:Ed; [|reflexivity].
    apply x_database_in in Ed as (d & Hd & ->). cbn [db_of db_oid]. rewrite x_table_ok by auto.
    destruct (x_table E c (d_oid d) (nth 2 args [])) as [t|]; [|reflexivity]. f_equal. apply x_attrs_ok; auto. }
  destruct (is_cmd cmd "query").
  { destruct (Z.of_nat (length args) <? 3); [reflexivity|]. f_equal. apply x_query_by_name_ok. }
  destruct (is_cmd cmd "dump").
  { destruct (Z.of_nat (length args) >=? 2); f_equal; [apply x_dump_database_by_name_ok|apply x_dump_all_ok]. }
  reflexivity.
Qed.

(* the calls the statement covers: anything by name, any Exec, any database dump; by-oid listings of the cluster's
   own databases; queries / table dumps about nil, a filenode 0 or the cluster's own relations *)
Definition known_db (db : Z) : Prop := exists d, In d (a_dbs c) /\ d_oid d = db.
Definition call_in (k : call) : Prop :=
  match k with
  | KTables db | KTable db _ | KColumns db _ | KColumnNames db _ => known_db db
  | KQuery db t _ => known_table db t
  | KDumpTable db t => match t with
                       | None => True
                       | Some t => exists d r, In d (a_dbs c) /\ d_oid d = db /\ In r (d_rels d) /\ t = ti_of r
                       end
  | _ => True
  end.

Theorem answers k : call_in k -> pure_call E fs k = expected_answer E c creds_of ctl_of k.
Proof.
  destruct k; cbn [call_in pure_call expected_answer]; intros H.
  - f_equal. apply x_version_ok.
  - reflexivity.
  - f_equal. apply x_credentials_ok.
  - f_equal. apply x_dbs_ok.
  - f_equal. apply x_database_ok.
  - destruct H as (d & Hd & <-). f_equal. apply x_tables_ok; auto.
  - f_equal. apply x_tables_by_name_ok.
  - destruct H as (d & Hd & <-). f_equal. apply x_table_ok; auto.
  - destruct H as (d & Hd & <-). f_equal. apply x_attrs_ok; auto.
  - destruct H as (d & Hd & <-). f_equal. apply x_column_names_ok; auto.
  - f_equal. apply x_query_ok; auto.
  - f_equal. apply x_query_by_name_ok.
  - f_equal. destruct t as [t|]; [|reflexivity]. destruct H as (d & r & Hd & <- & Hr & ->). cbn [option_map]. f_equal.
    apply x_dump_table_ok; auto.
  - f_equal. apply x_dump_database_ok.
  - f_equal. apply x_dump_database_by_name_ok.
  - f_equal. apply x_dump_all_ok.
  - f_equal. apply x_summary_ok.
  - f_equal. apply x_exec_ok.
Qed.

(* ... and so does ONE client after any sequence of earlier calls, call by call *)
Theorem answers_any_client ks :
  Forall call_in ks ->
  run_calls E fs (NewRemoteClient E fs) ks = map (expected_answer E c creds_of ctl_of) ks.
Proof.
  intros H. rewrite run_calls_ok by apply new_ok. apply map_ext_in. intros k Hk.
  rewrite Forall_forall in H. apply answers; auto.
Qed.

End ExpectProofs.
