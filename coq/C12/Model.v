(* Model of the access paths of pgread (state after the four "fix:" commits 9d33496, 3f6901f, 9978c3f, e8977a2 on
   /repo main and "fix: RemoteClient.DumpAll listed a database whose pg_class cannot be read" on branch verif-C12):
     pgdump/pgdump.go   withDefaults, dumpTable, DumpDatabaseFromFiles, DumpDataDir
     pgdump/remote.go   NewRemoteClient, Version, Control, Credentials, Databases, Database, loadCatalog, Tables,
                        TablesByName, Table, Columns, ColumnNames, Query, QueryByName, DumpTable, DumpDatabase,
                        DumpDatabaseByName, DumpAll, findDB, Summary, SummaryResult.MarshalJSON, the String()
                        renderers, truncate, formatDump, Exec
     pgdump/detect.go   ListDatabases
   One definition per Go function, same name.  This property is about the EQUIVALENCE of the paths, so everything
   the paths share is a Section variable and every theorem holds for every instance of it:
     ParsePGDatabase ParsePGClass ParsePGAttribute ReadRows TypeName   (C01, C02, C03, C04)
     ParsePGAuthID (C14)   ParseControlFile, ControlString (C16)
     ToLower EqualFold TrimSpace (package strings: Unicode tables)   ScanInt (fmt.Sscanf "%d")
     fmt_d (%d)  pad (%-Ns)  fmt_v (%v of a decoded value)
     range_order  the order in which a `for … := range m` visits the entries of a Go map
   and the file system is a function  path -> option bytes  (None: the read failed).
   A Go map[uint32]TableInfo is the list of its entries (distinct keys, see class_keys in Spec.v); a nil slice and an
   empty slice are both [] (the code never distinguishes them: len(), range and omitempty only). *)
Require Import PG.Base.Bytes PG.Base.Value PG.C12.Lib.
Require Import Coq.Strings.String.
Import Coq.Init.Datatypes Coq.Lists.List ListNotations.

Definition lit (s : blit) : bytes := blit_to s.
Arguments lit s%blit.

Section Model.
Variable E : env.
Local Notation ParsePGDatabase := (e_ParsePGDatabase E).
Local Notation ParsePGClass := (e_ParsePGClass E).
Local Notation ParsePGAttribute := (e_ParsePGAttribute E).
Local Notation ReadRows := (e_ReadRows E).
Local Notation TypeName := (e_TypeName E).
Local Notation ParsePGAuthID := (e_ParsePGAuthID E).
Local Notation ControlFile := (e_ControlFile E).
Local Notation ParseControlFile := (e_ParseControlFile E).
Local Notation ControlString := (e_ControlString E).
Local Notation ToLower := (e_ToLower E).
Local Notation EqualFold := (e_EqualFold E).
Local Notation TrimSpace := (e_TrimSpace E).
Local Notation ScanInt := (e_ScanInt E).
Local Notation fmt_d := (e_fmt_d E).
Local Notation pad := (e_pad E).
Local Notation fmt_v := (e_fmt_v E).
Local Notation range_order := (e_range_order E).
Local Notation DetectDataDir := (e_DetectDataDir E).
Local Notation ParseUint32 := (e_ParseUint32 E).

Definition fsys := path -> option bytes.
Definition zeroTableInfo : TableInfo := {| ti_oid := 0; ti_filenode := 0; ti_name := []; ti_kind := [] |}.
(* tables[filenode] *)
Definition class_get (m : list (Z * TableInfo)) (fn : Z) : TableInfo :=
  match zfind m fn with Some i => i | None => zeroTableInfo end.

(* ================================================================ pgdump.go *)
(* pgdump.go:215-220 *)
Definition withDefaults (opts : option Options) : Options :=
  match opts with
  | None => {| o_dbfilter := []; o_tablefilter := []; o_listonly := false; o_skipsys := true; o_pgversion := 0 |}
  | Some o => o
  end.

Definition column_of_attr (a : AttrInfo) : Column :=
  {| c_name := ai_name a; c_typid := ai_typid a; c_len := ai_len a; c_num := ai_num a; c_align := ai_align a |}.
Definition colinfo_of_attr (a : AttrInfo) : ColumnInfo :=
  {| ci_name := ai_name a; ci_type := TypeName (ai_typid a); ci_typid := ai_typid a |}.

(* pgdump.go:180-213.  reader = None: a nil FileReader; reader fn = None: the reader returned an error *)
Definition dumpTable (filenode : Z) (info : TableInfo) (attrs : list AttrInfo)
                     (reader : option (Z -> option bytes)) (opts : Options) : TableDump :=
  let t := {| td_oid := ti_oid info; td_name := ti_name info; td_filenode := filenode; td_kind := ti_kind info;
              td_columns := map colinfo_of_attr attrs; td_rows := []; td_rowcount := 0 |} in
  if o_listonly opts then t else                                                   (* :196 *)
  match reader with
  | None => t
  | Some rd =>
    match rd filenode with
    | None => t                                                                    (* :201 err != nil *)
    | Some data =>
      if blen data =? 0 then t else                                                (* :201 len(data) == 0 *)
      let rows := ReadRows data (map column_of_attr attrs) in                      (* :205-210 *)
      {| td_oid := ti_oid info; td_name := ti_name info; td_filenode := filenode; td_kind := ti_kind info;
         td_columns := map colinfo_of_attr attrs; td_rows := rows; td_rowcount := Z.of_nat (length rows) |}
    end
  end.

(* pgdump.go:163-172: the three `continue`s *)
Definition table_wanted (opts : Options) (info : TableInfo) : bool :=
  negb (negb (beq (ti_kind info) s_r) && negb (beq (ti_kind info) [])) &&
  negb (o_skipsys opts && has_prefix (ti_name info) s_pg_) &&
  negb (negb (beq (o_tablefilter opts) []) &&
        negb (contains (ToLower (ti_name info)) (ToLower (o_tablefilter opts)))).

(* pgdump.go:148-178 (as repaired): the keys are collected by ranging over the map, sorted, then looked up *)
Definition DumpDatabaseFromFiles (classData attrData : bytes) (reader : option (Z -> option bytes))
                                 (opts : option Options) : DatabaseDump :=
  let opts := withDefaults opts in
  let tables := ParsePGClass classData in
  let attrs := ParsePGAttribute attrData (o_pgversion opts) in
  let filenodes := ksort (fun x => x) (map fst (range_order tables)) in             (* :155-159 *)
  {| dd_oid := 0; dd_name := [];
     dd_tables := flat_map (fun filenode =>
                    let info := class_get tables filenode in                        (* :163 *)
                    if table_wanted opts info
                    then [dumpTable filenode info (attrs (ti_oid info)) reader opts] (* :174 *)
                    else []) filenodes |}.

Definition or_nil (o : option bytes) : bytes := match o with Some d => d | None => [] end.

(* the body of  for _, db := range ParsePGDatabase(dbData)  (pgdump.go:119-143) *)
Definition dump_db (fs : fsys) (opts : Options) (db : DatabaseInfo) : list DatabaseDump :=
  if has_prefix (db_name db) s_template then [] else                               (* :120 *)
  if negb (beq (o_dbfilter opts) []) && negb (beq (db_name db) (o_dbfilter opts)) then [] else   (* :123 *)
  let classData := or_nil (fs (PBase (db_oid db) 1259)) in                         (* :128 error ignored: nil *)
  let attrData := or_nil (fs (PBase (db_oid db) 1249)) in                          (* :129 *)
  if blen classData =? 0 then [] else                                              (* :131 *)
  let reader := fun fn => fs (PBase (db_oid db) fn) in                             (* :135-137 *)
  let dump := DumpDatabaseFromFiles classData attrData (Some reader) (Some opts) in
  [{| dd_oid := db_oid db; dd_name := db_name db; dd_tables := dd_tables dump |}]. (* :140 *)

(* pgdump.go:110-146; None = (nil, err) *)
Definition DumpDataDir (fs : fsys) (opts : option Options) : option (list DatabaseDump) :=
  let opts := withDefaults opts in
  match fs (PGlobal 1262) with
  | None => None                                                                   (* :114 *)
  | Some dbData => Some (flat_map (dump_db fs opts) (ParsePGDatabase dbData))
  end.

(* ================================================================ detect.go *)
(* detect.go:197-204: less(i, j) *)
Definition db_less (a b : DatabaseInfo) : bool :=
  let ta := has_prefix (db_name a) s_template in let tb := has_prefix (db_name b) s_template in
  if Bool.eqb ta tb then bytes_ltb (db_name a) (db_name b) else negb ta.
Definition db_leb (a b : DatabaseInfo) : bool := negb (db_less b a).
(* detect.go:187-207.  sort.Slice is taken to return THE sorted arrangement (insertion sort); it is determined
   when no two databases have the same name. *)
Definition ListDatabases (fs : fsys) : list DatabaseInfo :=
  match fs (PGlobal 1262) with
  | None => []
  | Some data => isort db_leb (ParsePGDatabase data)
  end.

(* ================================================================ remote.go: the client *)
Record client := {
  c_version : Z;                                        (* c.version *)
  c_dbs : list DatabaseInfo;                            (* c.cache.databases; [] = nil *)
  c_tables : list (Z * list (Z * TableInfo));           (* c.cache.tables: only ever indexed by key *)
  c_columns : list (Z * (Z -> list AttrInfo)) }.        (* c.cache.columns *)

(* remote.go:25-33 *)
Definition NewRemoteClient (fs : fsys) : client :=
  {| c_version := match fs PVersion with Some data => ScanInt (TrimSpace data) | None => 0 end;
     c_dbs := []; c_tables := []; c_columns := [] |}.

(* remote.go:233-238 *)
Definition Version (fs : fsys) : bytes := match fs PVersion with Some data => TrimSpace data | None => [] end.
(* remote.go:240-247 *)
Definition Control (fs : fsys) : option ControlFile :=
  match fs PControl with Some data => ParseControlFile data | None => None end.
(* remote.go:249-254 *)
Definition Credentials (fs : fsys) : list AuthInfo :=
  match fs (PGlobal 1260) with Some data => ParsePGAuthID data | None => [] end.

(* remote.go:256-264 *)
Definition Databases (fs : fsys) (c : client) : client * list DatabaseInfo :=
  match c_dbs c with
  | _ :: _ => (c, c_dbs c)                                                         (* :257 *)
  | [] =>
    match fs (PGlobal 1262) with
    | Some data => let l := ParsePGDatabase data in
                   ({| c_version := c_version c; c_dbs := l; c_tables := c_tables c; c_columns := c_columns c |}, l)
    | None => (c, [])
    end
  end.

(* remote.go:266-279 (as repaired: exact name first) *)
Definition Database (fs : fsys) (c : client) (name : bytes) : client * option DatabaseInfo :=
  let '(c1, dbs) := Databases fs c in
  match find (fun db => beq (db_name db) name) dbs with
  | Some db => (c1, Some db)
  | None => let '(c2, dbs2) := Databases fs c1 in (c2, find (fun db => EqualFold (db_name db) name) dbs2)
  end.

Definition put_catalog (c : client) (db : Z) (t : list (Z * TableInfo)) (a : Z -> list AttrInfo) : client :=
  {| c_version := c_version c; c_dbs := c_dbs c; c_tables := (db, t) :: c_tables c; c_columns := (db, a) :: c_columns c |}.
(* remote.go:281-299 *)
Definition loadCatalog (fs : fsys) (c : client) (dbOID : Z) : client :=
  match zfind (c_tables c) dbOID with
  | Some _ => c                                                                    (* :282 *)
  | None =>
    match fs (PBase dbOID 1259) with
    | None => put_catalog c dbOID [] (fun _ => [])                                 (* :287-290 *)
    | Some classData =>
      match fs (PBase dbOID 1249) with
      | None => put_catalog c dbOID (ParsePGClass classData) (fun _ => [])         (* :294-296 *)
      | Some attrData => put_catalog c dbOID (ParsePGClass classData) (ParsePGAttribute attrData (c_version c))
      end
    end
  end.
Definition tables_of (c : client) (db : Z) : list (Z * TableInfo) :=
  match zfind (c_tables c) db with Some m => m | None => [] end.
Definition columns_of (c : client) (db tbl : Z) : list AttrInfo :=
  match zfind (c_columns c) db with Some f => f tbl | None => [] end.

(* remote.go:301-310 (as repaired: sorted by TableInfo.Filenode) *)
Definition Tables (fs : fsys) (c : client) (dbOID : Z) : client * list TableInfo :=
  let c1 := loadCatalog fs c dbOID in
  (c1, ksort ti_filenode (map snd (range_order (tables_of c1 dbOID)))).

(* remote.go:312-317 *)
Definition TablesByName (fs : fsys) (c : client) (dbName : bytes) : client * list TableInfo :=
  let '(c1, odb) := Database fs c dbName in
  match odb with Some db => Tables fs c1 (db_oid db) | None => (c1, []) end.

(* remote.go:319-333 (as repaired: over the sorted listing, exact name first) *)
Definition Table (fs : fsys) (c : client) (dbOID : Z) (tableName : bytes) : client * option TableInfo :=
  let '(c1, tables) := Tables fs c dbOID in
  match find (fun t => beq (ti_name t) tableName) tables with
  | Some t => (c1, Some t)
  | None => (c1, find (fun t => EqualFold (ti_name t) tableName) tables)
  end.

(* remote.go:335-338 *)
Definition Columns (fs : fsys) (c : client) (dbOID tableOID : Z) : client * list AttrInfo :=
  let c1 := loadCatalog fs c dbOID in (c1, columns_of c1 dbOID tableOID).
(* remote.go:340-348 *)
Definition ColumnNames (fs : fsys) (c : client) (dbOID tableOID : Z) : client * list bytes :=
  let '(c1, cols) := Columns fs c dbOID tableOID in
  (c1, map ai_name (filter (fun a => ai_num a >? 0) cols)).

(* remote.go:369-379: newRow[col] = val for the requested columns the row has *)
Definition project_row (cs : list bytes) (r : row) : row :=
  flat_map (fun col => match row_get r col with Some v => [(col, v)] | None => [] end) cs.
(* remote.go:355-386.  table = None: a nil *TableInfo; opts = None: nil *)
Definition Query (fs : fsys) (c : client) (dbOID : Z) (table : option TableInfo) (opts : option QueryOptions)
  : client * list row :=
  match table with
  | None => (c, [])
  | Some table =>
    if ti_filenode table =? 0 then (c, []) else                                    (* :356 *)
    match fs (PBase dbOID (ti_filenode table)) with
    | None => (c, [])                                                              (* :360 *)
    | Some data =>
      let '(c1, attrs) := Columns fs c dbOID (ti_oid table) in                     (* :363 *)
      let rows := ReadRows data (map column_of_attr attrs) in                      (* :364-368 *)
      let rows1 := match opts with
                   | Some o => if Z.of_nat (length (q_columns o)) >? 0             (* :369 *)
                               then map (project_row (q_columns o)) rows else rows
                   | None => rows
                   end in
      let rows2 := match opts with
                   | Some o => if (q_limit o >? 0) && (Z.of_nat (length rows1) >? q_limit o)   (* :382 *)
                               then firstn (Z.to_nat (q_limit o)) rows1 else rows1
                   | None => rows1
                   end in
      (c1, rows2)
    end
  end.

(* remote.go:388-395 *)
Definition QueryByName (fs : fsys) (c : client) (dbName tableName : bytes) (opts : option QueryOptions)
  : client * list row :=
  let '(c1, odb) := Database fs c dbName in
  match odb with
  | None => (c1, [])
  | Some db =>
    let '(c2, ot) := Table fs c1 (db_oid db) tableName in
    match ot with None => (c2, []) | Some t => Query fs c2 (db_oid db) (Some t) opts end
  end.

(* remote.go:397-409 *)
Definition DumpTable (fs : fsys) (c : client) (dbOID : Z) (table : option TableInfo) : client * option TableDump :=
  match table with
  | None => (c, None)
  | Some t =>
    let '(c1, rows) := Query fs c dbOID (Some t) None in
    let '(c2, attrs) := Columns fs c1 dbOID (ti_oid t) in
    let cols := map colinfo_of_attr (filter (fun a => ai_num a >? 0) attrs) in
    (c2, Some {| td_oid := ti_oid t; td_name := ti_name t; td_filenode := ti_filenode t; td_kind := ti_kind t;
                 td_columns := cols; td_rows := rows; td_rowcount := Z.of_nat (length rows) |})
  end.

(* remote.go:452-459 *)
Definition findDB (fs : fsys) (c : client) (oid : Z) : client * option DatabaseInfo :=
  let '(c1, dbs) := Databases fs c in (c1, find (fun db => db_oid db =? oid) dbs).

(* remote.go:417-427: the loop body, as repaired (relkind filter) *)
Definition remote_wanted (t : TableInfo) : bool :=
  negb (negb (beq (ti_kind t) s_r) && negb (beq (ti_kind t) [])) &&
  negb (has_prefix (ti_name t) s_pg_ || has_prefix (ti_name t) s_sql_).
Fixpoint dump_tables (fs : fsys) (c : client) (dbOID : Z) (ts : list TableInfo) : client * list TableDump :=
  match ts with
  | [] => (c, [])
  | t :: rest =>
    if remote_wanted t then
      let '(c1, otd) := DumpTable fs c dbOID (Some t) in
      let '(c2, r) := dump_tables fs c1 dbOID rest in
      match otd with
      | Some td => if Z.of_nat (length (td_rows td)) >? 0 then (c2, td :: r) else (c2, r)   (* :425 *)
      | None => (c2, r)
      end
    else dump_tables fs c dbOID rest
  end.
(* remote.go:411-430 *)
Definition DumpDatabase (fs : fsys) (c : client) (dbOID : Z) : client * option DatabaseDump :=
  let '(c1, odb) := findDB fs c dbOID in
  match odb with
  | None => (c1, None)
  | Some db =>
    let '(c2, ts) := Tables fs c1 dbOID in
    let '(c3, tds) := dump_tables fs c2 dbOID ts in
    (c3, Some {| dd_oid := dbOID; dd_name := db_name db; dd_tables := tds |})
  end.
(* remote.go:432-437 *)
Definition DumpDatabaseByName (fs : fsys) (c : client) (name : bytes) : client * option DatabaseDump :=
  let '(c1, odb) := Database fs c name in
  match odb with Some db => DumpDatabase fs c1 (db_oid db) | None => (c1, None) end.

(* hasClassFile: base/<oid>/1259 can be read and is not empty *)
Definition hasClassFile (fs : fsys) (dbOID : Z) : bool :=
  match fs (PBase dbOID 1259) with Some data => blen data >? 0 | None => false end.
Fixpoint dump_all_loop (fs : fsys) (c : client) (dbs : list DatabaseInfo) : client * list DatabaseDump :=
  match dbs with
  | [] => (c, [])
  | db :: rest =>
    if has_prefix (db_name db) s_template then dump_all_loop fs c rest else        (* template databases *)
    (* as repaired: like DumpDataDir, a database whose pg_class cannot be read (or is empty) is left out *)
    let '(c0, ts) := Tables fs c (db_oid db) in
    if (Z.of_nat (length ts) =? 0) && negb (hasClassFile fs (db_oid db)) then dump_all_loop fs c0 rest else
    let '(c1, od) := DumpDatabase fs c0 (db_oid db) in
    let '(c2, r) := dump_all_loop fs c1 rest in
    match od with Some d => (c2, d :: r) | None => (c2, r) end
  end.
(* remote.go:439-450 *)
Definition DumpAll (fs : fsys) (c : client) : client * list DatabaseDump :=
  let '(c1, dbs) := Databases fs c in dump_all_loop fs c1 dbs.

(* remote.go:153-158 *)
Record SummaryResult := { sr_version : bytes; sr_creds : list AuthInfo; sr_dbs : list DatabaseInfo;
                          sr_tables : list (Z * list TableInfo) }.       (* s.tables[oid] = …: assignments in order *)
(* s.tables[db.OID]: the last assignment to the key wins; nil when absent *)
Fixpoint sr_get (m : list (Z * list TableInfo)) (k : Z) : list TableInfo :=
  match m with
  | [] => []
  | (k', v) :: rest => if existsb (fun e => fst e =? k) rest then sr_get rest k else if k' =? k then v else []
  end.
Fixpoint summary_loop (fs : fsys) (c : client) (dbs : list DatabaseInfo) : client * list (Z * list TableInfo) :=
  match dbs with
  | [] => (c, [])
  | db :: rest =>
    if has_prefix (db_name db) s_template then summary_loop fs c rest else         (* :469 *)
    let '(c1, ts) := Tables fs c (db_oid db) in
    let '(c2, r) := summary_loop fs c1 rest in (c2, (db_oid db, ts) :: r)
  end.
(* remote.go:461-474 *)
Definition Summary (fs : fsys) (c : client) : client * SummaryResult :=
  let v := Version fs in let cr := Credentials fs in
  let '(c1, dbs) := Databases fs c in
  let '(c2, tbl) := summary_loop fs c1 dbs in
  (c2, {| sr_version := v; sr_creds := cr; sr_dbs := dbs; sr_tables := tbl |}).

(* ---------------------------------------------------------------- Summary as JSON (remote.go:207-225) *)
(* the Summary struct handed to json.Marshal; Databases is a Go map built by
   summary.Databases[name] = append(summary.Databases[name], t.Name) *)
Fixpoint smap_append (m : list (bytes * list bytes)) (k v : bytes) : list (bytes * list bytes) :=
  match m with
  | [] => [(k, [v])]
  | (k', l) :: rest => if beq k' k then (k', l ++ [v]) :: rest else (k', l) :: smap_append rest k v
  end.
Record SummaryJSON := { sj_version : bytes; sj_credentials : list bytes; sj_databases : list (bytes * list bytes) }.
Definition json_listed (t : TableInfo) : bool :=                                   (* :219 *)
  negb (has_prefix (ti_name t) s_pg_) && negb (has_prefix (ti_name t) s_sql_) && beq (ti_kind t) s_r.
Definition MarshalJSON (s : SummaryResult) : SummaryJSON :=
  {| sj_version := sr_version s;
     sj_credentials := map (fun cr => au_role cr ++ lit ":" ++ au_password cr)
                           (filter (fun cr => negb (beq (au_password cr) [])) (sr_creds s));      (* :209-213 *)
     sj_databases :=
       fold_left (fun m db =>
         if has_prefix (db_name db) s_template then m else                          (* :215 *)
         fold_left (fun m t => if json_listed t then smap_append m (db_name db) (ti_name t) else m)
                   (sr_get (sr_tables s) (db_oid db)) m)
       (sr_dbs s) [] |}.

(* ---------------------------------------------------------------- String() renderers *)
Definition nl : bytes := [x0a].
(* remote.go:534-539 *)
Definition truncate (s : bytes) (n : Z) : bytes :=
  if blen s <=? n then s else firstn (Z.to_nat (n - 2)) s ++ lit "..".

(* remote.go:58-66 *)
Definition CredsString (l : list AuthInfo) : bytes :=
  concat (map (fun cr => if negb (beq (au_password cr) []) then au_role cr ++ lit ":" ++ au_password cr ++ nl else []) l).
(* remote.go:70-77 *)
Definition DatabasesString (l : list DatabaseInfo) : bytes :=
  lit "NAME                 OID" ++ nl ++
  concat (map (fun db => pad 20 (db_name db) ++ lit " " ++ fmt_d (db_oid db) ++ nl) l).
(* remote.go:81-90 *)
Definition TablesString (l : list TableInfo) : bytes :=
  lit "NAME                           KIND   OID" ++ nl ++
  concat (map (fun t => if beq (ti_kind t) s_r then pad 30 (ti_name t) ++ lit " table  " ++ fmt_d (ti_oid t) ++ nl else []) l).
(* remote.go:94-103 *)
Definition ColumnsString (l : list AttrInfo) : bytes :=
  lit "NAME                 TYPE" ++ nl ++
  concat (map (fun a => if ai_num a >? 0 then pad 20 (ai_name a) ++ lit " " ++ TypeName (ai_typid a) ++ nl else []) l).

(* the keys of a row (a Go map): distinct, here in the order `sort.Strings` leaves them *)
Definition bytes_leb (a b : bytes) : bool := negb (bytes_ltb b a).
Fixpoint dedup (l : list bytes) : list bytes :=
  match l with [] => [] | x :: r => if existsb (beq x) r then dedup r else x :: dedup r end.
Definition row_keys (r : row) : list bytes := isort bytes_leb (dedup (map fst r)).
Definition cell (r : row) (col : bytes) : bytes :=
  pad 20 (truncate (fmt_v (match row_get r col with Some v => v | None => VNil end)) 20).
Definition grid (cols : list bytes) (rows : list row) : bytes :=
  concat (map (fun col => pad 20 (truncate col 20)) cols) ++ nl ++
  concat (map (fun r => concat (map (cell r) cols) ++ nl) rows).
(* remote.go:107-128 (as repaired: columns sorted) *)
Definition QueryString (q : list row) : bytes :=
  match q with
  | [] => lit "no data"
  | r0 :: _ => grid (row_keys r0) q
  end.
(* remote.go:541-566 (as repaired) *)
Definition formatDump (d : DatabaseDump) : bytes :=
  lit "=== " ++ dd_name d ++ lit " ===" ++ nl ++
  concat (map (fun t =>
    nl ++ lit "[" ++ td_name t ++ lit "] " ++ fmt_d (Z.of_nat (length (td_rows t))) ++ lit " rows" ++ nl ++
    match td_rows t with [] => [] | r0 :: _ => grid (row_keys r0) (td_rows t) end) (dd_tables d)).
(* remote.go:141-151 *)
Definition DumpAllString (l : list DatabaseDump) : bytes := concat (map (fun d => formatDump d ++ nl) l).

(* remote.go:160-205 *)
Definition SummaryString (s : SummaryResult) : bytes :=
  let withpw := filter (fun cr => negb (beq (au_password cr) [])) (sr_creds s) in
  lit "PostgreSQL " ++ sr_version s ++ nl ++ nl ++
  match withpw with
  | [] => []
  | _ => lit "CREDENTIALS" ++ nl ++
         concat (map (fun cr => lit "  " ++ au_role cr ++ (if au_super cr then lit " [superuser]" else []) ++ nl ++
                                lit "    " ++ au_password cr ++ nl) withpw) ++ nl
  end ++
  lit "DATABASES" ++ nl ++
  concat (map (fun db =>
    if has_prefix (db_name db) s_template then [] else
    let tables := sr_get (sr_tables s) (db_oid db) in
    let user := filter (fun t => negb (has_prefix (ti_name t) s_pg_) && beq (ti_kind t) s_r) tables in
    let names := map ti_name (filter (fun t => negb (has_prefix (ti_name t) s_sql_)) user) in
    match names with
    | [] => lit "  " ++ db_name db ++ lit " (" ++ fmt_d (Z.of_nat (length user)) ++ lit " tables)" ++ nl
    | n0 :: ns => lit "  " ++ db_name db ++ lit ": " ++ n0 ++ concat (map (fun n => lit ", " ++ n) ns) ++ nl
    end) (sr_dbs s)).

(* ---------------------------------------------------------------- Exec (remote.go:477-525) *)
Inductive exec_err := EUsageTables | EUsageColumns | EDbNotFound | ETableNotFound | EUsageQuery | EUnknown (cmd : bytes).
Inductive result :=
| RSummary (s : SummaryResult) | RVersion (v : bytes) | RControl (o : option ControlFile) | RCreds (l : list AuthInfo)
| RDatabases (l : list DatabaseInfo) | RTables (l : list TableInfo) | RColumns (l : list AttrInfo)
| RQuery (q : list row) | RDumpDatabase (o : option DatabaseDump) | RDumpAll (l : list DatabaseDump)
| RError (e : exec_err).

Definition is_cmd (cmd : bytes) (s : blit) : bool := beq cmd (lit s).
Arguments is_cmd cmd s%blit.
Definition Exec (fs : fsys) (c : client) (args : list bytes) : client * result :=
  let cmd := match args with a :: _ => a | [] => [] end in
  let nargs := Z.of_nat (length args) in
  let arg i := nth i args [] in
  if beq cmd [] || is_cmd cmd "summary" then let '(c1, s) := Summary fs c in (c1, RSummary s)
  else if is_cmd cmd "version" then (c, RVersion (Version fs))
  else if is_cmd cmd "control" then (c, RControl (Control fs))
  else if is_cmd cmd "creds" || is_cmd cmd "credentials" then (c, RCreds (Credentials fs))
  else if is_cmd cmd "dbs" || is_cmd cmd "databases" then let '(c1, l) := Databases fs c in (c1, RDatabases l)
  else if is_cmd cmd "tables" then
    if nargs <? 2 then (c, RError EUsageTables)
    else let '(c1, l) := TablesByName fs c (arg 1%nat) in (c1, RTables l)
  else if is_cmd cmd "columns" then
    if nargs <? 3 then (c, RError EUsageColumns) else
    let '(c1, odb) := Database fs c (arg 1%nat) in
    match odb with
    | None => (c1, RError EDbNotFound)
    | Some db =>
      let '(c2, ot) := Table fs c1 (db_oid db) (arg 2%nat) in
      match ot with
      | None => (c2, RError ETableNotFound)
      | Some t => let '(c3, l) := Columns fs c2 (db_oid db) (ti_oid t) in (c3, RColumns l)
      end
    end
  else if is_cmd cmd "query" then
    if nargs <? 3 then (c, RError EUsageQuery)
    else let '(c1, q) := QueryByName fs c (arg 1%nat) (arg 2%nat) (Some {| q_columns := []; q_limit := 20 |}) in (c1, RQuery q)
  else if is_cmd cmd "dump" then
    if nargs >=? 2 then let '(c1, o) := DumpDatabaseByName fs c (arg 1%nat) in (c1, RDumpDatabase o)
    else let '(c1, l) := DumpAll fs c in (c1, RDumpAll l)
  else (c, RError (EUnknown cmd)).

Definition err_string (e : exec_err) : bytes :=
  match e with
  | EUsageTables => lit "usage: tables <database>"
  | EUsageColumns => lit "usage: columns <database> <table>"
  | EDbNotFound => lit "database not found"
  | ETableNotFound => lit "table not found"
  | EUsageQuery => lit "usage: query <database> <table>"
  | EUnknown cmd => lit "unknown command: " ++ cmd
  end.
(* Result.String() *)
Definition result_string (r : result) : bytes :=
  match r with
  | RSummary s => SummaryString s
  | RVersion v => v
  | RControl None => lit "could not read pg_control"
  | RControl (Some cf) => ControlString cf
  | RCreds l => CredsString l
  | RDatabases l => DatabasesString l
  | RTables l => TablesString l
  | RColumns l => ColumnsString l
  | RQuery q => QueryString q
  | RDumpDatabase None => []
  | RDumpDatabase (Some d) => formatDump d
  | RDumpAll l => DumpAllString l
  | RError e => err_string e
  end.

(* ---------------------------------------------------------------- call sequences on one client *)
Inductive call :=
| KVersion | KControl | KCredentials | KDatabases | KDatabase (n : bytes) | KTables (db : Z) | KTablesByName (n : bytes)
| KTable (db : Z) (n : bytes) | KColumns (db oid : Z) | KColumnNames (db oid : Z)
| KQuery (db : Z) (t : option TableInfo) (o : option QueryOptions) | KQueryByName (dn tn : bytes) (o : option QueryOptions)
| KDumpTable (db : Z) (t : option TableInfo) | KDumpDatabase (db : Z) | KDumpDatabaseByName (n : bytes) | KDumpAll
| KSummary | KExec (args : list bytes).
Inductive answer :=
| NBytes (b : bytes) | NControl (o : option ControlFile) | NCreds (l : list AuthInfo) | NDbs (l : list DatabaseInfo)
| NDb (o : option DatabaseInfo) | NTables (l : list TableInfo) | NTable (o : option TableInfo) | NAttrs (l : list AttrInfo)
| NNames (l : list bytes) | NRows (l : list row) | NTableDump (o : option TableDump) | NDbDump (o : option DatabaseDump)
| NDump (l : list DatabaseDump) | NSummary (s : SummaryResult) | NResult (r : result).


Definition do_call (fs : fsys) (c : client) (k : call) : client * answer :=
  match k with
  | KVersion => (c, NBytes (Version fs))
  | KControl => (c, NControl (Control fs))
  | KCredentials => (c, NCreds (Credentials fs))
  | KDatabases => let '(c1, r) := Databases fs c in (c1, NDbs r)
  | KDatabase n => let '(c1, r) := Database fs c n in (c1, NDb r)
  | KTables db => let '(c1, r) := Tables fs c db in (c1, NTables r)
  | KTablesByName n => let '(c1, r) := TablesByName fs c n in (c1, NTables r)
  | KTable db n => let '(c1, r) := Table fs c db n in (c1, NTable r)
  | KColumns db oid => let '(c1, r) := Columns fs c db oid in (c1, NAttrs r)
  | KColumnNames db oid => let '(c1, r) := ColumnNames fs c db oid in (c1, NNames r)
  | KQuery db t o => let '(c1, r) := Query fs c db t o in (c1, NRows r)
  | KQueryByName dn tn o => let '(c1, r) := QueryByName fs c dn tn o in (c1, NRows r)
  | KDumpTable db t => let '(c1, r) := DumpTable fs c db t in (c1, NTableDump r)
  | KDumpDatabase db => let '(c1, r) := DumpDatabase fs c db in (c1, NDbDump r)
  | KDumpDatabaseByName n => let '(c1, r) := DumpDatabaseByName fs c n in (c1, NDbDump r)
  | KDumpAll => let '(c1, r) := DumpAll fs c in (c1, NDump r)
  | KSummary => let '(c1, r) := Summary fs c in (c1, NSummary r)
  | KExec args => let '(c1, r) := Exec fs c args in (c1, NResult r)
  end.
(* the answers of a sequence of calls on ONE client (the cache is carried along) *)
Fixpoint run_calls (fs : fsys) (c : client) (ks : list call) : list answer :=
  match ks with
  | [] => []
  | k :: rest => let '(c1, a) := do_call fs c k in a :: run_calls fs c1 rest
  end.

End Model.
(* Arguments declared inside a section do not survive it *)
Arguments is_cmd cmd s%blit.
