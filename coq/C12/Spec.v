(* Spec for C12.  Written on the abstract content of a cluster, never on the code:
   - an abstract cluster (databases; per database its relations of every kind with oid, filenode, name, relkind,
     attributes and the rows of its file) and [realizes], which says that a file system, READ THROUGH THE SHARED
     PARSERS, holds exactly that content (the parsers themselves are C01/C02/C03/C04's);
   - what each access path must return: expected_dump (filters of Options), the remote dump = the data-directory
     dump minus the DOCUMENTED omissions (empty tables, sql_* tables), listings, by-name lookup (exact name
     first), query = firstn n (map (project cs) rows);
   - the cache-free reading of a RemoteClient call ([pure_call]): what a FRESH client answers. *)
Require Import PG.Base.Bytes PG.Base.Value PG.C12.Lib PG.C12.Model.
Require Import Coq.Sorting.Permutation.
Require Import Coq.Strings.String.
Import Coq.Init.Datatypes Coq.Lists.List ListNotations.

(* ---------------------------------------------------------------- the abstract cluster *)
Record arel := { r_oid : Z; r_filenode : Z; r_name : bytes; r_kind : bytes; r_attrs : list AttrInfo;
                 r_rows : option (list row) }.     (* None: the relation has no file; Some rs: the rows in its file *)
Record adb := { d_oid : Z; d_name : bytes; d_rels : list arel }.
Record acluster := { a_version : option bytes;      (* content of PG_VERSION, if present *)
                     a_dbs : list adb }.            (* pg_database, in stored order *)

Definition ti_of (r : arel) : TableInfo :=
  {| ti_oid := r_oid r; ti_filenode := r_filenode r; ti_name := r_name r; ti_kind := r_kind r |}.
Definition db_of (d : adb) : DatabaseInfo := {| db_oid := d_oid d; db_name := d_name d |}.
Definition rel_rows (r : arel) : list row := match r_rows r with Some l => l | None => [] end.
Definition attrs_of (d : adb) (oid : Z) : list AttrInfo :=
  match find (fun r => r_oid r =? oid) (d_rels d) with Some r => r_attrs r | None => [] end.

Definition wf_db (d : adb) : Prop :=
  NoDup (map r_filenode (d_rels d)) /\ NoDup (map r_oid (d_rels d)) /\
  (forall r, In r (d_rels d) -> 0 < r_filenode r /\ forall a, In a (r_attrs r) -> 0 < ai_num a).
Definition wf_cluster (c : acluster) : Prop :=
  NoDup (map d_oid (a_dbs c)) /\ NoDup (map d_name (a_dbs c)) /\ Forall wf_db (a_dbs c).

Section Spec.
Variable E : env.
Local Notation ParsePGDatabase := (e_ParsePGDatabase E).
Local Notation ParsePGClass := (e_ParsePGClass E).
Local Notation ParsePGAttribute := (e_ParsePGAttribute E).
Local Notation ReadRows := (e_ReadRows E).
Local Notation TypeName := (e_TypeName E).
Local Notation ParsePGAuthID := (e_ParsePGAuthID E).
Local Notation ControlFile := (e_ControlFile E).
Local Notation ParseControlFile := (e_ParseControlFile E).
Local Notation ControlString := (e_ControlString E).
Local Notation ToLower := (e_ToLower E).
Local Notation EqualFold := (e_EqualFold E).
Local Notation TrimSpace := (e_TrimSpace E).
Local Notation ScanInt := (e_ScanInt E).
Local Notation fmt_d := (e_fmt_d E).
Local Notation pad := (e_pad E).
Local Notation fmt_v := (e_fmt_v E).
Local Notation range_order := (e_range_order E).
Local Notation DetectDataDir := (e_DetectDataDir E).
Local Notation ParseUint32 := (e_ParseUint32 E).

(* the version hint a client takes from PG_VERSION *)
Definition hint_of (fs : fsys) : Z := match fs PVersion with Some data => ScanInt (TrimSpace data) | None => 0 end.

(* ---------------------------------------------------------------- "fs holds cluster c", read with layout hint v *)
Definition realizes_rel (fs : fsys) (d : adb) (r : arel) : Prop :=
  match r_rows r with
  | None => fs (PBase (d_oid d) (r_filenode r)) = None
  | Some rows => exists data, fs (PBase (d_oid d) (r_filenode r)) = Some data /\
                              ReadRows data (map column_of_attr (r_attrs r)) = rows /\
                              (blen data = 0 -> rows = [])
  end.
Definition realizes_db (v : Z) (fs : fsys) (d : adb) : Prop :=
  exists cd ad,
    fs (PBase (d_oid d) 1259) = Some cd /\ 0 < blen cd /\
    Permutation (ParsePGClass cd) (map (fun r => (r_filenode r, ti_of r)) (d_rels d)) /\
    fs (PBase (d_oid d) 1249) = Some ad /\
    (forall oid, ParsePGAttribute ad v oid = attrs_of d oid) /\
    forall r, In r (d_rels d) -> realizes_rel fs d r.
Definition realizes (v : Z) (fs : fsys) (c : acluster) : Prop :=
  fs PVersion = a_version c /\
  (exists dd, fs (PGlobal 1262) = Some dd /\ ParsePGDatabase dd = map db_of (a_dbs c)) /\
  forall d, In d (a_dbs c) -> realizes_db v fs d.

(* ---------------------------------------------------------------- the data-directory dump *)
Definition ordinary (r : arel) : bool := beq (r_kind r) s_r || beq (r_kind r) [].   (* relkind 'r' (or not recorded) *)
Definition table_selected (o : Options) (r : arel) : bool :=
  ordinary r && negb (o_skipsys o && has_prefix (r_name r) s_pg_) &&
  (beq (o_tablefilter o) [] || contains (ToLower (r_name r)) (ToLower (o_tablefilter o))).
Definition expected_table (o : Options) (r : arel) : TableDump :=
  let rows := if o_listonly o then [] else rel_rows r in
  {| td_oid := r_oid r; td_name := r_name r; td_filenode := r_filenode r; td_kind := r_kind r;
     td_columns := map (colinfo_of_attr E) (r_attrs r); td_rows := rows; td_rowcount := Z.of_nat (length rows) |}.
Definition expected_tables (o : Options) (d : adb) : list TableDump :=
  map (expected_table o) (ksort r_filenode (filter (table_selected o) (d_rels d))).
Definition db_selected (o : Options) (d : adb) : bool :=
  negb (has_prefix (d_name d) s_template) && (beq (o_dbfilter o) [] || beq (d_name d) (o_dbfilter o)).
Definition expected_db (o : Options) (d : adb) : DatabaseDump :=
  {| dd_oid := d_oid d; dd_name := d_name d; dd_tables := expected_tables o d |}.
Definition expected_dump (c : acluster) (opts : option Options) : list DatabaseDump :=
  let o := withDefaults opts in map (expected_db o) (filter (db_selected o) (a_dbs c)).

(* ---------------------------------------------------------------- the remote dump: the documented omissions *)
Definition remote_keeps (t : TableDump) : bool :=
  negb (has_prefix (td_name t) s_sql_) && negb (Z.of_nat (length (td_rows t)) =? 0).
Definition restrict (d : DatabaseDump) : DatabaseDump :=
  {| dd_oid := dd_oid d; dd_name := dd_name d; dd_tables := filter remote_keeps (dd_tables d) |}.
Definition expected_remote_all (c : acluster) : list DatabaseDump := map restrict (expected_dump c None).

(* ---------------------------------------------------------------- listings, lookups, query *)
Definition expected_databases (c : acluster) : list DatabaseInfo := map db_of (a_dbs c).
Definition expected_listing (d : adb) : list TableInfo := map ti_of (ksort r_filenode (d_rels d)).   (* every kind *)
(* by-name lookup: the entry with exactly that name when there is one, otherwise the first case-insensitive match *)
Definition lookup {A} (name_of : A -> bytes) (l : list A) (name : bytes) : option A :=
  match find (fun x => beq (name_of x) name) l with
  | Some x => Some x
  | None => find (fun x => EqualFold (name_of x) name) l
  end.
Definition find_adb (c : acluster) (oid : Z) : option adb := find (fun d => d_oid d =? oid) (a_dbs c).
Definition project (cs : list bytes) (r : row) : row :=
  flat_map (fun col => match row_get r col with Some v => [(col, v)] | None => [] end) cs.
(* projection keeps the requested columns that exist (none requested: all), limit n > 0 keeps the first n rows *)
Definition expected_query (r : arel) (cs : list bytes) (n : Z) : list row :=
  let rows := match cs with [] => rel_rows r | _ => map (project cs) (rel_rows r) end in
  if n <=? 0 then rows else firstn (Z.to_nat n) rows.

(* ================================================================ what a fresh client answers *)
Definition p_dbs (fs : fsys) : list DatabaseInfo :=
  match fs (PGlobal 1262) with Some d => ParsePGDatabase d | None => [] end.
Definition p_class (fs : fsys) (db : Z) : list (Z * TableInfo) :=
  match fs (PBase db 1259) with Some d => ParsePGClass d | None => [] end.
Definition p_attrs (fs : fsys) (db oid : Z) : list AttrInfo :=
  match fs (PBase db 1259) with
  | None => []
  | Some _ => match fs (PBase db 1249) with Some ad => ParsePGAttribute ad (hint_of fs) oid | None => [] end
  end.
Definition p_database (fs : fsys) (name : bytes) : option DatabaseInfo := lookup db_name (p_dbs fs) name.
Definition p_tables (fs : fsys) (db : Z) : list TableInfo :=
  ksort ti_filenode (map snd (range_order (p_class fs db))).
Definition p_tables_by_name (fs : fsys) (n : bytes) : list TableInfo :=
  match p_database fs n with Some db => p_tables fs (db_oid db) | None => [] end.
Definition p_table (fs : fsys) (db : Z) (name : bytes) : option TableInfo := lookup ti_name (p_tables fs db) name.
Definition p_column_names (fs : fsys) (db oid : Z) : list bytes :=
  map ai_name (filter (fun a => ai_num a >? 0) (p_attrs fs db oid)).
Definition apply_opts (opts : option QueryOptions) (rows : list row) : list row :=
  let rows1 := match opts with
               | Some o => if Z.of_nat (length (q_columns o)) >? 0 then map (project_row (q_columns o)) rows else rows
               | None => rows
               end in
  match opts with
  | Some o => if (q_limit o >? 0) && (Z.of_nat (length rows1) >? q_limit o) then firstn (Z.to_nat (q_limit o)) rows1 else rows1
  | None => rows1
  end.
Definition p_query (fs : fsys) (db : Z) (table : option TableInfo) (opts : option QueryOptions) : list row :=
  match table with
  | None => []
  | Some t =>
    if ti_filenode t =? 0 then [] else
    match fs (PBase db (ti_filenode t)) with
    | None => []
    | Some data => apply_opts opts (ReadRows data (map column_of_attr (p_attrs fs db (ti_oid t))))
    end
  end.
Definition p_query_by_name (fs : fsys) (dn tn : bytes) (opts : option QueryOptions) : list row :=
  match p_database fs dn with
  | None => []
  | Some db => match p_table fs (db_oid db) tn with None => [] | Some t => p_query fs (db_oid db) (Some t) opts end
  end.
Definition p_dump_table (fs : fsys) (db : Z) (t : TableInfo) : TableDump :=
  let rows := p_query fs db (Some t) None in
  {| td_oid := ti_oid t; td_name := ti_name t; td_filenode := ti_filenode t; td_kind := ti_kind t;
     td_columns := map (colinfo_of_attr E) (filter (fun a => ai_num a >? 0) (p_attrs fs db (ti_oid t)));
     td_rows := rows; td_rowcount := Z.of_nat (length rows) |}.
Definition p_dump_tables (fs : fsys) (db : Z) (ts : list TableInfo) : list TableDump :=
  filter (fun td => Z.of_nat (length (td_rows td)) >? 0) (map (p_dump_table fs db) (filter remote_wanted ts)).
Definition p_dump_database (fs : fsys) (db : Z) : option DatabaseDump :=
  match find (fun d => db_oid d =? db) (p_dbs fs) with
  | None => None
  | Some d => Some {| dd_oid := db; dd_name := db_name d; dd_tables := p_dump_tables fs db (p_tables fs db) |}
  end.
Definition p_dump_database_by_name (fs : fsys) (n : bytes) : option DatabaseDump :=
  match p_database fs n with Some db => p_dump_database fs (db_oid db) | None => None end.
Definition p_dump_all_db (fs : fsys) (db : DatabaseInfo) : list DatabaseDump :=
  if has_prefix (db_name db) s_template then [] else
  if (Z.of_nat (length (p_tables fs (db_oid db))) =? 0) && negb (hasClassFile fs (db_oid db)) then [] else
  match p_dump_database fs (db_oid db) with Some d => [d] | None => [] end.
Definition p_dump_all (fs : fsys) : list DatabaseDump := flat_map (p_dump_all_db fs) (p_dbs fs).
Definition p_summary (fs : fsys) : SummaryResult :=
  {| sr_version := Version E fs; sr_creds := Credentials E fs; sr_dbs := p_dbs fs;
     sr_tables := map (fun db => (db_oid db, p_tables fs (db_oid db)))
                      (filter (fun db => negb (has_prefix (db_name db) s_template)) (p_dbs fs)) |}.

Definition p_exec (fs : fsys) (args : list bytes) : result E :=
  let cmd := match args with a :: _ => a | [] => [] end in
  let nargs := Z.of_nat (length args) in
  let arg i := nth i args [] in
  if beq cmd [] || is_cmd cmd "summary" then RSummary _ (p_summary fs)
  else if is_cmd cmd "version" then RVersion _ (Version E fs)
  else if is_cmd cmd "control" then RControl _ (Control E fs)
  else if is_cmd cmd "creds" || is_cmd cmd "credentials" then RCreds _ (Credentials E fs)
  else if is_cmd cmd "dbs" || is_cmd cmd "databases" then RDatabases _ (p_dbs fs)
  else if is_cmd cmd "tables" then
    if nargs <? 2 then RError _ EUsageTables else RTables _ (p_tables_by_name fs (arg 1%nat))
  else if is_cmd cmd "columns" then
    if nargs <? 3 then RError _ EUsageColumns else
    match p_database fs (arg 1%nat) with
    | None => RError _ EDbNotFound
    | Some db => match p_table fs (db_oid db) (arg 2%nat) with
                 | None => RError _ ETableNotFound
                 | Some t => RColumns _ (p_attrs fs (db_oid db) (ti_oid t))
                 end
    end
  else if is_cmd cmd "query" then
    if nargs <? 3 then RError _ EUsageQuery
    else RQuery _ (p_query_by_name fs (arg 1%nat) (arg 2%nat) (Some {| q_columns := []; q_limit := 20 |}))
  else if is_cmd cmd "dump" then
    if nargs >=? 2 then RDumpDatabase _ (p_dump_database_by_name fs (arg 1%nat)) else RDumpAll _ (p_dump_all fs)
  else RError _ (EUnknown cmd).

(* ---------------------------------------------------------------- what a fresh client answers to a call *)
Definition pure_call (fs : fsys) (k : call) : answer E :=
  match k with
  | KVersion => NBytes _ (Version E fs)
  | KControl => NControl _ (Control E fs)
  | KCredentials => NCreds _ (Credentials E fs)
  | KDatabases => NDbs _ (p_dbs fs)
  | KDatabase n => NDb _ (p_database fs n)
  | KTables db => NTables _ (p_tables fs db)
  | KTablesByName n => NTables _ (p_tables_by_name fs n)
  | KTable db n => NTable _ (p_table fs db n)
  | KColumns db oid => NAttrs _ (p_attrs fs db oid)
  | KColumnNames db oid => NNames _ (p_column_names fs db oid)
  | KQuery db t o => NRows _ (p_query fs db t o)
  | KQueryByName dn tn o => NRows _ (p_query_by_name fs dn tn o)
  | KDumpTable db t => NTableDump _ (option_map (p_dump_table fs db) t)
  | KDumpDatabase db => NDbDump _ (p_dump_database fs db)
  | KDumpDatabaseByName n => NDbDump _ (p_dump_database_by_name fs n)
  | KDumpAll => NDump _ (p_dump_all fs)
  | KSummary => NSummary _ (p_summary fs)
  | KExec args => NResult _ (p_exec fs args)
  end.

End Spec.
