(* The behaviour before the repairs, kept machine-checked on small historic models:
   D42  RemoteClient.DumpDatabase had no relkind filter (before eb776ad): an index with rows was dumped as a table;
   D43  RemoteClient.Database/Table took the first strings.EqualFold match (before d4aad97): of two names differing
        only in case the second could not be reached;
   D63  RemoteClient.DumpAll listed a database whose directory (pg_class) cannot be read, with no tables, while
        DumpDataDir leaves such a database out (before "fix: RemoteClient.DumpAll listed a database whose pg_class ..."). *)
Require Import PG.Base.Bytes PG.Base.Value PG.C12.Lib PG.C12.Model PG.C12.Spec PG.C12.DumpProofs.
Require Import Coq.Sorting.Permutation.

(* ---------------------------------------------------------------- D42 *)
Definition remote_wanted_h (t : TableInfo) : bool :=
  negb (has_prefix (ti_name t) s_pg_ || has_prefix (ti_name t) s_sql_).
Definition p_dump_tables_h (E : env) (fs : fsys) (db : Z) (ts : list TableInfo) : list TableDump :=
  filter (fun td => Z.of_nat (length (td_rows td)) >? 0) (map (p_dump_table E fs db) (filter remote_wanted_h ts)).
Definition p_dump_all_h (E : env) (fs : fsys) : list DatabaseDump :=
  flat_map (fun db => if has_prefix (db_name db) s_template then [] else
                      match find (fun d => db_oid d =? db_oid db) (p_dbs E fs) with
                      | None => []
                      | Some d => [{| dd_oid := db_oid db; dd_name := db_name d;
                                      dd_tables := p_dump_tables_h E fs (db_oid db) (p_tables E fs (db_oid db)) |}]
                      end) (p_dbs E fs).

Definition w_idx : TableInfo := {| ti_oid := 9; ti_filenode := 5; ti_name := ["i"]%byte; ti_kind := ["i"]%byte |}.
Definition w_env : env :=
  {| e_ParsePGDatabase := fun _ => [{| db_oid := 1; db_name := ["d"]%byte |}];
     e_ParsePGClass := fun _ => [(5, w_idx)];
     e_ParsePGAttribute := fun _ _ _ => [];
     e_ReadRows := fun _ _ => [[]];
     e_TypeName := fun _ => [];
     e_ParsePGAuthID := fun _ => [];
     e_ControlFile := unit;
     e_ParseControlFile := fun _ => None;
     e_ControlString := fun _ => [];
     e_ToLower := ascii_lower;
     e_EqualFold := ascii_fold_eq;
     e_TrimSpace := fun s => s;
     e_ScanInt := fun _ => 0;
     e_fmt_d := fun _ => [];
     e_pad := fun _ s => s;
     e_fmt_v := fun _ => [];
     e_range_order := fun l => l;
     e_DetectDataDir := [];
     e_ParseUint32 := fun _ => None |}.
Definition w_fs : fsys := fun _ => Some [x00].
Definition w_cluster : acluster :=
  {| a_version := Some [x00];
     a_dbs := [{| d_oid := 1; d_name := ["d"]%byte;
                  d_rels := [{| r_oid := 9; r_filenode := 5; r_name := ["i"]%byte; r_kind := ["i"]%byte;
                                r_attrs := []; r_rows := Some [[]] |}] |}] |}.

Lemma nodup1 {A} (x : A) : NoDup [x].
Proof. constructor; [intros []|constructor]. Qed.
Lemma w_wf : wf_cluster w_cluster.
Proof.
  unfold wf_cluster, w_cluster; cbn. split; [apply nodup1|]. split; [apply nodup1|].
  constructor; [|constructor]. unfold wf_db; cbn. split; [apply nodup1|]. split; [apply nodup1|].
  intros r [<-|[]]. cbn. split; [lia|]. intros a [].
Qed.
Lemma w_realizes : realizes w_env (hint_of w_env w_fs) w_fs w_cluster.
Proof.
  unfold realizes. split; [reflexivity|]. split; [exists [x00]; split; reflexivity|].
  intros d [<-|[]]. exists [x00], [x00]. cbn.
  split; [reflexivity|]. split; [lia|]. split; [reflexivity|]. split; [reflexivity|]. split.
  - intros oid. unfold attrs_of; cbn [d_rels find r_oid]. destruct (9 =? oid); reflexivity.
  - intros r [<-|[]]. unfold realizes_rel; cbn. exists [x00]. split; [reflexivity|]. split; [reflexivity|]. cbn. lia.
Qed.
Theorem remote_kinds_refuted :
  exists E fs c, range_perm E /\ wf_cluster c /\ realizes E (hint_of E fs) fs c /\
                 p_dump_all_h E fs <> expected_remote_all E c.
Proof.
  exists w_env, w_fs, w_cluster. split; [intros l; reflexivity|]. split; [exact w_wf|]. split; [exact w_realizes|].
  vm_compute. discriminate.
Qed.

(* ---------------------------------------------------------------- D43 *)
Definition lookup_h (E : env) {A} (name_of : A -> bytes) (l : list A) (name : bytes) : option A :=
  find (fun x => e_EqualFold E (name_of x) name) l.
Theorem equalfold_refuted :
  exists (l : list bytes) x, NoDup l /\ In x l /\ lookup_h w_env (fun n => n) l x <> Some x.
Proof.
  exists [["A"; "p"; "p"]%byte; ["a"; "p"; "p"]%byte], ["a"; "p"; "p"]%byte.
  split; [repeat constructor; cbn; intuition discriminate|]. split; [right; left; reflexivity|].
  vm_compute. discriminate.
Qed.

(* ---------------------------------------------------------------- D63 *)
Definition p_dump_all_h2 (E : env) (fs : fsys) : list DatabaseDump :=
  flat_map (fun db => if has_prefix (db_name db) s_template then [] else
                      match p_dump_database E fs (db_oid db) with Some d => [d] | None => [] end) (p_dbs E fs).
(* pg_database lists database 1, but there is no base/1 *)
Definition w_fs2 : fsys := fun p => match p with PGlobal _ => Some [x00] | _ => None end.
Theorem missing_directory_refuted :
  exists E fs, DumpDataDir E fs None = Some [] /\ p_dump_all_h2 E fs <> [] /\ p_dump_all E fs = [].
Proof.
  exists w_env, w_fs2. split; [vm_compute; reflexivity|]. split; [vm_compute; discriminate|vm_compute; reflexivity].
Qed.
