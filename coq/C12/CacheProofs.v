(* Cache transparency of RemoteClient: on a client whose cache is consistent with the file system (cache_ok; a
   fresh client is), every method returns what the cache-free reading of Spec.v returns and leaves the cache
   consistent.  Hence any sequence of calls on one client answers like a fresh client (run_calls_pure). *)
Require Import PG.Base.Bytes PG.Base.Value PG.C12.Lib PG.C12.Model PG.C12.Spec.
Require Import Coq.Strings.String.
Import Coq.Init.Datatypes Coq.Lists.List ListNotations.

Section CacheProofs.
Variable E : env.
Variable fs : fsys.

Definition cache_ok (c : client) : Prop :=
  c_version c = hint_of E fs /\
  (c_dbs c = [] \/ c_dbs c = p_dbs E fs) /\
  forall db m, zfind (c_tables c) db = Some m ->
    m = p_class E fs db /\ exists f, zfind (c_columns c) db = Some f /\ forall oid, f oid = p_attrs E fs db oid.

Lemma new_ok : cache_ok (NewRemoteClient E fs).
Proof. unfold cache_ok, NewRemoteClient, hint_of. cbn. split; [reflexivity|]. split; [auto|]. intros; discriminate. Qed.

Lemma Databases_ok c c' r : cache_ok c -> Databases E fs c = (c', r) -> cache_ok c' /\ r = p_dbs E fs.
Proof.
  intros (Hv & Hd & Ht) H. unfold Databases in H. destruct (c_dbs c) as [|x l] eqn:Ed.
  - unfold p_dbs. destruct (fs (PGlobal 1262)) as [data|] eqn:Ef; inversion H; subst; clear H.
    + split; [|reflexivity]. unfold cache_ok; cbn. split; [exact Hv|]. split; [|exact Ht].
      right. unfold p_dbs. rewrite Ef. reflexivity.
    + split; [|reflexivity]. unfold cache_ok. rewrite Ed. auto.
  - inversion H; subst; clear H. split; [unfold cache_ok; rewrite Ed; auto|].
    destruct Hd as [Hd|Hd]; [discriminate|exact Hd].
Qed.

Lemma Database_ok c c' r n : cache_ok c -> Database E fs c n = (c', r) -> cache_ok c' /\ r = p_database E fs n.
Proof.
  intros K H. unfold Database in H. destruct (Databases E fs c) as [c1 dbs] eqn:H1.
  apply Databases_ok in H1 as [K1 ->]; auto. unfold p_database, lookup.
  destruct (find (fun db => beq (db_name db) n) (p_dbs E fs)) as [db|].
  - inversion H; subst. auto.
  - destruct (Databases E fs c1) as [c2 dbs2] eqn:H2. apply Databases_ok in H2 as [K2 ->]; auto.
    inversion H; subst. auto.
Qed.

Lemma findDB_ok c c' r oid : cache_ok c -> findDB E fs c oid = (c', r) ->
  cache_ok c' /\ r = find (fun db => db_oid db =? oid) (p_dbs E fs).
Proof.
  intros K H. unfold findDB in H. destruct (Databases E fs c) as [c1 dbs] eqn:H1.
  apply Databases_ok in H1 as [K1 ->]; auto. inversion H; subst. auto.
Qed.

Lemma put_ok c db t a : cache_ok c -> zfind (c_tables c) db = None ->
  t = p_class E fs db -> (forall oid, a oid = p_attrs E fs db oid) -> cache_ok (put_catalog c db t a).
Proof.
  intros (Hv & Hd & Ht) Hn Et Ea. unfold cache_ok, put_catalog; cbn. split; [exact Hv|]. split; [exact Hd|].
  intros db0 m H. destruct (db =? db0) eqn:Eq; [|apply Ht in H; exact H].
  apply Z.eqb_eq in Eq. subst db0. inversion H; subst. split; [reflexivity|]. exists a. auto.
Qed.

Lemma loadCatalog_ok c db : cache_ok c ->
  let c' := loadCatalog E fs c db in
  cache_ok c' /\ tables_of c' db = p_class E fs db /\ forall oid, columns_of c' db oid = p_attrs E fs db oid.
Proof.
  intros K. cbn zeta. unfold loadCatalog. destruct (zfind (c_tables c) db) as [m|] eqn:Ez.
  - split; [exact K|]. destruct K as (Hv & Hd & Ht). destruct (Ht _ _ Ez) as (-> & f & Hf & Hg).
    unfold tables_of, columns_of. rewrite Ez, Hf. auto.
  - assert (Hv : c_version c = hint_of E fs) by (destruct K; auto).
    unfold p_class, p_attrs.
    destruct (fs (PBase db 1259)) as [cd|] eqn:E1; [destruct (fs (PBase db 1249)) as [ad|] eqn:E2|].
    + split; [apply put_ok; auto; unfold p_class, p_attrs; rewrite ?E1, ?E2, ?Hv; auto|].
      unfold tables_of, columns_of, put_catalog; cbn. rewrite Z.eqb_refl, Hv. auto.
    + split; [apply put_ok; auto; unfold p_class, p_attrs; rewrite ?E1, ?E2; auto|].
      unfold tables_of, columns_of, put_catalog; cbn. rewrite Z.eqb_refl. auto.
    + split; [apply put_ok; auto; unfold p_class, p_attrs; rewrite ?E1; auto|].
      unfold tables_of, columns_of, put_catalog; cbn. rewrite Z.eqb_refl. auto.
Qed.

Lemma Tables_ok c c' r db : cache_ok c -> Tables E fs c db = (c', r) -> cache_ok c' /\ r = p_tables E fs db.
Proof.
  intros K H. unfold Tables in H. inversion H; subst; clear H.
  destruct (loadCatalog_ok c db K) as (K1 & Ht & _). split; [exact K1|]. unfold p_tables. rewrite Ht. reflexivity.
Qed.

Lemma Columns_ok c c' r db oid : cache_ok c -> Columns E fs c db oid = (c', r) -> cache_ok c' /\ r = p_attrs E fs db oid.
Proof.
  intros K H. unfold Columns in H. inversion H; subst; clear H.
  destruct (loadCatalog_ok c db K) as (K1 & _ & Hc). auto.
Qed.

Lemma ColumnNames_ok c c' r db oid : cache_ok c -> ColumnNames E fs c db oid = (c', r) ->
  cache_ok c' /\ r = p_column_names E fs db oid.
Proof.
  intros K H. unfold ColumnNames in H. destruct (Columns E fs c db oid) as [c1 cols] eqn:H1.
  apply Columns_ok in H1 as [K1 ->]; auto. inversion H; subst. auto.
Qed.

Lemma TablesByName_ok c c' r n : cache_ok c -> TablesByName E fs c n = (c', r) ->
  cache_ok c' /\ r = p_tables_by_name E fs n.
Proof.
  intros K H. unfold TablesByName in H. destruct (Database E fs c n) as [c1 odb] eqn:H1.
  apply Database_ok in H1 as [K1 ->]; auto. unfold p_tables_by_name.
  destruct (p_database E fs n) as [db|]; [eapply Tables_ok; eauto|inversion H; subst; auto].
Qed.

Lemma Table_ok c c' r db n : cache_ok c -> Table E fs c db n = (c', r) -> cache_ok c' /\ r = p_table E fs db n.
Proof.
  intros K H. unfold Table in H. destruct (Tables E fs c db) as [c1 ts] eqn:H1.
  apply Tables_ok in H1 as [K1 ->]; auto. unfold p_table, lookup.
  destruct (find (fun t => beq (ti_name t) n) (p_tables E fs db)); inversion H; subst; auto.
Qed.

Lemma Query_ok c c' r db t o : cache_ok c -> Query E fs c db t o = (c', r) -> cache_ok c' /\ r = p_query E fs db t o.
Proof.
  intros K H. unfold Query in H. unfold p_query. destruct t as [t|]; [|inversion H; subst; auto].
  destruct (ti_filenode t =? 0); [inversion H; subst; auto|].
  destruct (fs (PBase db (ti_filenode t))) as [data|]; [|inversion H; subst; auto].
  destruct (Columns E fs c db (ti_oid t)) as [c1 attrs] eqn:H1.
  apply Columns_ok in H1 as [K1 ->]; auto. inversion H; subst. split; [exact K1|reflexivity].
Qed.

Lemma QueryByName_ok c c' r dn tn o : cache_ok c -> QueryByName E fs c dn tn o = (c', r) ->
  cache_ok c' /\ r = p_query_by_name E fs dn tn o.
Proof.
  intros K H. unfold QueryByName in H. destruct (Database E fs c dn) as [c1 odb] eqn:H1.
  apply Database_ok in H1 as [K1 ->]; auto. unfold p_query_by_name.
  destruct (p_database E fs dn) as [db|]; [|inversion H; subst; auto].
  destruct (Table E fs c1 (db_oid db) tn) as [c2 ot] eqn:H2. apply Table_ok in H2 as [K2 ->]; auto.
  destruct (p_table E fs (db_oid db) tn) as [t|]; [eapply Query_ok; eauto|inversion H; subst; auto].
Qed.

Lemma DumpTable_ok c c' r db t : cache_ok c -> DumpTable E fs c db t = (c', r) ->
  cache_ok c' /\ r = option_map (p_dump_table E fs db) t.
Proof.
  intros K H. unfold DumpTable in H. destruct t as [t|]; [|inversion H; subst; auto].
  destruct (Query E fs c db (Some t) None) as [c1 rows] eqn:H1. apply Query_ok in H1 as [K1 ->]; auto.
  destruct (Columns E fs c1 db (ti_oid t)) as [c2 attrs] eqn:H2. apply Columns_ok in H2 as [K2 ->]; auto.
  inversion H; subst. split; [exact K2|reflexivity].
Qed.

Lemma dump_tables_ok db ts : forall c c' r, cache_ok c -> dump_tables E fs c db ts = (c', r) ->
  cache_ok c' /\ r = p_dump_tables E fs db ts.
Proof.
  unfold p_dump_tables. induction ts as [|t rest IH]; intros c c' r K H; cbn [dump_tables] in H.
  - inversion H; subst. auto.
  - cbn [filter]. destruct (remote_wanted t); [|eapply IH; eauto].
    destruct (DumpTable E fs c db (Some t)) as [c1 otd] eqn:H1. apply DumpTable_ok in H1 as [K1 ->]; auto.
    destruct (dump_tables E fs c1 db rest) as [c2 r2] eqn:H2. apply IH in H2 as [K2 ->]; auto.
    cbn [option_map] in H. cbn [map filter].
    destruct (Z.of_nat (length (td_rows (p_dump_table E fs db t))) >? 0); inversion H; subst; auto.
Qed.

Lemma DumpDatabase_ok c c' r db : cache_ok c -> DumpDatabase E fs c db = (c', r) ->
  cache_ok c' /\ r = p_dump_database E fs db.
Proof.
  intros K H. unfold DumpDatabase in H. destruct (findDB E fs c db) as [c1 odb] eqn:H1.
  apply findDB_ok in H1 as [K1 ->]; auto. unfold p_dump_database.
  destruct (find (fun d => db_oid d =? db) (p_dbs E fs)) as [d|]; [|inversion H; subst; auto].
  destruct (Tables E fs c1 db) as [c2 ts] eqn:H2. apply Tables_ok in H2 as [K2 ->]; auto.
  destruct (dump_tables E fs c2 db (p_tables E fs db)) as [c3 tds] eqn:H3. apply dump_tables_ok in H3 as [K3 ->]; auto.
  inversion H; subst. auto.
Qed.

Lemma DumpDatabaseByName_ok c c' r n : cache_ok c -> DumpDatabaseByName E fs c n = (c', r) ->
  cache_ok c' /\ r = p_dump_database_by_name E fs n.
Proof.
  intros K H. unfold DumpDatabaseByName in H. destruct (Database E fs c n) as [c1 odb] eqn:H1.
  apply Database_ok in H1 as [K1 ->]; auto. unfold p_dump_database_by_name.
  destruct (p_database E fs n) as [db|]; [eapply DumpDatabase_ok; eauto|inversion H; subst; auto].
Qed.

Lemma dump_all_loop_ok dbs : forall c c' r, cache_ok c -> dump_all_loop E fs c dbs = (c', r) ->
  cache_ok c' /\ r = flat_map (p_dump_all_db E fs) dbs.
Proof.
  induction dbs as [|db rest IH]; intros c c' r K H; cbn [dump_all_loop] in H.
  - inversion H; subst. auto.
  - cbn [flat_map]. unfold p_dump_all_db at 1. destruct (has_prefix (db_name db) s_template); [eapply IH; eauto|].
    destruct (Tables E fs c (db_oid db)) as [c0 ts] eqn:H0. apply Tables_ok in H0 as [K0 ->]; auto.
    destruct ((Z.of_nat (length (p_tables E fs (db_oid db))) =? 0) && negb (hasClassFile fs (db_oid db))); [eapply IH; eauto|].
    destruct (DumpDatabase E fs c0 (db_oid db)) as [c1 od] eqn:H1. apply DumpDatabase_ok in H1 as [K1 ->]; auto.
    destruct (dump_all_loop E fs c1 rest) as [c2 r2] eqn:H2. apply IH in H2 as [K2 ->]; auto.
    destruct (p_dump_database E fs (db_oid db)); inversion H; subst; auto.
Qed.

Lemma DumpAll_ok c c' r : cache_ok c -> DumpAll E fs c = (c', r) -> cache_ok c' /\ r = p_dump_all E fs.
Proof.
  intros K H. unfold DumpAll in H. destruct (Databases E fs c) as [c1 dbs] eqn:H1.
  apply Databases_ok in H1 as [K1 ->]; auto. eapply dump_all_loop_ok; eauto.
Qed.

Lemma summary_loop_ok dbs : forall c c' r, cache_ok c -> summary_loop E fs c dbs = (c', r) ->
  cache_ok c' /\ r = map (fun db => (db_oid db, p_tables E fs (db_oid db)))
                         (filter (fun db => negb (has_prefix (db_name db) s_template)) dbs).
Proof.
  induction dbs as [|db rest IH]; intros c c' r K H; cbn [summary_loop] in H.
  - inversion H; subst. auto.
  - cbn [filter]. destruct (has_prefix (db_name db) s_template); cbn [negb]; [eapply IH; eauto|].
    destruct (Tables E fs c (db_oid db)) as [c1 ts] eqn:H1. apply Tables_ok in H1 as [K1 ->]; auto.
    destruct (summary_loop E fs c1 rest) as [c2 r2] eqn:H2. apply IH in H2 as [K2 ->]; auto.
    inversion H; subst. auto.
Qed.

Lemma Summary_ok c c' r : cache_ok c -> Summary E fs c = (c', r) -> cache_ok c' /\ r = p_summary E fs.
Proof.
  intros K H. unfold Summary in H. destruct (Databases E fs c) as [c1 dbs] eqn:H1.
  apply Databases_ok in H1 as [K1 ->]; auto.
  destruct (summary_loop E fs c1 (p_dbs E fs)) as [c2 tbl] eqn:H2. apply summary_loop_ok in H2 as [K2 ->]; auto.
  inversion H; subst. auto.
Qed.

Lemma Exec_ok c c' r args : cache_ok c -> Exec E fs c args = (c', r) -> cache_ok c' /\ r = p_exec E fs args.
Proof.
  intros K H. unfold Exec in H. unfold p_exec.
  set (cmd := match args with a :: _ => a | [] => [] end) in *.
  destruct (beq cmd [] || is_cmd cmd "summary").
  { destruct (Summary E fs c) as [c1 s] eqn:H1. apply Summary_ok in H1 as [K1 ->]; auto. inversion H; subst; auto. }
  destruct (is_cmd cmd "version"); [inversion H; subst; auto|].
  destruct (is_cmd cmd "control"); [inversion H; subst; auto|].
  destruct (is_cmd cmd "creds" || is_cmd cmd "credentials"); [inversion H; subst; auto|].
  destruct (is_cmd cmd "dbs" || is_cmd cmd "databases").
  { destruct (Databases E fs c) as [c1 l] eqn:H1. apply Databases_ok in H1 as [K1 ->]; auto. inversion H; subst; auto. }
  destruct (is_cmd cmd "tables").
  { destruct (Z.of_nat (length args) <? 2); [inversion H; subst; auto|].
    destruct (TablesByName E fs c (nth 1 args [])) as [c1 l] eqn:H1. apply TablesByName_ok in H1 as [K1 ->]; auto.
    inversion H; subst; auto. }
  destruct (is_cmd cmd "columns").
  { destruct (Z.of_nat (length args) <? 3); [inversion H; subst; auto|].
    destruct (Database E fs c (nth 1 args [])) as [c1 odb] eqn:H1. apply Database_ok in H1 as [K1 ->]; auto.
    destruct (p_database E fs (nth 1 args [])) as [db|]; [|inversion H; subst; auto].
    destruct (Table E fs c1 (db_oid db) (nth 2 args [])) as [c2 ot] eqn:H2. apply Table_ok in H2 as [K2 ->]; auto.
    destruct (p_table E fs (db_oid db) (nth 2 args [])) as [t|]; [|inversion H; subst; auto].
    destruct (Columns E fs c2 (db_oid db) (ti_oid t)) as [c3 l] eqn:H3. apply Columns_ok in H3 as [K3 ->]; auto.
    inversion H; subst; auto. }
  destruct (is_cmd cmd "query").
  { destruct (Z.of_nat (length args) <? 3); [inversion H; subst; auto|].
    destruct (QueryByName E fs c (nth 1 args []) (nth 2 args []) (Some {| q_columns := []; q_limit := 20 |})) as [c1 q] eqn:H1.
    apply QueryByName_ok in H1 as [K1 ->]; auto. inversion H; subst; auto. }
  destruct (is_cmd cmd "dump").
  { destruct (Z.of_nat (length args) >=? 2).
    - destruct (DumpDatabaseByName E fs c (nth 1 args [])) as [c1 o] eqn:H1.
      apply DumpDatabaseByName_ok in H1 as [K1 ->]; auto. inversion H; subst; auto.
    - destruct (DumpAll E fs c) as [c1 l] eqn:H1. apply DumpAll_ok in H1 as [K1 ->]; auto. inversion H; subst; auto. }
  inversion H; subst; auto.
Qed.

Lemma do_call_ok c c' a k : cache_ok c -> do_call E fs c k = (c', a) -> cache_ok c' /\ a = pure_call E fs k.
Proof.
  intros K H. destruct k; cbn [do_call] in H; cbn [pure_call].
  - inversion H; subst; auto.
  - inversion H; subst; auto.
  - inversion H; subst; auto.
  - destruct (Databases E fs c) as [c1 r] eqn:H1. apply Databases_ok in H1 as [K1 ->]; auto. inversion H; subst; auto.
  - destruct (Database E fs c n) as [c1 r] eqn:H1. apply Database_ok in H1 as [K1 ->]; auto. inversion H; subst; auto.
  - destruct (Tables E fs c db) as [c1 r] eqn:H1. apply Tables_ok in H1 as [K1 ->]; auto. inversion H; subst; auto.
  - destruct (TablesByName E fs c n) as [c1 r] eqn:H1. apply TablesByName_ok in H1 as [K1 ->]; auto. inversion H; subst; auto.
  - destruct (Table E fs c db n) as [c1 r] eqn:H1. apply Table_ok in H1 as [K1 ->]; auto. inversion H; subst; auto.
  - destruct (Columns E fs c db oid) as [c1 r] eqn:H1. apply Columns_ok in H1 as [K1 ->]; auto. inversion H; subst; auto.
  - destruct (ColumnNames E fs c db oid) as [c1 r] eqn:H1. apply ColumnNames_ok in H1 as [K1 ->]; auto. inversion H; subst; auto.
  - destruct (Query E fs c db t o) as [c1 r] eqn:H1. apply Query_ok in H1 as [K1 ->]; auto. inversion H; subst; auto.
  - destruct (QueryByName E fs c dn tn o) as [c1 r] eqn:H1. apply QueryByName_ok in H1 as [K1 ->]; auto. inversion H; subst; auto.
  - destruct (DumpTable E fs c db t) as [c1 r] eqn:H1. apply DumpTable_ok in H1 as [K1 ->]; auto. inversion H; subst; auto.
  - destruct (DumpDatabase E fs c db) as [c1 r] eqn:H1. apply DumpDatabase_ok in H1 as [K1 ->]; auto. inversion H; subst; auto.
  - destruct (DumpDatabaseByName E fs c n) as [c1 r] eqn:H1. apply DumpDatabaseByName_ok in H1 as [K1 ->]; auto. inversion H; subst; auto.
  - destruct (DumpAll E fs c) as [c1 r] eqn:H1. apply DumpAll_ok in H1 as [K1 ->]; auto. inversion H; subst; auto.
  - destruct (Summary E fs c) as [c1 r] eqn:H1. apply Summary_ok in H1 as [K1 ->]; auto. inversion H; subst; auto.
  - destruct (Exec E fs c args) as [c1 r] eqn:H1. apply Exec_ok in H1 as [K1 ->]; auto. inversion H; subst; auto.
Qed.

Lemma run_calls_ok ks : forall c, cache_ok c -> run_calls E fs c ks = map (pure_call E fs) ks.
Proof.
  induction ks as [|k rest IH]; intros c K; cbn [run_calls map]; [reflexivity|].
  destruct (do_call E fs c k) as [c1 a] eqn:H. apply do_call_ok in H as [K1 ->]; auto. f_equal. apply IH. exact K1.
Qed.

(* every call sequence on one client answers, call by call, what a fresh client answers to that call alone *)
Theorem run_calls_pure ks :
  run_calls E fs (NewRemoteClient E fs) ks = map (fun k => snd (do_call E fs (NewRemoteClient E fs) k)) ks.
Proof.
  rewrite run_calls_ok by apply new_ok. apply map_ext. intros k.
  destruct (do_call E fs (NewRemoteClient E fs) k) as [c1 a] eqn:H. apply do_call_ok in H as [_ ->]; [reflexivity|apply new_ok].
Qed.

End CacheProofs.
