(* C12/Lib.v — helpers of the C12 model and spec: Go string predicates on byte strings, Go-map lookup on
   association lists, insertion sort on a boolean order, the record types of pgdump.go / catalog.go /
   remote.go / passwords.go.  (Generic material that would belong in a shared Base file; kept here because
   Base/ is not ours to edit.  C01/Lib.v has similar definitions; C12 does not depend on C01.) *)
Require Import PG.Base.Bytes PG.Base.Value.
Require Import Coq.Sorting.Permutation Coq.Sorting.Sorted.

(* byte-string literals: [lit "abc"] is the list of the three bytes.  A String Notation on a wrapper type (as in
   C16/Types.v), so that no Coq [string]/[ascii] value appears in the extracted program (the extracted type [string]
   would shadow OCaml's in the shared driver glue). *)
Inductive blit := BLit (l : list byte).
Definition blit_of (l : list byte) : blit := BLit l.
Definition blit_to (b : blit) : list byte := match b with BLit l => l end.
Declare Scope blit_scope.
Delimit Scope blit_scope with blit.
String Notation blit blit_of blit_to : blit_scope.

(* ---------- Go strings (arbitrary bytes) ---------- *)
Definition beq (a b : bytes) : bool := if list_eq_dec Byte.byte_eq_dec a b then true else false.
Lemma beq_true a b : beq a b = true <-> a = b.
Proof. unfold beq. destruct (list_eq_dec _ a b); split; auto; discriminate. Qed.
Lemma beq_false a b : beq a b = false <-> a <> b.
Proof. unfold beq. destruct (list_eq_dec _ a b); split; auto; try discriminate. intros; contradiction. Qed.
Lemma beq_refl a : beq a a = true. Proof. apply beq_true. reflexivity. Qed.

(* strings.HasPrefix *)
Fixpoint has_prefix (s p : bytes) : bool :=
  match p, s with
  | [], _ => true
  | _ :: _, [] => false
  | y :: p', x :: s' => if Byte.byte_eq_dec x y then has_prefix s' p' else false
  end.
(* strings.Contains: some suffix of s starts with sub *)
Fixpoint contains (s sub : bytes) : bool :=
  has_prefix s sub || match s with [] => false | _ :: r => contains r sub end.
(* a < b on Go strings: bytewise lexicographic *)
Fixpoint bytes_ltb (a b : bytes) : bool :=
  match a, b with
  | _, [] => false
  | [], _ :: _ => true
  | x :: a', y :: b' => if b2z x <? b2z y then true else if b2z y <? b2z x then false else bytes_ltb a' b'
  end.
Lemma bytes_ltb_irrefl a : bytes_ltb a a = false.
Proof. induction a as [|x a IH]; cbn; auto. destruct (b2z x <? b2z x) eqn:E; [lia|exact IH]. Qed.
Lemma bytes_ltb_trans a : forall b c, bytes_ltb a b = true -> bytes_ltb b c = true -> bytes_ltb a c = true.
Proof.
  induction a as [|x a IH]; intros [|y b] [|z c]; cbn; try discriminate; auto.
  destruct (b2z x <? b2z y) eqn:E1; destruct (b2z y <? b2z z) eqn:E2; intros H1 H2.
  - destruct (b2z x <? b2z z) eqn:E3; [auto|lia].
  - destruct (b2z z <? b2z y) eqn:E4; [discriminate|]. destruct (b2z x <? b2z z) eqn:E3; [auto|lia].
  - destruct (b2z y <? b2z x) eqn:E4; [discriminate|]. destruct (b2z x <? b2z z) eqn:E3; [auto|lia].
  - destruct (b2z y <? b2z x) eqn:E4; [discriminate|]. destruct (b2z z <? b2z y) eqn:E5; [discriminate|].
    destruct (b2z x <? b2z z) eqn:E3; [auto|]. destruct (b2z z <? b2z x) eqn:E6; [lia|]. eapply IH; eauto.
Qed.
Lemma bytes_ltb_total a : forall b, bytes_ltb a b = false -> bytes_ltb b a = false -> a = b.
Proof.
  induction a as [|x a IH]; intros [|y b]; cbn; try discriminate; auto.
  destruct (b2z x <? b2z y) eqn:E1; [discriminate|]. destruct (b2z y <? b2z x) eqn:E2; [discriminate|].
  intros H1 H2. f_equal; [apply b2z_inj; lia|auto].
Qed.

(* ASCII case folding: what strings.ToLower / strings.EqualFold do on pure-ASCII strings *)
Definition lower_byte (b : byte) : byte := if (65 <=? b2z b) && (b2z b <=? 90) then z2b (b2z b + 32) else b.
Definition ascii_lower (s : bytes) : bytes := map lower_byte s.
Definition ascii_fold_eq (a b : bytes) : bool := beq (ascii_lower a) (ascii_lower b).

(* ---------- Go maps ---------- *)
(* row[key] on a map[string]interface{} given as the list of its assignments: the LAST assignment wins *)
Fixpoint row_get (r : row) (k : bytes) : option gval :=
  match r with
  | [] => None
  | (k', v) :: rest => match row_get rest k with
                       | Some v' => Some v'
                       | None => if beq k' k then Some v else None
                       end
  end.
(* a map[uint32]V in its current state: entries with pairwise distinct keys *)
Fixpoint zfind {V} (m : list (Z * V)) (k : Z) : option V :=
  match m with [] => None | (k', v) :: rest => if k' =? k then Some v else zfind rest k end.

Lemma zfind_in {V} (m : list (Z * V)) k v : NoDup (map fst m) -> In (k, v) m -> zfind m k = Some v.
Proof.
  induction m as [|[k' v'] m IH]; cbn; intros ND HI; [contradiction|].
  inversion ND; subst. destruct HI as [E|HI].
  - inversion E; subst. rewrite Z.eqb_refl. reflexivity.
  - destruct (k' =? k) eqn:E; [|auto]. exfalso. apply H1. apply Z.eqb_eq in E. subst.
    change k with (fst (k, v)). apply in_map. exact HI.
Qed.
Lemma zfind_none {V} (m : list (Z * V)) k : ~ In k (map fst m) -> zfind m k = None.
Proof.
  induction m as [|[k' v'] m IH]; cbn; intros H; auto.
  destruct (k' =? k) eqn:E; [exfalso; apply H; left; lia|apply IH; tauto].
Qed.
Lemma zfind_some_in {V} (m : list (Z * V)) k v : zfind m k = Some v -> In (k, v) m.
Proof.
  induction m as [|[k' v'] m IH]; cbn; [discriminate|]. destruct (k' =? k) eqn:E; intros H.
  - inversion H; subst. left. f_equal. lia.
  - right. auto.
Qed.

(* ---------- insertion sort on a boolean order ---------- *)
Section Sort.
Context {A : Type} (leb : A -> A -> bool).
Fixpoint insert_by (a : A) (l : list A) : list A :=
  match l with
  | [] => [a]
  | x :: r => if leb a x then a :: x :: r else x :: insert_by a r
  end.
Definition isort (l : list A) : list A := fold_right insert_by [] l.

Lemma insert_perm a l : Permutation (insert_by a l) (a :: l).
Proof.
  induction l as [|x r IH]; cbn; [reflexivity|]. destruct (leb a x); [reflexivity|].
  rewrite IH. apply perm_swap.
Qed.
Lemma isort_perm l : Permutation (isort l) l.
Proof. induction l as [|a l IH]; cbn; [reflexivity|]. rewrite insert_perm, IH. reflexivity. Qed.
Lemma isort_in l x : In x (isort l) <-> In x l.
Proof. split; apply Permutation_in; [|symmetry]; apply isort_perm. Qed.
Lemma isort_length l : length (isort l) = length l.
Proof. apply Permutation_length, isort_perm. Qed.

Definition le (a b : A) : Prop := leb a b = true.
Hypothesis leb_total : forall a b, leb a b = true \/ leb b a = true.
Hypothesis leb_trans : forall a b c, leb a b = true -> leb b c = true -> leb a c = true.

Lemma insert_sorted a l : StronglySorted le l -> StronglySorted le (insert_by a l).
Proof.
  induction 1 as [|x r HS IH HF]; cbn; [repeat constructor|].
  destruct (leb a x) eqn:E.
  - constructor; [constructor; assumption|]. constructor; [exact E|].
    eapply Forall_impl; [|exact HF]. intros y Hy. eapply leb_trans; eauto.
  - constructor; [exact IH|]. eapply Permutation_Forall; [symmetry; apply insert_perm|].
    constructor; [|exact HF]. destruct (leb_total a x) as [H|H]; [congruence|exact H].
Qed.
Lemma isort_sorted l : StronglySorted le (isort l).
Proof. induction l; cbn; [constructor|apply insert_sorted; assumption]. Qed.

(* two sorted lists with the same elements are equal when the order is antisymmetric on those elements *)
Lemma sorted_perm_eq : forall l l',
  StronglySorted le l -> StronglySorted le l' -> Permutation l l' ->
  (forall a b, In a l -> In b l -> leb a b = true -> leb b a = true -> a = b) -> l = l'.
Proof.
  induction l as [|a l IH]; intros l' S1 S2 P AS.
  - apply Permutation_nil in P. auto.
  - destruct l' as [|b l']; [apply Permutation_sym, Permutation_nil in P; discriminate|].
    inversion S1 as [|? ? S1' F1]; subst. inversion S2 as [|? ? S2' F2]; subst.
    assert (Hb : In b (a :: l)) by (eapply Permutation_in; [symmetry; exact P|left; reflexivity]).
    assert (Ha : In a (b :: l')) by (eapply Permutation_in; [exact P|left; reflexivity]).
    assert (E : a = b).
    { destruct Hb as [Hb|Hb]; [auto|]. destruct Ha as [Ha|Ha]; [auto|].
      apply AS; [left; reflexivity|right; exact Hb| |].
      - rewrite Forall_forall in F1. apply F1. exact Hb.
      - rewrite Forall_forall in F2. apply F2. exact Ha. }
    subst b. f_equal. apply IH; auto.
    + eapply Permutation_cons_inv. exact P.
    + intros x y Hx Hy. apply AS; right; assumption.
Qed.

Lemma isort_unique l l' :
  Permutation l l' ->
  (forall a b, In a l -> In b l -> leb a b = true -> leb b a = true -> a = b) ->
  isort l = isort l'.
Proof.
  intros P AS. apply sorted_perm_eq; try apply isort_sorted.
  - rewrite !isort_perm. exact P.
  - intros a b Ha Hb. apply AS; apply isort_in; assumption.
Qed.
Lemma sorted_isort l :
  StronglySorted le l ->
  (forall a b, In a l -> In b l -> leb a b = true -> leb b a = true -> a = b) -> isort l = l.
Proof.
  intros S AS. apply sorted_perm_eq; auto; [apply isort_sorted|apply isort_perm|].
  intros a b Ha Hb. apply AS; apply isort_in; assumption.
Qed.

Lemma filter_sorted f l : StronglySorted le l -> StronglySorted le (filter f l).
Proof.
  induction 1 as [|x r HS IH HF]; cbn; [constructor|]. destruct (f x); [|exact IH].
  constructor; [exact IH|]. rewrite Forall_forall in *. intros y Hy. apply HF. apply filter_In in Hy. tauto.
Qed.
Lemma perm_filter (f : A -> bool) l l' : Permutation l l' -> Permutation (filter f l) (filter f l').
Proof.
  induction 1; cbn; auto.
  - destruct (f x); auto.
  - destruct (f x), (f y); auto. apply perm_swap.
  - etransitivity; eauto.
Qed.
(* selecting commutes with sorting *)
Lemma filter_isort f l :
  (forall a b, In a l -> In b l -> leb a b = true -> leb b a = true -> a = b) ->
  filter f (isort l) = isort (filter f l).
Proof.
  intros AS. apply sorted_perm_eq.
  - apply filter_sorted, isort_sorted.
  - apply isort_sorted.
  - etransitivity; [apply perm_filter, isort_perm|symmetry; apply isort_perm].
  - intros a b Ha Hb. apply filter_In in Ha, Hb. apply AS; apply isort_in; tauto.
Qed.
End Sort.

(* sorting by an integer key *)
Definition key_leb {A} (key : A -> Z) (a b : A) : bool := key a <=? key b.
Definition ksort {A} (key : A -> Z) : list A -> list A := isort (key_leb key).
Lemma key_leb_total {A} (key : A -> Z) a b : key_leb key a b = true \/ key_leb key b a = true.
Proof. unfold key_leb. lia. Qed.
Lemma key_leb_trans {A} (key : A -> Z) a b c : key_leb key a b = true -> key_leb key b c = true -> key_leb key a c = true.
Proof. unfold key_leb. lia. Qed.
Lemma nodup_map_inj {A B} (f : A -> B) l a b : NoDup (map f l) -> In a l -> In b l -> f a = f b -> a = b.
Proof.
  induction l as [|x l IH]; cbn; intros ND Ha Hb E; [contradiction|]. inversion ND; subst.
  destruct Ha as [Ha|Ha], Hb as [Hb|Hb]; subst; auto.
  - exfalso. apply H1. rewrite E. apply in_map. exact Hb.
  - exfalso. apply H1. rewrite <- E. apply in_map. exact Ha.
Qed.
Lemma key_antisym {A} (key : A -> Z) l : NoDup (map key l) ->
  forall a b, In a l -> In b l -> key_leb key a b = true -> key_leb key b a = true -> a = b.
Proof. intros ND a b Ha Hb H1 H2. eapply nodup_map_inj; eauto. unfold key_leb in *. lia. Qed.

Lemma ksort_unique {A} (key : A -> Z) l l' : Permutation l l' -> NoDup (map key l) -> ksort key l = ksort key l'.
Proof.
  intros P ND. apply isort_unique; [apply key_leb_total|apply key_leb_trans|exact P|]. apply key_antisym. exact ND.
Qed.
Lemma ksort_filter {A} (key : A -> Z) f l : NoDup (map key l) -> filter f (ksort key l) = ksort key (filter f l).
Proof. intros ND. apply filter_isort; [apply key_leb_total|apply key_leb_trans|]. apply key_antisym. exact ND. Qed.
Lemma ksort_perm {A} (key : A -> Z) l : Permutation (ksort key l) l.
Proof. apply isort_perm. Qed.
Lemma ksort_in {A} (key : A -> Z) l x : In x (ksort key l) <-> In x l.
Proof. apply isort_in. Qed.
(* sorting the images = the images of the sorted list, when the key factors through the map *)
Lemma ksort_map {A B} (f : A -> B) (kb : B -> Z) l :
  ksort kb (map f l) = map f (ksort (fun a => kb (f a)) l).
Proof.
  unfold ksort, isort. induction l as [|a l IH]; cbn; [reflexivity|]. rewrite IH.
  generalize (fold_right (insert_by (key_leb (fun a0 => kb (f a0)))) [] l) as s.
  induction s as [|x s IHs]; cbn; [reflexivity|].
  unfold key_leb at 1 3. destruct (kb (f a) <=? kb (f x)); cbn; [reflexivity|]. rewrite IHs. reflexivity.
Qed.
Lemma nodup_perm {A} (l l' : list A) : Permutation l l' -> NoDup l -> NoDup l'.
Proof. intros P. apply Permutation_NoDup. exact P. Qed.

(* ---------- types of catalog.go / pgdump.go / passwords.go / remote.go ---------- *)
Record Column := { c_name : bytes; c_typid : Z; c_len : Z; c_num : Z; c_align : Z }.
Record Options := { o_dbfilter : bytes; o_tablefilter : bytes; o_listonly : bool; o_skipsys : bool; o_pgversion : Z }.
Record DatabaseInfo := { db_oid : Z; db_name : bytes }.
Record TableInfo := { ti_oid : Z; ti_filenode : Z; ti_name : bytes; ti_kind : bytes }.
Record AttrInfo := { ai_name : bytes; ai_typid : Z; ai_num : Z; ai_len : Z; ai_align : Z }.
Record ColumnInfo := { ci_name : bytes; ci_type : bytes; ci_typid : Z }.
Record TableDump := { td_oid : Z; td_name : bytes; td_filenode : Z; td_kind : bytes;
                      td_columns : list ColumnInfo; td_rows : list row; td_rowcount : Z }.
Record DatabaseDump := { dd_oid : Z; dd_name : bytes; dd_tables : list TableDump }.
Record AuthInfo := { au_oid : Z; au_role : bytes; au_password : bytes; au_super : bool; au_login : bool }.
Record QueryOptions := { q_columns : list bytes; q_limit : Z }.

(* the files the tool opens below the data directory.  fmt.Sprintf("base/%d/%d"), filepath.Join and
   strconv.FormatUint are injective on the numbers, so the numbers identify the path. *)
Inductive path :=
| PVersion                (* PG_VERSION *)
| PControl                (* global/pg_control *)
| PGlobal (file : Z)      (* global/<file>: 1262 pg_database, 1260 pg_authid *)
| PBase (db file : Z).    (* base/<db>/<file>: 1259 pg_class, 1249 pg_attribute, <filenode> *)

(* string constants *)
Definition s_template : bytes := ["t"; "e"; "m"; "p"; "l"; "a"; "t"; "e"]%byte.
Definition s_pg_ : bytes := ["p"; "g"; "_"]%byte.
Definition s_sql_ : bytes := ["s"; "q"; "l"; "_"]%byte.
Definition s_r : bytes := ["r"]%byte.

(* ---------- everything the access paths share (other properties' functions, package strings/fmt, map order) ---------- *)
Record env := {
  e_ParsePGDatabase : bytes -> list DatabaseInfo;                 (* C01 *)
  e_ParsePGClass : bytes -> list (Z * TableInfo);                 (* C01: filenode -> TableInfo, the map's entries *)
  e_ParsePGAttribute : bytes -> Z -> Z -> list AttrInfo;          (* C01: data, version hint, relation oid; nil when absent *)
  e_ReadRows : bytes -> list Column -> list row;                  (* C02/C03/C04: ReadRows(data, cols, true) *)
  e_TypeName : Z -> bytes;                                        (* C04 *)
  e_ParsePGAuthID : bytes -> list AuthInfo;                       (* C14 *)
  e_ControlFile : Type;
  e_ParseControlFile : bytes -> option e_ControlFile;             (* C16; None: error *)
  e_ControlString : e_ControlFile -> bytes;                       (* the Sprintf of remote.go:52 *)
  e_ToLower : bytes -> bytes;                                     (* strings.ToLower *)
  e_EqualFold : bytes -> bytes -> bool;                           (* strings.EqualFold *)
  e_TrimSpace : bytes -> bytes;                                   (* strings.TrimSpace *)
  e_ScanInt : bytes -> Z;                  (* fmt.Sscanf(s, "%d", &v) on v = 0: the value left in v *)
  e_fmt_d : Z -> bytes;                                           (* %d *)
  e_pad : Z -> bytes -> bytes;                                    (* %-Ns *)
  e_fmt_v : gval -> bytes;                                        (* %v of a decoded value *)
  e_range_order : list (Z * TableInfo) -> list (Z * TableInfo);   (* the order a `range` visits a map's entries *)
  e_DetectDataDir : bytes;                                        (* pgdump.DetectDataDir(): "" = nothing found *)
  e_ParseUint32 : bytes -> option Z }.                            (* strconv.ParseUint(s, 10, 32) *)
