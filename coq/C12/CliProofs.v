(* main.go's dispatch chain equals the decision table; a plain invocation is the data-directory dump with the
   options named by the flags; ListDatabases is the sorted arrangement (templates last, then by name) of
   pg_database. *)
Require Import PG.Base.Bytes PG.Base.Value PG.C12.Lib PG.C12.Model PG.C12.Spec PG.C12.Cli.
Require Import Coq.Sorting.Permutation Coq.Sorting.Sorted.
Require Import Coq.Strings.String.
Import Coq.Init.Datatypes Coq.Lists.List ListNotations.

Section CliProofs.
Variable E : env.

Lemma nonempty_all : nonempty s_all = true. Proof. reflexivity. Qed.
Lemma nonempty_global : nonempty s_global = true. Proof. reflexivity. Qed.

Theorem main_dispatch f : main E f = dispatch E f.
Proof.
  unfold dispatch, table, first_row, main, on_file, data_dir.
  destruct (f_version f); [reflexivity|]. destruct (f_detect f); [reflexivity|].
  destruct (nonempty (f_f f)); cbn [andb].
  - destruct (f_b f); [reflexivity|]. destruct (f_index f); [reflexivity|].
    destruct (f_toast_verbose f); [reflexivity|]. destruct (nonempty (f_R f)); reflexivity.
  - set (dd := if nonempty (f_d f) then f_d f else e_DetectDataDir E).
    destruct (nonempty dd); cbn [negb]; [|reflexivity].
    destruct (f_list_db f); [reflexivity|]. destruct (f_control f); [reflexivity|].
    destruct (f_checksum f); [reflexivity|].
    destruct (f_dropped f); cbn [andb]; [destruct (nonempty (f_db f)); reflexivity|].
    destruct (beq (f_sequences f) s_all) eqn:Es.
    { apply beq_true in Es. rewrite Es, nonempty_all. reflexivity. }
    destruct (nonempty (f_sequences f)); [reflexivity|].
    destruct (beq (f_relmap f) s_global) eqn:Eg.
    { apply beq_true in Eg. rewrite Eg, nonempty_global. reflexivity. }
    destruct (beq (f_relmap f) s_all) eqn:Ea.
    { apply beq_true in Ea. rewrite Ea, nonempty_all. reflexivity. }
    destruct (nonempty (f_relmap f)); [reflexivity|].
    destruct (nonempty (f_passwords f)); [reflexivity|]. destruct (nonempty (f_secrets f)); [reflexivity|].
    destruct (nonempty (f_search f)); [reflexivity|]. destruct (f_wal f); reflexivity.
Qed.

Lemma first_row_none rows dflt f : forallb (fun r => negb (fst r f)) rows = true -> first_row rows dflt f = dflt f.
Proof.
  induction rows as [|[g a] rows IH]; cbn; [reflexivity|]. intros H. apply andb_prop in H as [H1 H2].
  destruct (g f); [discriminate|auto].
Qed.

(* a plain invocation (no mode flag) dumps the directory with exactly the options the flags name *)
Theorem plain_dump_action f : plain_dump E f = true ->
  main E f = ADump (data_dir E f)
                   {| o_dbfilter := f_db f; o_tablefilter := f_t f; o_listonly := f_list f; o_skipsys := true; o_pgversion := 0 |}
                   (f_debug f) (if f_sql f then FSQL else if f_csv f then FCSV else FJSON).
Proof. intros H. rewrite main_dispatch. unfold dispatch. rewrite first_row_none by exact H. reflexivity. Qed.

Theorem plain_dump_run fs_of f : plain_dump E f = true ->
  run E fs_of f =
  OutDump (DumpDataDir E (fs_of (data_dir E f))
             (Some {| o_dbfilter := f_db f; o_tablefilter := f_t f; o_listonly := f_list f; o_skipsys := true; o_pgversion := 0 |}))
          (if f_sql f then FSQL else if f_csv f then FCSV else FJSON).
Proof. intros H. unfold run. rewrite plain_dump_action by exact H. reflexivity. Qed.

Theorem list_db_run fs_of f :
  f_version f = false -> f_detect f = false -> f_f f = [] -> f_d f <> [] -> f_list_db f = true ->
  run E fs_of f = match ListDatabases E (fs_of (f_d f)) with
                  | [] => OutText (lit "No databases found" ++ nl) 1
                  | dbs => OutText (listdb_text E dbs) 0
                  end.
Proof.
  intros H1 H2 H3 H4 H5. unfold run, main. rewrite H1, H2, H3, H5. cbn [nonempty beq negb].
  assert (Hn : nonempty (f_d f) = true) by (unfold nonempty; apply negb_true_iff, beq_false; exact H4).
  change (nonempty []) with false. cbn iota. rewrite Hn. cbn [negb]. rewrite Hn. reflexivity.
Qed.

(* ---------------------------------------------------------------- ListDatabases *)
Lemma ltb_asym a b : bytes_ltb a b = true -> bytes_ltb b a = false.
Proof.
  intros H. destruct (bytes_ltb b a) eqn:Hb; [|reflexivity].
  pose proof (bytes_ltb_trans _ _ _ H Hb) as Ht. rewrite bytes_ltb_irrefl in Ht. discriminate.
Qed.
Lemma ltb_negtrans a b c : bytes_ltb b a = false -> bytes_ltb c b = false -> bytes_ltb c a = false.
Proof.
  intros H1 H2. destruct (bytes_ltb c a) eqn:H3; [|reflexivity].
  destruct (bytes_ltb b c) eqn:H4.
  - rewrite (bytes_ltb_trans _ _ _ H4 H3) in H1. discriminate.
  - assert (b = c) by (apply bytes_ltb_total; assumption). subst. congruence.
Qed.
Lemma db_leb_total a b : db_leb a b = true \/ db_leb b a = true.
Proof.
  unfold db_leb, db_less.
  destruct (has_prefix (db_name a) s_template), (has_prefix (db_name b) s_template); cbn; auto.
  - destruct (bytes_ltb (db_name b) (db_name a)) eqn:H; [right; rewrite (ltb_asym _ _ H); reflexivity|left; reflexivity].
  - destruct (bytes_ltb (db_name b) (db_name a)) eqn:H; [right; rewrite (ltb_asym _ _ H); reflexivity|left; reflexivity].
Qed.
Lemma db_leb_trans a b c : db_leb a b = true -> db_leb b c = true -> db_leb a c = true.
Proof.
  unfold db_leb, db_less.
  destruct (has_prefix (db_name a) s_template), (has_prefix (db_name b) s_template), (has_prefix (db_name c) s_template);
    cbn; intros H1 H2; try discriminate; try reflexivity;
    apply negb_true_iff in H1, H2; apply negb_true_iff; eapply ltb_negtrans; eauto.
Qed.
Lemma db_leb_antisym l : NoDup (map db_name l) ->
  forall a b, In a l -> In b l -> db_leb a b = true -> db_leb b a = true -> a = b.
Proof.
  intros ND a b Ha Hb H1 H2. eapply (nodup_map_inj db_name); eauto.
  unfold db_leb, db_less in *.
  destruct (has_prefix (db_name a) s_template), (has_prefix (db_name b) s_template); cbn in *; try discriminate;
    apply negb_true_iff in H1, H2; apply bytes_ltb_total; assumption.
Qed.

(* templates last, then by name: every non-template database precedes every template, names ascend inside each group;
   the listing is a rearrangement of pg_database, and it is THE sorted one whatever order pg_database is stored in *)
Theorem list_databases_sorted fs :
  StronglySorted (fun a b => db_leb a b = true) (ListDatabases E fs) /\ Permutation (ListDatabases E fs) (p_dbs E fs).
Proof.
  unfold ListDatabases, p_dbs. destruct (fs (PGlobal 1262)) as [data|]; [|split; [constructor|reflexivity]].
  split; [apply isort_sorted; [apply db_leb_total|apply db_leb_trans]|apply isort_perm].
Qed.
Theorem list_databases_unique (l l' : list DatabaseInfo) :
  Permutation l l' -> NoDup (map db_name l) -> isort db_leb l = isort db_leb l'.
Proof.
  intros P ND. apply isort_unique; [apply db_leb_total|apply db_leb_trans|exact P|apply db_leb_antisym; exact ND].
Qed.
Lemma db_leb_meaning a b : db_leb a b = true <->
  (has_prefix (db_name a) s_template = false /\ has_prefix (db_name b) s_template = true) \/
  (has_prefix (db_name a) s_template = has_prefix (db_name b) s_template /\ bytes_ltb (db_name b) (db_name a) = false).
Proof.
  unfold db_leb, db_less.
  destruct (has_prefix (db_name a) s_template), (has_prefix (db_name b) s_template); cbn;
    rewrite ?negb_true_iff; intuition congruence.
Qed.

End CliProofs.
