(* The Go-faithful model never panics and is the pure function of the visible bytes (any capacity tails). *)
Require Import PG.Base.Bytes PG.Base.GoSlice.
Require Import PG.C02.Model PG.C02.Spec PG.C02.Pure PG.C02.Refine.
Require Import PG.C03.Model PG.C03.Pure PG.C03.Lib PG.C03.Refine.
Require Import PG.Base.Value PG.C14.Model PG.C14.Pure.

(* C03's lemmas about IsNull / ReadVarlena were proved inside a Section with a DecodeType variable they do not
   depend on; instantiate it with a trivial decoder *)
Definition IsNull_ref := IsNull_refines (fun _ _ => Ok VNil) (fun _ _ => VNil) (fun _ _ => eq_refl).
Definition ReadVarlena_ref := ReadVarlena_at (fun _ _ => Ok VNil) (fun _ _ => VNil) (fun _ _ => eq_refl).

Lemma cstring_scan_bounds : forall bs m i j, cstring_scan bs m i = Some j -> i <= j < i + blen bs /\ j < m.
Proof.
  induction bs as [|b r IH]; intros m i j H; cbn [cstring_scan] in H; [discriminate|].
  destruct (i <? m) eqn:E; [|discriminate].
  destruct (b2z b =? 0).
  - injection H as <-. bl. pose proof (blen_nonneg r). lia.
  - apply IH in H. bl. lia.
Qed.

Lemma slice_to_within s hi : 0 <= hi <= len s -> exists p, slice_to s hi = Ok p /\ vis p = sub (vis s) 0 hi.
Proof.
  intros H. pose proof (len_le_cap s). unfold slice_to.
  destruct (slice_ok s 0 hi) as [p Hp]; try lia. exists p. split; [exact Hp|].
  apply (slice_vis_within _ _ _ _ Hp). lia.
Qed.

Lemma cstring_refines s maxLen : 0 <= maxLen -> cstring s maxLen = Ok (p_cstring (vis s) maxLen).
Proof.
  intros Hm. unfold cstring, p_cstring. fold (len s).
  destruct (cstring_scan (vis s) maxLen 0) as [i|] eqn:E.
  - apply cstring_scan_bounds in E. fold (len s) in E.
    destruct (slice_to_within s i) as (p & Hp & Hv); [lia|]. rewrite Hp. cbn [bind]. rewrite Hv. reflexivity.
  - destruct (maxLen <? len s) eqn:E2; [|reflexivity].
    destruct (slice_to_within s maxLen) as (p & Hp & Hv); [lia|]. rewrite Hp. cbn [bind]. rewrite Hv. reflexivity.
Qed.

Lemma authTuple_refines t : authTuple t = Ok (p_auth (option_map vis (t_bitmap t)) (vis (t_data t))).
Proof.
  unfold authTuple, p_auth. fold (len (t_data t)). set (d := t_data t).
  destruct (len d <? 70) eqn:E70; [reflexivity|].
  (* OID *)
  replace (0 + 4 <=? len d) with true by lia.
  unfold u32. rewrite (uN_val 4 d 0) by lia. cbn [bind].
  change (0 + 4 + 64) with 68. change (0 + 4) with 4.
  (* rolname *)
  replace (68 <=? len d) with true by lia.
  destruct (slice_from_ok d 4) as [r Hr]; [lia|]. rewrite Hr. cbn [bind].
  destruct (slice_from_vis _ _ _ Hr) as [Hrv _].
  rewrite cstring_refines by lia. cbn [bind]. rewrite Hrv.
  set (name := p_cstring (sub (vis d) 4 (len d)) 64).
  (* rolsuper *)
  replace (68 + 1 <=? len d) with true by lia.
  rewrite idx_ok by lia. cbn [bind].
  change (68 + 1 + 3 + 1) with 73. change (68 + 1 + 3) with 72.
  (* IsNull does not panic; whichever way the rolcanlogin guard goes, the offset after alignment is 80 *)
  rewrite IsNull_ref.
  set (isnull := p_isnull (option_map vis (t_bitmap t)) 11).
  assert (PW : forall off, go_align (off + 2) 4 + 4 = 80 ->
     (if negb isnull && (go_align (off + 2) 4 + 4 <? len d)
      then if go_align (go_align (off + 2) 4 + 4) 4 <? len d
           then r0 <- slice_from d (go_align (go_align (off + 2) 4 + 4) 4);;
                x2 <- ReadVarlena r0;;
                match x2 with
                | (Some p, _) => if len p >? 0 then Ok (vis p) else Ok []
                | (None, _) => Ok []
                end
           else Ok []
      else Ok []) =
     Ok (if negb isnull && (80 <? len d)
         then match fst (p_readVarlena (vis d) 80) with
              | Some (lo, hi) => if hi - lo >? 0 then sub (vis d) lo hi else []
              | None => []
              end
         else [])).
  { intros off ->. change (go_align 80 4) with 80.
    destruct (negb isnull && (80 <? len d)) eqn:EN; [|reflexivity].
    replace (80 <? len d) with true by lia.
    destruct (slice_from_ok d 80) as [r0 Hr0]; [lia|]. rewrite Hr0. cbn [bind].
    destruct (ReadVarlena_ref d 80 r0 ltac:(lia) ltac:(lia) Hr0) as (o & Ho & Hm). rewrite Ho. cbn [bind].
    destruct (fst (p_readVarlena (vis d) 80)) as [[lo hi]|]; destruct o as [p|]; try contradiction; [|reflexivity].
    destruct Hm as [Hpv Hpl]. rewrite Hpl, Hpv. destruct (hi - lo >? 0); reflexivity. }
  destruct (73 <=? len d) eqn:E73.
  - rewrite idx_ok by lia. cbn [bind]. rewrite (PW 73) by reflexivity. cbn [bind].
    destruct (negb (blen name =? 0)); reflexivity.
  - cbn [bind]. rewrite (PW 72) by reflexivity. cbn [bind].
    destruct (negb (blen name =? 0)); reflexivity.
Qed.

Lemma auth_entries_refines : forall es,
  auth_entries es = Ok (flat_map p_auth_obs (map obs_entry es)).
Proof.
  induction es as [|e r IH]; [reflexivity|].
  cbn [auth_entries map flat_map]. rewrite authTuple_refines, IH. cbn [bind].
  assert (E : p_auth_obs (obs_entry e) =
              opt_list (p_auth (option_map vis (t_bitmap (e_tuple e))) (vis (t_data (e_tuple e))))) by reflexivity.
  rewrite E. destruct (p_auth _ _); reflexivity.
Qed.

(* For EVERY Go slice (any bytes, any capacity tail): no panic, and the result is a function of the visible bytes *)
Theorem ParsePGAuthID_refines s : ParsePGAuthID s = Ok (p_authfile (vis s)).
Proof.
  unfold ParsePGAuthID, p_authfile.
  destruct (ReadTuples_refines s false) as (l & H1 & H2). rewrite H1. cbn [bind].
  rewrite auth_entries_refines, H2. reflexivity.
Qed.

Corollary ParsePGAuthID_no_panic s : ParsePGAuthID s <> Panic.
Proof. rewrite ParsePGAuthID_refines. discriminate. Qed.

Corollary ParsePGAuthID_tail_indep v t1 t2 :
  ParsePGAuthID {| vis := v; tail := t1 |} = ParsePGAuthID {| vis := v; tail := t2 |}.
Proof. rewrite !ParsePGAuthID_refines. reflexivity. Qed.
