(* The constructive writer enc_heap (Spec.page_of: line pointers up, MAXALIGNed tuples down from the end of the
   page, as heapam places them) produces well-formed C02 pages, so C14_roles applies to it for every role list. *)
Require Import PG.Base.Bytes PG.Base.GoSlice.
Require Import PG.C02.Model PG.C02.Spec PG.C02.SpecProofs.
Require Import PG.C14.Model PG.C14.Spec PG.C14.Pure PG.C14.RefineProofs PG.C14.SpecProofs PG.C14.WfProofs.

Lemma maxalign8_ge n : n <= maxalign8 n < n + 8.
Proof. unfold maxalign8. lia. Qed.

Lemma padded_len t : wf_tup t -> blen (padded t) = maxalign8 (tup_len t).
Proof.
  intros W. unfold padded. bl. rewrite enc_tuple_len by exact W.
  pose proof (maxalign8_ge (tup_len t)). rewrite zeros_len by lia. lia.
Qed.

Lemma tuples_size_nonneg ts : Forall wf_tup ts -> 0 <= tuples_size ts.
Proof.
  induction 1 as [|t ts W F IH]; cbn [tuples_size fold_right]; [lia|].
  fold (tuples_size ts). pose proof (maxalign8_ge (tup_len t)).
  destruct W as (_ & _ & _ & _ & Hh & _). unfold tup_len in *. pose proof (blen_nonneg (tp_data t)). lia.
Qed.

Lemma concat_padded_len ts : Forall wf_tup ts -> blen (concat (map padded (rev ts))) = tuples_size ts.
Proof.
  induction 1 as [|t ts W F IH]; [reflexivity|].
  cbn [rev]. rewrite map_app, concat_app. cbn [map concat]. bl. rewrite IH, padded_len by exact W.
  cbn [tuples_size fold_right]. fold (tuples_size ts). lia.
Qed.

Lemma place_length : forall ts top, length (place top ts) = length ts.
Proof. induction ts as [|t r IH]; intros top; cbn [place length]; [reflexivity|]. rewrite IH. reflexivity. Qed.

Lemma place_normal : forall ts top,
  flat_map (fun x => if lp_flags (fst x) =? LP_NORMAL then match snd x with Some t => [t] | None => [] end else [])
           (place top ts) = ts.
Proof.
  induction ts as [|t r IH]; intros top; [reflexivity|].
  cbn [place flat_map fst snd lp_flags]. rewrite Z.eqb_refl. cbn [app]. rewrite IH. reflexivity.
Qed.

(* every placed tuple sits, byte for byte, where its line pointer says *)
Lemma place_spec : forall ts H S, Forall wf_tup ts ->
  let img := H ++ concat (map padded (rev ts)) ++ S in
  Forall (fun x => lp_flags (fst x) = LP_NORMAL /\
            exists t, snd x = Some t /\ wf_tup t /\ lp_len (fst x) = tup_len t /\
                      blen H <= lp_off (fst x) /\ lp_off (fst x) + lp_len (fst x) <= blen H + tuples_size ts /\
                      sub img (lp_off (fst x)) (lp_off (fst x) + lp_len (fst x)) = enc_tuple t)
         (place (blen H + tuples_size ts) ts).
Proof.
  induction ts as [|t r IH]; intros H S F; cbn zeta; [constructor|].
  inversion F as [|? ? W F']; subst.
  pose proof (tuples_size_nonneg r F') as Hr0. pose proof (maxalign8_ge (tup_len t)) as Hma.
  pose proof (enc_tuple_len t W) as Lt. pose proof (concat_padded_len r F') as Lc.
  assert (Htl : 0 <= tup_len t).
  { destruct W as (_ & _ & _ & _ & Hh & _). unfold tup_len. pose proof (blen_nonneg (tp_data t)). lia. }
  cbn [place tuples_size fold_right]. fold (tuples_size r).
  replace (blen H + (maxalign8 (tup_len t) + tuples_size r) - maxalign8 (tup_len t)) with (blen H + tuples_size r) by lia.
  assert (Eimg : H ++ concat (map padded (rev (t :: r))) ++ S =
                 H ++ concat (map padded (rev r)) ++ (padded t ++ S)).
  { cbn [rev]. rewrite map_app, concat_app. cbn [map concat]. rewrite app_nil_r, <- !app_assoc. reflexivity. }
  rewrite Eimg. constructor.
  - cbn [fst snd lp_flags lp_off lp_len]. split; [reflexivity|]. exists t.
    split; [reflexivity|]. split; [exact W|]. split; [reflexivity|]. split; [lia|]. split; [lia|].
    change (padded t) with (enc_tuple t ++ zeros (maxalign8 (tup_len t) - tup_len t)). rewrite <- Lc.
    replace (H ++ concat (map padded (rev r)) ++ (enc_tuple t ++ zeros (maxalign8 (tup_len t) - tup_len t)) ++ S)
      with ((H ++ concat (map padded (rev r))) ++ enc_tuple t ++ (zeros (maxalign8 (tup_len t) - tup_len t) ++ S))
      by (rewrite <- !app_assoc; reflexivity).
    apply sub_mid; bl; lia.
  - specialize (IH H (padded t ++ S) F'). cbn zeta in IH.
    eapply Forall_impl; [|exact IH]. intros x (Hf & t0 & H1 & H2 & H3 & H4 & H5 & H6).
    split; [exact Hf|]. exists t0.
    split; [exact H1|]. split; [exact H2|]. split; [exact H3|]. split; [exact H4|]. split; [lia|exact H6].
Qed.

Lemma page_of_wf ts : Forall wf_tup ts -> fits_page ts -> wf_page (page_of ts).
Proof.
  intros F Hfit. unfold fits_page in Hfit.
  pose proof (tuples_size_nonneg ts F) as Hs0. pose proof (concat_padded_len ts F) as Lc.
  assert (Hlow : pg_lower (page_of ts) = 24 + 4 * Z.of_nat (length ts)).
  { unfold pg_lower, page_of. cbn [pg_lps]. rewrite place_length. reflexivity. }
  unfold wf_page. rewrite Hlow. unfold page_of at 1 2 3 4 5 6 7 8 9.
  cbn [pg_lsn_etc pg_prune pg_version pg_upper pg_special pg_body].
  split; [apply zeros_len; lia|]. split; [apply zeros_len; lia|]. split; [lia|]. split; [lia|].
  split; [lia|]. split; [lia|]. split.
  - bl. rewrite Lc. lia.
  - (* the line pointers *)
    change (pg_upper (page_of ts)) with (8192 - tuples_size ts). change (pg_special (page_of ts)) with 8192.
    set (H := zeros 12 ++ le_enc 2 (pg_lower (page_of ts)) ++ le_enc 2 (8192 - tuples_size ts) ++ le_enc 2 8192 ++
              le_enc 2 (8192 + 4) ++ zeros 4 ++ enc_lps (place 8192 ts) ++
              zeros (8192 - tuples_size ts - (24 + 4 * Z.of_nat (length ts)))).
    assert (EH : enc_page (page_of ts) = H ++ concat (map padded (rev ts)) ++ []).
    { unfold enc_page, H, page_of. cbn [pg_lsn_etc pg_prune pg_version pg_upper pg_special pg_body pg_lps].
      rewrite app_nil_r, <- !app_assoc. reflexivity. }
    assert (LH : blen H = 8192 - tuples_size ts).
    { unfold H. bl. rewrite place_length. change (Z.of_nat 2) with 2. lia. }
    pose proof (place_spec ts H [] F) as P. cbn zeta in P. rewrite LH in P.
    replace (8192 - tuples_size ts + tuples_size ts) with 8192 in P by lia.
    change (pg_lps (page_of ts)) with (place 8192 ts).
    eapply Forall_impl; [|exact P]. intros x (Hf & t & H1 & H2 & H3 & H4 & H5 & H6).
    pose proof H2 as (_ & _ & _ & _ & Hh & _).
    assert (0 <= tup_len t) by (unfold tup_len; pose proof (blen_nonneg (tp_data t)); lia).
    unfold wf_lp. rewrite Hf. unfold LP_NORMAL.
    split; [lia|]. split; [lia|]. split; [lia|].
    intros _. exists t. rewrite EH.
    split; [exact H1|]. split; [exact H2|]. split; [exact H3|]. split; [lia|]. split; [lia|exact H6].
Qed.

Lemma page_of_normal ts : normal_tuples (page_of ts) = ts.
Proof. unfold normal_tuples, page_of. cbn [pg_lps]. apply place_normal. Qed.

Definition page_ok (srs : list stored_role) : Prop := Forall wf_stored srs /\ fits_page (map role_tup srs).

Lemma page_ok_b_sound srs : page_ok_b srs = true -> page_ok srs.
Proof.
  unfold page_ok_b, page_ok, fits_page. intros H. apply andb_prop in H. destruct H as [H1 H2]. split.
  - apply Forall_forall. intros s Hs. rewrite forallb_forall in H1. apply wf_stored_b_sound, H1, Hs.
  - rewrite map_length. lia.
Qed.

Lemma enc_heap_stores : forall pages, Forall page_ok pages ->
  stores (map (fun srs => BPage (page_of (map role_tup srs))) pages) (concat pages).
Proof.
  intros pages F. unfold stores. repeat split.
  - rewrite Forall_map. eapply Forall_impl; [|exact F]. intros srs [W Hfit]. cbn [wf_block].
    apply page_of_wf; [|exact Hfit]. rewrite Forall_map. eapply Forall_impl; [|exact W]. apply role_tup_wf.
  - apply Forall_concat. eapply Forall_impl; [|exact F]. intros srs [W _]. exact W.
  - induction pages as [|srs pages IH]; [reflexivity|]. inversion F; subst.
    cbn [map file_tuples flat_map concat]. rewrite page_of_normal, map_app. f_equal. apply IH. assumption.
Qed.

(* for ALL lists of pages of role versions that fit their page *)
Theorem enc_heap_roles pages cap_tail : Forall page_ok pages ->
  ParsePGAuthID {| vis := enc_heap pages; tail := cap_tail |} = Ok (expected_roles (concat pages)).
Proof.
  intros F. unfold enc_heap. apply ParsePGAuthID_roles; [apply enc_heap_stores; exact F|cbn; lia].
Qed.
