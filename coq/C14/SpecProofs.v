(* ParsePGAuthID inverts the pg_authid writer: per tuple (fixed offsets, null bitmap, both varlena header forms),
   then through C02's page/file theorems for any number of pages. *)
Require Import PG.Base.Bytes PG.Base.GoSlice PG.Base.Value.
Require Import PG.C02.Model PG.C02.Spec PG.C02.Pure PG.C02.Refine PG.C02.SpecProofs.
Require Import PG.C03.Model PG.C03.Pure PG.C03.Lib PG.C03.Spec PG.C03.SpecProofs PG.C03.Bitmap PG.C03.Main.
Require Import PG.C14.Model PG.C14.Spec PG.C14.Pure PG.C14.RefineProofs.

(* ---------- the data area heap_fill_tuple produces for a pg_authid row ---------- *)
Definition data80 (r : role) : bytes :=
  le_enc 4 (r_oid r) ++ name_data (r_name r) ++
  [bool_byte (r_super r)] ++ [bool_byte (r_inherit r)] ++ [bool_byte (r_createrole r)] ++ [bool_byte (r_createdb r)] ++
  [bool_byte (r_canlogin r)] ++ [bool_byte (r_replication r)] ++ [bool_byte (r_bypassrls r)] ++
  zeros 1 ++ le_enc 4 (r_connlimit r mod 2 ^ 32).

Definition col0 : Column := {| c_name := []; c_typid := 0; c_len := 0; c_num := 0; c_align := 0 |}.
Definition pw_col : Column := Eval vm_compute in nth 10 auth_cols col0.
Definition vu_col : Column := Eval vm_compute in nth 11 auth_cols col0.
Definition pw_of (long : bool) (r : role) : datum := match r_password r with Some p => pw_datum long p | None => DNull end.
Definition vu_of (r : role) : datum := match r_validuntil r with Some v => DFixed (le_enc 8 (v mod 2 ^ 64)) | None => DNull end.

Lemma name_data_len n : blen n <= 64 -> blen (name_data n) = 64.
Proof. intros. unfold name_data. bl. lia. Qed.
#[export] Hint Rewrite name_data_len using lia : blen.

Lemma data80_len r : blen (r_name r) <= 64 -> blen (data80 r) = 80.
Proof. intros. unfold data80. bl. change (Z.of_nat 4) with 4. lia. Qed.

Lemma fill_fixed_at off off' c cs bs ds p :
  p = pad off (att_align c) -> off' = off + p + blen bs ->
  fill off (c :: cs) (DFixed bs :: ds) = zeros p ++ bs ++ fill off' cs ds.
Proof. intros -> ->. reflexivity. Qed.

Lemma fill_role long r : blen (r_name r) <= 64 ->
  fill 0 auth_cols (role_datums long r) = data80 r ++ fill 80 [pw_col; vu_col] [pw_of long r; vu_of r].
Proof.
  intros Hn. unfold auth_cols, role_datums. fold (pw_of long r). fold (vu_of r).
  rewrite (fill_fixed_at 0 4 _ _ _ _ 0) by first [reflexivity | bl; reflexivity].
  rewrite (fill_fixed_at 4 68 _ _ _ _ 0) by first [reflexivity | bl; lia].
  rewrite (fill_fixed_at 68 69 _ _ _ _ 0) by reflexivity.
  rewrite (fill_fixed_at 69 70 _ _ _ _ 0) by reflexivity.
  rewrite (fill_fixed_at 70 71 _ _ _ _ 0) by reflexivity.
  rewrite (fill_fixed_at 71 72 _ _ _ _ 0) by reflexivity.
  rewrite (fill_fixed_at 72 73 _ _ _ _ 0) by reflexivity.
  rewrite (fill_fixed_at 73 74 _ _ _ _ 0) by reflexivity.
  rewrite (fill_fixed_at 74 75 _ _ _ _ 0) by reflexivity.
  rewrite (fill_fixed_at 75 80 _ _ _ _ 1) by first [reflexivity | bl; reflexivity].
  change (zeros 0) with (@nil byte). cbn [app]. unfold data80. rewrite <- !app_assoc. reflexivity.
Qed.

(* ---------- reading the fixed part back ---------- *)
Lemma zeros_cons k : 0 < k -> zeros k = x00 :: zeros (k - 1).
Proof. intros. unfold zeros. replace (Z.to_nat k) with (S (Z.to_nat (k - 1))) by lia. reflexivity. Qed.

Lemma cstring_scan_name : forall n rest m i, nul_free n -> i + blen n < m ->
  cstring_scan (n ++ x00 :: rest) m i = Some (i + blen n).
Proof.
  induction n as [|b n IH]; intros rest m i Hf Hm; cbn [app cstring_scan].
  - bl. replace (i <? m) with true by lia. change (b2z x00 =? 0) with true. cbn. f_equal. lia.
  - inversion Hf as [|? ? Hb Hf']; subst. bl. pose proof (blen_nonneg n).
    replace (i <? m) with true by lia. replace (b2z b =? 0) with false by lia.
    rewrite IH by (auto; lia). f_equal. lia.
Qed.

Lemma p_cstring_name n rest : nul_free n -> blen n <= 63 -> p_cstring (name_data n ++ rest) 64 = n.
Proof.
  intros Hf Hl. unfold p_cstring, name_data.
  rewrite (zeros_cons (64 - blen n)) by lia. rewrite <- app_assoc. cbn [app].
  rewrite cstring_scan_name by (auto; lia).
  rewrite sub_app_l by (bl; lia). apply sub_exact; lia.
Qed.

Lemma byte_at_single pre x post i : i = blen pre -> byte_at (pre ++ [x] ++ post) i = b2z x.
Proof. intros ->. rewrite byte_at_app_r by lia. replace (blen pre - blen pre) with 0 by lia. reflexivity. Qed.

Lemma bool_byte_nz b : negb (b2z (bool_byte b) =? 0) = b.
Proof. destruct b; reflexivity. Qed.

Section Fixed.
Variable r : role.
Variable T : bytes.
Hypothesis W : wf_role r.
Let d := data80 r ++ T.

Lemma d_len : blen d = 80 + blen T.
Proof. destruct W as (_ & Hn & _). unfold d. bl. rewrite data80_len by lia. reflexivity. Qed.

Lemma d_oid : pu 4 d 0 = r_oid r.
Proof.
  destruct W as (Ho & _). apply (pu_at 4); [|exact Ho].
  unfold d, data80. ssub.
Qed.

Lemma d_name : p_cstring (sub d 4 (blen d)) 64 = r_name r.
Proof.
  destruct W as (_ & Hn & Hf & _).
  assert (E : exists rest, sub d 4 (blen d) = name_data (r_name r) ++ rest).
  { eexists. unfold d, data80. rewrite <- !app_assoc. rewrite sub_app_r by (bl; lia).
    apply sub_exact; bl; change (Z.of_nat 4) with 4; lia. }
  destruct E as [rest E].
  rewrite E. apply p_cstring_name; [exact Hf|lia].
Qed.

Ltac at_byte :=
  repeat (rewrite byte_at_app_r by (bl; change (Z.of_nat 4) with 4; lia));
  match goal with |- context [byte_at _ ?i] => replace i with 0 by (bl; change (Z.of_nat 4) with 4; lia) end;
  cbn [app]; rewrite byte_at_cons0.

Lemma d_super : negb (byte_at d 68 =? 0) = r_super r.
Proof.
  destruct W as (_ & Hn & _). unfold d.
  rewrite byte_at_app_l by (rewrite data80_len by lia; lia). unfold data80.
  at_byte. apply bool_byte_nz.
Qed.

Lemma d_login : negb (byte_at d 72 =? 0) = r_canlogin r.
Proof.
  destruct W as (_ & Hn & _). unfold d.
  rewrite byte_at_app_l by (rewrite data80_len by lia; lia). unfold data80.
  at_byte. apply bool_byte_nz.
Qed.
End Fixed.

(* ---------- reading the verifier back: both varlena header forms, after any prefix ---------- *)
Lemma readVarlena_short pre p F : blen p + 1 <= 127 ->
  p_readVarlena (pre ++ [hdr1 (blen p + 1)] ++ p ++ F) (blen pre) =
  (Some (blen pre + 1, blen pre + 1 + blen p), blen p + 1).
Proof.
  intros Hp. set (dat := pre ++ [hdr1 (blen p + 1)] ++ p ++ F).
  pose proof (blen_nonneg p) as Hp0. pose proof (blen_nonneg F) as HF0. pose proof (blen_nonneg pre) as Hpre.
  assert (Hd0 : byte_at dat (blen pre) = (blen p + 1) * 2 + 1).
  { unfold dat. rewrite byte_at_app_r0 by reflexivity. cbn [app]. rewrite byte_at_cons0.
    unfold hdr1. rewrite b2z_z2b. lia. }
  assert (Hlen : blen dat = blen pre + 1 + blen p + blen F) by (unfold dat; bl; lia).
  unfold p_readVarlena. rewrite Hd0.
  replace (blen dat - blen pre =? 0) with false by lia.
  replace ((((blen p + 1) * 2 + 1) mod 2 =? 1) && negb ((blen p + 1) * 2 + 1 =? 1)) with true by lia.
  replace (((blen p + 1) * 2 + 1) / 2) with (blen p + 1) by lia.
  replace ((blen p + 1 <? 1) || (blen dat - blen pre <? blen p + 1)) with false by lia.
  f_equal. f_equal. f_equal. lia.
Qed.

Lemma readVarlena_long pre p F : blen p + 4 < 2 ^ 30 ->
  p_readVarlena (pre ++ hdr4 (blen p + 4) 0 ++ p ++ F) (blen pre) =
  (Some (blen pre + 4, blen pre + 4 + blen p), blen p + 4).
Proof.
  intros Hp. set (dat := pre ++ hdr4 (blen p + 4) 0 ++ p ++ F).
  pose proof (blen_nonneg p) as Hp0. pose proof (blen_nonneg F) as HF0. pose proof (blen_nonneg pre) as Hpre.
  assert (Hlen : blen dat = blen pre + 4 + blen p + blen F) by (unfold dat, hdr4; bl; lia).
  assert (Hh : sub dat (blen pre) (blen pre + 4) = hdr4 (blen p + 4) 0) by (unfold dat, hdr4; ssub).
  assert (Hpu : pu 4 dat (blen pre) = (blen p + 4) * 4 + 0).
  { unfold pu. rewrite Hh. unfold hdr4. apply le_dec_enc. change (2 ^ (8 * Z.of_nat 4)) with (4 * 2 ^ 30). lia. }
  assert (Hb0 : byte_at dat (blen pre) = ((blen p + 4) * 4 + 0) mod 256).
  { rewrite (byte_at_sub_head dat (blen pre) (blen pre + 4) (z2b ((blen p + 4) * 4 + 0))
               (le_enc 3 (((blen p + 4) * 4 + 0) / 256))); [apply b2z_z2b|lia|lia|exact Hh]. }
  unfold p_readVarlena. rewrite Hb0, Hpu.
  replace (blen dat - blen pre =? 0) with false by lia.
  replace (((((blen p + 4) * 4 + 0) mod 256) mod 2 =? 1) && negb (((blen p + 4) * 4 + 0) mod 256 =? 1)) with false by lia.
  replace (((blen p + 4) * 4 + 0) mod 256 =? 1) with false by lia.
  replace (blen dat - blen pre <? 4) with false by lia.
  replace (((blen p + 4) * 4 + 0) / 4) with (blen p + 4) by lia.
  replace ((blen p + 4 <? 4) || (blen dat - blen pre <? blen p + 4)) with false by lia.
  f_equal. f_equal. f_equal. lia.
Qed.

Lemma isnull11 ds dd : nth_error ds 10 = Some dd -> p_isnull (bitmap_for ds) 11 = is_null dd.
Proof.
  intros H. unfold bitmap_for. destruct (has_nulls ds) eqn:E.
  - change 11 with (0 + 1 + Z.of_nat 10). apply isnull_bitmap. exact H.
  - cbn [p_isnull]. symmetry. eapply no_nulls; eauto.
Qed.

(* ---------- one role tuple: data area + null bitmap as heap_fill_tuple writes them ---------- *)
Theorem p_auth_role long r : wf_role r ->
  p_auth (bitmap_for (role_datums long r)) (fill 0 auth_cols (role_datums long r)) = Some (expected_role r).
Proof.
  intros W. pose proof W as (Ho & Hn & Hf & Hc & Hp & Hv).
  rewrite fill_role by lia. set (T := fill 80 [pw_col; vu_col] [pw_of long r; vu_of r]).
  pose proof (blen_nonneg T) as HT.
  unfold p_auth. rewrite (d_oid r T W), (d_name r T W), (d_super r T W), (d_login r T W).
  rewrite (d_len r T W).
  replace (80 + blen T <? 70) with false by lia.
  replace (73 <=? 80 + blen T) with true by lia.
  rewrite (isnull11 _ (pw_of long r)) by reflexivity.
  replace (negb (blen (r_name r) =? 0)) with true by lia.
  unfold expected_role. f_equal. f_equal.
  unfold pw_of in *. destruct (r_password r) as [p|] eqn:EP; [|reflexivity].
  destruct (Hp p eq_refl) as [Hp1 Hp2].
  assert (L80 : blen (data80 r) = 80) by (apply data80_len; lia).
  unfold pw_datum in *. destruct (long || (126 <? blen p)) eqn:EL; cbn [is_null negb andb].
  - (* 4-byte header, aligned to 4: offset 80 needs no padding *)
    assert (ET : T = hdr4 (blen p + 4) 0 ++ p ++ fill (80 + 0 + 4 + blen p) [vu_col] [vu_of r]) by reflexivity.
    set (F := fill (80 + 0 + 4 + blen p) [vu_col] [vu_of r]) in *. pose proof (blen_nonneg F) as HF.
    assert (LT : blen T = 4 + blen p + blen F) by (rewrite ET; unfold hdr4; bl; lia).
    replace (80 <? 80 + blen T) with true by lia. rewrite ET.
    rewrite <- L80 at 1. rewrite readVarlena_long by lia. cbn [fst].
    replace (blen (data80 r) + 4 + blen p - (blen (data80 r) + 4) >? 0) with true by lia.
    unfold hdr4. ssub.
  - (* 1-byte header, not aligned *)
    assert (ET : T = [hdr1 (blen p + 1)] ++ p ++ fill (80 + 1 + blen p) [vu_col] [vu_of r]) by reflexivity.
    set (F := fill (80 + 1 + blen p) [vu_col] [vu_of r]) in *. pose proof (blen_nonneg F) as HF.
    assert (LT : blen T = 1 + blen p + blen F) by (rewrite ET; bl; lia).
    replace (80 <? 80 + blen T) with true by lia. rewrite ET.
    rewrite <- L80 at 1. rewrite readVarlena_short by lia. cbn [fst].
    replace (blen (data80 r) + 1 + blen p - (blen (data80 r) + 1) >? 0) with true by lia.
    ssub.
Qed.

(* ---------- the stored tuple (C03's stored_tuple inside C02's enc_tuple) ---------- *)
Definition bitmap_len_of := bitmap_of_len (fun _ _ => Ok VNil) (fun _ _ => VNil) (fun _ _ => eq_refl).

Lemma stored_tuple_wf head flags2 mask_hi extra cols ds :
  blen head = 18 -> 0 <= flags2 < 32 -> 0 <= mask_hi < 32768 -> 0 <= extra ->
  Z.of_nat (length ds) < 2048 -> maxalign (23 + (Z.of_nat (length ds) + 7) / 8) + 8 * extra <= 255 ->
  wf_tup (stored_tuple head flags2 mask_hi extra cols ds).
Proof.
  intros Hh Hf Hm He Hn Hho.
  unfold wf_tup, stored_tuple, hasnull, bitmap_len, maxalign.
  cbn [tp_head tp_natts tp_flags2 tp_infomask tp_hoff tp_mid tp_data].
  pose proof (bitmap_len_of ds) as BL. unfold maxalign in Hho.
  destruct (has_nulls ds) eqn:EN.
  - rewrite BL in *. unfold align in *. cbn [Z.leb Z.compare Pos.compare Pos.compare_cont] in *. bl.
    repeat split; try lia; try (rewrite zeros_len by lia; lia).
  - change (blen []) with 0 in *. unfold align in *. cbn [Z.leb Z.compare Pos.compare Pos.compare_cont] in *. bl.
    repeat split; try lia; try (rewrite zeros_len by lia; lia).
    intros O. exfalso. rewrite Z.add_0_l, Z.odd_mul in O. discriminate.
Qed.

Lemma stored_tuple_obs head flags2 mask_hi extra cols ds po :
  let e := expected_tuple (stored_tuple head flags2 mask_hi extra cols ds) po in
  o_bitmap e = bitmap_for ds /\ o_data e = fill 0 cols ds.
Proof.
  cbn zeta. split; [|reflexivity].
  unfold expected_tuple, bitmap_for, hasnull, bitmap_len, stored_tuple. cbn [o_bitmap tp_infomask tp_natts tp_mid].
  destruct (has_nulls ds) eqn:EN.
  - replace (Z.odd (1 + 2 * mask_hi)) with true by (rewrite Z.odd_add, Z.odd_mul; reflexivity).
    f_equal. rewrite <- bitmap_len_of. rewrite firstn_app.
    replace (Z.to_nat (blen (bitmap_of ds)) - length (bitmap_of ds))%nat with 0%nat by (unfold blen; lia).
    cbn [firstn]. rewrite app_nil_r. apply firstn_all2. unfold blen. lia.
  - replace (Z.odd (0 + 2 * mask_hi)) with false by (rewrite Z.add_0_l, Z.odd_mul; reflexivity). reflexivity.
Qed.

Lemma role_tup_wf s : wf_stored s -> wf_tup (role_tup s).
Proof.
  intros (_ & Hh & Hf & Hm & He). unfold role_tup. apply stored_tuple_wf; try lia.
  - cbn [role_datums length]. lia.
  - cbn [role_datums length]. change (maxalign (23 + (Z.of_nat 12 + 7) / 8)) with 32. lia.
Qed.

(* what the scan reports for a stored role version is decoded to the role *)
Theorem p_auth_obs_role s po : wf_stored s ->
  p_auth_obs (expected_tuple (role_tup s) po) = [expected_role (sr_role s)].
Proof.
  intros W. unfold p_auth_obs, role_tup.
  destruct (stored_tuple_obs (sr_head s) (sr_flags2 s) (sr_mask_hi s) (sr_extra s) auth_cols
                             (role_datums (sr_long s) (sr_role s)) po) as [Hb Hd].
  cbn zeta in Hb, Hd. rewrite Hb, Hd. rewrite p_auth_role by apply W. reflexivity.
Qed.

(* ---------- files ---------- *)
Lemma auth_expected_file : forall bs off,
  flat_map p_auth_obs (expected_file bs off) =
  flat_map (fun t => p_auth_obs (expected_tuple t 0)) (file_tuples bs).
Proof.
  induction bs as [|b bs IH]; intros off; [reflexivity|].
  destruct b as [p|]; cbn [expected_file file_tuples flat_map].
  - rewrite !flat_map_app. rewrite IH. f_equal.
    unfold expected_page. rewrite !flat_map_concat_map, map_map. reflexivity.
  - apply IH.
Qed.

Lemma flat_map_roles : forall srs, Forall wf_stored srs ->
  flat_map (fun t => p_auth_obs (expected_tuple t 0)) (map role_tup srs) = expected_roles srs.
Proof.
  induction srs as [|s srs IH]; intros F; [reflexivity|]. inversion F as [|? ? Hs F']; subst.
  cbn [map flat_map]. rewrite p_auth_obs_role by exact Hs. rewrite IH by exact F'. reflexivity.
Qed.

(* MAIN: any heap file (any number of formatted / never-initialised blocks, any placement of the tuples inside a
   page, unused / redirected / dead line pointers in between, a trailing partial block, any capacity tail) whose
   NORMAL line pointers designate, in file order, the stored versions [srs]: exactly one entry per version. *)
Theorem ParsePGAuthID_roles bs srs tl cap_tail :
  stores bs srs -> blen tl < 8192 ->
  ParsePGAuthID {| vis := enc_file bs tl; tail := cap_tail |} = Ok (expected_roles srs).
Proof.
  intros (Fb & Fs & Ht) Htl. rewrite ParsePGAuthID_refines. cbn [vis]. unfold p_authfile.
  rewrite p_file_enc by assumption. rewrite auth_expected_file, Ht. rewrite flat_map_roles by exact Fs. reflexivity.
Qed.

(* one stored version through the tuple parser: whatever the header says about visibility *)
Theorem authTuple_stored s tl : wf_stored s ->
  exists ht, ParseHeapTuple {| vis := enc_tuple (role_tup s); tail := tl |} = Ok (Some ht) /\
             authTuple ht = Ok (Some (expected_role (sr_role s))).
Proof.
  intros W. pose proof (role_tup_wf s W) as Wt.
  destruct (ParseHeapTuple_refines {| vis := enc_tuple (role_tup s); tail := tl |}) as (o & H1 & H2).
  cbn [vis] in H2. specialize (H2 0). rewrite p_tuple_enc in H2 by exact Wt.
  destruct o as [ht|]; [|discriminate]. exists ht. split; [exact H1|].
  cbn [option_map] in H2. assert (E : obs_tuple ht 0 = expected_tuple (role_tup s) 0) by congruence.
  rewrite authTuple_refines.
  pose proof (p_auth_obs_role s 0 W) as P. rewrite <- E in P. unfold p_auth_obs, obs_tuple in P. cbn [o_bitmap o_data] in P.
  destruct (p_auth _ _) as [a|]; cbn [opt_list] in P; [|discriminate]. congruence.
Qed.
