Require Import PG.Base.Bytes PG.Base.GoSlice PG.C03.Spec PG.C14.Model PG.C14.Spec.

Lemma wf_role_b_sound r : wf_role_b r = true -> wf_role r.
Proof.
  unfold wf_role_b, wf_role. intros H. rewrite !andb_true_iff in H.
  destruct H as [[[[[[[[H1 H2] H3] H4] H5] H6] H7] H8] H9].
  split; [lia|]. split; [lia|]. split.
  { unfold nul_free. apply Forall_forall. intros b Hb.
    rewrite forallb_forall in H5. specialize (H5 b Hb). lia. }
  split; [lia|]. split.
  - intros p Hp. rewrite Hp in H8. lia.
  - intros v Hv. rewrite Hv in H9. lia.
Qed.

Lemma wf_stored_b_sound s : wf_stored_b s = true -> wf_stored s.
Proof.
  unfold wf_stored_b, wf_stored. intros H. rewrite !andb_true_iff in H.
  destruct H as [[[[[[[H1 H2] H3] H4] H5] H6] H7] H8].
  split; [apply wf_role_b_sound; exact H1|]. lia.
Qed.
