(* Model of pgdump/passwords.go (ParsePGAuthID, ExtractPasswords, ExtractPasswordsFromFiles),
   RemoteClient.Credentials (pgdump/remote.go:247-252), cstring (pgdump/binary.go:42-52) and the CLI
   -passwords branch (main.go:254-284).  The heap scan (ReadTuples, IsNull) is C02's model and
   ReadVarlena is C03's model: imported, not re-modelled. *)
Require Import PG.Base.Bytes PG.Base.GoSlice PG.C02.Model PG.C03.Model.

(* passwords.go:9-15 *)
Record AuthInfo := { a_oid : Z; a_name : bytes; a_password : bytes; a_super : bool; a_login : bool }.

(* binary.go:43-47   for i := 0; i < len(data) && i < maxLen; i++ { if data[i] == 0 { return string(data[:i]) } }
   structural recursion over the len(data) visible bytes; data[i] with i < len never panics.
   Some i = "returned inside the loop at index i" *)
Fixpoint cstring_scan (bs : bytes) (maxLen i : Z) : option Z :=
  match bs with
  | [] => None
  | b :: r => if i <? maxLen then (if b2z b =? 0 then Some i else cstring_scan r maxLen (i + 1)) else None
  end.

(* binary.go:42-52 *)
Definition cstring (s : gslice) (maxLen : Z) : res bytes :=
  match cstring_scan (vis s) maxLen 0 with
  | Some i => p <- slice_to s i ;; Ok (vis p)
  | None => if maxLen <? len s then p <- slice_to s maxLen ;; Ok (vis p) else Ok (vis s)
  end.

(* passwords.go:37-96, the body of the loop for one entry; None = `continue` / not appended.
   entry.Tuple is never nil for entries produced by ReadTuples. *)
Definition authTuple (t : HeapTuple) : res (option AuthInfo) :=
  let d := t_data t in
  (* :38 *)
  if len d <? 70 then Ok None else
  let offset := 0 in
  (* :46-49  info.OID = u32(tuple.Data, offset) *)
  '(oid, offset) <- (if offset + 4 <=? len d then v <- u32 d offset ;; Ok (v, offset + 4) else Ok (0, offset)) ;;
  (* :52-55  info.RoleName = cstring(tuple.Data[offset:], 64) *)
  '(name, offset) <- (if offset + 64 <=? len d
                      then r <- slice_from d offset ;; n <- cstring r 64 ;; Ok (n, offset + 64)
                      else Ok ([], offset)) ;;
  (* :58-61  info.RolSuper = tuple.Data[offset] != 0 *)
  '(super, offset) <- (if offset + 1 <=? len d then b <- idx d offset ;; Ok (negb (b =? 0), offset + 1)
                       else Ok (false, offset)) ;;
  (* :64 *)
  let offset := offset + 3 in
  (* :67-70  info.RolLogin = tuple.Data[offset] != 0 *)
  '(login, offset) <- (if offset + 1 <=? len d then b <- idx d offset ;; Ok (negb (b =? 0), offset + 1)
                       else Ok (false, offset)) ;;
  (* :73, :76, :79 *)
  let offset := offset + 2 in
  let offset := go_align offset 4 in
  let offset := offset + 4 in
  (* :83-92 *)
  isnull <- IsNull t 11 ;;
  pw <- (if negb isnull && (offset <? len d) then
           let offset := go_align offset 4 in
           if offset <? len d then
             r <- slice_from d offset ;;
             '(pwData, _) <- ReadVarlena r ;;
             match pwData with
             | Some p => if len p >? 0 then Ok (vis p) else Ok []
             | None => Ok []
             end
           else Ok []
         else Ok []) ;;
  (* :94-96 *)
  if negb (blen name =? 0)
  then Ok (Some {| a_oid := oid; a_name := name; a_password := pw; a_super := super; a_login := login |})
  else Ok None.

(* passwords.go:33-100 *)
Fixpoint auth_entries (es : list TupleEntry) : res (list AuthInfo) :=
  match es with
  | [] => Ok []
  | e :: r => o <- authTuple (e_tuple e) ;; rs <- auth_entries r ;;
              Ok (match o with Some a => a :: rs | None => rs end)
  end.
Definition ParsePGAuthID (s : gslice) : res (list AuthInfo) :=
  es <- ReadTuples s false ;; auth_entries es.

(* ---------------- file plumbing: the file system is data ----------------
   [reader path] = Some contents | None (any error).  For ExtractPasswords the reader is
   fun rel => os.ReadFile(filepath.Join(dataDir, rel)); for the other two it is the caller's function. *)
Definition path_authid : bytes :=     (* "global/1260" = filepath.Join("global","1260") = Sprintf("global/%d", PGAuthID) *)
  [x67; x6c; x6f; x62; x61; x6c; x2f; x31; x32; x36; x30].

Section Fs.
Variable reader : bytes -> option gslice.
(* passwords.go:18-25 and :103-109: (nil, err) is None *)
Definition ExtractPasswords : res (option (list AuthInfo)) :=
  match reader path_authid with
  | None => Ok None
  | Some data => r <- ParsePGAuthID data ;; Ok (Some r)
  end.
Definition ExtractPasswordsFromFiles : res (option (list AuthInfo)) :=
  match reader path_authid with
  | None => Ok None
  | Some data => r <- ParsePGAuthID data ;; Ok (Some r)
  end.
(* remote.go:247-252: nil slice on error *)
Definition Credentials : res (list AuthInfo) :=
  match reader path_authid with
  | Some data => ParsePGAuthID data
  | None => Ok []
  end.
End Fs.

(* ---------------- main.go:254-284 as a function of the extraction result ---------------- *)
Definition s_all : bytes := [x61; x6c; x6c].                                            (* "all" *)
Definition s_none_found : bytes :=                                                      (* "No password hashes found\n" *)
  [x4e; x6f; x20; x70; x61; x73; x73; x77; x6f; x72; x64; x20; x68; x61; x73; x68; x65; x73; x20; x66; x6f; x75; x6e; x64; x0a].
Definition s_header : bytes :=              (* "PostgreSQL Password Hashes:\n===========================\n" *)
  [x50; x6f; x73; x74; x67; x72; x65; x53; x51; x4c; x20; x50; x61; x73; x73; x77; x6f; x72; x64; x20; x48; x61; x73; x68; x65; x73; x3a; x0a] ++
  repeat x3d 27 ++ [x0a].
Definition s_super : bytes := [x20; x5b; x53; x55; x50; x45; x52; x55; x53; x45; x52; x5d].   (* " [SUPERUSER]" *)
Definition s_login : bytes := [x20; x5b; x4c; x4f; x47; x49; x4e; x5d].                       (* " [LOGIN]" *)
Definition s_nopw : bytes := [x28; x6e; x6f; x20; x70; x61; x73; x73; x77; x6f; x72; x64; x29]. (* "(no password)" *)

Fixpoint bytes_eqb (a b : bytes) : bool :=
  match a, b with
  | [], [] => true
  | x :: a', y :: b' => (b2z x =? b2z y) && bytes_eqb a' b'
  | _, _ => false
  end.

(* main.go:266-282, one iteration; [] = `continue` *)
Definition cli_line (passwords : bytes) (a : AuthInfo) : bytes :=
  if negb (bytes_eqb passwords s_all) && negb (bytes_eqb (a_name a) passwords) then [] else
  let flags := (if a_super a then s_super else []) ++ (if a_login a then s_login else []) in
  if negb (blen (a_password a) =? 0)
  then a_name a ++ [x3a] ++ a_password a ++ flags ++ [x0a]
  else a_name a ++ [x3a] ++ s_nopw ++ flags ++ [x0a].

(* (stdout, exit code); passwords <> "" is the branch condition (main.go:254); the error text goes to stderr *)
Definition cli_passwords (passwords : bytes) (r : option (list AuthInfo)) : bytes * Z :=
  match r with
  | None => ([], 1)
  | Some [] => (s_none_found, 0)
  | Some auths => (s_header ++ concat (map (cli_line passwords) auths), 0)
  end.
