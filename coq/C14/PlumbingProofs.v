(* Entry points (file plumbing) and the CLI -passwords rendering. *)
Require Import PG.Base.Bytes PG.Base.GoSlice.
Require Import PG.C02.Model PG.C02.Spec.
Require Import PG.C14.Model PG.C14.Spec PG.C14.Pure PG.C14.RefineProofs PG.C14.SpecProofs.

Section Plumbing.
Variable reader : bytes -> option gslice.

(* the three entry points are ParsePGAuthID applied to whatever the reader returns for "global/1260";
   an unreadable file is an error (nil for Credentials); nothing else is read; no panic *)
Lemma entry_points_compose :
  ExtractPasswords reader = match reader path_authid with Some d => Ok (Some (p_authfile (vis d))) | None => Ok None end /\
  ExtractPasswordsFromFiles reader = match reader path_authid with Some d => Ok (Some (p_authfile (vis d))) | None => Ok None end /\
  Credentials reader = match reader path_authid with Some d => Ok (p_authfile (vis d)) | None => Ok [] end.
Proof.
  unfold ExtractPasswords, ExtractPasswordsFromFiles, Credentials.
  destruct (reader path_authid) as [d|]; [|repeat split; reflexivity].
  rewrite ParsePGAuthID_refines. repeat split; reflexivity.
Qed.

Lemma entry_points_roles bs srs tl cap_tail :
  stores bs srs -> blen tl < 8192 ->
  reader path_authid = Some {| vis := enc_file bs tl; tail := cap_tail |} ->
  ExtractPasswords reader = Ok (Some (expected_roles srs)) /\
  ExtractPasswordsFromFiles reader = Ok (Some (expected_roles srs)) /\
  Credentials reader = Ok (expected_roles srs).
Proof.
  intros St Htl Hr. unfold ExtractPasswords, ExtractPasswordsFromFiles, Credentials. rewrite Hr.
  rewrite (ParsePGAuthID_roles bs srs tl cap_tail St Htl). repeat split; reflexivity.
Qed.
End Plumbing.

Lemma entry_points_local r1 r2 : r1 path_authid = r2 path_authid ->
  ExtractPasswords r1 = ExtractPasswords r2 /\ ExtractPasswordsFromFiles r1 = ExtractPasswordsFromFiles r2 /\
  Credentials r1 = Credentials r2.
Proof. intros H. unfold ExtractPasswords, ExtractPasswordsFromFiles, Credentials. rewrite H. repeat split; reflexivity. Qed.

(* ---------- CLI ---------- *)
Lemma bytes_eqb_eq : forall a b, bytes_eqb a b = true <-> a = b.
Proof.
  induction a as [|x a IH]; intros [|y b]; cbn [bytes_eqb]; split; intros H; try reflexivity; try discriminate.
  - apply andb_prop in H. destruct H as [H1 H2]. apply Z.eqb_eq, b2z_inj in H1. apply IH in H2. congruence.
  - injection H as -> ->. rewrite Z.eqb_refl. cbn [andb]. apply IH. reflexivity.
Qed.

Lemma selected_spec sel r : selected sel r = true <-> sel = s_all \/ r_name r = sel.
Proof. unfold selected. rewrite orb_true_iff, !bytes_eqb_eq. reflexivity. Qed.

Lemma cli_line_role sel r : wf_role r ->
  cli_line sel (expected_role r) = if selected sel r then expected_line r else [].
Proof.
  intros (_ & _ & _ & _ & Hp & _). unfold cli_line, selected, expected_line, expected_role.
  cbn [a_name a_password a_super a_login].
  destruct (bytes_eqb sel s_all); destruct (bytes_eqb (r_name r) sel); cbn [negb andb orb]; try reflexivity.
  all: destruct (r_password r) as [p|]; [destruct (Hp p eq_refl) as [H1 _];
         replace (negb (blen p =? 0)) with true by lia; rewrite <- !app_assoc; reflexivity
       | rewrite <- !app_assoc; reflexivity].
Qed.

Lemma cli_lines sel : forall rs, Forall wf_role rs ->
  concat (map (cli_line sel) (map expected_role rs)) = concat (map expected_line (filter (selected sel) rs)).
Proof.
  induction rs as [|r rs IH]; intros F; [reflexivity|]. inversion F as [|? ? Hr F']; subst.
  cbn [map concat filter]. rewrite cli_line_role by exact Hr. rewrite IH by exact F'.
  destruct (selected sel r); reflexivity.
Qed.

(* what `pgread -passwords sel` prints for the roles extraction returned *)
Theorem cli_roles sel srs : Forall wf_stored srs ->
  cli_passwords sel (Some (expected_roles srs)) = expected_cli sel (map sr_role srs).
Proof.
  intros F. assert (Fr : Forall wf_role (map sr_role srs)).
  { rewrite Forall_map. eapply Forall_impl; [|exact F]. intros s W. apply W. }
  unfold cli_passwords, expected_cli, expected_roles. rewrite <- (map_map sr_role expected_role).
  destruct (map sr_role srs) as [|r rs] eqn:E; [reflexivity|].
  rewrite <- cli_lines by exact Fr. reflexivity.
Qed.
