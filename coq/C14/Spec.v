(* Spec for C14: pg_authid (catalog/pg_authid.h, PostgreSQL 12-16: oid is an ordinary first column) rows as
   PostgreSQL stores them: the REAL 12-column schema through C03's transcription of heap_fill_tuple ([fill],
   [bitmap_of], [stored_tuple]) inside C02's heap tuples / pages / files.  Written from the catalog
   definition, not from the Go code. *)
Require Import PG.Base.Bytes PG.Base.GoSlice PG.C02.Spec PG.C03.Model PG.C03.Spec PG.C03.Main PG.C14.Model.
Require Coq.Strings.String.

(* ---- the abstract value: one role ---- *)
Record role := {
  r_oid : Z;
  r_name : bytes;                       (* rolname, NameData: 64 bytes, NUL padded *)
  r_super : bool; r_inherit : bool; r_createrole : bool; r_createdb : bool;
  r_canlogin : bool; r_replication : bool; r_bypassrls : bool;
  r_connlimit : Z;                      (* int4 *)
  r_password : option bytes;            (* text, NULLable: "md5<32 hex>" / "SCRAM-SHA-256$..." / anything *)
  r_validuntil : option Z }.            (* timestamptz (int64 microseconds), NULLable *)

Definition wf_role (r : role) : Prop :=
  0 <= r_oid r < 2 ^ 32 /\
  1 <= blen (r_name r) <= 63 /\ nul_free (r_name r) /\
  - 2 ^ 31 <= r_connlimit r < 2 ^ 31 /\
  (forall p, r_password r = Some p -> 1 <= blen p /\ blen p + 4 < 2 ^ 30) /\
  (forall v, r_validuntil r = Some v -> - 2 ^ 63 <= v < 2 ^ 63).
(* An empty-string verifier is outside the property's quantifier (passwords are 1..400 bytes; PostgreSQL 10+
   refuses to store an empty password and md5/SCRAM verifiers are never empty); AuthInfo.Password is a Go
   string, so "" is the tool's rendering of NULL. *)

(* ---- pg_authid's attributes: (attname, atttypid, attlen, attnum, attalign) ---- *)
Module ColDef.
  Import String.
  Definition col (name : string) (typid len num align : Z) : Column :=
    {| c_name := list_byte_of_string name; c_typid := typid; c_len := len; c_num := num; c_align := align |}.
  Arguments col name%string typid len num align.
  Definition auth_cols : list Column :=
    [ col "oid" 26 4 1 105;                  (* oid, 'i' *)
      col "rolname" 19 64 2 99;              (* name, 'c' *)
      col "rolsuper" 16 1 3 99; col "rolinherit" 16 1 4 99; col "rolcreaterole" 16 1 5 99;
      col "rolcreatedb" 16 1 6 99; col "rolcanlogin" 16 1 7 99; col "rolreplication" 16 1 8 99;
      col "rolbypassrls" 16 1 9 99;          (* bool, 'c' *)
      col "rolconnlimit" 23 4 10 105;        (* int4, 'i' *)
      col "rolpassword" 25 (-1) 11 105;      (* text, varlena, 'i' *)
      col "rolvaliduntil" 1184 8 12 100 ].   (* timestamptz, 'd' *)
End ColDef.
Definition auth_cols : list Column := Eval vm_compute in ColDef.auth_cols.

Definition bool_byte (b : bool) : byte := if b then x01 else x00.
Definition name_data (n : bytes) : bytes := n ++ zeros (64 - blen n).

(* heap_fill_tuple stores a text value with a 1-byte header when header+payload <= 127 (VARATT_CAN_MAKE_SHORT),
   else with a 4-byte header; [long] = the 4-byte form is kept although the value is short (never done by
   heap_fill_tuple for text, whose storage is 'x'; included so that the theorem covers both header forms at
   every length). *)
Definition pw_datum (long : bool) (p : bytes) : datum :=
  if long || (126 <? blen p) then DLong p else DShort p.

Definition role_datums (long : bool) (r : role) : list datum :=
  [ DFixed (le_enc 4 (r_oid r));
    DFixed (name_data (r_name r));
    DFixed [bool_byte (r_super r)]; DFixed [bool_byte (r_inherit r)]; DFixed [bool_byte (r_createrole r)];
    DFixed [bool_byte (r_createdb r)]; DFixed [bool_byte (r_canlogin r)]; DFixed [bool_byte (r_replication r)];
    DFixed [bool_byte (r_bypassrls r)];
    DFixed (le_enc 4 (r_connlimit r mod 2 ^ 32));
    match r_password r with Some p => pw_datum long p | None => DNull end;
    match r_validuntil r with Some v => DFixed (le_enc 8 (v mod 2 ^ 64)) | None => DNull end ].

(* ---- one stored version of a role: the row plus everything else a heap tuple header carries ---- *)
Record stored_role := {
  sr_role : role;
  sr_head : bytes;        (* t_xmin, t_xmax, t_cid, t_ctid: who created / deleted / superseded this version *)
  sr_flags2 : Z;          (* HEAP_KEYS_UPDATED, HEAP_HOT_UPDATED, HEAP_ONLY_TUPLE ... *)
  sr_mask_hi : Z;         (* t_infomask >> 1: XMIN/XMAX committed/invalid hint bits, HEAP_UPDATED ... : live or dead *)
  sr_extra : Z;           (* t_hoff = MAXALIGN(23 + bitmap) + 8 * extra; PostgreSQL: extra = 0, t_hoff = 24 or 32 *)
  sr_long : bool }.

Definition wf_stored (s : stored_role) : Prop :=
  wf_role (sr_role s) /\ blen (sr_head s) = 18 /\ 0 <= sr_flags2 s < 32 /\ 0 <= sr_mask_hi s < 32768 /\
  0 <= sr_extra s <= 27.

Definition role_tup (s : stored_role) : tup :=
  stored_tuple (sr_head s) (sr_flags2 s) (sr_mask_hi s) (sr_extra s) auth_cols (role_datums (sr_long s) (sr_role s)).

(* ---- a pg_authid heap file: C02 blocks whose NORMAL line pointers designate, in file order, these versions ---- *)
Definition file_tuples (bs : list block) : list tup :=
  flat_map (fun b => match b with BPage p => normal_tuples p | BZero => [] end) bs.
Definition stores (bs : list block) (srs : list stored_role) : Prop :=
  Forall wf_block bs /\ Forall wf_stored srs /\ file_tuples bs = map role_tup srs.

(* ---- what extraction must report ---- *)
Definition expected_role (r : role) : AuthInfo :=
  {| a_oid := r_oid r; a_name := r_name r;
     a_password := match r_password r with Some p => p | None => [] end;
     a_super := r_super r; a_login := r_canlogin r |}.
Definition expected_roles (srs : list stored_role) : list AuthInfo := map (fun s => expected_role (sr_role s)) srs.

(* ---- CLI -passwords <sel>: header, then one line per role selected by "all" / exact name ---- *)
Definition selected (sel : bytes) (r : role) : bool := bytes_eqb sel s_all || bytes_eqb (r_name r) sel.
Definition expected_line (r : role) : bytes :=
  r_name r ++ [x3a] ++ (match r_password r with Some p => p | None => s_nopw end) ++
  (if r_super r then s_super else []) ++ (if r_canlogin r then s_login else []) ++ [x0a].
Definition expected_cli (sel : bytes) (rs : list role) : bytes * Z :=
  match rs with
  | [] => (s_none_found, 0)
  | _ => (s_header ++ concat (map expected_line (filter (selected sel) rs)), 0)
  end.

(* ---- a constructive writer: roles packed into pages the way heapam does (line pointers up, MAXALIGNed tuples down) ---- *)
Definition maxalign8 (n : Z) : Z := (n + 7) / 8 * 8.
Definition padded (t : tup) : bytes := enc_tuple t ++ zeros (maxalign8 (tup_len t) - tup_len t).

(* line pointers for tuples placed downwards from [top] *)
Fixpoint place (top : Z) (ts : list tup) : list (lp * option tup) :=
  match ts with
  | [] => []
  | t :: r => let off := top - maxalign8 (tup_len t) in
              ({| lp_off := off; lp_flags := LP_NORMAL; lp_len := tup_len t |}, Some t) :: place off r
  end.
Definition tuples_size (ts : list tup) : Z := fold_right (fun t a => maxalign8 (tup_len t) + a) 0 ts.
Definition page_of (ts : list tup) : page :=
  let upper := 8192 - tuples_size ts in
  let lower := 24 + 4 * Z.of_nat (length ts) in
  {| pg_lsn_etc := zeros 12; pg_upper := upper; pg_special := 8192; pg_version := 4; pg_prune := zeros 4;
     pg_lps := place 8192 ts;
     pg_body := zeros (upper - lower) ++ concat (map padded (rev ts)) |}.
Definition fits_page (ts : list tup) : Prop := 24 + 4 * Z.of_nat (length ts) + tuples_size ts <= 8192.
(* a pg_authid file from the versions on each page *)
Definition enc_heap (pages : list (list stored_role)) : bytes :=
  enc_file (map (fun srs => BPage (page_of (map role_tup srs))) pages) [].

(* ---- decidable versions of the well-formedness predicates (sound: WfProofs.v); the driver asserts them on
   every generated value, the examples are checked with them ---- *)
Definition wf_role_b (r : role) : bool :=
  (0 <=? r_oid r) && (r_oid r <? 2 ^ 32) &&
  (1 <=? blen (r_name r)) && (blen (r_name r) <=? 63) && forallb (fun b => negb (b2z b =? 0)) (r_name r) &&
  (- 2 ^ 31 <=? r_connlimit r) && (r_connlimit r <? 2 ^ 31) &&
  match r_password r with Some p => (1 <=? blen p) && (blen p + 4 <? 2 ^ 30) | None => true end &&
  match r_validuntil r with Some v => (- 2 ^ 63 <=? v) && (v <? 2 ^ 63) | None => true end.
Definition wf_stored_b (s : stored_role) : bool :=
  wf_role_b (sr_role s) && (blen (sr_head s) =? 18) && (0 <=? sr_flags2 s) && (sr_flags2 s <? 32) &&
  (0 <=? sr_mask_hi s) && (sr_mask_hi s <? 32768) && (0 <=? sr_extra s) && (sr_extra s <=? 27).
Definition page_ok_b (srs : list stored_role) : bool :=
  forallb wf_stored_b srs &&
  (24 + 4 * Z.of_nat (length srs) + tuples_size (map role_tup srs) <=? 8192).
