(* Total, panic-free functions of the VISIBLE bytes which the Go-faithful model refines (RefineProofs.v):
   what ParsePGAuthID can observe of a tuple is its null bitmap and its data bytes. *)
Require Import PG.Base.Bytes PG.Base.GoSlice PG.C02.Model PG.C02.Spec PG.C02.Pure PG.C03.Model PG.C03.Pure PG.C14.Model.

(* cstring on plain bytes: up to the first NUL among the first maxLen bytes, else the first min(len,maxLen) bytes *)
Definition p_cstring (v : bytes) (maxLen : Z) : bytes :=
  match cstring_scan v maxLen 0 with
  | Some i => sub v 0 i
  | None => if maxLen <? blen v then sub v 0 maxLen else v
  end.

Definition p_auth (bm : option bytes) (d : bytes) : option AuthInfo :=
  if blen d <? 70 then None else
  let name := p_cstring (sub d 4 (blen d)) 64 in
  let login := if 73 <=? blen d then negb (byte_at d 72 =? 0) else false in
  let pw := if negb (p_isnull bm 11) && (80 <? blen d) then
              match fst (p_readVarlena d 80) with
              | Some (lo, hi) => if hi - lo >? 0 then sub d lo hi else []
              | None => []
              end
            else [] in
  if negb (blen name =? 0)
  then Some {| a_oid := pu 4 d 0; a_name := name; a_password := pw;
               a_super := negb (byte_at d 68 =? 0); a_login := login |}
  else None.

Definition opt_list {A} (o : option A) : list A := match o with Some a => [a] | None => [] end.
Definition p_auth_obs (o : tuple_obs) : list AuthInfo := opt_list (p_auth (o_bitmap o) (o_data o)).
Definition p_authfile (v : bytes) : list AuthInfo := flat_map p_auth_obs (p_file v false).
