(* Non-vacuity: concrete roles satisfy the hypotheses; the model run on their file gives the expected entries;
   and the three scope boundaries of the specification, shown on concrete files. *)
Require Import PG.Base.Bytes PG.Base.GoSlice.
Require Import PG.C02.Model PG.C02.Spec PG.C03.Spec PG.C03.Main.
Require Import PG.C14.Model PG.C14.Spec PG.C14.Pure PG.C14.RefineProofs PG.C14.SpecProofs PG.C14.PackProofs.

Definition b_of (s : String.string) : bytes := String.list_byte_of_string s.
Module Ex.
  Import String.
  Definition n_postgres := b_of "postgres".
  Definition n_bob := b_of "bob".
  Definition n_alice := b_of "alice".
  Definition md5 := b_of "md5d41d8cd98f00b204e9800998ecf8427e".
  Definition scram := b_of
    "SCRAM-SHA-256$4096:c2FsdHNhbHRzYWx0c2FsdHNhbA==$QUFBQUFBQUFBQUFBQUFBQUFBQUFBQUFBQUFBQUFBQUFBQUE=:QkJCQkJCQkJCQkJCQkJCQkJCQkJCQkJCQkJCQkJCQkJCQkI=".
End Ex.

Definition ex_postgres : role :=
  {| r_oid := 10; r_name := Ex.n_postgres; r_super := true; r_inherit := true; r_createrole := true; r_createdb := true;
     r_canlogin := true; r_replication := true; r_bypassrls := true; r_connlimit := -1;
     r_password := Some Ex.scram; r_validuntil := None |}.
Definition ex_bob : role :=
  {| r_oid := 16384; r_name := Ex.n_bob; r_super := false; r_inherit := true; r_createrole := false; r_createdb := false;
     r_canlogin := true; r_replication := false; r_bypassrls := false; r_connlimit := 5;
     r_password := None; r_validuntil := Some 788918400000000 |}.
Definition ex_alice (pw : bytes) : role :=
  {| r_oid := 16385; r_name := Ex.n_alice; r_super := false; r_inherit := false; r_createrole := true; r_createdb := false;
     r_canlogin := false; r_replication := false; r_bypassrls := false; r_connlimit := -1;
     r_password := Some pw; r_validuntil := Some (-1) |}.
Definition ver (r : role) (mask : Z) (long : bool) : stored_role :=
  {| sr_role := r; sr_head := repeat x07 18; sr_flags2 := 0; sr_mask_hi := mask / 2; sr_extra := 0; sr_long := long |}.
(* live postgres; bob; alice's old version (md5, dead: xmax committed) and her new one (200-byte verifier, 4-byte header) *)
Definition ex_page1 : list stored_role :=
  [ ver ex_postgres 2304 false; ver ex_bob 2304 false; ver (ex_alice Ex.md5) 1280 false ].
Definition ex_page2 : list stored_role := [ ver (ex_alice (repeat x70 200)) 10496 false; ver (ex_alice Ex.md5) 2304 true ].

Example ex_pages_ok : Forall page_ok [ex_page1; []; ex_page2].
Proof. constructor; [|constructor; [|constructor; [|constructor]]]; apply page_ok_b_sound; vm_compute; reflexivity. Qed.

(* the model executed on the constructive writer's output (agrees with C14_roles_enc_heap) *)
Example ex_run :
  ParsePGAuthID {| vis := enc_heap [ex_page1; []; ex_page2]; tail := [x00; x01] |} =
  Ok (expected_roles (ex_page1 ++ ex_page2)).
Proof. vm_compute. reflexivity. Qed.

(* Scope boundaries (outside wf_role, outside the property's quantifier), on concrete one-role files:
   a verifier of length 0 is reported like NULL, and a tuple whose name is empty is not reported. *)
Example scope_empty_verifier :
  ParsePGAuthID (exact (enc_heap [[ver (ex_alice []) 2304 false]])) =
  Ok [ {| a_oid := 16385; a_name := Ex.n_alice; a_password := []; a_super := false; a_login := false |} ].
Proof. vm_compute. reflexivity. Qed.

Example scope_empty_name :
  ParsePGAuthID (exact (enc_heap [[ver {| r_oid := 1; r_name := []; r_super := false; r_inherit := false;
      r_createrole := false; r_createdb := false; r_canlogin := false; r_replication := false; r_bypassrls := false;
      r_connlimit := 0; r_password := None; r_validuntil := None |} 2304 false]])) = Ok [].
Proof. vm_compute. reflexivity. Qed.
