Require Import PG.C02.Model PG.C02.Spec PG.C03.Model PG.C03.Spec PG.C03.Main PG.C14.Model PG.C14.Spec.
Require Extraction. Require ExtrOcamlBasic.
Extraction "model.ml" ParsePGAuthID ExtractPasswords ExtractPasswordsFromFiles Credentials cli_passwords path_authid
  role_tup role_datums auth_cols expected_role expected_roles expected_cli page_of enc_heap enc_page enc_tuple enc_file tup_len wf_stored_b page_ok_b.
