(* Pure layout function: which byte ranges of the tuple data are handed to DecodeType, for ANY input. *)
Require Import PG.Base.Bytes PG.Base.GoSlice PG.Base.Value PG.C02.Model PG.C02.Pure PG.C03.Model.

Inductive request :=
| RNil                              (* nil *)
| RDec (lo hi : Z) (oid : Z)        (* DecodeType(data[lo:hi], oid) *)
| RConst (v : gval)
| RStr (lo hi : Z).                 (* string(data[lo:hi]) *)

Definition p_readVarlena (d : bytes) (off : Z) : option (Z * Z) * Z :=
  let n := blen d - off in
  if n =? 0 then (None, 0) else
  let first := byte_at d off in
  if (first mod 2 =? 1) && negb (first =? 1) then
    let tl := first / 2 in
    if (tl <? 1) || (n <? tl) then (None, 1) else (Some (off + 1, off + tl), tl)
  else if first =? 1 then
    if n >=? 18 then (if byte_at d (off + 1) =? 18 then (None, 18) else (None, 1)) else (None, 1)
  else
    if n <? 4 then (None, 0) else
    let tl := pu 4 d off / 4 in
    if (tl <? 4) || (n <? tl) then (None, 4) else (Some (off + 4, off + tl), tl).

Definition p_readValue (d : bytes) (off typ length : Z) : request * Z :=
  if off >=? blen d then (RNil, 0) else
  if length >? 0 then
    if blen d - off <? length then (RNil, 0) else (RDec off (off + length) typ, length)
  else if length =? -1 then
    match p_readVarlena d off with
    | (None, c) => (RNil, Z.max c 1)
    | (Some (lo, hi), c) => if hi - lo =? 0 then (RConst (emptyVarlenaValue typ), c) else (RDec lo hi typ, c)
    end
  else
    let '(n, c) := cstr_scan (sub d off (blen d)) 0 in (RStr off (off + n), c).

Definition p_isnull (bm : option bytes) (attnum : Z) : bool :=
  match bm with
  | None => false
  | Some b =>
    if attnum <=? 0 then false else
    let byteIdx := (attnum - 1) / 8 in let bitIdx := (attnum - 1) mod 8 in
    if byteIdx >=? blen b then true else (byte_at b byteIdx / 2 ^ bitIdx) mod 2 =? 0
  end.

Definition col_align (col : Column) : Z :=
  let a0 := alignFromChar (c_align col) in if a0 =? 0 then typeAlign (c_typid col) (c_len col) else a0.

Fixpoint p_layout (bm : option bytes) (d : bytes) (cols : list Column) (i offset : Z) : list (bytes * request) :=
  match cols with
  | [] => []
  | col :: rest =>
    let num := if c_num col =? 0 then i + 1 else c_num col in
    if p_isnull bm num then (c_name col, RNil) :: p_layout bm d rest (i + 1) offset else
    let a1 := col_align col in
    let a2 := if (c_len col =? -1) && (offset <? blen d) then (if negb (byte_at d offset =? 0) then 1 else a1) else a1 in
    let offset' := go_align offset a2 in
    let '(rq, consumed) := p_readValue d offset' (c_typid col) (c_len col) in
    (c_name col, rq) :: p_layout bm d rest (i + 1) (offset' + consumed)
  end.

(* evaluating the requests with a decoder that sees exactly the payload bytes *)
Section Eval.
Variable decode : bytes -> Z -> gval.
Definition eval_req (d : bytes) (r : request) : gval :=
  match r with
  | RNil => VNil
  | RDec lo hi oid => decode (sub d lo hi) oid
  | RConst v => v
  | RStr lo hi => VStr (sub d lo hi)
  end.
Definition p_row (bm : option bytes) (d : bytes) (cols : list Column) : row :=
  map (fun x => (fst x, eval_req d (snd x))) (p_layout bm d cols 0 0).
Definition p_decode (bm : option bytes) (d : bytes) (cols : list Column) : option row :=
  if (blen d =? 0) && (Z.of_nat (length cols) =? 0) then None else Some (p_row bm d cols).
End Eval.
