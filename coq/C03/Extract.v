Require Import PG.C02.Model PG.C03.Model PG.C03.Pure PG.C03.Spec PG.C03.Inst.
Require Extraction. Require ExtrOcamlBasic.
Extraction "model.ml" DecodeTuple_i readValue_i ReadVarlena expected_row_i mk_tuple fill bitmap_of has_nulls
  alignFromChar typeAlign att_align pg_typalign fallback_ok_oids emptyVarlenaValue IsNull.
