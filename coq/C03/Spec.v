(* Spec for C03: how PostgreSQL forms the data area and null bitmap of a heap tuple
   (heap_fill_tuple / att_align_nominal / att_align_pointer, htup_details.h, tupmacs.h). *)
Require Import PG.Base.Bytes PG.Base.GoSlice PG.Base.Value PG.C03.Model.

(* the stored form of one attribute *)
Inductive datum :=
| DNull
| DFixed (bs : bytes)        (* attlen > 0: exactly attlen bytes, aligned to attalign *)
| DShort (bs : bytes)        (* varlena, 1-byte header (len+1)<<1|1, payload <= 126 bytes, NOT aligned *)
| DLong (bs : bytes)         (* varlena, 4-byte header total<<2, aligned to attalign *)
| DLongC (bs : bytes)        (* varlena, 4-byte header total<<2|2 (inline compressed: payload = tcinfo ++ stream), aligned *)
| DExternal (body : bytes)   (* out-of-line pointer: 0x01, VARTAG_ONDISK=0x12, 16-byte varatt_external, NOT aligned *)
| DCStr (bs : bytes).        (* attlen = -2: bytes then NUL, attalign 'c' *)

(* pg_type.typalign of the built-in types the tool knows, in bytes (pg_type.dat); 0 = not in this table *)
Definition pg_typalign (oid : Z) : Z :=
  if memZ oid [20; 701; 1114; 1184; 1083; 790; 3220; 600; 601; 603; 628; 718; 1186; 1266;
               602; 604; 3926; 3908; 3910] then 8          (* 'd' — incl. path, polygon, int8range, tsrange, tstzrange *)
  else if memZ oid [23; 26; 700; 1082; 28; 29; 25; 1043; 1042; 17; 114; 3802; 142; 1700; 869; 650;
                    1560; 1562; 3614; 3615; 4072; 3904; 3906; 3912; 829; 774] then 4     (* 'i' *)
  else if memZ oid [21; 27] then 2                          (* 's' *)
  else if memZ oid [16; 18; 19; 2950] then 1                (* 'c' *)
  else 0.
(* type ids for which the tool's fallback table (used only when a schema carries no attalign, i.e. for
   its built-in catalog schemas) agrees with pg_type.  NOT in this list: path, polygon, int8range, tsrange,
   tstzrange, which the fallback aligns to 4 instead of 8 (observation; unreachable from a dump, whose
   schemas always carry attalign). *)
Definition fallback_ok_oids : list Z :=
  [20; 701; 1114; 1184; 1083; 790; 3220; 600; 601; 603; 628; 718; 1186; 1266;
   23; 26; 700; 1082; 28; 29; 25; 1043; 1042; 17; 114; 3802; 142; 1700; 869; 650;
   1560; 1562; 3614; 3615; 4072; 3904; 3906; 3912; 829; 774; 21; 27; 16; 18; 19; 2950].

(* alignment in bytes of an attribute: the schema's attalign char c/s/i/d, else the type's typalign *)
Definition att_align (c : Column) : Z :=
  let ch := c_align c in
  if ch =? 99 then 1 else if ch =? 115 then 2 else if ch =? 105 then 4 else if ch =? 100 then 8
  else pg_typalign (c_typid c).
Definition align_known (c : Column) : Prop :=
  In (c_align c) [99; 115; 105; 100] \/ In (c_typid c) fallback_ok_oids.

Definition hdr1 (n : Z) : byte := z2b (n * 2 + 1).              (* n = total length incl. the header byte *)
Definition hdr4 (n flags : Z) : bytes := le_enc 4 (n * 4 + flags). (* n = total length incl. the 4 header bytes *)
Definition pad (off a : Z) : Z := align off a - off.

(* bytes emitted for the attributes from absolute data offset [off] on; a NULL emits nothing *)
Fixpoint fill (off : Z) (cols : list Column) (ds : list datum) : bytes :=
  match cols, ds with
  | c :: cs, d :: ds' =>
    match d with
    | DNull => fill off cs ds'
    | DFixed bs => let p := pad off (att_align c) in zeros p ++ bs ++ fill (off + p + blen bs) cs ds'
    | DShort bs => [hdr1 (blen bs + 1)] ++ bs ++ fill (off + 1 + blen bs) cs ds'
    | DLong bs => let p := pad off (att_align c) in
                  zeros p ++ hdr4 (blen bs + 4) 0 ++ bs ++ fill (off + p + 4 + blen bs) cs ds'
    | DLongC bs => let p := pad off (att_align c) in
                   zeros p ++ hdr4 (blen bs + 4) 2 ++ bs ++ fill (off + p + 4 + blen bs) cs ds'
    | DExternal body => [x01; x12] ++ body ++ fill (off + 18) cs ds'
    | DCStr bs => bs ++ [x00] ++ fill (off + blen bs + 1) cs ds'
    end
  | _, _ => []
  end.

Definition wf_align (a : Z) : Prop := a = 1 \/ a = 2 \/ a = 4 \/ a = 8.
Definition nul_free (bs : bytes) : Prop := Forall (fun b => b2z b <> 0) bs.
(* column c can store datum d *)
Definition fits (c : Column) (d : datum) : Prop :=
  wf_align (att_align c) /\ align_known c /\
  match d with
  | DNull => True
  | DFixed bs => c_len c > 0 /\ blen bs = c_len c
  | DShort bs => c_len c = -1 /\ blen bs + 1 <= 127
  | DLong bs => c_len c = -1 /\ blen bs + 4 < 2 ^ 30
  | DLongC bs => c_len c = -1 /\ 0 < blen bs /\ blen bs + 4 < 2 ^ 30
  | DExternal body => c_len c = -1 /\ blen body = 16
  | DCStr bs => c_len c = -2 /\ att_align c = 1 /\ nul_free bs      (* cstring: typalign 'c' *)
  end.

Definition is_null (d : datum) : bool := match d with DNull => true | _ => false end.

(* null bitmap: bit (i mod 8) of byte (i / 8) is SET iff attribute i (0-based) is NOT null; LSB first;
   ceil(n/8) bytes, unused high bits of the last byte are 0 *)
Fixpoint bits_val (bs : list bool) : Z :=
  match bs with [] => 0 | b :: r => (if b then 1 else 0) + 2 * bits_val r end.
Fixpoint bitmap_of_bits (fuel : nat) (bits : list bool) : bytes :=
  match fuel with
  | O => []
  | S k => match bits with [] => [] | _ => z2b (bits_val (firstn 8 bits)) :: bitmap_of_bits k (skipn 8 bits) end
  end.
Definition bitmap_of (ds : list datum) : bytes :=
  bitmap_of_bits (length ds) (map (fun d => negb (is_null d)) ds).
Definition has_nulls (ds : list datum) : bool := existsb is_null ds.

(* what decoding must yield for a stored attribute; DecodeType is applied to exactly the payload bytes *)
Section Expected.
Variable decode : bytes -> Z -> gval.     (* the scalar decoder's result on a payload (C04..C07) *)
Definition expected_value (c : Column) (d : datum) : gval :=
  match d with
  | DNull => VNil
  | DFixed bs => decode bs (c_typid c)
  | DShort bs | DLong bs | DLongC bs =>
      match bs with [] => emptyVarlenaValue (c_typid c) | _ => decode bs (c_typid c) end
  | DExternal _ => VNil                    (* out-of-line values are not fetched by the row decoder (O5) *)
  | DCStr bs => VStr bs
  end.
(* an entry for EVERY declared column; columns beyond the stored attribute count are NULL *)
Fixpoint expected_row (cols : list Column) (ds : list datum) : row :=
  match cols with
  | [] => []
  | c :: cs => match ds with
               | d :: ds' => (c_name c, expected_value c d) :: expected_row cs ds'
               | [] => (c_name c, VNil) :: expected_row cs []
               end
  end.
End Expected.

(* schema: attribute numbers are the positions (or left 0 = "use the position") *)
Fixpoint nums_ok (cols : list Column) (i : Z) : Prop :=
  match cols with [] => True | c :: cs => (c_num c = 0 \/ c_num c = i + 1) /\ nums_ok cs (i + 1) end.
