Require Import PG.Base.Bytes PG.Base.GoSlice PG.Base.Value PG.C02.Model PG.C03.Model PG.C03.Pure PG.C03.Spec PG.C03.SpecProofs.

(* (int2 a, int8 b NULL, text c short, int4 d, text e long, cstring f, text g external), only 6 stored + one beyond natts *)
Definition ex_cols : list Column :=
  [ {| c_name := [x61]; c_typid := 21; c_len := 2; c_num := 1; c_align := 115 |};
    {| c_name := [x62]; c_typid := 20; c_len := 8; c_num := 2; c_align := 100 |};
    {| c_name := [x63]; c_typid := 25; c_len := -1; c_num := 3; c_align := 105 |};
    {| c_name := [x64]; c_typid := 23; c_len := 4; c_num := 0; c_align := 0 |};
    {| c_name := [x65]; c_typid := 25; c_len := -1; c_num := 5; c_align := 105 |};
    {| c_name := [x66]; c_typid := 2275; c_len := -2; c_num := 6; c_align := 99 |};
    {| c_name := [x67]; c_typid := 25; c_len := -1; c_num := 7; c_align := 105 |};
    {| c_name := [x68]; c_typid := 23; c_len := 4; c_num := 8; c_align := 105 |} ].
Definition ex_ds : list datum :=
  [ DFixed [x01; x02]; DNull; DShort [x68; x69]; DFixed [x2a; x00; x00; x00]; DLong (repeat x78 130);
    DCStr [x6f; x6b]; DExternal (repeat x07 16) ].

Ltac fit :=
  unfold fits; split; [unfold wf_align, att_align; cbn; lia
                      | split; [unfold align_known, fallback_ok_oids; cbn; lia
                               | cbn; repeat split; try lia; repeat constructor; cbn; lia]].
Example ex_fits : fits_prefix ex_cols ex_ds /\ nums_ok ex_cols 0.
Proof.
  split.
  - unfold ex_cols, ex_ds. repeat (apply fp_cons; [fit|]). apply fp_nil.
  - cbn. repeat split; auto.
Qed.
